/-
  Cost laws for all guarded walks of the collector (`reset1`, `reset2`, `markGray`, `scanBlack`,
  `scan`, `collectWhite`, `displayGraph`), in one uniform shape.

  For a duplicate-free list `S` of object ids closed under the reported edges, and a per-object
  weight `fμ : GNode → Nat`, `msum fμ S g` is the potential of the state.  A visit that passes the
  guard makes one `trace()` call and lowers the weight of the visited object by at least one, so
  `traceCalls + potential` never grows (`Post.cost`).  The same with the weight multiplied by the
  out-degree bounds the tracer callbacks (`Post.ecost`).  `Post.oof` is the fuel law: a walk that
  is given more fuel than the current potential never runs out of fuel.
-/
import SodiumVerif.Lemmas.GcCost

set_option linter.unusedSimpArgs false

namespace SodiumVerif
namespace Gc
open State

/-! ### potentials -/

/-- sum of a per-object weight over `S` -/
def msum (f : GNode → Nat) (S : List Nat) (g : State) : Nat :=
  (S.map fun i => f (g.nodes.get i)).sum

theorem sum_map_flip {S : List Nat} (hS : S.Nodup) {s : Nat} (hs : s ∈ S) {f f' : Nat → Nat}
    (hne : ∀ i, i ≠ s → f i = f' i) : (S.map f).sum + f' s = (S.map f').sum + f s := by
  induction S with
  | nil => cases hs
  | cons a t ih =>
    rw [List.nodup_cons] at hS
    by_cases has : a = s
    · subst has
      have : t.map f = t.map f' := by
        apply List.map_congr_left; intro i hi; exact hne i (fun e => hS.1 (e ▸ hi))
      simp only [List.map_cons, List.sum_cons, this]; omega
    · have hs' : s ∈ t := by
        rcases List.mem_cons.mp hs with e | h
        · exact absurd e.symm has
        · exact h
      have h1 := ih hS.2 hs'
      have h2 := hne a has
      simp only [List.map_cons, List.sum_cons]; omega

theorem sum_map_le_mul {S : List Nat} {f : Nat → Nat} {c : Nat} (h : ∀ i, f i ≤ c) :
    (S.map f).sum ≤ c * S.length := by
  induction S with
  | nil => simp
  | cons a t ih =>
    have := h a
    simp only [List.map_cons, List.sum_cons, List.length_cons, Nat.mul_succ]; omega

theorem msum_le {f : GNode → Nat} {c : Nat} (h : ∀ x, f x ≤ c) (S : List Nat) (g : State) :
    msum f S g ≤ c * S.length :=
  sum_map_le_mul fun _ => h _

theorem msum_congr {f : GNode → Nat} {S : List Nat} {g g' : State}
    (h : ∀ i, f (g'.nodes.get i) = f (g.nodes.get i)) : msum f S g' = msum f S g := by
  unfold msum; congr 1; apply List.map_congr_left; intro i _; exact h i

theorem msum_upd {S : List Nat} (hS : S.Nodup) {s : Nat} (hs : s ∈ S) (f : GNode → Nat)
    (g : State) (h : GNode → GNode) :
    msum f S (g.upd s h) + f (g.nodes.get s) = msum f S g + f (h (g.nodes.get s)) := by
  have h1 := sum_map_flip hS hs (f := fun i => f ((g.upd s h).nodes.get i))
    (f' := fun i => f (g.nodes.get i))
    (by intro i hi; simp [State.upd, Store.get_set, hi])
  have h2 : f ((g.upd s h).nodes.get s) = f (h (g.nodes.get s)) := by
    simp [State.upd, Store.get_set]
  have h3 : msum f S (g.upd s h) + f (g.nodes.get s)
      = msum f S g + f ((g.upd s h).nodes.get s) := h1
  omega

/-! ### what no walk changes -/

structure NodeFrame (x x' : GNode) : Prop where
  traced : x'.traced = x.traced
  owned : x'.owned = x.owned
  freed : x'.freed = x.freed
  rc : x'.rc = x.rc
  dtorRuns : x'.dtorRuns = x.dtorRuns

theorem NodeFrame.refl (x : GNode) : NodeFrame x x := ⟨rfl, rfl, rfl, rfl, rfl⟩
theorem NodeFrame.trans {a b c : GNode} (h1 : NodeFrame a b) (h2 : NodeFrame b c) :
    NodeFrame a c :=
  ⟨h2.traced.trans h1.traced, h2.owned.trans h1.owned, h2.freed.trans h1.freed,
   h2.rc.trans h1.rc, h2.dtorRuns.trans h1.dtorRuns⟩

structure Frame (g g' : State) : Prop where
  node : ∀ i, NodeFrame (g.nodes.get i) (g'.nodes.get i)
  nextId : g'.nextId = g.nextId

theorem Frame.refl (g : State) : Frame g g := ⟨fun _ => NodeFrame.refl _, rfl⟩
theorem Frame.trans {a b c : State} (h1 : Frame a b) (h2 : Frame b c) : Frame a c :=
  ⟨fun i => (h1.node i).trans (h2.node i), h2.nextId.trans h1.nextId⟩
theorem Frame.same {g g' : State} (h : Frame g g') : SameEdges g g' := fun i => (h.node i).traced
theorem Frame.of_nodes {g g' : State} (h : g'.nodes = g.nodes) (hn : g'.nextId = g.nextId) :
    Frame g g' := ⟨fun i => by rw [h]; exact NodeFrame.refl _, hn⟩

theorem Frame.upd (g : State) (s : Nat) (h : GNode → GNode)
    (hf : NodeFrame (g.nodes.get s) (h (g.nodes.get s))) : Frame g (g.upd s h) := by
  refine ⟨fun i => ?_, rfl⟩
  by_cases hi : i = s
  · subst hi; simpa [State.upd, Store.get_set] using hf
  · simpa [State.upd, Store.get_set, hi] using NodeFrame.refl _

/-! ### the uniform postcondition -/

/-- `g'` is reached from `g` by (part of) a walk: `fμ` weights `trace()` calls, `fε` weights
    tracer callbacks, `n` is the fuel the walk was given, `k` the number of callbacks made outside
    a visit (one per folded edge). -/
structure Post (fμ fε : GNode → Nat) (S : List Nat) (n k : Nat) (g g' : State) : Prop where
  cost : g'.traceCalls + msum fμ S g' ≤ g.traceCalls + msum fμ S g
  ecost : g'.edgeCalls + msum fε S g' ≤ g.edgeCalls + msum fε S g + k
  mono : msum fμ S g' ≤ msum fμ S g
  tmono : g.traceCalls ≤ g'.traceCalls
  frame : Frame g g'
  roots : g'.roots = g.roots
  tbf : ∀ x ∈ g'.toBeFreed, x ∈ g.toBeFreed ∨ x ∈ S
  oof : msum fμ S g < n → g'.oof = g.oof

namespace Post
variable {fμ fε : GNode → Nat} {S : List Nat} {n k j : Nat} {g g' g'' : State}

theorem refl (g : State) : Post fμ fε S n k g g :=
  ⟨Nat.le_refl _, Nat.le_add_right _ _, Nat.le_refl _, Nat.le_refl _, Frame.refl g, rfl,
   fun _ h => Or.inl h, fun _ => rfl⟩

theorem trans (h1 : Post fμ fε S n j g g') (h2 : Post fμ fε S n k g' g'') :
    Post fμ fε S n (j + k) g g'' where
  cost := by have := h1.cost; have := h2.cost; omega
  ecost := by have := h1.ecost; have := h2.ecost; omega
  mono := Nat.le_trans h2.mono h1.mono
  tmono := Nat.le_trans h1.tmono h2.tmono
  frame := h1.frame.trans h2.frame
  roots := h2.roots.trans h1.roots
  tbf := fun x hx => by
    rcases h2.tbf x hx with h | h
    · exact h1.tbf x h
    · exact Or.inr h
  oof := fun hn => by
    have := h1.mono
    rw [h2.oof (by omega), h1.oof hn]

theorem weaken (h : Post fμ fε S n j g g') (hjk : j ≤ k) : Post fμ fε S n k g g' :=
  { h with ecost := by have := h.ecost; omega }

/-- running out of fuel: allowed when no fuel was promised -/
theorem oof0 (g : State) : Post fμ fε S 0 k g { g with oof := true } :=
  ⟨Nat.le_refl _, Nat.le_add_right _ _, Nat.le_refl _, Nat.le_refl _, Frame.of_nodes rfl rfl, rfl,
   fun _ h => Or.inl h, fun h => absurd h (Nat.not_lt_zero _)⟩

/-- a step that changes no weight and makes `k` callbacks -/
theorem simple {g1 : State}
    (hμ : ∀ i, fμ (g1.nodes.get i) = fμ (g.nodes.get i))
    (hε : ∀ i, fε (g1.nodes.get i) = fε (g.nodes.get i))
    (hf : Frame g g1) (htc : g1.traceCalls = g.traceCalls)
    (hec : g1.edgeCalls = g.edgeCalls + k) (hoof : g1.oof = g.oof) (hroots : g1.roots = g.roots)
    (htbf : ∀ x ∈ g1.toBeFreed, x ∈ g.toBeFreed ∨ x ∈ S) : Post fμ fε S n k g g1 :=
  ⟨by rw [msum_congr hμ, htc]; exact Nat.le_refl _, by rw [msum_congr hε, hec]; omega,
   by rw [msum_congr hμ]; exact Nat.le_refl _, by rw [htc]; exact Nat.le_refl _, hf, hroots, htbf,
   fun _ => hoof⟩

theorem tickE (g : State) : Post fμ fε S n 1 g g.tickE :=
  simple (fun _ => rfl) (fun _ => rfl) (Frame.of_nodes rfl rfl) rfl rfl rfl rfl fun _ h => Or.inl h

/-- folding a step over a list of objects of `S`, with a side invariant `J` -/
theorem foldlJ {σ : Type} (π : σ → State) (J : σ → Prop) (step : σ → Nat → σ) (k0 : Nat)
    (l : List Nat)
    (hstep : ∀ a t, t ∈ l → t ∈ S → Closed (π a) S → J a →
      Post fμ fε S n k0 (π a) (π (step a t)) ∧ J (step a t)) :
    ∀ (a : σ), (∀ t ∈ l, t ∈ S) → Closed (π a) S → J a →
      Post fμ fε S n (k0 * l.length) (π a) (π (l.foldl step a)) ∧ J (l.foldl step a) := by
  induction l with
  | nil => intro a _ _ hj; exact ⟨refl _, hj⟩
  | cons b t ih =>
    intro a hl hc hj
    have h1 := hstep a b List.mem_cons_self (hl b List.mem_cons_self) hc hj
    have h2 := ih (fun a x hx => hstep a x (List.mem_cons_of_mem _ hx)) (step a b)
      (fun x hx => hl x (List.mem_cons_of_mem _ hx))
      (hc.of_same h1.1.frame.same) h1.2
    have h3 := trans h1.1 h2.1
    rw [List.foldl_cons, List.length_cons, Nat.mul_succ, Nat.add_comm]
    exact ⟨h3, h2.2⟩

/-- folding a step over a list of objects of `S` -/
theorem foldl {σ : Type} (π : σ → State) (step : σ → Nat → σ) (k0 : Nat)
    (hstep : ∀ a t, t ∈ S → Closed (π a) S → Post fμ fε S n k0 (π a) (π (step a t))) :
    ∀ (l : List Nat) (a : σ), (∀ t ∈ l, t ∈ S) → Closed (π a) S →
      Post fμ fε S n (k0 * l.length) (π a) (π (l.foldl step a)) :=
  fun l a hl hc => (foldlJ π (fun _ => True) step k0 l
    (fun a t _ ht hca _ => ⟨hstep a t ht hca, trivial⟩) a hl hc trivial).1

/-- a visit that passes the guard: flip the object's weight, one `trace()` call, then fold over
    the object's edges -/
theorem visit (hS : S.Nodup) {s : Nat} (hs : s ∈ S) (hc : Closed g S) (h : GNode → GNode)
    (hframe : NodeFrame (g.nodes.get s) (h (g.nodes.get s)))
    (hμ : fμ (h (g.nodes.get s)) + 1 ≤ fμ (g.nodes.get s))
    (hε : fε (h (g.nodes.get s)) + (g.nodes.get s).traced.length ≤ fε (g.nodes.get s))
    (hfold : Closed (g.upd s h).tick S → (∀ t ∈ (g.nodes.get s).traced, t ∈ S) →
      Post fμ fε S n (g.nodes.get s).traced.length (g.upd s h).tick g') :
    Post fμ fε S (n + 1) 0 g g' := by
  have e1 := msum_upd hS hs fμ g h
  have e2 := msum_upd hS hs fε g h
  have t1 : msum fμ S (g.upd s h).tick = msum fμ S (g.upd s h) := rfl
  have t2 : msum fε S (g.upd s h).tick = msum fε S (g.upd s h) := rfl
  have c1 : (g.upd s h).tick.traceCalls = g.traceCalls + 1 := rfl
  have c2 : (g.upd s h).tick.edgeCalls = g.edgeCalls := rfl
  have c3 : (g.upd s h).tick.oof = g.oof := rfl
  have c4 : (g.upd s h).tick.roots = g.roots := rfl
  have c5 : (g.upd s h).tick.toBeFreed = g.toBeFreed := rfl
  have f1 : Frame g (g.upd s h).tick :=
    (Frame.upd g s h hframe).trans (Frame.of_nodes rfl rfl)
  have hfold := hfold (hc.of_same f1.same) (fun t ht => hc s hs t ht)
  refine ⟨?_, ?_, ?_, ?_, f1.trans hfold.frame, hfold.roots.trans c4, ?_, ?_⟩
  · have := hfold.cost; omega
  · have := hfold.ecost; omega
  · have := hfold.mono; omega
  · have := hfold.tmono; omega
  · intro x hx; have := hfold.tbf x hx; rwa [c5] at this
  · intro hn; rw [hfold.oof (by omega), c3]

/-- `overEdges`: one callback per edge, then the recursive visit -/
theorem overEdges (rec : Nat → State → State)
    (hrec : ∀ t g, t ∈ S → Closed g S → Post fμ fε S n 0 g (rec t g))
    (l : List Nat) (g : State) (hl : ∀ t ∈ l, t ∈ S) (hc : Closed g S) :
    Post fμ fε S n l.length g (Gc.overEdges rec l g) := by
  have h := foldl (fμ := fμ) (fε := fε) (S := S) (n := n) (fun g : State => g)
    (fun g t => rec t g.tickE) 1
    (fun a t ht hca => by
      have h1 : Post fμ fε S n 1 a a.tickE := tickE a
      have h2 := hrec t a.tickE ht hca
      exact trans h1 h2) l g hl hc
  rw [Nat.one_mul] at h
  exact h

end Post

/-! ### `reset1`, `reset2` -/

def wUnvis (x : GNode) : Nat := if x.visited then 0 else 1
def eUnvis (x : GNode) : Nat := if x.visited then 0 else x.traced.length
def wVis (x : GNode) : Nat := if x.visited then 1 else 0
def eVis (x : GNode) : Nat := if x.visited then x.traced.length else 0

theorem reset1_succ_c (fuel s : Nat) (g : State) :
    reset1 (fuel + 1) s g = if (g.nodes.get s).visited = true then g
      else Gc.overEdges (reset1 fuel) (g.nodes.get s).traced
        (g.upd s fun x => { x with visited := true, adj := 0 }).tick := by
  have e : ((g.upd s fun x => { x with visited := true, adj := 0 }).nodes.get s).traced
      = (g.nodes.get s).traced := by simp [State.upd]
  rw [← e]; rfl

theorem reset1_post {S : List Nat} (hS : S.Nodup) :
    ∀ (fuel s : Nat) (g : State), s ∈ S → Closed g S →
      Post wUnvis eUnvis S fuel 0 g (reset1 fuel s g) := by
  intro fuel
  induction fuel with
  | zero => intro s g _ _; exact Post.oof0 g
  | succ fuel ih =>
    intro s g hs hc
    rw [reset1_succ_c]
    by_cases hv : (g.nodes.get s).visited = true
    · rw [if_pos hv]; exact Post.refl g
    · rw [if_neg hv]
      apply Post.visit hS hs hc (fun x => { x with visited := true, adj := 0 })
      · exact ⟨rfl, rfl, rfl, rfl, rfl⟩
      · simp [wUnvis, hv]
      · simp [eUnvis, hv]
      · intro hc1 hl
        exact Post.overEdges (reset1 fuel) (fun t g ht hcg => ih t g ht hcg) _ _ hl hc1

theorem reset2_succ_c (fuel s : Nat) (g : State) :
    reset2 (fuel + 1) s g = if ¬ (g.nodes.get s).visited = true then g else
      Gc.overEdges (reset2 fuel) (g.nodes.get s).traced
        (g.upd s fun x => { x with visited := false }).tick := by
  have e : ((g.upd s fun x => { x with visited := false }).nodes.get s).traced
      = (g.nodes.get s).traced := by simp [State.upd]
  rw [← e]; rfl

theorem reset2_post {S : List Nat} (hS : S.Nodup) :
    ∀ (fuel s : Nat) (g : State), s ∈ S → Closed g S →
      Post wVis eVis S fuel 0 g (reset2 fuel s g) := by
  intro fuel
  induction fuel with
  | zero => intro s g _ _; exact Post.oof0 g
  | succ fuel ih =>
    intro s g hs hc
    rw [reset2_succ_c]
    by_cases hv : (g.nodes.get s).visited = true
    · rw [if_neg (fun h => h hv)]
      apply Post.visit hS hs hc (fun x => { x with visited := false })
      · exact ⟨rfl, rfl, rfl, rfl, rfl⟩
      · simp [wVis, hv]
      · simp [eVis, hv]
      · intro hc1 hl
        exact Post.overEdges (reset2 fuel) (fun t g ht hcg => ih t g ht hcg) _ _ hl hc1
    · rw [if_pos hv]; exact Post.refl g

/-! ### `markGray` -/

@[simp] theorem State.setPanic_traceCalls (g : State) (p) :
    (g.setPanic p).traceCalls = g.traceCalls := by
  unfold State.setPanic; split <;> rfl
@[simp] theorem State.setPanic_edgeCalls (g : State) (p) :
    (g.setPanic p).edgeCalls = g.edgeCalls := by
  unfold State.setPanic; split <;> rfl

def wNonGray (x : GNode) : Nat := if x.color = .gray then 0 else 1
def eNonGray (x : GNode) : Nat := if x.color = .gray then 0 else x.traced.length

/-- what `mark_gray` does for an edge before recursing: one callback, bump `adj` of the target,
    compare the previous adjustment with the count -/
def mgPre (g : State) (t : Nat) : State :=
  let g := g.tickE
  let old := (g.node t).adj
  let g := g.upd t fun x => { x with adj := old + 1 }
  if old > (g.node t).rc then g.setPanic .adjGtRc else g

theorem markGray_succ_c (fuel s : Nat) (g : State) :
    markGray (fuel + 1) s g = if (g.nodes.get s).color = .gray then g else
      (g.nodes.get s).traced.foldl (fun g t => markGray fuel t (mgPre g t))
        (g.upd s fun x => { x with color := .gray }).tick := by
  have e : ((g.upd s fun x => { x with color := .gray }).nodes.get s).traced
      = (g.nodes.get s).traced := by simp [State.upd]
  rw [← e]; rfl

theorem mgPre_nodes (g : State) (t : Nat) :
    (mgPre g t).nodes = g.nodes.set t { g.nodes.get t with adj := (g.nodes.get t).adj + 1 } := by
  unfold mgPre; simp only [State.node, State.upd]; split <;> simp

theorem mgPre_post (fμ fε : GNode → Nat) (S : List Nat) (n : Nat)
    (hμ : ∀ x : GNode, ∀ a, fμ { x with adj := a } = fμ x)
    (hε : ∀ x : GNode, ∀ a, fε { x with adj := a } = fε x) (g : State) (t : Nat) :
    Post fμ fε S n 1 g (mgPre g t) := by
  have hn := mgPre_nodes g t
  apply Post.simple
  · intro i; rw [hn, Store.get_set]; split
    · next h => subst h; exact hμ _ _
    · rfl
  · intro i; rw [hn, Store.get_set]; split
    · next h => subst h; exact hε _ _
    · rfl
  · refine ⟨fun i => ?_, ?_⟩
    · rw [hn, Store.get_set]; split
      · next h => subst h; exact ⟨rfl, rfl, rfl, rfl, rfl⟩
      · exact NodeFrame.refl _
    · unfold mgPre; simp only [State.node, State.upd]; split <;> simp
  · unfold mgPre; simp only [State.node, State.upd]; split <;> simp
  · unfold mgPre; simp only [State.node, State.upd]; split <;> simp
  · unfold mgPre; simp only [State.node, State.upd]; split <;> simp
  · unfold mgPre; simp only [State.node, State.upd]; split <;> simp
  · intro x hx; left; revert hx; unfold mgPre; simp only [State.node, State.upd]; split <;> simp

theorem markGray_post {S : List Nat} (hS : S.Nodup) :
    ∀ (fuel s : Nat) (g : State), s ∈ S → Closed g S →
      Post wNonGray eNonGray S fuel 0 g (markGray fuel s g) := by
  intro fuel
  induction fuel with
  | zero => intro s g _ _; exact Post.oof0 g
  | succ fuel ih =>
    intro s g hs hc
    rw [markGray_succ_c]
    by_cases hv : (g.nodes.get s).color = .gray
    · rw [if_pos hv]; exact Post.refl g
    · rw [if_neg hv]
      apply Post.visit hS hs hc (fun x => { x with color := .gray })
      · exact ⟨rfl, rfl, rfl, rfl, rfl⟩
      · simp [wNonGray, hv]
      · simp [eNonGray, hv]
      · intro hc1 hl
        have h := Post.foldl (fμ := wNonGray) (fε := eNonGray) (S := S) (n := fuel)
          (fun g : State => g) (fun g t => markGray fuel t (mgPre g t)) 1
          (fun a t ht hca => by
            have h1 := mgPre_post wNonGray eNonGray S fuel (fun _ _ => rfl) (fun _ _ => rfl) a t
            have h2 := ih t (mgPre a t) ht (hca.of_same h1.frame.same)
            exact Post.trans h1 h2) _ _ hl hc1
        rw [Nat.one_mul] at h
        exact h

/-! ### `scanBlack`, `scan` -/

def wScan (x : GNode) : Nat :=
  (if x.color = .gray then 1 else 0) + (if x.color = .black then 0 else 1)
def eScan (x : GNode) : Nat :=
  (if x.color = .gray then x.traced.length else 0) + (if x.color = .black then 0 else x.traced.length)

theorem scanBlack_succ_c (fuel s : Nat) (g : State) :
    scanBlack (fuel + 1) s g =
      (g.nodes.get s).traced.foldl (fun g t =>
          if (g.tickE.nodes.get t).color ≠ .black then scanBlack fuel t g.tickE else g.tickE)
        (g.upd s fun x => { x with color := .black }).tick := by
  have e : ((g.upd s fun x => { x with color := .black }).nodes.get s).traced
      = (g.nodes.get s).traced := by simp [State.upd]
  rw [← e]; rfl

theorem scanBlack_post {S : List Nat} (hS : S.Nodup) :
    ∀ (fuel s : Nat) (g : State), s ∈ S → Closed g S → (g.nodes.get s).color ≠ .black →
      Post wScan eScan S fuel 0 g (scanBlack fuel s g) := by
  intro fuel
  induction fuel with
  | zero => intro s g _ _ _; exact Post.oof0 g
  | succ fuel ih =>
    intro s g hs hc hb
    rw [scanBlack_succ_c]
    apply Post.visit hS hs hc (fun x => { x with color := .black })
    · exact ⟨rfl, rfl, rfl, rfl, rfl⟩
    · simp [wScan, hb]
    · simp [eScan, hb]
    · intro hc1 hl
      have h := Post.foldl (fμ := wScan) (fε := eScan) (S := S) (n := fuel)
        (fun g : State => g) (fun g t =>
          if (g.tickE.nodes.get t).color ≠ .black then scanBlack fuel t g.tickE else g.tickE) 1
        (fun a t ht hca => by
          have h1 : Post wScan eScan S fuel 1 a a.tickE := Post.tickE a
          by_cases hbt : (a.tickE.nodes.get t).color = .black
          · simp only [ne_eq, hbt, not_true_eq_false, if_false]; exact h1
          · simp only [ne_eq, hbt, not_false_eq_true, if_true]
            exact Post.trans h1 (ih t a.tickE ht hca hbt)) _ _ hl hc1
      rw [Nat.one_mul] at h
      exact h

theorem scan_succ_c (fuel s : Nat) (g : State) :
    scan (fuel + 1) s g = if (g.nodes.get s).color ≠ .gray then g
      else if (g.nodes.get s).adj = (g.nodes.get s).rc then
        Gc.overEdges (scan fuel) (g.nodes.get s).traced
          (g.upd s fun x => { x with color := .white }).tick
      else scanBlack (fuel + 1) s g := by
  have e : ((g.upd s fun x => { x with color := .white }).nodes.get s).traced
      = (g.nodes.get s).traced := by simp [State.upd]
  rw [← e]; rfl

theorem scan_post {S : List Nat} (hS : S.Nodup) :
    ∀ (fuel s : Nat) (g : State), s ∈ S → Closed g S →
      Post wScan eScan S fuel 0 g (scan fuel s g) := by
  intro fuel
  induction fuel with
  | zero => intro s g _ _; exact Post.oof0 g
  | succ fuel ih =>
    intro s g hs hc
    rw [scan_succ_c]
    by_cases hv : (g.nodes.get s).color = .gray
    · rw [if_neg (fun h => h hv)]
      by_cases ha : (g.nodes.get s).adj = (g.nodes.get s).rc
      · rw [if_pos ha]
        apply Post.visit hS hs hc (fun x => { x with color := .white })
        · exact ⟨rfl, rfl, rfl, rfl, rfl⟩
        · simp [wScan, hv]
        · simp [eScan, hv]
        · intro hc1 hl
          exact Post.overEdges (scan fuel) (fun t g ht hcg => ih t g ht hcg) _ _ hl hc1
      · rw [if_neg ha]
        exact scanBlack_post hS (fuel + 1) s g hs hc (by rw [hv]; decide)
    · rw [if_pos hv]; exact Post.refl g

/-! ### `collectWhite` -/

def wWhite (x : GNode) : Nat := if x.color = .white then 1 else 0
def eWhite (x : GNode) : Nat := if x.color = .white then x.traced.length else 0

theorem collectWhite_succ_c (fuel s : Nat) (gw : State × List Nat) :
    collectWhite (fuel + 1) s gw = if (gw.1.nodes.get s).color = .white then
      (((gw.1.nodes.get s).traced.foldl
          (fun (gw : State × List Nat) t => collectWhite fuel t (gw.1.tickE, gw.2))
          ((gw.1.upd s fun x => { x with color := .black }).tick, gw.2)).1,
       ((gw.1.nodes.get s).traced.foldl
          (fun (gw : State × List Nat) t => collectWhite fuel t (gw.1.tickE, gw.2))
          ((gw.1.upd s fun x => { x with color := .black }).tick, gw.2)).2 ++ [s])
      else gw := by
  have e : ((gw.1.upd s fun x => { x with color := .black }).nodes.get s).traced
      = (gw.1.nodes.get s).traced := by simp [State.upd]
  rw [← e]; rfl

theorem Closed.upd_tick {g : State} {S : List Nat} (hc : Closed g S) (s : Nat) (h : GNode → GNode)
    (hf : NodeFrame (g.nodes.get s) (h (g.nodes.get s))) : Closed (g.upd s h).tick S :=
  hc.of_same (Frame.upd g s h hf).same

/-- the walk's cost, and every collected object is in `S` -/
theorem collectWhite_post {S : List Nat} (hS : S.Nodup) :
    ∀ (fuel s : Nat) (gw : State × List Nat), s ∈ S → Closed gw.1 S →
      Post wWhite eWhite S fuel 0 gw.1 (collectWhite fuel s gw).1 ∧
      (∀ x ∈ (collectWhite fuel s gw).2, x ∈ gw.2 ∨ x ∈ S) := by
  intro fuel
  induction fuel with
  | zero => intro s gw _ _; exact ⟨Post.oof0 gw.1, fun x h => Or.inl h⟩
  | succ fuel ih =>
    intro s gw hs hc
    rw [collectWhite_succ_c]
    by_cases hv : (gw.1.nodes.get s).color = .white
    · rw [if_pos hv]
      have hfold := fun hc1 hl => Post.foldlJ (fμ := wWhite) (fε := eWhite) (S := S) (n := fuel)
          (fun gw : State × List Nat => gw.1) (fun a => ∀ x ∈ a.2, x ∈ gw.2 ∨ x ∈ S)
          (fun (gw : State × List Nat) t => collectWhite fuel t (gw.1.tickE, gw.2)) 1
          (gw.1.nodes.get s).traced
          (fun a t _ ht hca hj => by
            have h1 : Post wWhite eWhite S fuel 1 a.1 a.1.tickE := Post.tickE a.1
            have h2 := ih t (a.1.tickE, a.2) ht hca
            refine ⟨Post.trans h1 h2.1, fun x hx => ?_⟩
            rcases h2.2 x hx with h | h
            · exact hj x h
            · exact Or.inr h)
          ((gw.1.upd s fun x => { x with color := .black }).tick, gw.2) hl hc1
          (fun x hx => Or.inl hx)
      refine ⟨?_, ?_⟩
      · apply Post.visit hS hs hc (fun x => { x with color := .black })
        · exact ⟨rfl, rfl, rfl, rfl, rfl⟩
        · simp [wWhite, hv]
        · simp [eWhite, hv]
        · intro hc1 hl
          have h := (hfold hc1 hl).1
          rw [Nat.one_mul] at h
          exact h
      · intro x hx
        have hc1 := hc.upd_tick s (fun x => { x with color := .black }) ⟨rfl, rfl, rfl, rfl, rfl⟩
        rcases List.mem_append.mp hx with h | h
        · exact (hfold hc1 (fun t ht => hc s hs t ht)).2 x h
        · rw [List.mem_singleton.mp h]; exact Or.inr hs
    · rw [if_neg hv]; exact ⟨Post.refl _, fun x h => Or.inl h⟩

end Gc
end SodiumVerif
