/-
  `mark_gray`: which objects it colours (and along which paths), and the counting invariant
  "adjustment = number of walked edges from gray objects", which keeps the panic test silent.
-/
import SodiumVerif.Lemmas.GcReset

namespace SodiumVerif
namespace Gc
open State

/-- every reported edge points at an allocated object -/
def WfE (g : State) : Prop := ∀ i, ∀ t ∈ edges g i, t < g.nextId

theorem WfE.of_walk {g g' : State} (h : WfE g) (w : Walk g g') : WfE g' := by
  intro i t ht; rw [w.edges] at ht; rw [w.nextId]; exact h i t ht

def isGray (g : State) (i : Nat) : Prop := (g.nodes.get i).color = .gray

/-! ### colours and paths -/

/-- effect of (a sequence of) `mark_gray` walks started from objects in `Src` -/
structure MGr (Src : Nat → Prop) (g g' : State) : Prop where
  walk : Walk g g'
  visited : ∀ i, (g'.nodes.get i).visited = (g.nodes.get i).visited
  buffered : ∀ i, (g'.nodes.get i).buffered = (g.nodes.get i).buffered
  color : ∀ i, (g'.nodes.get i).color = (g.nodes.get i).color ∨ (g'.nodes.get i).color = .gray
  path : ∀ i, (g.nodes.get i).color ≠ .gray → (g'.nodes.get i).color = .gray →
    ∃ r, Src r ∧ PReach (edges g) (isGray g') r i
  ge : ∀ i, g.nextId ≤ i → g'.nodes.get i = g.nodes.get i

namespace MGr
variable {Src : Nat → Prop} {g g' g'' : State}

theorem refl (Src : Nat → Prop) (g : State) : MGr Src g g :=
  ⟨Walk.refl g, fun _ => rfl, fun _ => rfl, fun _ => .inl rfl, fun _ h h' => absurd h' h, fun _ _ => rfl⟩

theorem gray_mono (h : MGr Src g g') (i : Nat) (hg : isGray g i) : isGray g' i := by
  unfold isGray at *
  rcases h.color i with e | e
  · rw [e]; exact hg
  · exact e

theorem trans (h1 : MGr Src g g') (h2 : MGr Src g' g'') : MGr Src g g'' := by
  refine ⟨h1.walk.trans h2.walk, fun i => (h2.visited i).trans (h1.visited i),
    fun i => (h2.buffered i).trans (h1.buffered i), fun i => ?_, fun i hn hg => ?_, fun i hi => ?_⟩
  · rcases h2.color i with e2 | e2
    · rw [e2]; exact h1.color i
    · exact .inr e2
  · by_cases hg' : (g'.nodes.get i).color = .gray
    · obtain ⟨r, hr, p⟩ := h1.path i hn hg'
      exact ⟨r, hr, p.mono (fun j => h2.gray_mono j)⟩
    · obtain ⟨r, hr, p⟩ := h2.path i hg' hg
      rw [h1.walk.edges] at p
      exact ⟨r, hr, p⟩
  · rw [h2.ge i (by rw [h1.walk.nextId]; exact hi), h1.ge i hi]

theorem mono {Src' : Nat → Prop} (hS : ∀ i, Src i → Src' i) (h : MGr Src g g') : MGr Src' g g' :=
  ⟨h.walk, h.visited, h.buffered, h.color,
   fun i a b => let ⟨r, hr, p⟩ := h.path i a b; ⟨r, hS r hr, p⟩, h.ge⟩

end MGr

/-- a step that changes no colour, no `visited`/`buffered` flag and no unallocated object -/
theorem mgr_of_same {Src : Nat → Prop} {g g' : State} (hw : Walk g g')
    (hv : ∀ i, (g'.nodes.get i).visited = (g.nodes.get i).visited)
    (hb : ∀ i, (g'.nodes.get i).buffered = (g.nodes.get i).buffered)
    (hc : ∀ i, (g'.nodes.get i).color = (g.nodes.get i).color)
    (hge : ∀ i, g.nextId ≤ i → g'.nodes.get i = g.nodes.get i) : MGr Src g g' :=
  ⟨hw, hv, hb, fun i => .inl (hc i), fun i h h' => absurd ((hc i) ▸ h') h, hge⟩

theorem mgStep_nodes (g : State) (t i : Nat) :
    (mgStep g t).nodes.get i =
      if i = t then { g.nodes.get t with adj := (g.nodes.get t).adj + 1 } else g.nodes.get i := by
  unfold mgStep
  simp only []
  split <;> simp only [State.setPanic_nodes, State.upd, State.tickE, Store.get_set]

theorem mgr_mgStep {Src : Nat → Prop} (g : State) (t : Nat) (ht : t < g.nextId) :
    MGr Src g (mgStep g t) := by
  refine mgr_of_same (walkP_mgStep_walk g t) ?_ ?_ ?_ ?_ <;> intro i
  · rw [mgStep_nodes]; split
    · next h => subst h; rfl
    · rfl
  · rw [mgStep_nodes]; split
    · next h => subst h; rfl
    · rfl
  · rw [mgStep_nodes]; split
    · next h => subst h; rfl
    · rfl
  · intro hi
    rw [mgStep_nodes, if_neg (by omega)]

theorem markGray_spec : ∀ (fuel s : Nat) (g : State), s < g.nextId → WfE g →
    MGr (· = s) g (markGray fuel s g) ∧
      ((markGray fuel s g).oof = false → isGray (markGray fuel s g) s) := by
  intro fuel
  induction fuel with
  | zero =>
    intro s g _ _
    exact ⟨mgr_of_same (walkP_oof g).toWalk (fun _ => rfl) (fun _ => rfl) (fun _ => rfl)
      (fun _ _ => rfl), fun h => by simp [markGray_zero] at h⟩
  | succ fuel ih =>
    intro s g hs hwf
    rw [markGray_succ]
    by_cases hc : (g.nodes.get s).color = .gray
    · rw [if_pos hc]; exact ⟨MGr.refl _ g, fun _ => hc⟩
    · rw [if_neg hc]
      generalize hg1 : (g.upd s fun x => { x with color := .gray }).tick = g1
      have hw1 : Walk g g1 := by
        rw [← hg1]
        exact ((walkP_upd g s (fun x => { x with color := .gray }) rfl).trans (walkP_tick _)).toWalk
      have hn1 : ∀ i, g1.nodes.get i =
          if i = s then { g.nodes.get s with color := .gray } else g.nodes.get i := by
        intro i; rw [← hg1]; simp only [State.upd, State.tick, Store.get_set]
      have hs1 : isGray g1 s := by unfold isGray; rw [hn1, if_pos rfl]
      have h01 : MGr (· = s) g g1 := by
        refine ⟨hw1, ?_, ?_, ?_, ?_, ?_⟩
        · intro i; rw [hn1]; split
          · next h => subst h; rfl
          · rfl
        · intro i; rw [hn1]; split
          · next h => subst h; rfl
          · rfl
        · intro i; rw [hn1]; split
          · exact .inr rfl
          · exact .inl rfl
        · intro i hn hg
          rw [hn1] at hg
          by_cases hi : i = s
          · subst hi; exact ⟨i, rfl, .refl hs1⟩
          · rw [if_neg hi] at hg; exact absurd hg hn
        · intro i hi; rw [hn1, if_neg (by omega)]
      have hfold := foldl_rel (R := MGr (· = s))
        (I := fun a => edges a = edges g ∧ a.nextId = g.nextId ∧ isGray a s)
        (f := fun g t => markGray fuel t (mgStep g t))
        (MGr.refl _) (fun _ _ _ => MGr.trans)
        (fun a b ha hab => ⟨hab.walk.edges.trans ha.1, hab.walk.nextId.trans ha.2.1,
          hab.gray_mono s ha.2.2⟩)
        (g.nodes.get s).traced g1 ⟨hw1.edges, hw1.nextId, hs1⟩
        (by
          intro a ha t ht
          have htl : t < a.nextId := by rw [ha.2.1]; exact hwf s t ht
          have hwfa : WfE a := by intro i u hu; rw [ha.1] at hu; rw [ha.2.1]; exact hwf i u hu
          have h1 : MGr (· = s) a (mgStep a t) := mgr_mgStep a t htl
          have h2 := (ih t (mgStep a t) (by rw [h1.walk.nextId]; exact htl) (hwfa.of_walk h1.walk)).1
          refine h1.trans ⟨h2.walk, h2.visited, h2.buffered, h2.color, ?_, h2.ge⟩
          intro i hn hg
          obtain ⟨r, hr, p⟩ := h2.path i hn hg
          subst hr
          refine ⟨s, rfl, PReach.cons ?_ ?_ p⟩
          · exact h2.gray_mono s (h1.gray_mono s ha.2.2)
          · rw [h1.walk.edges, ha.1]; exact ht)
      generalize List.foldl (fun g t => markGray fuel t (mgStep g t)) g1 (g.nodes.get s).traced = g'
        at hfold
      exact ⟨h01.trans hfold, fun _ => hfold.gray_mono s hs1⟩

/-! ### counting -/

/-- reported edges into `u` from gray allocated objects -/
def grayIn (g : State) (u : Nat) : Nat :=
  sumTo g.nextId fun j => if (g.nodes.get j).color = .gray then (g.nodes.get j).traced.count u else 0

/-- all reported edges into `u` from allocated objects -/
def tracedIn (g : State) (u : Nat) : Nat :=
  sumTo g.nextId fun j => (g.nodes.get j).traced.count u

theorem grayIn_le_tracedIn (g : State) (u : Nat) : grayIn g u ≤ tracedIn g u := by
  unfold grayIn tracedIn
  apply sumTo_le
  intro j _
  split
  · exact Nat.le_refl _
  · exact Nat.zero_le _

theorem tracedIn_walk {g g' : State} (w : Walk g g') (u : Nat) : tracedIn g' u = tracedIn g u := by
  unfold tracedIn
  rw [w.nextId]
  exact sumTo_congr (fun j _ => by rw [w.traced j])

theorem grayIn_congr {g g' : State} (hn : g'.nextId = g.nextId)
    (hc : ∀ j, (g'.nodes.get j).color = (g.nodes.get j).color)
    (ht : ∀ j, (g'.nodes.get j).traced = (g.nodes.get j).traced) (u : Nat) :
    grayIn g' u = grayIn g u := by
  unfold grayIn
  rw [hn]
  exact sumTo_congr (fun j _ => by rw [hc j, ht j])

/-- `adj u` + the pending callbacks for `u` = edges into `u` from gray objects -/
def MG (P : List Nat) (g : State) : Prop :=
  ∀ u, (g.nodes.get u).adj + P.count u = grayIn g u

/-- the static bound that keeps the panic test silent: all reported edges are counted -/
def EdgeBound (g : State) : Prop := ∀ u, tracedIn g u ≤ (g.nodes.get u).rc

theorem EdgeBound.of_walk {g g' : State} (h : EdgeBound g) (w : Walk g g') : EdgeBound g' := by
  intro u; rw [tracedIn_walk w, w.rc]; exact h u

theorem mgStep_no_panic (g : State) (t : Nat) (hp : g.panic = none)
    (hlt : (g.nodes.get t).adj < (g.nodes.get t).rc) : (mgStep g t).panic = none := by
  unfold mgStep
  simp only []
  rw [if_neg (by omega)]
  exact hp

theorem mg_mgStep {P : List Nat} (g : State) (t : Nat) (h : MG (t :: P) g) : MG P (mgStep g t) := by
  intro u
  have hgi : grayIn (mgStep g t) u = grayIn g u := by
    apply grayIn_congr (walkP_mgStep_walk g t).nextId
    · intro j; rw [mgStep_nodes]; split
      · next h => subst h; rfl
      · rfl
    · intro j; exact (walkP_mgStep_walk g t).traced j
  rw [hgi, ← h u, mgStep_nodes]
  by_cases hu : u = t
  · subst hu; simp only [if_true, List.count_cons_self]; omega
  · rw [if_neg hu, List.count_cons_of_ne (fun e => hu e.symm)]

theorem markGray_count : ∀ (fuel s : Nat) (g : State) (P : List Nat), s < g.nextId → WfE g →
    EdgeBound g → MG P g → g.panic = none →
    MG P (markGray fuel s g) ∧ (markGray fuel s g).panic = none := by
  intro fuel
  induction fuel with
  | zero =>
    intro s g P _ _ _ hm hp
    exact ⟨hm, hp⟩
  | succ fuel ih =>
    intro s g P hs hwf hb hm hp
    rw [markGray_succ]
    by_cases hc : (g.nodes.get s).color = .gray
    · rw [if_pos hc]; exact ⟨hm, hp⟩
    · rw [if_neg hc]
      generalize hg1 : (g.upd s fun x => { x with color := .gray }).tick = g1
      have hw1 : Walk g g1 := by
        rw [← hg1]
        exact ((walkP_upd g s (fun x => { x with color := .gray }) rfl).trans (walkP_tick _)).toWalk
      have hn1 : ∀ i, g1.nodes.get i =
          if i = s then { g.nodes.get s with color := .gray } else g.nodes.get i := by
        intro i; rw [← hg1]; simp only [State.upd, State.tick, Store.get_set]
      have hp1 : g1.panic = none := by rw [← hg1]; exact hp
      have hm1 : MG ((g.nodes.get s).traced ++ P) g1 := by
        intro u
        have hgi : grayIn g1 u = grayIn g u + (g.nodes.get s).traced.count u := by
          unfold grayIn
          rw [hw1.nextId]
          have := sumTo_update (n := g.nextId) (a := s)
            (f := fun j => if (g1.nodes.get j).color = .gray then (g1.nodes.get j).traced.count u else 0)
            (h := fun j => if (g.nodes.get j).color = .gray then (g.nodes.get j).traced.count u else 0)
            hs (by intro j hj; simp only [hn1, if_neg hj])
          have e1 : (if (g1.nodes.get s).color = .gray then (g1.nodes.get s).traced.count u else 0)
              = (g.nodes.get s).traced.count u := by
            rw [hn1, if_pos rfl]; rfl
          have e2 : (if (g.nodes.get s).color = .gray then (g.nodes.get s).traced.count u else 0) = 0 :=
            if_neg hc
          rw [e1, e2] at this
          omega
        rw [hgi, ← hm u, List.count_append, hn1]
        split
        · next h => subst h; simp only []; omega
        · omega
      -- the fold over the reported edges, with a shrinking list of pending callbacks
      have hfold : ∀ (l : List Nat) (a : State), (∀ t ∈ l, t < a.nextId) → WfE a → EdgeBound a →
          MG (l ++ P) a → a.panic = none →
          MG P (l.foldl (fun g t => markGray fuel t (mgStep g t)) a) ∧
            (l.foldl (fun g t => markGray fuel t (mgStep g t)) a).panic = none := by
        intro l
        induction l with
        | nil => intro a _ _ _ hma hpa; exact ⟨hma, hpa⟩
        | cons t rest ihl =>
          intro a hl hwfa hba hma hpa
          simp only [List.foldl_cons]
          have hw := walkP_mgStep_walk a t
          have hlt : (a.nodes.get t).adj < (a.nodes.get t).rc := by
            have h1 := hma t
            have h2 := grayIn_le_tracedIn a t
            have h3 := hba t
            simp only [List.cons_append, List.count_cons_self] at h1
            omega
          have hm2 : MG (rest ++ P) (mgStep a t) := mg_mgStep a t hma
          have hp2 := mgStep_no_panic a t hpa hlt
          have htl : t < (mgStep a t).nextId := by
            rw [hw.nextId]; exact hl t List.mem_cons_self
          have h3 := ih t (mgStep a t) (rest ++ P) htl (hwfa.of_walk hw) (hba.of_walk hw) hm2 hp2
          have hw3 := hw.trans (markGray_walk fuel t (mgStep a t))
          refine ihl _ ?_ (hwfa.of_walk hw3) (hba.of_walk hw3) h3.1 h3.2
          intro x hx; rw [hw3.nextId]; exact hl x (List.mem_cons_of_mem _ hx)
      refine hfold _ g1 ?_ (hwf.of_walk hw1) (hb.of_walk hw1) hm1 hp1
      intro t ht; rw [hw1.nextId]; exact hwf s t ht

end Gc
end SodiumVerif
