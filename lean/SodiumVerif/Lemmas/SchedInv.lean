/-
  Invariant of the repaired (queue) scheduler `updateNode false` / `drain false` of M_sched.

  `P` is the set of in-progress nodes (marked `visited`, update not yet run: the call stack of
  `updateNode`).  `rest` is the part of the current queue batch that the drain loop still has to
  hand to `updateNode`.  A *source* is a node with `deps = []`; the scheduler never runs the update of
  a source (`[].any _ = false`), its `val`/`changed` are whatever the transaction wrote before draining.
-/
import SodiumVerif.Model.Sched

namespace SodiumVerif
namespace Sched

variable {V : Type}

/-- the (fixed) graph: upstream and downstream adjacency lists -/
structure G where
  deps : Nat → List Nat
  dependents : Nat → List Nat

/-- the graph stored in a state -/
def graphOf (s : St V) : G :=
  ⟨fun i => (s.nodes.get i).deps, fun i => (s.nodes.get i).dependents⟩

def HasGraph (g : G) (s : St V) : Prop :=
  ∀ j, (s.nodes.get j).deps = g.deps j ∧ (s.nodes.get j).dependents = g.dependents j

theorem hasGraph_graphOf (s : St V) : HasGraph (graphOf s) s := fun _ => ⟨rfl, rfl⟩

/-- well-formedness of graph, update functions and fuel:
    acyclic (`rank`), recursion depth bound, `dependents` covers `deps`, `F i` reads only `deps i`,
    every dependent is one of the `n` nodes. -/
structure WF (g : G) (F : Nat → (Nat → Option V) → Option V) (rank : Nat → Nat) (n depth : Nat) : Prop where
  dag : ∀ i d, d ∈ g.deps i → rank d < rank i
  depth : ∀ i, rank i < depth
  adj : ∀ i d, d ∈ g.deps i → i ∈ g.dependents d
  loc : ∀ i v v', (∀ d ∈ g.deps i, v d = v' d) → F i v = F i v'
  bnd : ∀ d i, i ∈ g.dependents d → i < n

/-- node `j` is settled: all its dependencies are done, and (unless it is a source) its value slot
    holds exactly what its update computes from the dependencies' slots -/
def Settled (g : G) (F : Nat → (Nat → Option V) → Option V) (s : St V) (P : Nat → Prop) (j : Nat) : Prop :=
  (∀ d ∈ g.deps j, (s.nodes.get d).visited = true ∧ ¬ P d) ∧
  (g.deps j ≠ [] →
    (s.nodes.get j).val =
      (if (g.deps j).any (fun d => (s.nodes.get d).changed) then F j (fun k => (s.nodes.get k).val) else none) ∧
    (s.nodes.get j).changed = (s.nodes.get j).val.isSome)

structure Inv (g : G) (F : Nat → (Nat → Option V) → Option V) (s : St V) (P : Nat → Prop) (rest : List Nat) : Prop where
  graph : HasGraph g s
  /-- finished nodes are settled -/
  settled : ∀ j, (s.nodes.get j).visited = true → ¬ P j → Settled g F s P j
  /-- untouched and in-progress non-source nodes have not fired -/
  fresh : ∀ j, ((s.nodes.get j).visited = false ∨ P j) → g.deps j ≠ [] →
    (s.nodes.get j).val = none ∧ (s.nodes.get j).changed = false
  lognd : s.log.Nodup
  /-- only finished nodes are in the log -/
  logdone : ∀ x ∈ s.log, (s.nodes.get x).visited = true ∧ ¬ P x
  /-- the update of a finished node has run iff one of its dependencies changed -/
  logrun : ∀ x, (s.nodes.get x).visited = true → ¬ P x →
    (x ∈ s.log ↔ (g.deps x).any (fun d => (s.nodes.get d).changed) = true)
  /-- a changed node that was not visited yet is waiting in the queue -/
  pending : ∀ d, (s.nodes.get d).changed = true → (s.nodes.get d).visited = false → d ∈ s.queue ∨ d ∈ rest
  /-- the dependents of a finished changed node are visited or waiting in the queue -/
  pushed : ∀ d, (s.nodes.get d).changed = true → (s.nodes.get d).visited = true → ¬ P d →
    ∀ k, d ∈ g.deps k → (s.nodes.get k).visited = true ∨ k ∈ s.queue ∨ k ∈ rest

/-- `visited` only grows; value slots of visited nodes and of sources are not touched; no fuel ran out -/
structure Frame (g : G) (s s' : St V) : Prop where
  vis : ∀ j, (s.nodes.get j).visited = true → (s'.nodes.get j).visited = true
  keep : ∀ j, ((s.nodes.get j).visited = true ∨ g.deps j = []) →
    (s'.nodes.get j).val = (s.nodes.get j).val ∧ (s'.nodes.get j).changed = (s.nodes.get j).changed
  oof : s'.oof = s.oof

/-- the queue only grows, by dependents of changed nodes -/
def QGrow (g : G) (s s' : St V) : Prop :=
  ∃ l, s'.queue = s.queue ++ l ∧ ∀ x ∈ l, ∃ d, (s'.nodes.get d).changed = true ∧ x ∈ g.dependents d

theorem Frame.refl (g : G) (s : St V) : Frame g s s := ⟨fun _ h => h, fun _ _ => ⟨rfl, rfl⟩, rfl⟩

theorem Frame.trans {g : G} {a b c : St V} (h1 : Frame g a b) (h2 : Frame g b c) : Frame g a c := by
  refine ⟨fun j h => h2.vis j (h1.vis j h), fun j h => ?_, h2.oof.trans h1.oof⟩
  have e1 := h1.keep j h
  have e2 := h2.keep j (h.elim (fun h => Or.inl (h1.vis j h)) Or.inr)
  exact ⟨e2.1.trans e1.1, e2.2.trans e1.2⟩

theorem QGrow.refl (g : G) (s : St V) : QGrow g s s := ⟨[], by simp, by simp⟩

theorem QGrow.trans {g : G} {a b c : St V} (h1 : QGrow g a b) (h2 : QGrow g b c)
    (hmono : ∀ d, (b.nodes.get d).changed = true → (c.nodes.get d).changed = true) : QGrow g a c := by
  obtain ⟨l1, e1, p1⟩ := h1
  obtain ⟨l2, e2, p2⟩ := h2
  refine ⟨l1 ++ l2, by rw [e2, e1, List.append_assoc], fun x hx => ?_⟩
  rcases List.mem_append.mp hx with hx | hx
  · obtain ⟨d, hd, hm⟩ := p1 x hx
    exact ⟨d, hmono d hd, hm⟩
  · exact p2 x hx

theorem QGrow.sub {g : G} {a b : St V} (h : QGrow g a b) : ∀ x ∈ a.queue, x ∈ b.queue := by
  obtain ⟨l, e, _⟩ := h
  intro x hx; rw [e]; exact List.mem_append_left _ hx

/-- a node that counts as changed stays changed along a frame -/
theorem Inv.changed_mono {g : G} {F : Nat → (Nat → Option V) → Option V} {s s' : St V} {P rest}
    (hi : Inv g F s P rest) (fr : Frame g s s') (d : Nat)
    (h : (s.nodes.get d).changed = true) : (s'.nodes.get d).changed = true := by
  by_cases hv : (s.nodes.get d).visited = true
  · rw [(fr.keep d (Or.inl hv)).2]; exact h
  · by_cases hs : g.deps d = []
    · rw [(fr.keep d (Or.inr hs)).2]; exact h
    · have := (hi.fresh d (Or.inl (by simpa using hv)) hs).2
      rw [this] at h; cases h

theorem any_congr_mem {l : List Nat} {f g : Nat → Bool} (h : ∀ d ∈ l, f d = g d) : l.any f = l.any g := by
  induction l with
  | nil => rfl
  | cons a t ih =>
    simp only [List.any_cons]
    rw [h a (List.mem_cons_self), ih (fun d hd => h d (List.mem_cons_of_mem _ hd))]

/-- the settled-value equation of `j` only depends on the slots of `j` and of its dependencies -/
theorem Settled.transfer {g : G} {F : Nat → (Nat → Option V) → Option V} {rank n depth}
    (wf : WF g F rank n depth) {s s' : St V} {P P' : Nat → Prop} {j : Nat}
    (hs : Settled g F s P j)
    (hvis : ∀ d ∈ g.deps j, (s.nodes.get d).visited = true → ¬ P d → (s'.nodes.get d).visited = true ∧ ¬ P' d)
    (hdep : ∀ d ∈ g.deps j, (s'.nodes.get d).val = (s.nodes.get d).val ∧
      (s'.nodes.get d).changed = (s.nodes.get d).changed)
    (hj : (s'.nodes.get j).val = (s.nodes.get j).val ∧ (s'.nodes.get j).changed = (s.nodes.get j).changed) :
    Settled g F s' P' j := by
  obtain ⟨hd, hval⟩ := hs
  refine ⟨fun d hdm => hvis d hdm (hd d hdm).1 (hd d hdm).2, fun hsrc => ?_⟩
  have hany : (g.deps j).any (fun d => (s'.nodes.get d).changed) = (g.deps j).any (fun d => (s.nodes.get d).changed) :=
    any_congr_mem (fun d hdm => (hdep d hdm).2)
  have hF : F j (fun k => (s'.nodes.get k).val) = F j (fun k => (s.nodes.get k).val) :=
    wf.loc j _ _ (fun d hdm => (hdep d hdm).1)
  rw [hj.1, hj.2, hany, hF]; exact hval hsrc

/-- step 1 of `updateNode`: mark `i` visited; `i` joins the in-progress set -/
theorem Inv.mark {g : G} {F : Nat → (Nat → Option V) → Option V} {s s1 : St V} {P : Nat → Prop} {rest i}
    (hi : Inv g F s P rest)
    (hvi : (s.nodes.get i).visited = false)
    (hne : ∀ j, j ≠ i → s1.nodes.get j = s.nodes.get j)
    (hid : (s1.nodes.get i).deps = (s.nodes.get i).deps)
    (hidn : (s1.nodes.get i).dependents = (s.nodes.get i).dependents)
    (hiv : (s1.nodes.get i).val = (s.nodes.get i).val)
    (hic : (s1.nodes.get i).changed = (s.nodes.get i).changed)
    (hivis : (s1.nodes.get i).visited = true)
    (hq : s1.queue = s.queue) (hl : s1.log = s.log) (ho : s1.oof = s.oof) :
    Inv g F s1 (fun p => P p ∨ p = i) rest ∧ Frame g s s1 ∧ QGrow g s s1 := by
  have hval : ∀ j, (s1.nodes.get j).val = (s.nodes.get j).val := fun j => by
    by_cases h : j = i
    · subst h; exact hiv
    · rw [hne j h]
  have hchg : ∀ j, (s1.nodes.get j).changed = (s.nodes.get j).changed := fun j => by
    by_cases h : j = i
    · subst h; exact hic
    · rw [hne j h]
  have hvis : ∀ j, (s.nodes.get j).visited = true → (s1.nodes.get j).visited = true := fun j hj => by
    by_cases h : j = i
    · subst h; exact hivis
    · rw [hne j h]; exact hj
  have hvis' : ∀ j, j ≠ i → (s1.nodes.get j).visited = (s.nodes.get j).visited := fun j h => by rw [hne j h]
  refine ⟨⟨?_, ?_, ?_, ?_, ?_, ?_, ?_, ?_⟩, ⟨hvis, fun j _ => ⟨hval j, hchg j⟩, ho⟩, ⟨[], by simp [hq], by simp⟩⟩
  · intro j
    by_cases h : j = i
    · subst h; rw [hid, hidn]; exact hi.graph j
    · rw [hne j h]; exact hi.graph j
  · intro j hvj hnp
    have hji : j ≠ i := fun h => hnp (Or.inr h)
    rw [hvis' j hji] at hvj
    have hs := hi.settled j hvj (fun h => hnp (Or.inl h))
    refine ⟨fun d hd => ⟨hvis d (hs.1 d hd).1, ?_⟩, ?_⟩
    · rintro (h | h)
      · exact (hs.1 d hd).2 h
      · subst h; have := (hs.1 d hd).1; rw [hvi] at this; cases this
    · intro hsrc
      have := hs.2 hsrc
      simp only [hval, hchg]; exact this
  · intro j hj hsrc
    rw [hval, hchg]
    refine hi.fresh j ?_ hsrc
    rcases hj with hj | hj | hj
    · by_cases h : j = i
      · subst h; exact Or.inl hvi
      · rw [hvis' j h] at hj; exact Or.inl hj
    · exact Or.inr hj
    · subst hj; exact Or.inl hvi
  · rw [hl]; exact hi.lognd
  · intro x hx
    rw [hl] at hx
    have := hi.logdone x hx
    refine ⟨hvis x this.1, ?_⟩
    rintro (h | h)
    · exact this.2 h
    · subst h; rw [hvi] at this; cases this.1
  · intro x hvx hnp
    have hxi : x ≠ i := fun h => hnp (Or.inr h)
    rw [hvis' x hxi] at hvx
    have := hi.logrun x hvx (fun h => hnp (Or.inl h))
    simp only [hchg, hl]; exact this
  · intro d hc hv
    rw [hchg] at hc
    have hdi : d ≠ i := by rintro rfl; rw [hivis] at hv; cases hv
    rw [hvis' d hdi] at hv
    rw [hq]; exact hi.pending d hc hv
  · intro d hc hv hnp k hk
    rw [hchg] at hc
    have hdi : d ≠ i := fun h => hnp (Or.inr h)
    rw [hvis' d hdi] at hv
    rcases hi.pushed d hc hv (fun h => hnp (Or.inl h)) k hk with h | h
    · exact Or.inl (hvis k h)
    · rw [hq]; exact Or.inr h

/-- last step of `updateNode`: all dependencies of `i` are done, the update of `i` has (or has not) run,
    its dependents are pushed; `i` leaves the in-progress set -/
theorem Inv.finish {g : G} {F : Nat → (Nat → Option V) → Option V} {rank n depth}
    (wf : WF g F rank n depth) {s2 s4 : St V} {P : Nat → Prop} {rest i}
    (hi : Inv g F s2 (fun p => P p ∨ p = i) rest)
    (hPi : ¬ P i)
    (hdeps : ∀ d ∈ g.deps i, (s2.nodes.get d).visited = true ∧ ¬ P d)
    (hne : ∀ j, j ≠ i → s4.nodes.get j = s2.nodes.get j)
    (hivis : (s4.nodes.get i).visited = true)
    (hid : (s4.nodes.get i).deps = (s2.nodes.get i).deps)
    (hidn : (s4.nodes.get i).dependents = (s2.nodes.get i).dependents)
    (hrun : g.deps i ≠ [] →
      (s4.nodes.get i).val = (if (g.deps i).any (fun d => (s2.nodes.get d).changed)
        then F i (fun k => (s2.nodes.get k).val) else none) ∧
      (s4.nodes.get i).changed = (s4.nodes.get i).val.isSome)
    (hq : s4.queue = s2.queue ++ (if (s4.nodes.get i).changed = true then g.dependents i else []))
    (hl : s4.log = s2.log ++ (if (g.deps i).any (fun d => (s2.nodes.get d).changed) = true then [i] else [])) :
    Inv g F s4 P rest ∧ QGrow g s2 s4 := by
  have hdi : ∀ d ∈ g.deps i, d ≠ i := fun d hd h => by
    have := wf.dag i d hd; rw [h] at this; omega
  have hqsub : ∀ x ∈ s2.queue, x ∈ s4.queue := fun x hx => by rw [hq]; exact List.mem_append_left _ hx
  have hanyi : (g.deps i).any (fun d => (s4.nodes.get d).changed) = (g.deps i).any (fun d => (s2.nodes.get d).changed) :=
    any_congr_mem (fun d hd => by rw [hne d (hdi d hd)])
  have hl' : s4.log = s2.log ∨ s4.log = s2.log ++ [i] := by
    by_cases h : (g.deps i).any (fun d => (s2.nodes.get d).changed) = true
    · rw [if_pos h] at hl; exact Or.inr hl
    · rw [if_neg h, List.append_nil] at hl; exact Or.inl hl
  have hlmem : ∀ x, x ≠ i → (x ∈ s4.log ↔ x ∈ s2.log) := by
    intro x hx
    rcases hl' with h | h
    · rw [h]
    · rw [h]; simp [hx]
  refine ⟨⟨?_, ?_, ?_, ?_, ?_, ?_, ?_, ?_⟩, ⟨_, hq, ?_⟩⟩
  · intro j
    by_cases h : j = i
    · subst h; rw [hid, hidn]; exact hi.graph j
    · rw [hne j h]; exact hi.graph j
  · intro j hvj hnp
    by_cases h : j = i
    · subst h
      refine ⟨fun d hd => ?_, fun hsrc => ?_⟩
      · rw [hne d (hdi d hd)]; exact hdeps d hd
      · have hany : (g.deps j).any (fun d => (s4.nodes.get d).changed) = (g.deps j).any (fun d => (s2.nodes.get d).changed) :=
          any_congr_mem (fun d hd => by rw [hne d (hdi d hd)])
        have hF : F j (fun k => (s4.nodes.get k).val) = F j (fun k => (s2.nodes.get k).val) :=
          wf.loc j _ _ (fun d hd => by rw [hne d (hdi d hd)])
        rw [hany, hF]; exact hrun hsrc
    · rw [hne j h] at hvj
      have hs := hi.settled j hvj (by rintro (h' | h'); exact hnp h'; exact h h')
      refine Settled.transfer wf hs (fun d hd hv hp => ?_) (fun d hd => ?_) (by rw [hne j h]; exact ⟨rfl, rfl⟩)
      · have hdi' : d ≠ i := fun e => hp (Or.inr e)
        rw [hne d hdi']; exact ⟨hv, fun e => hp (Or.inl e)⟩
      · have hdi' : d ≠ i := fun e => (hs.1 d hd).2 (Or.inr e)
        rw [hne d hdi']; exact ⟨rfl, rfl⟩
  · intro j hj hsrc
    have hji : j ≠ i := by
      rintro rfl
      rcases hj with hj | hj
      · rw [hivis] at hj; cases hj
      · exact hPi hj
    rw [hne j hji] at hj ⊢
    exact hi.fresh j (hj.elim Or.inl (fun h => Or.inr (Or.inl h))) hsrc
  · rcases hl' with hl | hl
    · rw [hl]; exact hi.lognd
    · rw [hl]
      refine List.nodup_append.mpr ⟨hi.lognd, by simp, ?_⟩
      intro a ha b hb
      have hb' : b = i := by simpa using hb
      subst hb'
      rintro rfl
      exact (hi.logdone a ha).2 (Or.inr rfl)
  · intro x hx
    have hx' : x ∈ s2.log ∨ x = i := by
      rcases hl' with hl | hl
      · rw [hl] at hx; exact Or.inl hx
      · rw [hl] at hx; simpa using hx
    rcases hx' with hx' | hx'
    · have := hi.logdone x hx'
      have hxi : x ≠ i := fun e => this.2 (Or.inr e)
      rw [hne x hxi]; exact ⟨this.1, fun e => this.2 (Or.inl e)⟩
    · subst hx'; exact ⟨hivis, hPi⟩
  · intro x hvx hnp
    by_cases hxi : x = i
    · subst hxi
      rw [hanyi, hl]
      have hnot : x ∉ s2.log := fun h => (hi.logdone x h).2 (Or.inr rfl)
      by_cases h : (g.deps x).any (fun d => (s2.nodes.get d).changed) = true
      · simp [h]
      · simp [h, hnot]
    · rw [hne x hxi] at hvx
      have hnp' : ¬ (P x ∨ x = i) := by rintro (h' | h'); exact hnp h'; exact hxi h'
      have hs := hi.settled x hvx hnp'
      have hany : (g.deps x).any (fun d => (s4.nodes.get d).changed) = (g.deps x).any (fun d => (s2.nodes.get d).changed) :=
        any_congr_mem (fun d hd => by rw [hne d (fun e => (hs.1 d hd).2 (Or.inr e))])
      rw [hlmem x hxi, hany]
      exact hi.logrun x hvx hnp'
  · intro d hc hv
    have hdi' : d ≠ i := by rintro rfl; rw [hivis] at hv; cases hv
    rw [hne d hdi'] at hc hv
    rcases hi.pending d hc hv with h | h
    · exact Or.inl (hqsub d h)
    · exact Or.inr h
  · intro d hc hv hnp k hk
    by_cases hdi' : d = i
    · subst hdi'
      right; left
      rw [hq, hc]; simp only [if_true]
      exact List.mem_append_right _ (wf.adj k d hk)
    · rw [hne d hdi'] at hc hv
      rcases hi.pushed d hc hv (by rintro (h' | h'); exact hnp h'; exact hdi' h') k hk with h | h | h
      · left
        by_cases hki : k = i
        · subst hki; exact hivis
        · rw [hne k hki]; exact h
      · exact Or.inr (Or.inl (hqsub k h))
      · exact Or.inr (Or.inr h)
  · intro x hx
    by_cases hc : (s4.nodes.get i).changed = true
    · rw [if_pos hc] at hx; exact ⟨i, hc, hx⟩
    · rw [if_neg hc] at hx; cases hx

theorem Frame.finish {g : G} {s s2 s4 : St V} {i : Nat}
    (fr : Frame g s s2)
    (hvi : (s.nodes.get i).visited = false)
    (hne : ∀ j, j ≠ i → s4.nodes.get j = s2.nodes.get j)
    (hsrc : g.deps i = [] →
      (s4.nodes.get i).val = (s2.nodes.get i).val ∧ (s4.nodes.get i).changed = (s2.nodes.get i).changed)
    (ho : s4.oof = s2.oof) : Frame g s s4 := by
  refine ⟨fun j hj => ?_, fun j hj => ?_, ho.trans fr.oof⟩
  · have hji : j ≠ i := by rintro rfl; rw [hvi] at hj; cases hj
    rw [hne j hji]; exact fr.vis j hj
  · by_cases hji : j = i
    · subst hji
      rcases hj with hj | hj
      · rw [hvi] at hj; cases hj
      · have := fr.keep j (Or.inr hj)
        have h4 := hsrc hj
        exact ⟨h4.1.trans this.1, h4.2.trans this.2⟩
    · rw [hne j hji]; exact fr.keep j hj

/-- what one call `updateNode false F fuel i` guarantees -/
def Post (g : G) (F : Nat → (Nat → Option V) → Option V) (P : Nat → Prop) (rest : List Nat) (i : Nat)
    (s s' : St V) : Prop :=
  Inv g F s' P rest ∧ (s'.nodes.get i).visited = true ∧ Frame g s s' ∧ QGrow g s s'

theorem visitDeps_ok {g : G} {F : Nat → (Nat → Option V) → Option V} {rank : Nat → Nat}
    (rec : Nat → St V → St V) (P : Nat → Prop) (rest : List Nat) (bound : Nat)
    (hrec : ∀ d s, rank d < bound → Inv g F s P rest → Post g F P rest d s (rec d s)) :
    ∀ (l : List Nat) (s : St V), (∀ d ∈ l, rank d < bound) → Inv g F s P rest →
      Inv g F (visitDeps rec l s) P rest ∧ (∀ d ∈ l, ((visitDeps rec l s).nodes.get d).visited = true) ∧
      Frame g s (visitDeps rec l s) ∧ QGrow g s (visitDeps rec l s) := by
  intro l
  induction l with
  | nil => intro s _ h; exact ⟨h, by simp, Frame.refl g s, QGrow.refl g s⟩
  | cons a t ih =>
    intro s hb hinv
    simp only [visitDeps, List.foldl_cons]
    by_cases hva : (s.nodes.get a).visited = true
    · simp only [hva, if_true]
      have := ih s (fun d hd => hb d (List.mem_cons_of_mem _ hd)) hinv
      refine ⟨this.1, ?_, this.2.2⟩
      intro d hd
      rcases List.mem_cons.mp hd with rfl | hd
      · exact this.2.2.1.vis _ hva
      · exact this.2.1 d hd
    · simp only [hva]
      have h1 := hrec a s (hb a (List.mem_cons_self)) hinv
      have := ih (rec a s) (fun d hd => hb d (List.mem_cons_of_mem _ hd)) h1.1
      refine ⟨this.1, ?_, Frame.trans h1.2.2.1 this.2.2.1,
        QGrow.trans h1.2.2.2 this.2.2.2 (h1.1.changed_mono this.2.2.1)⟩
      intro d hd
      rcases List.mem_cons.mp hd with rfl | hd
      · exact this.2.2.1.vis _ h1.2.1
      · exact this.2.1 d hd

/-- the part of `updateNode false` after the upward recursion -/
def finishNode (F : Nat → (Nat → Option V) → Option V) (i : Nat) (deps : List Nat) (s : St V) : St V :=
  let s := if deps.any fun d => (s.nodes.get d).changed then runUpdate F i s else s
  if (s.nodes.get i).changed then { s with queue := s.queue ++ (s.nodes.get i).dependents } else s

theorem updateNode_succ (F : Nat → (Nat → Option V) → Option V) (fuel i : Nat) (s : St V) :
    updateNode false F (fuel + 1) i s =
      if (s.nodes.get i).visited then s
      else finishNode F i (s.nodes.get i).deps
        (visitDeps (updateNode false F fuel) (s.nodes.get i).deps
          { (s.upd i fun nd => { nd with visited := true }) with resetQ := s.resetQ ++ [i] }) := by
  simp only [updateNode, finishNode]
  rfl

structure FinishSpec (F : Nat → (Nat → Option V) → Option V) (i : Nat) (deps : List Nat) (s2 s4 : St V) : Prop where
  ne : ∀ j, j ≠ i → s4.nodes.get j = s2.nodes.get j
  vis : (s4.nodes.get i).visited = (s2.nodes.get i).visited
  deps_eq : (s4.nodes.get i).deps = (s2.nodes.get i).deps
  dependents_eq : (s4.nodes.get i).dependents = (s2.nodes.get i).dependents
  src : deps = [] →
    (s4.nodes.get i).val = (s2.nodes.get i).val ∧ (s4.nodes.get i).changed = (s2.nodes.get i).changed
  run : deps ≠ [] →
    (s4.nodes.get i).val = (if deps.any (fun d => (s2.nodes.get d).changed)
      then F i (fun k => (s2.nodes.get k).val) else none) ∧
    (s4.nodes.get i).changed = (s4.nodes.get i).val.isSome
  queue : s4.queue = s2.queue ++ (if (s4.nodes.get i).changed = true then (s2.nodes.get i).dependents else [])
  log : s4.log = s2.log ++ (if deps.any (fun d => (s2.nodes.get d).changed) = true then [i] else [])
  oof : s4.oof = s2.oof

theorem finishNode_spec (F : Nat → (Nat → Option V) → Option V) (i : Nat) (deps : List Nat) (s2 : St V)
    (hfresh : deps ≠ [] → (s2.nodes.get i).val = none ∧ (s2.nodes.get i).changed = false) :
    FinishSpec F i deps s2 (finishNode F i deps s2) := by
  by_cases hany : deps.any (fun d => (s2.nodes.get d).changed) = true
  · have hne : deps ≠ [] := by rintro rfl; simp at hany
    obtain ⟨hv, hc⟩ := hfresh hne
    cases hF : F i (fun k => (s2.nodes.get k).val) with
    | none =>
      have e : finishNode F i deps s2 = { s2 with log := s2.log ++ [i] } := by
        simp only [finishNode, hany, if_true, runUpdate, hF, hc]; rfl
      rw [e]
      refine ⟨fun _ _ => rfl, rfl, rfl, rfl, fun h => absurd h hne, fun _ => ?_, ?_, by simp [hany], rfl⟩
      · simp [hany, hv, hc, hF]
      · simp [hc]
    | some x =>
      have e : finishNode F i deps s2 =
          { s2 with log := s2.log ++ [i],
                    nodes := s2.nodes.set i { s2.nodes.get i with val := some x, changed := true },
                    queue := s2.queue ++ (s2.nodes.get i).dependents } := by
        simp only [finishNode, hany, if_true, runUpdate, hF, St.upd, Store.get_set]
      rw [e]
      refine ⟨fun j hj => ?_, ?_, ?_, ?_, fun h => absurd h hne, fun _ => ?_, ?_, by simp [hany], rfl⟩
      all_goals simp [*]
  · have hany' : deps.any (fun d => (s2.nodes.get d).changed) = false := by simpa using hany
    by_cases hc : (s2.nodes.get i).changed = true
    · have e : finishNode F i deps s2 = { s2 with queue := s2.queue ++ (s2.nodes.get i).dependents } := by
        simp [finishNode, hany', hc]
      rw [e]
      refine ⟨fun _ _ => rfl, rfl, rfl, rfl, fun _ => ⟨rfl, rfl⟩, fun hne => ?_, ?_, by simp [hany'], rfl⟩
      · rw [(hfresh hne).2] at hc; cases hc
      · simp [hc]
    · have hc' : (s2.nodes.get i).changed = false := by simpa using hc
      have e : finishNode F i deps s2 = s2 := by
        simp [finishNode, hany', hc']
      rw [e]
      refine ⟨fun _ _ => rfl, rfl, rfl, rfl, fun _ => ⟨rfl, rfl⟩, fun hne => ?_, ?_, by simp [hany'], rfl⟩
      · simp only [hany', (hfresh hne).1, hc']; exact ⟨rfl, rfl⟩
      · simp [hc']

/-- Main lemma for `update_node` of the repaired scheduler: called on `i` below every in-progress node,
    with enough fuel, it preserves the invariant, leaves `i` visited, only adds to `visited`, does not touch
    finished nodes, and the queue only grows by dependents of changed nodes. -/
theorem updateNode_ok {g : G} {F : Nat → (Nat → Option V) → Option V} {rank : Nat → Nat} {n depth : Nat}
    (wf : WF g F rank n depth) :
    ∀ (fuel i : Nat) (s : St V) (P : Nat → Prop) (rest : List Nat), rank i < fuel →
      (∀ p, P p → rank i < rank p) → Inv g F s P rest →
      Post g F P rest i s (updateNode false F fuel i s) := by
  intro fuel
  induction fuel with
  | zero => intro i s P rest h; omega
  | succ fuel ih =>
    intro i s P rest hfuel hP hinv
    rw [updateNode_succ]
    by_cases hvi : (s.nodes.get i).visited = true
    · simp only [hvi, if_true]; exact ⟨hinv, hvi, Frame.refl g s, QGrow.refl g s⟩
    · have hvi' : (s.nodes.get i).visited = false := by simpa using hvi
      simp only [hvi', Bool.false_eq_true, if_false]
      have hPi : ¬ P i := fun h => by have := hP i h; omega
      have hgd : (s.nodes.get i).deps = g.deps i := (hinv.graph i).1
      generalize hs1 : ({ (s.upd i fun nd => { nd with visited := true }) with resetQ := s.resetQ ++ [i] } : St V) = s1
      rw [hgd]
      have h1ne : ∀ j, j ≠ i → s1.nodes.get j = s.nodes.get j := by
        intro j hj; subst hs1; simp [hj]
      have h1i : s1.nodes.get i = { s.nodes.get i with visited := true } := by
        subst hs1; simp
      obtain ⟨hinv1, fr01, q01⟩ := Inv.mark (s1 := s1) hinv hvi' h1ne (by rw [h1i]) (by rw [h1i]) (by rw [h1i])
        (by rw [h1i]) (by rw [h1i]) (by subst hs1; rfl) (by subst hs1; rfl) (by subst hs1; rfl)
      have hrec : ∀ d s, rank d < rank i → Inv g F s (fun p => P p ∨ p = i) rest →
          Post g F (fun p => P p ∨ p = i) rest d s (updateNode false F fuel d s) := by
        intro d s hd hi
        refine ih d s _ rest (by omega) ?_ hi
        rintro p (hp | rfl)
        · have := hP p hp; omega
        · exact hd
      obtain ⟨hinv2, hdv, fr12, q12⟩ := visitDeps_ok (rank := rank) (updateNode false F fuel) _ rest (rank i) hrec
        (g.deps i) s1 (fun d hd => wf.dag i d hd) hinv1
      generalize visitDeps (updateNode false F fuel) (g.deps i) s1 = s2 at hinv2 hdv fr12 q12 ⊢
      have hv2 : (s2.nodes.get i).visited = true := fr12.vis i (by rw [h1i])
      have spec := finishNode_spec F i (g.deps i) s2 (hinv2.fresh i (Or.inr (Or.inr rfl)))
      generalize finishNode F i (g.deps i) s2 = s4 at spec ⊢
      have hdeps : ∀ d ∈ g.deps i, (s2.nodes.get d).visited = true ∧ ¬ P d := fun d hd =>
        ⟨hdv d hd, fun hp => by have := hP d hp; have := wf.dag i d hd; omega⟩
      have hv4 : (s4.nodes.get i).visited = true := by rw [spec.vis]; exact hv2
      obtain ⟨hinv4, q24⟩ := Inv.finish wf hinv2 hPi hdeps spec.ne hv4 spec.deps_eq spec.dependents_eq
        spec.run (by rw [spec.queue, (hinv2.graph i).2]) spec.log
      have fr04 : Frame g s s4 := Frame.finish (fr01.trans fr12) hvi' spec.ne spec.src spec.oof
      refine ⟨hinv4, hv4, fr04, ?_⟩
      refine QGrow.trans (QGrow.trans q01 q12 (hinv1.changed_mono fr12)) q24 ?_
      intro d hd
      by_cases hdi : d = i
      · subst hdi
        by_cases hsrc : g.deps d = []
        · rw [(spec.src hsrc).2]; exact hd
        · rw [(hinv2.fresh d (Or.inr (Or.inr rfl)) hsrc).2] at hd; cases hd
      · rw [spec.ne d hdi]; exact hd

/-! ### one queue batch -/

/-- no node is in progress between two top-level calls of `updateNode` -/
def noP : Nat → Prop := fun _ => False

theorem Inv.drop_rest {g : G} {F : Nat → (Nat → Option V) → Option V} {s : St V} {P : Nat → Prop} {a : Nat} {t : List Nat}
    (hi : Inv g F s P (a :: t)) (hv : (s.nodes.get a).visited = true) : Inv g F s P t := by
  refine ⟨hi.graph, hi.settled, hi.fresh, hi.lognd, hi.logdone, hi.logrun, ?_, ?_⟩
  · intro d hc hvd
    rcases hi.pending d hc hvd with h | h
    · exact Or.inl h
    · rcases List.mem_cons.mp h with rfl | h
      · rw [hv] at hvd; cases hvd
      · exact Or.inr h
  · intro d hc hvd hnp k hk
    rcases hi.pushed d hc hvd hnp k hk with h | h | h
    · exact Or.inl h
    · exact Or.inr (Or.inl h)
    · rcases List.mem_cons.mp h with rfl | h
      · exact Or.inl hv
      · exact Or.inr (Or.inr h)

theorem Inv.take_queue {g : G} {F : Nat → (Nat → Option V) → Option V} {s : St V} {P : Nat → Prop}
    (hi : Inv g F s P []) : Inv g F { s with queue := [] } P s.queue := by
  refine ⟨hi.graph, hi.settled, hi.fresh, hi.lognd, hi.logdone, hi.logrun, ?_, ?_⟩
  · intro d hc hvd
    rcases hi.pending d hc hvd with h | h
    · exact Or.inr h
    · cases h
  · intro d hc hvd hnp k hk
    rcases hi.pushed d hc hvd hnp k hk with h | h | h
    · exact Or.inl h
    · exact Or.inr (Or.inr h)
    · cases h

theorem updateNode_visited (dfs : Bool) (F : Nat → (Nat → Option V) → Option V) (fuel i : Nat) (s : St V)
    (h : (s.nodes.get i).visited = true) : updateNode dfs F (fuel + 1) i s = s := by
  simp [updateNode, h]

/-- the fold of `updateNode` over one batch of the queue -/
theorem batch_ok {g : G} {F : Nat → (Nat → Option V) → Option V} {rank : Nat → Nat} {n depth : Nat}
    (wf : WF g F rank n depth) :
    ∀ (l : List Nat) (s : St V), (∀ a ∈ l, a < n) → Inv g F s noP l →
      Inv g F (l.foldl (fun s i => updateNode false F depth i s) s) noP [] ∧
      Frame g s (l.foldl (fun s i => updateNode false F depth i s) s) ∧
      QGrow g s (l.foldl (fun s i => updateNode false F depth i s) s) ∧
      ((l.foldl (fun s i => updateNode false F depth i s) s).queue = s.queue ∨
        ∃ x, x < n ∧ (s.nodes.get x).visited = false ∧
          ((l.foldl (fun s i => updateNode false F depth i s) s).nodes.get x).visited = true) := by
  intro l
  induction l with
  | nil => intro s _ h; exact ⟨h, Frame.refl g s, QGrow.refl g s, Or.inl rfl⟩
  | cons a t ih =>
    intro s hb hinv
    simp only [List.foldl_cons]
    obtain ⟨hinv1, hva, fr1, q1⟩ := updateNode_ok wf depth a s noP (a :: t) (wf.depth a) (fun p hp => hp.elim) hinv
    have hprog : (updateNode false F depth a s).queue = s.queue ∨
        ((s.nodes.get a).visited = false ∧ ((updateNode false F depth a s).nodes.get a).visited = true) := by
      by_cases hv : (s.nodes.get a).visited = true
      · left
        obtain ⟨k, hk⟩ : ∃ k, depth = k + 1 := ⟨depth - 1, by have := wf.depth a; omega⟩
        rw [hk, updateNode_visited _ _ _ _ _ hv]
      · right; exact ⟨by simpa using hv, hva⟩
    generalize updateNode false F depth a s = s1 at hinv1 hva fr1 q1 hprog ⊢
    obtain ⟨hinv2, fr2, q2, hprog2⟩ := ih s1 (fun x hx => hb x (List.mem_cons_of_mem _ hx)) (hinv1.drop_rest hva)
    generalize List.foldl (fun s i => updateNode false F depth i s) s1 t = s2 at hinv2 fr2 q2 hprog2 ⊢
    refine ⟨hinv2, fr1.trans fr2, QGrow.trans q1 q2 (hinv1.changed_mono fr2), ?_⟩
    rcases hprog2 with h2 | ⟨x, hx, hx1, hx2⟩
    · rcases hprog with h1 | ⟨h1, h1'⟩
      · left; rw [h2, h1]
      · right; exact ⟨a, hb a List.mem_cons_self, h1, fr2.vis a h1'⟩
    · right
      refine ⟨x, hx, ?_, hx2⟩
      cases h : (s.nodes.get x).visited with
      | false => rfl
      | true => rw [fr1.vis x h] at hx1; cases hx1

/-! ### the drain loop -/

theorem drain_nil (dfs : Bool) (F : Nat → (Nat → Option V) → Option V) (depth fuel : Nat) (s : St V)
    (h : s.queue = []) : drain dfs F depth (fuel + 1) s = s := by
  simp [drain, h]

theorem drain_cons (dfs : Bool) (F : Nat → (Nat → Option V) → Option V) (depth fuel : Nat) (s : St V)
    (h : s.queue ≠ []) : drain dfs F depth (fuel + 1) s =
      drain dfs F depth fuel (s.queue.foldl (fun s i => updateNode dfs F depth i s) { s with queue := [] }) := by
  cases hq : s.queue with
  | nil => exact absurd hq h
  | cons a t => simp only [drain]; rw [hq]

/-- number of unvisited nodes among the first `n` -/
def unvisited (n : Nat) (s : St V) : Nat := (List.range n).countP (fun j => !(s.nodes.get j).visited)

theorem countP_lt_of_mem {l : List Nat} {p q : Nat → Bool} (h : ∀ x ∈ l, p x = true → q x = true)
    {x : Nat} (hx : x ∈ l) (hq : q x = true) (hp : p x = false) : l.countP p < l.countP q := by
  induction l with
  | nil => cases hx
  | cons a t ih =>
    have hmono : t.countP p ≤ t.countP q := List.countP_mono_left (fun y hy => h y (List.mem_cons_of_mem _ hy))
    rcases List.mem_cons.mp hx with rfl | hx
    · simp only [List.countP_cons, hq, hp, if_true]
      simp; omega
    · have := ih (fun y hy => h y (List.mem_cons_of_mem _ hy)) hx
      have ha := h a List.mem_cons_self
      simp only [List.countP_cons]
      by_cases hpa : p a = true
      · simp [hpa, ha hpa]; omega
      · simp [hpa]; split <;> omega

theorem unvisited_le {g : G} {n : Nat} {s s' : St V} (fr : Frame g s s') : unvisited n s' ≤ unvisited n s := by
  refine List.countP_mono_left (fun x _ hx => ?_)
  cases h : (s.nodes.get x).visited with
  | false => rfl
  | true => rw [fr.vis x h] at hx; cases hx

theorem unvisited_lt {g : G} {n : Nat} {s s' : St V} (fr : Frame g s s') {x : Nat} (hx : x < n)
    (h0 : (s.nodes.get x).visited = false) (h1 : (s'.nodes.get x).visited = true) :
    unvisited n s' < unvisited n s := by
  refine countP_lt_of_mem (fun y _ hy => ?_) (List.mem_range.mpr hx) (by simp [h0]) (by simp [h1])
  cases h : (s.nodes.get y).visited with
  | false => rfl
  | true => rw [fr.vis y h] at hy; cases hy

theorem unvisited_le_n (n : Nat) (s : St V) : unvisited n s ≤ n := by
  have := List.countP_le_length (p := fun j => !(s.nodes.get j).visited) (l := List.range n)
  simpa [unvisited] using this

/-- The drain loop of the repaired scheduler: with `fuel ≥ #unvisited + 2` it ends with an empty queue,
    without running out of fuel (`Frame.oof`), in a state satisfying the invariant with nothing pending. -/
theorem drain_ok {g : G} {F : Nat → (Nat → Option V) → Option V} {rank : Nat → Nat} {n depth : Nat}
    (wf : WF g F rank n depth) :
    ∀ (fuel : Nat) (s : St V), Inv g F s noP [] → (∀ a ∈ s.queue, a < n) → unvisited n s + 2 ≤ fuel →
      Inv g F (drain false F depth fuel s) noP [] ∧ (drain false F depth fuel s).queue = [] ∧
      Frame g s (drain false F depth fuel s) := by
  intro fuel
  induction fuel with
  | zero => intro s _ _ h; omega
  | succ fuel ih =>
    intro s hinv hq hfuel
    by_cases hqe : s.queue = []
    · rw [drain_nil _ _ _ _ _ hqe]; exact ⟨hinv, hqe, Frame.refl g s⟩
    · rw [drain_cons _ _ _ _ _ hqe]
      obtain ⟨hinv1, fr1, q1, hprog⟩ := batch_ok wf s.queue { s with queue := [] } hq hinv.take_queue
      generalize List.foldl (fun s i => updateNode false F depth i s) { s with queue := [] } s.queue = s1
        at hinv1 fr1 q1 hprog ⊢
      have fr01 : Frame g s s1 := ⟨fr1.vis, fr1.keep, fr1.oof⟩
      have hq1 : ∀ a ∈ s1.queue, a < n := by
        obtain ⟨l, e, hl⟩ := q1
        intro a ha
        rw [e] at ha
        obtain ⟨d, _, hd⟩ := hl a (by simpa using ha)
        exact wf.bnd d a hd
      rcases hprog with h | ⟨x, hx, hx0, hx1⟩
      · have h' : s1.queue = [] := h
        obtain ⟨k, hk⟩ : ∃ k, fuel = k + 1 := ⟨fuel - 1, by omega⟩
        rw [hk, drain_nil _ _ _ _ _ h']
        exact ⟨hinv1, h', fr01⟩
      · have hlt : unvisited n s1 < unvisited n s := unvisited_lt fr01 hx hx0 hx1
        obtain ⟨hinv2, hq2, fr2⟩ := ih s1 hinv1 hq1 (by omega)
        exact ⟨hinv2, hq2, fr01.trans fr2⟩

/-! ### initial and final states -/

/-- the state handed to the drain loop: nothing visited, non-source nodes silent, every changed (source)
    node is queued -/
structure Init (g : G) (n : Nat) (s : St V) : Prop where
  graph : HasGraph g s
  unvisited : ∀ j, (s.nodes.get j).visited = false
  clean : ∀ j, g.deps j ≠ [] → (s.nodes.get j).val = none ∧ (s.nodes.get j).changed = false
  queued : ∀ d, (s.nodes.get d).changed = true → d ∈ s.queue
  qbnd : ∀ a ∈ s.queue, a < n
  oof : s.oof = false
  log : s.log = []

theorem Init.inv {g : G} {F : Nat → (Nat → Option V) → Option V} {n : Nat} {s : St V} (hi : Init g n s) :
    Inv g F s noP [] := by
  refine ⟨hi.graph, ?_, fun j _ hs => hi.clean j hs, by rw [hi.log]; exact List.nodup_nil, ?_, ?_,
    fun d hc _ => Or.inl (hi.queued d hc), ?_⟩
  · intro j hv; rw [hi.unvisited j] at hv; cases hv
  · intro x hx; rw [hi.log] at hx; cases hx
  · intro x hv; rw [hi.unvisited x] at hv; cases hv
  · intro d _ hv; rw [hi.unvisited d] at hv; cases hv

/-- the value slots are a fixed point of the update functions: every non-source node holds exactly what
    its update computes from its dependencies' slots (nothing if no dependency changed) -/
def FixedPoint (g : G) (F : Nat → (Nat → Option V) → Option V) (s : St V) : Prop :=
  ∀ j, g.deps j ≠ [] →
    (s.nodes.get j).val =
      (if (g.deps j).any (fun d => (s.nodes.get d).changed) then F j (fun k => (s.nodes.get k).val) else none) ∧
    (s.nodes.get j).changed = (s.nodes.get j).val.isSome

/-- at the end of the drain loop every node with a changed dependency has been visited -/
theorem Inv.complete {g : G} {F : Nat → (Nat → Option V) → Option V} {s : St V}
    (hi : Inv g F s noP []) (hq : s.queue = []) (j : Nat)
    (h : (g.deps j).any (fun d => (s.nodes.get d).changed) = true) : (s.nodes.get j).visited = true := by
  obtain ⟨d, hd, hc⟩ := List.any_eq_true.mp h
  cases hv : (s.nodes.get d).visited with
  | false =>
    rcases hi.pending d hc hv with h | h
    · rw [hq] at h; cases h
    · cases h
  | true =>
    rcases hi.pushed d hc hv (fun h => h) j hd with h | h | h
    · exact h
    · rw [hq] at h; cases h
    · cases h

/-- at the end of the drain loop the log holds exactly the nodes with a changed dependency -/
theorem Inv.log_iff {g : G} {F : Nat → (Nat → Option V) → Option V} {s : St V}
    (hi : Inv g F s noP []) (hq : s.queue = []) (j : Nat) :
    j ∈ s.log ↔ (g.deps j).any (fun d => (s.nodes.get d).changed) = true := by
  constructor
  · intro h; exact (hi.logrun j (hi.logdone j h).1 (fun h => h)).mp h
  · intro h; exact (hi.logrun j (hi.complete hq j h) (fun h => h)).mpr h

theorem Inv.fixedPoint {g : G} {F : Nat → (Nat → Option V) → Option V} {s : St V}
    (hi : Inv g F s noP []) (hq : s.queue = []) : FixedPoint g F s := by
  intro j hs
  cases hv : (s.nodes.get j).visited with
  | true => exact (hi.settled j hv (fun h => h)).2 hs
  | false =>
    have hf := hi.fresh j (Or.inl hv) hs
    have hany : (g.deps j).any (fun d => (s.nodes.get d).changed) = false := by
      cases h : (g.deps j).any (fun d => (s.nodes.get d).changed) with
      | false => rfl
      | true => rw [hi.complete hq j h] at hv; cases hv
    rw [hany, hf.1, hf.2]; exact ⟨rfl, rfl⟩

/-- The fixed point is unique: it is determined by the source slots, by recursion on the rank.  The two
    graphs may list the dependencies of a node in different orders and multiplicities. -/
theorem fixedPoint_unique {g g' : G} {F : Nat → (Nat → Option V) → Option V} {rank : Nat → Nat}
    (dag : ∀ i d, d ∈ g.deps i → rank d < rank i)
    (loc : ∀ i v v', (∀ d ∈ g.deps i, v d = v' d) → F i v = F i v')
    (hperm : ∀ i d, d ∈ g.deps i ↔ d ∈ g'.deps i)
    {s s' : St V} (h : FixedPoint g F s) (h' : FixedPoint g' F s')
    (hsrc : ∀ j, g.deps j = [] →
      (s'.nodes.get j).val = (s.nodes.get j).val ∧ (s'.nodes.get j).changed = (s.nodes.get j).changed) :
    ∀ j, (s'.nodes.get j).val = (s.nodes.get j).val ∧ (s'.nodes.get j).changed = (s.nodes.get j).changed := by
  have key : ∀ r j, rank j < r →
      (s'.nodes.get j).val = (s.nodes.get j).val ∧ (s'.nodes.get j).changed = (s.nodes.get j).changed := by
    intro r
    induction r with
    | zero => intro j hj; omega
    | succ r ih =>
      intro j hj
      by_cases hs : g.deps j = []
      · exact hsrc j hs
      · have hs' : g'.deps j ≠ [] := by
          intro e
          cases hd : g.deps j with
          | nil => exact hs hd
          | cons a t =>
            have : a ∈ g'.deps j := (hperm j a).mp (by rw [hd]; exact List.mem_cons_self)
            rw [e] at this; cases this
        have hany : (g'.deps j).any (fun d => (s'.nodes.get d).changed) =
            (g.deps j).any (fun d => (s.nodes.get d).changed) := by
          rw [Bool.eq_iff_iff, List.any_eq_true, List.any_eq_true]
          constructor
          · rintro ⟨d, hd, hc⟩
            have hd' := (hperm j d).mpr hd
            exact ⟨d, hd', by rw [← (ih d (by have := dag j d hd'; omega)).2]; exact hc⟩
          · rintro ⟨d, hd, hc⟩
            exact ⟨d, (hperm j d).mp hd, by rw [(ih d (by have := dag j d hd; omega)).2]; exact hc⟩
        have hF : F j (fun k => (s'.nodes.get k).val) = F j (fun k => (s.nodes.get k).val) :=
          loc j _ _ (fun d hd => ((ih d (by have := dag j d hd; omega)).1).symm) |>.symm
        have e := h j hs
        have e' := h' j hs'
        have hv : (s'.nodes.get j).val = (s.nodes.get j).val := by rw [e'.1, e.1, hany, hF]
        exact ⟨hv, by rw [e'.2, e.2, hv]⟩
  exact fun j => key (rank j + 1) j (Nat.lt_succ_self _)

/-! ### `transaction`: firing the sources, `resetVisited` -/

/-- the first phase of `transaction`: write the source slots and queue the sources -/
def fireSources (srcs : List (Nat × V)) (s : St V) : St V :=
  srcs.foldl (fun s (p : Nat × V) =>
    let s := s.upd p.1 fun nd => { nd with changed := true, val := some p.2 }
    { s with queue := s.queue ++ [p.1] }) s

theorem transaction_eq (dfs : Bool) (F : Nat → (Nat → Option V) → Option V) (srcs : List (Nat × V)) (s : St V) :
    transaction dfs F srcs s =
      resetVisited (drain dfs F ((fireSources srcs s).n + 2)
        ((fireSources srcs s).n * (fireSources srcs s).n + (fireSources srcs s).n + 2) (fireSources srcs s)) := rfl

theorem fireSources_n (srcs : List (Nat × V)) (s : St V) : (fireSources srcs s).n = s.n := by
  unfold fireSources
  induction srcs generalizing s with
  | nil => rfl
  | cons p t ih => simp only [List.foldl_cons]; rw [ih]

theorem Init.fire {g : G} {n : Nat} {s : St V} (hi : Init g n s) (a : Nat) (x : V)
    (hs : g.deps a = []) (ha : a < n) :
    Init g n { (s.upd a fun nd => { nd with changed := true, val := some x }) with queue := s.queue ++ [a] } := by
  refine ⟨fun j => ?_, fun j => ?_, fun j hj => ?_, fun d hd => ?_, fun b hb => ?_, hi.oof, hi.log⟩
  · have := hi.graph j
    by_cases h : j = a
    · subst h; simpa [St.upd, Store.get_set] using this
    · simpa [St.upd, Store.get_set, h] using this
  · have := hi.unvisited j
    by_cases h : j = a
    · subst h; simpa [St.upd, Store.get_set] using this
    · simpa [St.upd, Store.get_set, h] using this
  · have hja : j ≠ a := by rintro rfl; exact hj hs
    have := hi.clean j hj
    simpa [St.upd, Store.get_set, hja] using this
  · by_cases h : d = a
    · subst h; simp
    · have hd' : (s.nodes.get d).changed = true := by simpa [St.upd, Store.get_set, h] using hd
      exact List.mem_append_left _ (hi.queued d hd')
  · rcases List.mem_append.mp hb with hb | hb
    · exact hi.qbnd b hb
    · have : b = a := by simpa using hb
      rw [this]; exact ha

theorem Init.fireSources {g : G} {n : Nat} (srcs : List (Nat × V)) :
    ∀ (s : St V), Init g n s → (∀ p ∈ srcs, g.deps p.1 = [] ∧ p.1 < n) → Init g n (fireSources srcs s) := by
  induction srcs with
  | nil => intro s hi _; exact hi
  | cons p t ih =>
    intro s hi hs
    have hp := hs p List.mem_cons_self
    exact ih _ (hi.fire p.1 p.2 hp.1 hp.2) (fun q hq => hs q (List.mem_cons_of_mem _ hq))

theorem resetFold_spec (l : List Nat) : ∀ (s : St V),
    (∀ j, ((l.foldl (fun s i => s.upd i fun nd => { nd with visited := false }) s).nodes.get j).val = (s.nodes.get j).val ∧
      ((l.foldl (fun s i => s.upd i fun nd => { nd with visited := false }) s).nodes.get j).changed = (s.nodes.get j).changed) ∧
    (l.foldl (fun s i => s.upd i fun nd => { nd with visited := false }) s).log = s.log ∧
    (l.foldl (fun s i => s.upd i fun nd => { nd with visited := false }) s).oof = s.oof ∧
    (l.foldl (fun s i => s.upd i fun nd => { nd with visited := false }) s).queue = s.queue := by
  induction l with
  | nil => intro s; exact ⟨fun _ => ⟨rfl, rfl⟩, rfl, rfl, rfl⟩
  | cons a t ih =>
    intro s
    simp only [List.foldl_cons]
    obtain ⟨h1, h2, h3, h4⟩ := ih (s.upd a fun nd => { nd with visited := false })
    refine ⟨fun j => ?_, h2, h3, h4⟩
    rw [(h1 j).1, (h1 j).2]
    by_cases h : j = a
    · subst h; simp
    · simp [h]

/-- `resetVisited` only clears `visited` flags -/
theorem resetVisited_spec (s : St V) :
    (∀ j, ((resetVisited s).nodes.get j).val = (s.nodes.get j).val ∧
      ((resetVisited s).nodes.get j).changed = (s.nodes.get j).changed) ∧
    (resetVisited s).log = s.log ∧ (resetVisited s).oof = s.oof ∧ (resetVisited s).queue = s.queue :=
  resetFold_spec s.resetQ s

theorem FixedPoint.congr {g : G} {F : Nat → (Nat → Option V) → Option V} {s s' : St V}
    (h : FixedPoint g F s)
    (e : ∀ j, (s'.nodes.get j).val = (s.nodes.get j).val ∧ (s'.nodes.get j).changed = (s.nodes.get j).changed) :
    FixedPoint g F s' := by
  intro j hs
  have hv : (fun k => (s'.nodes.get k).val) = (fun k => (s.nodes.get k).val) := funext fun k => (e k).1
  have hc : (fun d => (s'.nodes.get d).changed) = (fun d => (s.nodes.get d).changed) := funext fun k => (e k).2
  rw [(e j).1, (e j).2, hv, hc]; exact h j hs

end Sched
end SodiumVerif

