/-
  Phase 2 of a pass (`scan_roots`): afterwards nothing is gray, every adjustment is zero, and the
  white objects form a set that has no external handle, is closed under predecessors, and is
  reachable from the roots through white objects.
-/
import SodiumVerif.Lemmas.GcPhaseMark

namespace SodiumVerif
namespace Gc
open State

def isWhite (g : State) (i : Nat) : Prop := (g.nodes.get i).color = .white

theorem scanRoots_eq (g : State) :
    scanRoots g =
      let rs := g.roots
      let f := walkFuel { g with roots := [] }
      let g1 := rs.foldl (fun g r => scan f r g) { g with roots := [] }
      let g2 := rs.foldl (fun g r => reset1 f r g) g1
      let g3 := rs.foldl (fun g r => reset2 f r g) g2
      { g3 with roots := rs } := rfl

theorem sumTo_pos {n : Nat} {f : Nat → Nat} (h : sumTo n f ≠ 0) : ∃ j, j < n ∧ f j ≠ 0 := by
  induction n with
  | zero => exact absurd rfl h
  | succ n ih =>
    simp only [sumTo] at h
    by_cases hn : f n = 0
    · obtain ⟨j, hj, hf⟩ := ih (by omega)
      exact ⟨j, by omega, hf⟩
    · exact ⟨n, by omega, hn⟩

/-- what `scan_roots` establishes; `g` is the state before the pass, `m` the marked state -/
structure Scanned (g m s : State) : Prop where
  core : Core g s
  panic : s.panic = none
  roots : s.roots = m.roots
  toBeFreed : s.toBeFreed = m.toBeFreed
  quiet : ∀ i, (s.nodes.get i).adj = 0 ∧ (s.nodes.get i).visited = false
  color : ∀ i, (s.nodes.get i).color = .black ∨ (s.nodes.get i).color = .purple ∨
    (s.nodes.get i).color = .white
  fresh : ∀ i, s.nextId ≤ i → s.nodes.get i = default
  /-- a white object has no external handle … -/
  whiteExt : ∀ w, (s.nodes.get w).color = .white → inCount g w = (g.nodes.get w).rc
  /-- … all its predecessors are white … -/
  whitePred : ∀ w, (s.nodes.get w).color = .white → ∀ p, w ∈ (g.nodes.get p).owned →
    (s.nodes.get p).color = .white
  /-- … and it is reachable from a root through white objects -/
  whitePath : ∀ w, (s.nodes.get w).color = .white →
    ∃ r ∈ s.roots, PReach (edges s) (isWhite s) r w

theorem scan_phase {g m : State} (I : GcInv g) (M : Marked g m) (g1 : State)
    (hg1 : m.roots.foldl (fun g r => scan (walkFuel { m with roots := [] }) r g)
      { m with roots := [] } = g1) (ho : g1.oof = false) :
    Sc { m with roots := [] } g1 ∧
    (∀ i, (g1.nodes.get i).color ≠ .gray) ∧
    (∀ w, (g1.nodes.get w).color = .white →
      (m.nodes.get w).color = .gray ∧ inCount g w = (g.nodes.get w).rc ∧
      (∀ p, w ∈ (g.nodes.get p).owned → (g1.nodes.get p).color = .white) ∧
      ∃ r ∈ m.roots, PReach (edges m) (isWhite g1) r w) := by
  have hwfm : WfE m := I.wfE.of_core M.core
  have h1 := foldl_rel_all (R := Sc)
    (I := fun a => edges a = edges m ∧ a.nextId = m.nextId)
    (Q := fun t a => a.oof = false → (a.nodes.get t).color ≠ .gray)
    (f := fun g r => scan (walkFuel { m with roots := [] }) r g)
    Sc.refl (fun _ _ _ => Sc.trans)
    (fun a b ha hab => ⟨hab.walk.toWalk.edges.trans ha.1, hab.walk.toWalk.nextId.trans ha.2⟩)
    (fun t a a' haa' hq ho => haa'.nongray_mono t (hq (haa'.walk.toWalk.oof_false ho)))
    m.roots { m with roots := [] } ⟨rfl, rfl⟩
    (by
      intro a ha r hr
      have hrl : r < a.nextId := by rw [ha.2]; exact M.rootsLt r hr
      have hwfa : WfE a := by intro i u hu; rw [ha.1] at hu; rw [ha.2]; exact hwfm i u hu
      exact scan_spec _ r a hrl hwfa)
  rw [hg1] at h1
  obtain ⟨hS, hQ⟩ := h1
  have hm0 : ∀ i, ({ m with roots := [] } : State).nodes.get i = m.nodes.get i := fun _ => rfl
  -- nothing is gray any more
  have hng : ∀ i, (g1.nodes.get i).color ≠ .gray := by
    intro i
    by_cases hgi : (m.nodes.get i).color = .gray
    · obtain ⟨r, hr, p⟩ := M.path i hgi
      induction p with
      | refl _ => exact hQ r hr ho
      | @step b c hp hc _ ih =>
        exact hS.grayClosed b hp.last (ih hp.last) ho c hc
    · exact hS.nongray_mono i hgi
  -- colours of objects that were gray
  have hgw : ∀ i, (m.nodes.get i).color = .gray →
      (g1.nodes.get i).color = .black ∨ (g1.nodes.get i).color = .white := by
    intro i hgi
    rcases hS.color i with e | e | ⟨_, e, _⟩
    · rw [hm0, hgi] at e; exact absurd e (hng i)
    · exact .inl e
    · exact .inr e
  have hwg : ∀ w, (g1.nodes.get w).color = .white →
      (m.nodes.get w).color = .gray ∧ (m.nodes.get w).adj = (m.nodes.get w).rc := by
    intro w hw
    rcases hS.color w with e | e | ⟨e1, _, e3⟩
    · rw [hm0] at e; rw [hw] at e
      rcases M.color w with h | h | h <;> rw [h] at e <;> cases e
    · rw [hw] at e; cases e
    · exact ⟨e1, e3⟩
  refine ⟨hS, hng, fun w hw => ?_⟩
  obtain ⟨hwgray, hadj⟩ := hwg w hw
  -- counting: every counted reference to `w` comes from a gray object
  have hle1 := grayIn_le_tracedIn m w
  have hte : tracedIn m w = inCount g w := by rw [tracedIn_core M.core, I.tracedIn_eq]
  have hcnt := I.count' w
  have hrc : (m.nodes.get w).rc = (g.nodes.get w).rc := M.core.rc w
  have hmg := M.mg w
  have hext : inCount g w = (g.nodes.get w).rc := by omega
  have hterm := sumTo_eq_of_le (n := m.nextId)
    (f := fun j => if (m.nodes.get j).color = .gray then (m.nodes.get j).traced.count w else 0)
    (h := fun j => (m.nodes.get j).traced.count w)
    (fun j _ => by
      show (if (m.nodes.get j).color = .gray then (m.nodes.get j).traced.count w else 0) ≤ _
      split
      · exact Nat.le_refl _
      · exact Nat.zero_le _)
    (by
      show tracedIn m w ≤ grayIn m w
      omega)
  have hpred : ∀ p, w ∈ (g.nodes.get p).owned → (m.nodes.get p).color = .gray := by
    intro p hp
    have hpl : p < g.nextId := by
      by_cases h : p < g.nextId
      · exact h
      · rw [I.fresh p (by omega)] at hp; cases hp
    have := hterm p (by rw [M.core.nextId]; exact hpl)
    by_cases hgp : (m.nodes.get p).color = .gray
    · exact hgp
    · rw [if_neg hgp, M.core.traced p, I.contract p] at this
      exact absurd (List.count_eq_zero.mp this.symm) (fun h => h hp)
  refine ⟨hwgray, hext, fun p hp => ?_, ?_⟩
  · have hpg := hpred p hp
    rcases hgw p hpg with hb | hwp
    · have := hS.blackClosed p (by rw [hm0, hpg]; intro h; cases h) hb ho w
        (by rw [hm0, M.core.traced p, I.contract p]; exact hp)
      rw [hw] at this; cases this
    · exact hwp
  · obtain ⟨r, hr, p⟩ := M.path w hwgray
    refine ⟨r, hr, ?_⟩
    have key : ∀ x, PReach (edges m) (isGray m) r x →
        (g1.nodes.get x).color = .black ∨ PReach (edges m) (isWhite g1) r x := by
      intro x px
      induction px with
      | refl hgr =>
        rcases hgw r hgr with h | h
        · exact .inl h
        · exact .inr (.refl h)
      | @step b c hp hc hgc ih =>
        rcases hgw c hgc with h | h
        · exact .inl h
        · right
          rcases ih with hb | hpb
          · have := hS.blackClosed b (by rw [hm0, hp.last]; intro h; cases h) hb ho c hc
            rw [h] at this; cases this
          · exact .step hpb hc h
    rcases key w p with h | h
    · rw [hw] at h; cases h
    · exact h

theorem scanRoots_spec {g m : State} (I : GcInv g) (M : Marked g m)
    (ho : (scanRoots m).oof = false) : Scanned g m (scanRoots m) := by
  rw [scanRoots_eq] at ho ⊢
  simp only [] at ho ⊢
  generalize hf : walkFuel { m with roots := [] } = f at ho ⊢
  generalize hg1 : m.roots.foldl (fun g r => scan f r g) { m with roots := [] } = g1 at ho ⊢
  generalize hg2 : m.roots.foldl (fun g r => reset1 f r g) g1 = g2 at ho ⊢
  generalize hg3 : m.roots.foldl (fun g r => reset2 f r g) g2 = g3 at ho ⊢
  have ho3 : g3.oof = false := ho
  have hw23 : WalkP g1 g3 := by
    rw [← hg3]
    refine WalkP.trans (g' := g2) ?_ ?_
    · rw [← hg2]
      exact foldl_rel (I := fun _ => True) WalkP.refl (fun _ _ _ => WalkP.trans)
        (fun _ _ _ _ => trivial) _ _ trivial (fun a _ r _ => reset1_walkP f r a)
    · exact foldl_rel (I := fun _ => True) WalkP.refl (fun _ _ _ => WalkP.trans)
        (fun _ _ _ _ => trivial) _ _ trivial (fun a _ r _ => reset2_walkP f r a)
  have ho1 : g1.oof = false := hw23.toWalk.oof_false ho3
  subst hf
  obtain ⟨hS, hng, hW⟩ := scan_phase I M g1 hg1 ho1
  have hm0 : ∀ i, ({ m with roots := [] } : State).nodes.get i = m.nodes.get i := fun _ => rfl
  have hv1 : ∀ i, (g1.nodes.get i).visited = false := by
    intro i; rw [hS.visited i, hm0]; exact M.visited i
  obtain ⟨_, hin, hout⟩ := reset_walks _ _ m.roots g1 g2 g3 hg2 hg3 hv1 ho3
  have hcm1 : Core m g1 := by
    have := hS.walk.toWalk.toCore
    exact ⟨this.core, this.nextId, this.dtorLog, this.oof⟩
  -- an object with a non-zero adjustment is reachable from a root
  have hn3 : ∀ i, g3.nodes.get i = { g1.nodes.get i with adj := 0 } := by
    intro i
    by_cases h : ∃ r ∈ m.roots, TReach (edges g1) r i
    · exact hin i h
    · rw [hout i h]
      have hadj : (g1.nodes.get i).adj = 0 := by
        rw [hS.adj i, hm0, M.mg i]
        apply Classical.byContradiction
        intro hne
        obtain ⟨j, _, hj⟩ := sumTo_pos hne
        by_cases hgj : (m.nodes.get j).color = .gray
        · rw [if_pos hgj] at hj
          have hmem : i ∈ (m.nodes.get j).traced := by
            apply Classical.byContradiction
            intro hnm; exact hj (List.count_eq_zero.mpr hnm)
          obtain ⟨r, hr, p⟩ := M.path j hgj
          apply h
          refine ⟨r, hr, ?_⟩
          rw [hcm1.edges]
          exact .step (p.mono (fun _ _ => trivial)) hmem trivial
        · rw [if_neg hgj] at hj; exact hj rfl
      cases hx : g1.nodes.get i
      rw [hx] at hadj
      simp only at hadj
      simp only [hadj]
  have hcol3 : ∀ i, (g3.nodes.get i).color = (g1.nodes.get i).color := fun i => by rw [hn3]
  have hc13 : Core g1 g3 := hw23.toWalk.toCore
  have hcg3 : Core g g3 := (M.core.trans hcm1).trans hc13
  have hedges : edges g3 = edges m := (hcm1.trans hc13).edges
  refine ⟨⟨hcg3.core, hcg3.nextId, hcg3.dtorLog, hcg3.oof⟩, ?_, rfl, ?_, fun i => ?_, fun i => ?_,
    fun i hi => ?_, fun w hw => ?_, fun w hw p hp => ?_, fun w hw => ?_⟩
  · exact (hw23.panic.trans hS.walk.panic).trans M.panic
  · exact hw23.toWalk.toBeFreed.trans hS.walk.toWalk.toBeFreed
  · show (g3.nodes.get i).adj = 0 ∧ (g3.nodes.get i).visited = false
    rw [hn3]; exact ⟨rfl, hv1 i⟩
  · show (g3.nodes.get i).color = .black ∨ (g3.nodes.get i).color = .purple ∨
      (g3.nodes.get i).color = .white
    rw [hcol3]
    rcases hS.color i with e | e | ⟨_, e, _⟩
    · rw [hm0] at e
      rcases M.color i with h | h | h
      · exact .inl (e.trans h)
      · exact .inr (.inl (e.trans h))
      · rw [h] at e; exact absurd e (hng i)
    · exact .inl e
    · exact .inr (.inr e)
  · show g3.nodes.get i = default
    have hi' : m.nextId ≤ i := by
      have : g3.nextId = m.nextId := (hcm1.trans hc13).nextId
      rw [← this]; exact hi
    have h1 : g1.nodes.get i = m.nodes.get i := by
      rw [hS.rest i, hS.ge i hi', hm0]; rfl
    rw [hn3, h1, M.fresh i hi']; rfl
  · exact (hW w (by rw [← hcol3]; exact hw)).2.1
  · show (g3.nodes.get p).color = .white
    rw [hcol3]
    exact (hW w (by rw [← hcol3]; exact hw)).2.2.1 p hp
  · obtain ⟨r, hr, pth⟩ := (hW w (by rw [← hcol3]; exact hw)).2.2.2
    refine ⟨r, hr, ?_⟩
    show PReach (edges g3) _ r w
    rw [hedges]
    refine pth.mono (fun j hj => ?_)
    show (g3.nodes.get j).color = .white
    rw [hcol3]; exact hj

end Gc
end SodiumVerif
