/-
  Frame facts for the collector's walks: no walk changes the counts, the `freed` flags, the
  edge lists, the destructor bookkeeping, the buffers or `nextId`; only `markGray` can raise a
  panic.  No precondition on the state is needed.
-/
import SodiumVerif.Lemmas.GcInv

namespace SodiumVerif
namespace Gc
open State

/-! ### generic fold lemmas -/

theorem foldl_rel {α β : Type} {R : α → α → Prop} (hr : ∀ a, R a a)
    (ht : ∀ a b c, R a b → R b c → R a c) {I : α → Prop} (hI : ∀ a b, I a → R a b → I b)
    {f : α → β → α} (l : List β) :
    ∀ a : α, I a → (∀ a, I a → ∀ b ∈ l, R a (f a b)) → R a (l.foldl f a) := by
  induction l with
  | nil => intro a _ _; exact hr a
  | cons x t ih =>
    intro a ha h
    simp only [List.foldl_cons]
    have h1 := h a ha x List.mem_cons_self
    exact ht _ _ _ h1 (ih (f a x) (hI _ _ ha h1) (fun a ha b hb => h a ha b (List.mem_cons_of_mem _ hb)))

theorem foldl_rel_all {α β : Type} {R : α → α → Prop} (hr : ∀ a, R a a)
    (ht : ∀ a b c, R a b → R b c → R a c) {I : α → Prop} (hI : ∀ a b, I a → R a b → I b)
    {Q : β → α → Prop} (hQ : ∀ b a a', R a a' → Q b a → Q b a')
    {f : α → β → α} (l : List β) :
    ∀ a : α, I a → (∀ a, I a → ∀ b ∈ l, R a (f a b) ∧ Q b (f a b)) →
      R a (l.foldl f a) ∧ ∀ b ∈ l, Q b (l.foldl f a) := by
  induction l with
  | nil => intro a _ _; exact ⟨hr a, fun b hb => by cases hb⟩
  | cons x t ih =>
    intro a ha h
    simp only [List.foldl_cons]
    have h1 := h a ha x List.mem_cons_self
    have h2 := ih (f a x) (hI _ _ ha h1.1) (fun a ha b hb => h a ha b (List.mem_cons_of_mem _ hb))
    refine ⟨ht _ _ _ h1.1 h2.1, ?_⟩
    intro b hb
    rcases List.mem_cons.mp hb with rfl | hb
    · exact hQ _ _ _ h2.1 h1.2
    · exact h2.2 b hb

/-! ### the frame -/

/-- the part of an object no walk touches -/
def GNode.core (x : GNode) : Nat × Bool × List Nat × List Nat × Nat :=
  (x.rc, x.freed, x.traced, x.owned, x.dtorRuns)

theorem GNode.core_eq {x y : GNode} (h : x.core = y.core) :
    x.rc = y.rc ∧ x.freed = y.freed ∧ x.traced = y.traced ∧ x.owned = y.owned ∧
      x.dtorRuns = y.dtorRuns := by
  simp only [GNode.core, Prod.mk.injEq] at h
  exact h

/-- what every walk preserves -/
structure Walk (g g' : State) : Prop where
  core : ∀ i, (g'.nodes.get i).core = (g.nodes.get i).core
  nextId : g'.nextId = g.nextId
  dtorLog : g'.dtorLog = g.dtorLog
  roots : g'.roots = g.roots
  toBeFreed : g'.toBeFreed = g.toBeFreed
  oof : g.oof = true → g'.oof = true

namespace Walk
variable {g g' g'' : State}
theorem refl (g : State) : Walk g g := ⟨fun _ => rfl, rfl, rfl, rfl, rfl, id⟩
theorem trans (h1 : Walk g g') (h2 : Walk g' g'') : Walk g g'' :=
  ⟨fun i => (h2.core i).trans (h1.core i), h2.nextId.trans h1.nextId, h2.dtorLog.trans h1.dtorLog,
   h2.roots.trans h1.roots, h2.toBeFreed.trans h1.toBeFreed, fun h => h2.oof (h1.oof h)⟩
theorem rc (h : Walk g g') (i) : (g'.nodes.get i).rc = (g.nodes.get i).rc := (GNode.core_eq (h.core i)).1
theorem freed (h : Walk g g') (i) : (g'.nodes.get i).freed = (g.nodes.get i).freed :=
  (GNode.core_eq (h.core i)).2.1
theorem traced (h : Walk g g') (i) : (g'.nodes.get i).traced = (g.nodes.get i).traced :=
  (GNode.core_eq (h.core i)).2.2.1
theorem owned (h : Walk g g') (i) : (g'.nodes.get i).owned = (g.nodes.get i).owned :=
  (GNode.core_eq (h.core i)).2.2.2.1
theorem dtorRuns (h : Walk g g') (i) : (g'.nodes.get i).dtorRuns = (g.nodes.get i).dtorRuns :=
  (GNode.core_eq (h.core i)).2.2.2.2
theorem oof_false (h : Walk g g') (h' : g'.oof = false) : g.oof = false := by
  cases e : g.oof with
  | false => rfl
  | true => rw [h.oof e] at h'; cases h'
end Walk

/-- a walk that cannot panic -/
structure WalkP (g g' : State) : Prop extends Walk g g' where
  panic : g'.panic = g.panic

namespace WalkP
variable {g g' g'' : State}
theorem refl (g : State) : WalkP g g := ⟨Walk.refl g, rfl⟩
theorem trans (h1 : WalkP g g') (h2 : WalkP g' g'') : WalkP g g'' :=
  ⟨h1.toWalk.trans h2.toWalk, h2.panic.trans h1.panic⟩
end WalkP

/-- updating fields outside the core -/
theorem walkP_upd (g : State) (s : Nat) (f : GNode → GNode)
    (hf : (f (g.nodes.get s)).core = (g.nodes.get s).core) : WalkP g (g.upd s f) := by
  refine ⟨⟨?_, rfl, rfl, rfl, rfl, id⟩, rfl⟩
  intro i
  by_cases hi : i = s
  · subst hi; simp only [State.upd, Store.get_set, if_true]; exact hf
  · simp only [State.upd, Store.get_set, hi, if_false]

theorem walkP_tick (g : State) : WalkP g g.tick := ⟨⟨fun _ => rfl, rfl, rfl, rfl, rfl, id⟩, rfl⟩
theorem walkP_tickE (g : State) : WalkP g g.tickE := ⟨⟨fun _ => rfl, rfl, rfl, rfl, rfl, id⟩, rfl⟩
theorem walkP_oof (g : State) : WalkP g { g with oof := true } :=
  ⟨⟨fun _ => rfl, rfl, rfl, rfl, rfl, fun _ => rfl⟩, rfl⟩
theorem walk_setPanic (g : State) (p : Panic) : Walk g (g.setPanic p) := by
  unfold State.setPanic; split
  · exact ⟨fun _ => rfl, rfl, rfl, rfl, rfl, id⟩
  · exact Walk.refl g

theorem walkP_overEdges {rec : Nat → State → State} (h : ∀ t g, WalkP g (rec t g))
    (l : List Nat) (g : State) : WalkP g (overEdges rec l g) := by
  unfold overEdges
  exact foldl_rel (I := fun _ => True) WalkP.refl (fun _ _ _ => WalkP.trans) (fun _ _ _ _ => trivial)
    l g trivial (fun a _ b _ => (walkP_tickE a).trans (h b _))

/-! ### normal forms of the walks -/

theorem reset1_zero (s : Nat) (g : State) : reset1 0 s g = { g with oof := true } := rfl
theorem reset2_zero (s : Nat) (g : State) : reset2 0 s g = { g with oof := true } := rfl
theorem markGray_zero (s : Nat) (g : State) : markGray 0 s g = { g with oof := true } := rfl
theorem scanBlack_zero (s : Nat) (g : State) : scanBlack 0 s g = { g with oof := true } := rfl
theorem scan_zero (s : Nat) (g : State) : scan 0 s g = { g with oof := true } := rfl
theorem collectWhite_zero (s : Nat) (g : State) (w : List Nat) :
    collectWhite 0 s (g, w) = ({ g with oof := true }, w) := rfl

theorem reset1_succ (fuel s : Nat) (g : State) : reset1 (fuel + 1) s g =
    if (g.nodes.get s).visited = true then g
    else overEdges (reset1 fuel) (g.nodes.get s).traced
      (g.upd s fun x => { x with visited := true, adj := 0 }).tick := by
  simp only [reset1, State.node, Store.get_set_same]

theorem reset2_succ (fuel s : Nat) (g : State) : reset2 (fuel + 1) s g =
    if (g.nodes.get s).visited = true then
      overEdges (reset2 fuel) (g.nodes.get s).traced
        (g.upd s fun x => { x with visited := false }).tick
    else g := by
  simp only [reset2, State.node, Store.get_set_same]
  by_cases h : (g.nodes.get s).visited = true <;> simp [h]

/-- the per-edge step of `mark_gray`: count the callback, bump the adjustment, test -/
def mgStep (g : State) (t : Nat) : State :=
  let g1 := g.tickE.upd t fun x => { x with adj := (g.nodes.get t).adj + 1 }
  if (g.nodes.get t).adj > (g.nodes.get t).rc then g1.setPanic .adjGtRc else g1

theorem markGray_succ (fuel s : Nat) (g : State) : markGray (fuel + 1) s g =
    if (g.nodes.get s).color = .gray then g
    else (g.nodes.get s).traced.foldl (fun g t => markGray fuel t (mgStep g t))
      (g.upd s fun x => { x with color := .gray }).tick := by
  simp only [markGray, State.node, Store.get_set_same]
  rfl

theorem scanBlack_succ (fuel s : Nat) (g : State) : scanBlack (fuel + 1) s g =
    (g.nodes.get s).traced.foldl (fun g t =>
        if (g.nodes.get t).color ≠ .black then scanBlack fuel t g.tickE else g.tickE)
      (g.upd s fun x => { x with color := .black }).tick := by
  simp only [scanBlack, State.node, Store.get_set_same]

theorem scan_succ (fuel s : Nat) (g : State) : scan (fuel + 1) s g =
    if (g.nodes.get s).color ≠ .gray then g
    else if (g.nodes.get s).adj = (g.nodes.get s).rc then
      overEdges (scan fuel) (g.nodes.get s).traced (g.upd s fun x => { x with color := .white }).tick
    else scanBlack (fuel + 1) s g := by
  simp only [scan, State.node, Store.get_set_same]

theorem collectWhite_succ (fuel s : Nat) (g : State) (w : List Nat) :
    collectWhite (fuel + 1) s (g, w) =
    if (g.nodes.get s).color = .white then
      (((g.nodes.get s).traced.foldl
          (fun (gw : State × List Nat) t => collectWhite fuel t (gw.1.tickE, gw.2))
          ((g.upd s fun x => { x with color := .black }).tick, w)).1,
       ((g.nodes.get s).traced.foldl
          (fun (gw : State × List Nat) t => collectWhite fuel t (gw.1.tickE, gw.2))
          ((g.upd s fun x => { x with color := .black }).tick, w)).2 ++ [s])
    else (g, w) := by
  simp only [collectWhite, State.node, Store.get_set_same]
/-! ### the walks -/

theorem walkP_mgStep_walk (g : State) (t : Nat) : Walk g (mgStep g t) := by
  unfold mgStep
  refine ((walkP_tickE g).trans (walkP_upd _ t
    (fun x => { x with adj := (g.nodes.get t).adj + 1 }) rfl)).toWalk.trans ?_
  split
  · exact walk_setPanic _ _
  · exact Walk.refl _

theorem reset1_walkP : ∀ (fuel s : Nat) (g : State), WalkP g (reset1 fuel s g) := by
  intro fuel
  induction fuel with
  | zero => intro s g; exact walkP_oof g
  | succ fuel ih =>
    intro s g
    rw [reset1_succ]
    split
    · exact WalkP.refl g
    · exact ((walkP_upd g s _ rfl).trans (walkP_tick _)).trans (walkP_overEdges ih _ _)

theorem reset2_walkP : ∀ (fuel s : Nat) (g : State), WalkP g (reset2 fuel s g) := by
  intro fuel
  induction fuel with
  | zero => intro s g; exact walkP_oof g
  | succ fuel ih =>
    intro s g
    rw [reset2_succ]
    split
    · exact ((walkP_upd g s _ rfl).trans (walkP_tick _)).trans (walkP_overEdges ih _ _)
    · exact WalkP.refl g

theorem markGray_walk : ∀ (fuel s : Nat) (g : State), Walk g (markGray fuel s g) := by
  intro fuel
  induction fuel with
  | zero => intro s g; exact (walkP_oof g).toWalk
  | succ fuel ih =>
    intro s g
    rw [markGray_succ]
    split
    · exact Walk.refl g
    · refine ((walkP_upd g s (fun x => { x with color := .gray }) rfl).trans
        (walkP_tick _)).toWalk.trans ?_
      refine foldl_rel (I := fun _ => True) Walk.refl (fun _ _ _ => Walk.trans)
        (fun _ _ _ _ => trivial) _ _ trivial ?_
      intro a _ t _
      exact (walkP_mgStep_walk a t).trans (ih t _)

theorem scanBlack_walkP : ∀ (fuel s : Nat) (g : State), WalkP g (scanBlack fuel s g) := by
  intro fuel
  induction fuel with
  | zero => intro s g; exact walkP_oof g
  | succ fuel ih =>
    intro s g
    rw [scanBlack_succ]
    refine ((walkP_upd g s (fun x => { x with color := .black }) rfl).trans (walkP_tick _)).trans ?_
    refine foldl_rel (I := fun _ => True) WalkP.refl (fun _ _ _ => WalkP.trans)
      (fun _ _ _ _ => trivial) _ _ trivial ?_
    intro a _ t _
    split
    · exact (walkP_tickE a).trans (ih t _)
    · exact walkP_tickE a

theorem scan_walkP : ∀ (fuel s : Nat) (g : State), WalkP g (scan fuel s g) := by
  intro fuel
  induction fuel with
  | zero => intro s g; exact walkP_oof g
  | succ fuel ih =>
    intro s g
    rw [scan_succ]
    split
    · exact WalkP.refl g
    · split
      · exact ((walkP_upd g s _ rfl).trans (walkP_tick _)).trans (walkP_overEdges ih _ _)
      · exact scanBlack_walkP _ _ _

theorem collectWhite_walkP : ∀ (fuel s : Nat) (gw : State × List Nat),
    WalkP gw.1 (collectWhite fuel s gw).1 := by
  intro fuel
  induction fuel with
  | zero => intro s gw; exact walkP_oof gw.1
  | succ fuel ih =>
    intro s gw
    obtain ⟨g, w⟩ := gw
    rw [collectWhite_succ]
    split
    · refine ((walkP_upd g s (fun x => { x with color := .black }) rfl).trans (walkP_tick _)).trans ?_
      exact foldl_rel (R := fun a b : State × List Nat => WalkP a.1 b.1) (I := fun _ => True)
        (fun a => WalkP.refl a.1) (fun _ _ _ => WalkP.trans)
        (fun _ _ _ _ => trivial) _ (_, w) trivial (fun a _ t _ => (walkP_tickE a.1).trans (ih t (a.1.tickE, a.2)))
    · exact WalkP.refl g

theorem displayGraph_walkP : ∀ (fuel : Nat) (st : List Nat) (seen : Store Bool) (g : State),
    WalkP g (displayGraph fuel st seen g) := by
  intro fuel
  induction fuel with
  | zero => intro st seen g; exact walkP_oof g
  | succ fuel ih =>
    intro st seen g
    cases st with
    | nil => unfold displayGraph; exact WalkP.refl g
    | cons next stack =>
      unfold displayGraph
      split
      · exact ih _ _ _
      · refine WalkP.trans ?_ (ih _ _ _)
        exact ⟨⟨fun _ => rfl, rfl, rfl, rfl, rfl, id⟩, rfl⟩

end Gc
end SodiumVerif
