/-
  Phase 3a of a pass: the `collect_white` loop of `collect_roots` gathers exactly the white
  objects (each once), blackening them; afterwards every colour is black or purple.
-/
import SodiumVerif.Lemmas.GcPhaseScan

namespace SodiumVerif
namespace Gc
open State

/-- one step of the first loop of `collect_roots` -/
def crStep (f : Nat) (gw : State × List Nat) (r : Nat) : State × List Nat :=
  collectWhite f r (gw.1.upd r fun x => { x with buffered := false }, gw.2)

theorem collectRoots_eq (g : State) :
    collectRoots g =
      let rs := g.roots
      let f := walkFuel { g with roots := [] }
      let r := rs.foldl (crStep f) ({ g with roots := [] }, [])
      let g1 := r.2.foldl freeCollected r.1
      let tbf := g1.toBeFreed
      let g2 := tbf.foldl freeCollected { g1 with toBeFreed := [] }
      checkZero (checkZero g2 r.2) tbf := rfl

theorem upd_get (g : State) (r : Nat) (f : GNode → GNode) (i : Nat) :
    (g.upd r f).nodes.get i = if i = r then f (g.nodes.get r) else g.nodes.get i := by
  simp only [State.upd, Store.get_set]

theorem cw_unbuffer' (g : State) (w : List Nat) (r : Nat) (hr : r < g.nextId) (g' : State)
    (hg' : g' = g.upd r fun x => { x with buffered := false }) : CW (g, w) (g', w) := by
  have hn : ∀ i, g'.nodes.get i =
      if i = r then { g.nodes.get r with buffered := false } else g.nodes.get i := by
    intro i; rw [hg', upd_get]
  have hcol : ∀ i, (g'.nodes.get i).color = (g.nodes.get i).color := by
    intro i; rw [hn]; split
    · next h => subst h; rfl
    · rfl
  have hw : WalkP g g' := by
    rw [hg']; exact walkP_upd g r (fun x => { x with buffered := false }) rfl
  refine ⟨hw, fun i => ?_, fun i => .inl (hcol i), ⟨[], by simp, List.nodup_nil, ?_⟩,
    fun i hw hnw => ?_, fun i hi => ?_⟩
  · simp only
    rw [hn]; split
    · next h => subst h; exact ⟨rfl, rfl⟩
    · exact ⟨rfl, rfl⟩
  · intro i
    constructor
    · intro h; cases h
    · rintro ⟨h1, h2⟩
      simp only at h1 h2
      rw [hcol i, h1] at h2; cases h2
  · simp only at hw hnw
    rw [hcol i] at hnw; exact absurd hw hnw
  · simp only at hi ⊢
    rw [hn, if_neg (by omega)]

theorem cw_unbuffer (a : State × List Nat) (r : Nat) (hr : r < a.1.nextId) :
    CW a (a.1.upd r fun x => { x with buffered := false }, a.2) :=
  cw_unbuffer' a.1 a.2 r hr _ rfl

/-- state after the `collect_white` loop; `s` is the scanned state, `wl` the collected list -/
structure Collected (g s c : State) (wl : List Nat) : Prop where
  core : Core g c
  panic : c.panic = none
  roots : c.roots = []
  toBeFreed : c.toBeFreed = s.toBeFreed
  quiet : ∀ i, (c.nodes.get i).adj = 0 ∧ (c.nodes.get i).visited = false ∧
    ((c.nodes.get i).color = .black ∨ (c.nodes.get i).color = .purple)
  fresh : ∀ i, c.nextId ≤ i → c.nodes.get i = default
  nodup : wl.Nodup
  mem : ∀ i, i ∈ wl ↔ (s.nodes.get i).color = .white

theorem collect_phase {g m s : State} (I : GcInv g) (M : Marked g m) (S : Scanned g m s)
    (res : State × List Nat)
    (hres : s.roots.foldl (crStep (walkFuel { s with roots := [] })) ({ s with roots := [] }, []) = res)
    (ho : res.1.oof = false) : Collected g s res.1 res.2 := by
  have hwfs : WfE s := I.wfE.of_core S.core
  have hrl : ∀ r ∈ s.roots, r < s.nextId := by
    intro r hr
    rw [S.roots] at hr
    rw [S.core.nextId, ← M.core.nextId]; exact M.rootsLt r hr
  have h1 := foldl_rel_all (R := CW)
    (I := fun a => edges a.1 = edges s ∧ a.1.nextId = s.nextId)
    (Q := fun t a => a.1.oof = false → (a.1.nodes.get t).color ≠ .white)
    (f := crStep (walkFuel { s with roots := [] }))
    CW.refl (fun _ _ _ => CW.trans)
    (fun a b ha hab => ⟨hab.walk.toWalk.edges.trans ha.1, hab.walk.toWalk.nextId.trans ha.2⟩)
    (fun t a a' haa' hq ho => haa'.nonwhite_mono t (hq (haa'.walk.toWalk.oof_false ho)))
    s.roots ({ s with roots := [] }, []) ⟨rfl, rfl⟩
    (by
      intro a ha r hr
      have hr' : r < a.1.nextId := by rw [ha.2]; exact hrl r hr
      have h0 := cw_unbuffer a r hr'
      have hwfa : WfE a.1 := by intro i u hu; rw [ha.1] at hu; rw [ha.2]; exact hwfs i u hu
      have h := collectWhite_spec (walkFuel { s with roots := [] }) r
        (a.1.upd r fun x => { x with buffered := false }, a.2)
        (by rw [h0.walk.toWalk.nextId]; exact hr') (hwfa.of_walk h0.walk.toWalk)
      exact ⟨h0.trans h.1, h.2⟩)
  rw [hres] at h1
  obtain ⟨hC, hQ⟩ := h1
  obtain ⟨c, wl⟩ := res
  simp only at hC hQ ho ⊢
  have hs0 : ∀ i, ({ s with roots := [] } : State).nodes.get i = s.nodes.get i := fun _ => rfl
  -- nothing is white any more
  have hnw : ∀ i, (c.nodes.get i).color ≠ .white := by
    intro i
    by_cases hwi : (s.nodes.get i).color = .white
    · obtain ⟨r, hr, p⟩ := S.whitePath i hwi
      induction p with
      | refl _ => exact hQ r hr ho
      | @step b x hp hx _ ih =>
        exact hC.whiteClosed b hp.last (ih hp.last) ho x hx
    · exact hC.nonwhite_mono i hwi
  have hcore : Core s c := by
    have := hC.walk.toWalk.toCore
    exact ⟨this.core, this.nextId, this.dtorLog, this.oof⟩
  refine ⟨S.core.trans hcore, hC.walk.panic.trans S.panic, hC.walk.toWalk.roots,
    hC.walk.toWalk.toBeFreed, fun i => ?_, fun i hi => ?_, ?_, fun i => ?_⟩
  · refine ⟨(hC.rest i).1.trans (S.quiet i).1, (hC.rest i).2.trans (S.quiet i).2, ?_⟩
    rcases hC.color i with e | ⟨_, e⟩
    · rw [hs0] at e
      rcases S.color i with h | h | h
      · exact .inl (e.trans h)
      · exact .inr (e.trans h)
      · rw [h] at e; exact absurd e (hnw i)
    · exact .inl e
  · have hi' : s.nextId ≤ i := by rw [← hcore.nextId]; exact hi
    rw [hC.ge i hi', hs0]; exact S.fresh i hi'
  · obtain ⟨l, e, nd, _⟩ := hC.list
    simp only [List.nil_append] at e
    rw [e]; exact nd
  · obtain ⟨l, e, _, hm⟩ := hC.list
    simp only [List.nil_append] at e
    rw [e, hm i, hs0]
    constructor
    · exact fun h => h.1
    · intro hw
      refine ⟨hw, ?_⟩
      rcases hC.color i with e' | ⟨_, e'⟩
      · rw [hs0, hw] at e'; exact absurd e' (hnw i)
      · exact e'

end Gc
end SodiumVerif
