/-
  Phase 3b of a pass: freeing the collected objects.  `free` releases every owned reference of
  the freed object exactly once, so `rc - inCount` (the external handles) of every object is
  unchanged; objects that are not freed keep their edge lists.
-/
import SodiumVerif.Lemmas.GcPhaseCollect
import SodiumVerif.Lemmas.GcClient

namespace SodiumVerif
namespace Gc
open State

/-! ### normal forms -/

/-- `free` up to the point where the destructor starts releasing references -/
def freeHead (a : State) (n : Nat) : State :=
  let g1 := a.upd n fun x => { x with freed := true }
  let g2 := g1.upd n fun x => { x with dtorRuns := x.dtorRuns + 1, traced := [], owned := [] }
  { g2 with dtorLog := g2.dtorLog ++ [n] }

theorem free_eq (a : State) (n : Nat) (hd : (a.nodes.get n).dtorRuns = 0) :
    free a n = (a.nodes.get n).owned.foldl decRef (freeHead a n) := by
  unfold free
  simp only [State.node]
  rw [if_pos hd]
  rfl

theorem freeHead_get (a : State) (n i : Nat) (hd : (a.nodes.get n).dtorRuns = 0) :
    (freeHead a n).nodes.get i =
      if i = n then { a.nodes.get n with freed := true, dtorRuns := 1, traced := [], owned := [] }
      else a.nodes.get i := by
  unfold freeHead
  simp only [Store.get_set]
  split
  · simp [hd]
  · rfl

theorem checkZero_id (g : State) (l : List Nat) (h : ∀ i ∈ l, (g.nodes.get i).rc = 0) :
    checkZero g l = g := by
  unfold checkZero
  induction l with
  | nil => rfl
  | cons x t ih =>
    simp only [List.foldl_cons, State.node]
    rw [if_neg (by simp [h x List.mem_cons_self])]
    exact ih (fun i hi => h i (List.mem_cons_of_mem _ hi))

/-! ### the invariant of the freeing loop -/

/-- `g` is the state before the pass, `P` the references the running destructor still has to
    release -/
structure FreeInv (g : State) (P : List Nat) (a : State) : Prop where
  nextId : a.nextId = g.nextId
  panic : a.panic = none
  contract : ∀ i, (a.nodes.get i).traced = (a.nodes.get i).owned
  wf : ∀ i, ∀ t ∈ (a.nodes.get i).owned, t < a.nextId
  fresh : ∀ i, a.nextId ≤ i → a.nodes.get i = default
  freedEmpty : ∀ i, (a.nodes.get i).freed = true →
    (a.nodes.get i).owned = [] ∧ (a.nodes.get i).dtorRuns = 1
  liveDtor : ∀ i, (a.nodes.get i).freed = false → (a.nodes.get i).dtorRuns = 0
  quiescent : ∀ i, (a.nodes.get i).adj = 0 ∧ (a.nodes.get i).visited = false ∧
    ((a.nodes.get i).color = .black ∨ (a.nodes.get i).color = .purple)
  rootsLt : ∀ r ∈ a.roots, r < a.nextId
  count : ∀ i, inCount a i + P.count i ≤ (a.nodes.get i).rc
  extEq : ∀ i, (a.nodes.get i).rc + inCount g i = (g.nodes.get i).rc + inCount a i + P.count i
  mono : ∀ i, (a.nodes.get i).freed = false →
    (g.nodes.get i).freed = false ∧ (a.nodes.get i).owned = (g.nodes.get i).owned
  pend : ∀ t ∈ P, t < a.nextId

theorem freeInv_start {g s c : State} {wl : List Nat} (I : GcInv g) (C : Collected g s c wl) :
    FreeInv g [] c := by
  have hc := C.core
  refine { nextId := hc.nextId, panic := C.panic, contract := ?_, wf := ?_, fresh := C.fresh,
           freedEmpty := ?_, liveDtor := ?_, quiescent := C.quiet, rootsLt := ?_, count := ?_,
           extEq := ?_, mono := ?_, pend := ?_ }
  · intro i; rw [hc.traced, hc.owned]; exact I.contract i
  · intro i t ht; rw [hc.owned] at ht; rw [hc.nextId]; exact I.wf i t ht
  · intro i hf; rw [hc.freed] at hf; rw [hc.owned, hc.dtorRuns]; exact I.freedEmpty i hf
  · intro i hf; rw [hc.freed] at hf; rw [hc.dtorRuns]; exact I.liveDtor i hf
  · intro r hr; rw [C.roots] at hr; cases hr
  · intro i; rw [inCount_core hc, hc.rc]; simpa using I.count' i
  · intro i; rw [inCount_core hc, hc.rc]; simp
  · intro i hf; rw [hc.freed] at hf; exact ⟨hf, hc.owned i⟩
  · intro t ht; cases ht

/-- releasing the next pending reference -/
theorem freeInv_decRef {g a : State} {P : List Nat} {t : Nat} (K : FreeInv g (t :: P) a) :
    FreeInv g P (decRef a t) := by
  have htl : t < a.nextId := K.pend t List.mem_cons_self
  have hrc : (a.nodes.get t).rc ≠ 0 := by
    have := K.count t
    simp only [List.count_cons_self] at this
    omega
  have F := rcOnly_decRef a t
  obtain ⟨_, _, _, hroots⟩ := decRef_frame a t
  have hne : ∀ i, i ≠ t → (decRef a t).nodes.get i = a.nodes.get i := by
    intro i hi; rw [decRef_get, if_neg (fun h => hi h.1)]
  have ht : ((decRef a t).nodes.get t).rc = (a.nodes.get t).rc - 1 ∧
      ((decRef a t).nodes.get t).color = .purple := by
    rw [decRef_get, if_pos ⟨rfl, hrc⟩]
    by_cases hp : (a.nodes.get t).color = .purple
    · rw [if_neg (fun h => h hp)]; exact ⟨rfl, hp⟩
    · rw [if_pos hp]; exact ⟨rfl, rfl⟩
  have hic : ∀ i, inCount (decRef a t) i = inCount a i := F.inCount
  refine { nextId := F.nextId.trans K.nextId, panic := F.panic.trans K.panic, contract := ?_,
           wf := ?_, fresh := ?_, freedEmpty := ?_, liveDtor := ?_, quiescent := ?_, rootsLt := ?_,
           count := ?_, extEq := ?_, mono := ?_, pend := ?_ }
  · intro i; rw [F.traced, F.owned]; exact K.contract i
  · intro i u hu; rw [F.owned] at hu; rw [F.nextId]; exact K.wf i u hu
  · intro i hi
    rw [F.nextId] at hi
    rw [hne i (by omega)]; exact K.fresh i hi
  · intro i hf; rw [F.freed] at hf; rw [F.owned, F.dtorRuns]; exact K.freedEmpty i hf
  · intro i hf; rw [F.freed] at hf; rw [F.dtorRuns]; exact K.liveDtor i hf
  · intro i
    rw [F.adj, F.visited]
    refine ⟨(K.quiescent i).1, (K.quiescent i).2.1, ?_⟩
    by_cases hi : i = t
    · subst hi; exact .inr ht.2
    · rw [hne i hi]; exact (K.quiescent i).2.2
  · intro r hr
    rw [F.nextId]
    rcases hroots r hr with h | h
    · exact K.rootsLt r h
    · rw [h]; exact htl
  · intro i
    rw [hic]
    have := K.count i
    by_cases hi : i = t
    · subst hi
      simp only [List.count_cons_self] at this
      rw [ht.1]; omega
    · rw [List.count_cons_of_ne (fun e => hi e.symm)] at this
      rw [hne i hi]; exact this
  · intro i
    rw [hic]
    have := K.extEq i
    by_cases hi : i = t
    · subst hi
      simp only [List.count_cons_self] at this
      rw [ht.1]; omega
    · rw [List.count_cons_of_ne (fun e => hi e.symm)] at this
      rw [hne i hi]; exact this
  · intro i hf; rw [F.freed] at hf; rw [F.owned]; exact K.mono i hf
  · intro u hu; rw [F.nextId]; exact K.pend u (List.mem_cons_of_mem _ hu)

theorem freeInv_decRef_fold {g : State} : ∀ (l : List Nat) (a : State), FreeInv g l a →
    FreeInv g [] (l.foldl decRef a) := by
  intro l
  induction l with
  | nil => intro a K; exact K
  | cons t rest ih => intro a K; exact ih _ (freeInv_decRef K)

/-- what `decRef` and folds of it never touch -/
theorem decRef_fold_rcOnly : ∀ (l : List Nat) (a : State), RcOnly a (l.foldl decRef a) := by
  intro l
  induction l with
  | nil => intro a; exact RcOnly.refl a
  | cons t rest ih =>
    intro a
    have h1 := rcOnly_decRef a t
    have h2 := ih (decRef a t)
    exact ⟨h2.nextId.trans h1.nextId, h2.tbf.trans h1.tbf, h2.panic.trans h1.panic,
      fun i => (h2.freed i).trans (h1.freed i), fun i => (h2.owned i).trans (h1.owned i),
      fun i => (h2.traced i).trans (h1.traced i), fun i => (h2.dtorRuns i).trans (h1.dtorRuns i),
      fun i => (h2.adj i).trans (h1.adj i), fun i => (h2.visited i).trans (h1.visited i)⟩

/-- freeing one unfreed object -/
theorem freeInv_free {g a : State} {n : Nat} (K : FreeInv g [] a) (hn : n < a.nextId)
    (hf : (a.nodes.get n).freed = false) :
    FreeInv g [] (free a n) ∧ (free a n).toBeFreed = a.toBeFreed ∧
      ∀ j, ((free a n).nodes.get j).freed = if j = n then true else (a.nodes.get j).freed := by
  have hd := K.liveDtor n hf
  rw [free_eq a n hd]
  have hget := fun i => freeHead_get a n i hd
  have hne : ∀ i, i ≠ n → (freeHead a n).nodes.get i = a.nodes.get i := by
    intro i hi; rw [hget, if_neg hi]
  have hnid : (freeHead a n).nextId = a.nextId := rfl
  -- removing `n`'s references from `inCount`
  have hic : ∀ i, inCount (freeHead a n) i + (a.nodes.get n).owned.count i = inCount a i := by
    intro i
    have := inCount_update (g := a) (g' := freeHead a n) (a := n) hnid hn
      (fun j hj => by rw [hne j hj]) (fun j hj => by rw [hne j hj]) i
    have e1 : contrib a i n = (a.nodes.get n).owned.count i := by
      unfold contrib; rw [hf]; rfl
    have e2 : contrib (freeHead a n) i n = 0 := by
      unfold contrib; rw [hget, if_pos rfl]; rfl
    omega
  have K1 : FreeInv g (a.nodes.get n).owned (freeHead a n) := by
    refine { nextId := K.nextId, panic := K.panic, contract := ?_, wf := ?_, fresh := ?_,
             freedEmpty := ?_, liveDtor := ?_, quiescent := ?_, rootsLt := K.rootsLt, count := ?_,
             extEq := ?_, mono := ?_, pend := ?_ }
    · intro i; rw [hget]; split
      · rfl
      · exact K.contract i
    · intro i t ht
      rw [hget] at ht
      split at ht
      · cases ht
      · exact K.wf i t ht
    · intro i hi
      have hi' : a.nextId ≤ i := hi
      rw [hne i (by omega)]; exact K.fresh i hi'
    · intro i hfi
      rw [hget] at hfi ⊢
      split
      · exact ⟨rfl, rfl⟩
      · next h => rw [if_neg h] at hfi; exact K.freedEmpty i hfi
    · intro i hfi
      rw [hget] at hfi ⊢
      split
      · next h => rw [if_pos h] at hfi; cases hfi
      · next h => rw [if_neg h] at hfi; exact K.liveDtor i hfi
    · intro i
      rw [hget]; split
      · next h => subst h; exact K.quiescent i
      · exact K.quiescent i
    · intro i
      have h1 := hic i
      have h2 := K.count i
      have h3 : ((freeHead a n).nodes.get i).rc = (a.nodes.get i).rc := by
        rw [hget]; split
        · next h => subst h; rfl
        · rfl
      simp only [List.count_nil, Nat.add_zero] at h2
      rw [h3]; omega
    · intro i
      have h1 := hic i
      have h2 := K.extEq i
      have h3 : ((freeHead a n).nodes.get i).rc = (a.nodes.get i).rc := by
        rw [hget]; split
        · next h => subst h; rfl
        · rfl
      simp only [List.count_nil, Nat.add_zero] at h2
      rw [h3]; omega
    · intro i hfi
      rw [hget] at hfi ⊢
      split
      · next h => rw [if_pos h] at hfi; cases hfi
      · next h => rw [if_neg h] at hfi; exact K.mono i hfi
    · intro t ht; exact K.wf n t ht
  have F := decRef_fold_rcOnly (a.nodes.get n).owned (freeHead a n)
  refine ⟨freeInv_decRef_fold _ _ K1, F.tbf, fun j => ?_⟩
  rw [F.freed, hget]
  split
  · rfl
  · rfl

/-- `g'` has the same objects, count and panic state; only the candidate buffer shrank -/
theorem FreeInv.of_roots {g a a' : State} {P : List Nat} (K : FreeInv g P a)
    (hn : a'.nodes = a.nodes) (hi : a'.nextId = a.nextId) (hp : a'.panic = a.panic)
    (hr : ∀ r ∈ a'.roots, r ∈ a.roots) : FreeInv g P a' := by
  have hic : ∀ i, inCount a' i = inCount a i :=
    fun i => inCount_congr hi (fun j => by rw [hn]) (fun j => by rw [hn]) i
  refine { nextId := hi.trans K.nextId, panic := hp.trans K.panic, contract := ?_, wf := ?_,
           fresh := ?_, freedEmpty := ?_, liveDtor := ?_, quiescent := ?_, rootsLt := ?_, count := ?_,
           extEq := ?_, mono := ?_, pend := ?_ }
  · rw [hn]; exact K.contract
  · rw [hn, hi]; exact K.wf
  · rw [hn, hi]; exact K.fresh
  · rw [hn]; exact K.freedEmpty
  · rw [hn]; exact K.liveDtor
  · rw [hn]; exact K.quiescent
  · intro r h; rw [hi]; exact K.rootsLt r (hr r h)
  · intro i; rw [hic, hn]; exact K.count i
  · intro i; rw [hic, hn]; exact K.extEq i
  · rw [hn]; exact K.mono
  · rw [hi]; exact K.pend

theorem freeInv_freeCollected {g a : State} {n : Nat} (K : FreeInv g [] a) (hn : n < a.nextId) :
    FreeInv g [] (freeCollected a n) ∧ (freeCollected a n).toBeFreed = a.toBeFreed ∧
      ∀ j, ((freeCollected a n).nodes.get j).freed = true ↔
        ((a.nodes.get j).freed = true ∨ j = n) := by
  unfold freeCollected
  by_cases hf : (a.nodes.get n).freed = true
  · rw [if_neg (fun h => h hf)]
    refine ⟨K, rfl, fun j => ⟨fun h => .inl h, fun h => ?_⟩⟩
    rcases h with h | h
    · exact h
    · rw [h]; exact hf
  · have hf' : (a.nodes.get n).freed = false := by simpa using hf
    rw [if_pos hf]
    obtain ⟨K', ht, hfr⟩ := freeInv_free K hn hf'
    refine ⟨K'.of_roots rfl rfl rfl (fun r hr => (List.mem_filter.mp hr).1), ht, fun j => ?_⟩
    show ((free a n).nodes.get j).freed = true ↔ _
    rw [hfr]
    by_cases hj : j = n
    · simp [hj]
    · simp [hj]

theorem freeInv_fold {g : State} : ∀ (l : List Nat) (a : State), FreeInv g [] a →
    (∀ n ∈ l, n < a.nextId) →
    FreeInv g [] (l.foldl freeCollected a) ∧ (l.foldl freeCollected a).toBeFreed = a.toBeFreed ∧
      ∀ j, ((l.foldl freeCollected a).nodes.get j).freed = true ↔
        ((a.nodes.get j).freed = true ∨ j ∈ l) := by
  intro l
  induction l with
  | nil => intro a K _; exact ⟨K, rfl, fun j => by simp⟩
  | cons n rest ih =>
    intro a K hl
    simp only [List.foldl_cons]
    obtain ⟨K1, ht1, hf1⟩ := freeInv_freeCollected K (hl n List.mem_cons_self)
    have hnid : (freeCollected a n).nextId = a.nextId := K1.nextId.trans K.nextId.symm
    obtain ⟨K2, ht2, hf2⟩ := ih (freeCollected a n) K1
      (fun x hx => by rw [hnid]; exact hl x (List.mem_cons_of_mem _ hx))
    refine ⟨K2, ht2.trans ht1, fun j => ?_⟩
    rw [hf2, hf1, List.mem_cons]
    constructor
    · rintro ((h | h) | h)
      · exact .inl h
      · exact .inr (.inl h)
      · exact .inr (.inr h)
    · rintro (h | h | h)
      · exact .inl (.inl h)
      · exact .inl (.inr h)
      · exact .inr h

end Gc
end SodiumVerif
