/-
  Cost of the collector's guarded walks, counted in `trace()` calls: each call that passes the
  guard flips a per-object flag, so `traceCalls + (number of unflipped objects)` is conserved —
  independent of the number of paths.  `S` is any duplicate-free list of objects that is closed
  under the reported edges (e.g. everything reachable from the candidate buffer).
-/
import SodiumVerif.Lemmas.GcBasic

namespace SodiumVerif
namespace Gc
open State

/-- `S` is closed under the edges reported by `trace` -/
def Closed (g : State) (S : List Nat) : Prop :=
  ∀ i ∈ S, ∀ t ∈ (g.nodes.get i).traced, t ∈ S

/-- same reported edges everywhere -/
def SameEdges (g g' : State) : Prop := ∀ i, (g'.nodes.get i).traced = (g.nodes.get i).traced

theorem SameEdges.refl (g : State) : SameEdges g g := fun _ => rfl
theorem SameEdges.trans {a b c : State} (h1 : SameEdges a b) (h2 : SameEdges b c) : SameEdges a c :=
  fun i => (h2 i).trans (h1 i)
theorem Closed.of_same {g g' : State} {S} (h : Closed g S) (e : SameEdges g g') : Closed g' S :=
  fun i hi t ht => h i hi t (by rw [← e i]; exact ht)

theorem countP_flip {S : List Nat} (hS : S.Nodup) {s : Nat} (hs : s ∈ S) {p q : Nat → Bool}
    (hp : p s = true) (hq : q s = false) (hne : ∀ i, i ≠ s → p i = q i) :
    S.countP p = S.countP q + 1 := by
  induction S with
  | nil => cases hs
  | cons a t ih =>
    rw [List.nodup_cons] at hS
    rcases List.mem_cons.mp hs with rfl | hs'
    · have : t.countP p = t.countP q := by
        apply List.countP_congr
        intro i hi
        have : i ≠ s := fun e => hS.1 (e ▸ hi)
        simp [hne i this]
      simp [List.countP_cons, hp, hq, this]
    · have hne' : a ≠ s := fun e => hS.1 (e ▸ hs')
      have := ih hS.2 hs'
      simp [List.countP_cons, hne a hne', this]
      omega

/-- objects of `S` not yet visited by the reset walk -/
def unvisited (g : State) (S : List Nat) : Nat := S.countP fun i => !(g.nodes.get i).visited

/-- what one `reset1` visit guarantees -/
structure Reset1Post (S : List Nat) (g g' : State) : Prop where
  cost : g'.traceCalls + unvisited g' S = g.traceCalls + unvisited g S
  same : SameEdges g g'

theorem reset1_fold {S : List Nat} (rec : Nat → State → State)
    (hrec : ∀ t g, t ∈ S → Closed g S → Reset1Post S g (rec t g)) :
    ∀ (l : List Nat) (g : State), (∀ t ∈ l, t ∈ S) → Closed g S →
      Reset1Post S g (overEdges rec l g) := by
  intro l
  induction l with
  | nil => intro g _ _; exact ⟨rfl, SameEdges.refl g⟩
  | cons a t ih =>
    intro g hl hc
    simp only [overEdges, List.foldl_cons]
    have h1 := hrec a g.tickE (hl a List.mem_cons_self) hc
    have hc' : Closed (rec a g.tickE) S := hc.of_same h1.same
    have h2 := ih (rec a g.tickE) (fun x hx => hl x (List.mem_cons_of_mem _ hx)) hc'
    exact ⟨by have := h1.cost; have := h2.cost; simp only [overEdges] at *; simp_all [unvisited],
           SameEdges.trans h1.same h2.same⟩

theorem reset1_cost {S : List Nat} (hS : S.Nodup) :
    ∀ (fuel s : Nat) (g : State), s ∈ S → Closed g S → Reset1Post S g (reset1 fuel s g) := by
  intro fuel
  induction fuel with
  | zero => intro s g _ _; exact ⟨rfl, SameEdges.refl _⟩
  | succ fuel ih =>
    intro s g hs hc
    unfold reset1
    by_cases hv : (g.nodes.get s).visited = true
    · simp only [State.node, hv, if_true]; exact ⟨rfl, SameEdges.refl _⟩
    · let g1 : State := (g.upd s fun x => { x with visited := true, adj := 0 })
      have hgoal : (if (g.node s).visited = true then g
            else overEdges (reset1 fuel) ((g.upd s fun x => { x with visited := true, adj := 0 }).node s).traced
              (g.upd s fun x => { x with visited := true, adj := 0 }).tick)
          = overEdges (reset1 fuel) (g1.nodes.get s).traced g1.tick := by
        simp only [State.node] ; rw [if_neg hv]
      rw [hgoal]
      have hsame1 : SameEdges g g1 := by
        intro i; by_cases hi : i = s <;> simp [g1, State.upd, Store.get_set, hi]
      have hc1 : Closed g1.tick S := hc.of_same hsame1
      have hl : ∀ t ∈ (g1.nodes.get s).traced, t ∈ S := by
        intro t ht; exact hc1 s hs t ht
      have hfold := reset1_fold (S := S) (reset1 fuel) (fun t g ht hcg => ih t g ht hcg)
        (g1.nodes.get s).traced g1.tick hl hc1
      have hcount : unvisited g S = unvisited g1 S + 1 := by
        unfold unvisited
        apply countP_flip hS hs
        · simp [hv]
        · simp [g1, State.upd]
        · intro i hi; simp [g1, State.upd, Store.get_set, hi]
      have hcost : (overEdges (reset1 fuel) (g1.nodes.get s).traced g1.tick).traceCalls
          + unvisited (overEdges (reset1 fuel) (g1.nodes.get s).traced g1.tick) S
          = (g.traceCalls + 1) + unvisited g1 S := hfold.cost
      exact ⟨by omega, SameEdges.trans hsame1 hfold.same⟩

end Gc
end SodiumVerif
