/-
  Lemmas about the state transition of S (`applyUpdates`, `stepTxn`): which slots are written.
-/
import SodiumVerif.Lemmas.SpecFire

namespace SodiumVerif
namespace Spec

theorem fire_of_get {tbl : Table} {i : Nat} {r : Option Int} (h : tbl.get i = some r) :
    fire tbl i = r := by
  simp [fire, h]

theorem fire_of_get_none {tbl : Table} {i : Nat} (h : tbl.get i = none) : fire tbl i = none := by
  simp [fire, h]

theorem getDef_lt (sp : Spec) (i : Nat) (h : sp.getDef i ≠ .never) : i < sp.defs.size := by
  apply Classical.byContradiction
  intro hn
  apply h
  unfold Spec.getDef
  simp [Array.getD, hn]

/-! ### resolved entries -/

/-- entry `i` of the firing table of the transaction is computed -/
def Resolved (sp : Spec) (ev : Events) (i : Nat) : Prop := (fireTable sp ev).get i ≠ none

instance (sp : Spec) (ev : Events) (i : Nat) : Decidable (Resolved sp ev i) := by
  unfold Resolved; infer_instance

theorem Resolved.of_wellRanked {sp : Spec} {rank : Nat → Nat} (wr : WellRanked sp rank)
    (ev : Events) {i : Nat} (hi : i < sp.defs.size) : Resolved sp ev i :=
  fireTable_total sp ev rank wr i hi

/-- a resolved entry equals its firing equation evaluated on the table -/
theorem Resolved.eqn {sp : Spec} {ev : Events} {i : Nat} (hr : Resolved sp ev i) :
    fireOf sp ev (fun j => (fireTable sp ev).get j) i = some (fire (fireTable sp ev) i) := by
  cases h : (fireTable sp ev).get i with
  | none => exact absurd h hr
  | some r => rw [fire_of_get h]; exact fireTable_solves sp ev i r h

/-! ### generic shapes -/

theorem fire_unary {sp : Spec} {ev : Events} {i s : Nat} {g : Option Int → Option Int}
    (hg : ∀ look, fireOf sp ev look i = (look s).map g) (hr : Resolved sp ev i) :
    fire (fireTable sp ev) i = g (fire (fireTable sp ev) s) := by
  have h := hr.eqn
  rw [hg] at h
  cases hs : (fireTable sp ev).get s with
  | none => simp [hs] at h
  | some x =>
    rw [fire_of_get hs]
    simpa [hs] using h.symm

theorem fire_binary {sp : Spec} {ev : Events} {i a b : Nat} {g : Option Int → Option Int → Option Int}
    (hg : ∀ look, fireOf sp ev look i = (look a).bind fun x => (look b).bind fun y => some (g x y))
    (hr : Resolved sp ev i) :
    fire (fireTable sp ev) i = g (fire (fireTable sp ev) a) (fire (fireTable sp ev) b) := by
  have h := hr.eqn
  rw [hg] at h
  cases ha : (fireTable sp ev).get a with
  | none => simp [ha] at h
  | some x =>
    cases hb : (fireTable sp ev).get b with
    | none => simp [ha, hb] at h
    | some y =>
      rw [fire_of_get ha, fire_of_get hb]
      simpa [ha, hb] using h.symm

/-! ### a fold that writes slot `i` at step `i` -/

section fold
variable {α : Type} [Inhabited α]

/-- step `i` writes `v` to slot `i` when `g i = some v` -/
def optSet (g : Nat → Option α) (st : Store α) (i : Nat) : Store α :=
  match g i with
  | some v => st.set i v
  | none => st

theorem optSet_get (g : Nat → Option α) (st : Store α) (i j : Nat) :
    (optSet g st i).get j = if j = i then (g i).getD (st.get i) else st.get j := by
  unfold optSet
  cases hg : g i with
  | none => by_cases hji : j = i <;> simp [hji]
  | some v => simp [Store.get_set]

theorem foldl_optSet_get (g : Nat → Option α) (l : List Nat) (st : Store α) (j : Nat) :
    (l.foldl (optSet g) st).get j = if j ∈ l then (g j).getD (st.get j) else st.get j := by
  induction l generalizing st with
  | nil => simp
  | cons a l ih =>
    rw [List.foldl_cons, ih, optSet_get]
    by_cases hja : j = a
    · subst hja
      cases hg : g j <;> simp
    · simp [hja]

theorem foldl_optSet_range (g : Nat → Option α) (n : Nat) (st : Store α) (j : Nat) :
    ((List.range n).foldl (optSet g) st).get j = if j < n then (g j).getD (st.get j) else st.get j := by
  rw [foldl_optSet_get]; simp [List.mem_range]

end fold

/-! ### `applyUpdates` -/

/-- what `applyUpdates` writes into `stored` slot `i` -/
def storedUpd (sp : Spec) (tbl : Table) (i : Nat) : Option (Option Int) :=
  match sp.getDef i with
  | .collect s _ op =>
    (match fire tbl s, sp.val i with
     | some x, some stv => some (some (f2 (op + 1) x stv))
     | _, _ => none)
  | .holdz _ c =>
    (match fire tbl i with
     | some v => some (some v)
     | none => (match sp.stored.get i, sp.val c with
        | none, some v => some (some v)
        | _, _ => none))
  | d => if d.isCell then (match fire tbl i with | some v => some (some v) | none => none) else none

/-- what `applyUpdates` writes into `onceDone` slot `i` -/
def onceUpd (sp : Spec) (tbl : Table) (i : Nat) : Option Bool :=
  match sp.getDef i with
  | .once _ => if (fire tbl i).isSome then some true else none
  | _ => none

theorem applyUpdates_stored (sp : Spec) (tbl : Table) :
    (applyUpdates sp tbl).stored =
      (List.range sp.defs.size).foldl (optSet (storedUpd sp tbl)) sp.stored := by
  unfold applyUpdates
  simp only
  congr 1
  funext st i
  unfold optSet storedUpd
  split
  · split <;> simp_all
  · split
    · simp_all
    · split <;> simp_all
  · split
    · split <;> simp_all
    · simp_all

theorem applyUpdates_onceDone (sp : Spec) (tbl : Table) :
    (applyUpdates sp tbl).onceDone =
      (List.range sp.defs.size).foldl (optSet (onceUpd sp tbl)) sp.onceDone := by
  unfold applyUpdates
  simp only
  congr 1
  funext od i
  unfold optSet onceUpd
  split
  · split <;> simp_all
  · simp_all

theorem applyUpdates_stored_get (sp : Spec) (tbl : Table) (j : Nat) :
    (applyUpdates sp tbl).stored.get j =
      if j < sp.defs.size then (storedUpd sp tbl j).getD (sp.stored.get j) else sp.stored.get j := by
  rw [applyUpdates_stored, foldl_optSet_range]

theorem applyUpdates_onceDone_get (sp : Spec) (tbl : Table) (j : Nat) :
    (applyUpdates sp tbl).onceDone.get j =
      if j < sp.defs.size then (onceUpd sp tbl j).getD (sp.onceDone.get j) else sp.onceDone.get j := by
  rw [applyUpdates_onceDone, foldl_optSet_range]

@[simp] theorem stepTxn_defs (sp : Spec) (ev : Events) : (stepTxn sp ev).defs = sp.defs := rfl
@[simp] theorem stepTxn_created (sp : Spec) (ev : Events) : (stepTxn sp ev).created = sp.created := rfl
@[simp] theorem stepTxn_loopTo (sp : Spec) (ev : Events) : (stepTxn sp ev).loopTo = sp.loopTo := rfl
@[simp] theorem stepTxn_txn (sp : Spec) (ev : Events) : (stepTxn sp ev).txn = sp.txn + 1 := rfl
@[simp] theorem stepTxn_getDef (sp : Spec) (ev : Events) (i : Nat) :
    (stepTxn sp ev).getDef i = sp.getDef i := rfl
theorem stepTxn_stored (sp : Spec) (ev : Events) :
    (stepTxn sp ev).stored = (applyUpdates sp (fireTable sp ev)).stored := rfl
theorem stepTxn_onceDone (sp : Spec) (ev : Events) :
    (stepTxn sp ev).onceDone = (applyUpdates sp (fireTable sp ev)).onceDone := rfl

/-! ### sequences of transactions -/

/-- the state after the transactions `evs` (one `Events` per transaction), in order -/
def run (sp : Spec) (evs : List Events) : Spec := evs.foldl stepTxn sp

@[simp] theorem run_nil (sp : Spec) : run sp [] = sp := rfl
@[simp] theorem run_cons (sp : Spec) (ev : Events) (evs : List Events) :
    run sp (ev :: evs) = run (stepTxn sp ev) evs := rfl
theorem run_append (sp : Spec) (as bs : List Events) : run sp (as ++ bs) = run (run sp as) bs := by
  simp [run, List.foldl_append]

@[simp] theorem run_defs (sp : Spec) (evs : List Events) : (run sp evs).defs = sp.defs := by
  induction evs generalizing sp with
  | nil => rfl
  | cons ev evs ih => rw [run_cons, ih, stepTxn_defs]
@[simp] theorem run_loopTo (sp : Spec) (evs : List Events) : (run sp evs).loopTo = sp.loopTo := by
  induction evs generalizing sp with
  | nil => rfl
  | cons ev evs ih => rw [run_cons, ih, stepTxn_loopTo]
@[simp] theorem run_getDef (sp : Spec) (evs : List Events) (i : Nat) :
    (run sp evs).getDef i = sp.getDef i := by
  unfold Spec.getDef; rw [run_defs]

/-- the firing of definition `i` in each of the successive transactions `evs` -/
def fireTrace : Spec → List Events → Nat → List (Option Int)
  | _, [], _ => []
  | sp, ev :: evs, i => fire (fireTable sp ev) i :: fireTrace (stepTxn sp ev) evs i

end Spec
end SodiumVerif
