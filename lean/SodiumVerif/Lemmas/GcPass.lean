/-
  One pass of the collector (`mark_roots; scan_roots; collect_roots`) from a state satisfying
  `GcInv`: no panic, `GcInv` again, external handle counts unchanged, and everything freed belongs
  to a set with no external handle that is closed under predecessors.
-/
import SodiumVerif.Lemmas.GcPhaseFree

namespace SodiumVerif
namespace Gc
open State

/-! ### `oof` is only ever set -/

theorem possibleRoot_oof (g : State) (n : Nat) : (possibleRoot g n).oof = g.oof := by
  unfold possibleRoot
  simp only []
  split
  · split <;> rfl
  · rfl

theorem decRef_oof (g : State) (n : Nat) : (decRef g n).oof = g.oof := by
  unfold decRef
  split
  · rfl
  · exact possibleRoot_oof _ n

theorem decRef_fold_oof : ∀ (l : List Nat) (g : State), (l.foldl decRef g).oof = g.oof := by
  intro l
  induction l with
  | nil => intro g; rfl
  | cons t rest ih => intro g; simp only [List.foldl_cons]; rw [ih, decRef_oof]

theorem free_oof (g : State) (n : Nat) : (free g n).oof = g.oof := by
  unfold free
  simp only []
  split
  · rw [decRef_fold_oof]
  · rfl

theorem freeCollected_oof (g : State) (n : Nat) : (freeCollected g n).oof = g.oof := by
  unfold freeCollected
  split
  · exact free_oof g n
  · rfl

theorem freeCollected_fold_oof : ∀ (l : List Nat) (g : State),
    (l.foldl freeCollected g).oof = g.oof := by
  intro l
  induction l with
  | nil => intro g; rfl
  | cons t rest ih => intro g; simp only [List.foldl_cons]; rw [ih, freeCollected_oof]

theorem checkZero_oof (g : State) (l : List Nat) : (checkZero g l).oof = g.oof := by
  unfold checkZero
  induction l generalizing g with
  | nil => rfl
  | cons t rest ih =>
    simp only [List.foldl_cons]
    rw [ih]
    split
    · exact State.setPanic_oof _ _
    · rfl

theorem collectRoots_oof (s : State) :
    (collectRoots s).oof =
      (s.roots.foldl (crStep (walkFuel { s with roots := [] })) ({ s with roots := [] }, [])).1.oof := by
  rw [collectRoots_eq]
  simp only []
  rw [checkZero_oof, checkZero_oof, freeCollected_fold_oof]
  show (List.foldl freeCollected _ _).oof = _
  rw [freeCollected_fold_oof]

theorem crStep_fold_walk (f : Nat) (l : List Nat) (a : State × List Nat) :
    Walk a.1 (l.foldl (crStep f) a).1 := by
  refine foldl_rel (R := fun a b : State × List Nat => Walk a.1 b.1) (I := fun _ => True)
    (fun a => Walk.refl a.1) (fun _ _ _ => Walk.trans) (fun _ _ _ _ => trivial) l a trivial ?_
  intro a _ r _
  unfold crStep
  exact (walkP_upd a.1 r (fun x => { x with buffered := false }) rfl).toWalk.trans
    (collectWhite_walkP f r (a.1.upd r fun x => { x with buffered := false }, a.2)).toWalk

theorem collectRoots_oof_mono (s : State) (h : (collectRoots s).oof = false) : s.oof = false := by
  rw [collectRoots_oof] at h
  have hw := crStep_fold_walk (walkFuel { s with roots := [] }) s.roots ({ s with roots := [] }, [])
  exact hw.oof_false h

theorem scanRoots_oof_mono (m : State) (h : (scanRoots m).oof = false) : m.oof = false := by
  rw [scanRoots_eq] at h
  simp only [] at h
  have w1 : ∀ (f : Nat) (l : List Nat) (a : State), Walk a (l.foldl (fun g r => scan f r g) a) :=
    fun f l a => foldl_rel (I := fun _ => True) Walk.refl (fun _ _ _ => Walk.trans)
      (fun _ _ _ _ => trivial) l a trivial (fun a _ r _ => (scan_walkP f r a).toWalk)
  have w2 : ∀ (f : Nat) (l : List Nat) (a : State), Walk a (l.foldl (fun g r => reset1 f r g) a) :=
    fun f l a => foldl_rel (I := fun _ => True) Walk.refl (fun _ _ _ => Walk.trans)
      (fun _ _ _ _ => trivial) l a trivial (fun a _ r _ => (reset1_walkP f r a).toWalk)
  have w3 : ∀ (f : Nat) (l : List Nat) (a : State), Walk a (l.foldl (fun g r => reset2 f r g) a) :=
    fun f l a => foldl_rel (I := fun _ => True) Walk.refl (fun _ _ _ => Walk.trans)
      (fun _ _ _ _ => trivial) l a trivial (fun a _ r _ => (reset2_walkP f r a).toWalk)
  exact (((w1 _ _ { m with roots := [] }).trans (w2 _ _ _)).trans (w3 _ _ _)).oof_false h

/-! ### one pass -/

/-- what one pass guarantees -/
structure PassOk (g g' : State) : Prop where
  inv : GcInv g'
  nextId : g'.nextId = g.nextId
  mono : ∀ i, (g'.nodes.get i).freed = false →
    (g.nodes.get i).freed = false ∧ (g'.nodes.get i).owned = (g.nodes.get i).owned
  extEq : ∀ i, (g'.nodes.get i).rc + inCount g i = (g.nodes.get i).rc + inCount g' i
  dead : ∃ D : Nat → Prop,
    (∀ j, (g'.nodes.get j).freed = true → (g.nodes.get j).freed = true ∨ D j) ∧
    (∀ j, D j → inCount g j = (g.nodes.get j).rc) ∧
    (∀ j p, D j → (g.nodes.get p).freed = false → j ∈ (g.nodes.get p).owned → D p)

theorem onePass_spec {g : State} (I : GcInv g) (ho : (onePass g).oof = false) :
    PassOk g (onePass g) := by
  unfold onePass at ho ⊢
  generalize hm : markRoots g = m at ho ⊢
  generalize hs : scanRoots m = s at ho ⊢
  have hos : s.oof = false := collectRoots_oof_mono s ho
  have hom : m.oof = false := scanRoots_oof_mono m (by rw [hs]; exact hos)
  have M : Marked g m := by rw [← hm]; exact markRoots_spec I (by rw [hm]; exact hom)
  have S : Scanned g m s := by rw [← hs]; exact scanRoots_spec I M (by rw [hs]; exact hos)
  rw [collectRoots_oof] at ho
  rw [collectRoots_eq]
  simp only []
  generalize hres : s.roots.foldl (crStep (walkFuel { s with roots := [] }))
    ({ s with roots := [] }, []) = res at ho ⊢
  have C := collect_phase I M S res hres ho
  obtain ⟨c, wl⟩ := res
  simp only at C ho ⊢
  have K0 := freeInv_start I C
  have hwl : ∀ n ∈ wl, n < c.nextId := by
    intro n hn
    have hw := (C.mem n).mp hn
    apply Classical.byContradiction
    intro hlt
    have : s.nextId ≤ n := by rw [S.core.nextId, ← C.core.nextId]; omega
    rw [S.fresh n this] at hw; cases hw
  obtain ⟨K1, ht1, hf1⟩ := freeInv_fold wl c K0 hwl
  generalize hg1 : wl.foldl freeCollected c = g1 at K1 ht1 hf1 ⊢
  have htbf : g1.toBeFreed = m.toBeFreed := (ht1.trans C.toBeFreed).trans S.toBeFreed
  rw [htbf]
  have K1' : FreeInv g [] { g1 with toBeFreed := [] } := K1.of_roots rfl rfl rfl (fun r hr => hr)
  have htl : ∀ n ∈ m.toBeFreed, n < ({ g1 with toBeFreed := [] } : State).nextId := by
    intro n hn
    show n < g1.nextId
    rw [K1.nextId, ← M.core.nextId]; exact (M.tbf n hn).1
  obtain ⟨K2, ht2, hf2⟩ := freeInv_fold m.toBeFreed _ K1' htl
  generalize hg2 : m.toBeFreed.foldl freeCollected { g1 with toBeFreed := [] } = g2 at K2 ht2 hf2 ⊢
  -- which objects are freed now
  have hfreed : ∀ j, (g2.nodes.get j).freed = true ↔
      ((g.nodes.get j).freed = true ∨ (s.nodes.get j).color = .white ∨ j ∈ m.toBeFreed) := by
    intro j
    rw [hf2]
    show ((g1.nodes.get j).freed = true ∨ _) ↔ _
    rw [hf1, C.core.freed, C.mem]
    constructor
    · rintro ((h | h) | h)
      · exact .inl h
      · exact .inr (.inl h)
      · exact .inr (.inr h)
    · rintro (h | h | h)
      · exact .inl (.inl h)
      · exact .inl (.inr h)
      · exact .inr h
  -- an object of `g2` that is not freed has its old edge list, and its targets' status
  have hzero : ∀ i, (∀ j, j < g.nextId → (g.nodes.get j).freed = false → i ∈ (g.nodes.get j).owned →
      (g2.nodes.get j).freed = true) → inCount g2 i = 0 := by
    intro i h
    apply inCount_eq_zero
    intro j hj hfj hmem
    obtain ⟨hfg, how⟩ := K2.mono j hfj
    rw [how] at hmem
    have := h j (by rw [← K2.nextId]; exact hj) hfg hmem
    rw [hfj] at this; cases this
  have hext0 := fun i => K2.extEq i
  simp only [List.count_nil, Nat.add_zero] at hext0
  -- the counts of everything collected dropped to zero
  have hrcW : ∀ i ∈ wl, (g2.nodes.get i).rc = 0 := by
    intro i hi
    have hw := (C.mem i).mp hi
    have h1 := S.whiteExt i hw
    have h2 := hzero i (fun j _ _ hmem => (hfreed j).mpr (.inr (.inl (S.whitePred i hw j hmem))))
    have := hext0 i
    omega
  have htbf0 : ∀ i ∈ m.toBeFreed, inCount g i = 0 ∧ (g.nodes.get i).rc = 0 := by
    intro i hi
    have h1 : (g.nodes.get i).rc = 0 := by rw [← M.core.rc]; exact (M.tbf i hi).2.1
    have := I.count' i
    exact ⟨by omega, h1⟩
  have hrcT : ∀ i ∈ m.toBeFreed, (g2.nodes.get i).rc = 0 := by
    intro i hi
    obtain ⟨h1, h1'⟩ := htbf0 i hi
    have h2 := hzero i (fun j hj hfj hmem => absurd hmem (mem_of_inCount_zero h1 j hj hfj))
    have := hext0 i
    omega
  rw [checkZero_id g2 wl hrcW, checkZero_id g2 m.toBeFreed hrcT]
  -- the set of objects this pass may free
  have hD1 : ∀ j, ((s.nodes.get j).color = .white ∨ j ∈ m.toBeFreed) →
      inCount g j = (g.nodes.get j).rc := by
    rintro j (h | h)
    · exact S.whiteExt j h
    · obtain ⟨h1, h2⟩ := htbf0 j h; rw [h1, h2]
  have hD2 : ∀ j p, ((s.nodes.get j).color = .white ∨ j ∈ m.toBeFreed) →
      (g.nodes.get p).freed = false → j ∈ (g.nodes.get p).owned →
      ((s.nodes.get p).color = .white ∨ p ∈ m.toBeFreed) := by
    rintro j p (h | h) hfp hmem
    · exact .inl (S.whitePred j h p hmem)
    · have hpl : p < g.nextId := by
        apply Classical.byContradiction
        intro hlt
        rw [I.fresh p (by omega)] at hmem; cases hmem
      exact absurd hmem (mem_of_inCount_zero (htbf0 j h).1 p hpl hfp)
  have hinv : GcInv g2 := by
    refine { contract := K2.contract, wf := K2.wf, fresh := K2.fresh, count := ?_, noDangling := ?_,
             freedEmpty := K2.freedEmpty, liveDtor := K2.liveDtor, quiescent := K2.quiescent,
             rootsLt := K2.rootsLt, tbf := ?_, noPanic := K2.panic }
    · intro i _ _
      have := K2.count i
      simp only [List.count_nil, Nat.add_zero] at this
      exact this
    · intro i t hfi hmem
      obtain ⟨hfg, how⟩ := K2.mono i hfi
      rw [how] at hmem
      cases hft : (g2.nodes.get t).freed with
      | false => rfl
      | true =>
        rcases (hfreed t).mp hft with h | h
        · rw [I.noDangling i t hfg hmem] at h; cases h
        · have := hD2 t i h hfg hmem
          have := (hfreed i).mpr (.inr this)
          rw [hfi] at this; cases this
    · exact ht2
  refine ⟨hinv, K2.nextId, K2.mono, hext0,
    ⟨fun j => (s.nodes.get j).color = .white ∨ j ∈ m.toBeFreed, ?_, hD1, hD2⟩⟩
  intro j hj
  rcases (hfreed j).mp hj with h | h
  · exact .inl h
  · exact .inr h

end Gc
end SodiumVerif
