/-
  Fuel: the recursion depth handed out by the phases (`walkFuel`), by `markRoots` to
  `displayGraph`, and by `collectCycles` to `collectLoop` is never exhausted on a well-formed
  state, so `oof` stays as it was.
-/
import SodiumVerif.Lemmas.GcPhase

set_option linter.unusedSimpArgs false

namespace SodiumVerif
namespace Gc
open State

/-- every reported edge points at an allocated object -/
def WF (g : State) : Prop := ∀ i, ∀ t ∈ (g.nodes.get i).traced, t < g.nextId

/-- every buffered candidate is an allocated object -/
def RootsOk (g : State) : Prop := ∀ r ∈ g.roots, r < g.nextId

theorem WF.closed {g : State} (h : WF g) : Closed g (List.range g.nextId) :=
  fun i _ t ht => List.mem_range.mpr (h i t ht)

theorem totalEdges_eq (g : State) : totalEdges g = msum elen (List.range g.nextId) g := by
  unfold totalEdges msum
  rw [foldl_add_eq_sum (fun i => (g.node i).traced.length)]
  simp only [Nat.zero_add]; rfl

theorem fuel_ok (g : State) :
    2 * (List.range g.nextId).length < walkFuel g ∧
      msum elen (List.range g.nextId) g ≤ totalEdges g := by
  rw [totalEdges_eq, List.length_range]; unfold walkFuel; omega

theorem WF.of_frame {g g' : State} (h : WF g) (hf : Frame g g') : WF g' := by
  intro i t ht; rw [hf.nextId]; rw [(hf.node i).traced] at ht; exact h i t ht

/-- no walk started by `mark_roots` (nor its `display_graph`) runs out of fuel -/
theorem markRoots_oof (g : State) (hw : WF g) (hr : RootsOk g) : (markRoots g).oof = g.oof :=
  (markRoots_phase List.nodup_range g (fun r h => List.mem_range.mpr (hr r h)) hw.closed).1.oof
    (fuel_ok g).1 (fuel_ok g).2

theorem scanRoots_oof (g : State) (hw : WF g) (hr : RootsOk g) : (scanRoots g).oof = g.oof :=
  (scanRoots_phase List.nodup_range g (fun r h => List.mem_range.mpr (hr r h)) hw.closed).1.oof
    (fuel_ok g).1 (fuel_ok g).2

theorem collectRoots_oof_c (g : State) (hw : WF g) (hr : RootsOk g) :
    (collectRoots g).oof = g.oof :=
  (collectRoots_trace_calls_le List.nodup_range g (fun r h => List.mem_range.mpr (hr r h))
    hw.closed).2.2 (fuel_ok g).1 (fuel_ok g).2

theorem markRoots_wf (g : State) (hw : WF g) (hr : RootsOk g) :
    WF (markRoots g) ∧ RootsOk (markRoots g) := by
  have h := markRoots_phase List.nodup_range g (fun r h => List.mem_range.mpr (hr r h)) hw.closed
  exact ⟨hw.of_frame h.1.frame, fun r hr' => by rw [h.1.frame.nextId]; exact hr r (h.2 r hr')⟩

theorem scanRoots_wf (g : State) (hw : WF g) (hr : RootsOk g) :
    WF (scanRoots g) ∧ RootsOk (scanRoots g) := by
  have h := scanRoots_phase List.nodup_range g (fun r h => List.mem_range.mpr (hr r h)) hw.closed
  exact ⟨hw.of_frame h.1.frame, fun r hr' => by
    rw [h.1.frame.nextId]; rw [h.2] at hr'; exact hr r hr'⟩

/-- one pass never runs out of fuel -/
theorem onePass_oof (g : State) (hw : WF g) (hr : RootsOk g) : (onePass g).oof = g.oof := by
  unfold onePass
  have h1 := markRoots_wf g hw hr
  have h2 := scanRoots_wf _ h1.1 h1.2
  rw [collectRoots_oof_c _ h2.1 h2.2, scanRoots_oof _ h1.1 h1.2, markRoots_oof g hw hr]

/-! ### the pass loop -/

/-- every edge, owned reference, candidate and pending object is below `N` -/
structure Bounded (N : Nat) (g : State) : Prop where
  traced : ∀ i, ∀ t ∈ (g.nodes.get i).traced, t < N
  owned : ∀ i, ∀ t ∈ (g.nodes.get i).owned, t < N
  roots : ∀ r ∈ g.roots, r < N
  tbf : ∀ r ∈ g.toBeFreed, r < N

/-- objects below `N` not yet freed -/
def unfreed (N : Nat) (g : State) : Nat :=
  (List.range N).countP fun i => !(g.nodes.get i).freed

/-- what freeing (and the reference-count traffic it causes) can do -/
structure FreeRel (N : Nat) (g g' : State) : Prop where
  nextId : g'.nextId = g.nextId
  tbf : ∀ x ∈ g'.toBeFreed, x ∈ g.toBeFreed
  freed : ∀ i, (g.nodes.get i).freed = true → (g'.nodes.get i).freed = true
  traced : ∀ i, (g'.nodes.get i).traced = (g.nodes.get i).traced ∨ (g'.nodes.get i).traced = []
  owned : ∀ i, ∀ t ∈ (g'.nodes.get i).owned, t ∈ (g.nodes.get i).owned
  roots : ∀ r ∈ g'.roots, r ∈ g.roots ∨ r < N

namespace FreeRel
variable {N : Nat} {g g' g'' : State}

theorem refl (g : State) : FreeRel N g g :=
  ⟨rfl, fun _ h => h, fun _ h => h, fun _ => Or.inl rfl, fun _ _ h => h, fun _ h => Or.inl h⟩

theorem traced_mem (h : FreeRel N g g') (i t : Nat) (ht : t ∈ (g'.nodes.get i).traced) :
    t ∈ (g.nodes.get i).traced := by
  rcases h.traced i with e | e
  · rw [e] at ht; exact ht
  · rw [e] at ht; cases ht

theorem trans (h1 : FreeRel N g g') (h2 : FreeRel N g' g'') : FreeRel N g g'' :=
  ⟨h2.nextId.trans h1.nextId, fun x hx => h1.tbf x (h2.tbf x hx),
   fun i hi => h2.freed i (h1.freed i hi), fun i => by
    rcases h2.traced i with e2 | e2
    · rw [e2]; exact h1.traced i
    · exact Or.inr e2,
   fun i t ht => h1.owned i t (h2.owned i t ht), fun r hr => by
    rcases h2.roots r hr with h | h
    · exact h1.roots r h
    · exact Or.inr h⟩

theorem bounded (hb : Bounded N g) (h : FreeRel N g g') : Bounded N g' :=
  ⟨fun i t ht => hb.traced i t (h.traced_mem i t ht), fun i t ht => hb.owned i t (h.owned i t ht),
   fun r hr => by
    rcases h.roots r hr with h' | h'
    · exact hb.roots r h'
    · exact h',
   fun r hr => hb.tbf r (h.tbf r hr)⟩

theorem unfreed_le (h : FreeRel N g g') : unfreed N g' ≤ unfreed N g := by
  unfold unfreed
  apply List.countP_mono_left
  intro i _ hi
  cases hf : (g.nodes.get i).freed with
  | false => rfl
  | true => rw [h.freed i hf] at hi; exact absurd hi (by decide)

/-- same nodes, same buffers -/
theorem of_eq (hn : g'.nodes = g.nodes) (hi : g'.nextId = g.nextId) (hr : g'.roots = g.roots)
    (ht : ∀ x ∈ g'.toBeFreed, x ∈ g.toBeFreed) : FreeRel N g g' :=
  ⟨hi, ht, fun i h => by rw [hn]; exact h, fun i => by rw [hn]; exact Or.inl rfl,
   fun i t h => by rw [hn] at h; exact h, fun r h => by rw [hr] at h; exact Or.inl h⟩

theorem totalEdges_le (h : FreeRel N g g') : totalEdges g' ≤ totalEdges g := by
  rw [totalEdges_eq, totalEdges_eq, h.nextId]
  unfold msum
  generalize List.range g.nextId = l
  induction l with
  | nil => exact Nat.le_refl _
  | cons a t ih =>
    have : elen (g'.nodes.get a) ≤ elen (g.nodes.get a) := by
      unfold elen
      rcases h.traced a with e | e <;> rw [e]
      · exact Nat.le_refl _
      · exact Nat.zero_le _
    simp only [List.map_cons, List.sum_cons]; omega

theorem foldl (step : State → Nat → State)
    (hstep : ∀ g i, i < N → Bounded N g → FreeRel N g (step g i)) :
    ∀ (l : List Nat) (g : State), (∀ i ∈ l, i < N) → Bounded N g → FreeRel N g (l.foldl step g) := by
  intro l
  induction l with
  | nil => intro g _ _; exact refl g
  | cons a t ih =>
    intro g hl hb
    have h1 := hstep g a (hl a List.mem_cons_self) hb
    exact h1.trans (ih (step g a) (fun i hi => hl i (List.mem_cons_of_mem _ hi)) (h1.bounded hb))

end FreeRel

theorem possibleRoot_rel (N : Nat) (g : State) (n : Nat) (hn : n < N) :
    FreeRel N g (possibleRoot g n) := by
  have hnode : ∀ i, ((possibleRoot g n).nodes.get i).freed = (g.nodes.get i).freed ∧
      ((possibleRoot g n).nodes.get i).traced = (g.nodes.get i).traced ∧
      ((possibleRoot g n).nodes.get i).owned = (g.nodes.get i).owned := by
    intro i
    have := possibleRoot_node g n i
    simp only [State.node] at this
    rw [this]
    split
    · next h => rw [h.1]; exact ⟨rfl, rfl, rfl⟩
    · exact ⟨rfl, rfl, rfl⟩
  refine ⟨?_, ?_, fun i h => by rw [(hnode i).1]; exact h,
    fun i => Or.inl (hnode i).2.1,
    fun i t h => by rw [(hnode i).2.2] at h; exact h, ?_⟩
  · unfold possibleRoot; split
    · simp only []; split <;> rfl
    · rfl
  · intro x; unfold possibleRoot; split
    · simp only []; split <;> exact fun h => h
    · exact fun h => h
  · intro r; unfold possibleRoot; split
    · simp only []; split
      · intro h
        rcases List.mem_append.mp h with h | h
        · exact Or.inl h
        · rw [List.mem_singleton.mp h]; exact Or.inr hn
      · exact fun h => Or.inl h
    · exact fun h => Or.inl h

theorem decRef_rel (N : Nat) (g : State) (n : Nat) (hn : n < N) : FreeRel N g (decRef g n) := by
  unfold decRef
  split
  · exact FreeRel.refl g
  · refine FreeRel.trans ?_ (possibleRoot_rel N (g.upd n fun x => { x with rc := x.rc - 1 }) n hn)
    have hnode : ∀ i, (((g.upd n fun x => { x with rc := x.rc - 1 }).nodes.get i).freed
          = (g.nodes.get i).freed) ∧
        (((g.upd n fun x => { x with rc := x.rc - 1 }).nodes.get i).traced
          = (g.nodes.get i).traced) ∧
        (((g.upd n fun x => { x with rc := x.rc - 1 }).nodes.get i).owned
          = (g.nodes.get i).owned) := by
      intro i
      by_cases hi : i = n
      · subst hi; simp [State.upd, Store.get_set]
      · simp [State.upd, Store.get_set, hi]
    exact ⟨rfl, fun _ h => h, fun i h => by rw [(hnode i).1]; exact h,
      fun i => Or.inl (hnode i).2.1,
      fun i t h => by rw [(hnode i).2.2] at h; exact h, fun r h => Or.inl h⟩

theorem decRef_freed_c (g : State) (n i : Nat) :
    ((decRef g n).nodes.get i).freed = (g.nodes.get i).freed := by
  have := decRef_node g n i
  simp only [State.node] at this
  rw [this]
  split
  · next h => rw [h.1]; split <;> rfl
  · rfl

theorem foldl_decRef_freed (l : List Nat) (g : State) (i : Nat) :
    ((l.foldl decRef g).nodes.get i).freed = (g.nodes.get i).freed := by
  induction l generalizing g with
  | nil => rfl
  | cons a t ih => rw [List.foldl_cons, ih, decRef_freed_c]

theorem free_freed (g : State) (n i : Nat) :
    ((free g n).nodes.get i).freed = if i = n then true else (g.nodes.get i).freed := by
  rw [free_eq_c]
  split
  · rw [foldl_decRef_freed]
    by_cases hi : i = n
    · subst hi; simp [State.upd, Store.get_set]
    · simp [State.upd, Store.get_set, hi]
  · by_cases hi : i = n
    · subst hi; simp [State.upd, Store.get_set]
    · simp [State.upd, Store.get_set, hi]

theorem free_rel (N : Nat) (g : State) (n : Nat) (hb : Bounded N g) : FreeRel N g (free g n) := by
  rw [free_eq_c]
  split
  · have hnode : ∀ i,
        let g2 : State := { ((g.upd n fun x => { x with freed := true }).upd n fun x =>
            { x with dtorRuns := x.dtorRuns + 1, traced := [], owned := [] }) with
          dtorLog := g.dtorLog ++ [n] }
        ((g.nodes.get i).freed = true → (g2.nodes.get i).freed = true) ∧
        ((g2.nodes.get i).traced = (g.nodes.get i).traced ∨ (g2.nodes.get i).traced = []) ∧
        (∀ t ∈ (g2.nodes.get i).owned, t ∈ (g.nodes.get i).owned) := by
      intro i
      by_cases hi : i = n
      · subst hi; simp [State.upd, Store.get_set]
      · simp [State.upd, Store.get_set, hi]
    have h1 : FreeRel N g { ((g.upd n fun x => { x with freed := true }).upd n fun x =>
            { x with dtorRuns := x.dtorRuns + 1, traced := [], owned := [] }) with
          dtorLog := g.dtorLog ++ [n] } :=
      ⟨rfl, fun _ h => h, fun i => (hnode i).1, fun i => (hnode i).2.1, fun i => (hnode i).2.2,
       fun r h => Or.inl h⟩
    exact h1.trans (FreeRel.foldl decRef (fun g i hi _ => decRef_rel N g i hi) _ _
      (fun t ht => hb.owned n t ht) (h1.bounded hb))
  · have hnode : ∀ i,
        let g2 : State := (g.upd n fun x => { x with freed := true }).upd n fun x =>
          { x with traced := [] }
        ((g.nodes.get i).freed = true → (g2.nodes.get i).freed = true) ∧
        ((g2.nodes.get i).traced = (g.nodes.get i).traced ∨ (g2.nodes.get i).traced = []) ∧
        (∀ t ∈ (g2.nodes.get i).owned, t ∈ (g.nodes.get i).owned) := by
      intro i
      by_cases hi : i = n
      · subst hi; simp [State.upd, Store.get_set]
      · simp [State.upd, Store.get_set, hi]
    exact ⟨rfl, fun _ h => h, fun i => (hnode i).1, fun i => (hnode i).2.1, fun i => (hnode i).2.2,
       fun r h => Or.inl h⟩

/-- freeing steps of `collect_roots`: additionally, if nothing new was freed the candidate buffer
    is as it was -/
structure FreePost (N : Nat) (g g' : State) : Prop where
  rel : FreeRel N g g'
  prog : unfreed N g' = unfreed N g → g'.roots = g.roots

namespace FreePost
variable {N : Nat} {g g' g'' : State}

theorem refl (g : State) : FreePost N g g := ⟨FreeRel.refl g, fun _ => rfl⟩

theorem trans (h1 : FreePost N g g') (h2 : FreePost N g' g'') : FreePost N g g'' :=
  ⟨h1.rel.trans h2.rel, fun he => by
    have := h1.rel.unfreed_le; have := h2.rel.unfreed_le
    rw [h2.prog (by omega), h1.prog (by omega)]⟩

theorem foldl (step : State → Nat → State)
    (hstep : ∀ g i, i < N → Bounded N g → FreePost N g (step g i)) :
    ∀ (l : List Nat) (g : State), (∀ i ∈ l, i < N) → Bounded N g → FreePost N g (l.foldl step g) := by
  intro l
  induction l with
  | nil => intro g _ _; exact refl g
  | cons a t ih =>
    intro g hl hb
    have h1 := hstep g a (hl a List.mem_cons_self) hb
    exact h1.trans (ih (step g a) (fun i hi => hl i (List.mem_cons_of_mem _ hi))
      (h1.rel.bounded hb))

end FreePost

theorem freeCollected_post (N : Nat) (g : State) (i : Nat) (hi : i < N) (hb : Bounded N g) :
    FreePost N g (freeCollected g i) := by
  unfold freeCollected
  by_cases hf : (g.nodes.get i).freed = true
  · simp only [State.node, hf, not_true_eq_false, if_false]; exact FreePost.refl g
  · simp only [State.node, hf, not_false_eq_true, if_true]
    have h1 := free_rel N g i hb
    have h2 : FreeRel N (free g i) { free g i with roots := (free g i).roots.filter (· ≠ i) } :=
      ⟨rfl, fun _ h => h, fun _ h => h, fun _ => Or.inl rfl, fun _ _ h => h,
       fun r h => Or.inl (List.mem_filter.mp h).1⟩
    refine ⟨h1.trans h2, fun he => ?_⟩
    exfalso
    have he' : unfreed N (free g i) = unfreed N g := he
    have hc : unfreed N g = unfreed N (free g i) + 1 := by
      unfold unfreed
      apply countP_flip List.nodup_range (List.mem_range.mpr hi)
      · simpa using hf
      · rw [free_freed]; simp
      · intro j hj
        rw [free_freed, if_neg hj]
    omega

theorem checkZero_post (N : Nat) (g : State) (l : List Nat) : FreePost N g (checkZero g l) := by
  unfold checkZero
  induction l generalizing g with
  | nil => exact FreePost.refl g
  | cons a t ih =>
    rw [List.foldl_cons]
    refine FreePost.trans ?_ (ih _)
    split
    · exact ⟨FreeRel.of_eq (by simp) (by simp) (by simp) (by simp), fun _ => by simp⟩
    · exact FreePost.refl g

theorem PhasePost.bounded {S : List Nat} {N c : Nat} {g g' : State} (hSN : ∀ x ∈ S, x < N)
    (hb : Bounded N g) (h : PhasePost S c g g') (hr : ∀ r ∈ g'.roots, r < N) : Bounded N g' :=
  ⟨fun i t ht => hb.traced i t (by rw [← (h.frame.node i).traced]; exact ht),
   fun i t ht => hb.owned i t (by rw [← (h.frame.node i).owned]; exact ht), hr,
   fun r hr' => by
    rcases h.tbf r hr' with h' | h'
    · exact hb.tbf r h'
    · exact hSN r h'⟩

theorem unfreed_frame {g g' : State} (N : Nat) (h : Frame g g') : unfreed N g' = unfreed N g := by
  unfold unfreed; congr 1; funext i; rw [(h.node i).freed]

theorem Bounded.closed {N : Nat} {g : State} (hb : Bounded N g) : Closed g (List.range N) :=
  fun i _ t ht => List.mem_range.mpr (hb.traced i t ht)

/-- `collect_roots` empties the pending list, frees only forwards, and leaves the candidate buffer
    empty unless it freed something -/
theorem collectRoots_pass (g : State) (N : Nat) (hb : Bounded N g) :
    Bounded N (collectRoots g) ∧ (collectRoots g).nextId = g.nextId ∧
    (collectRoots g).toBeFreed = [] ∧ unfreed N (collectRoots g) ≤ unfreed N g ∧
    (unfreed N (collectRoots g) = unfreed N g → (collectRoots g).roots = []) ∧
    totalEdges (collectRoots g) ≤ totalEdges g := by
  rw [collectRoots_eq_c]
  simp only []
  have hb0 : Bounded N { g with roots := [] } :=
    ⟨hb.traced, hb.owned, fun r hr => (by cases hr), hb.tbf⟩
  have hw := collectRoots_white (S := List.range N) List.nodup_range { g with roots := [] } g.roots
    (fun r hr => List.mem_range.mpr (hb.roots r hr)) hb0.closed _ rfl
  generalize g.roots.foldl (cwRootStep (walkFuel { g with roots := [] })) ({ g with roots := [] }, [])
    = r1 at hw ⊢
  obtain ⟨h1, hwhite, hroots1⟩ := hw
  have hroots1' : r1.1.roots = [] := hroots1
  have hb1 : Bounded N r1.1 := h1.bounded (fun x hx => List.mem_range.mp hx) hb0
    (fun r hr => by rw [hroots1'] at hr; cases hr)
  have hu1 : unfreed N r1.1 = unfreed N g :=
    (unfreed_frame N h1.frame : unfreed N r1.1 = unfreed N { g with roots := [] })
  have hn1 : r1.1.nextId = g.nextId := h1.frame.nextId
  have p2 := FreePost.foldl freeCollected (freeCollected_post N) r1.2 r1.1
    (fun i hi => List.mem_range.mp (hwhite i hi)) hb1
  generalize r1.2.foldl freeCollected r1.1 = g2 at p2 ⊢
  have hb2 := p2.rel.bounded hb1
  have p3 : FreePost N g2 { g2 with toBeFreed := [] } :=
    ⟨FreeRel.of_eq rfl rfl rfl (fun x hx => by cases hx), fun _ => rfl⟩
  have hb3 := p3.rel.bounded hb2
  have p4 := FreePost.foldl freeCollected (freeCollected_post N) g2.toBeFreed
    { g2 with toBeFreed := [] } hb2.tbf hb3
  generalize g2.toBeFreed.foldl freeCollected { g2 with toBeFreed := [] } = g4 at p4 ⊢
  have p5 := checkZero_post N g4 r1.2
  have p6 := checkZero_post N (checkZero g4 r1.2) g2.toBeFreed
  have p46 := (p4.trans p5).trans p6
  have p := (p2.trans p3).trans p46
  have he1 : totalEdges r1.1 = totalEdges g :=
    (totalEdges_frame h1.frame : totalEdges r1.1 = totalEdges { g with roots := [] })
  refine ⟨p.rel.bounded hb1, p.rel.nextId.trans hn1, ?_, ?_, ?_, by
    have := p.rel.totalEdges_le; omega⟩
  · apply List.eq_nil_iff_forall_not_mem.mpr
    intro x hx
    cases p46.rel.tbf x hx
  · have := p.rel.unfreed_le; omega
  · intro he
    rw [p.prog (by omega), hroots1']

/-- everything a pass guarantees on a state whose ids are all below `N = nextId` -/
structure PassPost (N : Nat) (g g' : State) : Prop where
  bounded : Bounded N g'
  nextId : g'.nextId = g.nextId
  tbf : g'.toBeFreed = []
  unfreed_le : unfreed N g' ≤ unfreed N g
  prog : unfreed N g' = unfreed N g → g'.roots = []
  oof : g'.oof = g.oof
  cost : g'.traceCalls ≤ g.traceCalls + 9 * N
  ecost : g'.edgeCalls ≤ g.edgeCalls + 9 * totalEdges g
  edges_le : totalEdges g' ≤ totalEdges g

theorem onePass_pass (g : State) (N : Nat) (hN : g.nextId = N) (hb : Bounded N g) :
    PassPost N g (onePass g) := by
  have hw : WF g := fun i t ht => by rw [hN]; exact hb.traced i t ht
  have hro : RootsOk g := fun r hr => by rw [hN]; exact hb.roots r hr
  have hoof := onePass_oof g hw hro
  have hcost := onePass_cost (S := List.range N) List.nodup_range g
    (fun r hr => List.mem_range.mpr (hb.roots r hr)) hb.closed
  have hte : msum elen (List.range N) g = totalEdges g := by rw [totalEdges_eq, hN]
  rw [List.length_range, hte] at hcost
  have hSN : ∀ x ∈ List.range N, x < N := fun x hx => List.mem_range.mp hx
  have h1 := markRoots_phase (S := List.range N) List.nodup_range g
    (fun r hr => List.mem_range.mpr (hb.roots r hr)) hb.closed
  have hb1 : Bounded N (markRoots g) :=
    h1.1.bounded hSN hb (fun r hr => hb.roots r (h1.2 r hr))
  have h2 := scanRoots_phase (S := List.range N) List.nodup_range (markRoots g)
    (fun r hr => List.mem_range.mpr (hb1.roots r hr)) hb1.closed
  have hb2 : Bounded N (scanRoots (markRoots g)) :=
    h2.1.bounded hSN hb1 (fun r hr => by rw [h2.2] at hr; exact hb1.roots r hr)
  have h3 := collectRoots_pass (scanRoots (markRoots g)) N hb2
  have u1 := unfreed_frame N h1.1.frame
  have u2 := unfreed_frame N h2.1.frame
  unfold onePass at hoof hcost ⊢
  have t1 := totalEdges_frame h1.1.frame
  have t2 := totalEdges_frame h2.1.frame
  refine ⟨h3.1, ?_, h3.2.2.1, ?_, ?_, hoof, hcost.1, hcost.2, ?_⟩
  · rw [h3.2.1, h2.1.frame.nextId, h1.1.frame.nextId]
  · have := h3.2.2.2.1; omega
  · intro he; exact h3.2.2.2.2.1 (by have := h3.2.2.2.1; omega)
  · have := h3.2.2.2.2.2; omega

theorem collectLoop_succ (fuel : Nat) (g : State) :
    collectLoop (fuel + 1) g =
      if (onePass g).panic.isSome = true then onePass g
      else if (onePass g).roots.isEmpty = true ∧ (onePass g).toBeFreed.isEmpty = true then onePass g
      else collectLoop fuel (onePass g) := rfl

/-- the pass loop: more fuel than unfreed objects is enough, and the total work is at most
    `unfreed + 1` passes -/
theorem collectLoop_post (N : Nat) :
    ∀ (fuel : Nat) (g : State), g.nextId = N → Bounded N g → unfreed N g < fuel →
      (collectLoop fuel g).oof = g.oof ∧
      (collectLoop fuel g).traceCalls ≤ g.traceCalls + (unfreed N g + 1) * (9 * N) ∧
      (collectLoop fuel g).edgeCalls
        ≤ g.edgeCalls + (unfreed N g + 1) * (9 * totalEdges g) := by
  intro fuel
  induction fuel with
  | zero => intro g _ _ h; exact absurd h (Nat.not_lt_zero _)
  | succ fuel ih =>
    intro g hN hb hlt
    have hp := onePass_pass g N hN hb
    have hK : (unfreed N g + 1) * (9 * N) = unfreed N g * (9 * N) + 9 * N := Nat.succ_mul _ _
    have hE : (unfreed N g + 1) * (9 * totalEdges g)
        = unfreed N g * (9 * totalEdges g) + 9 * totalEdges g := Nat.succ_mul _ _
    have hcost := hp.cost
    have hecost := hp.ecost
    rw [collectLoop_succ]
    split
    · exact ⟨hp.oof, by omega, by omega⟩
    · split
      · exact ⟨hp.oof, by omega, by omega⟩
      · next hne =>
        have hlt' : unfreed N (onePass g) < unfreed N g := by
          have := hp.unfreed_le
          apply Nat.lt_of_le_of_ne this
          intro he
          apply hne
          rw [hp.prog he, hp.tbf]; exact ⟨rfl, rfl⟩
        have h := ih (onePass g) (hp.nextId.trans hN) hp.bounded (by omega)
        have hm : (unfreed N (onePass g) + 1) * (9 * N) ≤ unfreed N g * (9 * N) :=
          Nat.mul_le_mul_right _ hlt'
        have hm2 : (unfreed N (onePass g) + 1) * (9 * totalEdges (onePass g))
            ≤ unfreed N g * (9 * totalEdges g) :=
          Nat.mul_le_mul hlt' (Nat.mul_le_mul_left _ hp.edges_le)
        exact ⟨h.1.trans hp.oof, by have := h.2.1; omega, by have := h.2.2; omega⟩

theorem unfreed_le (N : Nat) (g : State) : unfreed N g ≤ N := by
  unfold unfreed
  have := List.countP_le_length (p := fun i => !(g.nodes.get i).freed) (l := List.range N)
  rw [List.length_range] at this
  exact this

/-- `collect_cycles` never runs out of fuel, and its total cost is bounded -/
theorem collectCycles_post (g : State) (hb : Bounded g.nextId g) :
    (collectCycles g).oof = g.oof ∧
    (collectCycles g).traceCalls
      ≤ g.traceCalls + (unfreed g.nextId g + 1) * (9 * g.nextId) ∧
    (collectCycles g).edgeCalls
      ≤ g.edgeCalls + (unfreed g.nextId g + 1) * (9 * totalEdges g) := by
  unfold collectCycles
  exact collectLoop_post g.nextId (g.nextId + 2) g rfl hb (by have := unfreed_le g.nextId g; omega)

/-! ### checking well-formedness of a concrete state -/

theorem Store.get_of_size_le {α : Type} [Inhabited α] (s : Store α) (i : Nat)
    (h : s.arr.size ≤ i) : s.get i = default := by
  unfold Store.get; rw [Array.getElem?_eq_none h]; rfl

/-- `Bounded` only has to be checked on the finitely many stored objects -/
theorem Bounded.of_finite (N : Nat) (g : State)
    (h1 : ∀ i, i < g.nodes.arr.size → (∀ t ∈ (g.nodes.get i).traced, t < N) ∧
      (∀ t ∈ (g.nodes.get i).owned, t < N))
    (h2 : ∀ r ∈ g.roots, r < N) (h3 : ∀ r ∈ g.toBeFreed, r < N) : Bounded N g := by
  refine ⟨fun i t ht => ?_, fun i t ht => ?_, h2, h3⟩
  · by_cases hi : i < g.nodes.arr.size
    · exact (h1 i hi).1 t ht
    · rw [Store.get_of_size_le _ _ (Nat.le_of_not_lt hi)] at ht; cases ht
  · by_cases hi : i < g.nodes.arr.size
    · exact (h1 i hi).2 t ht
    · rw [Store.get_of_size_le _ _ (Nat.le_of_not_lt hi)] at ht; cases ht

theorem Bounded.wf {g : State} (hb : Bounded g.nextId g) : WF g ∧ RootsOk g :=
  ⟨hb.traced, hb.roots⟩

end Gc
end SodiumVerif
