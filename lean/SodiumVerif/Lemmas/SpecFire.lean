/-
  Lemmas about S (`Spec/Denot.lean`): the firing table is a solution of the firing equations
  (`fireTable_solves`) and, for well-ranked programs, total (`fireTable_total`).
-/
import SodiumVerif.Spec.Denot

namespace SodiumVerif
namespace Spec

deriving instance DecidableEq for Def

/-! ### the firing equation, one constructor at a time -/

section eqns
variable (sp : Spec) (ev : Events) (look : Nat → Option (Option Int)) (i : Nat)

theorem fireOf_sink {c} (h : sp.getDef i = .sink c) : fireOf sp ev look i = some (ev.get i) := by
  simp only [fireOf, h]
theorem fireOf_csink {k} (h : sp.getDef i = .csink k) : fireOf sp ev look i = some (ev.get i) := by
  simp only [fireOf, h]
theorem fireOf_defer {s} (h : sp.getDef i = .defer s) : fireOf sp ev look i = some (ev.get i) := by
  simp only [fireOf, h]
theorem fireOf_split {s n} (h : sp.getDef i = .split s n) : fireOf sp ev look i = some (ev.get i) := by
  simp only [fireOf, h]
theorem fireOf_const {k} (h : sp.getDef i = .const k) : fireOf sp ev look i = some none := by
  simp only [fireOf, h]
theorem fireOf_never (h : sp.getDef i = .never) : fireOf sp ev look i = some none := by
  simp only [fireOf, h]
theorem fireOf_map {s k} (h : sp.getDef i = .map s k) :
    fireOf sp ev look i = (look s).map (·.map (f1 k)) := by
  simp only [fireOf, h]
theorem fireOf_mapto {s k} (h : sp.getDef i = .mapto s k) :
    fireOf sp ev look i = (look s).map (·.map fun _ => k) := by
  simp only [fireOf, h]
theorem fireOf_filter {s k} (h : sp.getDef i = .filter s k) :
    fireOf sp ev look i = (look s).map (·.filter (p1 k)) := by
  simp only [fireOf, h]
theorem fireOf_merge {a b op} (h : sp.getDef i = .merge a b op) :
    fireOf sp ev look i = (do
      let x ← look a; let y ← look b
      pure (match x, y with
        | some x, some y => some (f2 op x y)
        | some x, none => some x
        | none, y => y)) := by
  simp only [fireOf, h] <;> rfl
theorem fireOf_orelse {a b} (h : sp.getDef i = .orelse a b) :
    fireOf sp ev look i = (do let x ← look a; let y ← look b; pure (x.orElse fun _ => y)) := by
  simp only [fireOf, h]
theorem fireOf_snapshot {s c op} (h : sp.getDef i = .snapshot s c op) :
    fireOf sp ev look i = (look s).map (·.bind fun x => (sp.val c).map (f2 op x)) := by
  simp only [fireOf, h]
theorem fireOf_snapshot1 {s c} (h : sp.getDef i = .snapshot1 s c) :
    fireOf sp ev look i = (look s).map (·.bind fun _ => sp.val c) := by
  simp only [fireOf, h]
theorem fireOf_snapshotn {s cs} (h : sp.getDef i = .snapshotn s cs) :
    fireOf sp ev look i =
      (look s).map (·.bind fun x => (cs.mapM fun c => sp.val c).map fun ys => fN (x :: ys)) := by
  simp only [fireOf, h]
theorem fireOf_gate {s c} (h : sp.getDef i = .gate s c) :
    fireOf sp ev look i = (look s).map (·.filter fun _ => ((sp.val c).map even).getD false) := by
  simp only [fireOf, h]
theorem fireOf_hold {s k} (h : sp.getDef i = .hold s k) : fireOf sp ev look i = look s := by
  simp only [fireOf, h]
theorem fireOf_holdz {s c} (h : sp.getDef i = .holdz s c) : fireOf sp ev look i = look s := by
  simp only [fireOf, h]
theorem fireOf_once {s} (h : sp.getDef i = .once s) :
    fireOf sp ev look i = if sp.onceDone.get i then some none else look s := by
  simp only [fireOf, h]
theorem fireOf_updates {c} (h : sp.getDef i = .updates c) : fireOf sp ev look i = look c := by
  simp only [fireOf, h]
theorem fireOf_value {c} (h : sp.getDef i = .value c) :
    fireOf sp ev look i = (look c).map fun u =>
      if sp.created.getD i 0 == sp.txn then (u.orElse fun _ => sp.val c) else u := by
  simp only [fireOf, h]
theorem fireOf_mapc {c k} (h : sp.getDef i = .mapc c k) :
    fireOf sp ev look i = (look c).map (·.map (f1 k)) := by
  simp only [fireOf, h]
theorem fireOf_lift2 {a b op} (h : sp.getDef i = .lift2 a b op) :
    fireOf sp ev look i = (do
      let x ← look a; let y ← look b
      pure (if x.isSome || y.isSome then
              (do let p ← x.orElse (fun _ => sp.val a); let q ← y.orElse (fun _ => sp.val b)
                  pure (f2 op p q))
            else none)) := by
  simp only [fireOf, h]
theorem fireOf_liftn {cs} (h : sp.getDef i = .liftn cs) :
    fireOf sp ev look i = (do
      let xs ← cs.mapM look
      pure (if xs.any (·.isSome) then
              ((cs.zip xs).mapM fun (p : Nat × Option Int) => p.2.orElse fun _ => sp.val p.1).map fN
            else none)) := by
  simp only [fireOf, h]
theorem fireOf_accum {s k op} (h : sp.getDef i = .accum s k op) :
    fireOf sp ev look i = (look s).map (·.bind fun x => (sp.val i).map (f2 op x)) := by
  simp only [fireOf, h]
theorem fireOf_collect {s k op} (h : sp.getDef i = .collect s k op) :
    fireOf sp ev look i = (look s).map (·.bind fun x => (sp.val i).map (f2 op x)) := by
  simp only [fireOf, h]
theorem fireOf_switchs {sel cands} (h : sp.getDef i = .switchs sel cands) :
    fireOf sp ev look i = (match sp.val sel with
      | some k => look (cands.getD (k % cands.length).toNat 0)
      | none => some none) := by
  simp only [fireOf, h] <;> rfl
theorem fireOf_switchc {sel cands} (h : sp.getDef i = .switchc sel cands) :
    fireOf sp ev look i = (do
      let sf ← look sel
      match sf with
      | some k =>
        let inner := cands.getD (k % cands.length).toNat 0
        let f ← look inner
        pure (f.orElse fun _ => sp.val inner)
      | none =>
        match sp.val sel with
        | some k => look (cands.getD (k % cands.length).toNat 0)
        | none => some none) := by
  simp only [fireOf, h] <;> rfl
theorem fireOf_sloop (h : sp.getDef i = .sloop) :
    fireOf sp ev look i = (match sp.loopTo.get i with
      | some t => look t
      | none => some none) := by
  simp only [fireOf, h] <;> rfl
theorem fireOf_cloop (h : sp.getDef i = .cloop) :
    fireOf sp ev look i = (match sp.loopTo.get i with
      | some t => look t
      | none => some none) := by
  simp only [fireOf, h] <;> rfl
theorem fireOf_route {src sel k} (h : sp.getDef i = .route src sel k) :
    fireOf sp ev look i = (look src).map (·.filter fun x => (routeKeys sel x).contains k) := by
  simp only [fireOf, h]
theorem fireOf_when {s t} (h : sp.getDef i = .when s t) :
    fireOf sp ev look i = (do let x ← look s; let y ← look t; pure (if y.isSome then x else none)) := by
  simp only [fireOf, h]

end eqns

/-! ### monotonicity of the firing equation in the lookup function -/

/-- `look'` extends `look` -/
def LookLe (look look' : Nat → Option (Option Int)) : Prop :=
  ∀ j r, look j = some r → look' j = some r

theorem mapM_look_mono {look look' : Nat → Option (Option Int)} (h : LookLe look look') :
    ∀ (cs : List Nat) (xs : List (Option Int)), cs.mapM look = some xs → cs.mapM look' = some xs := by
  intro cs
  induction cs with
  | nil => intro xs hx; simpa using hx
  | cons c cs ih =>
    intro xs hx
    rw [List.mapM_cons] at hx ⊢
    cases hc : look c with
    | none => simp [hc] at hx
    | some r =>
      cases hcs : cs.mapM look with
      | none => simp [hc, hcs] at hx
      | some ys =>
        simp [hc, hcs] at hx
        simp [h c r hc, ih ys hcs, hx]

/-- a unary equation `(look s).bind g` is monotone -/
theorem bind_look_mono {look look' : Nat → Option (Option Int)} (h : LookLe look look')
    (s : Nat) (g : Option Int → Option (Option Int)) (r : Option Int) :
    (look s).bind g = some r → (look' s).bind g = some r := by
  intro hf
  cases hs : look s with
  | none => simp [hs] at hf
  | some x => rw [h s x hs]; rw [hs] at hf; exact hf

theorem map_look_mono {look look' : Nat → Option (Option Int)} (h : LookLe look look')
    (s : Nat) (g : Option Int → Option Int) (r : Option Int) :
    (look s).map g = some r → (look' s).map g = some r := by
  intro hf
  cases hs : look s with
  | none => simp [hs] at hf
  | some x => rw [h s x hs]; rw [hs] at hf; exact hf

theorem look_mono_self {look look' : Nat → Option (Option Int)} (h : LookLe look look')
    (s : Nat) (r : Option Int) : look s = some r → look' s = some r := h s r

/-- a binary equation is monotone -/
theorem bind2_look_mono {look look' : Nat → Option (Option Int)} (h : LookLe look look')
    (a b : Nat) (g : Option Int → Option Int → Option (Option Int)) (r : Option Int) :
    ((look a).bind fun x => (look b).bind fun y => g x y) = some r →
    ((look' a).bind fun x => (look' b).bind fun y => g x y) = some r := by
  intro hf
  cases ha : look a with
  | none => simp [ha] at hf
  | some x =>
    cases hb : look b with
    | none => simp [ha, hb] at hf
    | some y => rw [h a x ha, h b y hb]; rw [ha, hb] at hf; exact hf

theorem fireOf_mono (sp : Spec) (ev : Events) {look look' : Nat → Option (Option Int)}
    (h : LookLe look look') (i : Nat) (r : Option Int) :
    fireOf sp ev look i = some r → fireOf sp ev look' i = some r := by
  intro hf
  cases hd : sp.getDef i with
  | sink c => rw [fireOf_sink _ _ _ _ hd] at hf ⊢; exact hf
  | csink k => rw [fireOf_csink _ _ _ _ hd] at hf ⊢; exact hf
  | defer s => rw [fireOf_defer _ _ _ _ hd] at hf ⊢; exact hf
  | split s n => rw [fireOf_split _ _ _ _ hd] at hf ⊢; exact hf
  | const k => rw [fireOf_const _ _ _ _ hd] at hf ⊢; exact hf
  | never => rw [fireOf_never _ _ _ _ hd] at hf ⊢; exact hf
  | map s k => rw [fireOf_map _ _ _ _ hd] at hf ⊢; exact map_look_mono h _ _ _ hf
  | mapto s k => rw [fireOf_mapto _ _ _ _ hd] at hf ⊢; exact map_look_mono h _ _ _ hf
  | filter s k => rw [fireOf_filter _ _ _ _ hd] at hf ⊢; exact map_look_mono h _ _ _ hf
  | merge a b op => rw [fireOf_merge _ _ _ _ hd] at hf ⊢; exact bind2_look_mono h _ _ _ _ hf
  | orelse a b => rw [fireOf_orelse _ _ _ _ hd] at hf ⊢; exact bind2_look_mono h _ _ _ _ hf
  | snapshot s c op => rw [fireOf_snapshot _ _ _ _ hd] at hf ⊢; exact map_look_mono h _ _ _ hf
  | snapshot1 s c => rw [fireOf_snapshot1 _ _ _ _ hd] at hf ⊢; exact map_look_mono h _ _ _ hf
  | snapshotn s cs => rw [fireOf_snapshotn _ _ _ _ hd] at hf ⊢; exact map_look_mono h _ _ _ hf
  | gate s c => rw [fireOf_gate _ _ _ _ hd] at hf ⊢; exact map_look_mono h _ _ _ hf
  | hold s k => rw [fireOf_hold _ _ _ _ hd] at hf ⊢; exact h _ _ hf
  | holdz s c => rw [fireOf_holdz _ _ _ _ hd] at hf ⊢; exact h _ _ hf
  | once s =>
    rw [fireOf_once _ _ _ _ hd] at hf ⊢
    split
    · simpa [*] using hf
    · rename_i hn; rw [if_neg hn] at hf; exact h _ _ hf
  | updates c => rw [fireOf_updates _ _ _ _ hd] at hf ⊢; exact h _ _ hf
  | value c => rw [fireOf_value _ _ _ _ hd] at hf ⊢; exact map_look_mono h _ _ _ hf
  | mapc c k => rw [fireOf_mapc _ _ _ _ hd] at hf ⊢; exact map_look_mono h _ _ _ hf
  | lift2 a b op => rw [fireOf_lift2 _ _ _ _ hd] at hf ⊢; exact bind2_look_mono h _ _ _ _ hf
  | liftn cs =>
    rw [fireOf_liftn _ _ _ _ hd] at hf ⊢
    cases hm : cs.mapM look with
    | none => simp [hm] at hf
    | some xs => rw [mapM_look_mono h cs xs hm]; rw [hm] at hf; exact hf
  | accum s k op => rw [fireOf_accum _ _ _ _ hd] at hf ⊢; exact map_look_mono h _ _ _ hf
  | collect s k op => rw [fireOf_collect _ _ _ _ hd] at hf ⊢; exact map_look_mono h _ _ _ hf
  | switchs sel cands =>
    rw [fireOf_switchs _ _ _ _ hd] at hf ⊢
    split at hf
    · exact h _ _ hf
    · exact hf
  | switchc sel cands =>
    rw [fireOf_switchc _ _ _ _ hd] at hf ⊢
    cases hs : look sel with
    | none => simp [hs] at hf
    | some sf =>
      rw [h _ _ hs]; rw [hs] at hf
      cases sf with
      | some k =>
        simp only [Option.bind_eq_bind, Option.bind_some] at hf ⊢
        exact bind_look_mono h _ _ _ hf
      | none =>
        simp only [Option.bind_eq_bind, Option.bind_some] at hf ⊢
        split at hf
        · exact h _ _ hf
        · exact hf
  | sloop =>
    rw [fireOf_sloop _ _ _ _ hd] at hf ⊢
    split at hf
    · exact h _ _ hf
    · exact hf
  | cloop =>
    rw [fireOf_cloop _ _ _ _ hd] at hf ⊢
    split at hf
    · exact h _ _ hf
    · exact hf
  | route src sel k => rw [fireOf_route _ _ _ _ hd] at hf ⊢; exact map_look_mono h _ _ _ hf
  | «when» s t => rw [fireOf_when _ _ _ _ hd] at hf ⊢; exact bind2_look_mono h _ _ _ _ hf

/-! ### the table is a solution of the equations -/

/-- `t'` extends `t` -/
def TblLe (t t' : Table) : Prop := ∀ j r, t.get j = some r → t'.get j = some r

theorem TblLe.refl (t : Table) : TblLe t t := fun _ _ h => h
theorem TblLe.trans {a b c : Table} (h1 : TblLe a b) (h2 : TblLe b c) : TblLe a c :=
  fun j r h => h2 j r (h1 j r h)

/-- every resolved entry satisfies its equation w.r.t. the table itself -/
def Solves (sp : Spec) (ev : Events) (t : Table) : Prop :=
  ∀ i r, t.get i = some r → fireOf sp ev (fun j => t.get j) i = some r

/-- the body of `round` -/
def roundStep (sp : Spec) (ev : Events) (t : Table) (i : Nat) : Table :=
  match t.get i with
  | some _ => t
  | none => match fireOf sp ev (fun j => t.get j) i with
    | some r => t.set i (some r)
    | none => t

theorem round_eq (sp : Spec) (ev : Events) (t : Table) :
    round sp ev t = (List.range sp.defs.size).foldl (roundStep sp ev) t := rfl

theorem roundStep_le (sp : Spec) (ev : Events) (t : Table) (i : Nat) : TblLe t (roundStep sp ev t i) := by
  intro j r hj
  unfold roundStep
  split
  · exact hj
  · rename_i hi
    split
    · rw [Store.get_set]
      split
      · rename_i hji; subst hji; rw [hi] at hj; cases hj
      · exact hj
    · exact hj

theorem roundStep_solves (sp : Spec) (ev : Events) (t : Table) (i : Nat) (hs : Solves sp ev t) :
    Solves sp ev (roundStep sp ev t i) := by
  intro j r hj
  have hle := roundStep_le sp ev t i
  apply fireOf_mono sp ev (look := fun j => t.get j) hle
  unfold roundStep at hj
  split at hj
  · exact hs j r hj
  · split at hj
    · rename_i r' hf
      rw [Store.get_set] at hj
      split at hj
      · rename_i hji; subst hji; cases hj; exact hf
      · exact hs j r hj
    · exact hs j r hj

theorem foldl_roundStep_le (sp : Spec) (ev : Events) (l : List Nat) (t : Table) :
    TblLe t (l.foldl (roundStep sp ev) t) := by
  induction l generalizing t with
  | nil => exact TblLe.refl t
  | cons a l ih => exact TblLe.trans (roundStep_le sp ev t a) (ih _)

theorem foldl_roundStep_solves (sp : Spec) (ev : Events) (l : List Nat) (t : Table)
    (hs : Solves sp ev t) : Solves sp ev (l.foldl (roundStep sp ev) t) := by
  induction l generalizing t with
  | nil => exact hs
  | cons a l ih => exact ih _ (roundStep_solves sp ev t a hs)

theorem round_le (sp : Spec) (ev : Events) (t : Table) : TblLe t (round sp ev t) :=
  foldl_roundStep_le sp ev _ t

theorem round_solves (sp : Spec) (ev : Events) (t : Table) (hs : Solves sp ev t) :
    Solves sp ev (round sp ev t) := foldl_roundStep_solves sp ev _ t hs

theorem rounds_le (sp : Spec) (ev : Events) (n : Nat) (t : Table) : TblLe t (rounds sp ev n t) := by
  induction n generalizing t with
  | zero => exact TblLe.refl t
  | succ n ih => exact TblLe.trans (round_le sp ev t) (ih _)

theorem rounds_solves (sp : Spec) (ev : Events) (n : Nat) (t : Table) (hs : Solves sp ev t) :
    Solves sp ev (rounds sp ev n t) := by
  induction n generalizing t with
  | zero => exact hs
  | succ n ih => exact ih _ (round_solves sp ev t hs)

theorem solves_empty (sp : Spec) (ev : Events) : Solves sp ev Store.empty := by
  intro i r h
  rw [Store.get_empty] at h
  cases h

/-- every resolved entry of the firing table satisfies the firing equation of its definition,
    evaluated on the table itself -/
theorem fireTable_solves (sp : Spec) (ev : Events) (i : Nat) (r : Option Int) :
    (fireTable sp ev).get i = some r →
    fireOf sp ev (fun j => (fireTable sp ev).get j) i = some r :=
  rounds_solves sp ev _ _ (solves_empty sp ev) i r

/-! ### totality for well-ranked programs -/

/-- the definitions whose firing `fireOf` may ask for, for definition `i` in state `sp`
    (cells that are only read by value are not operands; for `holdz s c` the operand is `s`, the cell
    `c` is a value dependency: `valDeps`) -/
def operands (sp : Spec) (i : Nat) : List Nat :=
  match sp.getDef i with
  | .sink _ | .csink _ | .defer _ | .split .. | .const _ | .never => []
  | .map s _ | .mapto s _ | .filter s _ | .snapshot s _ _ | .snapshot1 s _ | .snapshotn s _
  | .gate s _ | .hold s _ | .holdz s _ | .once s | .accum s _ _ | .collect s _ _ | .route s _ _ => [s]
  | .updates c | .value c | .mapc c _ => [c]
  | .merge a b _ | .orelse a b | .lift2 a b _ | .when a b => [a, b]
  | .liftn cs => cs
  | .switchs sel cands =>
    (match sp.val sel with
     | some k => [cands.getD (k % cands.length).toNat 0]
     | none => [])
  | .switchc sel cands => if cands = [] then [sel, 0] else sel :: cands
  | .sloop | .cloop =>
    (match sp.loopTo.get i with
     | some t => [t]
     | none => [])

/-- the cells whose *value* `cellVal` reads for cell `i` without their being firing operands of `i`:
    the cell `c` of a `holdz s c` (the Lazy it was made with), read while nothing is stored for `i`.
    (For every other derived cell the cells read by `cellVal` are among its `operands`.) -/
def valDeps (sp : Spec) (i : Nat) : List Nat :=
  match sp.getDef i with
  | .holdz _ c => [c]
  | _ => []

/-- `rank` decreases strictly from every definition to its operands, which all exist, and to the cells
    whose value it reads (`valDeps`), so that both the firing equations and `cellVal` are well-founded -/
structure WellRanked (sp : Spec) (rank : Nat → Nat) : Prop where
  bound : ∀ i, i < sp.defs.size → rank i ≤ sp.defs.size
  dec : ∀ i, i < sp.defs.size → ∀ j, j ∈ operands sp i → j < sp.defs.size ∧ rank j < rank i
  vdec : ∀ i, i < sp.defs.size → ∀ j, j ∈ valDeps sp i → j < sp.defs.size ∧ rank j < rank i

theorem mapM_look_isSome (look : Nat → Option (Option Int)) :
    ∀ cs : List Nat, (∀ c, c ∈ cs → look c ≠ none) → cs.mapM look ≠ none := by
  intro cs
  induction cs with
  | nil => intro _; simp
  | cons c cs ih =>
    intro h
    rw [List.mapM_cons]
    have hc := h c (by simp)
    have hcs := ih (fun c' hc' => h c' (by simp [hc']))
    cases h1 : look c with
    | none => exact absurd h1 hc
    | some x =>
      cases h2 : cs.mapM look with
      | none => exact absurd h2 hcs
      | some ys => simp

theorem getD_emod_mem (cands : List Nat) (k : Int) (h : cands ≠ []) :
    cands.getD (k % cands.length).toNat 0 ∈ cands := by
  have hl : 0 < cands.length := List.length_pos_iff.mpr h
  have h1 : 0 ≤ k % (cands.length : Int) := Int.emod_nonneg _ (by omega)
  have h2 : k % (cands.length : Int) < cands.length := Int.emod_lt_of_pos _ (by omega)
  have h3 : (k % (cands.length : Int)).toNat < cands.length := by omega
  rw [List.getD_eq_getElem?_getD, List.getElem?_eq_getElem h3]
  simp

theorem fireOf_resolved (sp : Spec) (ev : Events) (look : Nat → Option (Option Int)) (i : Nat)
    (h : ∀ j, j ∈ operands sp i → look j ≠ none) : fireOf sp ev look i ≠ none := by
  cases hd : sp.getDef i with
  | sink c => rw [fireOf_sink _ _ _ _ hd]; simp
  | csink k => rw [fireOf_csink _ _ _ _ hd]; simp
  | defer s => rw [fireOf_defer _ _ _ _ hd]; simp
  | split s n => rw [fireOf_split _ _ _ _ hd]; simp
  | const k => rw [fireOf_const _ _ _ _ hd]; simp
  | never => rw [fireOf_never _ _ _ _ hd]; simp
  | map s k =>
    have hs := h s (by simp [operands, hd])
    rw [fireOf_map _ _ _ _ hd]; simpa using hs
  | mapto s k =>
    have hs := h s (by simp [operands, hd])
    rw [fireOf_mapto _ _ _ _ hd]; simpa using hs
  | filter s k =>
    have hs := h s (by simp [operands, hd])
    rw [fireOf_filter _ _ _ _ hd]; simpa using hs
  | merge a b op =>
    have ha := h a (by simp [operands, hd])
    have hb := h b (by simp [operands, hd])
    rw [fireOf_merge _ _ _ _ hd]
    cases h1 : look a with
    | none => exact absurd h1 ha
    | some x => cases h2 : look b with
      | none => exact absurd h2 hb
      | some y => simp
  | orelse a b =>
    have ha := h a (by simp [operands, hd])
    have hb := h b (by simp [operands, hd])
    rw [fireOf_orelse _ _ _ _ hd]
    cases h1 : look a with
    | none => exact absurd h1 ha
    | some x => cases h2 : look b with
      | none => exact absurd h2 hb
      | some y => simp
  | snapshot s c op =>
    have hs := h s (by simp [operands, hd])
    rw [fireOf_snapshot _ _ _ _ hd]; simpa using hs
  | snapshot1 s c =>
    have hs := h s (by simp [operands, hd])
    rw [fireOf_snapshot1 _ _ _ _ hd]; simpa using hs
  | snapshotn s cs =>
    have hs := h s (by simp [operands, hd])
    rw [fireOf_snapshotn _ _ _ _ hd]; simpa using hs
  | gate s c =>
    have hs := h s (by simp [operands, hd])
    rw [fireOf_gate _ _ _ _ hd]; simpa using hs
  | hold s k =>
    have hs := h s (by simp [operands, hd])
    rw [fireOf_hold _ _ _ _ hd]; exact hs
  | holdz s c =>
    have hs := h s (by simp [operands, hd])
    rw [fireOf_holdz _ _ _ _ hd]; exact hs
  | once s =>
    have hs := h s (by simp [operands, hd])
    rw [fireOf_once _ _ _ _ hd]
    split
    · simp
    · exact hs
  | updates c =>
    have hs := h c (by simp [operands, hd])
    rw [fireOf_updates _ _ _ _ hd]; exact hs
  | value c =>
    have hs := h c (by simp [operands, hd])
    rw [fireOf_value _ _ _ _ hd]; simpa using hs
  | mapc c k =>
    have hs := h c (by simp [operands, hd])
    rw [fireOf_mapc _ _ _ _ hd]; simpa using hs
  | lift2 a b op =>
    have ha := h a (by simp [operands, hd])
    have hb := h b (by simp [operands, hd])
    rw [fireOf_lift2 _ _ _ _ hd]
    cases h1 : look a with
    | none => exact absurd h1 ha
    | some x => cases h2 : look b with
      | none => exact absurd h2 hb
      | some y => simp
  | liftn cs =>
    have hcs := mapM_look_isSome look cs (fun c hc => h c (by simpa [operands, hd] using hc))
    rw [fireOf_liftn _ _ _ _ hd]
    cases h1 : cs.mapM look with
    | none => exact absurd h1 hcs
    | some xs => simp
  | accum s k op =>
    have hs := h s (by simp [operands, hd])
    rw [fireOf_accum _ _ _ _ hd]; simpa using hs
  | collect s k op =>
    have hs := h s (by simp [operands, hd])
    rw [fireOf_collect _ _ _ _ hd]; simpa using hs
  | switchs sel cands =>
    rw [fireOf_switchs _ _ _ _ hd]
    split
    · rename_i k hk
      exact h _ (by simp [operands, hd, hk])
    · simp
  | switchc sel cands =>
    have hsel := h sel (by simp only [operands, hd]; split <;> simp)
    have hc : ∀ k : Int, look (cands.getD (k % cands.length).toNat 0) ≠ none := by
      intro k
      apply h
      simp only [operands, hd]
      split
      · rename_i he; subst he; simp
      · rename_i hne; exact List.mem_cons_of_mem _ (getD_emod_mem cands k hne)
    rw [fireOf_switchc _ _ _ _ hd]
    cases h1 : look sel with
    | none => exact absurd h1 hsel
    | some sf =>
      cases sf with
      | some k =>
        simp only [Option.bind_eq_bind, Option.bind_some]
        cases h2 : look (cands.getD (k % cands.length).toNat 0) with
        | none => exact absurd h2 (hc k)
        | some f => simp
      | none =>
        simp only [Option.bind_eq_bind, Option.bind_some]
        split
        · exact hc _
        · simp
  | sloop =>
    rw [fireOf_sloop _ _ _ _ hd]
    split
    · rename_i t ht
      exact h _ (by simp [operands, hd, ht])
    · simp
  | cloop =>
    rw [fireOf_cloop _ _ _ _ hd]
    split
    · rename_i t ht
      exact h _ (by simp [operands, hd, ht])
    · simp
  | route src sel k =>
    have hs := h src (by simp [operands, hd])
    rw [fireOf_route _ _ _ _ hd]; simpa using hs
  | «when» a b =>
    have ha := h a (by simp [operands, hd])
    have hb := h b (by simp [operands, hd])
    rw [fireOf_when _ _ _ _ hd]
    cases h1 : look a with
    | none => exact absurd h1 ha
    | some x => cases h2 : look b with
      | none => exact absurd h2 hb
      | some y => simp



theorem TblLe.ne_none {t t' : Table} (h : TblLe t t') {j : Nat} (hj : t.get j ≠ none) :
    t'.get j ≠ none := by
  cases hg : t.get j with
  | none => exact absurd hg hj
  | some r => rw [h j r hg]; simp

theorem roundStep_resolves (sp : Spec) (ev : Events) (t : Table) (i : Nat)
    (h : ∀ j, j ∈ operands sp i → t.get j ≠ none) : (roundStep sp ev t i).get i ≠ none := by
  unfold roundStep
  split
  · rename_i r hr; rw [hr]; simp
  · split
    · simp
    · rename_i hf; exact absurd hf (fireOf_resolved sp ev _ i h)

theorem foldl_roundStep_resolves (sp : Spec) (ev : Events) (l : List Nat) (t : Table) (i : Nat)
    (hi : i ∈ l) (h : ∀ j, j ∈ operands sp i → t.get j ≠ none) :
    (l.foldl (roundStep sp ev) t).get i ≠ none := by
  induction l generalizing t with
  | nil => cases hi
  | cons a l ih =>
    rw [List.foldl_cons]
    rcases List.mem_cons.mp hi with rfl | hi'
    · exact (foldl_roundStep_le sp ev l _).ne_none (roundStep_resolves sp ev t i h)
    · exact ih _ hi' (fun j hj => (roundStep_le sp ev t a).ne_none (h j hj))

theorem round_resolves (sp : Spec) (ev : Events) (t : Table) (i : Nat) (hi : i < sp.defs.size)
    (h : ∀ j, j ∈ operands sp i → t.get j ≠ none) : (round sp ev t).get i ≠ none :=
  foldl_roundStep_resolves sp ev _ t i (List.mem_range.mpr hi) h

theorem rounds_resolves (sp : Spec) (ev : Events) (rank : Nat → Nat) (wr : WellRanked sp rank) :
    ∀ (n m : Nat) (t : Table),
      (∀ i, i < sp.defs.size → rank i < m → t.get i ≠ none) →
      ∀ i, i < sp.defs.size → rank i < m + n → (rounds sp ev n t).get i ≠ none := by
  intro n
  induction n with
  | zero => intro m t h i hi hr; exact h i hi hr
  | succ n ih =>
    intro m t h i hi hr
    show (rounds sp ev n (round sp ev t)).get i ≠ none
    apply ih (m + 1) (round sp ev t) _ i hi (by omega)
    intro i' hi' hr'
    apply round_resolves sp ev t i' hi'
    intro j hj
    have := wr.dec i' hi' j hj
    exact h j this.1 (by omega)

/-- in a well-ranked program every definition is resolved in the firing table -/
theorem fireTable_total (sp : Spec) (ev : Events) (rank : Nat → Nat) (wr : WellRanked sp rank)
    (i : Nat) (hi : i < sp.defs.size) : (fireTable sp ev).get i ≠ none := by
  apply rounds_resolves sp ev rank wr (sp.defs.size + 1) 0 Store.empty _ i hi
  · have := wr.bound i hi; omega
  · intro i _ hr; omega

/-- with totality, the table is a fixpoint of the equations -/
theorem fireTable_fix (sp : Spec) (ev : Events) (rank : Nat → Nat) (wr : WellRanked sp rank)
    (i : Nat) (hi : i < sp.defs.size) :
    fireOf sp ev (fun j => (fireTable sp ev).get j) i = (fireTable sp ev).get i := by
  cases h : (fireTable sp ev).get i with
  | none => exact absurd h (fireTable_total sp ev rank wr i hi)
  | some r => exact fireTable_solves sp ev i r h

/-! ### resolution without a ranking: leaves and definitions over leaves -/

/-- a definition without operands (sink, constant, unclosed loop, …) is resolved -/
theorem resolved_leaf (sp : Spec) (ev : Events) (i : Nat) (hi : i < sp.defs.size)
    (h : operands sp i = []) : (fireTable sp ev).get i ≠ none := by
  show (rounds sp ev sp.defs.size (round sp ev Store.empty)).get i ≠ none
  apply (rounds_le sp ev _ _).ne_none
  apply round_resolves sp ev _ i hi
  intro j hj; rw [h] at hj; cases hj

/-- a definition all of whose operands are leaves is resolved -/
theorem resolved_over_leaves (sp : Spec) (ev : Events) (i : Nat) (hi : i < sp.defs.size)
    (h : ∀ j, j ∈ operands sp i → j < sp.defs.size ∧ operands sp j = []) :
    (fireTable sp ev).get i ≠ none := by
  obtain ⟨n, hn⟩ : ∃ n, sp.defs.size + 1 = n + 2 := ⟨sp.defs.size - 1, by omega⟩
  unfold fireTable
  rw [hn]
  show (rounds sp ev n (round sp ev (round sp ev Store.empty))).get i ≠ none
  apply (rounds_le sp ev _ _).ne_none
  apply round_resolves sp ev _ i hi
  intro j hj
  apply round_resolves sp ev _ j (h j hj).1
  intro j' hj'; rw [(h j hj).2] at hj'; cases hj'

end Spec
end SodiumVerif
