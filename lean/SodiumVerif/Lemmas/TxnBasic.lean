/-
  Helper lemmas about M_txn (`Model/Txn.lean`): the closed form of an outermost `leave`
  (`leave_closed`), operation words (`Op`, `run`) and the bookkeeping while a transaction is open.
-/
import SodiumVerif.Model.Txn

namespace SodiumVerif
namespace Txn

variable {α : Type}

/-! ### basic vocabulary -/

/-- the elements of `l` that `push q` puts on queue `k`, in order -/
def onQ (q : α → Queue) (k : Queue) (l : List α) : List α := l.filter (fun a => decide (q a = k))

@[simp] theorem onQ_nil (q : α → Queue) (k : Queue) : onQ q k [] = [] := rfl

theorem onQ_cons (q : α → Queue) (k : Queue) (a : α) (l : List α) :
    onQ q k (a :: l) = if q a = k then a :: onQ q k l else onQ q k l := by
  simp only [onQ, List.filter_cons, decide_eq_true_eq]

theorem onQ_append (q : α → Queue) (k : Queue) (l₁ l₂ : List α) :
    onQ q k (l₁ ++ l₂) = onQ q k l₁ ++ onQ q k l₂ := by
  simp only [onQ, List.filter_append]

theorem mem_onQ {q : α → Queue} {k : Queue} {l : List α} {a : α} :
    a ∈ onQ q k l ↔ a ∈ l ∧ q a = k := by
  simp only [onQ, List.mem_filter, decide_eq_true_eq]

theorem Ctx.ext' {c d : Ctx α} (h1 : c.depth = d.depth) (h2 : c.preEot = d.preEot)
    (h3 : c.prePost = d.prePost) (h4 : c.post = d.post) (h5 : c.allow = d.allow)
    (h6 : c.log = d.log) (h7 : c.eots = d.eots) (h8 : c.collects = d.collects)
    (h9 : c.oof = d.oof) : c = d := by
  cases c; cases d; simp_all

/-- pushing a list of closures appends, queue by queue, and touches nothing else -/
theorem foldl_push (q : α → Queue) (l : List α) (c : Ctx α) :
    l.foldl (push q) c =
      { c with preEot := c.preEot ++ onQ q .preEot l,
               prePost := c.prePost ++ onQ q .prePost l,
               post := c.post ++ onQ q .post l } := by
  induction l generalizing c with
  | nil => simp
  | cons a l ih =>
    rw [List.foldl_cons, ih]
    cases h : q a <;> simp [push, h, onQ_cons]

theorem leave_zero (q : α → Queue) (body : α → List α) (upd : List α) (c : Ctx α) :
    leave q body upd 0 c = { c with oof := true } := rfl

/-- an inner close only decrements the depth -/
theorem leave_of_two_le (q : α → Queue) (body : α → List α) (upd : List α) (fuel : Nat) (c : Ctx α)
    (h : 2 ≤ c.depth) : leave q body upd (fuel + 1) c = { c with depth := c.depth - 1 } := by
  have h' : c.depth - 1 ≠ 0 := by omega
  simp only [leave, h', ne_eq, not_false_eq_true, if_true]

/-! ### trace of a post closure and the closed form of the outermost `leave` -/

/-- what the nested transaction of the post closure `a` logs (closed by `leave … (fuel)`):
    `a` itself, then the `pre_eot` and `pre_post` closures of `body a`, then — one nested transaction
    each — the `post` closures of `body a` -/
def trace (q : α → Queue) (body : α → List α) : Nat → α → List α
  | 0, a => [a]
  | n + 1, a => a :: (onQ q .preEot (body a) ++ onQ q .prePost (body a)
                        ++ (onQ q .post (body a)).flatMap (trace q body n))

/-- number of `end_of_transaction` runs caused by the post closure `a` (its own nested transaction
    and those of the post closures pushed from it, transitively) -/
def cnt (q : α → Queue) (body : α → List α) : Nat → α → Nat
  | 0, _ => 1
  | n + 1, a => 1 + ((onQ q .post (body a)).map (cnt q body n)).sum

theorem trace_succ (q : α → Queue) (body : α → List α) (n : Nat) (a : α) :
    trace q body (n + 1) a = a :: (onQ q .preEot (body a) ++ onQ q .prePost (body a)
      ++ (onQ q .post (body a)).flatMap (trace q body n)) := rfl

theorem cnt_succ (q : α → Queue) (body : α → List α) (n : Nat) (a : α) :
    cnt q body (n + 1) a = 1 + ((onQ q .post (body a)).map (cnt q body n)).sum := rfl

/-- the context after an outermost `leave` (see `leave_closed`) -/
def closed (q : α → Queue) (body : α → List α) (upd : List α) (fuel : Nat) (c : Ctx α) : Ctx α :=
  { depth := 0, preEot := [], prePost := [], post := [], allow := c.allow,
    log := c.log ++ c.preEot ++ (c.prePost ++ onQ q .prePost upd)
            ++ (c.post ++ onQ q .post upd).flatMap (trace q body fuel),
    eots := c.eots + 1 + ((c.post ++ onQ q .post upd).map (cnt q body fuel)).sum,
    collects := if c.allow = 0 then c.collects + 1 else c.collects,
    oof := c.oof }

/-- the fold of `runPosts`, parameterised by the recursive call: if `L` behaves like `closed … f`
    on contexts at depth 1 whose post closures have rank `< f`, the post closures of rank `< f + 1`
    are traced one after the other and leave the queues empty -/
theorem runPosts_ok (q : α → Queue) (body : α → List α) (rank : α → Nat)
    (hbody : ∀ a, ∀ b ∈ body a, rank b < rank a) (L : Ctx α → Ctx α) (f : Nat)
    (hL : ∀ c : Ctx α, c.depth = 1 → (∀ a ∈ c.post, rank a < f) → L c = closed q body [] f c)
    (po : List α) (hpo : ∀ a ∈ po, rank a < f + 1) (c : Ctx α)
    (hd : c.depth = 0) (h1 : c.preEot = []) (h2 : c.prePost = []) (h3 : c.post = [])
    (ha : c.allow ≠ 0) :
    runPosts q L body po c =
      { c with log := c.log ++ po.flatMap (trace q body (f + 1)),
               eots := c.eots + (po.map (cnt q body (f + 1))).sum } := by
  induction po generalizing c with
  | nil => simp [runPosts]
  | cons a po ih =>
    have hpo' : ∀ a ∈ po, rank a < f + 1 := fun b hb => hpo b (List.mem_cons_of_mem _ hb)
    have hra : rank a < f + 1 := hpo a List.mem_cons_self
    simp only [runPosts, List.foldl_cons] at ih ⊢
    rw [foldl_push, hL]
    · rw [ih hpo']
      · apply Ctx.ext' <;>
          simp [closed, enter, hd, h1, h2, h3, ha, trace_succ, cnt_succ, List.append_assoc,
            Nat.add_assoc]
      · simp [closed]
      · simp [closed]
      · simp [closed]
      · simp [closed]
      · simpa [closed, enter] using ha
    · simp [enter, hd]
    · intro b hb
      simp only [enter, h3, List.nil_append] at hb
      have := hbody a b (mem_onQ.mp hb).1
      omega

/-- **closed form of the outermost close.**  At depth 1, if the propagation pushes no `pre_eot`
    closure, nested bodies are well-founded and the fuel exceeds the rank of every queued post
    closure, `leave` empties the three queues, logs `pre_eot`, then `pre_post` (including what the
    propagation pushed), then the trace of each post closure in FIFO order, restores `allow`, and
    collects exactly when `allow` was 0. -/
theorem leave_closed (q : α → Queue) (body : α → List α) (rank : α → Nat)
    (hbody : ∀ a, ∀ b ∈ body a, rank b < rank a) (fuel : Nat) (upd : List α) (c : Ctx α)
    (hd : c.depth = 1) (hupd : onQ q .preEot upd = [])
    (hfuel : ∀ a ∈ c.post ++ onQ q .post upd, rank a < fuel) :
    leave q body upd (fuel + 1) c = closed q body upd fuel c := by
  induction fuel generalizing upd c with
  | zero =>
    have hnil : c.post ++ onQ q .post upd = [] := by
      cases h : c.post ++ onQ q .post upd with
      | nil => rfl
      | cons a l => exact absurd (hfuel a (by rw [h]; exact List.mem_cons_self)) (by omega)
    have hp1 : c.post = [] := (List.append_eq_nil_iff.mp hnil).1
    have hp2 : onQ q .post upd = [] := (List.append_eq_nil_iff.mp hnil).2
    simp only [leave, hd, foldl_push, hupd, hp1, hp2]
    by_cases hall : c.allow = 0 <;>
      (apply Ctx.ext' <;> simp [closed, runPosts, hp1, hp2, hall])
  | succ f ih =>
    have hL : ∀ c : Ctx α, c.depth = 1 → (∀ a ∈ c.post, rank a < f) →
        leave q body [] (f + 1) c = closed q body [] f c := by
      intro c' hd' hp'
      exact ih [] c' hd' rfl (by simpa using hp')
    rw [leave]
    simp only [hd, foldl_push, hupd]
    rw [runPosts_ok q body rank hbody _ f hL _ hfuel]
    · by_cases hall : c.allow = 0 <;>
        (apply Ctx.ext' <;> simp [closed, hall, List.append_assoc, Nat.add_assoc])
    all_goals simp

theorem onQ_eq_nil_of_forall_ne {q : α → Queue} {k : Queue} {l : List α}
    (h : ∀ a ∈ l, q a ≠ k) : onQ q k l = [] := by
  simp only [onQ, List.filter_eq_nil_iff, decide_eq_true_eq]
  exact h

theorem push_eq (q : α → Queue) (c : Ctx α) (a : α) :
    push q c a =
      { c with preEot := c.preEot ++ onQ q .preEot [a],
               prePost := c.prePost ++ onQ q .prePost [a],
               post := c.post ++ onQ q .post [a] } := by
  have := foldl_push q [a] c
  simpa using this

deriving instance DecidableEq for Ctx

instance [DecidableEq α] (c : Ctx α) : Decidable (quiescent c) := by
  unfold quiescent; infer_instance

theorem one_le_cnt (q : α → Queue) (body : α → List α) (n : Nat) (a : α) : 1 ≤ cnt q body n a := by
  cases n with
  | zero => exact Nat.le_refl _
  | succ n => rw [cnt_succ]; omega

theorem length_le_sum_cnt (q : α → Queue) (body : α → List α) (n : Nat) (l : List α) :
    l.length ≤ (l.map (cnt q body n)).sum := by
  induction l with
  | nil => simp
  | cons a l ih =>
    have := one_le_cnt q body n a
    simp only [List.length_cons, List.map_cons, List.sum_cons]
    omega

/-- every post closure heads its own trace, so the queue is a sublist of the concatenated traces -/
theorem sublist_flatMap_trace (q : α → Queue) (body : α → List α) (n : Nat) (l : List α) :
    l.Sublist (l.flatMap (trace q body n)) := by
  induction l with
  | nil => simp
  | cons a l ih =>
    rw [List.flatMap_cons]
    cases n with
    | zero => exact List.Sublist.cons_cons a ih
    | succ n =>
      rw [trace_succ, List.cons_append]
      exact List.Sublist.cons_cons a (List.Sublist.trans ih (List.sublist_append_right _ _))

/-! ### operation words -/

inductive Op (α : Type) where
  | enter
  | leave
  | push (a : α)
  deriving DecidableEq, Repr

/-- one bracket operation; `leave` is a close with an empty propagation -/
def step (q : α → Queue) (body : α → List α) (fuel : Nat) (c : Ctx α) : Op α → Ctx α
  | .enter => enter c
  | .leave => leave q body [] fuel c
  | .push a => push q c a

def run (q : α → Queue) (body : α → List α) (fuel : Nat) (w : List (Op α)) (c : Ctx α) : Ctx α :=
  w.foldl (step q body fuel) c

theorem run_nil (q : α → Queue) (body : α → List α) (fuel : Nat) (c : Ctx α) :
    run q body fuel [] c = c := rfl

theorem run_cons (q : α → Queue) (body : α → List α) (fuel : Nat) (o : Op α) (w : List (Op α))
    (c : Ctx α) : run q body fuel (o :: w) c = run q body fuel w (step q body fuel c o) := rfl

theorem run_append (q : α → Queue) (body : α → List α) (fuel : Nat) (w₁ w₂ : List (Op α))
    (c : Ctx α) : run q body fuel (w₁ ++ w₂) c = run q body fuel w₂ (run q body fuel w₁ c) := by
  simp only [run, List.foldl_append]

/-- the closures pushed by a word, in order -/
def pushes : List (Op α) → List α
  | [] => []
  | .push a :: w => a :: pushes w
  | .enter :: w => pushes w
  | .leave :: w => pushes w

/-- depth after the word (started at depth `d`) -/
def depthAfter : Nat → List (Op α) → Nat
  | d, [] => d
  | d, .enter :: w => depthAfter (d + 1) w
  | d, .push _ :: w => depthAfter d w
  | d, .leave :: w => depthAfter (d - 1) w

/-- started at depth `d`, no `leave` of the word brings the depth to 0 (every `leave` is executed at
    depth ≥ 2): the transaction stays open -/
def staysOpen : Nat → List (Op α) → Bool
  | _, [] => true
  | d, .enter :: w => staysOpen (d + 1) w
  | d, .push _ :: w => staysOpen d w
  | d, .leave :: w => decide (2 ≤ d) && staysOpen (d - 1) w

/-- well-bracketed from depth `d`: never more leaves than enters, back to 0 at the end, and closures
    are pushed only inside a bracket (the public `post` opens a transaction around its push) -/
def wellBracketed : Nat → List (Op α) → Bool
  | d, [] => d == 0
  | d, .enter :: w => wellBracketed (d + 1) w
  | d, .push _ :: w => decide (1 ≤ d) && wellBracketed d w
  | d, .leave :: w => decide (1 ≤ d) && wellBracketed (d - 1) w

/-- number of outermost closes (returns of the depth to 0) of a word started at depth `d` -/
def closes : Nat → List (Op α) → Nat
  | _, [] => 0
  | d, .enter :: w => closes (d + 1) w
  | d, .push _ :: w => closes d w
  | d, .leave :: w => (if d = 1 then 1 else 0) + closes (d - 1) w

/-- while the transaction stays open, a word only moves the depth and appends its pushes to the
    queues: nothing runs, nothing else changes -/
theorem run_open (q : α → Queue) (body : α → List α) (fuel : Nat) (w : List (Op α)) (c : Ctx α)
    (h : staysOpen c.depth w = true) :
    run q body (fuel + 1) w c =
      { c with depth := depthAfter c.depth w,
               preEot := c.preEot ++ onQ q .preEot (pushes w),
               prePost := c.prePost ++ onQ q .prePost (pushes w),
               post := c.post ++ onQ q .post (pushes w) } := by
  induction w generalizing c with
  | nil => simp [run_nil, depthAfter, pushes]
  | cons o w ih =>
    rw [run_cons]
    cases o with
    | enter =>
      simp only [staysOpen] at h
      rw [step, ih (enter c) (by simpa [enter] using h)]
      simp [enter, depthAfter, pushes]
    | push a =>
      simp only [staysOpen] at h
      rw [step, ih (push q c a) (by rw [push_eq]; exact h)]
      rw [push_eq]
      simp [depthAfter, pushes, onQ_cons, List.append_assoc]
      refine ⟨?_, ?_, ?_⟩ <;> split <;> simp
    | leave =>
      simp only [staysOpen, Bool.and_eq_true, decide_eq_true_eq] at h
      rw [step, leave_of_two_le q body [] fuel c h.1, ih _ (by simpa using h.2)]
      simp [depthAfter, pushes]

/-- executing a well-bracketed word from a context that is clean whenever it is at depth 0:
    the result is quiescent, no fuel ran out, and `collect_cycles` ran once per outermost close -/
theorem run_wellBracketed (q : α → Queue) (body : α → List α) (rank : α → Nat)
    (hbody : ∀ a, ∀ b ∈ body a, rank b < rank a) (fuel : Nat) (w : List (Op α)) (c : Ctx α)
    (hw : wellBracketed c.depth w = true) (ha : c.allow = 0) (ho : c.oof = false)
    (hq : c.depth = 0 → c.preEot = [] ∧ c.prePost = [] ∧ c.post = [])
    (hpost : ∀ a ∈ c.post, rank a < fuel)
    (hpush : ∀ a ∈ pushes w, q a = .post → rank a < fuel) :
    quiescent (run q body (fuel + 1) w c) ∧ (run q body (fuel + 1) w c).oof = false ∧
      (run q body (fuel + 1) w c).collects = c.collects + closes c.depth w ∧
      c.eots + closes c.depth w ≤ (run q body (fuel + 1) w c).eots := by
  induction w generalizing c with
  | nil =>
    simp only [wellBracketed, beq_iff_eq] at hw
    obtain ⟨h1, h2, h3⟩ := hq hw
    simp [run_nil, quiescent, closes, hw, h1, h2, h3, ha, ho]
  | cons o w ih =>
    rw [run_cons]
    cases o with
    | enter =>
      simp only [wellBracketed] at hw
      have := ih (enter c) (by simpa [enter] using hw) (by simpa [enter] using ha)
        (by simpa [enter] using ho) (by simp [enter])
        (by simpa [enter] using hpost) (by simpa [pushes] using hpush)
      simpa [step, closes, enter] using this
    | push a =>
      simp only [wellBracketed, Bool.and_eq_true, decide_eq_true_eq] at hw
      have hpush' : ∀ b ∈ pushes w, q b = .post → rank b < fuel := fun b hb =>
        hpush b (by simp [pushes, hb])
      have hpa : q a = .post → rank a < fuel := hpush a (by simp [pushes])
      have := ih (push q c a) (by rw [push_eq]; exact hw.2) (by rw [push_eq]; exact ha)
        (by rw [push_eq]; exact ho) (by rw [push_eq]; intro h; simp at h; omega)
        (by
          rw [push_eq]; intro b hb
          simp only [List.mem_append, mem_onQ, List.mem_singleton] at hb
          rcases hb with hb | ⟨rfl, hb⟩
          · exact hpost b hb
          · exact hpa hb)
        hpush'
      rw [push_eq] at this
      rw [step, push_eq]
      simpa [closes] using this
    | leave =>
      simp only [wellBracketed, Bool.and_eq_true, decide_eq_true_eq] at hw
      by_cases hd : c.depth = 1
      · have hcl := leave_closed q body rank hbody fuel [] c hd rfl (by simpa using hpost)
        have := ih (closed q body [] fuel c) (by simpa [closed, hd] using hw.2)
          (by simpa [closed] using ha) (by simpa [closed] using ho) (by simp [closed])
          (by simp [closed]) (by simpa [pushes] using hpush)
        rw [step, hcl]
        simp only [closed, ha, if_true, hd, closes, Nat.sub_self] at this ⊢
        refine ⟨this.1, this.2.1, ?_, ?_⟩
        · rw [this.2.2.1]; omega
        · have := this.2.2.2; omega
      · have h2 : 2 ≤ c.depth := by omega
        have := ih { c with depth := c.depth - 1 } (by simpa using hw.2) ha ho
          (by simp; omega) hpost (by simpa [pushes] using hpush)
        rw [step, leave_of_two_le q body [] fuel c h2]
        simpa [closes, hd] using this

/-! ### a concrete small instance, used by the `example`s next to the property theorems -/

/-- nested body: the deferred send `1 ↦ 5` clears the firing slot of the sink and commits hold 2 -/
def exBody (a : Act) : List Act :=
  if a = .deferredSend 1 5 then [.clearFiring 1, .commitHold 2] else []

def exRank : Act → Nat
  | .deferredSend .. => 1
  | .userPost _ => 1
  | _ => 0

theorem exBody_wf : ∀ a, ∀ b ∈ exBody a, exRank b < exRank a := by
  intro a b hb
  unfold exBody at hb
  split at hb
  · subst a
    simp only [List.mem_cons, List.not_mem_nil, or_false] at hb
    rcases hb with rfl | rfl <;> decide
  · simp at hb

/-- an open transaction at depth 1 with one closure on each queue -/
def exCtx : Ctx Act :=
  { depth := 1, preEot := [.catchUpHold 3], prePost := [.commitHold 7], post := [.deferredSend 1 5] }

/-- what its propagation pushes -/
def exUpd : List Act := [.clearFiring 0, .userPost 9, .onceDetach 4]

/-! ### traces of post closures whose bodies push no further post closure -/

theorem onQ_onQ_of_ne (q : α → Queue) {k k' : Queue} (h : k' ≠ k) (l : List α) :
    onQ q k (onQ q k' l) = [] :=
  onQ_eq_nil_of_forall_ne (fun _ ha hk => h ((mem_onQ.mp ha).2.symm.trans hk))

/-- trace of a queue of post closures with flat bodies: each is followed by the `pre_eot` and
    `pre_post` closures of its own nested transaction -/
theorem flatMap_trace_flat (q : α → Queue) (body : α → List α) (fuel : Nat) (l : List α)
    (hpos : l ≠ [] → 0 < fuel) (hflat : ∀ a ∈ l, onQ q .post (body a) = []) :
    l.flatMap (trace q body fuel)
      = l.flatMap (fun a => a :: (onQ q .preEot (body a) ++ onQ q .prePost (body a))) := by
  cases fuel with
  | zero =>
    cases l with
    | nil => rfl
    | cons a l => exact absurd (hpos (by simp)) (by omega)
  | succ n =>
    induction l with
    | nil => rfl
    | cons a l ih =>
      rw [List.flatMap_cons, List.flatMap_cons, ih
        (fun b hb => hflat b (List.mem_cons_of_mem _ hb)) (fun _ => Nat.succ_pos n), trace_succ, hflat a List.mem_cons_self]
      simp

theorem sum_cnt_flat (q : α → Queue) (body : α → List α) (fuel : Nat) (l : List α)
    (hflat : ∀ a ∈ l, onQ q .post (body a) = []) : (l.map (cnt q body fuel)).sum = l.length := by
  induction l with
  | nil => rfl
  | cons a l ih =>
    have h1 : cnt q body fuel a = 1 := by
      cases fuel with
      | zero => rfl
      | succ n => rw [cnt_succ, hflat a List.mem_cons_self]; rfl
    rw [List.map_cons, List.sum_cons, ih (fun b hb => hflat b (List.mem_cons_of_mem _ hb)), h1,
      List.length_cons]
    omega

/-- filtered to the post closures, the flat trace is the queue itself -/
theorem onQ_post_flatMap_flat (q : α → Queue) (body : α → List α) (l : List α)
    (htyped : ∀ a ∈ l, q a = .post) :
    onQ q .post (l.flatMap (fun a => a :: (onQ q .preEot (body a) ++ onQ q .prePost (body a))))
      = l := by
  induction l with
  | nil => rfl
  | cons a l ih =>
    rw [List.flatMap_cons, onQ_append, ih (fun b hb => htyped b (List.mem_cons_of_mem _ hb)),
      onQ_cons, if_pos (htyped a List.mem_cons_self), onQ_append,
      onQ_onQ_of_ne q (by decide), onQ_onQ_of_ne q (by decide)]
    rfl
