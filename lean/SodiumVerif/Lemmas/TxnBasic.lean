/-
  Helper lemmas about M_txn (`Model/Txn.lean`): the closed form of the `pre_eot` drain
  (`runPre_closed`), the closed form of an outermost `leave` (`leave_closed`, for every propagation
  and for `pre_eot` closures that push themselves), operation words (`Op`, `run`) and the
  bookkeeping while a transaction is open.
-/
import SodiumVerif.Model.Txn

namespace SodiumVerif
namespace Txn

variable {α : Type}

/-! ### basic vocabulary -/

/-- the elements of `l` that `push q` puts on queue `k`, in order -/
def onQ (q : α → Queue) (k : Queue) (l : List α) : List α := l.filter (fun a => decide (q a = k))

@[simp] theorem onQ_nil (q : α → Queue) (k : Queue) : onQ q k [] = [] := rfl

theorem onQ_cons (q : α → Queue) (k : Queue) (a : α) (l : List α) :
    onQ q k (a :: l) = if q a = k then a :: onQ q k l else onQ q k l := by
  simp only [onQ, List.filter_cons, decide_eq_true_eq]

theorem onQ_append (q : α → Queue) (k : Queue) (l₁ l₂ : List α) :
    onQ q k (l₁ ++ l₂) = onQ q k l₁ ++ onQ q k l₂ := by
  simp only [onQ, List.filter_append]

theorem mem_onQ {q : α → Queue} {k : Queue} {l : List α} {a : α} :
    a ∈ onQ q k l ↔ a ∈ l ∧ q a = k := by
  simp only [onQ, List.mem_filter, decide_eq_true_eq]

theorem Ctx.ext' {c d : Ctx α} (h1 : c.depth = d.depth) (h2 : c.preEot = d.preEot)
    (h3 : c.prePost = d.prePost) (h4 : c.post = d.post) (h5 : c.allow = d.allow)
    (h6 : c.log = d.log) (h7 : c.eots = d.eots) (h8 : c.collects = d.collects)
    (h9 : c.oof = d.oof) : c = d := by
  cases c; cases d; simp_all

/-- pushing a list of closures appends, queue by queue, and touches nothing else -/
theorem foldl_push (q : α → Queue) (l : List α) (c : Ctx α) :
    l.foldl (push q) c =
      { c with preEot := c.preEot ++ onQ q .preEot l,
               prePost := c.prePost ++ onQ q .prePost l,
               post := c.post ++ onQ q .post l } := by
  induction l generalizing c with
  | nil => simp
  | cons a l ih =>
    rw [List.foldl_cons, ih]
    cases h : q a <;> simp [push, h, onQ_cons]

theorem leave_zero (q : α → Queue) (body : α → List α) (upd : List α) (c : Ctx α) :
    leave q body upd 0 c = { c with oof := true } := rfl

/-- an inner close only decrements the depth -/
theorem leave_of_two_le (q : α → Queue) (body : α → List α) (upd : List α) (fuel : Nat) (c : Ctx α)
    (h : 2 ≤ c.depth) : leave q body upd (fuel + 1) c = { c with depth := c.depth - 1 } := by
  have h' : c.depth - 1 ≠ 0 := by omega
  simp only [leave, h', ne_eq, not_false_eq_true, if_true]

/-! ### the `pre_eot` drain (`runPre`) in closed form -/

/-- what running the `pre_eot` closure `a` inside the close pushes: the `pushes` argument that
    `leave` hands to `runPre` (closures that are not `pre_eot` closures push nothing there) -/
def preP (q : α → Queue) (body : α → List α) (a : α) : List α :=
  if q a = .preEot then body a else []

/-- log of `runPre q P` started on the queue `pre`: the queue itself, then — round after round —
    the `pre_eot` closures pushed by the previous round -/
def preRun (q : α → Queue) (P : α → List α) : Nat → List α → List α
  | 0, pre => pre
  | n + 1, pre => pre ++ preRun q P n (onQ q .preEot (pre.flatMap P))

theorem preRun_succ (q : α → Queue) (P : α → List α) (n : Nat) (pre : List α) :
    preRun q P (n + 1) pre = pre ++ preRun q P n (onQ q .preEot (pre.flatMap P)) := rfl

@[simp] theorem preRun_nil (q : α → Queue) (P : α → List α) (n : Nat) : preRun q P n [] = [] := by
  induction n with
  | zero => rfl
  | succ n ih => simp [preRun_succ, ih]

/-- one round of `runPre`: every closure of the round is logged, what they push is appended to the
    three queues -/
theorem runPre_round (q : α → Queue) (P : α → List α) (pre : List α) (c : Ctx α) :
    pre.foldl (fun c a => (P a).foldl (push q) { c with log := c.log ++ [a] }) c =
      { c with log := c.log ++ pre,
               preEot := c.preEot ++ onQ q .preEot (pre.flatMap P),
               prePost := c.prePost ++ onQ q .prePost (pre.flatMap P),
               post := c.post ++ onQ q .post (pre.flatMap P) } := by
  induction pre generalizing c with
  | nil => simp
  | cons a pre ih =>
    rw [List.foldl_cons, ih, foldl_push]
    simp [onQ_append, List.append_assoc]

/-- **closed form of `run_pre_eot`.**  If what a closure pushes has a smaller rank than the closure
    and the fuel exceeds the ranks on the queue, `runPre` empties the `pre_eot` queue, logs
    `preRun …` and appends what the logged closures pushed to `pre_post` and `post`. -/
theorem runPre_closed (q : α → Queue) (P : α → List α) (rank : α → Nat)
    (hP : ∀ a, ∀ b ∈ P a, rank b < rank a) (n : Nat) (c : Ctx α)
    (h : ∀ a ∈ c.preEot, rank a < n) :
    runPre q P (n + 1) c =
      { c with preEot := [], log := c.log ++ preRun q P n c.preEot,
               prePost := c.prePost ++ onQ q .prePost ((preRun q P n c.preEot).flatMap P),
               post := c.post ++ onQ q .post ((preRun q P n c.preEot).flatMap P) } := by
  induction n generalizing c with
  | zero =>
    have h0 : c.preEot = [] := by
      cases hc : c.preEot with
      | nil => rfl
      | cons a l => exact absurd (h a (by rw [hc]; exact List.mem_cons_self)) (by omega)
    rw [runPre]
    split
    · apply Ctx.ext' <;> simp [h0]
    · next hne => exact absurd h0 (by simpa using hne)
  | succ m ih =>
    rw [runPre]
    split
    · next h0 => apply Ctx.ext' <;> simp [h0]
    · dsimp only
      rw [runPre_round, ih]
      · apply Ctx.ext' <;>
          simp [preRun_succ, List.flatMap_append, onQ_append, List.append_assoc]
      · intro b hb
        simp only [List.nil_append] at hb
        obtain ⟨hb, _⟩ := mem_onQ.mp hb
        obtain ⟨a, ha, hba⟩ := List.mem_flatMap.mp hb
        have := hP a b hba
        have := h a ha
        omega

/-- log of the drain of the queue `pre` during a close -/
def preLog (q : α → Queue) (body : α → List α) (n : Nat) (pre : List α) : List α :=
  preRun q (preP q body) n pre

/-- everything the drain of the queue `pre` pushes (onto any of the three queues) -/
def prePushed (q : α → Queue) (body : α → List α) (n : Nat) (pre : List α) : List α :=
  (preLog q body n pre).flatMap (preP q body)

@[simp] theorem preLog_nil (q : α → Queue) (body : α → List α) (n : Nat) :
    preLog q body n [] = [] := preRun_nil _ _ _

@[simp] theorem prePushed_nil (q : α → Queue) (body : α → List α) (n : Nat) :
    prePushed q body n [] = [] := by simp [prePushed]

theorem preP_wf (q : α → Queue) (body : α → List α) (rank : α → Nat)
    (hbody : ∀ a, ∀ b ∈ body a, rank b < rank a) : ∀ a, ∀ b ∈ preP q body a, rank b < rank a := by
  intro a b hb
  unfold preP at hb
  split at hb
  · exact hbody a b hb
  · simp at hb

/-- `runPre` as `leave` calls it -/
theorem runPre_leave (q : α → Queue) (body : α → List α) (rank : α → Nat)
    (hbody : ∀ a, ∀ b ∈ body a, rank b < rank a) (n : Nat) (c : Ctx α)
    (h : ∀ a ∈ c.preEot, rank a < n) :
    runPre q (fun a => if q a = .preEot then body a else []) (n + 1) c =
      { c with preEot := [], log := c.log ++ preLog q body n c.preEot,
               prePost := c.prePost ++ onQ q .prePost (prePushed q body n c.preEot),
               post := c.post ++ onQ q .post (prePushed q body n c.preEot) } :=
  runPre_closed q (preP q body) rank (preP_wf q body rank hbody) n c h

/-! ### trace of a post closure and the closed form of the outermost `leave` -/

/-- everything pushed inside the nested transaction of the post closure `a` before its `pre_post`
    phase: by `a` itself (`body a`), then by the `pre_eot` closures run at its close -/
def nested (q : α → Queue) (body : α → List α) (n : Nat) (a : α) : List α :=
  body a ++ prePushed q body n (onQ q .preEot (body a))

/-- what the nested transaction of the post closure `a` logs (closed by `leave … (fuel)`):
    `a` itself, then the `pre_eot` closures of `body a` and, round after round, those they push;
    then the `pre_post` closures pushed by `a` and by these `pre_eot` closures; then — one nested
    transaction each — the `post` closures pushed by `a` and by these `pre_eot` closures -/
def trace (q : α → Queue) (body : α → List α) : Nat → α → List α
  | 0, a => [a]
  | n + 1, a => a :: (preLog q body n (onQ q .preEot (body a)) ++ onQ q .prePost (nested q body n a)
                        ++ (onQ q .post (nested q body n a)).flatMap (trace q body n))

/-- number of `end_of_transaction` runs caused by the post closure `a` (its own nested transaction
    and those of the post closures pushed from it, transitively) -/
def cnt (q : α → Queue) (body : α → List α) : Nat → α → Nat
  | 0, _ => 1
  | n + 1, a => 1 + ((onQ q .post (nested q body n a)).map (cnt q body n)).sum

theorem trace_succ (q : α → Queue) (body : α → List α) (n : Nat) (a : α) :
    trace q body (n + 1) a =
      a :: (preLog q body n (onQ q .preEot (body a)) ++ onQ q .prePost (nested q body n a)
              ++ (onQ q .post (nested q body n a)).flatMap (trace q body n)) := rfl

theorem cnt_succ (q : α → Queue) (body : α → List α) (n : Nat) (a : α) :
    cnt q body (n + 1) a = 1 + ((onQ q .post (nested q body n a)).map (cnt q body n)).sum := rfl

/-- the `pre_eot` closures run by an outermost close, in order: the drain before the propagation
    (the queue and what its closures push onto `pre_eot`, round after round), then the drain after
    it (the `pre_eot` closures pushed by the propagation, and what they push) -/
def preEotPart (q : α → Queue) (body : α → List α) (upd : List α) (fuel : Nat) (c : Ctx α) :
    List α :=
  preLog q body fuel c.preEot ++ preLog q body fuel (onQ q .preEot upd)

/-- everything pushed during an outermost close before its `pre_post` phase: by the first drain
    of `pre_eot`, by the propagation (`upd`), by the second drain -/
def pushedInClose (q : α → Queue) (body : α → List α) (upd : List α) (fuel : Nat) (c : Ctx α) :
    List α :=
  prePushed q body fuel c.preEot ++ upd ++ prePushed q body fuel (onQ q .preEot upd)

/-- the `pre_post` queue when the `pre_post` phase of an outermost close starts -/
def prePostPart (q : α → Queue) (body : α → List α) (upd : List α) (fuel : Nat) (c : Ctx α) :
    List α :=
  c.prePost ++ onQ q .prePost (pushedInClose q body upd fuel c)

/-- the `post` queue when the `post` phase of an outermost close starts -/
def postPart (q : α → Queue) (body : α → List α) (upd : List α) (fuel : Nat) (c : Ctx α) :
    List α :=
  c.post ++ onQ q .post (pushedInClose q body upd fuel c)

/-- the context after an outermost `leave` (see `leave_closed`) -/
def closed (q : α → Queue) (body : α → List α) (upd : List α) (fuel : Nat) (c : Ctx α) : Ctx α :=
  { depth := 0, preEot := [], prePost := [], post := [], allow := c.allow,
    log := c.log ++ preEotPart q body upd fuel c ++ prePostPart q body upd fuel c
            ++ (postPart q body upd fuel c).flatMap (trace q body fuel),
    eots := c.eots + 1 + ((postPart q body upd fuel c).map (cnt q body fuel)).sum,
    collects := if c.allow = 0 then c.collects + 1 else c.collects,
    oof := c.oof }

/-- the fold of `runPosts`, parameterised by the recursive call: if `L` behaves like `closed … f`
    on contexts at depth 1 whose `pre_eot` and post closures have rank `< f`, the post closures of
    rank `< f + 1` are traced one after the other and leave the queues empty -/
theorem runPosts_ok (q : α → Queue) (body : α → List α) (rank : α → Nat)
    (hbody : ∀ a, ∀ b ∈ body a, rank b < rank a) (L : Ctx α → Ctx α) (f : Nat)
    (hL : ∀ c : Ctx α, c.depth = 1 → (∀ a ∈ c.preEot, rank a < f) → (∀ a ∈ c.post, rank a < f) →
      L c = closed q body [] f c)
    (po : List α) (hpo : ∀ a ∈ po, rank a < f + 1) (c : Ctx α)
    (hd : c.depth = 0) (h1 : c.preEot = []) (h2 : c.prePost = []) (h3 : c.post = [])
    (ha : c.allow ≠ 0) :
    runPosts q L body po c =
      { c with log := c.log ++ po.flatMap (trace q body (f + 1)),
               eots := c.eots + (po.map (cnt q body (f + 1))).sum } := by
  induction po generalizing c with
  | nil => simp [runPosts]
  | cons a po ih =>
    have hpo' : ∀ a ∈ po, rank a < f + 1 := fun b hb => hpo b (List.mem_cons_of_mem _ hb)
    have hra : rank a < f + 1 := hpo a List.mem_cons_self
    simp only [runPosts, List.foldl_cons] at ih ⊢
    rw [foldl_push, hL]
    · rw [ih hpo']
      · apply Ctx.ext' <;>
          simp [closed, preEotPart, prePostPart, postPart, pushedInClose, nested, enter, hd, h1, h2,
            h3, ha, trace_succ, cnt_succ, onQ_append, List.append_assoc, Nat.add_assoc]
      · simp [closed]
      · simp [closed]
      · simp [closed]
      · simp [closed]
      · simpa [closed, enter] using ha
    · simp [enter, hd]
    · intro b hb
      simp only [enter, h1, List.nil_append] at hb
      have := hbody a b (mem_onQ.mp hb).1
      omega
    · intro b hb
      simp only [enter, h3, List.nil_append] at hb
      have := hbody a b (mem_onQ.mp hb).1
      omega

theorem rank_preRun_lt (q : α → Queue) (P : α → List α) (rank : α → Nat)
    (hP : ∀ a, ∀ b ∈ P a, rank b < rank a) (n k : Nat) (pre : List α)
    (h : ∀ a ∈ pre, rank a < k) : ∀ b ∈ preRun q P n pre, rank b < k := by
  induction n generalizing pre with
  | zero => exact h
  | succ n ih =>
    intro b hb
    rw [preRun_succ] at hb
    rcases List.mem_append.mp hb with hb | hb
    · exact h b hb
    · refine ih _ ?_ b hb
      intro d hd
      obtain ⟨a, ha, hda⟩ := List.mem_flatMap.mp (mem_onQ.mp hd).1
      have := hP a d hda
      have := h a ha
      omega

/-- what the drain of a queue pushes has a smaller rank than some closure of the queue -/
theorem rank_prePushed_lt (q : α → Queue) (body : α → List α) (rank : α → Nat)
    (hbody : ∀ a, ∀ b ∈ body a, rank b < rank a) (n k : Nat) (pre : List α)
    (h : ∀ a ∈ pre, rank a < k) : ∀ b ∈ prePushed q body n pre, rank b < k := by
  intro b hb
  obtain ⟨a, ha, hba⟩ := List.mem_flatMap.mp hb
  have := preP_wf q body rank hbody a b hba
  have := rank_preRun_lt q (preP q body) rank (preP_wf q body rank hbody) n k pre h a ha
  omega

/-- last step of `end_of_transaction`: release `allow_collect_cycles_counter`, collect at 0 -/
def finish (c : Ctx α) : Ctx α :=
  if c.allow - 1 = 0 then { c with allow := c.allow - 1, collects := c.collects + 1 }
  else { c with allow := c.allow - 1 }

/-- the outermost close up to its `post` phase: both drains of `pre_eot`, the propagation and the
    `pre_post` phase in closed form -/
theorem leave_eq (q : α → Queue) (body : α → List α) (rank : α → Nat)
    (hbody : ∀ a, ∀ b ∈ body a, rank b < rank a) (fuel : Nat) (upd : List α) (c : Ctx α)
    (hd : c.depth = 1)
    (hfuelPre : ∀ a ∈ c.preEot ++ onQ q .preEot upd, rank a < fuel) :
    leave q body upd (fuel + 1) c =
      finish (runPosts q (leave q body [] fuel) body (postPart q body upd fuel c)
        { depth := 0, preEot := [], prePost := [], post := [], allow := c.allow + 1,
          log := c.log ++ preEotPart q body upd fuel c ++ prePostPart q body upd fuel c,
          eots := c.eots + 1, collects := c.collects, oof := c.oof }) := by
  have hpre1 : ∀ a ∈ c.preEot, rank a < fuel := fun a ha => hfuelPre a (List.mem_append_left _ ha)
  have hpre2 : ∀ a ∈ onQ q .preEot upd, rank a < fuel :=
    fun a ha => hfuelPre a (List.mem_append_right _ ha)
  rw [leave]
  simp only [hd]
  rw [runPre_leave q body rank hbody fuel
    { c with depth := 1 - 1 + 1, allow := c.allow + 1, eots := c.eots + 1 } hpre1]
  rw [runPre_leave q body rank hbody fuel]
  · simp [foldl_push, finish, preEotPart, prePostPart, postPart, pushedInClose, onQ_append,
      List.append_assoc]
  · rw [foldl_push]; simpa using hpre2

/-- the post closures queued when the `post` phase starts have a rank below the fuel -/
theorem rank_postPart_lt (q : α → Queue) (body : α → List α) (rank : α → Nat)
    (hbody : ∀ a, ∀ b ∈ body a, rank b < rank a) (fuel : Nat) (upd : List α) (c : Ctx α)
    (hfuelPre : ∀ a ∈ c.preEot ++ onQ q .preEot upd, rank a < fuel)
    (hfuel : ∀ a ∈ c.post ++ onQ q .post upd, rank a < fuel) :
    ∀ a ∈ postPart q body upd fuel c, rank a < fuel := by
  intro a ha
  simp only [postPart, pushedInClose, onQ_append, List.mem_append] at ha
  rcases ha with ha | (ha | ha) | ha
  · exact hfuel a (List.mem_append_left _ ha)
  · exact rank_prePushed_lt q body rank hbody fuel fuel c.preEot
      (fun a ha => hfuelPre a (List.mem_append_left _ ha)) a (mem_onQ.mp ha).1
  · exact hfuel a (List.mem_append_right _ ha)
  · exact rank_prePushed_lt q body rank hbody fuel fuel (onQ q .preEot upd)
      (fun a ha => hfuelPre a (List.mem_append_right _ ha)) a (mem_onQ.mp ha).1

/-- **closed form of the outermost close.**  At depth 1, if nested bodies are well-founded (what a
    closure pushes has a smaller rank) and the fuel exceeds the rank of every queued `pre_eot` and
    post closure, `leave` empties the three queues — whatever the propagation pushes — and logs:
    the `pre_eot` closures (`preEotPart`: the queue drained until it is empty, then, after the
    propagation, the `pre_eot` closures it pushed, drained again), then the `pre_post` closures
    (`prePostPart`: queued before, pushed by the drains and by the propagation), then the trace of
    each post closure (`postPart`) in FIFO order; it restores `allow` and collects exactly when
    `allow` was 0. -/
theorem leave_closed (q : α → Queue) (body : α → List α) (rank : α → Nat)
    (hbody : ∀ a, ∀ b ∈ body a, rank b < rank a) (fuel : Nat) (upd : List α) (c : Ctx α)
    (hd : c.depth = 1)
    (hfuelPre : ∀ a ∈ c.preEot ++ onQ q .preEot upd, rank a < fuel)
    (hfuel : ∀ a ∈ c.post ++ onQ q .post upd, rank a < fuel) :
    leave q body upd (fuel + 1) c = closed q body upd fuel c := by
  induction fuel generalizing upd c with
  | zero =>
    have hpo := rank_postPart_lt q body rank hbody 0 upd c hfuelPre hfuel
    have hnil : postPart q body upd 0 c = [] := by
      cases h : postPart q body upd 0 c with
      | nil => rfl
      | cons a l => exact absurd (hpo a (by rw [h]; exact List.mem_cons_self)) (by omega)
    rw [leave_eq q body rank hbody 0 upd c hd hfuelPre, hnil]
    by_cases hall : c.allow = 0 <;>
      (apply Ctx.ext' <;> simp [closed, finish, runPosts, hnil, hall])
  | succ f ih =>
    have hpo := rank_postPart_lt q body rank hbody (f + 1) upd c hfuelPre hfuel
    have hL : ∀ c : Ctx α, c.depth = 1 → (∀ a ∈ c.preEot, rank a < f) →
        (∀ a ∈ c.post, rank a < f) → leave q body [] (f + 1) c = closed q body [] f c := by
      intro c' hd' hq' hp'
      exact ih [] c' hd' (by simpa using hq') (by simpa using hp')
    rw [leave_eq q body rank hbody (f + 1) upd c hd hfuelPre,
      runPosts_ok q body rank hbody _ f hL _ hpo]
    · by_cases hall : c.allow = 0 <;>
        (apply Ctx.ext' <;> simp [closed, finish, hall, List.append_assoc, Nat.add_assoc])
    all_goals simp

theorem onQ_eq_nil_of_forall_ne {q : α → Queue} {k : Queue} {l : List α}
    (h : ∀ a ∈ l, q a ≠ k) : onQ q k l = [] := by
  simp only [onQ, List.filter_eq_nil_iff, decide_eq_true_eq]
  exact h

/-! ### what the drains run and push: queue membership, prefixes -/

/-- a closure run by the drain was on the queue at the start or was pushed onto `pre_eot` -/
theorem queue_of_mem_preRun (q : α → Queue) (P : α → List α) (n : Nat) (pre : List α) (b : α)
    (hb : b ∈ preRun q P n pre) : b ∈ pre ∨ q b = .preEot := by
  induction n generalizing pre with
  | zero => exact Or.inl hb
  | succ n ih =>
    rw [preRun_succ] at hb
    rcases List.mem_append.mp hb with hb | hb
    · exact Or.inl hb
    · rcases ih _ hb with h | h
      · exact Or.inr (mem_onQ.mp h).2
      · exact Or.inr h

theorem queue_of_mem_preLog (q : α → Queue) (body : α → List α) (n : Nat) (pre : List α)
    (hpre : ∀ a ∈ pre, q a = .preEot) : ∀ b ∈ preLog q body n pre, q b = .preEot := by
  intro b hb
  rcases queue_of_mem_preRun q _ n pre b hb with h | h
  · exact hpre b h
  · exact h

theorem onQ_preLog_onQ_of_ne (q : α → Queue) (body : α → List α) (n : Nat) (l : List α)
    {k : Queue} (hk : k ≠ .preEot) : onQ q k (preLog q body n (onQ q .preEot l)) = [] :=
  onQ_eq_nil_of_forall_ne (fun b hb h =>
    hk (h.symm.trans (queue_of_mem_preLog q body n _ (fun _ ha => (mem_onQ.mp ha).2) b hb)))

/-- the drain runs the queue first -/
theorem sublist_preLog (q : α → Queue) (body : α → List α) (n : Nat) (pre : List α) :
    pre.Sublist (preLog q body n pre) := by
  cases n with
  | zero => exact List.Sublist.refl _
  | succ n => exact List.sublist_append_left _ _

theorem sublist_preEotPart (q : α → Queue) (body : α → List α) (upd : List α) (fuel : Nat)
    (c : Ctx α) : (c.preEot ++ onQ q .preEot upd).Sublist (preEotPart q body upd fuel c) :=
  List.Sublist.append (sublist_preLog q body fuel _) (sublist_preLog q body fuel _)

theorem sublist_pushedInClose (q : α → Queue) (body : α → List α) (upd : List α) (fuel : Nat)
    (c : Ctx α) : upd.Sublist (pushedInClose q body upd fuel c) :=
  List.Sublist.trans (List.sublist_append_right _ _) (List.sublist_append_left _ _)

theorem sublist_prePostPart (q : α → Queue) (body : α → List α) (upd : List α) (fuel : Nat)
    (c : Ctx α) : (c.prePost ++ onQ q .prePost upd).Sublist (prePostPart q body upd fuel c) :=
  List.Sublist.append (List.Sublist.refl _)
    (List.Sublist.filter _ (sublist_pushedInClose q body upd fuel c))

theorem sublist_postPart (q : α → Queue) (body : α → List α) (upd : List α) (fuel : Nat)
    (c : Ctx α) : (c.post ++ onQ q .post upd).Sublist (postPart q body upd fuel c) :=
  List.Sublist.append (List.Sublist.refl _)
    (List.Sublist.filter _ (sublist_pushedInClose q body upd fuel c))

/-- every closure of `preEotPart` was on the `pre_eot` queue or was pushed onto it -/
theorem queue_of_mem_preEotPart (q : α → Queue) (body : α → List α) (upd : List α) (fuel : Nat)
    (c : Ctx α) (b : α) (hb : b ∈ preEotPart q body upd fuel c) : b ∈ c.preEot ∨ q b = .preEot := by
  rcases List.mem_append.mp hb with hb | hb
  · exact queue_of_mem_preRun q _ fuel _ b hb
  · rcases queue_of_mem_preRun q _ fuel _ b hb with h | h
    · exact Or.inr (mem_onQ.mp h).2
    · exact Or.inr h

/-! ### the special case of inert `pre_eot` closures (they push nothing)

  Under `hpre : ∀ a, q a = .preEot → body a = []` the drains just log their queue and the closed
  form is: `c.log ++ (c.preEot ++ onQ q .preEot upd) ++ (c.prePost ++ onQ q .prePost upd) ++` the
  traces of `c.post ++ onQ q .post upd`, each trace being the closure, the `pre_eot` and `pre_post`
  closures of its body and the traces of the post closures of its body. -/

theorem preP_inert (q : α → Queue) (body : α → List α) (hpre : ∀ a, q a = .preEot → body a = [])
    (a : α) : preP q body a = [] := by
  unfold preP; split
  · next h => exact hpre a h
  · rfl

theorem prePushed_inert (q : α → Queue) (body : α → List α)
    (hpre : ∀ a, q a = .preEot → body a = []) (n : Nat) (pre : List α) :
    prePushed q body n pre = [] := by
  simp [prePushed, List.flatMap_eq_nil_iff, preP_inert q body hpre]

theorem preLog_inert (q : α → Queue) (body : α → List α)
    (hpre : ∀ a, q a = .preEot → body a = []) (n : Nat) (pre : List α) :
    preLog q body n pre = pre := by
  cases n with
  | zero => rfl
  | succ n =>
    have : pre.flatMap (preP q body) = [] := by
      simp [List.flatMap_eq_nil_iff, preP_inert q body hpre]
    simp [preLog, preRun_succ, this]

theorem nested_inert (q : α → Queue) (body : α → List α)
    (hpre : ∀ a, q a = .preEot → body a = []) (n : Nat) (a : α) : nested q body n a = body a := by
  simp [nested, prePushed_inert q body hpre]

theorem trace_succ_inert (q : α → Queue) (body : α → List α)
    (hpre : ∀ a, q a = .preEot → body a = []) (n : Nat) (a : α) :
    trace q body (n + 1) a = a :: (onQ q .preEot (body a) ++ onQ q .prePost (body a)
      ++ (onQ q .post (body a)).flatMap (trace q body n)) := by
  rw [trace_succ, nested_inert q body hpre, preLog_inert q body hpre]

theorem cnt_succ_inert (q : α → Queue) (body : α → List α)
    (hpre : ∀ a, q a = .preEot → body a = []) (n : Nat) (a : α) :
    cnt q body (n + 1) a = 1 + ((onQ q .post (body a)).map (cnt q body n)).sum := by
  rw [cnt_succ, nested_inert q body hpre]

theorem pushedInClose_inert (q : α → Queue) (body : α → List α)
    (hpre : ∀ a, q a = .preEot → body a = []) (upd : List α) (fuel : Nat) (c : Ctx α) :
    pushedInClose q body upd fuel c = upd := by
  simp [pushedInClose, prePushed_inert q body hpre]

theorem preEotPart_inert (q : α → Queue) (body : α → List α)
    (hpre : ∀ a, q a = .preEot → body a = []) (upd : List α) (fuel : Nat) (c : Ctx α) :
    preEotPart q body upd fuel c = c.preEot ++ onQ q .preEot upd := by
  simp [preEotPart, preLog_inert q body hpre]

theorem prePostPart_inert (q : α → Queue) (body : α → List α)
    (hpre : ∀ a, q a = .preEot → body a = []) (upd : List α) (fuel : Nat) (c : Ctx α) :
    prePostPart q body upd fuel c = c.prePost ++ onQ q .prePost upd := by
  simp [prePostPart, pushedInClose_inert q body hpre]

theorem postPart_inert (q : α → Queue) (body : α → List α)
    (hpre : ∀ a, q a = .preEot → body a = []) (upd : List α) (fuel : Nat) (c : Ctx α) :
    postPart q body upd fuel c = c.post ++ onQ q .post upd := by
  simp [postPart, pushedInClose_inert q body hpre]

/-- the closed form when `pre_eot` closures push nothing: the `pre_eot` closures pushed by the
    propagation are logged after the queued ones, before the `pre_post` closures -/
theorem closed_inert (q : α → Queue) (body : α → List α)
    (hpre : ∀ a, q a = .preEot → body a = []) (upd : List α) (fuel : Nat) (c : Ctx α) :
    closed q body upd fuel c =
      { depth := 0, preEot := [], prePost := [], post := [], allow := c.allow,
        log := c.log ++ (c.preEot ++ onQ q .preEot upd) ++ (c.prePost ++ onQ q .prePost upd)
                ++ (c.post ++ onQ q .post upd).flatMap (trace q body fuel),
        eots := c.eots + 1 + ((c.post ++ onQ q .post upd).map (cnt q body fuel)).sum,
        collects := if c.allow = 0 then c.collects + 1 else c.collects,
        oof := c.oof } := by
  simp only [closed, preEotPart_inert q body hpre, prePostPart_inert q body hpre,
    postPart_inert q body hpre]

theorem push_eq (q : α → Queue) (c : Ctx α) (a : α) :
    push q c a =
      { c with preEot := c.preEot ++ onQ q .preEot [a],
               prePost := c.prePost ++ onQ q .prePost [a],
               post := c.post ++ onQ q .post [a] } := by
  have := foldl_push q [a] c
  simpa using this

deriving instance DecidableEq for Ctx

instance [DecidableEq α] (c : Ctx α) : Decidable (quiescent c) := by
  unfold quiescent; infer_instance

theorem one_le_cnt (q : α → Queue) (body : α → List α) (n : Nat) (a : α) : 1 ≤ cnt q body n a := by
  cases n with
  | zero => exact Nat.le_refl _
  | succ n => rw [cnt_succ]; omega

theorem length_le_sum_cnt (q : α → Queue) (body : α → List α) (n : Nat) (l : List α) :
    l.length ≤ (l.map (cnt q body n)).sum := by
  induction l with
  | nil => simp
  | cons a l ih =>
    have := one_le_cnt q body n a
    simp only [List.length_cons, List.map_cons, List.sum_cons]
    omega

/-- every post closure heads its own trace, so the queue is a sublist of the concatenated traces -/
theorem sublist_flatMap_trace (q : α → Queue) (body : α → List α) (n : Nat) (l : List α) :
    l.Sublist (l.flatMap (trace q body n)) := by
  induction l with
  | nil => simp
  | cons a l ih =>
    rw [List.flatMap_cons]
    cases n with
    | zero => exact List.Sublist.cons_cons a ih
    | succ n =>
      rw [trace_succ, List.cons_append]
      exact List.Sublist.cons_cons a (List.Sublist.trans ih (List.sublist_append_right _ _))

/-! ### operation words -/

inductive Op (α : Type) where
  | enter
  | leave
  | push (a : α)
  deriving DecidableEq, Repr

/-- one bracket operation; `leave` is a close with an empty propagation -/
def step (q : α → Queue) (body : α → List α) (fuel : Nat) (c : Ctx α) : Op α → Ctx α
  | .enter => enter c
  | .leave => leave q body [] fuel c
  | .push a => push q c a

def run (q : α → Queue) (body : α → List α) (fuel : Nat) (w : List (Op α)) (c : Ctx α) : Ctx α :=
  w.foldl (step q body fuel) c

theorem run_nil (q : α → Queue) (body : α → List α) (fuel : Nat) (c : Ctx α) :
    run q body fuel [] c = c := rfl

theorem run_cons (q : α → Queue) (body : α → List α) (fuel : Nat) (o : Op α) (w : List (Op α))
    (c : Ctx α) : run q body fuel (o :: w) c = run q body fuel w (step q body fuel c o) := rfl

theorem run_append (q : α → Queue) (body : α → List α) (fuel : Nat) (w₁ w₂ : List (Op α))
    (c : Ctx α) : run q body fuel (w₁ ++ w₂) c = run q body fuel w₂ (run q body fuel w₁ c) := by
  simp only [run, List.foldl_append]

/-- the closures pushed by a word, in order -/
def pushes : List (Op α) → List α
  | [] => []
  | .push a :: w => a :: pushes w
  | .enter :: w => pushes w
  | .leave :: w => pushes w

/-- depth after the word (started at depth `d`) -/
def depthAfter : Nat → List (Op α) → Nat
  | d, [] => d
  | d, .enter :: w => depthAfter (d + 1) w
  | d, .push _ :: w => depthAfter d w
  | d, .leave :: w => depthAfter (d - 1) w

/-- started at depth `d`, no `leave` of the word brings the depth to 0 (every `leave` is executed at
    depth ≥ 2): the transaction stays open -/
def staysOpen : Nat → List (Op α) → Bool
  | _, [] => true
  | d, .enter :: w => staysOpen (d + 1) w
  | d, .push _ :: w => staysOpen d w
  | d, .leave :: w => decide (2 ≤ d) && staysOpen (d - 1) w

/-- well-bracketed from depth `d`: never more leaves than enters, back to 0 at the end, and closures
    are pushed only inside a bracket (the public `post` opens a transaction around its push) -/
def wellBracketed : Nat → List (Op α) → Bool
  | d, [] => d == 0
  | d, .enter :: w => wellBracketed (d + 1) w
  | d, .push _ :: w => decide (1 ≤ d) && wellBracketed d w
  | d, .leave :: w => decide (1 ≤ d) && wellBracketed (d - 1) w

/-- number of outermost closes (returns of the depth to 0) of a word started at depth `d` -/
def closes : Nat → List (Op α) → Nat
  | _, [] => 0
  | d, .enter :: w => closes (d + 1) w
  | d, .push _ :: w => closes d w
  | d, .leave :: w => (if d = 1 then 1 else 0) + closes (d - 1) w

/-- while the transaction stays open, a word only moves the depth and appends its pushes to the
    queues: nothing runs, nothing else changes -/
theorem run_open (q : α → Queue) (body : α → List α) (fuel : Nat) (w : List (Op α)) (c : Ctx α)
    (h : staysOpen c.depth w = true) :
    run q body (fuel + 1) w c =
      { c with depth := depthAfter c.depth w,
               preEot := c.preEot ++ onQ q .preEot (pushes w),
               prePost := c.prePost ++ onQ q .prePost (pushes w),
               post := c.post ++ onQ q .post (pushes w) } := by
  induction w generalizing c with
  | nil => simp [run_nil, depthAfter, pushes]
  | cons o w ih =>
    rw [run_cons]
    cases o with
    | enter =>
      simp only [staysOpen] at h
      rw [step, ih (enter c) (by simpa [enter] using h)]
      simp [enter, depthAfter, pushes]
    | push a =>
      simp only [staysOpen] at h
      rw [step, ih (push q c a) (by rw [push_eq]; exact h)]
      rw [push_eq]
      simp [depthAfter, pushes, onQ_cons, List.append_assoc]
      refine ⟨?_, ?_, ?_⟩ <;> split <;> simp
    | leave =>
      simp only [staysOpen, Bool.and_eq_true, decide_eq_true_eq] at h
      rw [step, leave_of_two_le q body [] fuel c h.1, ih _ (by simpa using h.2)]
      simp [depthAfter, pushes]

/-- executing a well-bracketed word from a context that is clean whenever it is at depth 0:
    the result is quiescent, no fuel ran out, and `collect_cycles` ran once per outermost close -/
theorem run_wellBracketed (q : α → Queue) (body : α → List α) (rank : α → Nat)
    (hbody : ∀ a, ∀ b ∈ body a, rank b < rank a) (fuel : Nat) (w : List (Op α)) (c : Ctx α)
    (hw : wellBracketed c.depth w = true) (ha : c.allow = 0) (ho : c.oof = false)
    (hq : c.depth = 0 → c.preEot = [] ∧ c.prePost = [] ∧ c.post = [])
    (hpreq : ∀ a ∈ c.preEot, rank a < fuel)
    (hpost : ∀ a ∈ c.post, rank a < fuel)
    (hpush : ∀ a ∈ pushes w, q a ≠ .prePost → rank a < fuel) :
    quiescent (run q body (fuel + 1) w c) ∧ (run q body (fuel + 1) w c).oof = false ∧
      (run q body (fuel + 1) w c).collects = c.collects + closes c.depth w ∧
      c.eots + closes c.depth w ≤ (run q body (fuel + 1) w c).eots := by
  induction w generalizing c with
  | nil =>
    simp only [wellBracketed, beq_iff_eq] at hw
    obtain ⟨h1, h2, h3⟩ := hq hw
    simp [run_nil, quiescent, closes, hw, h1, h2, h3, ha, ho]
  | cons o w ih =>
    rw [run_cons]
    cases o with
    | enter =>
      simp only [wellBracketed] at hw
      have := ih (enter c) (by simpa [enter] using hw) (by simpa [enter] using ha)
        (by simpa [enter] using ho) (by simp [enter])
        (by simpa [enter] using hpreq) (by simpa [enter] using hpost)
        (by simpa [pushes] using hpush)
      simpa [step, closes, enter] using this
    | push a =>
      simp only [wellBracketed, Bool.and_eq_true, decide_eq_true_eq] at hw
      have hpush' : ∀ b ∈ pushes w, q b ≠ .prePost → rank b < fuel := fun b hb =>
        hpush b (by simp [pushes, hb])
      have hpa : q a ≠ .prePost → rank a < fuel := hpush a (by simp [pushes])
      have := ih (push q c a) (by rw [push_eq]; exact hw.2) (by rw [push_eq]; exact ha)
        (by rw [push_eq]; exact ho) (by rw [push_eq]; intro h; simp at h; omega)
        (by
          rw [push_eq]; intro b hb
          simp only [List.mem_append, mem_onQ, List.mem_singleton] at hb
          rcases hb with hb | ⟨rfl, hb⟩
          · exact hpreq b hb
          · exact hpa (by rw [hb]; decide))
        (by
          rw [push_eq]; intro b hb
          simp only [List.mem_append, mem_onQ, List.mem_singleton] at hb
          rcases hb with hb | ⟨rfl, hb⟩
          · exact hpost b hb
          · exact hpa (by rw [hb]; decide))
        hpush'
      rw [push_eq] at this
      rw [step, push_eq]
      simpa [closes] using this
    | leave =>
      simp only [wellBracketed, Bool.and_eq_true, decide_eq_true_eq] at hw
      by_cases hd : c.depth = 1
      · have hcl := leave_closed q body rank hbody fuel [] c hd (by simpa using hpreq)
          (by simpa using hpost)
        have := ih (closed q body [] fuel c) (by simpa [closed, hd] using hw.2)
          (by simpa [closed] using ha) (by simpa [closed] using ho) (by simp [closed])
          (by simp [closed]) (by simp [closed]) (by simpa [pushes] using hpush)
        rw [step, hcl]
        simp only [closed, ha, if_true, hd, closes, Nat.sub_self] at this ⊢
        refine ⟨this.1, this.2.1, ?_, ?_⟩
        · rw [this.2.2.1]; omega
        · have := this.2.2.2; omega
      · have h2 : 2 ≤ c.depth := by omega
        have := ih { c with depth := c.depth - 1 } (by simpa using hw.2) ha ho
          (by simp; omega) hpreq hpost (by simpa [pushes] using hpush)
        rw [step, leave_of_two_le q body [] fuel c h2]
        simpa [closes, hd] using this

/-! ### a concrete small instance, used by the `example`s next to the property theorems -/

/-- nested body: the deferred send `1 ↦ 5` clears the firing slot of the sink and commits hold 2 -/
def exBody (a : Act) : List Act :=
  if a = .deferredSend 1 5 then [.clearFiring 1, .commitHold 2] else []

def exRank : Act → Nat
  | .deferredSend .. => 1
  | .userPost _ => 1
  | _ => 0

theorem exBody_wf : ∀ a, ∀ b ∈ exBody a, exRank b < exRank a := by
  intro a b hb
  unfold exBody at hb
  split at hb
  · subst a
    simp only [List.mem_cons, List.not_mem_nil, or_false] at hb
    rcases hb with rfl | rfl <;> decide
  · simp at hb

/-- an open transaction at depth 1 with one closure on each queue -/
def exCtx : Ctx Act :=
  { depth := 1, preEot := [.catchUpHold 3], prePost := [.commitHold 7], post := [.deferredSend 1 5] }

/-- what its propagation pushes -/
def exUpd : List Act := [.clearFiring 0, .userPost 9, .onceDetach 4]

/-- a propagation during which a handler also builds a cell: the catch-up of hold 7 is a `pre_eot`
    closure pushed by the propagation -/
def exUpdPre : List Act := [.clearFiring 0, .catchUpHold 7, .userPost 9, .onceDetach 4]

/-- bodies in which `pre_eot` closures push as well: setting up switch 2 forces a mapping function
    that builds switch 3 (another `pre_eot` closure) and updates a node; setting up switch 3 posts a
    closure and updates a node; the posted closure 8 builds switch 5, whose set-up updates a node -/
def exBodyPre (a : Act) : List Act :=
  if a = .deferredSend 1 5 then [.clearFiring 1, .commitHold 2]
  else if a = .switchInit 2 then [.switchInit 3, .resetVisited 2]
  else if a = .switchInit 3 then [.userPost 6, .resetVisited 3]
  else if a = .userPost 8 then [.switchInit 5, .commitHold 8]
  else if a = .switchInit 5 then [.resetVisited 5, .userPost 6]
  else []

def exRankPre : Act → Nat
  | .userPost 8 => 4
  | .switchInit 2 => 3
  | .switchInit 3 => 2
  | .switchInit 5 => 2
  | .deferredSend .. => 1
  | .userPost _ => 1
  | _ => 0

theorem exBodyPre_wf : ∀ a, ∀ b ∈ exBodyPre a, exRankPre b < exRankPre a := by
  intro a b hb
  unfold exBodyPre at hb
  repeat' split at hb
  all_goals first
    | (simp at hb; done)
    | (subst a
       simp only [List.mem_cons, List.not_mem_nil, or_false] at hb
       rcases hb with rfl | rfl <;> decide)

/-! ### traces of post closures whose bodies push no further post closure -/

theorem onQ_onQ_of_ne (q : α → Queue) {k k' : Queue} (h : k' ≠ k) (l : List α) :
    onQ q k (onQ q k' l) = [] :=
  onQ_eq_nil_of_forall_ne (fun _ ha hk => h ((mem_onQ.mp ha).2.symm.trans hk))

/-- trace of a queue of post closures whose nested transactions queue no further post closure
    (neither the closure itself nor the `pre_eot` closures run at its close push one): each is
    followed by the `pre_eot` closures run in its own nested transaction and by its `pre_post`
    closures -/
theorem flatMap_trace_flat (q : α → Queue) (body : α → List α) (fuel : Nat) (l : List α)
    (hpos : l ≠ [] → 0 < fuel) (hflat : ∀ a ∈ l, onQ q .post (nested q body (fuel - 1) a) = []) :
    l.flatMap (trace q body fuel)
      = l.flatMap (fun a => a :: (preLog q body (fuel - 1) (onQ q .preEot (body a))
          ++ onQ q .prePost (nested q body (fuel - 1) a))) := by
  cases fuel with
  | zero =>
    cases l with
    | nil => rfl
    | cons a l => exact absurd (hpos (by simp)) (by omega)
  | succ n =>
    simp only [Nat.add_sub_cancel] at hflat ⊢
    induction l with
    | nil => rfl
    | cons a l ih =>
      rw [List.flatMap_cons, List.flatMap_cons, ih (fun _ => Nat.succ_pos n)
        (fun b hb => hflat b (List.mem_cons_of_mem _ hb)), trace_succ, hflat a List.mem_cons_self]
      simp

theorem sum_cnt_flat (q : α → Queue) (body : α → List α) (fuel : Nat) (l : List α)
    (hflat : ∀ a ∈ l, onQ q .post (nested q body (fuel - 1) a) = []) :
    (l.map (cnt q body fuel)).sum = l.length := by
  induction l with
  | nil => rfl
  | cons a l ih =>
    have h1 : cnt q body fuel a = 1 := by
      cases fuel with
      | zero => rfl
      | succ n =>
        have := hflat a List.mem_cons_self
        simp only [Nat.add_sub_cancel] at this
        rw [cnt_succ, this]; rfl
    rw [List.map_cons, List.sum_cons, ih (fun b hb => hflat b (List.mem_cons_of_mem _ hb)), h1,
      List.length_cons]
    omega

/-- filtered to the post closures, the flat trace is the queue itself -/
theorem onQ_post_flatMap_flat (q : α → Queue) (body : α → List α) (n : Nat) (l : List α)
    (htyped : ∀ a ∈ l, q a = .post) :
    onQ q .post (l.flatMap (fun a => a :: (preLog q body n (onQ q .preEot (body a))
        ++ onQ q .prePost (nested q body n a))))
      = l := by
  induction l with
  | nil => rfl
  | cons a l ih =>
    rw [List.flatMap_cons, onQ_append, ih (fun b hb => htyped b (List.mem_cons_of_mem _ hb)),
      onQ_cons, if_pos (htyped a List.mem_cons_self), onQ_append,
      onQ_preLog_onQ_of_ne q body n _ (by decide), onQ_onQ_of_ne q (by decide)]
    rfl
