/-
  `displayGraph`, and the cost of the three phases of a collection pass
  (`markRoots`, `scanRoots`, `collectRoots`) and of `onePass`.
-/
import SodiumVerif.Lemmas.GcCost2

set_option linter.unusedSimpArgs false

namespace SodiumVerif
namespace Gc
open State

/-! ### `displayGraph` -/

def dgW (seen : Store Bool) (i : Nat) : Nat := if seen.get i then 0 else 1
def dgE (nodes : Store GNode) (seen : Store Bool) (i : Nat) : Nat :=
  if seen.get i then 0 else (nodes.get i).traced.length

/-- `displayGraph` only counts: at most one `trace()` call per unseen object of `S`, at most one
    callback per edge leaving an unseen object of `S`; fuel `> stack + those edges` suffices. -/
structure DGPost (S : List Nat) (seen : Store Bool) (stack : List Nat) (fuel : Nat)
    (g g' : State) : Prop where
  nodes : g'.nodes = g.nodes
  nextId : g'.nextId = g.nextId
  roots : g'.roots = g.roots
  toBeFreed : g'.toBeFreed = g.toBeFreed
  dtorLog : g'.dtorLog = g.dtorLog
  panic : g'.panic = g.panic
  cost : g'.traceCalls ≤ g.traceCalls + (S.map (dgW seen)).sum
  tmono : g.traceCalls ≤ g'.traceCalls
  ecost : g'.edgeCalls ≤ g.edgeCalls + (S.map (dgE g.nodes seen)).sum
  oof : stack.length + (S.map (dgE g.nodes seen)).sum < fuel → g'.oof = g.oof

theorem displayGraph_cons (fuel next : Nat) (stack : List Nat) (seen : Store Bool) (g : State) :
    displayGraph (fuel + 1) (next :: stack) seen g =
      if seen.get next = true then displayGraph fuel stack seen g
      else displayGraph fuel ((g.nodes.get next).traced.reverse ++ stack) (seen.set next true)
        { g.tick with edgeCalls := g.edgeCalls + (g.nodes.get next).traced.length } := rfl

theorem DGPost.step {S : List Nat} (hS : S.Nodup) {seen : Store Bool} {next : Nat} {stack : List Nat}
    {fuel : Nat} {g g2 g' : State} (hn : next ∈ S) (hseen : seen.get next = false)
    (h : DGPost S (seen.set next true) ((g.nodes.get next).traced.reverse ++ stack) fuel g2 g')
    (c1 : g2.traceCalls = g.traceCalls + 1)
    (c2 : g2.edgeCalls = g.edgeCalls + (g.nodes.get next).traced.length)
    (c3 : g2.nodes = g.nodes) (c4 : g2.nextId = g.nextId) (c5 : g2.roots = g.roots)
    (c6 : g2.toBeFreed = g.toBeFreed) (c7 : g2.dtorLog = g.dtorLog) (c8 : g2.panic = g.panic)
    (c9 : g2.oof = g.oof) :
    DGPost S seen (next :: stack) (fuel + 1) g g' := by
  have e1 := sum_map_flip hS hn (f := dgW seen) (f' := dgW (seen.set next true))
    (by intro i hi; simp [dgW, Store.get_set, hi])
  have e2 := sum_map_flip hS hn (f := dgE g.nodes seen)
    (f' := dgE g.nodes (seen.set next true))
    (by intro i hi; simp [dgE, Store.get_set, hi])
  have a1 : dgW seen next = 1 := by simp [dgW, hseen]
  have a2 : dgW (seen.set next true) next = 0 := by simp [dgW]
  have a3 : dgE g.nodes seen next = (g.nodes.get next).traced.length := by simp [dgE, hseen]
  have a4 : dgE g.nodes (seen.set next true) next = 0 := by simp [dgE]
  have hcost := h.cost
  have hec := h.ecost
  have htm := h.tmono
  have hoof := h.oof
  rw [c3] at hec hoof
  refine ⟨h.nodes.trans c3, h.nextId.trans c4, h.roots.trans c5, h.toBeFreed.trans c6,
    h.dtorLog.trans c7, h.panic.trans c8, ?_, ?_, ?_, ?_⟩
  · omega
  · omega
  · omega
  · intro hlt
    rw [hoof (by
      simp only [List.length_cons, List.length_append, List.length_reverse] at hlt ⊢
      omega), c9]

theorem displayGraph_post {S : List Nat} (hS : S.Nodup) :
    ∀ (fuel : Nat) (stack : List Nat) (seen : Store Bool) (g : State),
      (∀ t ∈ stack, t ∈ S) → Closed g S →
      DGPost S seen stack fuel g (displayGraph fuel stack seen g) := by
  intro fuel
  induction fuel with
  | zero =>
    intro stack seen g _ _
    exact ⟨rfl, rfl, rfl, rfl, rfl, rfl, Nat.le_add_right _ _, Nat.le_refl _, Nat.le_add_right _ _,
      fun h => absurd h (Nat.not_lt_zero _)⟩
  | succ fuel ih =>
    intro stack seen g hst hc
    cases stack with
    | nil =>
      rw [displayGraph]
      exact ⟨rfl, rfl, rfl, rfl, rfl, rfl, Nat.le_add_right _ _, Nat.le_refl _,
        Nat.le_add_right _ _, fun _ => rfl⟩
    | cons next stack =>
      rw [displayGraph_cons]
      have hn : next ∈ S := hst next List.mem_cons_self
      have hst' : ∀ t ∈ stack, t ∈ S := fun t ht => hst t (List.mem_cons_of_mem _ ht)
      by_cases hseen : seen.get next = true
      · rw [if_pos hseen]
        have h := ih stack seen g hst' hc
        exact { h with oof := fun hlt => h.oof (by simp only [List.length_cons] at hlt; omega) }
      · rw [if_neg hseen]
        have hseen' : seen.get next = false := by simpa using hseen
        have hst2 : ∀ t ∈ (g.nodes.get next).traced.reverse ++ stack, t ∈ S := by
          intro t ht
          rcases List.mem_append.mp ht with h | h
          · exact hc next hn t (List.mem_reverse.mp h)
          · exact hst' t h
        exact DGPost.step hS hn hseen' (ih _ (seen.set next true) _ hst2 hc)
          rfl rfl rfl rfl rfl rfl rfl rfl rfl

/-! ### phases -/

/-- out-degree -/
def elen (x : GNode) : Nat := x.traced.length

theorem msum_le_mul {f f' : GNode → Nat} {c : Nat} (h : ∀ x, f x ≤ c * f' x) (S : List Nat)
    (g : State) : msum f S g ≤ c * msum f' S g := by
  unfold msum
  induction S with
  | nil => simp
  | cons a t ih =>
    have := h (g.nodes.get a)
    simp only [List.map_cons, List.sum_cons, Nat.mul_add]; omega

theorem totalEdges_frame {g g' : State} (h : Frame g g') : totalEdges g' = totalEdges g := by
  unfold totalEdges
  rw [h.nextId]
  congr 1; funext acc i; simp only [State.node]; rw [(h.node i).traced]

theorem walkFuel_frame {g g' : State} (h : Frame g g') : walkFuel g' = walkFuel g := by
  unfold walkFuel; rw [h.nextId]

theorem msum_elen_frame {g g' : State} (h : Frame g g') (S : List Nat) :
    msum elen S g' = msum elen S g :=
  msum_congr fun i => by unfold elen; rw [(h.node i).traced]

/-- a phase (or part of one) costs at most `c` `trace()` calls per object of `S` and `c` callbacks
    per edge of `S`, and does not run out of fuel when `S` fits below `nextId` -/
structure PhasePost (S : List Nat) (c : Nat) (g g' : State) : Prop where
  cost : g'.traceCalls ≤ g.traceCalls + c * S.length
  ecost : g'.edgeCalls ≤ g.edgeCalls + c * msum elen S g
  tmono : g.traceCalls ≤ g'.traceCalls
  frame : Frame g g'
  tbf : ∀ x ∈ g'.toBeFreed, x ∈ g.toBeFreed ∨ x ∈ S
  oof : 2 * S.length < walkFuel g → msum elen S g ≤ totalEdges g → g'.oof = g.oof

namespace PhasePost
variable {S : List Nat} {c c' : Nat} {g g' g'' : State}

theorem trans (h1 : PhasePost S c g g') (h2 : PhasePost S c' g' g'') :
    PhasePost S (c + c') g g'' where
  cost := by have := h1.cost; have := h2.cost; rw [Nat.add_mul]; omega
  ecost := by
    have := h1.ecost; have := h2.ecost; rw [msum_elen_frame h1.frame] at this
    rw [Nat.add_mul]; omega
  tmono := Nat.le_trans h1.tmono h2.tmono
  frame := h1.frame.trans h2.frame
  tbf := fun x hx => by
    rcases h2.tbf x hx with h | h
    · exact h1.tbf x h
    · exact Or.inr h
  oof := fun hf he => by
    rw [h2.oof (by rw [walkFuel_frame h1.frame]; exact hf)
      (by rw [msum_elen_frame h1.frame, totalEdges_frame h1.frame]; exact he), h1.oof hf he]

theorem weaken (h : PhasePost S c g g') (hcc : c ≤ c') : PhasePost S c' g g' :=
  { h with
    cost := Nat.le_trans h.cost (Nat.add_le_add_left (Nat.mul_le_mul_right _ hcc) _)
    ecost := Nat.le_trans h.ecost (Nat.add_le_add_left (Nat.mul_le_mul_right _ hcc) _) }

theorem setRoots (g : State) (r : List Nat) : PhasePost S 0 g { g with roots := r } :=
  ⟨Nat.le_add_right _ _, Nat.le_add_right _ _, Nat.le_refl _, Frame.of_nodes rfl rfl,
   fun _ h => Or.inl h, fun _ _ => rfl⟩

/-- a completed walk (or fold of walks) whose weights are at most `c ≤ 2` per object -/
theorem of_post {fμ fε : GNode → Nat} {n : Nat} (hc2 : c ≤ 2) (hμ : ∀ x, fμ x ≤ c)
    (hε : ∀ x, fε x ≤ c * elen x) (hn : walkFuel g = n) (h : Post fμ fε S n 0 g g') :
    PhasePost S c g g' where
  cost := by have := h.cost; have := msum_le hμ S g; omega
  ecost := by have := h.ecost; have := msum_le_mul hε S g; omega
  tmono := h.tmono
  frame := h.frame
  tbf := h.tbf
  oof := fun hf _ => h.oof (by
    have := msum_le hμ S g
    have : c * S.length ≤ 2 * S.length := Nat.mul_le_mul_right _ hc2
    omega)

end PhasePost

theorem foldl_add_eq_sum (f : Nat → Nat) (l : List Nat) (a : Nat) :
    l.foldl (fun acc i => acc + f i) a = a + (l.map f).sum := by
  induction l generalizing a with
  | nil => simp
  | cons b t ih => simp only [List.foldl_cons, List.map_cons, List.sum_cons, ih]; omega

/-- `displayGraph` as run by `markRoots` -/
theorem displayGraph_phase {S : List Nat} (hS : S.Nodup) (g : State) (stack : List Nat)
    (hst : ∀ t ∈ stack, t ∈ S) (hc : Closed g S) :
    PhasePost S 1 g (displayGraph (stack.length + totalEdges g + 1) stack Store.empty g) := by
  have h := displayGraph_post hS (stack.length + totalEdges g + 1) stack Store.empty g hst hc
  have e1 : (S.map (dgW Store.empty)).sum ≤ 1 * S.length :=
    sum_map_le_mul fun i => by simp [dgW]
  have e2 : (S.map (dgE g.nodes Store.empty)).sum = msum elen S g := by
    unfold msum; congr 1
  refine ⟨?_, ?_, h.tmono, Frame.of_nodes h.nodes h.nextId, ?_, ?_⟩
  · have := h.cost; omega
  · have := h.ecost; omega
  · intro x hx; rw [h.toBeFreed] at hx; exact Or.inl hx
  · intro _ he; exact h.oof (by omega)

/-! #### `markRoots` -/

/-- what `mark_roots` does for one buffered candidate -/
def mgRootStep (f : Nat) (gn : State × List Nat) (r : Nat) : State × List Nat :=
  if (gn.1.nodes.get r).color = .purple then (markGray f r gn.1, gn.2 ++ [r])
  else
    let g := gn.1.upd r fun x => { x with buffered := false }
    let x := g.node r
    if x.color = .black ∧ x.rc = 0 ∧ ¬ x.freed then
      ({ g with toBeFreed := g.toBeFreed ++ [r] }, gn.2)
    else (g, gn.2)

theorem markRoots_eq_c (g : State) :
    markRoots g =
      let g0 : State := { g with roots := [] }
      let g1 := displayGraph (g.roots.reverse.length + totalEdges g0 + 1) g.roots.reverse Store.empty g0
      let g2 := g.roots.foldl (fun g r => reset1 (walkFuel g1) r g) g1
      let g3 := g.roots.foldl (fun g r => reset2 (walkFuel g1) r g) g2
      let r4 := g.roots.foldl (mgRootStep (walkFuel g1)) (g3, [])
      { r4.1 with roots := r4.2 } := by
  simp only [List.length_reverse]
  rfl

theorem mgRootStep_post {S : List Nat} (hS : S.Nodup) (f : Nat) (gn : State × List Nat) (r : Nat)
    (hr : r ∈ S) (hc : Closed gn.1 S) :
    Post wNonGray eNonGray S f 0 gn.1 (mgRootStep f gn r).1 := by
  unfold mgRootStep
  by_cases hp : (gn.1.nodes.get r).color = .purple
  · rw [if_pos hp]; exact markGray_post hS f r gn.1 hr hc
  · rw [if_neg hp]
    have hf : Frame gn.1 (gn.1.upd r fun x => { x with buffered := false }) :=
      Frame.upd _ _ _ ⟨rfl, rfl, rfl, rfl, rfl⟩
    have hμ : ∀ i, wNonGray ((gn.1.upd r fun x => { x with buffered := false }).nodes.get i)
        = wNonGray (gn.1.nodes.get i) := by
      intro i; by_cases hi : i = r
      · subst hi; simp [State.upd, Store.get_set, wNonGray]
      · simp [State.upd, Store.get_set, hi]
    have hε : ∀ i, eNonGray ((gn.1.upd r fun x => { x with buffered := false }).nodes.get i)
        = eNonGray (gn.1.nodes.get i) := by
      intro i; by_cases hi : i = r
      · subst hi; simp [State.upd, Store.get_set, eNonGray]
      · simp [State.upd, Store.get_set, hi]
    have hs : ∀ tb : List Nat, (∀ x ∈ tb, x ∈ gn.1.toBeFreed ∨ x ∈ S) →
        Post wNonGray eNonGray S f 0 gn.1
          { (gn.1.upd r fun x => { x with buffered := false }) with toBeFreed := tb } :=
      fun tb htb => Post.simple hμ hε (hf.trans (Frame.of_nodes rfl rfl)) rfl rfl rfl rfl htb
    simp only []
    split
    · exact hs _ (fun x hx => by
        rcases List.mem_append.mp hx with h | h
        · exact Or.inl h
        · rw [List.mem_singleton.mp h]; exact Or.inr hr)
    · exact hs _ (fun x hx => Or.inl hx)

theorem mgRootStep_new (f : Nat) (gn : State × List Nat) (r : Nat) :
    ∀ x ∈ (mgRootStep f gn r).2, x ∈ gn.2 ∨ x = r := by
  intro x
  unfold mgRootStep
  by_cases hp : (gn.1.nodes.get r).color = .purple
  · rw [if_pos hp]; intro hx
    rcases List.mem_append.mp hx with h | h
    · exact Or.inl h
    · exact Or.inr (List.mem_singleton.mp h)
  · rw [if_neg hp]; simp only []; split <;> exact fun hx => Or.inl hx

/-- folding one walk over all candidates costs no more than one walk over `S` -/
theorem rootFold_phase {S : List Nat} {fμ fε : GNode → Nat} {c : Nat} (hc2 : c ≤ 2)
    (hμ : ∀ x, fμ x ≤ c) (hε : ∀ x, fε x ≤ c * elen x) (walk : Nat → Nat → State → State)
    (hwalk : ∀ f r g, r ∈ S → Closed g S → Post fμ fε S f 0 g (walk f r g))
    (l : List Nat) (hl : ∀ r ∈ l, r ∈ S) (g : State) (hc : Closed g S) (f : Nat)
    (hf : walkFuel g = f) :
    PhasePost S c g (l.foldl (fun g r => walk f r g) g) := by
  have h := Post.foldl (fμ := fμ) (fε := fε) (S := S) (n := f) (fun g : State => g)
    (fun g r => walk f r g) 0 (fun a t ht hca => hwalk f t a ht hca) l g hl hc
  rw [Nat.zero_mul] at h
  exact PhasePost.of_post hc2 hμ hε hf h

theorem wUnvis_le (x : GNode) : wUnvis x ≤ 1 := by unfold wUnvis; split <;> omega
theorem eUnvis_le (x : GNode) : eUnvis x ≤ 1 * elen x := by unfold eUnvis elen; split <;> omega
theorem wVis_le (x : GNode) : wVis x ≤ 1 := by unfold wVis; split <;> omega
theorem eVis_le (x : GNode) : eVis x ≤ 1 * elen x := by unfold eVis elen; split <;> omega
theorem wNonGray_le (x : GNode) : wNonGray x ≤ 1 := by unfold wNonGray; split <;> omega
theorem eNonGray_le (x : GNode) : eNonGray x ≤ 1 * elen x := by
  unfold eNonGray elen; split <;> omega
theorem wWhite_le (x : GNode) : wWhite x ≤ 1 := by unfold wWhite; split <;> omega
theorem eWhite_le (x : GNode) : eWhite x ≤ 1 * elen x := by unfold eWhite elen; split <;> omega
theorem wScan_le (x : GNode) : wScan x ≤ 2 := by unfold wScan; split <;> split <;> omega
theorem eScan_le (x : GNode) : eScan x ≤ 2 * elen x := by
  unfold eScan elen; split <;> split <;> omega

theorem markRoots_phase {S : List Nat} (hS : S.Nodup) (g : State) (hr : ∀ r ∈ g.roots, r ∈ S)
    (hc : Closed g S) :
    PhasePost S 4 g (markRoots g) ∧ (∀ r ∈ (markRoots g).roots, r ∈ g.roots) := by
  rw [markRoots_eq_c]
  simp only []
  generalize hg0 : ({ g with roots := [] } : State) = g0
  have h0 : PhasePost S 0 g g0 := by rw [← hg0]; exact PhasePost.setRoots g []
  have hc0 : Closed g0 S := hc.of_same h0.frame.same
  generalize hg1 : displayGraph (g.roots.reverse.length + totalEdges g0 + 1) g.roots.reverse
    Store.empty g0 = g1
  have h1 : PhasePost S 1 g0 g1 := by
    rw [← hg1]
    exact displayGraph_phase hS g0 g.roots.reverse (fun t ht => hr t (List.mem_reverse.mp ht)) hc0
  have hc1 : Closed g1 S := hc0.of_same h1.frame.same
  generalize hf : walkFuel g1 = f
  generalize hg2 : g.roots.foldl (fun g r => reset1 f r g) g1 = g2
  have h2 : PhasePost S 1 g1 g2 := by
    rw [← hg2]
    exact rootFold_phase (by decide) wUnvis_le eUnvis_le reset1
      (fun f r g hr hc => reset1_post hS f r g hr hc) g.roots hr g1 hc1 f hf
  have hc2 : Closed g2 S := hc1.of_same h2.frame.same
  have hf2 : walkFuel g2 = f := by rw [walkFuel_frame h2.frame, hf]
  generalize hg3 : g.roots.foldl (fun g r => reset2 f r g) g2 = g3
  have h3 : PhasePost S 1 g2 g3 := by
    rw [← hg3]
    exact rootFold_phase (by decide) wVis_le eVis_le reset2
      (fun f r g hr hc => reset2_post hS f r g hr hc) g.roots hr g2 hc2 f hf2
  have hc3 : Closed g3 S := hc2.of_same h3.frame.same
  have hf3 : walkFuel g3 = f := by rw [walkFuel_frame h3.frame, hf2]
  have h4 := Post.foldlJ (fμ := wNonGray) (fε := eNonGray) (S := S) (n := f)
    (fun gn : State × List Nat => gn.1) (fun gn => ∀ x ∈ gn.2, x ∈ g.roots)
    (mgRootStep f) 0 g.roots
    (fun a t htl ht hca hj => ⟨mgRootStep_post hS f a t ht hca, fun x hx => by
      rcases mgRootStep_new f a t x hx with h | h
      · exact hj x h
      · exact h ▸ htl⟩)
    (g3, []) hr hc3 (fun x hx => by cases hx)
  rw [Nat.zero_mul] at h4
  generalize g.roots.foldl (mgRootStep f) (g3, []) = r4 at h4
  have h4' : PhasePost S 1 g3 r4.1 :=
    PhasePost.of_post (by decide) wNonGray_le eNonGray_le hf3 h4.1
  have h5 : PhasePost S 0 r4.1 { r4.1 with roots := r4.2 } := PhasePost.setRoots _ _
  exact ⟨((((h0.trans h1).trans h2).trans h3).trans h4').trans h5, h4.2⟩

/-! #### `scanRoots` -/

theorem scanRoots_eq_c (g : State) :
    scanRoots g =
      let g0 : State := { g with roots := [] }
      let g1 := g.roots.foldl (fun g r => scan (walkFuel g0) r g) g0
      let g2 := g.roots.foldl (fun g r => reset1 (walkFuel g0) r g) g1
      let g3 := g.roots.foldl (fun g r => reset2 (walkFuel g0) r g) g2
      { g3 with roots := g.roots } := rfl

theorem scanRoots_phase {S : List Nat} (hS : S.Nodup) (g : State) (hr : ∀ r ∈ g.roots, r ∈ S)
    (hc : Closed g S) :
    PhasePost S 4 g (scanRoots g) ∧ (scanRoots g).roots = g.roots := by
  rw [scanRoots_eq_c]
  simp only []
  generalize hg0 : ({ g with roots := [] } : State) = g0
  have h0 : PhasePost S 0 g g0 := by rw [← hg0]; exact PhasePost.setRoots g []
  have hc0 : Closed g0 S := hc.of_same h0.frame.same
  generalize hf : walkFuel g0 = f
  generalize hg1 : g.roots.foldl (fun g r => scan f r g) g0 = g1
  have h1 : PhasePost S 2 g0 g1 := by
    rw [← hg1]
    exact rootFold_phase (by decide) wScan_le eScan_le scan
      (fun f r g hr hc => scan_post hS f r g hr hc) g.roots hr g0 hc0 f hf
  have hc1 : Closed g1 S := hc0.of_same h1.frame.same
  have hf1 : walkFuel g1 = f := by rw [walkFuel_frame h1.frame, hf]
  generalize hg2 : g.roots.foldl (fun g r => reset1 f r g) g1 = g2
  have h2 : PhasePost S 1 g1 g2 := by
    rw [← hg2]
    exact rootFold_phase (by decide) wUnvis_le eUnvis_le reset1
      (fun f r g hr hc => reset1_post hS f r g hr hc) g.roots hr g1 hc1 f hf1
  have hc2 : Closed g2 S := hc1.of_same h2.frame.same
  have hf2 : walkFuel g2 = f := by rw [walkFuel_frame h2.frame, hf1]
  generalize hg3 : g.roots.foldl (fun g r => reset2 f r g) g2 = g3
  have h3 : PhasePost S 1 g2 g3 := by
    rw [← hg3]
    exact rootFold_phase (by decide) wVis_le eVis_le reset2
      (fun f r g hr hc => reset2_post hS f r g hr hc) g.roots hr g2 hc2 f hf2
  have h5 : PhasePost S 0 g3 { g3 with roots := g.roots } := PhasePost.setRoots _ _
  exact ⟨(((h0.trans h1).trans h2).trans h3).trans h5, trivial⟩

/-! #### `collectRoots` -/

/-- steps that make no `trace()` call, no callback, and use no fuel -/
structure Quiet (g g' : State) : Prop where
  traceCalls : g'.traceCalls = g.traceCalls
  edgeCalls : g'.edgeCalls = g.edgeCalls
  oof : g'.oof = g.oof
  nextId : g'.nextId = g.nextId

theorem Quiet.refl (g : State) : Quiet g g := ⟨rfl, rfl, rfl, rfl⟩
theorem Quiet.trans {a b c : State} (h1 : Quiet a b) (h2 : Quiet b c) : Quiet a c :=
  ⟨h2.traceCalls.trans h1.traceCalls, h2.edgeCalls.trans h1.edgeCalls, h2.oof.trans h1.oof,
   h2.nextId.trans h1.nextId⟩

theorem Quiet.foldl {α : Type} (step : State → α → State) (hstep : ∀ g a, Quiet g (step g a)) :
    ∀ (l : List α) (g : State), Quiet g (l.foldl step g) := by
  intro l
  induction l with
  | nil => intro g; exact Quiet.refl g
  | cons a t ih => intro g; exact (hstep g a).trans (ih (step g a))

theorem setPanic_quiet (g : State) (p : Panic) : Quiet g (g.setPanic p) :=
  ⟨by simp, by simp, by simp, by simp⟩

theorem possibleRoot_quiet (g : State) (n : Nat) : Quiet g (possibleRoot g n) := by
  unfold possibleRoot
  split
  · simp only []; split <;> exact ⟨rfl, rfl, rfl, rfl⟩
  · exact Quiet.refl g

theorem decRef_quiet (g : State) (n : Nat) : Quiet g (decRef g n) := by
  unfold decRef
  split
  · exact Quiet.refl g
  · refine Quiet.trans ?_ (possibleRoot_quiet (g.upd n fun x => { x with rc := x.rc - 1 }) n)
    exact ⟨rfl, rfl, rfl, rfl⟩

theorem free_eq_c (g : State) (n : Nat) :
    free g n = if (g.nodes.get n).dtorRuns = 0 then
      (g.nodes.get n).owned.foldl decRef
        { ((g.upd n fun x => { x with freed := true }).upd n fun x =>
            { x with dtorRuns := x.dtorRuns + 1, traced := [], owned := [] }) with
          dtorLog := g.dtorLog ++ [n] }
    else (g.upd n fun x => { x with freed := true }).upd n fun x => { x with traced := [] } := rfl

theorem free_quiet (g : State) (n : Nat) : Quiet g (free g n) := by
  rw [free_eq_c]
  split
  · refine Quiet.trans ?_ (Quiet.foldl decRef decRef_quiet _ _)
    exact ⟨rfl, rfl, rfl, rfl⟩
  · exact ⟨rfl, rfl, rfl, rfl⟩

theorem freeCollected_quiet (g : State) (i : Nat) : Quiet g (freeCollected g i) := by
  unfold freeCollected
  split
  · refine Quiet.trans (free_quiet g i) ?_
    exact ⟨rfl, rfl, rfl, rfl⟩
  · exact Quiet.refl g

theorem checkZero_quiet (g : State) (l : List Nat) : Quiet g (checkZero g l) := by
  unfold checkZero
  apply Quiet.foldl
  intro g i
  split
  · exact setPanic_quiet g _
  · exact Quiet.refl g

/-- what `collect_roots` does for one buffered candidate -/
def cwRootStep (f : Nat) (gw : State × List Nat) (r : Nat) : State × List Nat :=
  collectWhite f r (gw.1.upd r fun x => { x with buffered := false }, gw.2)

theorem collectRoots_eq_c (g : State) :
    collectRoots g =
      let g0 : State := { g with roots := [] }
      let r1 := g.roots.foldl (cwRootStep (walkFuel g0)) (g0, [])
      let g2 := r1.2.foldl freeCollected r1.1
      let g4 := g2.toBeFreed.foldl freeCollected { g2 with toBeFreed := [] }
      checkZero (checkZero g4 r1.2) g2.toBeFreed := rfl

theorem cwRootStep_post {S : List Nat} (hS : S.Nodup) (f : Nat) (gw : State × List Nat) (r : Nat)
    (hr : r ∈ S) (hc : Closed gw.1 S) :
    Post wWhite eWhite S f 0 gw.1 (cwRootStep f gw r).1 ∧
      (∀ x ∈ (cwRootStep f gw r).2, x ∈ gw.2 ∨ x ∈ S) := by
  unfold cwRootStep
  have hf : Frame gw.1 (gw.1.upd r fun x => { x with buffered := false }) :=
    Frame.upd _ _ _ ⟨rfl, rfl, rfl, rfl, rfl⟩
  have hμ : ∀ i, wWhite ((gw.1.upd r fun x => { x with buffered := false }).nodes.get i)
      = wWhite (gw.1.nodes.get i) := by
    intro i; by_cases hi : i = r
    · subst hi; simp [State.upd, Store.get_set, wWhite]
    · simp [State.upd, Store.get_set, hi]
  have hε : ∀ i, eWhite ((gw.1.upd r fun x => { x with buffered := false }).nodes.get i)
      = eWhite (gw.1.nodes.get i) := by
    intro i; by_cases hi : i = r
    · subst hi; simp [State.upd, Store.get_set, eWhite]
    · simp [State.upd, Store.get_set, hi]
  have h1 : Post wWhite eWhite S f 0 gw.1 (gw.1.upd r fun x => { x with buffered := false }) :=
    Post.simple hμ hε hf rfl rfl rfl rfl (fun x hx => Or.inl hx)
  have h2 := collectWhite_post hS f r
    (gw.1.upd r fun x => { x with buffered := false }, gw.2) hr (hc.of_same hf.same)
  exact ⟨Post.trans h1 h2.1, h2.2⟩

/-- the `collectWhite` part of `collect_roots`, with the collected list inside `S` -/
theorem collectRoots_white {S : List Nat} (hS : S.Nodup) (g : State) (l : List Nat)
    (hl : ∀ r ∈ l, r ∈ S) (hc : Closed g S) (f : Nat) (hf : walkFuel g = f) :
    PhasePost S 1 g (l.foldl (cwRootStep f) (g, [])).1 ∧
      (∀ x ∈ (l.foldl (cwRootStep f) (g, [])).2, x ∈ S) ∧
      (l.foldl (cwRootStep f) (g, [])).1.roots = g.roots := by
  have h := Post.foldlJ (fμ := wWhite) (fε := eWhite) (S := S) (n := f)
    (fun gw : State × List Nat => gw.1) (fun gw => ∀ x ∈ gw.2, x ∈ S)
    (cwRootStep f) 0 l
    (fun a t _ ht hca hj => by
      have h := cwRootStep_post hS f a t ht hca
      refine ⟨h.1, fun x hx => ?_⟩
      rcases h.2 x hx with h' | h'
      · exact hj x h'
      · exact h')
    (g, []) hl hc (fun x hx => by cases hx)
  rw [Nat.zero_mul] at h
  exact ⟨PhasePost.of_post (by decide) wWhite_le eWhite_le hf h.1, h.2, h.1.roots⟩

theorem collectRoots_trace_calls_le {S : List Nat} (hS : S.Nodup) (g : State)
    (hr : ∀ r ∈ g.roots, r ∈ S) (hc : Closed g S) :
    (collectRoots g).traceCalls ≤ g.traceCalls + S.length ∧
    (collectRoots g).edgeCalls ≤ g.edgeCalls + msum elen S g ∧
    (2 * S.length < walkFuel g → msum elen S g ≤ totalEdges g → (collectRoots g).oof = g.oof) := by
  rw [collectRoots_eq_c]
  simp only []
  have h1 := (collectRoots_white hS { g with roots := [] } g.roots hr hc _ rfl).1
  generalize g.roots.foldl (cwRootStep (walkFuel { g with roots := [] })) ({ g with roots := [] }, [])
    = r1 at h1 ⊢
  have q2 := Quiet.foldl freeCollected freeCollected_quiet r1.2 r1.1
  generalize r1.2.foldl freeCollected r1.1 = g2 at q2 ⊢
  have q3 : Quiet g2 { g2 with toBeFreed := [] } := ⟨rfl, rfl, rfl, rfl⟩
  have q4 := Quiet.foldl freeCollected freeCollected_quiet g2.toBeFreed { g2 with toBeFreed := [] }
  generalize g2.toBeFreed.foldl freeCollected { g2 with toBeFreed := [] } = g4 at q4 ⊢
  have q5 := checkZero_quiet g4 r1.2
  have q6 := checkZero_quiet (checkZero g4 r1.2) g2.toBeFreed
  have q := (((q2.trans q3).trans q4).trans q5).trans q6
  have c1 := h1.cost
  have c2 := h1.ecost
  have e1 : ({ g with roots := [] } : State).traceCalls = g.traceCalls := rfl
  have e2 : ({ g with roots := [] } : State).edgeCalls = g.edgeCalls := rfl
  have e3 : msum elen S ({ g with roots := [] } : State) = msum elen S g := rfl
  rw [q.traceCalls, q.edgeCalls, q.oof]
  exact ⟨by omega, by omega, fun hf he => h1.oof hf he⟩

/-! #### one pass -/

theorem onePass_cost {S : List Nat} (hS : S.Nodup) (g : State) (hr : ∀ r ∈ g.roots, r ∈ S)
    (hc : Closed g S) :
    (onePass g).traceCalls ≤ g.traceCalls + 9 * S.length ∧
    (onePass g).edgeCalls ≤ g.edgeCalls + 9 * msum elen S g := by
  unfold onePass
  have h1 := markRoots_phase hS g hr hc
  have hc1 : Closed (markRoots g) S := hc.of_same h1.1.frame.same
  have hr1 : ∀ r ∈ (markRoots g).roots, r ∈ S := fun r h => hr r (h1.2 r h)
  have h2 := scanRoots_phase hS (markRoots g) hr1 hc1
  have hc2 : Closed (scanRoots (markRoots g)) S := hc1.of_same h2.1.frame.same
  have hr2 : ∀ r ∈ (scanRoots (markRoots g)).roots, r ∈ S := by rw [h2.2]; exact hr1
  have h3 := collectRoots_trace_calls_le hS (scanRoots (markRoots g)) hr2 hc2
  have := h3.1; have := h3.2.1
  have := h1.1.cost; have := h2.1.cost; have := h1.1.ecost; have := h2.1.ecost
  have e1 := msum_elen_frame h1.1.frame S
  have e2 := msum_elen_frame h2.1.frame S
  omega

end Gc
end SodiumVerif
