/-
  Helper lemmas for `Props/StructMem.lean`: every function of `Model/Struct.lean` that touches the
  collector state does so through `GcScript.apply` with a contract-respecting operation, so the
  state stays `GcScript.Reachable`; and the plain drops of `zeroAll` bring every handle count to 0.
-/
import SodiumVerif.Model.Struct
import SodiumVerif.Props.C07

namespace SodiumVerif
namespace Struct
open GcScript Gc

/-! ### generic -/

theorem foldl_preserves {α β : Type} {P : β → Prop} {f : β → α → β}
    (hf : ∀ b a, P b → P (f b a)) : ∀ (l : List α) (b : β), P b → P (l.foldl f b) := by
  intro l
  induction l with
  | nil => intro b h; exact h
  | cons a r ih => intro b h; exact ih (f b a) (hf b a h)

/-! ### one operation -/

/-- a good operation applied in a reachable state gives a reachable state: the fuel side condition
    of `Reachable.step` always holds -/
theorem reach_apply {s s' : St} {o : Op} (h : Reachable s) (ho : o.good)
    (ha : apply s o = some s') : Reachable s' :=
  .step h ho (fun _ => by
    rw [collectCycles_terminates s.g (script_complete h).inv.bounded]; exact reachable_oof h) ha

theorem reach_applyE {x : GcScript.St × Bool} {o : Op} (h : Reachable x.1) (ho : o.good) :
    Reachable (applyE x o).1 := by
  unfold applyE
  cases ha : apply x.1 o with
  | none => exact h
  | some gs => exact reach_apply h ho ha

theorem GOp.toOp_good (o : GOp) : o.toOp.good := by
  cases o <;> exact trivial

/-! ### the cascade -/

theorem reach_release (lazyKind : Nat → Bool) :
    ∀ (fuel : Nat) (x : GcScript.St × Bool) (work : List Nat),
      Reachable x.1 → Reachable (release lazyKind fuel x work).1 := by
  intro fuel
  induction fuel with
  | zero => intro x work h; exact h
  | succ fuel ih =>
    intro x work h
    cases work with
    | nil => exact h
    | cons a rest =>
      unfold release
      dsimp only
      split
      · refine ih _ _ (reach_applyE (o := .dec a) ?_ trivial)
        exact foldl_preserves (P := fun x : GcScript.St × Bool => Reachable x.1)
          (fun x b hx => reach_applyE (o := .unedge a b)
            (reach_applyE (o := .deref a b) hx trivial) trivial) _ x h
      · exact ih _ _ (reach_applyE (o := .dec a) h trivial)

theorem reach_dropHandle (kinds : Array String) (x : GcScript.St × Bool) (a : Nat)
    (h : Reachable x.1) : Reachable (dropHandle kinds x a).1 :=
  reach_release _ _ _ _ h

theorem reach_runOp (kinds : Array String) (depth : Nat) (x : GcScript.St × Bool) (o : GOp)
    (h : Reachable x.1) : Reachable (runOp kinds depth x o).1 := by
  cases o with
  | eot =>
    show Reachable (if depth = 0 then applyE x .collect else x).1
    split
    · exact reach_applyE (o := .collect) h trivial
    · exact h
  | dec a => exact reach_dropHandle _ _ _ h
  | cut a b =>
    exact reach_dropHandle _ _ _ (reach_applyE (o := .unedge a b)
      (reach_applyE (o := .deref a b) h trivial) trivial)
  | new k => exact reach_applyE (o := .new) h trivial
  | inc a => exact reach_applyE (o := .inc a) h trivial
  | edge a b => exact reach_applyE (o := .edge a b) h trivial
  | unedge a b => exact reach_applyE (o := .unedge a b) h trivial
  | deref a b => exact reach_applyE (o := .deref a b) h trivial
  | collect => exact reach_applyE (o := .collect) h trivial
  | sdeps n ds => exact reach_applyE (o := .dump) h trivial
  | sadd n d => exact reach_applyE (o := .dump) h trivial
  | hold a b => exact reach_applyE (o := .dump) h trivial
  | unhold a b => exact reach_applyE (o := .dump) h trivial
  | unholdAll a => exact reach_applyE (o := .dump) h trivial

theorem reach_runOps (kinds : Array String) (depth : Nat) (l : List GOp)
    (x : GcScript.St × Bool) (h : Reachable x.1) :
    Reachable (l.foldl (runOp kinds depth) x).1 :=
  foldl_preserves (P := fun x : GcScript.St × Bool => Reachable x.1)
    (fun x o hx => reach_runOp kinds depth x o hx) l x h

/-! ### handles owned by Rust values (`held`): still only drops and collections -/

/-- letting go of what dead owners held is a sequence of `dropHandle`s -/
theorem reach_sweep (kinds : Array String) :
    ∀ (fuel : Nat) (y : HSt), Reachable y.1.1 → Reachable (sweep kinds fuel y).1.1 := by
  intro fuel
  induction fuel with
  | zero => intro y h; unfold sweep; exact h
  | succ fuel ih =>
    intro y h
    obtain ⟨x, held⟩ := y
    unfold sweep
    split
    · exact h
    · exact ih _ (reach_dropHandle _ _ _ h)

/-- a collection that goes on while freed owners let go of what they held: collections and sweeps -/
theorem reach_collectLoop (kinds : Array String) :
    ∀ (fuel : Nat) (y : HSt), Reachable y.1.1 → Reachable (collectLoop kinds fuel y).1.1 := by
  intro fuel
  induction fuel with
  | zero => intro y h; unfold collectLoop; exact h
  | succ fuel ih =>
    intro y h
    unfold collectLoop
    have h' : Reachable (sweep kinds (y.2.length + 1) (applyE y.1 .collect, y.2)).1.1 :=
      reach_sweep kinds _ _ (reach_applyE (o := .collect) h trivial)
    dsimp only
    split
    · exact h'
    · exact ih _ h'

theorem reach_runOpH (kinds : Array String) (depth : Nat) (y : HSt) (o : GOp)
    (h : Reachable y.1.1) : Reachable (runOpH kinds depth y o).1.1 := by
  have hs : ∀ o : GOp, Reachable
      (sweep kinds (y.2.length + 1) (runOp kinds depth y.1 o, y.2)).1.1 :=
    fun o => reach_sweep kinds _ _ (reach_runOp kinds depth y.1 o h)
  cases o with
  | hold a b => exact h
  | unhold a b =>
    show Reachable (if y.2.contains (a, b) then
      sweep kinds (y.2.length + 1) (dropHandle kinds y.1 b, y.2.erase (a, b)) else y).1.1
    split
    · exact reach_sweep kinds _ _ (reach_dropHandle _ _ _ h)
    · exact h
  | unholdAll a =>
    refine reach_sweep kinds _ _ ?_
    exact foldl_preserves (P := fun x : GcScript.St × Bool => Reachable x.1)
      (fun x ot hx => reach_dropHandle kinds x ot.2 hx) _ y.1 h
  | collect => exact reach_collectLoop kinds _ y h
  | eot =>
    show Reachable (if depth = 0 then collectLoop kinds (y.2.length + 1) y else y).1.1
    split
    · exact reach_collectLoop kinds _ y h
    · exact h
  | dec a => exact hs _
  | cut a b => exact hs _
  | new k => exact hs _
  | inc a => exact hs _
  | edge a b => exact hs _
  | unedge a b => exact hs _
  | deref a b => exact hs _
  | sdeps n ds => exact hs _
  | sadd n d => exact hs _

theorem reach_runOpsH (kinds : Array String) (depth : Nat) (l : List GOp)
    (y : HSt) (h : Reachable y.1.1) :
    Reachable (l.foldl (runOpH kinds depth) y).1.1 :=
  foldl_preserves (P := fun y : HSt => Reachable y.1.1)
    (fun y o hy => reach_runOpH kinds depth y o hy) l y h

theorem reach_runG (p : PSt) (l : List GOp) (h : Reachable p.gs) : Reachable (runG p l).gs :=
  reach_runOpsH _ _ l ((p.gs, p.err), p.held) h

/-! ### the rewiring of the switches -/

theorem reach_rewire (kinds : Array String) (hints : List (Nat × Int)) (y : HSt)
    (r : SwRec) (h : Reachable y.1.1) : Reachable (rewire kinds hints y r).1.1.1 := by
  unfold rewire
  dsimp only
  split
  · exact h
  · split
    · split
      · exact h
      · exact reach_runOpsH _ _ _ y h
    · exact h

theorem reach_rewireAll (p : PSt) (h : Reachable p.gs) : Reachable (rewireAll p).gs := by
  unfold rewireAll
  exact foldl_preserves (P := fun acc : HSt × List SwRec => Reachable acc.1.1.1)
    (fun acc r hacc => reach_rewire p.kinds p.hints acc.1 r hacc) p.sw
    (((p.gs, p.err), p.held), []) h

/-! ### the detachment of the `once` nodes that have fired -/

theorem reach_detachAll (p : PSt) (h : Reachable p.gs) : Reachable (detachAll p).gs := by
  unfold detachAll
  refine foldl_preserves (P := fun acc : HSt × List (Nat × Nat × Nat) => Reachable acc.1.1.1)
    ?_ p.onces (((p.gs, p.err), p.held), []) h
  intro acc o hacc
  dsimp only
  split
  · exact hacc
  · split
    · exact hacc
    · split
      · exact reach_runOpsH _ _ _ acc.1 hacc
      · exact hacc

/-! ### with no handle owned by a value, `runOpH` is `runOp` -/

/-- an operation that does not touch `held` -/
def GOp.plain : GOp → Bool
  | .hold _ _ | .unhold _ _ | .unholdAll _ => false
  | _ => true

theorem sweep_nil (kinds : Array String) (fuel : Nat) (x : GcScript.St × Bool) :
    sweep kinds fuel (x, []) = (x, []) := by
  cases fuel <;> simp [sweep]

theorem collectLoop_nil (kinds : Array String) (fuel : Nat) (x : GcScript.St × Bool) :
    collectLoop kinds (fuel + 1) (x, []) = (applyE x .collect, []) := by
  simp [collectLoop, sweep_nil]

theorem runOpH_nil (kinds : Array String) (depth : Nat) (x : GcScript.St × Bool) (o : GOp)
    (ho : o.plain = true) : runOpH kinds depth (x, []) o = (runOp kinds depth x o, []) := by
  cases o with
  | hold a b => simp [GOp.plain] at ho
  | unhold a b => simp [GOp.plain] at ho
  | unholdAll a => simp [GOp.plain] at ho
  | collect => exact collectLoop_nil kinds 0 x
  | eot =>
    show (if depth = 0 then collectLoop kinds ([] : List (Nat × Nat)).length.succ (x, []) else (x, [])) =
      (if depth = 0 then applyE x .collect else x, [])
    split
    · exact collectLoop_nil kinds 0 x
    · rfl
  | dec a => exact sweep_nil kinds _ _
  | cut a b => exact sweep_nil kinds _ _
  | new k => exact sweep_nil kinds _ _
  | inc a => exact sweep_nil kinds _ _
  | edge a b => exact sweep_nil kinds _ _
  | unedge a b => exact sweep_nil kinds _ _
  | deref a b => exact sweep_nil kinds _ _
  | sdeps n ds => exact sweep_nil kinds _ _
  | sadd n d => exact sweep_nil kinds _ _

theorem runOpsH_nil (kinds : Array String) (depth : Nat) : ∀ (l : List GOp) (x : GcScript.St × Bool),
    (∀ o ∈ l, o.plain = true) →
    l.foldl (runOpH kinds depth) (x, []) = (l.foldl (runOp kinds depth) x, []) := by
  intro l
  induction l with
  | nil => intro x _; rfl
  | cons o r ih =>
    intro x hl
    rw [List.foldl_cons, List.foldl_cons, runOpH_nil kinds depth x o (hl o List.mem_cons_self)]
    exact ih _ (fun o' ho' => hl o' (List.mem_cons_of_mem _ ho'))

/-- with no handle owned by a value and operations that create none, `runG` is the fold of `runOp` it was before
    `held` existed, and `held` stays empty -/
theorem runG_nil (p : PSt) (l : List GOp) (hh : p.held = []) (hl : ∀ o ∈ l, o.plain = true) :
    runG p l =
      let kinds := l.foldl (fun k o => match o with | .new kd => k.push kd | _ => k) p.kinds
      let x := l.foldl (runOp kinds p.depth) (p.gs, p.err)
      { p with gs := x.1, err := x.2, kinds := kinds, held := [] } := by
  unfold runG
  dsimp only
  rw [hh, runOpsH_nil _ _ l _ hl]
  rfl

theorem leakOps_plain (p : PSt) : ∀ o ∈ leakOps p, o.plain = true := by
  intro o ho
  unfold leakOps at ho
  simp only [List.mem_flatMap] at ho
  obtain ⟨⟨nm, v⟩, hm, hv⟩ := ho
  clear hm
  dsimp only at hv
  split at hv
  · rename_i li n strong
    cases strong
    · simp at hv; rw [hv]; rfl
    · simp at hv; rcases hv with hv | hv <;> rw [hv] <;> rfl
  · simp at hv

/-- `leakcheck` as it is when no Rust value owns a handle (the `else` branch of `leakStep`): drop everything but the
    rooted listeners, collect -/
def leakStep0 (p : PSt) : PSt × List Nat :=
  let p := runG p (leakOps p)
  let keep := p.env.filterMap fun (_, v) => match v with | .rooted li => some li | _ => none
  let x := dropAll p.kinds keep (p.gs, p.err)
  let x := applyE (zeroAll keep x.1, x.2) .collect
  ({ p with gs := x.1, err := x.2, env := [] }, keep)

theorem leakStep_of_held_nil (p : PSt) (hh : p.held = []) : leakStep p = leakStep0 p := by
  unfold leakStep
  rw [if_neg (by simp [hh])]
  rfl

theorem leakStep_of_held_ne (p : PSt) (hh : p.held ≠ []) : leakStep p = leakStepH p := by
  unfold leakStep
  rw [if_pos (by simpa using hh)]

theorem runG_leakOps_held_nil (p : PSt) (hh : p.held = []) : (runG p (leakOps p)).held = [] := by
  rw [runG_nil p _ hh (leakOps_plain p)]

theorem reach_ite {c : Prop} [Decidable c] {a b : PSt} (ha : Reachable a.gs)
    (hb : Reachable b.gs) : Reachable (if c then a else b).gs := by
  split
  · exact ha
  · exact hb

theorem reach_dropAll (kinds : Array String) (keep : List Nat) (x : GcScript.St × Bool)
    (h : Reachable x.1) : Reachable (dropAll kinds keep x).1 := by
  unfold dropAll
  refine foldl_preserves (P := fun x : GcScript.St × Bool => Reachable x.1) ?_ _ x h
  intro x a hx
  exact foldl_preserves (P := fun x : GcScript.St × Bool => Reachable x.1)
    (fun x _ hx => reach_dropHandle kinds x a hx) _ x hx

theorem reach_leakStepH (p : PSt) (h : Reachable p.gs) : Reachable (leakStepH p).1.gs :=
  reach_runG _ _ (reach_runG p _ h)

/-! ### `step` without the tokenisation -/

/-- the body of `step` once the line is compiled (a copy of the `match` of `step`): string
    tokenisation (`trimAscii`, `splitOn`, `toNat?`) does not reduce in the kernel, this does -/
def stepR (p : PSt) : R → PSt × String
  | .ops l env =>
    let p := runG { p with env := env } l
    let p := if balanced p then p else { p with err := true }
    (p, if p.err then "struct-error" else "ok")
  | .sw pre mid atClose post env r =>
    let p := runG { p with env := env, sw := p.sw ++ [r] } pre
    let p := if p.depth = 0 then
        let p := runG (rewireAll p) (mid ++ atClose)
        { p with env := p.env.filter fun kv => match kv.2 with | .temps _ => false | _ => true }
      else { (runG p mid) with pend := p.pend ++ atClose }
    let p := runG p post
    let p := if balanced p then p else { p with err := true }
    (p, if p.err then "struct-error" else "ok")
  | .hints l => ({ p with hints := l }, "-")
  | .fired l => ({ p with done := l }, "-")
  | .once l env n a sid =>
    let p := runG { p with env := env, onces := p.onces ++ [(n, a, sid)] } l
    let p := if balanced p then p else { p with err := true }
    (p, if p.err then "struct-error" else "ok")
  | .quiet l => (runG (if p.depth = 0 then detachAll (rewireAll p) else p) l, "-")
  | .open_ => ({ p with depth := p.depth + 1 }, "ok")
  | .close =>
    if p.depth = 0 then (p, "bad-op") else
    let p := { p with depth := p.depth - 1 }
    let p := if p.depth = 0 then
        let p := runG p p.pend
        detachAll (rewireAll { p with pend := [], env := p.env.filter fun kv => match kv.2 with | .temps _ => false | _ => true })
      else p
    let p := runG p [.eot]
    (p, if p.err then "struct-error" else "ok")
  | .skip => (p, "skip")
  | .na => (p, "-")
  | .bad => (p, "bad-op")
  | .dump => (p, if p.err then "struct-error" else dump p)
  | .leak =>
    let (p, keep) := leakStep p
    ({ p with sw := [] }, if p.err then "struct-error" else
      let nl := (keep.filter fun a => p.kinds.getD a "" == "Listener::new").length
      s!"leak={leakCount p}" ++ if nl = 0 then "" else s!" listeners-still-rooted={nl}")

/-- the words of a line, as `step` cuts them -/
def tokens (line : String) : List String := (line.trimAscii.toString.splitOn " ").filter (· ≠ "")

/-- `step` is: tokenise, compile, `stepR` -/
theorem step_eq_stepR (p : PSt) (line : String) :
    step p line =
      if tokens line == ["---"] then ({}, "---")
      else stepR p (compile p.env p.gs.g.nextId (tokens line)) := by
  unfold step stepR tokens
  rfl

/-- a line whose words are `ws` (not the reset line) steps as `stepR` of the compiled words -/
theorem step_of_tokens (p : PSt) (line : String) (ws : List String) (ht : tokens line = ws)
    (hn : (ws == ["---"]) = false) :
    step p line = stepR p (compile p.env p.gs.g.nextId ws) := by
  rw [step_eq_stepR, ht, hn]
  rfl

/-! ### plain drops -/

/-- one plain drop of a handle on `a`, if there is one -/
def dec1 (a : Nat) (gs : GcScript.St) : GcScript.St := (apply gs (.dec a)).getD gs

theorem apply_dec_eq (gs : GcScript.St) (a : Nat) :
    apply gs (.dec a) =
      if a < gs.g.nextId ∧ gs.handles.get a > 0 then
        some { gs with g := decRef gs.g a, handles := gs.handles.set a (gs.handles.get a - 1) }
      else none := rfl

theorem reach_dec1 {a : Nat} {gs : GcScript.St} (h : Reachable gs) : Reachable (dec1 a gs) := by
  unfold dec1
  cases ha : apply gs (.dec a) with
  | none => exact h
  | some s' => exact reach_apply (o := .dec a) h trivial ha

theorem dec1_nextId (a : Nat) (gs : GcScript.St) : (dec1 a gs).g.nextId = gs.g.nextId := by
  unfold dec1
  cases ha : apply gs (.dec a) with
  | none => rfl
  | some s' =>
    show s'.g.nextId = _
    rw [apply_dec_g ha]; exact (decRef_frame gs.g a).1

theorem dec1_handles_other {a b : Nat} (gs : GcScript.St) (hb : b ≠ a) :
    (dec1 a gs).handles.get b = gs.handles.get b := by
  unfold dec1
  rw [apply_dec_eq]
  split
  · show (gs.handles.set a _).get b = _
    exact Store.get_set_ne _ _ _ _ hb
  · rfl

theorem dec1_handles_self {a : Nat} (gs : GcScript.St) (ha : a < gs.g.nextId) :
    (dec1 a gs).handles.get a = gs.handles.get a - 1 := by
  unfold dec1
  rw [apply_dec_eq]
  split
  · show (gs.handles.set a _).get a = _
    exact Store.get_set_same _ _ _
  · rename_i hn
    show gs.handles.get a = _
    have : ¬ gs.handles.get a > 0 := fun h => hn ⟨ha, h⟩
    omega

/-- `n` plain drops (the list only counts them) -/
theorem decs_spec (a : Nat) : ∀ (l : List Nat) (gs : GcScript.St),
    let gs' := l.foldl (fun gs _ => (apply gs (.dec a)).getD gs) gs
    (Reachable gs → Reachable gs') ∧ gs'.g.nextId = gs.g.nextId ∧
    (∀ b, b ≠ a → gs'.handles.get b = gs.handles.get b) ∧
    (a < gs.g.nextId → gs'.handles.get a = gs.handles.get a - l.length) := by
  intro l
  induction l with
  | nil => intro gs; exact ⟨id, rfl, fun _ _ => rfl, fun _ => rfl⟩
  | cons c r ih =>
    intro gs
    obtain ⟨h1, h2, h3, h4⟩ := ih (dec1 a gs)
    refine ⟨fun h => h1 (reach_dec1 h), h2.trans (dec1_nextId a gs),
      fun b hb => (h3 b hb).trans (dec1_handles_other gs hb), fun ha => ?_⟩
    have := h4 (by rw [dec1_nextId]; exact ha)
    rw [dec1_handles_self gs ha] at this
    show _ = _ - (r.length + 1)
    rw [Nat.sub_add_eq, Nat.sub_right_comm]
    exact this

theorem zeroOne_spec (gs : GcScript.St) (a k : Nat) :
    (Reachable gs → Reachable (zeroOne gs a k)) ∧ (zeroOne gs a k).g.nextId = gs.g.nextId ∧
    (∀ b, (zeroOne gs a k).handles.get b ≤ gs.handles.get b) ∧
    (a < gs.g.nextId → (zeroOne gs a k).handles.get a ≤ k) := by
  obtain ⟨h1, h2, h3, h4⟩ := decs_spec a (List.range (gs.handles.get a - k)) gs
  refine ⟨h1, h2, fun b => ?_, fun ha => ?_⟩
  · by_cases hb : b = a
    · subst hb
      by_cases ha : b < gs.g.nextId
      · have := h4 ha
        show (List.foldl _ gs _).handles.get b ≤ _
        omega
      · -- not allocated: every drop is inapplicable
        have hk : ∀ (l : List Nat) (s : GcScript.St), s.g.nextId = gs.g.nextId →
            l.foldl (fun gs _ => (apply gs (.dec b)).getD gs) s = s := by
          intro l
          induction l with
          | nil => intro s _; rfl
          | cons c r ih =>
            intro s hs
            have : (apply s (.dec b)) = none := by
              rw [apply_dec_eq, if_neg (fun h => ha (hs ▸ h.1))]
            simp only [List.foldl_cons, this, Option.getD_none]
            exact ih s hs
        show (List.foldl _ gs _).handles.get b ≤ _
        rw [hk _ gs rfl]
        exact Nat.le_refl _
    · exact Nat.le_of_eq (h3 b hb)
  · have := h4 ha
    rw [List.length_range] at this
    show (List.foldl _ gs _).handles.get a ≤ k
    omega

theorem reach_zeroOne {gs : GcScript.St} (a k : Nat) (h : Reachable gs) :
    Reachable (zeroOne gs a k) := (zeroOne_spec gs a k).1 h

/-- `zeroAll` over an arbitrary list of objects -/
theorem zeroList_spec (keep : List Nat) : ∀ (l : List Nat) (gs : GcScript.St),
    let gs' := l.foldl (fun gs a => zeroOne gs a (if keep.contains a then 1 else 0)) gs
    (Reachable gs → Reachable gs') ∧ gs'.g.nextId = gs.g.nextId ∧
    (∀ b, gs'.handles.get b ≤ gs.handles.get b) ∧
    (∀ a ∈ l, a < gs.g.nextId → gs'.handles.get a ≤ if keep.contains a then 1 else 0) := by
  intro l
  induction l with
  | nil =>
    intro gs
    exact ⟨id, rfl, fun _ => Nat.le_refl _, fun a ha => absurd ha List.not_mem_nil⟩
  | cons c r ih =>
    intro gs
    obtain ⟨z1, z2, z3, z4⟩ := zeroOne_spec gs c (if keep.contains c then 1 else 0)
    obtain ⟨h1, h2, h3, h4⟩ := ih (zeroOne gs c (if keep.contains c then 1 else 0))
    refine ⟨fun h => h1 (z1 h), h2.trans z2, fun b => Nat.le_trans (h3 b) (z3 b), ?_⟩
    intro a ha hlt
    rcases List.mem_cons.1 ha with rfl | ha
    · exact Nat.le_trans (h3 a) (z4 hlt)
    · exact h4 a ha (by rw [z2]; exact hlt)

theorem zeroAll_spec (keep : List Nat) (gs : GcScript.St) :
    (Reachable gs → Reachable (zeroAll keep gs)) ∧ (zeroAll keep gs).g.nextId = gs.g.nextId ∧
    (∀ b, (zeroAll keep gs).handles.get b ≤ gs.handles.get b) ∧
    (∀ a, a < gs.g.nextId →
      (zeroAll keep gs).handles.get a ≤ if keep.contains a then 1 else 0) := by
  obtain ⟨h1, h2, h3, h4⟩ := zeroList_spec keep (List.range gs.g.nextId) gs
  exact ⟨h1, h2, h3, fun a ha => h4 a (List.mem_range.2 ha) ha⟩

theorem reach_zeroAll (keep : List Nat) {gs : GcScript.St} (h : Reachable gs) :
    Reachable (zeroAll keep gs) := (zeroAll_spec keep gs).1 h

/-- with nothing to keep, no handle is left on any allocated object -/
theorem zeroAll_nil_handles (gs : GcScript.St) (a : Nat) (ha : a < (zeroAll [] gs).g.nextId) :
    (zeroAll [] gs).handles.get a = 0 := by
  obtain ⟨_, h2, _, h4⟩ := zeroAll_spec [] gs
  have := h4 a (by rw [← h2]; exact ha)
  simpa using this

/-! ### a collection through `applyE` -/

theorem applyE_collect (x : GcScript.St × Bool) :
    applyE x .collect = ({ x.1 with g := collectCycles x.1.g }, x.2) := rfl

theorem collectCycles_nextId {s : GcScript.St} (h : Reachable s) :
    (collectCycles s.g).nextId = s.g.nextId := by
  have J := script_complete h
  have ho : (collectCycles s.g).oof = false := by
    rw [collectCycles_terminates s.g J.inv.bounded]; exact reachable_oof h
  exact (collect_sound s.g J.inv ho).2.2.2.2.2

end Struct
end SodiumVerif
