/-
  `collect_cycles`: iterating passes.  Objects reachable from an externally held object are never
  freed and stay reachable; the loop ends with both buffers empty.
-/
import SodiumVerif.Lemmas.GcPass

namespace SodiumVerif
namespace Gc
open State

/-- `i` is reachable from an unfreed object with an external handle -/
def Live (g : State) (i : Nat) : Prop :=
  ∃ r, (g.nodes.get r).freed = false ∧ 0 < ext g r ∧ Reach g r i

theorem Reach.unfreed {g : State} (I : GcInv g) {r i : Nat} (hr : (g.nodes.get r).freed = false)
    (p : Reach g r i) : (g.nodes.get i).freed = false := by
  induction p with
  | refl => exact hr
  | step _ hb hc _ => exact I.noDangling _ _ hb hc

/-- effect of a sequence of passes -/
structure Passes (g g' : State) : Prop where
  inv : GcInv g'
  nextId : g'.nextId = g.nextId
  mono : ∀ i, (g'.nodes.get i).freed = false →
    (g.nodes.get i).freed = false ∧ (g'.nodes.get i).owned = (g.nodes.get i).owned
  extEq : ∀ i, (g'.nodes.get i).rc + inCount g i = (g.nodes.get i).rc + inCount g' i
  live : ∀ i, Live g i → (g'.nodes.get i).freed = false

theorem Passes.refl {g : State} (I : GcInv g) : Passes g g :=
  ⟨I, rfl, fun _ h => ⟨h, rfl⟩, fun _ => rfl, fun _ ⟨_, hr, _, p⟩ => p.unfreed I hr⟩

theorem ext_eq_of {g g' : State} (I : GcInv g) (I' : GcInv g') {i : Nat}
    (h : (g'.nodes.get i).rc + inCount g i = (g.nodes.get i).rc + inCount g' i) :
    ext g' i = ext g i := by
  have h1 := I.count' i
  have h2 := I'.count' i
  unfold ext
  omega

theorem Passes.ext {g g' : State} (I : GcInv g) (P : Passes g g') (i : Nat) : ext g' i = ext g i :=
  ext_eq_of I P.inv (P.extEq i)

/-- live objects stay live -/
theorem Passes.live' {g g' : State} (I : GcInv g) (P : Passes g g') {i : Nat} (h : Live g i) :
    Live g' i := by
  obtain ⟨r, hr, he, p⟩ := h
  refine ⟨r, P.live r ⟨r, hr, he, .refl r⟩, by rw [P.ext I]; exact he, ?_⟩
  induction p with
  | refl => exact .refl r
  | @step b c pb hb hc ih =>
    have hb' := P.live b ⟨r, hr, he, pb⟩
    refine .step ih hb' ?_
    rw [(P.mono b hb').2]; exact hc

theorem PassOk.passes {g g' : State} (I : GcInv g) (P : PassOk g g') : Passes g g' := by
  refine ⟨P.inv, P.nextId, P.mono, P.extEq, ?_⟩
  rintro i ⟨r, hr, he, p⟩
  obtain ⟨D, hD0, hD1, hD2⟩ := P.dead
  have hnd : ¬ D i := by
    induction p with
    | refl =>
      intro hd
      have := hD1 r hd
      unfold ext at he
      omega
    | @step b c _ hb hc ih => exact fun hd => ih (hD2 c b hd hb hc)
  cases hf : (g'.nodes.get i).freed with
  | false => rfl
  | true =>
    rcases hD0 i hf with h | h
    · rw [p.unfreed I hr] at h; cases h
    · exact absurd h hnd

theorem Passes.trans {g g' g'' : State} (I : GcInv g) (P1 : Passes g g') (P2 : Passes g' g'') :
    Passes g g'' := by
  refine ⟨P2.inv, P2.nextId.trans P1.nextId, fun i h => ?_, fun i => ?_, fun i h => ?_⟩
  · obtain ⟨h1, h2⟩ := P2.mono i h
    obtain ⟨h3, h4⟩ := P1.mono i h1
    exact ⟨h3, h2.trans h4⟩
  · have := P1.extEq i
    have := P2.extEq i
    omega
  · exact P2.live i (P1.live' I h)

/-! ### the loop -/

theorem markRoots_oof_mono (g : State) (h : (markRoots g).oof = false) : g.oof = false := by
  rw [markRoots_eq] at h
  simp only [] at h
  have hcore3 := fun f gb => (foldl_rel (R := fun a b : State × List Nat => Core a.1 b.1)
      (I := fun _ => True) (fun a => Core.refl a.1) (fun _ _ _ => Core.trans) (fun _ _ _ _ => trivial)
      g.roots (gb, []) trivial (fun a _ r _ => mrStep_core f a r))
  have w2 : ∀ (f : Nat) (l : List Nat) (a : State), Walk a (l.foldl (fun g r => reset1 f r g) a) :=
    fun f l a => foldl_rel (I := fun _ => True) Walk.refl (fun _ _ _ => Walk.trans)
      (fun _ _ _ _ => trivial) l a trivial (fun a _ r _ => (reset1_walkP f r a).toWalk)
  have w3 : ∀ (f : Nat) (l : List Nat) (a : State), Walk a (l.foldl (fun g r => reset2 f r g) a) :=
    fun f l a => foldl_rel (I := fun _ => True) Walk.refl (fun _ _ _ => Walk.trans)
      (fun _ _ _ _ => trivial) l a trivial (fun a _ r _ => (reset2_walkP f r a).toWalk)
  have h1 := (hcore3 _ _).oof_false h
  have h2 := ((w2 _ _ _).trans (w3 _ _ _)).oof_false h1
  exact (displayGraph_walkP _ _ _ { g with roots := [] }).toWalk.oof_false h2

theorem onePass_oof_mono (g : State) (h : (onePass g).oof = false) : g.oof = false :=
  markRoots_oof_mono g (scanRoots_oof_mono _ (collectRoots_oof_mono _ h))

theorem collectLoop_oof_mono : ∀ (fuel : Nat) (g : State), (collectLoop fuel g).oof = false →
    g.oof = false := by
  intro fuel
  induction fuel with
  | zero => intro g h; simp [collectLoop] at h
  | succ fuel ih =>
    intro g h
    unfold collectLoop at h
    simp only [] at h
    split at h
    · exact onePass_oof_mono g h
    · split at h
      · exact onePass_oof_mono g h
      · exact onePass_oof_mono g (ih _ h)

theorem collectLoop_spec : ∀ (fuel : Nat) (g : State), GcInv g → (collectLoop fuel g).oof = false →
    Passes g (collectLoop fuel g) ∧ (collectLoop fuel g).roots = [] := by
  intro fuel
  induction fuel with
  | zero => intro g _ h; simp [collectLoop] at h
  | succ fuel ih =>
    intro g I h
    unfold collectLoop at h ⊢
    simp only [] at h ⊢
    have hnp : ∀ (ho : (onePass g).oof = false), ¬ (onePass g).panic.isSome = true := by
      intro ho
      rw [(onePass_spec I ho).inv.noPanic]; simp
    by_cases hp : (onePass g).panic.isSome = true
    · rw [if_pos hp] at h
      exact absurd hp (hnp h)
    · rw [if_neg hp] at h ⊢
      by_cases he : (onePass g).roots.isEmpty = true ∧ (onePass g).toBeFreed.isEmpty = true
      · rw [if_pos he] at h ⊢
        exact ⟨(onePass_spec I h).passes I, List.isEmpty_iff.mp he.1⟩
      · rw [if_neg he] at h ⊢
        have ho := collectLoop_oof_mono fuel _ h
        have P := onePass_spec I ho
        obtain ⟨P2, hr⟩ := ih (onePass g) P.inv h
        exact ⟨(P.passes I).trans I P2, hr⟩

theorem collectCycles_spec (g : State) (I : GcInv g) (ho : (collectCycles g).oof = false) :
    Passes g (collectCycles g) ∧ (collectCycles g).roots = [] :=
  collectLoop_spec (g.nextId + 2) g I ho

end Gc
end SodiumVerif
