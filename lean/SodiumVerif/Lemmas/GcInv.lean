/-
  The collector's state invariant `GcInv`, external-handle count `ext`, reachability `Reach`,
  and the counting lemmas (`sumTo`, `inCount`) everything else is built on.
-/
import SodiumVerif.Lemmas.GcBasic

namespace SodiumVerif
namespace Gc
open State

/-! ### finite sums over object ids -/

/-- `f 0 + … + f (n-1)` -/
def sumTo : Nat → (Nat → Nat) → Nat
  | 0, _ => 0
  | n + 1, f => sumTo n f + f n

theorem sumTo_congr {n : Nat} {f h : Nat → Nat} (e : ∀ j, j < n → f j = h j) :
    sumTo n f = sumTo n h := by
  induction n with
  | zero => rfl
  | succ n ih =>
    simp only [sumTo]
    rw [ih (fun j hj => e j (by omega)), e n (by omega)]

theorem sumTo_le {n : Nat} {f h : Nat → Nat} (e : ∀ j, j < n → f j ≤ h j) :
    sumTo n f ≤ sumTo n h := by
  induction n with
  | zero => exact Nat.le_refl _
  | succ n ih =>
    simp only [sumTo]
    have := ih (fun j hj => e j (by omega))
    have := e n (by omega)
    omega

theorem sumTo_zero {n : Nat} {f : Nat → Nat} (e : ∀ j, j < n → f j = 0) : sumTo n f = 0 := by
  induction n with
  | zero => rfl
  | succ n ih =>
    simp only [sumTo]
    rw [ih (fun j hj => e j (by omega)), e n (by omega)]

theorem sumTo_eq_zero {n : Nat} {f : Nat → Nat} (h : sumTo n f = 0) : ∀ j, j < n → f j = 0 := by
  induction n with
  | zero => intro j hj; omega
  | succ n ih =>
    simp only [sumTo] at h
    intro j hj
    by_cases e : j = n
    · subst e; omega
    · exact ih (by omega) j (by omega)

/-- termwise `≤` and equal sums force termwise equality -/
theorem sumTo_eq_of_le {n : Nat} {f h : Nat → Nat} (e : ∀ j, j < n → f j ≤ h j)
    (hs : sumTo n h ≤ sumTo n f) : ∀ j, j < n → f j = h j := by
  induction n with
  | zero => intro j hj; omega
  | succ n ih =>
    simp only [sumTo] at hs
    have h1 := sumTo_le (n := n) (fun j hj => e j (by omega))
    have h2 := e n (by omega)
    intro j hj
    by_cases e' : j = n
    · subst e'; omega
    · exact ih (fun j hj => e j (by omega)) (by omega) j (by omega)

/-- changing one term -/
theorem sumTo_update {n : Nat} {f h : Nat → Nat} {a : Nat} (ha : a < n)
    (e : ∀ j, j ≠ a → f j = h j) : sumTo n f + h a = sumTo n h + f a := by
  induction n with
  | zero => omega
  | succ n ih =>
    simp only [sumTo]
    by_cases e' : a = n
    · subst e'
      have : sumTo a f = sumTo a h := sumTo_congr (fun j hj => e j (by omega))
      omega
    · have := ih (by omega)
      have := e n (fun x => e' x.symm)
      omega

theorem sumTo_add {n : Nat} {f h : Nat → Nat} :
    sumTo n (fun j => f j + h j) = sumTo n f + sumTo n h := by
  induction n with
  | zero => rfl
  | succ n ih => simp only [sumTo, ih]; omega

/-! ### counted references -/

/-- counted references to `i` held by unfreed objects -/
def inCount (g : State) (i : Nat) : Nat :=
  ((List.range g.nextId).filter fun j => !(g.nodes.get j).freed).foldl
    (fun a j => a + (g.nodes.get j).owned.count i) 0

/-- external handles: the part of the count not explained by counted references from objects -/
def ext (g : State) (i : Nat) : Nat := (g.nodes.get i).rc - inCount g i

/-- contribution of object `j` to `inCount g i` -/
def contrib (g : State) (i j : Nat) : Nat :=
  if (g.nodes.get j).freed then 0 else (g.nodes.get j).owned.count i

theorem foldl_add_start (l : List Nat) (f : Nat → Nat) (a : Nat) :
    l.foldl (fun a j => a + f j) a = a + l.foldl (fun a j => a + f j) 0 := by
  induction l generalizing a with
  | nil => simp
  | cons x t ih => simp only [List.foldl_cons]; rw [ih (a + f x), ih (0 + f x)]; omega

theorem inCount_eq (g : State) (i : Nat) : inCount g i = sumTo g.nextId (contrib g i) := by
  unfold inCount
  generalize g.nextId = n
  induction n with
  | zero => rfl
  | succ n ih =>
    rw [List.range_succ, List.filter_append, List.foldl_append, ih]
    simp only [sumTo, contrib]
    by_cases hf : (g.nodes.get n).freed = true
    · simp [hf]
    · simp [hf]

theorem contrib_le_inCount (g : State) (i j : Nat) (hj : j < g.nextId) :
    contrib g i j ≤ inCount g i := by
  rw [inCount_eq]
  generalize g.nextId = n at hj
  induction n with
  | zero => omega
  | succ n ih =>
    simp only [sumTo]
    by_cases e : j = n
    · subst e; omega
    · have := ih (by omega); omega

/-! ### the invariant -/

structure GcInv (g : State) : Prop where
  /-- the collector's contract: a reported edge is backed by one counted reference -/
  contract   : ∀ i, (g.nodes.get i).traced = (g.nodes.get i).owned
  wf         : ∀ i, ∀ t ∈ (g.nodes.get i).owned, t < g.nextId
  fresh      : ∀ i, g.nextId ≤ i → g.nodes.get i = default
  count      : ∀ i, i < g.nextId → (g.nodes.get i).freed = false → inCount g i ≤ (g.nodes.get i).rc
  noDangling : ∀ i t, (g.nodes.get i).freed = false → t ∈ (g.nodes.get i).owned →
                 (g.nodes.get t).freed = false
  freedEmpty : ∀ i, (g.nodes.get i).freed = true →
                 (g.nodes.get i).owned = [] ∧ (g.nodes.get i).dtorRuns = 1
  liveDtor   : ∀ i, (g.nodes.get i).freed = false → (g.nodes.get i).dtorRuns = 0
  quiescent  : ∀ i, (g.nodes.get i).adj = 0 ∧ (g.nodes.get i).visited = false ∧
                 ((g.nodes.get i).color = .black ∨ (g.nodes.get i).color = .purple)
  rootsLt    : ∀ r ∈ g.roots, r < g.nextId
  tbf        : g.toBeFreed = []
  noPanic    : g.panic = none

/-- `c` is reachable from `a` along counted references of unfreed objects -/
inductive Reach (g : State) : Nat → Nat → Prop
  | refl (a) : Reach g a a
  | step {a b c} : Reach g a b → (g.nodes.get b).freed = false → c ∈ (g.nodes.get b).owned →
      Reach g a c

@[simp] theorem get_default_owned : ((default : GNode)).owned = [] := rfl
@[simp] theorem get_default_traced : ((default : GNode)).traced = [] := rfl
@[simp] theorem get_default_freed : ((default : GNode)).freed = false := rfl
@[simp] theorem get_default_rc : ((default : GNode)).rc = 0 := rfl
@[simp] theorem get_default_color : ((default : GNode)).color = .black := rfl
@[simp] theorem get_default_adj : ((default : GNode)).adj = 0 := rfl
@[simp] theorem get_default_visited : ((default : GNode)).visited = false := rfl
@[simp] theorem get_default_dtorRuns : ((default : GNode)).dtorRuns = 0 := rfl

/-- no counted reference points at `i` -/
theorem inCount_eq_zero {g : State} {i : Nat}
    (h : ∀ j, j < g.nextId → (g.nodes.get j).freed = false → i ∉ (g.nodes.get j).owned) :
    inCount g i = 0 := by
  rw [inCount_eq]
  apply sumTo_zero
  intro j hj
  unfold contrib
  by_cases hf : (g.nodes.get j).freed = true
  · simp [hf]
  · simp only [hf]
    exact List.count_eq_zero.mpr (h j hj (by simpa using hf))

theorem mem_of_inCount_zero {g : State} {i : Nat} (h : inCount g i = 0) :
    ∀ j, j < g.nextId → (g.nodes.get j).freed = false → i ∉ (g.nodes.get j).owned := by
  rw [inCount_eq] at h
  intro j hj hf
  have := sumTo_eq_zero h j hj
  unfold contrib at this
  simp only [hf] at this
  exact List.count_eq_zero.mp this

/-- the count bound holds for every id, not only unfreed allocated ones -/
theorem GcInv.count' {g : State} (I : GcInv g) (i : Nat) : inCount g i ≤ (g.nodes.get i).rc := by
  by_cases hi : i < g.nextId
  · by_cases hf : (g.nodes.get i).freed = true
    · have : inCount g i = 0 := by
        apply inCount_eq_zero
        intro j _ hjf hm
        have := I.noDangling j i hjf hm
        simp [hf] at this
      omega
    · exact I.count i hi (by simpa using hf)
  · have : inCount g i = 0 := by
      apply inCount_eq_zero
      intro j _ _ hm
      exact hi (I.wf j i hm)
    omega

theorem GcInv.ext_add {g : State} (I : GcInv g) (i : Nat) :
    ext g i + inCount g i = (g.nodes.get i).rc := by
  have := I.count' i
  unfold ext; omega

end Gc
end SodiumVerif
