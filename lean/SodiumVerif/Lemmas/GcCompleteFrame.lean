import SodiumVerif.Lemmas.GcCompleteDefs
namespace SodiumVerif
namespace Gc
open State

/-!
  Completeness of the collector (C07): frame facts.

  Part A: no walk changes a `buffered` flag; the two reset walks change no colour.
  Part B: the freeing loop (`decRef`, `free`, `freeCollected`, `checkZero`) keeps `CandOk`.
  No invariant of the state and no fuel hypothesis is needed.
-/

/-! ### point updates -/

theorem sameBuf_upd (g : State) (s : Nat) (f : GNode → GNode)
    (hf : ∀ x, (f x).buffered = x.buffered) : SameBuf g (g.upd s f) := by
  intro i
  simp only [Store.get_set]
  split
  · next h => subst h; exact hf _
  · rfl

theorem sameCol_upd (g : State) (s : Nat) (f : GNode → GNode)
    (hf : ∀ x, (f x).color = x.color) : SameCol g (g.upd s f) := by
  intro i
  simp only [Store.get_set]
  split
  · next h => subst h; exact hf _
  · rfl

theorem sameBuf_tick (g : State) : SameBuf g g.tick := fun _ => rfl
theorem sameBuf_tickE (g : State) : SameBuf g g.tickE := fun _ => rfl
theorem sameBuf_oof (g : State) : SameBuf g { g with oof := true } := fun _ => rfl
theorem sameCol_tick (g : State) : SameCol g g.tick := fun _ => rfl
theorem sameCol_tickE (g : State) : SameCol g g.tickE := fun _ => rfl
theorem sameCol_oof (g : State) : SameCol g { g with oof := true } := fun _ => rfl

theorem sameBuf_overEdges {rec : Nat → State → State} (h : ∀ t g, SameBuf g (rec t g))
    (l : List Nat) (g : State) : SameBuf g (overEdges rec l g) := by
  unfold overEdges
  exact foldl_rel (I := fun _ => True) SameBuf.refl (fun _ _ _ => SameBuf.trans)
    (fun _ _ _ _ => trivial) l g trivial (fun a _ b _ => (sameBuf_tickE a).trans (h b _))

theorem sameCol_overEdges {rec : Nat → State → State} (h : ∀ t g, SameCol g (rec t g))
    (l : List Nat) (g : State) : SameCol g (overEdges rec l g) := by
  unfold overEdges
  exact foldl_rel (I := fun _ => True) SameCol.refl (fun _ _ _ => SameCol.trans)
    (fun _ _ _ _ => trivial) l g trivial (fun a _ b _ => (sameCol_tickE a).trans (h b _))

/-! ### Part A: the walks keep the flags -/

theorem reset1_sameBuf : ∀ (fuel s : Nat) (g : State), SameBuf g (reset1 fuel s g) := by
  intro fuel
  induction fuel with
  | zero => intro s g; exact sameBuf_oof g
  | succ fuel ih =>
    intro s g
    rw [reset1_succ]
    split
    · exact SameBuf.refl g
    · exact ((sameBuf_upd g s (fun x => { x with visited := true, adj := 0 }) (fun _ => rfl)).trans (sameBuf_tick _)).trans
        (sameBuf_overEdges ih _ _)

theorem reset1_sameCol : ∀ (fuel s : Nat) (g : State), SameCol g (reset1 fuel s g) := by
  intro fuel
  induction fuel with
  | zero => intro s g; exact sameCol_oof g
  | succ fuel ih =>
    intro s g
    rw [reset1_succ]
    split
    · exact SameCol.refl g
    · exact ((sameCol_upd g s (fun x => { x with visited := true, adj := 0 }) (fun _ => rfl)).trans (sameCol_tick _)).trans
        (sameCol_overEdges ih _ _)

theorem reset2_sameBuf : ∀ (fuel s : Nat) (g : State), SameBuf g (reset2 fuel s g) := by
  intro fuel
  induction fuel with
  | zero => intro s g; exact sameBuf_oof g
  | succ fuel ih =>
    intro s g
    rw [reset2_succ]
    split
    · exact ((sameBuf_upd g s (fun x => { x with visited := false }) (fun _ => rfl)).trans (sameBuf_tick _)).trans
        (sameBuf_overEdges ih _ _)
    · exact SameBuf.refl g

theorem reset2_sameCol : ∀ (fuel s : Nat) (g : State), SameCol g (reset2 fuel s g) := by
  intro fuel
  induction fuel with
  | zero => intro s g; exact sameCol_oof g
  | succ fuel ih =>
    intro s g
    rw [reset2_succ]
    split
    · exact ((sameCol_upd g s (fun x => { x with visited := false }) (fun _ => rfl)).trans (sameCol_tick _)).trans
        (sameCol_overEdges ih _ _)
    · exact SameCol.refl g

theorem sameBuf_mgStep (g : State) (t : Nat) : SameBuf g (mgStep g t) := by
  intro i
  rw [mgStep_nodes]
  split
  · next h => subst h; rfl
  · rfl

theorem markGray_sameBuf : ∀ (fuel s : Nat) (g : State), SameBuf g (markGray fuel s g) := by
  intro fuel
  induction fuel with
  | zero => intro s g; exact sameBuf_oof g
  | succ fuel ih =>
    intro s g
    rw [markGray_succ]
    split
    · exact SameBuf.refl g
    · refine ((sameBuf_upd g s (fun x => { x with color := .gray }) (fun _ => rfl)).trans
        (sameBuf_tick _)).trans ?_
      refine foldl_rel (I := fun _ => True) SameBuf.refl (fun _ _ _ => SameBuf.trans)
        (fun _ _ _ _ => trivial) _ _ trivial ?_
      intro a _ t _
      exact (sameBuf_mgStep a t).trans (ih t _)

theorem scanBlack_sameBuf : ∀ (fuel s : Nat) (g : State), SameBuf g (scanBlack fuel s g) := by
  intro fuel
  induction fuel with
  | zero => intro s g; exact sameBuf_oof g
  | succ fuel ih =>
    intro s g
    rw [scanBlack_succ]
    refine ((sameBuf_upd g s (fun x => { x with color := .black }) (fun _ => rfl)).trans
      (sameBuf_tick _)).trans ?_
    refine foldl_rel (I := fun _ => True) SameBuf.refl (fun _ _ _ => SameBuf.trans)
      (fun _ _ _ _ => trivial) _ _ trivial ?_
    intro a _ t _
    split
    · exact (sameBuf_tickE a).trans (ih t _)
    · exact sameBuf_tickE a

theorem scan_sameBuf : ∀ (fuel s : Nat) (g : State), SameBuf g (scan fuel s g) := by
  intro fuel
  induction fuel with
  | zero => intro s g; exact sameBuf_oof g
  | succ fuel ih =>
    intro s g
    rw [scan_succ]
    split
    · exact SameBuf.refl g
    · split
      · exact ((sameBuf_upd g s (fun x => { x with color := .white }) (fun _ => rfl)).trans
          (sameBuf_tick _)).trans (sameBuf_overEdges ih _ _)
      · exact scanBlack_sameBuf _ _ _

theorem collectWhite_sameBuf : ∀ (fuel s : Nat) (gw : State × List Nat),
    SameBuf gw.1 (collectWhite fuel s gw).1 := by
  intro fuel
  induction fuel with
  | zero => intro s gw; exact sameBuf_oof gw.1
  | succ fuel ih =>
    intro s gw
    obtain ⟨g, w⟩ := gw
    rw [collectWhite_succ]
    split
    · refine ((sameBuf_upd g s (fun x => { x with color := .black }) (fun _ => rfl)).trans
        (sameBuf_tick _)).trans ?_
      exact foldl_rel (R := fun a b : State × List Nat => SameBuf a.1 b.1) (I := fun _ => True)
        (fun a => SameBuf.refl a.1) (fun _ _ _ => SameBuf.trans)
        (fun _ _ _ _ => trivial) _ (_, w) trivial
        (fun a _ t _ => (sameBuf_tickE a.1).trans (ih t (a.1.tickE, a.2)))
    · exact SameBuf.refl g

/-! ### folds over a list of roots -/

theorem reset1_fold_sameBuf (f : Nat) (l : List Nat) (g : State) :
    SameBuf g (l.foldl (fun g r => reset1 f r g) g) :=
  foldl_rel (I := fun _ => True) SameBuf.refl (fun _ _ _ => SameBuf.trans)
    (fun _ _ _ _ => trivial) l g trivial (fun a _ r _ => reset1_sameBuf f r a)

theorem reset1_fold_sameCol (f : Nat) (l : List Nat) (g : State) :
    SameCol g (l.foldl (fun g r => reset1 f r g) g) :=
  foldl_rel (I := fun _ => True) SameCol.refl (fun _ _ _ => SameCol.trans)
    (fun _ _ _ _ => trivial) l g trivial (fun a _ r _ => reset1_sameCol f r a)

theorem reset2_fold_sameBuf (f : Nat) (l : List Nat) (g : State) :
    SameBuf g (l.foldl (fun g r => reset2 f r g) g) :=
  foldl_rel (I := fun _ => True) SameBuf.refl (fun _ _ _ => SameBuf.trans)
    (fun _ _ _ _ => trivial) l g trivial (fun a _ r _ => reset2_sameBuf f r a)

theorem reset2_fold_sameCol (f : Nat) (l : List Nat) (g : State) :
    SameCol g (l.foldl (fun g r => reset2 f r g) g) :=
  foldl_rel (I := fun _ => True) SameCol.refl (fun _ _ _ => SameCol.trans)
    (fun _ _ _ _ => trivial) l g trivial (fun a _ r _ => reset2_sameCol f r a)

theorem scan_fold_sameBuf (f : Nat) (l : List Nat) (g : State) :
    SameBuf g (l.foldl (fun g r => scan f r g) g) :=
  foldl_rel (I := fun _ => True) SameBuf.refl (fun _ _ _ => SameBuf.trans)
    (fun _ _ _ _ => trivial) l g trivial (fun a _ r _ => scan_sameBuf f r a)

/-! ### Part B: the freeing loop keeps `CandOk` -/

theorem decRef_roots_mono (g : State) (n j : Nat) (hj : j ∈ g.roots) : j ∈ (decRef g n).roots := by
  rw [decRef_roots]
  split
  · exact List.mem_append_left _ hj
  · exact hj

theorem candOk_decRef {g : State} (n : Nat) (h : CandOk g) : CandOk (decRef g n) := by
  intro i hfr hbp
  have hfr' : (g.nodes.get i).freed = false := by
    rw [← (rcOnly_decRef g n).freed i]; exact hfr
  rw [decRef_get] at hbp
  by_cases hc : i = n ∧ (g.nodes.get n).rc ≠ 0
  · have hin : i = n := hc.1
    have h0 : (g.nodes.get n).rc ≠ 0 := hc.2
    rw [hin] at hfr' ⊢
    by_cases hp : (g.nodes.get n).color = .purple
    · exact decRef_roots_mono g n n (h n hfr' (Or.inr hp))
    · by_cases hb : (g.nodes.get n).buffered = true
      · exact decRef_roots_mono g n n (h n hfr' (Or.inl hb))
      · have hb' : (g.nodes.get n).buffered = false := by
          cases e : (g.nodes.get n).buffered with
          | false => rfl
          | true => exact absurd e hb
        rw [decRef_roots, if_pos ⟨h0, hp, hb'⟩]
        exact List.mem_append_right _ (List.mem_singleton.mpr rfl)
  · rw [if_neg hc] at hbp
    exact decRef_roots_mono g n i (h i hfr' hbp)

theorem candOk_decRef_fold : ∀ (l : List Nat) (g : State), CandOk g → CandOk (l.foldl decRef g) := by
  intro l
  induction l with
  | nil => intro g h; exact h
  | cons t rest ih =>
    intro g h
    simp only [List.foldl_cons]
    exact ih _ (candOk_decRef t h)

/-- a step that only touches object `n`, leaves it freed and keeps the buffer -/
theorem candOk_of_freedAt {g g' : State} (n : Nat) (hr : g'.roots = g.roots)
    (ho : ∀ i, i ≠ n → g'.nodes.get i = g.nodes.get i)
    (hn : (g'.nodes.get n).freed = true) (h : CandOk g) : CandOk g' := by
  intro i hfr hbp
  have hin : i ≠ n := by
    intro e; rw [e, hn] at hfr; cases hfr
  rw [ho i hin] at hfr hbp
  rw [hr]
  exact h i hfr hbp

theorem free_of_dtor_ne (g : State) (n : Nat) (hd : ¬ (g.nodes.get n).dtorRuns = 0) :
    free g n = (g.upd n fun x => { x with freed := true }).upd n fun x => { x with traced := [] } := by
  unfold free
  simp only [State.node]
  rw [if_neg hd]

theorem candOk_free {g : State} (n : Nat) (h : CandOk g) : CandOk (free g n) := by
  by_cases hd : (g.nodes.get n).dtorRuns = 0
  · rw [free_eq g n hd]
    apply candOk_decRef_fold
    refine candOk_of_freedAt (g := g) n rfl ?_ ?_ h
    · intro i hi; rw [freeHead_get g n i hd, if_neg hi]
    · rw [freeHead_get g n n hd, if_pos rfl]
  · rw [free_of_dtor_ne g n hd]
    refine candOk_of_freedAt (g := g) n rfl ?_ ?_ h
    · intro i hi; simp only [Store.get_set, if_neg hi]
    · simp only [Store.get_set_same]

theorem free_freed_self (g : State) (n : Nat) : ((free g n).nodes.get n).freed = true := by
  by_cases hd : (g.nodes.get n).dtorRuns = 0
  · rw [free_eq g n hd, (decRef_fold_rcOnly _ _).freed, freeHead_get g n n hd, if_pos rfl]
  · rw [free_of_dtor_ne g n hd]
    simp only [Store.get_set_same]

theorem candOk_freeCollected {g : State} (n : Nat) (h : CandOk g) : CandOk (freeCollected g n) := by
  unfold freeCollected
  simp only [State.node]
  split
  · intro i hfr hbp
    have hfr' : ((free g n).nodes.get i).freed = false := hfr
    have hbp' : ((free g n).nodes.get i).buffered = true ∨
        ((free g n).nodes.get i).color = .purple := hbp
    have hm : i ∈ (free g n).roots := candOk_free n h i hfr' hbp'
    have hin : i ≠ n := by
      intro e; rw [e, free_freed_self] at hfr'; cases hfr'
    show i ∈ (free g n).roots.filter (· ≠ n)
    exact List.mem_filter.mpr ⟨hm, decide_eq_true hin⟩
  · exact h

theorem candOk_freeCollected_fold : ∀ (l : List Nat) (g : State),
    CandOk g → CandOk (l.foldl freeCollected g) := by
  intro l
  induction l with
  | nil => intro g h; exact h
  | cons t rest ih =>
    intro g h
    simp only [List.foldl_cons]
    exact ih _ (candOk_freeCollected t h)

theorem checkZero_nodes (g : State) (l : List Nat) : (checkZero g l).nodes = g.nodes := by
  unfold checkZero
  induction l generalizing g with
  | nil => rfl
  | cons t rest ih =>
    simp only [List.foldl_cons]
    rw [ih]
    split
    · exact State.setPanic_nodes g _
    · rfl

theorem checkZero_roots (g : State) (l : List Nat) : (checkZero g l).roots = g.roots := by
  unfold checkZero
  induction l generalizing g with
  | nil => rfl
  | cons t rest ih =>
    simp only [List.foldl_cons]
    rw [ih]
    split
    · exact State.setPanic_roots g _
    · rfl

theorem candOk_checkZero {g : State} (l : List Nat) (h : CandOk g) : CandOk (checkZero g l) := by
  intro i hfr hbp
  rw [checkZero_nodes] at hfr hbp
  rw [checkZero_roots]
  exact h i hfr hbp

end Gc
end SodiumVerif
