/- Basic rewriting lemmas for M_gc states. -/
import SodiumVerif.Model.Gc

namespace SodiumVerif
namespace Gc
namespace State

theorem node_upd (g : State) (i j : Nat) (f : GNode → GNode) :
    (g.upd i f).node j = if j = i then f (g.node i) else g.node j := by
  simp [State.node, State.upd, Store.get_set]

@[simp] theorem setPanic_nodes (g : State) (p) : (g.setPanic p).nodes = g.nodes := by
  unfold setPanic; split <;> rfl
@[simp] theorem setPanic_roots (g : State) (p) : (g.setPanic p).roots = g.roots := by
  unfold setPanic; split <;> rfl
@[simp] theorem setPanic_toBeFreed (g : State) (p) : (g.setPanic p).toBeFreed = g.toBeFreed := by
  unfold setPanic; split <;> rfl
@[simp] theorem setPanic_nextId (g : State) (p) : (g.setPanic p).nextId = g.nextId := by
  unfold setPanic; split <;> rfl
@[simp] theorem setPanic_oof (g : State) (p) : (g.setPanic p).oof = g.oof := by
  unfold setPanic; split <;> rfl
@[simp] theorem setPanic_dtorLog (g : State) (p) : (g.setPanic p).dtorLog = g.dtorLog := by
  unfold setPanic; split <;> rfl

end State

open State

/-- effect of `possible_root` on a node record -/
theorem possibleRoot_node (g : State) (n i : Nat) :
    ((possibleRoot g n).node i) =
      if i = n ∧ (g.node n).color ≠ .purple then
        { g.node n with color := .purple, buffered := true }
      else g.node i := by
  unfold possibleRoot
  by_cases hc : (g.nodes.get n).color = .purple
  · simp [State.node, hc]
  · by_cases hb : (g.nodes.get n).buffered = true
    · by_cases hi : i = n
      · subst hi; simp [State.node, State.upd, hc, hb, Store.get_set]
      · simp [State.node, State.upd, hc, hb, hi, Store.get_set]
    · by_cases hi : i = n
      · subst hi; simp [State.node, State.upd, hc, hb, Store.get_set]
      · simp [State.node, State.upd, hc, hb, hi, Store.get_set]

theorem decRef_node (g : State) (n i : Nat) :
    ((decRef g n).node i) =
      if i = n ∧ (g.node n).rc ≠ 0 then
        (if (g.node n).color ≠ .purple then
          { g.node n with rc := (g.node n).rc - 1, color := .purple, buffered := true }
         else { g.node n with rc := (g.node n).rc - 1 })
      else g.node i := by
  unfold decRef
  by_cases h0 : (g.nodes.get n).rc = 0
  · simp [State.node, h0]
  · simp only [State.node, State.upd, h0, if_false, possibleRoot_node]
    by_cases hi : i = n
    · subst hi
      by_cases hc : (g.nodes.get i).color = .purple <;> simp [State.node, State.upd, hc, h0, Store.get_set]
    · simp [State.node, State.upd, hi, Store.get_set]

end Gc
end SodiumVerif
