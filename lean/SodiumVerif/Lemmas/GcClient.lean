/-
  The client operations of the collector (`new`, `inc`, `dec`, `edge`, `unedge`, `updrop` of
  `GcScript.apply`) preserve `GcInv`, and change the external-handle count `ext` in the expected
  way: `new` creates one handle, `inc`/`dec` add/remove one handle of the object, the edge
  operations and upgrade-then-drop leave every `ext` unchanged.
-/
import SodiumVerif.Lemmas.GcInv
import SodiumVerif.Model.GcScript

namespace SodiumVerif
namespace Gc
open State

/-! ### compound client operations (literally the state updates of `GcScript.apply`) -/

/-- `edge a b` : take a counted reference to `b` and store it in `a` (reported and owned) -/
def addEdge (g : State) (a b : Nat) : State :=
  (incRef g b).upd a fun x => { x with traced := x.traced ++ [b], owned := x.owned ++ [b] }

/-- `unedge a b` : remove one stored reference to `b` from `a` and release it -/
def delEdge (g : State) (a b : Nat) : State :=
  decRef (g.upd a fun x => { x with traced := x.traced.erase b, owned := x.owned.erase b }) b

/-- `updrop n` : upgrade a weak reference, and drop the strong one if the upgrade succeeded -/
def upgradeDrop (g : State) (n : Nat) : State :=
  let (g1, ok) := incRefIfAlive g n
  if ok then decRef g1 n else g1

/-! ### bookkeeping: `inCount` under local changes -/

/-- `inCount` only reads `nextId`, `freed`, `owned` -/
theorem inCount_congr {g g' : State} (hn : g'.nextId = g.nextId)
    (hf : ∀ j, (g'.nodes.get j).freed = (g.nodes.get j).freed)
    (ho : ∀ j, (g'.nodes.get j).owned = (g.nodes.get j).owned) (i : Nat) :
    inCount g' i = inCount g i := by
  rw [inCount_eq, inCount_eq, hn]
  apply sumTo_congr
  intro j _
  simp only [contrib, hf, ho]

/-- only object `a` changed its `freed`/`owned` -/
theorem inCount_update {g g' : State} {a : Nat} (hn : g'.nextId = g.nextId) (ha : a < g.nextId)
    (hf : ∀ j, j ≠ a → (g'.nodes.get j).freed = (g.nodes.get j).freed)
    (ho : ∀ j, j ≠ a → (g'.nodes.get j).owned = (g.nodes.get j).owned) (i : Nat) :
    inCount g' i + contrib g i a = inCount g i + contrib g' i a := by
  rw [inCount_eq, inCount_eq, hn]
  apply sumTo_update ha
  intro j hj
  simp only [contrib, hf j hj, ho j hj]

/-- `g'` differs from `g` only in counts, colours, `buffered`, the candidate buffer and the
    counters: everything `inCount` and the structural part of `GcInv` read is unchanged. -/
structure RcOnly (g g' : State) : Prop where
  nextId   : g'.nextId = g.nextId
  tbf      : g'.toBeFreed = g.toBeFreed
  panic    : g'.panic = g.panic
  freed    : ∀ i, (g'.nodes.get i).freed = (g.nodes.get i).freed
  owned    : ∀ i, (g'.nodes.get i).owned = (g.nodes.get i).owned
  traced   : ∀ i, (g'.nodes.get i).traced = (g.nodes.get i).traced
  dtorRuns : ∀ i, (g'.nodes.get i).dtorRuns = (g.nodes.get i).dtorRuns
  adj      : ∀ i, (g'.nodes.get i).adj = (g.nodes.get i).adj
  visited  : ∀ i, (g'.nodes.get i).visited = (g.nodes.get i).visited

theorem RcOnly.refl (g : State) : RcOnly g g :=
  ⟨rfl, rfl, rfl, fun _ => rfl, fun _ => rfl, fun _ => rfl, fun _ => rfl, fun _ => rfl, fun _ => rfl⟩

theorem RcOnly.inCount {g g' : State} (F : RcOnly g g') (i : Nat) : inCount g' i = inCount g i :=
  inCount_congr F.nextId F.freed F.owned i

/-- `GcInv` transfers along an `RcOnly` change that keeps colours quiescent, candidates allocated,
    unallocated slots untouched and counts above the counted references. -/
theorem gcinv_of_rcOnly {g g' : State} (I : GcInv g) (F : RcOnly g g')
    (hroots : ∀ r ∈ g'.roots, r < g.nextId)
    (hcol : ∀ i, (g'.nodes.get i).color = .black ∨ (g'.nodes.get i).color = .purple)
    (hfresh : ∀ i, g.nextId ≤ i → g'.nodes.get i = g.nodes.get i)
    (hrc : ∀ i, i < g.nextId → (g.nodes.get i).freed = false →
      inCount g i ≤ (g'.nodes.get i).rc) : GcInv g' := by
  refine { contract := ?_, wf := ?_, fresh := ?_, count := ?_, noDangling := ?_, freedEmpty := ?_,
           liveDtor := ?_, quiescent := ?_, rootsLt := ?_, tbf := ?_, noPanic := ?_ }
  · intro i; rw [F.traced, F.owned]; exact I.contract i
  · intro i t ht; rw [F.owned] at ht; rw [F.nextId]; exact I.wf i t ht
  · intro i hi; rw [F.nextId] at hi; rw [hfresh i hi]; exact I.fresh i hi
  · intro i hi hf
    rw [F.nextId] at hi; rw [F.freed] at hf; rw [F.inCount]
    exact hrc i hi hf
  · intro i t hf ht
    rw [F.freed] at hf ⊢; rw [F.owned] at ht
    exact I.noDangling i t hf ht
  · intro i hf
    rw [F.freed] at hf; rw [F.owned, F.dtorRuns]
    exact I.freedEmpty i hf
  · intro i hf
    rw [F.freed] at hf; rw [F.dtorRuns]
    exact I.liveDtor i hf
  · intro i
    rw [F.adj, F.visited]
    exact ⟨(I.quiescent i).1, (I.quiescent i).2.1, hcol i⟩
  · intro r hr; rw [F.nextId]; exact hroots r hr
  · rw [F.tbf]; exact I.tbf
  · rw [F.panic]; exact I.noPanic

/-! ### frame facts for the primitive operations -/

theorem incRef_eq {g : State} {n : Nat} (hf : (g.nodes.get n).freed = false) :
    incRef g n = g.upd n fun x => { x with rc := x.rc + 1, color := .black } := by
  simp [incRef, State.node, hf]

theorem incRef_get {g : State} {n : Nat} (hf : (g.nodes.get n).freed = false) (i : Nat) :
    (incRef g n).nodes.get i =
      if i = n then { g.nodes.get n with rc := (g.nodes.get n).rc + 1, color := .black }
      else g.nodes.get i := by
  rw [incRef_eq hf]; simp only [Store.get_set]

theorem rcOnly_incRef {g : State} {n : Nat} (hf : (g.nodes.get n).freed = false) :
    RcOnly g (incRef g n) := by
  refine ⟨by rw [incRef_eq hf], by rw [incRef_eq hf], by rw [incRef_eq hf],
    ?_, ?_, ?_, ?_, ?_, ?_⟩ <;>
    (intro i; rw [incRef_get hf]; by_cases hi : i = n <;> simp [hi])

theorem incRef_roots {g : State} {n : Nat} (hf : (g.nodes.get n).freed = false) :
    (incRef g n).roots = g.roots := by
  rw [incRef_eq hf]

theorem decRef_get (g : State) (n i : Nat) :
    (decRef g n).nodes.get i =
      if i = n ∧ (g.nodes.get n).rc ≠ 0 then
        (if (g.nodes.get n).color ≠ .purple then
          { g.nodes.get n with rc := (g.nodes.get n).rc - 1, color := .purple, buffered := true }
         else { g.nodes.get n with rc := (g.nodes.get n).rc - 1 })
      else g.nodes.get i := decRef_node g n i

theorem possibleRoot_frame (g : State) (n : Nat) :
    (possibleRoot g n).nextId = g.nextId ∧ (possibleRoot g n).toBeFreed = g.toBeFreed ∧
    (possibleRoot g n).panic = g.panic ∧
    ∀ r ∈ (possibleRoot g n).roots, r ∈ g.roots ∨ r = n := by
  unfold possibleRoot
  simp only [State.node, State.upd]
  split
  · split
    · refine ⟨rfl, rfl, rfl, fun r hr => ?_⟩
      simp only [List.mem_append, List.mem_singleton] at hr
      exact hr
    · exact ⟨rfl, rfl, rfl, fun r hr => Or.inl hr⟩
  · exact ⟨rfl, rfl, rfl, fun r hr => Or.inl hr⟩

theorem decRef_frame (g : State) (n : Nat) :
    (decRef g n).nextId = g.nextId ∧ (decRef g n).toBeFreed = g.toBeFreed ∧
    (decRef g n).panic = g.panic ∧
    ∀ r ∈ (decRef g n).roots, r ∈ g.roots ∨ r = n := by
  unfold decRef
  split
  · exact ⟨rfl, rfl, rfl, fun r hr => Or.inl hr⟩
  · exact possibleRoot_frame _ n

theorem rcOnly_decRef (g : State) (n : Nat) : RcOnly g (decRef g n) := by
  have h := decRef_frame g n
  refine ⟨h.1, h.2.1, h.2.2.1, ?_, ?_, ?_, ?_, ?_, ?_⟩ <;>
    (intro i; rw [decRef_get]; split
     · rename_i h; rw [h.1]; split <;> rfl
     · rfl)

/-! ### 1. the initial state -/

theorem gcinv_init : GcInv {} := by
  refine { contract := ?_, wf := ?_, fresh := ?_, count := ?_, noDangling := ?_, freedEmpty := ?_,
           liveDtor := ?_, quiescent := ?_, rootsLt := ?_, tbf := rfl, noPanic := rfl }
  · intro i; simp
  · intro i t ht; simp at ht
  · intro i _; simp
  · intro i hi; simp at hi
  · intro i t _ ht; simp at ht
  · intro i hf; simp at hf
  · intro i _; simp
  · intro i; simp
  · intro r hr; simp at hr

/-! ### 2. `new` -/

theorem newNode_nextId (g : State) : (newNode g).1.nextId = g.nextId + 1 := rfl

theorem newNode_get (g : State) (i : Nat) :
    (newNode g).1.nodes.get i = if i = g.nextId then { rc := 1 } else g.nodes.get i := by
  simp only [newNode, Store.get_set]

theorem newNode_contrib {g : State} (I : GcInv g) (i j : Nat) :
    contrib (newNode g).1 i j = contrib g i j := by
  unfold contrib
  rw [newNode_get]
  by_cases hj : j = g.nextId
  · subst hj; simp [I.fresh g.nextId (Nat.le_refl _)]
  · simp [hj]

theorem newNode_inCount {g : State} (I : GcInv g) (i : Nat) :
    inCount (newNode g).1 i = inCount g i := by
  rw [inCount_eq, inCount_eq, newNode_nextId]
  simp only [sumTo]
  have h1 : sumTo g.nextId (contrib (newNode g).1 i) = sumTo g.nextId (contrib g i) :=
    sumTo_congr (fun j _ => newNode_contrib I i j)
  have h2 : contrib (newNode g).1 i g.nextId = 0 := by
    rw [newNode_contrib I]; unfold contrib; simp [I.fresh g.nextId (Nat.le_refl _)]
  omega

theorem inCount_fresh {g : State} (I : GcInv g) {i : Nat} (hi : g.nextId ≤ i) : inCount g i = 0 := by
  have := I.count' i
  rw [I.fresh i hi] at this
  simpa using this

theorem gcinv_newNode {g : State} (I : GcInv g) : GcInv (newNode g).1 := by
  refine { contract := ?_, wf := ?_, fresh := ?_, count := ?_, noDangling := ?_, freedEmpty := ?_,
           liveDtor := ?_, quiescent := ?_, rootsLt := ?_, tbf := I.tbf, noPanic := I.noPanic }
  · intro i; rw [newNode_get]
    by_cases hi : i = g.nextId
    · simp [hi]
    · simp only [hi, if_false]; exact I.contract i
  · intro i t ht; rw [newNode_get] at ht; rw [newNode_nextId]
    by_cases hi : i = g.nextId
    · simp [hi] at ht
    · simp only [hi, if_false] at ht; have := I.wf i t ht; omega
  · intro i hi; rw [newNode_nextId] at hi; rw [newNode_get]
    have : i ≠ g.nextId := by omega
    simp only [this, if_false]; exact I.fresh i (by omega)
  · intro i _ _
    rw [newNode_inCount I, newNode_get]
    by_cases hi : i = g.nextId
    · subst hi; simp [inCount_fresh I (Nat.le_refl _)]
    · simp only [hi, if_false]; exact I.count' i
  · intro i t hf ht
    rw [newNode_get] at hf ht
    by_cases hi : i = g.nextId
    · simp [hi] at ht
    · simp only [hi, if_false] at hf ht
      have htl := I.wf i t ht
      have : t ≠ g.nextId := by omega
      rw [newNode_get]; simp only [this, if_false]
      exact I.noDangling i t hf ht
  · intro i hf; rw [newNode_get] at hf ⊢
    by_cases hi : i = g.nextId
    · simp [hi] at hf
    · simp only [hi, if_false] at hf ⊢; exact I.freedEmpty i hf
  · intro i hf; rw [newNode_get] at hf ⊢
    by_cases hi : i = g.nextId
    · simp [hi]
    · simp only [hi, if_false] at hf ⊢; exact I.liveDtor i hf
  · intro i; rw [newNode_get]
    by_cases hi : i = g.nextId
    · simp [hi]
    · simp only [hi, if_false]; exact I.quiescent i
  · intro r hr
    have : r < g.nextId := I.rootsLt r hr
    rw [newNode_nextId]; omega

theorem ext_newNode_new {g : State} (I : GcInv g) : ext (newNode g).1 g.nextId = 1 := by
  unfold ext
  rw [newNode_inCount I, newNode_get, inCount_fresh I (Nat.le_refl _)]
  simp

theorem ext_newNode_other {g : State} (I : GcInv g) {i : Nat} (hi : i ≠ g.nextId) :
    ext (newNode g).1 i = ext g i := by
  unfold ext
  rw [newNode_inCount I, newNode_get]
  simp [hi]

/-! ### 3. `inc` (clone a handle) -/

theorem gcinv_incRef {g : State} {n : Nat} (I : GcInv g) (hn : n < g.nextId)
    (hf : (g.nodes.get n).freed = false) : GcInv (incRef g n) := by
  apply gcinv_of_rcOnly I (rcOnly_incRef hf)
  · intro r hr; rw [incRef_roots hf] at hr; exact I.rootsLt r hr
  · intro i; rw [incRef_get hf]
    by_cases hi : i = n
    · simp [hi]
    · simp only [hi, if_false]; exact (I.quiescent i).2.2
  · intro i hi; rw [incRef_get hf]
    have : i ≠ n := by omega
    simp [this]
  · intro i _ _; rw [incRef_get hf]
    have := I.count' i
    by_cases hi : i = n
    · subst hi; simp only [if_true]; omega
    · simp only [hi, if_false]; exact this

theorem ext_incRef_self {g : State} {n : Nat} (I : GcInv g)
    (hf : (g.nodes.get n).freed = false) : ext (incRef g n) n = ext g n + 1 := by
  have := I.count' n
  unfold ext
  rw [(rcOnly_incRef hf).inCount, incRef_get hf]
  simp only [if_true]; omega

theorem ext_incRef_other {g : State} {n i : Nat}
    (hf : (g.nodes.get n).freed = false) (hi : i ≠ n) : ext (incRef g n) i = ext g i := by
  unfold ext
  rw [(rcOnly_incRef hf).inCount, incRef_get hf]
  simp [hi]

/-! ### 4. `dec` (drop a handle) -/

theorem gcinv_decRef_handle {g : State} {n : Nat} (I : GcInv g) (hn : n < g.nextId)
    (he : 0 < ext g n) : GcInv (decRef g n) := by
  have hlt : inCount g n < (g.nodes.get n).rc := by unfold ext at he; omega
  apply gcinv_of_rcOnly I (rcOnly_decRef g n)
  · intro r hr
    rcases (decRef_frame g n).2.2.2 r hr with h | h
    · exact I.rootsLt r h
    · omega
  · intro i; rw [decRef_get]
    split
    · split
      · right; rfl
      · rename_i hc; right; simpa using hc
    · exact (I.quiescent i).2.2
  · intro i hi; rw [decRef_get]
    have : i ≠ n := by omega
    simp [this]
  · intro i _ _; rw [decRef_get]
    split
    · rename_i h; rw [h.1]
      split <;> (simp only; omega)
    · exact I.count' i

theorem ext_decRef_self {g : State} {n : Nat} (he : 0 < ext g n) :
    ext (decRef g n) n = ext g n - 1 := by
  have hlt : inCount g n < (g.nodes.get n).rc := by unfold ext at he; omega
  have h0 : (g.nodes.get n).rc ≠ 0 := by omega
  unfold ext
  rw [(rcOnly_decRef g n).inCount, decRef_get]
  simp only [h0, ne_eq, not_false_eq_true, and_self, if_true]
  split <;> (simp only; omega)

theorem ext_decRef_other (g : State) {n i : Nat} (hi : i ≠ n) : ext (decRef g n) i = ext g i := by
  unfold ext
  rw [(rcOnly_decRef g n).inCount, decRef_get]
  simp [hi]

/-! ### changing the out-edge lists of one object -/

/-- `g'` differs from `g` only in the `traced`/`owned`/`buffered` fields of object `a` -/
structure OwnedChange (g g' : State) (a : Nat) : Prop where
  nextId   : g'.nextId = g.nextId
  roots    : g'.roots = g.roots
  tbf      : g'.toBeFreed = g.toBeFreed
  panic    : g'.panic = g.panic
  other    : ∀ i, i ≠ a → g'.nodes.get i = g.nodes.get i
  rc       : (g'.nodes.get a).rc = (g.nodes.get a).rc
  adj      : (g'.nodes.get a).adj = (g.nodes.get a).adj
  visited  : (g'.nodes.get a).visited = (g.nodes.get a).visited
  color    : (g'.nodes.get a).color = (g.nodes.get a).color
  freed    : (g'.nodes.get a).freed = (g.nodes.get a).freed
  dtorRuns : (g'.nodes.get a).dtorRuns = (g.nodes.get a).dtorRuns

namespace OwnedChange
variable {g g' : State} {a : Nat} (C : OwnedChange g g' a)
include C

theorem rc' (i : Nat) : (g'.nodes.get i).rc = (g.nodes.get i).rc := by
  by_cases h : i = a
  · subst h; exact C.rc
  · rw [C.other i h]
theorem adj' (i : Nat) : (g'.nodes.get i).adj = (g.nodes.get i).adj := by
  by_cases h : i = a
  · subst h; exact C.adj
  · rw [C.other i h]
theorem visited' (i : Nat) : (g'.nodes.get i).visited = (g.nodes.get i).visited := by
  by_cases h : i = a
  · subst h; exact C.visited
  · rw [C.other i h]
theorem color' (i : Nat) : (g'.nodes.get i).color = (g.nodes.get i).color := by
  by_cases h : i = a
  · subst h; exact C.color
  · rw [C.other i h]
theorem freed' (i : Nat) : (g'.nodes.get i).freed = (g.nodes.get i).freed := by
  by_cases h : i = a
  · subst h; exact C.freed
  · rw [C.other i h]
theorem dtorRuns' (i : Nat) : (g'.nodes.get i).dtorRuns = (g.nodes.get i).dtorRuns := by
  by_cases h : i = a
  · subst h; exact C.dtorRuns
  · rw [C.other i h]

/-- the counting equation for an `OwnedChange` -/
theorem inCount (ha : a < g.nextId) (i : Nat) :
    inCount g' i + contrib g i a = Gc.inCount g i + contrib g' i a :=
  inCount_update C.nextId ha (fun j hj => by rw [C.other j hj]) (fun j hj => by rw [C.other j hj]) i

end OwnedChange

/-- `GcInv` transfers along an `OwnedChange` of an unfreed allocated object whose new lists
    satisfy the contract, point to allocated unfreed objects, and keep the counts covered. -/
theorem gcinv_of_ownedChange {g g' : State} {a : Nat} (I : GcInv g) (C : OwnedChange g g' a)
    (ha : a < g.nextId) (hfa : (g.nodes.get a).freed = false)
    (hcontract : (g'.nodes.get a).traced = (g'.nodes.get a).owned)
    (hwf : ∀ t ∈ (g'.nodes.get a).owned, t < g.nextId)
    (hnd : ∀ t ∈ (g'.nodes.get a).owned, (g.nodes.get t).freed = false)
    (hcount : ∀ i, i < g.nextId → (g.nodes.get i).freed = false →
      inCount g' i ≤ (g.nodes.get i).rc) : GcInv g' := by
  refine { contract := ?_, wf := ?_, fresh := ?_, count := ?_, noDangling := ?_, freedEmpty := ?_,
           liveDtor := ?_, quiescent := ?_, rootsLt := ?_, tbf := ?_, noPanic := ?_ }
  · intro i
    by_cases hi : i = a
    · subst hi; exact hcontract
    · rw [C.other i hi]; exact I.contract i
  · intro i t ht; rw [C.nextId]
    by_cases hi : i = a
    · subst hi; exact hwf t ht
    · rw [C.other i hi] at ht; exact I.wf i t ht
  · intro i hi; rw [C.nextId] at hi
    have : i ≠ a := by omega
    rw [C.other i this]; exact I.fresh i hi
  · intro i hi hf
    rw [C.nextId] at hi; rw [C.freed'] at hf; rw [C.rc']
    exact hcount i hi hf
  · intro i t hf ht
    rw [C.freed'] at hf ⊢
    by_cases hi : i = a
    · subst hi; exact hnd t ht
    · rw [C.other i hi] at ht; exact I.noDangling i t hf ht
  · intro i hf
    rw [C.freed'] at hf
    have hi : i ≠ a := by intro h; subst h; simp [hfa] at hf
    rw [C.other i hi]; exact I.freedEmpty i hf
  · intro i hf
    rw [C.freed'] at hf; rw [C.dtorRuns']; exact I.liveDtor i hf
  · intro i
    rw [C.adj', C.visited', C.color']; exact I.quiescent i
  · intro r hr; rw [C.roots] at hr; rw [C.nextId]; exact I.rootsLt r hr
  · rw [C.tbf]; exact I.tbf
  · rw [C.panic]; exact I.noPanic

/-- store a reference to `b` in `a` (without touching any count) -/
def addOwned (g : State) (a b : Nat) : State :=
  g.upd a fun x => { x with traced := x.traced ++ [b], owned := x.owned ++ [b] }

/-- remove one stored reference to `b` from `a` (without touching any count) -/
def delOwned (g : State) (a b : Nat) : State :=
  g.upd a fun x => { x with traced := x.traced.erase b, owned := x.owned.erase b }

theorem addEdge_eq (g : State) (a b : Nat) : addEdge g a b = addOwned (incRef g b) a b := rfl
theorem delEdge_eq (g : State) (a b : Nat) : delEdge g a b = decRef (delOwned g a b) b := rfl

theorem addOwned_get (g : State) (a b i : Nat) :
    (addOwned g a b).nodes.get i =
      if i = a then { g.nodes.get a with traced := (g.nodes.get a).traced ++ [b],
                                         owned := (g.nodes.get a).owned ++ [b] }
      else g.nodes.get i := by
  simp only [addOwned, Store.get_set]

theorem delOwned_get (g : State) (a b i : Nat) :
    (delOwned g a b).nodes.get i =
      if i = a then { g.nodes.get a with traced := (g.nodes.get a).traced.erase b,
                                         owned := (g.nodes.get a).owned.erase b }
      else g.nodes.get i := by
  simp only [delOwned, Store.get_set]

theorem ownedChange_addOwned (g : State) (a b : Nat) : OwnedChange g (addOwned g a b) a := by
  refine ⟨rfl, rfl, rfl, rfl, ?_, ?_, ?_, ?_, ?_, ?_, ?_⟩
  · intro i hi; rw [addOwned_get]; simp [hi]
  all_goals (rw [addOwned_get]; simp)

theorem ownedChange_delOwned (g : State) (a b : Nat) : OwnedChange g (delOwned g a b) a := by
  refine ⟨rfl, rfl, rfl, rfl, ?_, ?_, ?_, ?_, ?_, ?_, ?_⟩
  · intro i hi; rw [delOwned_get]; simp [hi]
  all_goals (rw [delOwned_get]; simp)

theorem addOwned_inCount {g : State} {a : Nat} (b : Nat) (ha : a < g.nextId)
    (hfa : (g.nodes.get a).freed = false) (i : Nat) :
    inCount (addOwned g a b) i = inCount g i + (if i = b then 1 else 0) := by
  have h := (ownedChange_addOwned g a b).inCount ha i
  have hc : contrib (addOwned g a b) i a = contrib g i a + (if i = b then 1 else 0) := by
    unfold contrib
    rw [addOwned_get]
    simp only [if_true, hfa, Bool.false_eq_true, if_false, List.count_append, List.count_singleton,
      beq_iff_eq]
    by_cases hib : i = b
    · subst hib; simp
    · have : ¬ b = i := fun e => hib e.symm
      simp [hib, this]
  omega

theorem delOwned_inCount {g : State} {a b : Nat} (ha : a < g.nextId)
    (hfa : (g.nodes.get a).freed = false) (hb : b ∈ (g.nodes.get a).owned) (i : Nat) :
    inCount (delOwned g a b) i + (if i = b then 1 else 0) = inCount g i := by
  have h := (ownedChange_delOwned g a b).inCount ha i
  have hc : contrib (delOwned g a b) i a + (if i = b then 1 else 0) = contrib g i a := by
    unfold contrib
    rw [delOwned_get]
    simp only [if_true, hfa, Bool.false_eq_true, if_false, List.count_erase, beq_iff_eq]
    by_cases hib : i = b
    · subst hib
      have : 0 < List.count i (g.nodes.get a).owned := List.count_pos_iff.mpr hb
      simp only [if_true]; omega
    · have : ¬ b = i := fun e => hib e.symm
      simp [hib, this]
  omega

theorem gcinv_addOwned {g : State} {a b : Nat} (I : GcInv g) (ha : a < g.nextId)
    (hb : b < g.nextId) (hfa : (g.nodes.get a).freed = false)
    (hfb : (g.nodes.get b).freed = false) (he : 0 < ext g b) : GcInv (addOwned g a b) := by
  have hlt : inCount g b < (g.nodes.get b).rc := by unfold ext at he; omega
  apply gcinv_of_ownedChange I (ownedChange_addOwned g a b) ha hfa
  · rw [addOwned_get]; simp only [if_true]; rw [I.contract a]
  · intro t ht; rw [addOwned_get] at ht
    simp only [if_true, List.mem_append, List.mem_singleton] at ht
    rcases ht with ht | ht
    · exact I.wf a t ht
    · omega
  · intro t ht; rw [addOwned_get] at ht
    simp only [if_true, List.mem_append, List.mem_singleton] at ht
    rcases ht with ht | ht
    · exact I.noDangling a t hfa ht
    · rw [ht]; exact hfb
  · intro i _ _
    rw [addOwned_inCount b ha hfa]
    have := I.count' i
    by_cases hib : i = b
    · subst hib; simp only [if_true]; omega
    · simp only [hib, if_false]; omega

theorem ext_addOwned {g : State} {a : Nat} (b : Nat) (ha : a < g.nextId)
    (hfa : (g.nodes.get a).freed = false) (i : Nat) :
    ext (addOwned g a b) i = ext g i - (if i = b then 1 else 0) := by
  unfold ext
  rw [addOwned_inCount b ha hfa, (ownedChange_addOwned g a b).rc']
  omega

theorem gcinv_delOwned {g : State} {a b : Nat} (I : GcInv g) (ha : a < g.nextId)
    (hfa : (g.nodes.get a).freed = false) (hb : b ∈ (g.nodes.get a).owned) :
    GcInv (delOwned g a b) := by
  apply gcinv_of_ownedChange I (ownedChange_delOwned g a b) ha hfa
  · rw [delOwned_get]; simp only [if_true]; rw [I.contract a]
  · intro t ht; rw [delOwned_get] at ht
    simp only [if_true] at ht
    exact I.wf a t (List.mem_of_mem_erase ht)
  · intro t ht; rw [delOwned_get] at ht
    simp only [if_true] at ht
    exact I.noDangling a t hfa (List.mem_of_mem_erase ht)
  · intro i _ _
    have := delOwned_inCount ha hfa hb i
    have := I.count' i
    omega

theorem ext_delOwned {g : State} {a b : Nat} (I : GcInv g) (ha : a < g.nextId)
    (hfa : (g.nodes.get a).freed = false) (hb : b ∈ (g.nodes.get a).owned) (i : Nat) :
    ext (delOwned g a b) i = ext g i + (if i = b then 1 else 0) := by
  have h1 := delOwned_inCount ha hfa hb i
  have h2 := I.count' i
  unfold ext
  rw [(ownedChange_delOwned g a b).rc']
  omega

/-! ### 5. `edge` -/

theorem gcinv_addEdge {g : State} {a b : Nat} (I : GcInv g) (ha : a < g.nextId)
    (hb : b < g.nextId) (hfa : (g.nodes.get a).freed = false)
    (hfb : (g.nodes.get b).freed = false) : GcInv (addEdge g a b) := by
  have F := rcOnly_incRef hfb
  rw [addEdge_eq]
  apply gcinv_addOwned (gcinv_incRef I hb hfb)
  · rw [F.nextId]; exact ha
  · rw [F.nextId]; exact hb
  · rw [F.freed]; exact hfa
  · rw [F.freed]; exact hfb
  · rw [ext_incRef_self I hfb]; omega

theorem ext_addEdge {g : State} {a b : Nat} (I : GcInv g) (ha : a < g.nextId)
    (hfa : (g.nodes.get a).freed = false) (hfb : (g.nodes.get b).freed = false) (i : Nat) :
    ext (addEdge g a b) i = ext g i := by
  have F := rcOnly_incRef hfb
  rw [addEdge_eq, ext_addOwned b (by rw [F.nextId]; exact ha) (by rw [F.freed]; exact hfa)]
  by_cases hib : i = b
  · subst hib; rw [ext_incRef_self I hfb]; simp
  · rw [ext_incRef_other hfb hib]; simp [hib]

/-! ### 6. `unedge` -/

theorem gcinv_delEdge {g : State} {a b : Nat} (I : GcInv g) (ha : a < g.nextId)
    (hfa : (g.nodes.get a).freed = false) (hb : b ∈ (g.nodes.get a).owned) :
    GcInv (delEdge g a b) := by
  rw [delEdge_eq]
  apply gcinv_decRef_handle (gcinv_delOwned I ha hfa hb)
  · exact I.wf a b hb
  · rw [ext_delOwned I ha hfa hb]; simp

theorem ext_delEdge {g : State} {a b : Nat} (I : GcInv g) (ha : a < g.nextId)
    (hfa : (g.nodes.get a).freed = false) (hb : b ∈ (g.nodes.get a).owned) (i : Nat) :
    ext (delEdge g a b) i = ext g i := by
  rw [delEdge_eq]
  by_cases hib : i = b
  · subst hib
    rw [ext_decRef_self (by rw [ext_delOwned I ha hfa hb]; simp), ext_delOwned I ha hfa hb]
    simp
  · rw [ext_decRef_other _ hib, ext_delOwned I ha hfa hb]; simp [hib]

/-! ### 7. `updrop` -/

theorem upgradeDrop_eq (g : State) (n : Nat) :
    upgradeDrop g n =
      if (g.nodes.get n).rc ≠ 0 ∧ (g.nodes.get n).freed = false then decRef (incRef g n) n
      else g := by
  unfold upgradeDrop incRefIfAlive
  by_cases h : (g.nodes.get n).rc ≠ 0 ∧ (g.nodes.get n).freed = false
  · rw [if_pos h, incRef_eq h.2]
    simp [State.node, h.1, h.2]
  · rw [if_neg h]
    have : ¬ ((g.nodes.get n).rc ≠ 0 ∧ ¬ (g.nodes.get n).freed = true) := by simpa using h
    simp only [State.node, this, if_false]
    simp

/-- the failed upgrade returns the state unchanged, so the `else` branch may name either state -/
theorem upgradeDrop_eq_orig (g : State) (n : Nat) :
    upgradeDrop g n = (let (g1, ok) := incRefIfAlive g n; if ok then decRef g1 n else g) := by
  unfold upgradeDrop incRefIfAlive
  by_cases h : (g.node n).rc ≠ 0 ∧ ¬ (g.node n).freed = true
  · simp only [if_pos h, if_true]
  · simp only [if_neg h, Bool.false_eq_true, if_false]

theorem gcinv_upgradeDrop {g : State} {n : Nat} (I : GcInv g) (hn : n < g.nextId) :
    GcInv (upgradeDrop g n) := by
  rw [upgradeDrop_eq]
  split
  · rename_i h
    apply gcinv_decRef_handle (gcinv_incRef I hn h.2)
    · rw [(rcOnly_incRef h.2).nextId]; exact hn
    · rw [ext_incRef_self I h.2]; omega
  · exact I

theorem ext_upgradeDrop {g : State} {n : Nat} (I : GcInv g) (i : Nat) :
    ext (upgradeDrop g n) i = ext g i := by
  rw [upgradeDrop_eq]
  split
  · rename_i h
    by_cases hi : i = n
    · subst hi
      rw [ext_decRef_self (by rw [ext_incRef_self I h.2]; omega), ext_incRef_self I h.2]
      omega
    · rw [ext_decRef_other _ hi, ext_incRef_other h.2 hi]
  · rfl

/-! ### the abbreviations are what `GcScript.apply` does -/

theorem apply_new_g {s s' : GcScript.St} (h : GcScript.apply s .new = some s') :
    s'.g = (newNode s.g).1 := by
  simp only [GcScript.apply, Option.some.injEq] at h
  subst h; rfl

theorem apply_inc_g {s s' : GcScript.St} {a : Nat} (h : GcScript.apply s (.inc a) = some s') :
    s'.g = incRef s.g a := by
  simp only [GcScript.apply] at h
  split at h
  · simp only [Option.some.injEq] at h; subst h; rfl
  · cases h

theorem apply_dec_g {s s' : GcScript.St} {a : Nat} (h : GcScript.apply s (.dec a) = some s') :
    s'.g = decRef s.g a := by
  simp only [GcScript.apply] at h
  split at h
  · simp only [Option.some.injEq] at h; subst h; rfl
  · cases h

theorem apply_edge_g {s s' : GcScript.St} {a b : Nat}
    (h : GcScript.apply s (.edge a b) = some s') : s'.g = addEdge s.g a b := by
  simp only [GcScript.apply] at h
  split at h
  · simp only [Option.some.injEq] at h; subst h; rfl
  · cases h

theorem apply_unedge_g {s s' : GcScript.St} {a b : Nat}
    (h : GcScript.apply s (.unedge a b) = some s') :
    s'.g = delEdge s.g a b ∧ a < s.g.nextId ∧ (s.g.nodes.get a).freed = false ∧
      b ∈ (s.g.nodes.get a).owned := by
  simp only [GcScript.apply] at h
  split at h
  · rename_i hc
    simp only [Option.some.injEq] at h; subst h
    refine ⟨rfl, hc.1, by simpa [State.node] using hc.2.2.2.1, ?_⟩
    simpa [State.node] using hc.2.2.2.2.2
  · cases h

theorem apply_updrop_g {s s' : GcScript.St} {a : Nat}
    (h : GcScript.apply s (.updrop a) = some s') : s'.g = upgradeDrop s.g a := by
  simp only [GcScript.apply] at h
  split at h
  · simp only [Option.some.injEq] at h; subst h; rfl
  · cases h

end Gc
end SodiumVerif
