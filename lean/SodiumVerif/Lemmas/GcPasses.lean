/-
  Two passes suffice.  From a state satisfying the collector invariant `GcInv` and the buffer
  invariant `BufInv`, the first pass of `collect_cycles` frees all garbage
  (`onePass_frees_garbage`), so everything still unfreed is live; a pass never frees a live object
  (`onePass_spec`), so the second pass frees nothing and therefore — by the progress fact of
  `Lemmas/GcFuel` — ends with both buffers empty.  Hence `collect_cycles` runs at most two passes
  and its total cost is linear: at most 18 `trace()` calls per object and 18 callbacks per edge.
-/
import SodiumVerif.Lemmas.GcFuel
import SodiumVerif.Lemmas.GcCompletePass

set_option linter.unusedSimpArgs false

namespace SodiumVerif
namespace Gc
open State

/-! ### preliminaries -/

/-- the invariant bounds every id the collector can meet (same as `GcInv.bounded` of `Props/C06`,
    restated here to keep this file below the `Props` layer) -/
theorem GcInv.bounded_nextId {g : State} (I : GcInv g) : Bounded g.nextId g :=
  ⟨fun i t ht => I.wf i t (by rw [← I.contract i]; exact ht), I.wf, I.rootsLt,
   fun r hr => by rw [I.tbf] at hr; cases hr⟩

/-- `unfreed` only looks at the `freed` flags below `N` -/
theorem unfreed_congr {N : Nat} {g g' : State}
    (h : ∀ i, i < N → (g'.nodes.get i).freed = (g.nodes.get i).freed) :
    unfreed N g' = unfreed N g := by
  unfold unfreed
  apply List.countP_congr
  intro i hi
  rw [h i (List.mem_range.mp hi)]

/-- under the invariant a pass never runs out of fuel -/
theorem onePass_oof_inv {g : State} (I : GcInv g) : (onePass g).oof = g.oof :=
  onePass_oof g I.bounded_nextId.wf.1 I.bounded_nextId.wf.2

/-- a pass never frees a live object -/
theorem onePass_keeps_live {g : State} (I : GcInv g) (ho : (onePass g).oof = false) (i : Nat)
    (h : Live g i) : ((onePass g).nodes.get i).freed = false :=
  ((onePass_spec I ho).passes I).live i h

/-! ### a pass from a state without garbage -/

/-- a pass from a state in which every allocated unfreed object is live frees nothing: every
    `freed` flag is as it was (objects freed earlier may be re-buffered and walked again — they
    stay freed) -/
theorem onePass_freed_eq_of_noGarbage {g : State} (I : GcInv g) (NG : NoGarbage g)
    (ho : (onePass g).oof = false) (i : Nat) :
    ((onePass g).nodes.get i).freed = (g.nodes.get i).freed := by
  have P := onePass_spec I ho
  by_cases hi : i < g.nextId
  · cases hf : (g.nodes.get i).freed with
    | false => exact onePass_keeps_live I ho i (NG i hi hf)
    | true =>
      cases hf' : ((onePass g).nodes.get i).freed with
      | true => rfl
      | false => rw [(P.mono i hf').1] at hf; cases hf
  · have h1 : g.nodes.get i = default := I.fresh i (by omega)
    have h2 : (onePass g).nodes.get i = default := P.inv.fresh i (by rw [P.nextId]; omega)
    rw [h1, h2]

/-- … so it ends with both buffers empty, in a state that again has no garbage -/
theorem onePass_stable_of_noGarbage {g : State} (I : GcInv g) (NG : NoGarbage g)
    (h0 : g.oof = false) :
    GcInv (onePass g) ∧ NoGarbage (onePass g) ∧ (onePass g).oof = false ∧
    (∀ i, ((onePass g).nodes.get i).freed = (g.nodes.get i).freed) ∧
    unfreed g.nextId (onePass g) = unfreed g.nextId g ∧
    (onePass g).roots = [] ∧ (onePass g).toBeFreed = [] ∧ (onePass g).panic = none := by
  have ho : (onePass g).oof = false := by rw [onePass_oof_inv I]; exact h0
  have P := onePass_spec I ho
  have hfr := onePass_freed_eq_of_noGarbage I NG ho
  have hu : unfreed g.nextId (onePass g) = unfreed g.nextId g := unfreed_congr fun i _ => hfr i
  have hp := onePass_pass g g.nextId rfl I.bounded_nextId
  exact ⟨P.inv, NG.passes I (P.passes I), ho, hfr, hu, hp.prog hu, hp.tbf, P.inv.noPanic⟩

/-! ### the second pass of a collection -/

/-- **The second pass frees nothing.**  After the first pass from `GcInv ∧ BufInv` no garbage is
    left; the second pass keeps every `freed` flag (so `unfreed` is unchanged) and ends with both
    buffers empty, without panic and without running out of fuel. -/
theorem second_pass_frees_nothing {g : State} (I : GcInv g) (B : BufInv g) (h0 : g.oof = false) :
    GcInv (onePass g) ∧ NoGarbage (onePass g) ∧ (onePass g).oof = false ∧
    (∀ i, ((onePass (onePass g)).nodes.get i).freed = ((onePass g).nodes.get i).freed) ∧
    unfreed g.nextId (onePass (onePass g)) = unfreed g.nextId (onePass g) ∧
    (onePass (onePass g)).roots = [] ∧ (onePass (onePass g)).toBeFreed = [] ∧
    (onePass (onePass g)).panic = none ∧ (onePass (onePass g)).oof = false ∧
    GcInv (onePass (onePass g)) ∧ NoGarbage (onePass (onePass g)) := by
  have ho : (onePass g).oof = false := by rw [onePass_oof_inv I]; exact h0
  have P := onePass_spec I ho
  have NG := onePass_noGarbage I B ho
  obtain ⟨I2, NG2, ho2, hfr, hu, hr, ht, hp⟩ := onePass_stable_of_noGarbage P.inv NG ho
  rw [P.nextId] at hu
  exact ⟨P.inv, NG, ho, hfr, hu, hr, ht, hp, ho2, I2, NG2⟩

/-! ### the loop stops after at most two passes -/

theorem collectLoop_two (fuel : Nat) {g : State} (I : GcInv g) (B : BufInv g)
    (h0 : g.oof = false) :
    collectLoop (fuel + 2) g =
      if (onePass g).roots = [] then onePass g else onePass (onePass g) := by
  obtain ⟨I1, _, _, _, _, hr2, ht2, hp2, _, _, _⟩ := second_pass_frees_nothing I B h0
  have hp1 : ¬ (onePass g).panic.isSome = true := by rw [I1.noPanic]; simp
  have hp2' : ¬ (onePass (onePass g)).panic.isSome = true := by rw [hp2]; simp
  show collectLoop ((fuel + 1) + 1) g = _
  rw [collectLoop_succ, if_neg hp1]
  by_cases he : (onePass g).roots = []
  · rw [if_pos he, if_pos ⟨by rw [he]; rfl, by rw [I1.tbf]; rfl⟩]
  · rw [if_neg he, if_neg (fun h => he (List.isEmpty_iff.mp h.1))]
    rw [collectLoop_succ, if_neg hp2', if_pos ⟨by rw [hr2]; rfl, by rw [ht2]; rfl⟩]

/-- **`collect_cycles` runs at most two passes**: one if the first pass leaves the candidate
    buffer empty (the pending list is always empty after a pass), two otherwise. -/
theorem collectCycles_two_passes {g : State} (I : GcInv g) (B : BufInv g) (h0 : g.oof = false) :
    collectCycles g = if (onePass g).roots = [] then onePass g else onePass (onePass g) :=
  collectLoop_two g.nextId I B h0

/-- the same, as a number of iterations of `onePass` -/
theorem collectCycles_iterate {g : State} (I : GcInv g) (B : BufInv g) (h0 : g.oof = false) :
    ∃ k, 1 ≤ k ∧ k ≤ 2 ∧ collectCycles g = Nat.repeat onePass k g := by
  rw [collectCycles_two_passes I B h0]
  by_cases he : (onePass g).roots = []
  · exact ⟨1, by omega, by omega, by rw [if_pos he]; rfl⟩
  · exact ⟨2, by omega, by omega, by rw [if_neg he]; rfl⟩

/-- the second pass of a collection is idle whenever it runs: a collection and its first pass
    free exactly the same objects -/
theorem collectCycles_freed_eq_onePass {g : State} (I : GcInv g) (B : BufInv g)
    (h0 : g.oof = false) (i : Nat) :
    ((collectCycles g).nodes.get i).freed = ((onePass g).nodes.get i).freed := by
  rw [collectCycles_two_passes I B h0]
  split
  · rfl
  · exact (second_pass_frees_nothing I B h0).2.2.2.1 i

/-! ### linear total cost -/

/-- **Total cost of a collection, linear in the graph**: at most 18 `trace()` calls per allocated
    object and 18 tracer callbacks per reported edge (two passes at the `onePass_cost` bound). -/
theorem collectCycles_linear {g : State} (I : GcInv g) (B : BufInv g) (h0 : g.oof = false) :
    (collectCycles g).traceCalls ≤ g.traceCalls + 18 * g.nextId ∧
    (collectCycles g).edgeCalls ≤ g.edgeCalls + 18 * totalEdges g := by
  have p1 := onePass_pass g g.nextId rfl I.bounded_nextId
  have p2 := onePass_pass (onePass g) g.nextId p1.nextId p1.bounded
  have c1 := p1.cost; have e1 := p1.ecost; have c2 := p2.cost; have e2 := p2.ecost
  have hle := p1.edges_le
  rw [collectCycles_two_passes I B h0]
  split
  · exact ⟨by omega, by omega⟩
  · exact ⟨by omega, by omega⟩

/-! ### the sharper form: any edge-closed set containing the candidate buffer

  The candidates of the second pass are targets of owned references of objects freed by the first
  pass, hence inside every edge-closed set `S` that contains the candidates of the first pass; so
  both passes stay inside `S`. -/

/-- freeing steps: every new candidate satisfies `P`, lists of owned references only shrink, the
    pending list does not grow -/
structure RootsIn (P : Nat → Prop) (g g' : State) : Prop where
  roots : ∀ r ∈ g'.roots, r ∈ g.roots ∨ P r
  owned : ∀ i, ∀ t ∈ (g'.nodes.get i).owned, t ∈ (g.nodes.get i).owned
  tbf : ∀ x ∈ g'.toBeFreed, x ∈ g.toBeFreed

namespace RootsIn
variable {P : Nat → Prop} {g g' g'' : State}

theorem refl (g : State) : RootsIn P g g := ⟨fun _ h => Or.inl h, fun _ _ h => h, fun _ h => h⟩

theorem trans (h1 : RootsIn P g g') (h2 : RootsIn P g' g'') : RootsIn P g g'' :=
  ⟨fun r hr => by
    rcases h2.roots r hr with h | h
    · exact h1.roots r h
    · exact Or.inr h,
   fun i t ht => h1.owned i t (h2.owned i t ht), fun x hx => h1.tbf x (h2.tbf x hx)⟩

end RootsIn

theorem decRef_rootsIn (P : Nat → Prop) (g : State) (n : Nat) (hn : P n) :
    RootsIn P g (decRef g n) := by
  have h := decRef_frame g n
  have F := rcOnly_decRef g n
  refine ⟨fun r hr => ?_, fun i t ht => by rw [F.owned] at ht; exact ht,
    fun x hx => by rw [F.tbf] at hx; exact hx⟩
  rcases h.2.2.2 r hr with h' | h'
  · exact Or.inl h'
  · rw [h']; exact Or.inr hn

theorem decRef_fold_rootsIn (P : Nat → Prop) : ∀ (l : List Nat) (g : State), (∀ t ∈ l, P t) →
    RootsIn P g (l.foldl decRef g) := by
  intro l
  induction l with
  | nil => intro g _; exact RootsIn.refl g
  | cons a t ih =>
    intro g hl
    exact (decRef_rootsIn P g a (hl a List.mem_cons_self)).trans
      (ih (decRef g a) (fun x hx => hl x (List.mem_cons_of_mem _ hx)))

theorem free_rootsIn (P : Nat → Prop) (g : State) (n : Nat)
    (h : ∀ t ∈ (g.nodes.get n).owned, P t) : RootsIn P g (free g n) := by
  rw [free_eq_c]
  split
  · refine RootsIn.trans ?_ (decRef_fold_rootsIn P _ _ h)
    refine ⟨fun r hr => Or.inl hr, fun i t ht => ?_, fun x hx => hx⟩
    by_cases hi : i = n
    · subst hi; simp [State.upd, Store.get_set] at ht
    · simpa [State.upd, Store.get_set, hi] using ht
  · refine ⟨fun r hr => Or.inl hr, fun i t ht => ?_, fun x hx => hx⟩
    by_cases hi : i = n
    · subst hi; simpa [State.upd, Store.get_set] using ht
    · simpa [State.upd, Store.get_set, hi] using ht

theorem freeCollected_rootsIn (P : Nat → Prop) (g : State) (n : Nat)
    (h : ∀ t ∈ (g.nodes.get n).owned, P t) : RootsIn P g (freeCollected g n) := by
  unfold freeCollected
  split
  · have h1 := free_rootsIn P g n h
    exact ⟨fun r hr => h1.roots r (List.mem_filter.mp hr).1, h1.owned, h1.tbf⟩
  · exact RootsIn.refl g

theorem freeCollected_fold_rootsIn (P : Nat → Prop) : ∀ (l : List Nat) (g : State),
    (∀ i ∈ l, ∀ t ∈ (g.nodes.get i).owned, P t) → RootsIn P g (l.foldl freeCollected g) := by
  intro l
  induction l with
  | nil => intro g _; exact RootsIn.refl g
  | cons a t ih =>
    intro g hl
    have h1 := freeCollected_rootsIn P g a (hl a List.mem_cons_self)
    exact h1.trans (ih (freeCollected g a)
      (fun i hi x hx => hl i (List.mem_cons_of_mem _ hi) x (h1.owned i x hx)))

theorem checkZero_toBeFreed (g : State) (l : List Nat) :
    (checkZero g l).toBeFreed = g.toBeFreed := by
  unfold checkZero
  induction l generalizing g with
  | nil => rfl
  | cons t rest ih =>
    simp only [List.foldl_cons]
    rw [ih]
    split
    · exact State.setPanic_toBeFreed g _
    · rfl

theorem checkZero_rootsIn (P : Nat → Prop) (g : State) (l : List Nat) :
    RootsIn P g (checkZero g l) :=
  ⟨fun r hr => by rw [checkZero_roots] at hr; exact Or.inl hr,
   fun i t ht => by rw [checkZero_nodes] at ht; exact ht,
   fun x hx => by rw [checkZero_toBeFreed] at hx; exact hx⟩

/-- the candidates `collect_roots` leaves behind (re-buffered by the destructors it ran) lie in
    every edge-closed set containing the candidates and the pending objects it started from -/
theorem collectRoots_roots_in {S : List Nat} (hS : S.Nodup) (g : State)
    (hr : ∀ r ∈ g.roots, r ∈ S) (ht : ∀ r ∈ g.toBeFreed, r ∈ S) (hc : Closed g S)
    (hco : ∀ i, (g.nodes.get i).traced = (g.nodes.get i).owned) :
    ∀ r ∈ (collectRoots g).roots, r ∈ S := by
  rw [collectRoots_eq_c]
  simp only []
  have hw := collectRoots_white hS { g with roots := [] } g.roots hr hc _ rfl
  generalize g.roots.foldl (cwRootStep (walkFuel { g with roots := [] })) ({ g with roots := [] }, [])
    = r1 at hw ⊢
  obtain ⟨h1, hwhite, hroots1⟩ := hw
  have hroots1' : r1.1.roots = [] := hroots1
  have hown1 : ∀ i ∈ S, ∀ t ∈ (r1.1.nodes.get i).owned, t ∈ S := by
    intro i hi t htm
    rw [(h1.frame.node i).owned] at htm
    have htm' : t ∈ (g.nodes.get i).owned := htm
    rw [← hco i] at htm'
    exact hc i hi t htm'
  have htbf1 : ∀ x ∈ r1.1.toBeFreed, x ∈ S := by
    intro x hx
    rcases h1.tbf x hx with h | h
    · exact ht x h
    · exact h
  have p2 := freeCollected_fold_rootsIn (· ∈ S) r1.2 r1.1 (fun i hi => hown1 i (hwhite i hi))
  generalize r1.2.foldl freeCollected r1.1 = g2 at p2 ⊢
  have htbf2 : ∀ x ∈ g2.toBeFreed, x ∈ S := fun x hx => htbf1 x (p2.tbf x hx)
  have p3 : RootsIn (· ∈ S) g2 { g2 with toBeFreed := [] } :=
    ⟨fun _ h => Or.inl h, fun _ _ h => h, fun x hx => by cases hx⟩
  have p4 := freeCollected_fold_rootsIn (· ∈ S) g2.toBeFreed { g2 with toBeFreed := [] }
    (fun i hi t htm => hown1 i (htbf2 i hi) t (p2.owned i t htm))
  generalize g2.toBeFreed.foldl freeCollected { g2 with toBeFreed := [] } = g4 at p4 ⊢
  have p5 := checkZero_rootsIn (· ∈ S) g4 r1.2
  have p6 := checkZero_rootsIn (· ∈ S) (checkZero g4 r1.2) g2.toBeFreed
  have p := (((p2.trans p3).trans p4).trans p5).trans p6
  intro r hr'
  rcases p.roots r hr' with h | h
  · rw [hroots1'] at h; cases h
  · exact h

/-- the candidates a pass leaves for the next one lie in every edge-closed set containing the
    candidates it started from -/
theorem onePass_roots_in {S : List Nat} (hS : S.Nodup) {g : State} (I : GcInv g)
    (hr : ∀ r ∈ g.roots, r ∈ S) (hc : Closed g S) :
    ∀ r ∈ (onePass g).roots, r ∈ S := by
  unfold onePass
  have h1 := markRoots_phase hS g hr hc
  have hc1 : Closed (markRoots g) S := hc.of_same h1.1.frame.same
  have hr1 : ∀ r ∈ (markRoots g).roots, r ∈ S := fun r h => hr r (h1.2 r h)
  have h2 := scanRoots_phase hS (markRoots g) hr1 hc1
  have hc2 : Closed (scanRoots (markRoots g)) S := hc1.of_same h2.1.frame.same
  have hr2 : ∀ r ∈ (scanRoots (markRoots g)).roots, r ∈ S := by rw [h2.2]; exact hr1
  have hF := h1.1.frame.trans h2.1.frame
  apply collectRoots_roots_in hS _ hr2 ?_ hc2
  · intro i
    rw [(hF.node i).traced, (hF.node i).owned]; exact I.contract i
  · intro x hx
    rcases h2.1.tbf x hx with h | h
    · rcases h1.1.tbf x h with h' | h'
      · rw [I.tbf] at h'; cases h'
      · exact h'
    · exact h

/-- a pass only ever clears edge lists (of the objects it frees) -/
theorem onePass_traced {g : State} (I : GcInv g) (ho : (onePass g).oof = false) (i : Nat) :
    ((onePass g).nodes.get i).traced = (g.nodes.get i).traced ∨
      ((onePass g).nodes.get i).traced = [] := by
  have P := onePass_spec I ho
  cases hf : ((onePass g).nodes.get i).freed with
  | false =>
    left
    rw [P.inv.contract i, I.contract i]; exact (P.mono i hf).2
  | true =>
    right
    rw [P.inv.contract i]; exact (P.inv.freedEmpty i hf).1

theorem onePass_closed {S : List Nat} {g : State} (I : GcInv g) (ho : (onePass g).oof = false)
    (hc : Closed g S) : Closed (onePass g) S := by
  intro i hi t htm
  rcases onePass_traced I ho i with e | e
  · rw [e] at htm; exact hc i hi t htm
  · rw [e] at htm; cases htm

theorem msum_elen_le {g g' : State}
    (h : ∀ i, (g'.nodes.get i).traced = (g.nodes.get i).traced ∨ (g'.nodes.get i).traced = [])
    (S : List Nat) : msum elen S g' ≤ msum elen S g := by
  unfold msum
  induction S with
  | nil => exact Nat.le_refl _
  | cons a t ih =>
    have : elen (g'.nodes.get a) ≤ elen (g.nodes.get a) := by
      unfold elen
      rcases h a with e | e <;> rw [e]
      · exact Nat.le_refl _
      · exact Nat.zero_le _
    simp only [List.map_cons, List.sum_cons]; omega

/-- **Total cost of a collection, linear in the part of the graph it can reach**: for every
    duplicate-free edge-closed set `S` of objects containing the candidate buffer (e.g. what is
    reachable from the candidates), at most 18 `trace()` calls per object of `S` and 18 callbacks
    per edge leaving `S`. -/
theorem collectCycles_linear_on {S : List Nat} (hS : S.Nodup) {g : State} (I : GcInv g)
    (B : BufInv g) (h0 : g.oof = false) (hr : ∀ r ∈ g.roots, r ∈ S) (hc : Closed g S) :
    (collectCycles g).traceCalls ≤ g.traceCalls + 18 * S.length ∧
    (collectCycles g).edgeCalls ≤ g.edgeCalls + 18 * msum elen S g := by
  have ho : (onePass g).oof = false := by rw [onePass_oof_inv I]; exact h0
  have p1 := onePass_cost hS g hr hc
  have p2 := onePass_cost hS (onePass g) (onePass_roots_in hS I hr hc) (onePass_closed I ho hc)
  have hle := msum_elen_le (onePass_traced I ho) S
  rw [collectCycles_two_passes I B h0]
  split
  · exact ⟨by omega, by omega⟩
  · exact ⟨by omega, by omega⟩

end Gc
end SodiumVerif
