/-
  `scan` / `scan_black`: only colours change; black is final, nothing becomes gray, an object is
  whitened only when `adj = rc`, a newly blackened object has only black children afterwards and
  an object that stopped being gray has no gray child afterwards.
-/
import SodiumVerif.Lemmas.GcMark

namespace SodiumVerif
namespace Gc
open State

def GNode.setColor (x : GNode) (c : Color) : GNode := { x with color := c }

@[simp] theorem GNode.setColor_color (x : GNode) (c : Color) : (x.setColor c).color = c := rfl
@[simp] theorem GNode.setColor_setColor (x : GNode) (c d : Color) :
    (x.setColor c).setColor d = x.setColor d := rfl
@[simp] theorem GNode.setColor_self (x : GNode) : x.setColor x.color = x := rfl
@[simp] theorem GNode.setColor_adj (x : GNode) (c : Color) : (x.setColor c).adj = x.adj := rfl
@[simp] theorem GNode.setColor_rc (x : GNode) (c : Color) : (x.setColor c).rc = x.rc := rfl
@[simp] theorem GNode.setColor_visited (x : GNode) (c : Color) : (x.setColor c).visited = x.visited := rfl
@[simp] theorem GNode.setColor_traced (x : GNode) (c : Color) : (x.setColor c).traced = x.traced := rfl

/-- effect of (a sequence of) `scan` / `scan_black` walks -/
structure Sc (g g' : State) : Prop where
  walk : WalkP g g'
  rest : ∀ i, g'.nodes.get i = (g.nodes.get i).setColor (g'.nodes.get i).color
  color : ∀ i, (g'.nodes.get i).color = (g.nodes.get i).color ∨ (g'.nodes.get i).color = .black ∨
    ((g.nodes.get i).color = .gray ∧ (g'.nodes.get i).color = .white ∧
      (g.nodes.get i).adj = (g.nodes.get i).rc)
  blackClosed : ∀ i, (g.nodes.get i).color ≠ .black → (g'.nodes.get i).color = .black →
    g'.oof = false → ∀ c ∈ (g.nodes.get i).traced, (g'.nodes.get c).color = .black
  grayClosed : ∀ i, (g.nodes.get i).color = .gray → (g'.nodes.get i).color ≠ .gray →
    g'.oof = false → ∀ c ∈ (g.nodes.get i).traced, (g'.nodes.get c).color ≠ .gray
  ge : ∀ i, g.nextId ≤ i → (g'.nodes.get i).color = (g.nodes.get i).color

namespace Sc
variable {g g' g'' : State}

theorem refl (g : State) : Sc g g :=
  ⟨WalkP.refl g, fun _ => rfl, fun _ => .inl rfl, fun _ h h' => absurd h' h,
   fun _ h h' => absurd h h', fun _ _ => rfl⟩

theorem black_mono (h : Sc g g') (i : Nat) (hb : (g.nodes.get i).color = .black) :
    (g'.nodes.get i).color = .black := by
  rcases h.color i with e | e | ⟨e, _⟩
  · rw [e]; exact hb
  · exact e
  · rw [hb] at e; cases e

theorem nongray_mono (h : Sc g g') (i : Nat) (hb : (g.nodes.get i).color ≠ .gray) :
    (g'.nodes.get i).color ≠ .gray := by
  rcases h.color i with e | e | ⟨e, _⟩
  · rw [e]; exact hb
  · rw [e]; intro h; cases h
  · exact absurd e hb

theorem adj (h : Sc g g') (i : Nat) : (g'.nodes.get i).adj = (g.nodes.get i).adj := by
  rw [h.rest i]; rfl

theorem visited (h : Sc g g') (i : Nat) : (g'.nodes.get i).visited = (g.nodes.get i).visited := by
  rw [h.rest i]; rfl

theorem trans (h1 : Sc g g') (h2 : Sc g' g'') : Sc g g'' := by
  refine ⟨h1.walk.trans h2.walk, fun i => ?_, fun i => ?_, fun i hn hb ho => ?_,
    fun i hn hb ho => ?_, fun i hi => ?_⟩
  · rw [h2.rest i, h1.rest i]; rfl
  · rcases h1.color i with e1 | e1 | ⟨e1, e1', e1''⟩
    · have := h2.color i
      rw [e1, h1.adj i, h1.walk.toWalk.rc i] at this
      exact this
    · exact .inr (.inl (h2.black_mono i e1))
    · rcases h2.color i with e2 | e2 | ⟨e2, _⟩
      · exact .inr (.inr ⟨e1, e2.trans e1', e1''⟩)
      · exact .inr (.inl e2)
      · rw [e1'] at e2; cases e2
  · have ho' := h2.walk.toWalk.oof_false ho
    by_cases hb' : (g'.nodes.get i).color = .black
    · intro c hc; exact h2.black_mono c (h1.blackClosed i hn hb' ho' c hc)
    · have := h2.blackClosed i hb' hb ho
      rw [h1.walk.toWalk.traced i] at this
      exact this
  · have ho' := h2.walk.toWalk.oof_false ho
    by_cases hb' : (g'.nodes.get i).color = .gray
    · have := h2.grayClosed i hb' hb ho
      rw [h1.walk.toWalk.traced i] at this
      exact this
    · intro c hc; exact h2.nongray_mono c (h1.grayClosed i hn hb' ho' c hc)
  · rw [h2.ge i (by rw [h1.walk.toWalk.nextId]; exact hi), h1.ge i hi]

end Sc

theorem sc_of_nodes_eq {g g' : State} (hw : WalkP g g') (h : g'.nodes = g.nodes) : Sc g g' :=
  ⟨hw, fun i => by rw [h]; rfl, fun i => .inl (by rw [h]), fun i hn hb => by rw [h] at hb; exact absurd hb hn,
   fun i hn hb => by rw [h] at hb; exact absurd hn hb, fun i _ => by rw [h]⟩

/-- Recolour `s` (to a non-gray colour `c`), then run a walk `g1 ⟶ g'` satisfying `Sc`;
    the closure obligations for `s` itself are supplied separately. -/
theorem sc_of_recolor {g g1 g' : State} {s : Nat} {c : Color} (hs : s < g.nextId)
    (hw1 : WalkP g g1)
    (hn1 : ∀ i, g1.nodes.get i = if i = s then (g.nodes.get s).setColor c else g.nodes.get i)
    (hR : Sc g1 g')
    (hcol : c = .black ∨ ((g.nodes.get s).color = .gray ∧ c = .white ∧
      (g.nodes.get s).adj = (g.nodes.get s).rc))
    (hbc : (g.nodes.get s).color ≠ .black → (g'.nodes.get s).color = .black → g'.oof = false →
      ∀ c ∈ (g.nodes.get s).traced, (g'.nodes.get c).color = .black)
    (hgc : (g.nodes.get s).color = .gray → g'.oof = false →
      ∀ c ∈ (g.nodes.get s).traced, (g'.nodes.get c).color ≠ .gray) : Sc g g' := by
  have hne : ∀ i, i ≠ s → g1.nodes.get i = g.nodes.get i := fun i hi => by rw [hn1, if_neg hi]
  have hs1 : g1.nodes.get s = (g.nodes.get s).setColor c := by rw [hn1, if_pos rfl]
  refine ⟨hw1.trans hR.walk, fun i => ?_, fun i => ?_, fun i hn hb ho => ?_,
    fun i hn hb ho => ?_, fun i hi => ?_⟩
  · by_cases hi : i = s
    · subst hi; rw [hR.rest i, hs1]; rfl
    · have := hR.rest i; rw [hne i hi] at this; exact this
  · by_cases hi : i = s
    · subst hi
      rcases hR.color i with e | e | ⟨e, _⟩
      · rw [hs1] at e
        rcases hcol with rfl | ⟨h1, rfl, h3⟩
        · exact .inr (.inl e)
        · exact .inr (.inr ⟨h1, e, h3⟩)
      · exact .inr (.inl e)
      · rw [hs1] at e
        rcases hcol with rfl | ⟨_, rfl, _⟩ <;> cases e
    · have := hR.color i; rw [hne i hi] at this; exact this
  · by_cases hi : i = s
    · subst hi; exact hbc hn hb ho
    · have := hR.blackClosed i; rw [hne i hi] at this; exact this hn hb ho
  · by_cases hi : i = s
    · subst hi; exact hgc hn ho
    · have := hR.grayClosed i; rw [hne i hi] at this; exact this hn hb ho
  · have hi' : i ≠ s := by omega
    have := hR.ge i (by rw [hw1.toWalk.nextId]; exact hi)
    rw [hne i hi'] at this; exact this

theorem scanBlack_spec : ∀ (fuel s : Nat) (g : State), s < g.nextId → WfE g →
    Sc g (scanBlack fuel s g) ∧
      ((scanBlack fuel s g).oof = false → ((scanBlack fuel s g).nodes.get s).color = .black) := by
  intro fuel
  induction fuel with
  | zero =>
    intro s g _ _
    exact ⟨sc_of_nodes_eq (walkP_oof g) rfl, fun h => by simp [scanBlack_zero] at h⟩
  | succ fuel ih =>
    intro s g hs hwf
    rw [scanBlack_succ]
    generalize hg1 : (g.upd s fun x => { x with color := .black }).tick = g1
    have hw1 : WalkP g g1 := by
      rw [← hg1]
      exact (walkP_upd g s (fun x => { x with color := .black }) rfl).trans (walkP_tick _)
    have hn1 : ∀ i, g1.nodes.get i =
        if i = s then (g.nodes.get s).setColor .black else g.nodes.get i := by
      intro i; rw [← hg1]; simp only [State.upd, State.tick, Store.get_set]; rfl
    have hs1 : (g1.nodes.get s).color = .black := by rw [hn1, if_pos rfl]; rfl
    have hfold := foldl_rel_all (R := Sc)
      (I := fun a => edges a = edges g ∧ a.nextId = g.nextId)
      (Q := fun t a => a.oof = false → (a.nodes.get t).color = .black)
      (f := fun g t => if (g.nodes.get t).color ≠ .black then scanBlack fuel t g.tickE else g.tickE)
      Sc.refl (fun _ _ _ => Sc.trans)
      (fun a b ha hab => ⟨hab.walk.toWalk.edges.trans ha.1, hab.walk.toWalk.nextId.trans ha.2⟩)
      (fun t a a' haa' hq ho => haa'.black_mono t (hq (haa'.walk.toWalk.oof_false ho)))
      (g.nodes.get s).traced g1 ⟨hw1.toWalk.edges, hw1.toWalk.nextId⟩
      (by
        intro a ha t ht
        have htl : t < a.nextId := by rw [ha.2]; exact hwf s t ht
        have hwfa : WfE a := by intro i u hu; rw [ha.1] at hu; rw [ha.2]; exact hwf i u hu
        have h0 : Sc a a.tickE := sc_of_nodes_eq (walkP_tickE a) rfl
        by_cases hb : (a.nodes.get t).color = .black
        · rw [if_neg (fun h => h hb)]
          exact ⟨h0, fun _ => hb⟩
        · rw [if_pos hb]
          have h := ih t a.tickE htl hwfa
          exact ⟨h0.trans h.1, h.2⟩)
    generalize List.foldl (fun g t => if (g.nodes.get t).color ≠ .black then scanBlack fuel t g.tickE
      else g.tickE) g1 (g.nodes.get s).traced = g' at hfold
    obtain ⟨hR, hQ⟩ := hfold
    refine ⟨sc_of_recolor hs hw1 hn1 hR (.inl rfl) ?_ ?_, fun _ => hR.black_mono s hs1⟩
    · intro _ _ ho c hc; exact hQ c hc ho
    · intro _ ho c hc; rw [hQ c hc ho]; intro h; cases h

theorem scan_spec : ∀ (fuel s : Nat) (g : State), s < g.nextId → WfE g →
    Sc g (scan fuel s g) ∧
      ((scan fuel s g).oof = false → ((scan fuel s g).nodes.get s).color ≠ .gray) := by
  intro fuel
  induction fuel with
  | zero =>
    intro s g _ _
    exact ⟨sc_of_nodes_eq (walkP_oof g) rfl, fun h => by simp [scan_zero] at h⟩
  | succ fuel ih =>
    intro s g hs hwf
    rw [scan_succ]
    by_cases hc : (g.nodes.get s).color = .gray
    · rw [if_neg (fun h => h hc)]
      by_cases ha : (g.nodes.get s).adj = (g.nodes.get s).rc
      · rw [if_pos ha]
        generalize hg1 : (g.upd s fun x => { x with color := .white }).tick = g1
        have hw1 : WalkP g g1 := by
          rw [← hg1]
          exact (walkP_upd g s (fun x => { x with color := .white }) rfl).trans (walkP_tick _)
        have hn1 : ∀ i, g1.nodes.get i =
            if i = s then (g.nodes.get s).setColor .white else g.nodes.get i := by
          intro i; rw [← hg1]; simp only [State.upd, State.tick, Store.get_set]; rfl
        have hs1 : (g1.nodes.get s).color = .white := by rw [hn1, if_pos rfl]; rfl
        have hfold := foldl_rel_all (R := Sc)
          (I := fun a => edges a = edges g ∧ a.nextId = g.nextId)
          (Q := fun t a => a.oof = false → (a.nodes.get t).color ≠ .gray)
          (f := fun g t => scan fuel t g.tickE)
          Sc.refl (fun _ _ _ => Sc.trans)
          (fun a b ha hab => ⟨hab.walk.toWalk.edges.trans ha.1, hab.walk.toWalk.nextId.trans ha.2⟩)
          (fun t a a' haa' hq ho => haa'.nongray_mono t (hq (haa'.walk.toWalk.oof_false ho)))
          (g.nodes.get s).traced g1 ⟨hw1.toWalk.edges, hw1.toWalk.nextId⟩
          (by
            intro a ha t ht
            have htl : t < a.nextId := by rw [ha.2]; exact hwf s t ht
            have hwfa : WfE a := by intro i u hu; rw [ha.1] at hu; rw [ha.2]; exact hwf i u hu
            have h0 : Sc a a.tickE := sc_of_nodes_eq (walkP_tickE a) rfl
            have h := ih t a.tickE htl hwfa
            exact ⟨h0.trans h.1, h.2⟩)
        unfold overEdges
        generalize List.foldl (fun g t => scan fuel t g.tickE) g1 (g.nodes.get s).traced = g' at hfold
        obtain ⟨hR, hQ⟩ := hfold
        refine ⟨sc_of_recolor hs hw1 hn1 hR (.inr ⟨hc, rfl, ha⟩) ?_ ?_, fun _ => ?_⟩
        · intro _ hb ho
          have := hR.blackClosed s (by rw [hs1]; intro h; cases h) hb ho
          rw [hw1.toWalk.traced s] at this
          exact this
        · intro _ ho c hc'; exact hQ c hc' ho
        · exact hR.nongray_mono s (by rw [hs1]; intro h; cases h)
      · rw [if_neg ha]
        have h := scanBlack_spec (fuel + 1) s g hs hwf
        exact ⟨h.1, fun ho => by rw [h.2 ho]; intro h; cases h⟩
    · rw [if_pos hc]
      exact ⟨Sc.refl g, fun _ => hc⟩

end Gc
end SodiumVerif
