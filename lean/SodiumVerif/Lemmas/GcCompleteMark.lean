/-
  Completeness, phase 1 (`mark_roots`): `mark_gray` colours *everything* reachable from its start
  object, so after the phase the gray set is closed under reported edges and contains every
  unfreed object that was purple; the candidates that survive are the gray roots.
-/
import SodiumVerif.Lemmas.GcCompleteDefs

namespace SodiumVerif
namespace Gc
open State

/-- gray objects outside `Open` (the objects whose walk is still in progress) have only gray
    successors -/
def GrayClosed (Open : Nat → Prop) (g : State) : Prop :=
  ∀ i, isGray g i → ¬ Open i → ∀ t ∈ edges g i, isGray g t

theorem mgStep_color (g : State) (t i : Nat) :
    ((mgStep g t).nodes.get i).color = (g.nodes.get i).color := by
  rw [mgStep_nodes]; split
  · next h => subst h; rfl
  · rfl

theorem grayClosed_mgStep {Open : Nat → Prop} {g : State} (t : Nat) (h : GrayClosed Open g) :
    GrayClosed Open (mgStep g t) := by
  intro i hi hno u hu
  unfold isGray at *
  rw [mgStep_color] at hi ⊢
  rw [(walkP_mgStep_walk g t).edges] at hu
  exact h i hi hno u hu

theorem markGray_fold_walk (fuel : Nat) (l : List Nat) (a : State) :
    Walk a (l.foldl (fun g t => markGray fuel t (mgStep g t)) a) :=
  foldl_rel (I := fun _ => True) Walk.refl (fun _ _ _ => Walk.trans) (fun _ _ _ _ => trivial)
    l a trivial (fun a _ t _ => (walkP_mgStep_walk a t).trans (markGray_walk fuel t _))

/-- `mark_gray` leaves the gray set closed (outside the walks in progress) -/
theorem markGray_closed : ∀ (fuel s : Nat) (g : State) (Open : Nat → Prop), s < g.nextId → WfE g →
    GrayClosed Open g → (markGray fuel s g).oof = false → GrayClosed Open (markGray fuel s g) := by
  intro fuel
  induction fuel with
  | zero => intro s g Open _ _ _ ho; simp [markGray_zero] at ho
  | succ fuel ih =>
    intro s g Open hs hwf hcl ho
    rw [markGray_succ] at ho ⊢
    by_cases hc : (g.nodes.get s).color = .gray
    · rw [if_pos hc]; exact hcl
    · rw [if_neg hc] at ho ⊢
      generalize hg1 : (g.upd s fun x => { x with color := .gray }).tick = g1 at ho ⊢
      have hw1 : Walk g g1 := by
        rw [← hg1]
        exact ((walkP_upd g s (fun x => { x with color := .gray }) rfl).trans (walkP_tick _)).toWalk
      have hn1 : ∀ i, g1.nodes.get i =
          if i = s then { g.nodes.get s with color := .gray } else g.nodes.get i := by
        intro i; rw [← hg1]; simp only [Store.get_set]
      have hs1 : isGray g1 s := by unfold isGray; rw [hn1, if_pos rfl]
      have hmono1 : ∀ i, isGray g i → isGray g1 i := by
        intro i hi; unfold isGray at *; rw [hn1]; split
        · rfl
        · exact hi
      -- closed outside `Open ∪ {s}`
      have hcl1 : GrayClosed (fun i => Open i ∨ i = s) g1 := by
        intro i hi hno u hu
        have his : i ≠ s := fun e => hno (.inr e)
        have hi' : isGray g i := by unfold isGray at *; rw [hn1, if_neg his] at hi; exact hi
        rw [hw1.edges] at hu
        exact hmono1 u (hcl i hi' (fun e => hno (.inl e)) u hu)
      -- the fold over the reported edges
      have hfold : ∀ (l : List Nat) (a : State), (∀ t ∈ l, t < g.nextId) →
          edges a = edges g → a.nextId = g.nextId → GrayClosed (fun i => Open i ∨ i = s) a →
          (l.foldl (fun g t => markGray fuel t (mgStep g t)) a).oof = false →
          GrayClosed (fun i => Open i ∨ i = s) (l.foldl (fun g t => markGray fuel t (mgStep g t)) a) ∧
          (∀ i, isGray a i → isGray (l.foldl (fun g t => markGray fuel t (mgStep g t)) a) i) ∧
          ∀ t ∈ l, isGray (l.foldl (fun g t => markGray fuel t (mgStep g t)) a) t := by
        intro l
        induction l with
        | nil => intro a _ _ _ hca _; exact ⟨hca, fun _ h => h, fun t ht => by cases ht⟩
        | cons t rest ihl =>
          intro a hl hea hna hca hoa
          simp only [List.foldl_cons] at hoa ⊢
          have hw := walkP_mgStep_walk a t
          have htl : t < (mgStep a t).nextId := by
            rw [hw.nextId, hna]; exact hl t List.mem_cons_self
          have hwfa : WfE a := by intro i u hu; rw [hea] at hu; rw [hna]; exact hwf i u hu
          have hwf2 : WfE (mgStep a t) := hwfa.of_walk hw
          have ho2 : (markGray fuel t (mgStep a t)).oof = false :=
            (markGray_fold_walk fuel rest _).oof_false hoa
          have h2 := ih t (mgStep a t) _ htl hwf2 (grayClosed_mgStep t hca) ho2
          have hsp := markGray_spec fuel t (mgStep a t) htl hwf2
          have hw3 := hw.trans hsp.1.walk
          have h3 := ihl (markGray fuel t (mgStep a t))
            (fun x hx => hl x (List.mem_cons_of_mem _ hx))
            (hw3.edges.trans hea) (hw3.nextId.trans hna) h2 hoa
          have hm12 : ∀ i, isGray a i → isGray (markGray fuel t (mgStep a t)) i := by
            intro i hi
            apply hsp.1.gray_mono
            unfold isGray at *; rw [mgStep_color]; exact hi
          refine ⟨h3.1, fun i hi => h3.2.1 i (hm12 i hi), fun x hx => ?_⟩
          rcases List.mem_cons.mp hx with rfl | hx
          · exact h3.2.1 _ (hsp.2 ho2)
          · exact h3.2.2 x hx
      have hres := hfold (g.nodes.get s).traced g1 (fun t ht => hwf s t ht) hw1.edges hw1.nextId
        hcl1 ho
      have hwalk := markGray_fold_walk fuel (g.nodes.get s).traced g1
      generalize List.foldl (fun g t => markGray fuel t (mgStep g t)) g1 (g.nodes.get s).traced = g'
        at hres ho hwalk
      have hwg' : edges g' = edges g := hwalk.edges.trans hw1.edges
      intro i hi hno u hu
      by_cases his : i = s
      · subst his
        rw [hwg'] at hu
        exact hres.2.2 u hu
      · exact hres.1 i hi (fun e => e.elim hno his) u hu

/-! ### the third loop of `mark_roots` -/

/-- invariant of the third loop of `mark_roots` (completeness part); `g0` is the state at its
    start, `rest` the candidates still to be processed, `a.2` the candidates kept so far -/
structure MarkC (g0 : State) (rest : List Nat) (a : State × List Nat) : Prop where
  core : Core g0 a.1
  closed : GrayClosed (fun _ => False) a.1
  cand : ∀ i, (a.1.nodes.get i).freed = false →
    ((a.1.nodes.get i).buffered = true ∨ (a.1.nodes.get i).color = .purple) → i ∈ a.2 ∨ i ∈ rest
  newGray : ∀ r ∈ a.2, isGray a.1 r
  color : ∀ i, (a.1.nodes.get i).color = (g0.nodes.get i).color ∨ isGray a.1 i

theorem mrStep_fold_core (f : Nat) (l : List Nat) (a : State × List Nat) :
    Core a.1 (l.foldl (mrStep f) a).1 :=
  foldl_rel (R := fun a b : State × List Nat => Core a.1 b.1) (I := fun _ => True)
    (fun a => Core.refl a.1) (fun _ _ _ => Core.trans) (fun _ _ _ _ => trivial) l a
    trivial (fun a _ r _ => mrStep_core f a r)

theorem markC_step (f : Nat) {g0 : State} (hwf : WfE g0) {rest : List Nat} {a : State × List Nat}
    {r : Nat} (hr : r < g0.nextId) (J : MarkC g0 (r :: rest) a)
    (ho : (mrStep f a r).1.oof = false) : MarkC g0 rest (mrStep f a r) := by
  have hrl : r < a.1.nextId := by rw [J.core.nextId]; exact hr
  have hwfa : WfE a.1 := hwf.of_core J.core
  by_cases hc : (a.1.nodes.get r).color = .purple
  · have he : mrStep f a r = (markGray f r a.1, a.2 ++ [r]) := by unfold mrStep; rw [if_pos hc]
    rw [he] at ho ⊢
    simp only at ho
    have hsp := markGray_spec f r a.1 hrl hwfa
    have h1 := hsp.1
    refine ⟨J.core.trans h1.walk.toCore, markGray_closed f r a.1 _ hrl hwfa J.closed ho,
      fun i hf hcand => ?_, fun x hx => ?_, fun i => ?_⟩
    · simp only at hf hcand ⊢
      rw [h1.walk.freed] at hf
      rw [h1.buffered] at hcand
      have hcand' : (a.1.nodes.get i).buffered = true ∨ (a.1.nodes.get i).color = .purple := by
        rcases hcand with h | h
        · exact .inl h
        · rcases h1.color i with e | e
          · exact .inr (e ▸ h)
          · rw [e] at h; cases h
      rcases J.cand i hf hcand' with h | h
      · exact .inl (List.mem_append_left _ h)
      · rcases List.mem_cons.mp h with rfl | h
        · exact .inl (List.mem_append_right _ (List.mem_singleton.mpr rfl))
        · exact .inr h
    · simp only at hx ⊢
      rcases List.mem_append.mp hx with h | h
      · exact h1.gray_mono x (J.newGray x h)
      · rw [List.mem_singleton.mp h]; exact hsp.2 ho
    · simp only
      rcases h1.color i with e | e
      · rcases J.color i with e' | e'
        · exact .inl (e.trans e')
        · right; unfold isGray at *; rw [e]; exact e'
      · exact .inr e
  · obtain ⟨hn, h2, hi, hl, ho', hp, ht⟩ := mrStep_else f a r hc
    have hcore := mrStep_core f a r
    have hcol : ∀ i, ((mrStep f a r).1.nodes.get i).color = (a.1.nodes.get i).color := by
      intro i; rw [hn]; split
      · next h => subst h; rfl
      · rfl
    refine ⟨J.core.trans hcore, fun i hi _ u hu => ?_, fun i hf hcand => ?_, fun x hx => ?_,
      fun i => ?_⟩
    · unfold isGray at *
      rw [hcol] at hi ⊢
      rw [hcore.edges] at hu
      exact J.closed i hi (fun h => h) u hu
    · rw [h2]
      by_cases hir : i = r
      · subst hir
        rw [hn, if_pos rfl] at hcand
        rcases hcand with h | h
        · cases h
        · exact absurd h hc
      · rw [hn, if_neg hir] at hf hcand
        rcases J.cand i hf hcand with h | h
        · exact .inl h
        · rcases List.mem_cons.mp h with h | h
          · exact absurd h hir
          · exact .inr h
    · rw [h2] at hx
      unfold isGray; rw [hcol]; exact J.newGray x hx
    · unfold isGray; rw [hcol]; exact J.color i

theorem markC_fold (f : Nat) {g0 : State} (hwf : WfE g0) : ∀ (rest : List Nat)
    (a : State × List Nat), (∀ r ∈ rest, r < g0.nextId) → MarkC g0 rest a →
    (rest.foldl (mrStep f) a).1.oof = false → MarkC g0 [] (rest.foldl (mrStep f) a) := by
  intro rest
  induction rest with
  | nil => intro a _ J _; exact J
  | cons r rest ih =>
    intro a hl J ho
    simp only [List.foldl_cons] at ho ⊢
    have ho1 : (mrStep f a r).1.oof = false := (mrStep_fold_core f rest _).oof_false ho
    exact ih _ (fun x hx => hl x (List.mem_cons_of_mem _ hx))
      (markC_step f hwf (hl r List.mem_cons_self) J ho1) ho

/-! ### the phase -/

/-- what `mark_roots` establishes in addition to `Marked` -/
structure MarkedC (g m : State) : Prop where
  /-- the gray set is closed under reported edges -/
  closed : ∀ i, isGray m i → ∀ t ∈ edges m i, isGray m t
  /-- flagged / purple unfreed objects are among the remaining roots -/
  cand : CandOk m
  /-- the remaining roots are gray -/
  rootsGray : ∀ r ∈ m.roots, isGray m r
  /-- every unfreed object that was purple is gray now -/
  purpleGray : ∀ r, (g.nodes.get r).freed = false → (g.nodes.get r).color = .purple → isGray m r

theorem markRoots_complete {g : State} (I : GcInv g) (C : CandOk g)
    (ho : (markRoots g).oof = false) : MarkedC g (markRoots g) := by
  rw [markRoots_eq] at ho ⊢
  simp only [] at ho ⊢
  generalize hgd : displayGraph (g.roots.length + totalEdges { g with roots := [] } + 1)
    g.roots.reverse Store.empty { g with roots := [] } = gd at ho ⊢
  generalize hga : g.roots.foldl (fun g r => reset1 (walkFuel gd) r g) gd = ga at ho ⊢
  generalize hgb : g.roots.foldl (fun g r => reset2 (walkFuel gd) r g) ga = gb at ho ⊢
  have hcore3 := mrStep_fold_core (walkFuel gd) g.roots (gb, [])
  have hob : gb.oof = false := hcore3.oof_false ho
  have hwd : WalkP { g with roots := [] } gd := by rw [← hgd]; exact displayGraph_walkP _ _ _ _
  have hnd : gd.nodes = g.nodes := by rw [← hgd]; exact displayGraph_nodes _ _ _ _
  obtain ⟨hwb, hin, hout⟩ := reset_walks (walkFuel gd) (walkFuel gd) g.roots gd ga gb hga hgb
    (fun i => by rw [hnd]; exact (I.quiescent i).2.1) hob
  have hnb : ∀ i, gb.nodes.get i = g.nodes.get i := by
    intro i
    by_cases h : ∃ r ∈ g.roots, TReach (edges gd) r i
    · rw [hin i h, hnd]
      have := (I.quiescent i).1
      cases hx : g.nodes.get i
      rw [hx] at this
      simp only at this
      simp only [this]
    · rw [hout i h, hnd]
  have hcb : Core g gb :=
    ⟨fun i => by rw [hnb], hwb.toWalk.nextId.trans hwd.toWalk.nextId,
     hwb.toWalk.dtorLog.trans hwd.toWalk.dtorLog, fun h => hwb.toWalk.oof (hwd.toWalk.oof h)⟩
  have hgray0 : ∀ j, (gb.nodes.get j).color ≠ .gray := by
    intro j; rw [hnb]; rcases (I.quiescent j).2.2 with e | e <;> rw [e] <;> intro h <;> cases h
  have J0 : MarkC gb g.roots (gb, []) := by
    refine ⟨Core.refl gb, fun i hi => absurd hi (hgray0 i), fun i hf hcand => ?_,
      fun r hr => (by cases hr), fun _ => .inl rfl⟩
    simp only at hf hcand
    rw [hnb] at hf hcand
    exact .inr (C i hf hcand)
  have hwfb : WfE gb := I.wfE.of_core hcb
  have hold : ∀ r ∈ g.roots, r < gb.nextId := by
    intro r hr; rw [hcb.nextId]; exact I.rootsLt r hr
  have J := markC_fold (walkFuel gd) hwfb g.roots (gb, []) hold J0 ho
  generalize g.roots.foldl (mrStep (walkFuel gd)) (gb, []) = res at J ho
  obtain ⟨g2, new⟩ := res
  simp only at J ho ⊢
  have hcand : ∀ i, (g2.nodes.get i).freed = false →
      ((g2.nodes.get i).buffered = true ∨ (g2.nodes.get i).color = .purple) → i ∈ new := by
    intro i hf hc
    rcases J.cand i hf hc with h | h
    · exact h
    · cases h
  refine ⟨fun i hi t ht => J.closed i hi (fun h => h) t ht, hcand, J.newGray, fun r hf hp => ?_⟩
  rcases J.color r with e | e
  · simp only at e
    rw [hnb, hp] at e
    have hf2 : (g2.nodes.get r).freed = false := by rw [J.core.freed, hnb]; exact hf
    have := J.newGray r (hcand r hf2 (.inr e))
    unfold isGray at this
    simp only at this
    rw [e] at this; cases this
  · exact e

/-- everything reachable from an unfreed object that was purple is gray after `mark_roots` -/
theorem MarkedC.reach_gray {g m : State} (I : GcInv g) (hc : Core g m) (M : MarkedC g m)
    {r i : Nat} (hf : (g.nodes.get r).freed = false) (hp : (g.nodes.get r).color = .purple)
    (p : Reach g r i) : isGray m i := by
  induction p with
  | refl => exact M.purpleGray r hf hp
  | @step b c _ hb hcm ih =>
    refine M.closed b ih c ?_
    show c ∈ (m.nodes.get b).traced
    rw [hc.traced, I.contract]; exact hcm

end Gc
end SodiumVerif
