/-
  Completeness (C07): the client operations of `GcScript.apply`, used as the collector's contract
  demands, preserve the buffer invariant `BufInv` (mirrors `Lemmas/GcClient.lean` for `GcInv`).
  A reference to an object is only ever dropped through `dec_ref`, which colours the object purple
  and puts it into the candidate buffer; `inc_ref` recolours black, but is only applied to an
  object the caller holds, so that object and everything below it is live at that moment.
-/
import SodiumVerif.Lemmas.GcCompleteFrame

namespace SodiumVerif
namespace Gc
open State

/-! ### reachability and liveness -/

theorem Reach.trans {g : State} {a b c : Nat} (p : Reach g a b) (q : Reach g b c) : Reach g a c := by
  induction q with
  | refl => exact p
  | step _ hb hc ih => exact .step ih hb hc

/-- reachability only grows when unfreed objects keep their counted references -/
theorem Reach.mono {g g' : State}
    (h : ∀ b c, (g.nodes.get b).freed = false → c ∈ (g.nodes.get b).owned →
      (g'.nodes.get b).freed = false ∧ c ∈ (g'.nodes.get b).owned) {a c : Nat}
    (p : Reach g a c) : Reach g' a c := by
  induction p with
  | refl => exact .refl _
  | step _ hb hc ih => exact .step ih (h _ _ hb hc).1 (h _ _ hb hc).2

theorem Reach.of_same {g g' : State} (hf : ∀ i, (g'.nodes.get i).freed = (g.nodes.get i).freed)
    (ho : ∀ i, (g'.nodes.get i).owned = (g.nodes.get i).owned) {a c : Nat} (p : Reach g a c) :
    Reach g' a c :=
  p.mono (fun b c hb hc => ⟨by rw [hf]; exact hb, by rw [ho]; exact hc⟩)

theorem Live.self {g : State} {r : Nat} (hf : (g.nodes.get r).freed = false) (he : 0 < ext g r) :
    Live g r := ⟨r, hf, he, .refl r⟩

theorem Live.reach {g : State} {x i : Nat} (h : Live g x) (p : Reach g x i) : Live g i := by
  obtain ⟨r, hf, he, q⟩ := h
  exact ⟨r, hf, he, q.trans p⟩

/-- liveness transfers along a step that keeps the object graph and every positive external
    count -/
theorem Live.of_same {g g' : State} (hf : ∀ i, (g'.nodes.get i).freed = (g.nodes.get i).freed)
    (ho : ∀ i, (g'.nodes.get i).owned = (g.nodes.get i).owned)
    (he : ∀ r, (g.nodes.get r).freed = false → 0 < ext g r → 0 < ext g' r) {i : Nat}
    (h : Live g i) : Live g' i := by
  obtain ⟨r, hr, her, p⟩ := h
  exact ⟨r, by rw [hf]; exact hr, he r hr her, p.of_same hf ho⟩

/-- a covering root of an unfreed object is itself unfreed -/
theorem Reach.source_unfreed {g : State} {r i : Nat} (p : Reach g r i)
    (hi : (g.nodes.get i).freed = false) : (g.nodes.get r).freed = false := by
  induction p with
  | refl => exact hi
  | step _ hb _ ih => exact ih hb

/-! ### a step that keeps the object graph -/

/-- `BufInv` transfers along a step that changes neither `freed` nor the counted references -/
theorem bufinv_of_same_graph {g g' : State} (B : BufInv g)
    (hn : g'.nextId = g.nextId)
    (hf : ∀ i, (g'.nodes.get i).freed = (g.nodes.get i).freed)
    (ho : ∀ i, (g'.nodes.get i).owned = (g.nodes.get i).owned)
    (hcand : CandOk g')
    (hroots : ∀ r ∈ g.roots, r ∈ g'.roots)
    (hpurple : ∀ r, r ∈ g.roots → (g.nodes.get r).color = .purple →
      (g'.nodes.get r).color = .purple ∨ Live g r)
    (hlive : ∀ i, Live g i → Live g' i ∨
      ∃ r ∈ g'.roots, (g'.nodes.get r).color = .purple ∧ Reach g' r i) : BufInv g' := by
  refine ⟨hcand, fun i hi hfi hnl => ?_⟩
  by_cases hl : Live g i
  · rcases hlive i hl with h | h
    · exact absurd h hnl
    · exact h
  · rw [hn] at hi; rw [hf] at hfi
    obtain ⟨r, hr, hp, p⟩ := B.covered i hi hfi hl
    rcases hpurple r hr hp with h | h
    · exact ⟨r, hroots r hr, h, p.of_same hf ho⟩
    · exact absurd (h.reach p) hl

/-! ### the initial state -/

theorem bufinv_init : BufInv {} := by
  refine ⟨fun i _ h => ?_, fun i hi => ?_⟩
  · have e1 : (({} : State).nodes.get i).buffered = false := rfl
    have e2 : (({} : State).nodes.get i).color = .black := rfl
    rcases h with h | h
    · rw [e1] at h; cases h
    · rw [e2] at h; cases h
  · exact absurd hi (Nat.not_lt_zero i)

/-! ### `new` -/

theorem ext_fresh {g : State} (I : GcInv g) {r : Nat} (hr : g.nextId ≤ r) : ext g r = 0 := by
  unfold ext; rw [I.fresh r hr]; simp

theorem reach_newNode {g : State} (I : GcInv g) {a c : Nat} (p : Reach g a c) :
    Reach (newNode g).1 a c := by
  refine p.mono (fun b c hb hc => ?_)
  have hbl : b ≠ g.nextId := by
    intro e; subst e
    rw [I.fresh g.nextId (Nat.le_refl _)] at hc; cases hc
  rw [newNode_get, if_neg hbl]
  exact ⟨hb, hc⟩

theorem live_newNode {g : State} (I : GcInv g) {i : Nat} (h : Live g i) : Live (newNode g).1 i := by
  obtain ⟨r, hr, he, p⟩ := h
  have hrl : r ≠ g.nextId := by
    intro e; subst e
    rw [ext_fresh I (Nat.le_refl _)] at he; omega
  refine ⟨r, ?_, ?_, reach_newNode I p⟩
  · rw [newNode_get, if_neg hrl]; exact hr
  · rw [ext_newNode_other I hrl]; exact he

theorem bufinv_newNode {g : State} (I : GcInv g) (B : BufInv g) : BufInv (newNode g).1 := by
  have hroots : (newNode g).1.roots = g.roots := rfl
  refine ⟨fun i hf hc => ?_, fun i hi hf hnl => ?_⟩
  · rw [hroots]
    rw [newNode_get] at hf hc
    by_cases hi : i = g.nextId
    · rw [if_pos hi] at hc
      rcases hc with h | h <;> cases h
    · rw [if_neg hi] at hf hc
      exact B.cand i hf hc
  · rw [newNode_nextId] at hi
    by_cases hin : i = g.nextId
    · subst hin
      refine absurd (Live.self ?_ ?_) hnl
      · rw [newNode_get, if_pos rfl]
      · rw [ext_newNode_new I]; omega
    · rw [newNode_get, if_neg hin] at hf
      have hnl' : ¬ Live g i := fun h => hnl (live_newNode I h)
      obtain ⟨r, hr, hp, p⟩ := B.covered i (by omega) hf hnl'
      have hrl : r ≠ g.nextId := by have := I.rootsLt r hr; omega
      refine ⟨r, hr, ?_, reach_newNode I p⟩
      rw [newNode_get, if_neg hrl]; exact hp

/-! ### `inc` (clone a handle) -/

theorem bufinv_incRef {g : State} {n : Nat} (I : GcInv g) (B : BufInv g)
    (hf : (g.nodes.get n).freed = false) (he : 0 < ext g n) : BufInv (incRef g n) := by
  have F := rcOnly_incRef hf
  have hlive : ∀ i, Live g i → Live (incRef g n) i := by
    intro i h
    refine h.of_same F.freed F.owned (fun r _ her => ?_)
    by_cases hr : r = n
    · subst hr; rw [ext_incRef_self I hf]; omega
    · rw [ext_incRef_other hf hr]; exact her
  refine bufinv_of_same_graph B F.nextId F.freed F.owned ?_ ?_ ?_ (fun i h => .inl (hlive i h))
  · intro i hfi hc
    rw [incRef_roots hf]
    rw [F.freed] at hfi
    rw [incRef_get hf] at hc
    by_cases hi : i = n
    · subst hi
      rw [if_pos rfl] at hc
      rcases hc with h | h
      · exact B.cand i hfi (.inl h)
      · cases h
    · rw [if_neg hi] at hc; exact B.cand i hfi hc
  · intro r hr; rw [incRef_roots hf]; exact hr
  · intro r _ hp
    by_cases hr : r = n
    · subst hr; exact .inr (Live.self hf he)
    · left; rw [incRef_get hf, if_neg hr]; exact hp

/-- cloning a handle of a live object (one reachable from a held one) -/
theorem bufinv_incRef_live {g : State} {n : Nat} (I : GcInv g) (B : BufInv g)
    (hf : (g.nodes.get n).freed = false) (hl : Live g n) : BufInv (incRef g n) := by
  have F := rcOnly_incRef hf
  have hlive : ∀ i, Live g i → Live (incRef g n) i := by
    intro i h
    refine h.of_same F.freed F.owned (fun r _ her => ?_)
    by_cases hr : r = n
    · subst hr; rw [ext_incRef_self I hf]; omega
    · rw [ext_incRef_other hf hr]; exact her
  refine bufinv_of_same_graph B F.nextId F.freed F.owned ?_ ?_ ?_ (fun i h => .inl (hlive i h))
  · intro i hfi hc
    rw [incRef_roots hf]
    rw [F.freed] at hfi
    rw [incRef_get hf] at hc
    by_cases hi : i = n
    · subst hi
      rw [if_pos rfl] at hc
      rcases hc with h | h
      · exact B.cand i hfi (.inl h)
      · cases h
    · rw [if_neg hi] at hc; exact B.cand i hfi hc
  · intro r hr; rw [incRef_roots hf]; exact hr
  · intro r _ hp
    by_cases hr : r = n
    · subst hr; exact .inr hl
    · left; rw [incRef_get hf, if_neg hr]; exact hp

/-! ### `dec` (drop a handle) -/

theorem decRef_get_other (g : State) {n i : Nat} (hi : i ≠ n) :
    (decRef g n).nodes.get i = g.nodes.get i := by
  rw [decRef_get, if_neg (fun h => hi h.1)]

theorem decRef_color_self {g : State} {n : Nat} (h0 : (g.nodes.get n).rc ≠ 0) :
    ((decRef g n).nodes.get n).color = .purple := by
  rw [decRef_get, if_pos ⟨rfl, h0⟩]
  by_cases hp : (g.nodes.get n).color = .purple
  · rw [if_neg (fun h => h hp)]; exact hp
  · rw [if_pos hp]

theorem decRef_purple_mono (g : State) (n : Nat) {r : Nat}
    (hp : (g.nodes.get r).color = .purple) : ((decRef g n).nodes.get r).color = .purple := by
  by_cases hr : r = n
  · subst hr
    by_cases h0 : (g.nodes.get r).rc = 0
    · rw [decRef_get, if_neg (fun h => h.2 h0)]; exact hp
    · exact decRef_color_self h0
  · rw [decRef_get_other g hr]; exact hp

/-- after a drop the object is in the candidate buffer -/
theorem decRef_self_mem {g : State} {n : Nat} (C : CandOk g) (hf : (g.nodes.get n).freed = false)
    (h0 : (g.nodes.get n).rc ≠ 0) : n ∈ (decRef g n).roots := by
  have hC := candOk_decRef n C
  exact hC n (by rw [(rcOnly_decRef g n).freed]; exact hf) (.inr (decRef_color_self h0))

/-- dropping an external handle of an unfreed object -/
theorem bufinv_decRef_handle {g : State} {n : Nat} (I : GcInv g) (B : BufInv g)
    (hf : (g.nodes.get n).freed = false) (he : 0 < ext g n) : BufInv (decRef g n) := by
  have F := rcOnly_decRef g n
  have h0 : (g.nodes.get n).rc ≠ 0 := by have := I.count' n; unfold ext at he; omega
  refine bufinv_of_same_graph B F.nextId F.freed F.owned (candOk_decRef n B.cand)
    (fun r hr => decRef_roots_mono g n r hr) (fun r _ hp => .inl (decRef_purple_mono g n hp))
    (fun i h => ?_)
  obtain ⟨x, hx, hex, p⟩ := h
  by_cases hxn : x = n
  · subst hxn
    exact .inr ⟨x, decRef_self_mem B.cand hf h0, decRef_color_self h0, p.of_same F.freed F.owned⟩
  · left
    exact ⟨x, by rw [F.freed]; exact hx, by rw [ext_decRef_other g hxn]; exact hex,
      p.of_same F.freed F.owned⟩

/-! ### `edge` -/

theorem addOwned_roots (g : State) (a b : Nat) : (addOwned g a b).roots = g.roots := rfl
theorem delOwned_roots (g : State) (a b : Nat) : (delOwned g a b).roots = g.roots := rfl

/-- storing a reference the client holds (`b` keeps at least one external handle) -/
theorem bufinv_addOwned {g : State} {a b : Nat} (B : BufInv g) (ha : a < g.nextId)
    (hfa : (g.nodes.get a).freed = false) (he : 1 < ext g b) : BufInv (addOwned g a b) := by
  have C := ownedChange_addOwned g a b
  have hreach : ∀ {x y : Nat}, Reach g x y → Reach (addOwned g a b) x y := by
    intro x y p
    refine p.mono (fun u c hu hc => ⟨by rw [C.freed']; exact hu, ?_⟩)
    rw [addOwned_get]
    by_cases hua : u = a
    · subst hua; rw [if_pos rfl]; exact List.mem_append_left _ hc
    · rw [if_neg hua]; exact hc
  have hlive : ∀ i, Live g i → Live (addOwned g a b) i := by
    rintro i ⟨r, hr, her, p⟩
    refine ⟨r, by rw [C.freed']; exact hr, ?_, hreach p⟩
    rw [ext_addOwned b ha hfa]
    split
    · next h => subst h; omega
    · omega
  have hflag : ∀ i, ((addOwned g a b).nodes.get i).buffered = (g.nodes.get i).buffered := by
    intro i; rw [addOwned_get]; split
    · next h => subst h; rfl
    · rfl
  refine ⟨fun i hf hc => ?_, fun i hi hf hnl => ?_⟩
  · rw [addOwned_roots]
    rw [C.freed'] at hf; rw [hflag, C.color'] at hc
    exact B.cand i hf hc
  · rw [C.nextId] at hi; rw [C.freed'] at hf
    obtain ⟨r, hr, hp, p⟩ := B.covered i hi hf (fun h => hnl (hlive i h))
    exact ⟨r, hr, by rw [C.color']; exact hp, hreach p⟩

theorem bufinv_addEdge {g : State} {a b : Nat} (I : GcInv g) (B : BufInv g) (ha : a < g.nextId)
    (hfa : (g.nodes.get a).freed = false) (hfb : (g.nodes.get b).freed = false)
    (heb : 0 < ext g b) : BufInv (addEdge g a b) := by
  have F := rcOnly_incRef hfb
  rw [addEdge_eq]
  apply bufinv_addOwned (bufinv_incRef I B hfb heb)
  · rw [F.nextId]; exact ha
  · rw [F.freed]; exact hfa
  · rw [ext_incRef_self I hfb]; omega

/-! ### `unedge` -/

/-- a path of `g` survives the removal of one reference `a → b`, or ends with a path from `b` -/
theorem reach_delOwned {g : State} {a b x y : Nat} (hfb : (g.nodes.get b).freed = false)
    (p : Reach g x y) : Reach (delOwned g a b) x y ∨ Reach (delOwned g a b) b y := by
  have C := ownedChange_delOwned g a b
  induction p with
  | refl => exact .inl (.refl _)
  | @step u c _ hu hc ih =>
    have hu' : ((delOwned g a b).nodes.get u).freed = false := by rw [C.freed']; exact hu
    by_cases hkeep : c ∈ ((delOwned g a b).nodes.get u).owned
    · rcases ih with h | h
      · exact .inl (.step h hu' hkeep)
      · exact .inr (.step h hu' hkeep)
    · -- the removed reference: `u = a`, `c = b`
      have hua : u = a := by
        apply Classical.byContradiction
        intro hne
        rw [C.other u hne] at hkeep; exact hkeep hc
      subst hua
      have hcb : c = b := by
        apply Classical.byContradiction
        intro hne
        rw [delOwned_get, if_pos rfl] at hkeep
        exact hkeep ((List.mem_erase_of_ne hne).mpr hc)
      subst hcb
      exact .inr (.refl _)

/-- removing a stored reference, the released reference still being held (the intermediate state
    of `unedge`) -/
theorem bufinv_delOwned {g : State} {a b : Nat} (I : GcInv g) (B : BufInv g) (ha : a < g.nextId)
    (hfa : (g.nodes.get a).freed = false) (hb : b ∈ (g.nodes.get a).owned) :
    BufInv (delOwned g a b) := by
  have C := ownedChange_delOwned g a b
  have hfb : (g.nodes.get b).freed = false := I.noDangling a b hfa hb
  have hbl : Live (delOwned g a b) b :=
    Live.self (by rw [C.freed']; exact hfb) (by rw [ext_delOwned I ha hfa hb]; simp)
  have hlive : ∀ i, Live g i → Live (delOwned g a b) i := by
    rintro i ⟨r, hr, her, p⟩
    rcases reach_delOwned hfb p with h | h
    · refine ⟨r, by rw [C.freed']; exact hr, ?_, h⟩
      rw [ext_delOwned I ha hfa hb]; omega
    · exact hbl.reach h
  have hflag : ∀ i, ((delOwned g a b).nodes.get i).buffered = (g.nodes.get i).buffered := by
    intro i; rw [delOwned_get]; split
    · next h => subst h; rfl
    · rfl
  refine ⟨fun i hf hc => ?_, fun i hi hf hnl => ?_⟩
  · rw [delOwned_roots]
    rw [C.freed'] at hf; rw [hflag, C.color'] at hc
    exact B.cand i hf hc
  · rw [C.nextId] at hi; rw [C.freed'] at hf
    obtain ⟨r, hr, hp, p⟩ := B.covered i hi hf (fun h => hnl (hlive i h))
    rcases reach_delOwned hfb p with h | h
    · exact ⟨r, hr, by rw [C.color']; exact hp, h⟩
    · exact absurd (hbl.reach h) hnl

theorem bufinv_delEdge {g : State} {a b : Nat} (I : GcInv g) (B : BufInv g) (ha : a < g.nextId)
    (hfa : (g.nodes.get a).freed = false) (hb : b ∈ (g.nodes.get a).owned) :
    BufInv (delEdge g a b) := by
  rw [delEdge_eq]
  apply bufinv_decRef_handle (gcinv_delOwned I ha hfa hb) (bufinv_delOwned I B ha hfa hb)
  · rw [(ownedChange_delOwned g a b).freed']; exact I.noDangling a b hfa hb
  · rw [ext_delOwned I ha hfa hb]; simp

/-! ### `updrop` -/

theorem bufinv_upgradeDrop {g : State} {n : Nat} (I : GcInv g) (B : BufInv g) :
    BufInv (upgradeDrop g n) := by
  have hext := fun i => ext_upgradeDrop (n := n) I i
  rw [upgradeDrop_eq] at hext ⊢
  split
  · next h =>
    rw [if_pos h] at hext
    have F1 := rcOnly_incRef h.2
    have F2 := rcOnly_decRef (incRef g n) n
    have hf : ∀ i, ((decRef (incRef g n) n).nodes.get i).freed = (g.nodes.get i).freed :=
      fun i => (F2.freed i).trans (F1.freed i)
    have ho : ∀ i, ((decRef (incRef g n) n).nodes.get i).owned = (g.nodes.get i).owned :=
      fun i => (F2.owned i).trans (F1.owned i)
    have h0 : ((incRef g n).nodes.get n).rc ≠ 0 := by
      rw [incRef_get h.2, if_pos rfl]; simp
    -- `CandOk` of the intermediate state except for `n`, which is black there
    have hC1 : CandOk (decRef (incRef g n) n) := by
      intro i hfi hc
      by_cases hi : i = n
      · subst hi
        by_cases hb : (g.nodes.get i).buffered = true
        · apply decRef_roots_mono
          rw [incRef_roots h.2]
          exact B.cand i h.2 (.inl hb)
        · rw [decRef_roots, incRef_get h.2, if_pos rfl]
          simp only [ne_eq, Nat.add_eq_zero_iff, Nat.succ_ne_self, and_false, not_false_eq_true,
            reduceCtorEq, true_and]
          rw [if_pos (by simpa using hb)]
          exact List.mem_append_right _ (List.mem_singleton.mpr rfl)
      · apply decRef_roots_mono
        rw [incRef_roots h.2]
        rw [hf] at hfi
        rw [decRef_get_other _ hi, incRef_get h.2, if_neg hi] at hc
        exact B.cand i hfi hc
    refine bufinv_of_same_graph B (F2.nextId.trans F1.nextId) hf ho hC1 ?_ ?_ ?_
    · intro r hr; apply decRef_roots_mono; rw [incRef_roots h.2]; exact hr
    · intro r _ hp
      left
      by_cases hr : r = n
      · subst hr; exact decRef_color_self h0
      · rw [decRef_get_other _ hr, incRef_get h.2, if_neg hr]; exact hp
    · intro i hl
      exact .inl (hl.of_same hf ho (fun r _ her => by rw [hext]; exact her))
  · exact B

end Gc
end SodiumVerif
