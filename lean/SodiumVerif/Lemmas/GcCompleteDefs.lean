/-
  Completeness of the collector (C07): definitions.

  `BufInv` is the invariant of the candidate buffer that makes the synchronous Bacon–Rajan
  collector complete: every unfreed object that is flagged `buffered` or coloured purple is in
  the candidate buffer, and every piece of garbage (an unfreed object that is not reachable from
  an externally held object) hangs off a purple candidate.
-/
import SodiumVerif.Lemmas.GcScriptInv

namespace SodiumVerif
namespace Gc
open State

/-- an unfreed object that is flagged `buffered` or coloured purple is in the candidate buffer
    (a freed object may keep a stale flag / colour) -/
def CandOk (g : State) : Prop :=
  ∀ i, (g.nodes.get i).freed = false →
    ((g.nodes.get i).buffered = true ∨ (g.nodes.get i).color = .purple) → i ∈ g.roots

/-- `i` is garbage: allocated, unfreed, and not reachable from an externally held object -/
def Garbage (g : State) (i : Nat) : Prop :=
  i < g.nextId ∧ (g.nodes.get i).freed = false ∧ ¬ Live g i

/-- the buffer invariant -/
structure BufInv (g : State) : Prop where
  /-- candidates are buffered -/
  cand : CandOk g
  /-- every piece of garbage hangs off a purple candidate -/
  covered : ∀ i, i < g.nextId → (g.nodes.get i).freed = false → ¬ Live g i →
    ∃ r ∈ g.roots, (g.nodes.get r).color = .purple ∧ Reach g r i

/-- the step changes no `buffered` flag -/
def SameBuf (g g' : State) : Prop := ∀ i, (g'.nodes.get i).buffered = (g.nodes.get i).buffered

/-- the step changes no colour -/
def SameCol (g g' : State) : Prop := ∀ i, (g'.nodes.get i).color = (g.nodes.get i).color

theorem SameBuf.refl (g : State) : SameBuf g g := fun _ => rfl
theorem SameBuf.trans {g g' g'' : State} (h1 : SameBuf g g') (h2 : SameBuf g' g'') :
    SameBuf g g'' := fun i => (h2 i).trans (h1 i)
theorem SameCol.refl (g : State) : SameCol g g := fun _ => rfl
theorem SameCol.trans {g g' g'' : State} (h1 : SameCol g g') (h2 : SameCol g' g'') :
    SameCol g g'' := fun i => (h2 i).trans (h1 i)

set_option linter.unusedSimpArgs false in
/-- the candidate buffer after `dec_ref` -/
theorem decRef_roots (g : State) (n : Nat) :
    (decRef g n).roots =
      if (g.nodes.get n).rc ≠ 0 ∧ (g.nodes.get n).color ≠ .purple ∧ (g.nodes.get n).buffered = false
      then g.roots ++ [n] else g.roots := by
  unfold decRef possibleRoot
  by_cases h0 : (g.nodes.get n).rc = 0
  · simp [State.node, h0]
  · by_cases hc : (g.nodes.get n).color = .purple
    · simp [State.node, State.upd, h0, hc, Store.get_set]
    · by_cases hb : (g.nodes.get n).buffered = true
      · simp [State.node, State.upd, h0, hc, hb, Store.get_set]
      · simp [State.node, State.upd, h0, hc, hb, Store.get_set]

end Gc
end SodiumVerif
