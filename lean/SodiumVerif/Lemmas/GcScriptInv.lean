/-
  The script level (`GcScript`): a client that respects the collector's contract (no `tedge` /
  `oedge`, which report an edge without owning a reference or vice versa) keeps `GcInv`, and an
  object it still holds a handle on is never freed.
-/
import SodiumVerif.Lemmas.GcLoop

namespace SodiumVerif
namespace Gc
open State

/-- frame of the compound client operations: `nextId` and the `freed` flags -/
theorem addEdge_frame {g : State} {a b : Nat} (hfb : (g.nodes.get b).freed = false) :
    (addEdge g a b).nextId = g.nextId ∧
      ∀ i, ((addEdge g a b).nodes.get i).freed = (g.nodes.get i).freed := by
  rw [addEdge_eq]
  have C := ownedChange_addOwned (incRef g b) a b
  have F := rcOnly_incRef hfb
  exact ⟨C.nextId.trans F.nextId, fun i => (C.freed' i).trans (F.freed i)⟩

theorem delEdge_frame (g : State) (a b : Nat) :
    (delEdge g a b).nextId = g.nextId ∧
      ∀ i, ((delEdge g a b).nodes.get i).freed = (g.nodes.get i).freed := by
  rw [delEdge_eq]
  have C := ownedChange_delOwned g a b
  have F := rcOnly_decRef (delOwned g a b) b
  exact ⟨F.nextId.trans C.nextId, fun i => (F.freed i).trans (C.freed' i)⟩

theorem upgradeDrop_frame (g : State) (n : Nat) :
    (upgradeDrop g n).nextId = g.nextId ∧
      ∀ i, ((upgradeDrop g n).nodes.get i).freed = (g.nodes.get i).freed := by
  rw [upgradeDrop_eq]
  split
  · next h =>
    have F1 := rcOnly_incRef h.2
    have F2 := rcOnly_decRef (incRef g n) n
    exact ⟨F2.nextId.trans F1.nextId, fun i => (F2.freed i).trans (F1.freed i)⟩
  · exact ⟨rfl, fun _ => rfl⟩

end Gc

namespace GcScript
open Gc

/-- the script state is consistent: the collector invariant holds and every handle the client
    holds is accounted for in the external count of an unfreed allocated object -/
structure ScriptInv (s : St) : Prop where
  inv : GcInv s.g
  held : ∀ a, 0 < s.handles.get a →
    a < s.g.nextId ∧ (s.g.nodes.get a).freed = false ∧ s.handles.get a ≤ ext s.g a

/-- operations of a contract-respecting client -/
def Op.good : Op → Prop
  | .tedge _ _ => False
  | .oedge _ _ => False
  | _ => True

theorem scriptInv_init : ScriptInv {} :=
  ⟨gcinv_init, fun a h => by simp at h⟩

theorem script_step {s s' : St} {op : Op} (J : ScriptInv s) (hop : op.good)
    (hfuel : op = .collect → (collectCycles s.g).oof = false)
    (h : apply s op = some s') : ScriptInv s' := by
  cases op with
  | tedge a b => exact absurd hop id
  | oedge a b => exact absurd hop id
  | bad => simp [apply] at h
  | reset =>
    simp only [apply, Option.some.injEq] at h
    subst h; exact scriptInv_init
  | brief =>
    simp only [apply, Option.some.injEq] at h
    subst h; exact ⟨J.inv, J.held⟩
  | full =>
    simp only [apply, Option.some.injEq] at h
    subst h; exact ⟨J.inv, J.held⟩
  | dump =>
    simp only [apply, Option.some.injEq] at h
    subst h; exact J
  | new =>
    simp only [apply, Option.some.injEq] at h
    subst h
    refine ⟨gcinv_newNode J.inv, fun a ha => ?_⟩
    simp only [Store.get_set] at ha ⊢
    show a < (newNode s.g).1.nextId ∧ ((newNode s.g).1.nodes.get a).freed = false ∧ _
    rw [newNode_nextId]
    have hid : (newNode s.g).2 = s.g.nextId := rfl
    rw [hid] at ha ⊢
    by_cases hi : a = s.g.nextId
    · subst hi
      rw [if_pos rfl, ext_newNode_new J.inv, newNode_get, if_pos rfl]
      exact ⟨by omega, rfl, Nat.le_refl _⟩
    · rw [if_neg hi] at ha ⊢
      obtain ⟨h1, h2, h3⟩ := J.held a ha
      rw [ext_newNode_other J.inv hi, newNode_get, if_neg hi]
      exact ⟨by omega, h2, h3⟩
  | inc a =>
    simp only [apply] at h
    split at h
    · next hc =>
      simp only [Option.some.injEq] at h
      subst h
      obtain ⟨h1, h2, h3⟩ := J.held a hc.2
      have F := rcOnly_incRef h2
      refine ⟨gcinv_incRef J.inv h1 h2, fun x hx => ?_⟩
      simp only [Store.get_set] at hx ⊢
      show x < (incRef s.g a).nextId ∧ ((incRef s.g a).nodes.get x).freed = false ∧ _
      rw [F.nextId, F.freed]
      by_cases hi : x = a
      · subst hi
        rw [if_pos rfl, ext_incRef_self J.inv h2]
        exact ⟨h1, h2, by omega⟩
      · rw [if_neg hi] at hx ⊢
        rw [ext_incRef_other h2 hi]
        exact J.held x hx
    · cases h
  | dec a =>
    simp only [apply] at h
    split at h
    · next hc =>
      simp only [Option.some.injEq] at h
      subst h
      obtain ⟨h1, h2, h3⟩ := J.held a hc.2
      have he : 0 < ext s.g a := by omega
      have F := rcOnly_decRef s.g a
      refine ⟨gcinv_decRef_handle J.inv h1 he, fun x hx => ?_⟩
      simp only [Store.get_set] at hx ⊢
      show x < (decRef s.g a).nextId ∧ ((decRef s.g a).nodes.get x).freed = false ∧ _
      rw [F.nextId, F.freed]
      by_cases hi : x = a
      · subst hi
        rw [if_pos rfl] at hx ⊢
        rw [ext_decRef_self he]
        exact ⟨h1, h2, by omega⟩
      · rw [if_neg hi] at hx ⊢
        rw [ext_decRef_other _ hi]
        exact J.held x hx
    · cases h
  | edge a b =>
    have hg := apply_edge_g h
    simp only [apply] at h
    split at h
    · next hc =>
      simp only [Option.some.injEq] at h
      have hh : s'.handles = s.handles := by subst h; rfl
      obtain ⟨ha1, ha2, _⟩ := J.held a hc.2.2.1
      obtain ⟨hb1, hb2, _⟩ := J.held b hc.2.2.2.1
      obtain ⟨hn, hf⟩ := addEdge_frame (a := a) hb2
      refine ⟨by rw [hg]; exact gcinv_addEdge J.inv ha1 hb1 ha2 hb2, fun x hx => ?_⟩
      rw [hh] at hx ⊢
      rw [hg, hn, hf, ext_addEdge J.inv ha1 ha2 hb2]
      exact J.held x hx
    · cases h
  | unedge a b =>
    obtain ⟨hg, ha1, ha2, hb⟩ := apply_unedge_g h
    simp only [apply] at h
    split at h
    · simp only [Option.some.injEq] at h
      have hh : s'.handles = s.handles := by subst h; rfl
      obtain ⟨hn, hf⟩ := delEdge_frame s.g a b
      refine ⟨by rw [hg]; exact gcinv_delEdge J.inv ha1 ha2 hb, fun x hx => ?_⟩
      rw [hh] at hx ⊢
      rw [hg, hn, hf, ext_delEdge J.inv ha1 ha2 hb]
      exact J.held x hx
    · cases h
  | deref a b =>
    simp only [apply] at h
    split at h
    · next hc =>
      simp only [Option.some.injEq] at h
      subst h
      obtain ⟨_, ha2, _⟩ := J.held a hc.2.1
      have hmem : b ∈ (s.g.nodes.get a).owned := by
        have := hc.2.2.2; simpa [State.node] using this
      have h1 : b < s.g.nextId := J.inv.wf a b hmem
      have h2 : (s.g.nodes.get b).freed = false := J.inv.noDangling a b ha2 hmem
      have F := rcOnly_incRef h2
      refine ⟨gcinv_incRef J.inv h1 h2, fun x hx => ?_⟩
      simp only [Store.get_set] at hx ⊢
      show x < (incRef s.g b).nextId ∧ ((incRef s.g b).nodes.get x).freed = false ∧ _
      rw [F.nextId, F.freed]
      by_cases hi : x = b
      · subst hi
        rw [if_pos rfl, ext_incRef_self J.inv h2]
        by_cases h0 : 0 < s.handles.get x
        · obtain ⟨_, _, h3⟩ := J.held x h0
          exact ⟨h1, h2, by omega⟩
        · exact ⟨h1, h2, by omega⟩
      · rw [if_neg hi] at hx ⊢
        rw [ext_incRef_other h2 hi]
        exact J.held x hx
    · cases h
  | updrop a =>
    have hg := apply_updrop_g h
    simp only [apply] at h
    split at h
    · next hc =>
      simp only [Option.some.injEq] at h
      have hh : s'.handles = s.handles := by subst h; rfl
      obtain ⟨hn, hf⟩ := upgradeDrop_frame s.g a
      refine ⟨by rw [hg]; exact gcinv_upgradeDrop J.inv hc, fun x hx => ?_⟩
      rw [hh] at hx ⊢
      rw [hg, hn, hf, ext_upgradeDrop J.inv]
      exact J.held x hx
    · cases h
  | collect =>
    simp only [apply, Option.some.injEq] at h
    subst h
    obtain ⟨hP, _⟩ := collectCycles_spec s.g J.inv (hfuel rfl)
    refine ⟨hP.inv, fun x hx => ?_⟩
    have hx' : 0 < s.handles.get x := hx
    obtain ⟨h1, h2, h3⟩ := J.held x hx'
    show x < (collectCycles s.g).nextId ∧ ((collectCycles s.g).nodes.get x).freed = false ∧
      s.handles.get x ≤ ext (collectCycles s.g) x
    rw [hP.nextId, hP.ext J.inv]
    exact ⟨h1, hP.live x ⟨x, h2, by omega, .refl x⟩, h3⟩

end GcScript
end SodiumVerif
