/-
  Lemmas about `addSend` (pending sink events of the open transaction).
-/
import SodiumVerif.Spec.Denot

namespace SodiumVerif
namespace Spec

theorem get_filter_append_same (l : Events) (i : Nat) (w : Int) :
    Events.get (l.filter (·.1 != i) ++ [(i, w)]) i = some w := by
  unfold Events.get
  rw [List.find?_append]
  have : (l.filter (·.1 != i)).find? (·.1 == i) = none := by
    rw [List.find?_eq_none]
    intro x hx
    have := (List.mem_filter.mp hx).2
    simpa using this
  rw [this]
  simp

theorem get_filter_append_other (l : Events) (i j : Nat) (w : Int) (h : j ≠ i) :
    Events.get (l.filter (·.1 != i) ++ [(i, w)]) j = Events.get l j := by
  unfold Events.get
  rw [List.find?_append]
  have h1 : (l.filter (·.1 != i)).find? (·.1 == j) = l.find? (·.1 == j) := by
    induction l with
    | nil => rfl
    | cons a l ih =>
      obtain ⟨a1, a2⟩ := a
      by_cases ha : a1 = i
      · have hj : (a1 == j) = false := by
          simp only [beq_eq_false_iff_ne]; exact fun e => h (e.symm.trans ha)
        have hf : ((a1, a2).1 != i) = false := by simp [ha]
        rw [List.filter_cons, if_neg (by simp [hf]), List.find?_cons_of_neg (by simp [hj])]
        exact ih
      · have hf : ((a1, a2).1 != i) = true := by simp [ha]
        rw [List.filter_cons, if_pos hf]
        by_cases haj : a1 = j
        · rw [List.find?_cons_of_pos (by simp [haj]), List.find?_cons_of_pos (by simp [haj])]
        · rw [List.find?_cons_of_neg (by simp [haj]), List.find?_cons_of_neg (by simp [haj])]
          exact ih
  have h2 : [(i, w)].find? (·.1 == j) = none := by
    have : ¬ i = j := fun e => h e.symm
    simp [this]
  rw [h1, h2]
  simp

/-- the pending event of a sink after one more send: fold into the previous one if the sink has a
    coalescer and something is pending, else the new value -/
def pend (coal : Option Int) (cur : Option Int) (v : Int) : Option Int :=
  match coal, cur with
  | some op, some old => some (f2 op old v)
  | _, _ => some v

theorem addSend_get_same (coal : Option Int) (sends : Events) (i : Nat) (v : Int) :
    (addSend coal sends i v).get i = pend coal (sends.get i) v := by
  unfold addSend pend
  split <;> simp_all [get_filter_append_same]

theorem addSend_get_other' (coal : Option Int) (sends : Events) (i j : Nat) (v : Int) (h : j ≠ i) :
    (addSend coal sends i v).get j = sends.get j := by
  unfold addSend
  split <;> exact get_filter_append_other _ _ _ _ h

theorem foldl_pend_some (op : Int) (vs : List Int) (a : Int) :
    vs.foldl (pend (some op)) (some a) = some (vs.foldl (f2 op) a) := by
  induction vs generalizing a with
  | nil => rfl
  | cons v vs ih => simp only [List.foldl_cons, pend]; exact ih _

theorem foldl_pend_none (vs : List Int) (v : Int) (cur : Option Int) :
    (v :: vs).foldl (pend none) cur = some ((v :: vs).getLast (by simp)) := by
  induction vs generalizing v cur with
  | nil => simp [pend]
  | cons w vs ih =>
    rw [List.foldl_cons, ih]
    simp

theorem pend_none_left (coal : Option Int) (v : Int) : pend coal none v = some v := by
  unfold pend; split <;> simp_all

end Spec
end SodiumVerif
