/-
  Lemmas about cell values (`cellVal`, `Spec.val`) and how `stepTxn` changes them.
-/
import SodiumVerif.Lemmas.SpecStep

namespace SodiumVerif
namespace Spec

theorem val_stored {sp : Spec} {i : Nat} {v : Int} (h : sp.stored.get i = some v) :
    sp.val i = some v := by
  unfold Spec.val cellVal
  simp [h]

/-- a cell with a constant initial value: the stored value if there is one, else the initial one -/
def Def.init? : Def → Option Int
  | .csink k | .const k | .hold _ k | .accum _ k _ | .collect _ k _ => some k
  | _ => none

theorem val_base {sp : Spec} {i : Nat} {k : Int} (h : (sp.getDef i).init? = some k) :
    sp.val i = some ((sp.stored.get i).getD k) := by
  unfold Spec.val cellVal
  cases hs : sp.stored.get i with
  | some v => simp
  | none =>
    simp only [Option.getD_none]
    cases hd : sp.getDef i <;> simp_all [Def.init?]

/-- a `hold_lazy` whose Lazy could not be read when it was made -/
def Def.isHoldz : Def → Bool
  | .holdz .. => true
  | _ => false

theorem Def.isHoldz_false_iff (d : Def) : d.isHoldz = false ↔ ∀ s c, d ≠ .holdz s c := by
  cases d <;> simp [Def.isHoldz]

/-- the slot of a cell (not `collect`, not `holdz`) after a transaction: the firing, or unchanged -/
theorem stepTxn_stored_cell {sp : Spec} {ev : Events} {i : Nat} (hc : (sp.getDef i).isCell = true)
    (hz : (sp.getDef i).isHoldz = false) :
    (stepTxn sp ev).stored.get i =
      match fire (fireTable sp ev) i with
      | some v => some v
      | none => sp.stored.get i := by
  have hi : i < sp.defs.size := getDef_lt sp i (by intro h; rw [h] at hc; cases hc)
  rw [stepTxn_stored, applyUpdates_stored_get, if_pos hi]
  unfold storedUpd
  split
  · rename_i s k op h; rw [h] at hc; cases hc
  · rename_i s c h; rw [h] at hz; cases hz
  · rw [if_pos hc]
    cases fire (fireTable sp ev) i <;> simp

/-- the slot of a `holdz` after a transaction: the firing; else, when nothing is stored yet, the value
    its Lazy's cell had at the start of the transaction (if readable); else unchanged -/
theorem stepTxn_stored_holdz {sp : Spec} {ev : Events} {i s c : Nat} (h : sp.getDef i = .holdz s c) :
    (stepTxn sp ev).stored.get i =
      match fire (fireTable sp ev) i with
      | some v => some v
      | none => (match sp.stored.get i, sp.val c with
        | none, some v => some v
        | _, _ => sp.stored.get i) := by
  have hi : i < sp.defs.size := getDef_lt sp i (by rw [h]; simp)
  rw [stepTxn_stored, applyUpdates_stored_get, if_pos hi]
  simp only [storedUpd, h]
  cases hf : fire (fireTable sp ev) i with
  | some v => simp
  | none =>
    simp only
    split <;> simp_all

/-- the state slot of a `collect` after a transaction -/
theorem stepTxn_stored_collect {sp : Spec} {ev : Events} {i s : Nat} {k op : Int}
    (h : sp.getDef i = .collect s k op) :
    (stepTxn sp ev).stored.get i =
      match fire (fireTable sp ev) s, sp.val i with
      | some x, some st => some (f2 (op + 1) x st)
      | _, _ => sp.stored.get i := by
  have hi : i < sp.defs.size := getDef_lt sp i (by rw [h]; simp)
  rw [stepTxn_stored, applyUpdates_stored_get, if_pos hi]
  simp only [storedUpd, h]
  split <;> simp_all

/-- slots of definitions that are neither cells nor `collect` are never written -/
theorem stepTxn_stored_other {sp : Spec} {ev : Events} {i : Nat}
    (hc : (sp.getDef i).isCell = false) (hn : ∀ s k op, sp.getDef i ≠ .collect s k op) :
    (stepTxn sp ev).stored.get i = sp.stored.get i := by
  rw [stepTxn_stored, applyUpdates_stored_get]
  split
  · unfold storedUpd
    split
    · rename_i s k op h; exact absurd h (hn s k op)
    · rename_i s c h; rw [h] at hc; cases hc
    · simp [hc]
  · rfl

end Spec
end SodiumVerif
