/-
  Lemmas about cell values (`cellVal`, `Spec.val`) and how `stepTxn` changes them.
-/
import SodiumVerif.Lemmas.SpecStep

namespace SodiumVerif
namespace Spec

theorem val_stored {sp : Spec} {i : Nat} {v : Int} (h : sp.stored.get i = some v) :
    sp.val i = some v := by
  unfold Spec.val cellVal
  simp [h]

/-- a cell with a constant initial value: the stored value if there is one, else the initial one -/
def Def.init? : Def → Option Int
  | .csink k | .const k | .hold _ k | .accum _ k _ | .collect _ k _ => some k
  | _ => none

theorem val_base {sp : Spec} {i : Nat} {k : Int} (h : (sp.getDef i).init? = some k) :
    sp.val i = some ((sp.stored.get i).getD k) := by
  unfold Spec.val cellVal
  cases hs : sp.stored.get i with
  | some v => simp
  | none =>
    simp only [Option.getD_none]
    cases hd : sp.getDef i <;> simp_all [Def.init?]

/-- the slot of a cell (not `collect`) after a transaction: the firing, or unchanged -/
theorem stepTxn_stored_cell {sp : Spec} {ev : Events} {i : Nat} (hc : (sp.getDef i).isCell = true) :
    (stepTxn sp ev).stored.get i =
      match fire (fireTable sp ev) i with
      | some v => some v
      | none => sp.stored.get i := by
  have hi : i < sp.defs.size := getDef_lt sp i (by intro h; rw [h] at hc; cases hc)
  rw [stepTxn_stored, applyUpdates_stored_get, if_pos hi]
  unfold storedUpd
  split
  · rename_i s k op h; rw [h] at hc; cases hc
  · rw [if_pos hc]
    cases fire (fireTable sp ev) i <;> simp

/-- the state slot of a `collect` after a transaction -/
theorem stepTxn_stored_collect {sp : Spec} {ev : Events} {i s : Nat} {k op : Int}
    (h : sp.getDef i = .collect s k op) :
    (stepTxn sp ev).stored.get i =
      match fire (fireTable sp ev) s, sp.val i with
      | some x, some st => some (f2 (op + 1) x st)
      | _, _ => sp.stored.get i := by
  have hi : i < sp.defs.size := getDef_lt sp i (by rw [h]; simp)
  rw [stepTxn_stored, applyUpdates_stored_get, if_pos hi]
  simp only [storedUpd, h]
  split <;> simp_all

/-- slots of definitions that are neither cells nor `collect` are never written -/
theorem stepTxn_stored_other {sp : Spec} {ev : Events} {i : Nat}
    (hc : (sp.getDef i).isCell = false) (hn : ∀ s k op, sp.getDef i ≠ .collect s k op) :
    (stepTxn sp ev).stored.get i = sp.stored.get i := by
  rw [stepTxn_stored, applyUpdates_stored_get]
  split
  · unfold storedUpd
    split
    · rename_i s k op h; exact absurd h (hn s k op)
    · simp [hc]
  · rfl

end Spec
end SodiumVerif
