/-
  `collect_white`: blackens white objects and lists exactly those, each once; an object that
  stopped being white has no white child afterwards.
-/
import SodiumVerif.Lemmas.GcScan

namespace SodiumVerif
namespace Gc
open State

/-- effect of (a sequence of) `collect_white` walks on the state and the collected list -/
structure CW (a b : State × List Nat) : Prop where
  walk : WalkP a.1 b.1
  rest : ∀ i, (b.1.nodes.get i).adj = (a.1.nodes.get i).adj ∧
    (b.1.nodes.get i).visited = (a.1.nodes.get i).visited
  color : ∀ i, (b.1.nodes.get i).color = (a.1.nodes.get i).color ∨
    ((a.1.nodes.get i).color = .white ∧ (b.1.nodes.get i).color = .black)
  list : ∃ l, b.2 = a.2 ++ l ∧ l.Nodup ∧
    ∀ i, i ∈ l ↔ ((a.1.nodes.get i).color = .white ∧ (b.1.nodes.get i).color = .black)
  whiteClosed : ∀ i, (a.1.nodes.get i).color = .white → (b.1.nodes.get i).color ≠ .white →
    b.1.oof = false → ∀ c ∈ (a.1.nodes.get i).traced, (b.1.nodes.get c).color ≠ .white
  ge : ∀ i, a.1.nextId ≤ i → b.1.nodes.get i = a.1.nodes.get i

namespace CW
variable {a b c : State × List Nat}

theorem refl (a : State × List Nat) : CW a a :=
  ⟨WalkP.refl a.1, fun _ => ⟨rfl, rfl⟩, fun _ => .inl rfl,
   ⟨[], by simp, List.nodup_nil, fun i => by
      constructor
      · intro h; cases h
      · rintro ⟨h1, h2⟩; rw [h1] at h2; cases h2⟩,
   fun _ h h' => absurd h h', fun _ _ => rfl⟩

theorem black_mono (h : CW a b) (i : Nat) (hb : (a.1.nodes.get i).color = .black) :
    (b.1.nodes.get i).color = .black := by
  rcases h.color i with e | ⟨e, _⟩
  · rw [e]; exact hb
  · rw [hb] at e; cases e

theorem nonwhite_mono (h : CW a b) (i : Nat) (hb : (a.1.nodes.get i).color ≠ .white) :
    (b.1.nodes.get i).color ≠ .white := by
  rcases h.color i with e | ⟨e, _⟩
  · rw [e]; exact hb
  · exact absurd e hb

theorem trans (h1 : CW a b) (h2 : CW b c) : CW a c := by
  refine ⟨h1.walk.trans h2.walk, fun i => ?_, fun i => ?_, ?_, fun i hn hb ho => ?_, fun i hi => ?_⟩
  · exact ⟨(h2.rest i).1.trans (h1.rest i).1, (h2.rest i).2.trans (h1.rest i).2⟩
  · rcases h1.color i with e1 | ⟨e1, e1'⟩
    · have := h2.color i; rw [e1] at this; exact this
    · exact .inr ⟨e1, h2.black_mono i e1'⟩
  · obtain ⟨l1, e1, n1, m1⟩ := h1.list
    obtain ⟨l2, e2, n2, m2⟩ := h2.list
    refine ⟨l1 ++ l2, by rw [e2, e1, List.append_assoc], ?_, fun i => ?_⟩
    · rw [List.nodup_append]
      refine ⟨n1, n2, fun x hx y hy hxy => ?_⟩
      subst hxy
      have hb := ((m1 x).mp hx).2
      have hw := ((m2 x).mp hy).1
      rw [hb] at hw; cases hw
    · rw [List.mem_append, m1, m2]
      constructor
      · rintro (⟨hw, hb⟩ | ⟨hw, hb⟩)
        · exact ⟨hw, h2.black_mono i hb⟩
        · rcases h1.color i with e | ⟨e, e'⟩
          · rw [← e]; exact ⟨hw, hb⟩
          · rw [e'] at hw; cases hw
      · rintro ⟨hw, hb⟩
        rcases h1.color i with e | ⟨_, e'⟩
        · right; rw [e]; exact ⟨hw, hb⟩
        · left; exact ⟨hw, e'⟩
  · have ho' := h2.walk.toWalk.oof_false ho
    by_cases hb' : (b.1.nodes.get i).color = .white
    · have := h2.whiteClosed i hb' hb ho
      rw [h1.walk.toWalk.traced i] at this
      exact this
    · intro x hx; exact h2.nonwhite_mono x (h1.whiteClosed i hn hb' ho' x hx)
  · rw [h2.ge i (by rw [h1.walk.toWalk.nextId]; exact hi), h1.ge i hi]

end CW

theorem cw_of_nodes_eq {a b : State × List Nat} (hw : WalkP a.1 b.1) (h : b.1.nodes = a.1.nodes)
    (hl : b.2 = a.2) : CW a b := by
  refine ⟨hw, fun i => by rw [h]; exact ⟨rfl, rfl⟩, fun i => .inl (by rw [h]), ⟨[], by simp [hl], List.nodup_nil, ?_⟩,
    fun i hn hb => by rw [h] at hb; exact absurd hn hb, fun i _ => by rw [h]⟩
  intro i
  constructor
  · intro h; cases h
  · rintro ⟨h1, h2⟩; rw [h, h1] at h2; cases h2

theorem collectWhite_spec : ∀ (fuel s : Nat) (gw : State × List Nat), s < gw.1.nextId → WfE gw.1 →
    CW gw (collectWhite fuel s gw) ∧
      ((collectWhite fuel s gw).1.oof = false →
        ((collectWhite fuel s gw).1.nodes.get s).color ≠ .white) := by
  intro fuel
  induction fuel with
  | zero =>
    intro s gw _ _
    obtain ⟨g, w⟩ := gw
    exact ⟨cw_of_nodes_eq (walkP_oof g) rfl rfl, fun h => by simp [collectWhite_zero] at h⟩
  | succ fuel ih =>
    intro s gw hs hwf
    obtain ⟨g, w⟩ := gw
    simp only at hs hwf
    rw [collectWhite_succ]
    by_cases hc : (g.nodes.get s).color = .white
    · rw [if_pos hc]
      generalize hg1 : (g.upd s fun x => { x with color := .black }).tick = g1
      have hw1 : WalkP g g1 := by
        rw [← hg1]
        exact (walkP_upd g s (fun x => { x with color := .black }) rfl).trans (walkP_tick _)
      have hn1 : ∀ i, g1.nodes.get i =
          if i = s then (g.nodes.get s).setColor .black else g.nodes.get i := by
        intro i; rw [← hg1]; simp only [State.upd, State.tick, Store.get_set]; rfl
      have hne : ∀ i, i ≠ s → g1.nodes.get i = g.nodes.get i := fun i hi => by rw [hn1, if_neg hi]
      have hs1 : (g1.nodes.get s).color = .black := by rw [hn1, if_pos rfl]; rfl
      have hs1' : g1.nodes.get s = (g.nodes.get s).setColor .black := by rw [hn1, if_pos rfl]
      have hfold := foldl_rel_all (R := CW)
        (I := fun a => edges a.1 = edges g ∧ a.1.nextId = g.nextId)
        (Q := fun t a => a.1.oof = false → (a.1.nodes.get t).color ≠ .white)
        (f := fun (gw : State × List Nat) t => collectWhite fuel t (gw.1.tickE, gw.2))
        CW.refl (fun _ _ _ => CW.trans)
        (fun a b ha hab => ⟨hab.walk.toWalk.edges.trans ha.1, hab.walk.toWalk.nextId.trans ha.2⟩)
        (fun t a a' haa' hq ho => haa'.nonwhite_mono t (hq (haa'.walk.toWalk.oof_false ho)))
        (g.nodes.get s).traced (g1, w) ⟨hw1.toWalk.edges, hw1.toWalk.nextId⟩
        (by
          intro a ha t ht
          have htl : t < a.1.nextId := by rw [ha.2]; exact hwf s t ht
          have hwfa : WfE a.1 := by intro i u hu; rw [ha.1] at hu; rw [ha.2]; exact hwf i u hu
          have h0 : CW a (a.1.tickE, a.2) := cw_of_nodes_eq (walkP_tickE a.1) rfl rfl
          have h := ih t (a.1.tickE, a.2) htl hwfa
          exact ⟨h0.trans h.1, h.2⟩)
      generalize List.foldl (fun (gw : State × List Nat) t => collectWhite fuel t (gw.1.tickE, gw.2))
        (g1, w) (g.nodes.get s).traced = r at hfold
      obtain ⟨hR, hQ⟩ := hfold
      obtain ⟨g', w'⟩ := r
      simp only at hR hQ ⊢
      have hsb : (g'.nodes.get s).color = .black := hR.black_mono s hs1
      refine ⟨⟨hw1.trans hR.walk, fun i => ?_, fun i => ?_, ?_, fun i hn hb ho => ?_, fun i hi => ?_⟩,
        fun _ => by rw [hsb]; intro h; cases h⟩
      · by_cases hi : i = s
        · subst hi; have := hR.rest i; simp only at this; rw [hs1'] at this; exact this
        · have := hR.rest i; simp only at this; rw [hne i hi] at this; exact this
      · by_cases hi : i = s
        · subst hi; exact .inr ⟨hc, hsb⟩
        · have := hR.color i; simp only at this; rw [hne i hi] at this; exact this
      · obtain ⟨l, e, nd, m⟩ := hR.list
        simp only at e m
        have hsl : s ∉ l := by
          intro h; have := ((m s).mp h).1; rw [hs1] at this; cases this
        refine ⟨l ++ [s], by simp only [e, List.append_assoc], ?_, fun i => ?_⟩
        · rw [List.nodup_append]
          refine ⟨nd, (by simp), fun x hx y hy hxy => ?_⟩
          rw [List.mem_singleton] at hy
          subst hxy; subst hy; exact hsl hx
        · simp only [List.mem_append, List.mem_singleton]
          by_cases hi : i = s
          · subst hi; exact ⟨fun _ => ⟨hc, hsb⟩, fun _ => .inr rfl⟩
          · rw [m i, hne i hi]
            exact ⟨fun h => h.elim id (fun h => absurd h hi), fun h => .inl h⟩
      · by_cases hi : i = s
        · subst hi; intro c hc'; exact hQ c hc' ho
        · have := hR.whiteClosed i; simp only at this; rw [hne i hi] at this; exact this hn hb ho
      · have hi' : i ≠ s := by simp only at hi; omega
        have := hR.ge i (by simp only; rw [hw1.toWalk.nextId]; exact hi)
        simp only at this
        rw [hne i hi'] at this; exact this
    · rw [if_neg hc]
      exact ⟨CW.refl _, fun _ => hc⟩

end Gc
end SodiumVerif
