/-
  Lemmas for C13: a ranking that does not depend on the state, enough fuel for `cellVal`, and the
  value of every cell after a transaction.
-/
import SodiumVerif.Lemmas.SpecVal

namespace SodiumVerif
namespace Spec

/-! ### operands that depend only on `defs` and `loopTo` -/

/-- like `operands`, but a `switchs` counts all its candidates (not only the selected one) -/
def staticOperands (sp : Spec) (i : Nat) : List Nat :=
  match sp.getDef i with
  | .switchs _ cands => if cands = [] then [0] else cands
  | _ => operands sp i

theorem operands_sub_static (sp : Spec) (i j : Nat) (h : j ∈ operands sp i) :
    j ∈ staticOperands sp i := by
  unfold staticOperands
  split
  · rename_i sel cands hd
    simp only [operands, hd] at h
    split at h
    · rename_i k hk
      have hj : j = cands.getD (k % cands.length).toNat 0 := by simpa using h
      subst hj
      split
      · rename_i he; subst he; simp
      · rename_i hne; exact getD_emod_mem cands _ hne
    · cases h
  · exact h

/-- a ranking w.r.t. `staticOperands`: it stays valid along `stepTxn` -/
structure StaticRanked (sp : Spec) (rank : Nat → Nat) : Prop where
  bound : ∀ i, i < sp.defs.size → rank i ≤ sp.defs.size
  dec : ∀ i, i < sp.defs.size → ∀ j, j ∈ staticOperands sp i → j < sp.defs.size ∧ rank j < rank i
  vdec : ∀ i, i < sp.defs.size → ∀ j, j ∈ valDeps sp i → j < sp.defs.size ∧ rank j < rank i

theorem StaticRanked.wellRanked {sp : Spec} {rank : Nat → Nat} (h : StaticRanked sp rank) :
    WellRanked sp rank :=
  ⟨h.bound, fun i hi j hj => h.dec i hi j (operands_sub_static sp i j hj), h.vdec⟩

/-- two states with the same definitions and loops -/
def SameProg (sp sp' : Spec) : Prop := sp'.defs = sp.defs ∧ sp'.loopTo = sp.loopTo

theorem SameProg.getDef {sp sp' : Spec} (h : SameProg sp sp') (i : Nat) :
    sp'.getDef i = sp.getDef i := by
  unfold Spec.getDef; rw [h.1]

theorem sameProg_stepTxn (sp : Spec) (ev : Events) : SameProg sp (stepTxn sp ev) := ⟨rfl, rfl⟩
theorem sameProg_run (sp : Spec) (evs : List Events) : SameProg sp (run sp evs) :=
  ⟨run_defs sp evs, run_loopTo sp evs⟩

theorem staticOperands_same {sp sp' : Spec} (h : SameProg sp sp') (i : Nat) :
    staticOperands sp' i = staticOperands sp i := by
  unfold staticOperands operands
  rw [h.getDef, h.2]
  cases hd : sp.getDef i <;> simp

theorem valDeps_same {sp sp' : Spec} (h : SameProg sp sp') (i : Nat) :
    valDeps sp' i = valDeps sp i := by
  unfold valDeps
  rw [h.getDef]

theorem StaticRanked.same {sp sp' : Spec} {rank : Nat → Nat} (h : StaticRanked sp rank)
    (hs : SameProg sp sp') : StaticRanked sp' rank := by
  constructor
  · intro i hi; rw [hs.1] at hi ⊢; exact h.bound i hi
  · intro i hi j hj
    rw [hs.1] at hi ⊢
    rw [staticOperands_same hs] at hj
    exact h.dec i hi j hj
  · intro i hi j hj
    rw [hs.1] at hi ⊢
    rw [valDeps_same hs] at hj
    exact h.vdec i hi j hj

/-! ### enough fuel -/

theorem mapM_option_congr {α β : Type} (g g' : α → Option β) (l : List α)
    (h : ∀ a, a ∈ l → g a = g' a) : l.mapM g = l.mapM g' := by
  induction l with
  | nil => rfl
  | cons a l ih =>
    rw [List.mapM_cons, List.mapM_cons, h a (by simp), ih (fun b hb => h b (by simp [hb]))]

theorem cellVal_succ (sp : Spec) (fuel i : Nat) :
    cellVal sp (fuel + 1) i =
      match sp.stored.get i with
      | some v => some v
      | none =>
        match sp.getDef i with
        | .csink k | .const k | .hold _ k | .accum _ k _ | .collect _ k _ => some k
        | .holdz _ c => cellVal sp fuel c
        | .mapc c k => (cellVal sp fuel c).map (f1 k)
        | .lift2 a b op => do let x ← cellVal sp fuel a; let y ← cellVal sp fuel b; pure (f2 op x y)
        | .liftn cs => (cs.mapM (cellVal sp fuel)).map fN
        | .switchc sel cands => do
            let k ← cellVal sp fuel sel
            cellVal sp fuel (cands.getD (k % cands.length).toNat 0)
        | .cloop => match sp.loopTo.get i with
            | some t => cellVal sp fuel t
            | none => none
        | _ => none := by
  rw [cellVal]; rfl

theorem cellVal_fuel {sp : Spec} {rank : Nat → Nat} (wr : WellRanked sp rank) :
    ∀ (f f' i : Nat), rank i < f → rank i < f' → i < sp.defs.size →
      cellVal sp f i = cellVal sp f' i := by
  intro f
  induction f with
  | zero => intro f' i h; omega
  | succ f ih =>
    intro f' i h1 h2 hi
    cases f' with
    | zero => omega
    | succ f' =>
      have hdep : ∀ j, j ∈ operands sp i → cellVal sp f j = cellVal sp f' j := by
        intro j hj
        have := wr.dec i hi j hj
        exact ih f' j (by omega) (by omega) this.1
      have hvdep : ∀ j, j ∈ valDeps sp i → cellVal sp f j = cellVal sp f' j := by
        intro j hj
        have := wr.vdec i hi j hj
        exact ih f' j (by omega) (by omega) this.1
      rw [cellVal_succ, cellVal_succ]
      cases hs : sp.stored.get i with
      | some v => rfl
      | none =>
        cases hd : sp.getDef i with
        | holdz s c => simp only []; rw [hvdep c (by simp [valDeps, hd])]
        | mapc c k => simp only []; rw [hdep c (by simp [operands, hd])]
        | lift2 a b op =>
          simp only []
          rw [hdep a (by simp [operands, hd]), hdep b (by simp [operands, hd])]
        | liftn cs =>
          simp only []
          rw [mapM_option_congr _ _ cs (fun c hc => hdep c (by simpa [operands, hd] using hc))]
        | switchc sel cands =>
          simp only []
          have hsel : sel ∈ operands sp i := by simp only [operands, hd]; split <;> simp
          rw [hdep sel hsel]
          cases hk : cellVal sp f' sel with
          | none => rfl
          | some k =>
            simp only [Option.bind_eq_bind, Option.bind_some]
            apply hdep
            simp only [operands, hd]
            split
            · rename_i he; subst he; simp
            · rename_i hne; exact List.mem_cons_of_mem _ (getD_emod_mem cands k hne)
        | cloop =>
          simp only []
          cases hl : sp.loopTo.get i with
          | none => rfl
          | some t => simp only []; exact hdep t (by simp [operands, hd, hl])
        | _ => rfl

/-- the defining equation of `val`, with `val` (full fuel) on the inputs -/
theorem val_eq {sp : Spec} {rank : Nat → Nat} (wr : WellRanked sp rank) (i : Nat) :
    sp.val i =
      match sp.stored.get i with
      | some v => some v
      | none =>
        match sp.getDef i with
        | .csink k | .const k | .hold _ k | .accum _ k _ | .collect _ k _ => some k
        | .holdz _ c => sp.val c
        | .mapc c k => (sp.val c).map (f1 k)
        | .lift2 a b op => do let x ← sp.val a; let y ← sp.val b; pure (f2 op x y)
        | .liftn cs => (cs.mapM fun c => sp.val c).map fN
        | .switchc sel cands => do
            let k ← sp.val sel
            sp.val (cands.getD (k % cands.length).toNat 0)
        | .cloop => match sp.loopTo.get i with
            | some t => sp.val t
            | none => none
        | _ => none := by
  by_cases hi : i < sp.defs.size
  · have hdep : ∀ j, j ∈ operands sp i → cellVal sp sp.defs.size j = sp.val j := by
      intro j hj
      have h1 := wr.dec i hi j hj
      have h2 := wr.bound i hi
      exact cellVal_fuel wr _ _ j (by omega) (by omega) h1.1
    have hvdep : ∀ j, j ∈ valDeps sp i → cellVal sp sp.defs.size j = sp.val j := by
      intro j hj
      have h1 := wr.vdec i hi j hj
      have h2 := wr.bound i hi
      exact cellVal_fuel wr _ _ j (by omega) (by omega) h1.1
    unfold Spec.val
    rw [cellVal_succ]
    cases hs : sp.stored.get i with
    | some v => rfl
    | none =>
      cases hd : sp.getDef i with
      | holdz s c => simp only []; rw [hvdep c (by simp [valDeps, hd])]; rfl
      | mapc c k => simp only []; rw [hdep c (by simp [operands, hd])]; rfl
      | lift2 a b op =>
        simp only []
        rw [hdep a (by simp [operands, hd]), hdep b (by simp [operands, hd])]; rfl
      | liftn cs =>
        simp only []
        rw [mapM_option_congr _ (fun c => sp.val c) cs
          (fun c hc => hdep c (by simpa [operands, hd] using hc))]
        rfl
      | switchc sel cands =>
        simp only []
        have hsel : sel ∈ operands sp i := by simp only [operands, hd]; split <;> simp
        rw [hdep sel hsel]
        show ((sp.val sel).bind fun k => cellVal sp sp.defs.size (cands.getD (k % cands.length).toNat 0))
          = ((sp.val sel).bind fun k => sp.val (cands.getD (k % cands.length).toNat 0))
        cases hk : sp.val sel with
        | none => rfl
        | some k =>
          simp only [Option.bind_some]
          apply hdep
          simp only [operands, hd]
          split
          · rename_i he; subst he; simp
          · rename_i hne; exact List.mem_cons_of_mem _ (getD_emod_mem cands k hne)
      | cloop =>
        simp only []
        cases hl : sp.loopTo.get i with
        | none => rfl
        | some t => simp only []; exact hdep t (by simp [operands, hd, hl])
      | _ => rfl
  · have hd : sp.getDef i = .never := by
      unfold Spec.getDef; simp [Array.getD, hi]
    unfold Spec.val
    rw [cellVal_succ, hd]

/-! ### well-typed, closed programs: every cell has a value -/

/-- the cells whose value a derived cell is computed from (for `holdz` this is `valDeps`, for the other
    constructors `operands`) -/
def cellDeps (sp : Spec) (i : Nat) : List Nat :=
  match sp.getDef i with
  | .holdz _ c => [c]
  | .mapc c _ => [c]
  | .lift2 a b _ => [a, b]
  | .liftn cs => cs
  | .switchc sel cands => if cands = [] then [sel, 0] else sel :: cands
  | .cloop => (match sp.loopTo.get i with | some t => [t] | none => [])
  | _ => []

theorem cellDeps_sub_operands (sp : Spec) (i j : Nat) (h : j ∈ cellDeps sp i) :
    j ∈ operands sp i ∨ j ∈ valDeps sp i := by
  unfold cellDeps at h
  unfold operands valDeps
  cases hd : sp.getDef i with
  | cloop => cases hl : sp.loopTo.get i <;> simp_all
  | _ => simp_all

/-- a ranking decreases along `cellDeps` -/
theorem cellDeps_dec {sp : Spec} {rank : Nat → Nat} (wr : WellRanked sp rank) (i : Nat)
    (hi : i < sp.defs.size) (j : Nat) (h : j ∈ cellDeps sp i) : j < sp.defs.size ∧ rank j < rank i := by
  rcases cellDeps_sub_operands sp i j h with h | h
  · exact wr.dec i hi j h
  · exact wr.vdec i hi j h

/-- the inputs of derived cells are cells -/
def WellTyped (sp : Spec) : Prop :=
  ∀ i, i < sp.defs.size → ∀ j, j ∈ cellDeps sp i → (sp.getDef j).isCell = true

instance (sp : Spec) : Decidable (WellTyped sp) := by unfold WellTyped; infer_instance

/-- every `CellLoop` is closed -/
def Closed (sp : Spec) : Prop :=
  ∀ i, i < sp.defs.size → sp.getDef i = .cloop → sp.loopTo.get i ≠ none

instance (sp : Spec) : Decidable (Closed sp) := by unfold Closed; infer_instance

theorem cellDeps_same {sp sp' : Spec} (h : SameProg sp sp') (i : Nat) :
    cellDeps sp' i = cellDeps sp i := by
  unfold cellDeps; rw [h.getDef, h.2]

theorem WellTyped.same {sp sp' : Spec} (h : WellTyped sp) (hs : SameProg sp sp') : WellTyped sp' := by
  intro i hi j hj
  rw [cellDeps_same hs] at hj
  rw [hs.1] at hi
  rw [hs.getDef]; exact h i hi j hj

theorem Closed.same {sp sp' : Spec} (h : Closed sp) (hs : SameProg sp sp') : Closed sp' := by
  intro i hi hd
  rw [hs.getDef] at hd
  rw [hs.1] at hi
  rw [hs.2]; exact h i hi hd

theorem mapM_ne_none {α β : Type} (g : α → Option β) (l : List α)
    (h : ∀ a, a ∈ l → g a ≠ none) : l.mapM g ≠ none := by
  induction l with
  | nil => simp
  | cons a l ih =>
    rw [List.mapM_cons]
    have ha := h a (by simp)
    have hl := ih (fun b hb => h b (by simp [hb]))
    cases h1 : g a with
    | none => exact absurd h1 ha
    | some x =>
      cases h2 : l.mapM g with
      | none => exact absurd h2 hl
      | some ys => simp

theorem val_ne_none_aux {sp : Spec} {rank : Nat → Nat} (wr : WellRanked sp rank) (wt : WellTyped sp)
    (cl : Closed sp) : ∀ n i, rank i < n → (sp.getDef i).isCell = true → sp.val i ≠ none := by
  intro n
  induction n with
  | zero => intro i h; omega
  | succ n ih =>
    intro i hr hc
    have hi : i < sp.defs.size := getDef_lt sp i (by intro h; rw [h] at hc; cases hc)
    have hdep : ∀ j, j ∈ cellDeps sp i → sp.val j ≠ none := by
      intro j hj
      have := cellDeps_dec wr i hi j hj
      exact ih j (by omega) (wt i hi j hj)
    rw [val_eq wr i]
    cases hs : sp.stored.get i with
    | some v => simp
    | none =>
      cases hd : sp.getDef i with
      | holdz s c =>
        have := hdep c (by simp [cellDeps, hd])
        simpa using this
      | mapc c k =>
        have := hdep c (by simp [cellDeps, hd])
        simpa using this
      | lift2 a b op =>
        have ha := hdep a (by simp [cellDeps, hd])
        have hb := hdep b (by simp [cellDeps, hd])
        cases h1 : sp.val a with
        | none => exact absurd h1 ha
        | some x => cases h2 : sp.val b with
          | none => exact absurd h2 hb
          | some y => simp [h1, h2]
      | liftn cs =>
        have := mapM_ne_none (fun c => sp.val c) cs (fun c hc => hdep c (by simpa [cellDeps, hd] using hc))
        simpa using this
      | switchc sel cands =>
        have hsel := hdep sel (by simp only [cellDeps, hd]; split <;> simp)
        cases h1 : sp.val sel with
        | none => exact absurd h1 hsel
        | some k =>
          simp only [h1, Option.bind_eq_bind, Option.bind_some]
          apply hdep
          simp only [cellDeps, hd]
          split
          · rename_i he; subst he; simp
          · rename_i hne; exact List.mem_cons_of_mem _ (getD_emod_mem cands k hne)
      | cloop =>
        cases hl : sp.loopTo.get i with
        | none => exact absurd hl (cl i hi hd)
        | some t =>
          simp only []
          exact hdep t (by simp [cellDeps, hd, hl])
      | csink k => simp
      | const k => simp
      | hold s k => simp
      | accum s k op => simp
      | _ => rw [hd] at hc; cases hc

/-- in a ranked, well-typed program with all loops closed every cell has a value -/
theorem val_ne_none {sp : Spec} {rank : Nat → Nat} (wr : WellRanked sp rank) (wt : WellTyped sp)
    (cl : Closed sp) (i : Nat) (hc : (sp.getDef i).isCell = true) : sp.val i ≠ none :=
  val_ne_none_aux wr wt cl (rank i + 1) i (by omega) hc

/-! ### the firing of derived cells, in terms of `nextVal` -/

/-- the value a cell should have after the transaction: its firing, else its old value -/
def nextVal (sp : Spec) (ev : Events) (c : Nat) : Option Int :=
  match fire (fireTable sp ev) c with
  | some v => some v
  | none => sp.val c

theorem nextVal_some {sp : Spec} {ev : Events} {c : Nat} {v : Int}
    (h : fire (fireTable sp ev) c = some v) : nextVal sp ev c = some v := by
  simp [nextVal, h]

theorem nextVal_none {sp : Spec} {ev : Events} {c : Nat}
    (h : fire (fireTable sp ev) c = none) : nextVal sp ev c = sp.val c := by
  simp [nextVal, h]

theorem nextVal_eq_orElse (sp : Spec) (ev : Events) (c : Nat) :
    ((fire (fireTable sp ev) c).orElse fun _ => sp.val c) = nextVal sp ev c := by
  unfold nextVal; cases fire (fireTable sp ev) c <;> rfl

theorem nextVal_eq_none {sp : Spec} {ev : Events} {c : Nat} (h : nextVal sp ev c = none) :
    fire (fireTable sp ev) c = none ∧ sp.val c = none := by
  unfold nextVal at h
  cases hf : fire (fireTable sp ev) c with
  | none => rw [hf] at h; exact ⟨rfl, h⟩
  | some v => rw [hf] at h; cases h

section
variable {sp : Spec} {ev : Events} {i : Nat}

theorem mapc_fires {c k} (h : sp.getDef i = .mapc c k) (hr : Resolved sp ev i) :
    fire (fireTable sp ev) i = (fire (fireTable sp ev) c).map (f1 k) :=
  fire_unary (fun look => fireOf_mapc sp ev look i h) hr

theorem lift2_fires {a b op} (h : sp.getDef i = .lift2 a b op) (hr : Resolved sp ev i) :
    fire (fireTable sp ev) i =
      if (fire (fireTable sp ev) a).isSome || (fire (fireTable sp ev) b).isSome then
        (do let p ← nextVal sp ev a; let q ← nextVal sp ev b; pure (f2 op p q))
      else none := by
  rw [← nextVal_eq_orElse, ← nextVal_eq_orElse]
  exact fire_binary (g := fun x y => if x.isSome || y.isSome then
      (do let p ← x.orElse (fun _ => sp.val a); let q ← y.orElse (fun _ => sp.val b); pure (f2 op p q))
    else none) (fun look => fireOf_lift2 sp ev look i h) hr

theorem cloop_fires {t} (h : sp.getDef i = .cloop) (hl : sp.loopTo.get i = some t)
    (hr : Resolved sp ev i) : fire (fireTable sp ev) i = fire (fireTable sp ev) t := by
  have := fire_unary (s := t) (g := id)
    (fun look => by rw [fireOf_cloop sp ev look i h, hl]; simp) hr
  simpa using this

theorem switchc_fires {sel cands} (h : sp.getDef i = .switchc sel cands) (hr : Resolved sp ev i) :
    fire (fireTable sp ev) i =
      match fire (fireTable sp ev) sel with
      | some k => nextVal sp ev (cands.getD (k % cands.length).toNat 0)
      | none =>
        match sp.val sel with
        | some k => fire (fireTable sp ev) (cands.getD (k % cands.length).toNat 0)
        | none => none := by
  have he := hr.eqn
  rw [fireOf_switchc _ _ _ _ h] at he
  cases hs : (fireTable sp ev).get sel with
  | none => simp [hs] at he
  | some sf =>
    rw [fire_of_get hs]
    rw [hs] at he
    cases sf with
    | some k =>
      simp only [Option.bind_eq_bind, Option.bind_some] at he ⊢
      cases hi : (fireTable sp ev).get (cands.getD (k % cands.length).toNat 0) with
      | none => rw [hi] at he; simp at he
      | some f =>
        rw [hi] at he
        simp only [Option.bind_some, Option.pure_def, Option.some.injEq] at he
        rw [← he, ← nextVal_eq_orElse, fire_of_get hi]
    | none =>
      simp only [Option.bind_eq_bind, Option.bind_some] at he ⊢
      cases hv : sp.val sel with
      | none => rw [hv] at he; simpa using he.symm
      | some k =>
        rw [hv] at he
        simp only [] at he ⊢
        cases hi : (fireTable sp ev).get (cands.getD (k % cands.length).toNat 0) with
        | none => rw [hi] at he; simp at he
        | some f => rw [fire_of_get hi]; rw [hi] at he; simpa using he.symm

end

theorem mapM_get_eq (tbl : Table) :
    ∀ (cs : List Nat) (xs : List (Option Int)),
      cs.mapM (fun j => tbl.get j) = some xs → xs = cs.map (fire tbl) := by
  intro cs
  induction cs with
  | nil => intro xs h; simpa using h.symm
  | cons c cs ih =>
    intro xs h
    rw [List.mapM_cons] at h
    cases hc : tbl.get c with
    | none => simp [hc] at h
    | some x =>
      cases hcs : cs.mapM (fun j => tbl.get j) with
      | none => simp [hc, hcs] at h
      | some ys =>
        simp [hc, hcs] at h
        rw [← h, List.map_cons, fire_of_get hc, ih ys hcs]

theorem zip_map_mapM (cs : List Nat) (f v : Nat → Option Int) :
    ((cs.zip (cs.map f)).mapM fun (p : Nat × Option Int) => p.2.orElse fun _ => v p.1) =
      cs.mapM (fun j => (f j).orElse fun _ => v j) := by
  induction cs with
  | nil => rfl
  | cons c cs ih =>
    rw [List.map_cons, List.zip_cons_cons, List.mapM_cons, List.mapM_cons, ih]

theorem liftn_fires {sp : Spec} {ev : Events} {i : Nat} {cs : List Nat}
    (h : sp.getDef i = .liftn cs) (hr : Resolved sp ev i) :
    fire (fireTable sp ev) i =
      if cs.any (fun j => (fire (fireTable sp ev) j).isSome) then
        (cs.mapM (nextVal sp ev)).map fN
      else none := by
  have he := hr.eqn
  rw [fireOf_liftn _ _ _ _ h] at he
  cases hm : cs.mapM (fun j => (fireTable sp ev).get j) with
  | none => simp [hm] at he
  | some xs =>
    rw [hm] at he
    have hxs := mapM_get_eq _ cs xs hm
    subst hxs
    simp only [Option.bind_eq_bind, Option.bind_some, Option.pure_def, Option.some.injEq] at he
    rw [← he, zip_map_mapM, List.any_map]
    have : (fun j => (fire (fireTable sp ev) j).orElse fun _ => sp.val j) = nextVal sp ev := by
      funext j; exact nextVal_eq_orElse sp ev j
    rw [this]
    rfl

/-! ### the value of every cell after a transaction -/

/-- ranked (state-independently), well-typed, all cell loops closed -/
structure WellFormed (sp : Spec) (rank : Nat → Nat) : Prop where
  ranked : StaticRanked sp rank
  typed : WellTyped sp
  closed : Closed sp

theorem WellFormed.same {sp sp' : Spec} {rank : Nat → Nat} (h : WellFormed sp rank)
    (hs : SameProg sp sp') : WellFormed sp' rank :=
  ⟨h.ranked.same hs, h.typed.same hs, h.closed.same hs⟩

theorem mapM_eq_none_of_mem {α β : Type} (g : α → Option β) (l : List α) (a : α) (ha : a ∈ l)
    (h : g a = none) : l.mapM g = none := by
  induction l with
  | nil => cases ha
  | cons b l ih =>
    rw [List.mapM_cons]
    rcases List.mem_cons.mp ha with rfl | ha'
    · simp [h]
    · cases g b with
      | none => rfl
      | some x => simp [ih ha']

theorem exists_none_of_mapM {α β : Type} (g : α → Option β) (l : List α) (h : l.mapM g = none) :
    ∃ a, a ∈ l ∧ g a = none := by
  apply Classical.byContradiction
  intro hn
  apply mapM_ne_none g l _ h
  intro a ha hg
  exact hn ⟨a, ha, hg⟩

theorem val_stepTxn_cell_aux {sp : Spec} {rank : Nat → Nat} (wf : WellFormed sp rank) (ev : Events) :
    ∀ n c, rank c < n → (sp.getDef c).isCell = true → (stepTxn sp ev).val c = nextVal sp ev c := by
  have wr : WellRanked sp rank := wf.ranked.wellRanked
  have wr' : WellRanked (stepTxn sp ev) rank :=
    (wf.ranked.same (sameProg_stepTxn sp ev)).wellRanked
  have hres : ∀ j, j < sp.defs.size → Resolved sp ev j := fun j hj => fireTable_total sp ev rank wr j hj
  intro n
  induction n with
  | zero => intro c h; omega
  | succ n ih =>
    intro c hrk hc
    have hi : c < sp.defs.size := getDef_lt sp c (by intro h; rw [h] at hc; cases hc)
    have hdep : ∀ j, j ∈ cellDeps sp c → (stepTxn sp ev).val j = nextVal sp ev j := by
      intro j hj
      have := cellDeps_dec wr c hi j hj
      exact ih j (by omega) (wf.typed c hi j hj)
    cases hz : (sp.getDef c).isHoldz with
    | true =>
      obtain ⟨s, c2, hd⟩ : ∃ s c2, sp.getDef c = .holdz s c2 := by
        cases hd : sp.getDef c <;> simp_all [Def.isHoldz]
      have hst := stepTxn_stored_holdz (ev := ev) hd
      cases hf : fire (fireTable sp ev) c with
      | some v =>
        rw [hf] at hst
        rw [nextVal_some hf]; exact val_stored hst
      | none =>
        rw [hf] at hst
        simp only [] at hst
        rw [nextVal_none hf]
        cases hs : sp.stored.get c with
        | some w =>
          rw [hs] at hst
          rw [val_stored hst, val_stored hs]
        | none =>
          have hv := val_ne_none wr wf.typed wf.closed c2 (wf.typed c hi c2 (by simp [cellDeps, hd]))
          cases hv2 : sp.val c2 with
          | none => exact absurd hv2 hv
          | some v =>
            rw [hs, hv2] at hst
            rw [val_stored hst, val_eq wr c, hs, hd]
            exact hv2.symm
    | false =>
    have hst := stepTxn_stored_cell (ev := ev) hc hz
    cases hf : fire (fireTable sp ev) c with
    | some v =>
      rw [hf] at hst
      rw [nextVal_some hf]; exact val_stored hst
    | none =>
      rw [hf] at hst
      simp only [] at hst
      rw [nextVal_none hf, val_eq wr' c, val_eq wr c, hst]
      simp only [stepTxn_getDef, stepTxn_loopTo]
      cases hs : sp.stored.get c with
      | some w => rfl
      | none =>
        simp only []
        cases hd : sp.getDef c with
        | holdz s c2 => rw [hd] at hz; cases hz
        | mapc c2 k =>
          simp only []
          have h2 := mapc_fires hd (hres c hi)
          rw [hf] at h2
          have hf2 : fire (fireTable sp ev) c2 = none := by
            cases h : fire (fireTable sp ev) c2 with
            | none => rfl
            | some x => rw [h] at h2; cases h2
          rw [hdep c2 (by simp [cellDeps, hd]), nextVal_none hf2]
        | lift2 a b op =>
          simp only []
          have h2 := lift2_fires hd (hres c hi)
          rw [hf] at h2
          rw [hdep a (by simp [cellDeps, hd]), hdep b (by simp [cellDeps, hd])]
          cases ha : fire (fireTable sp ev) a with
          | none =>
            cases hb : fire (fireTable sp ev) b with
            | none => rw [nextVal_none ha, nextVal_none hb]
            | some y =>
              rw [nextVal_none ha, nextVal_some hb]
              rw [ha, hb, nextVal_none ha, nextVal_some hb] at h2
              cases hva : sp.val a with
              | none => rfl
              | some x => rw [hva] at h2; simp at h2
          | some x =>
            cases hb : fire (fireTable sp ev) b with
            | none =>
              rw [nextVal_some ha, nextVal_none hb]
              rw [ha, hb, nextVal_some ha, nextVal_none hb] at h2
              cases hvb : sp.val b with
              | none => cases sp.val a <;> rfl
              | some y => rw [hvb] at h2; simp at h2
            | some y =>
              rw [ha, hb, nextVal_some ha, nextVal_some hb] at h2
              simp at h2
        | liftn cs =>
          simp only []
          have h2 := liftn_fires hd (hres c hi)
          rw [hf] at h2
          have hcong : cs.mapM (fun j => (stepTxn sp ev).val j) = cs.mapM (nextVal sp ev) :=
            mapM_option_congr _ _ cs (fun j hj => hdep j (by simpa [cellDeps, hd] using hj))
          rw [hcong]
          by_cases hany : cs.any (fun j => (fire (fireTable sp ev) j).isSome) = true
          · rw [if_pos hany] at h2
            have hnone : cs.mapM (nextVal sp ev) = none := by
              cases hm : cs.mapM (nextVal sp ev) with
              | none => rfl
              | some ys => rw [hm] at h2; cases h2
            obtain ⟨j, hj, hjn⟩ := exists_none_of_mapM _ cs hnone
            have := (nextVal_eq_none hjn).2
            rw [hnone, mapM_eq_none_of_mem (fun j => sp.val j) cs j hj this]
          · have hall : ∀ j, j ∈ cs → nextVal sp ev j = sp.val j := by
              intro j hj
              apply nextVal_none
              cases hfj : fire (fireTable sp ev) j with
              | none => rfl
              | some x =>
                exfalso; apply hany
                rw [List.any_eq_true]
                exact ⟨j, hj, by rw [hfj]; rfl⟩
            rw [mapM_option_congr _ (fun j => sp.val j) cs hall]
        | switchc sel cands =>
          simp only []
          have h2 := switchc_fires hd (hres c hi)
          rw [hf] at h2
          have hsel : sel ∈ cellDeps sp c := by simp only [cellDeps, hd]; split <;> simp
          have hcand : ∀ k : Int, cands.getD (k % cands.length).toNat 0 ∈ cellDeps sp c := by
            intro k
            simp only [cellDeps, hd]
            split
            · rename_i he; subst he; simp
            · rename_i hne; exact List.mem_cons_of_mem _ (getD_emod_mem cands k hne)
          rw [hdep sel hsel]
          cases hfs : fire (fireTable sp ev) sel with
          | some k =>
            exfalso
            rw [hfs] at h2
            simp only [] at h2
            have := (nextVal_eq_none h2.symm).2
            exact val_ne_none wr wf.typed wf.closed _ (wf.typed c hi _ (hcand k)) this
          | none =>
            rw [hfs] at h2
            simp only [] at h2
            rw [nextVal_none hfs]
            cases hvs : sp.val sel with
            | none => rfl
            | some k =>
              rw [hvs] at h2
              simp only [] at h2
              simp only [Option.bind_eq_bind, Option.bind_some]
              rw [hdep _ (hcand k), nextVal_none h2.symm]
        | cloop =>
          simp only []
          cases hl : sp.loopTo.get c with
          | none => rfl
          | some t =>
            simp only []
            have h2 := cloop_fires hd hl (hres c hi)
            rw [hf] at h2
            rw [hdep t (by simp [cellDeps, hd, hl]), nextVal_none h2.symm]
        | _ => rfl

/-- **cells are delayed state** (all cell kinds): in a well-formed program, the value of a cell after a
    transaction is what its update fired in the transaction, and its old value if it did not fire -/
theorem val_stepTxn_cell {sp : Spec} {rank : Nat → Nat} (wf : WellFormed sp rank) (ev : Events)
    (c : Nat) (hc : (sp.getDef c).isCell = true) : (stepTxn sp ev).val c = nextVal sp ev c :=
  val_stepTxn_cell_aux wf ev (rank c + 1) c (by omega) hc

theorem WellFormed.resolved {sp : Spec} {rank : Nat → Nat} (wf : WellFormed sp rank) (ev : Events)
    {i : Nat} (hi : i < sp.defs.size) : Resolved sp ev i :=
  fireTable_total sp ev rank wf.ranked.wellRanked i hi

end Spec
end SodiumVerif
