/-
  M_sched : model of `SodiumCtx::update_node` and the drain loop of `end_of_transaction`
  (`src/impl_/sodium_ctx.rs`).

  A node has strong `deps` (upstream, registration order), weak `dependents` (downstream,
  registration order), the per-transaction `visited` guard, the `changed` flag, and a value slot
  `val` written by its update.  The update function of node `i` is abstract: `F i vals`, the new
  value as a function of the current value slots (the theorems quantify over every `F` that only
  looks at the node's own dependencies).

  `dfs = true` is the scheduler as released in 2.1.2: after a node changed, its dependents are
  visited depth-first from inside `update_node`.  `dfs = false` is the repaired scheduler: the
  dependents are pushed on `changed_nodes` and the drain loop picks them up
  (`add_dependents_to_changed_nodes`).
-/
import SodiumVerif.Model.Store

namespace SodiumVerif
namespace Sched

structure SNode (V : Type) where
  deps : List Nat := []
  dependents : List Nat := []
  visited : Bool := false
  changed : Bool := false
  val : Option V := none
  deriving Inhabited

structure St (V : Type) where
  nodes : Store (SNode V) := Store.empty
  n : Nat := 0                    -- number of nodes created
  queue : List Nat := []          -- `changed_nodes`
  resetQ : List Nat := []         -- nodes whose `visited` flag a queued `pre_post` closure clears
  log : List Nat := []            -- order in which update closures ran
  oof : Bool := false

variable {V : Type}

@[inline] abbrev St.node (s : St V) (i : Nat) : SNode V := s.nodes.get i
@[inline] abbrev St.upd (s : St V) (i : Nat) (f : SNode V → SNode V) : St V :=
  { s with nodes := s.nodes.set i (f (s.nodes.get i)) }

/-- run the update closure of node `i` -/
def runUpdate (F : Nat → (Nat → Option V) → Option V) (i : Nat) (s : St V) : St V :=
  let v := F i (fun j => (s.nodes.get j).val)
  let s := { s with log := s.log ++ [i] }
  match v with
  | some x => s.upd i fun nd => { nd with val := some x, changed := true }
  | none => s

/-- visit the not-yet-visited members of a list with the recursive call `rec` -/
@[inline] def visitDeps (rec : Nat → St V → St V) (l : List Nat) (s : St V) : St V :=
  l.foldl (fun s d => if (s.nodes.get d).visited then s else rec d s) s

/-- `update_node` -/
def updateNode (dfs : Bool) (F : Nat → (Nat → Option V) → Option V) : Nat → Nat → St V → St V
  | 0, _, s => { s with oof := true }
  | fuel + 1, i, s =>
    if (s.nodes.get i).visited then s
    else
      let deps := (s.nodes.get i).deps
      let s := s.upd i fun nd => { nd with visited := true }
      let s := { s with resetQ := s.resetQ ++ [i] }
      let s := visitDeps (updateNode dfs F fuel) deps s
      let s := if deps.any fun d => (s.nodes.get d).changed then runUpdate F i s else s
      if (s.nodes.get i).changed then
        if dfs then (s.nodes.get i).dependents.foldl (fun s d => updateNode dfs F fuel d s) s
        else { s with queue := s.queue ++ (s.nodes.get i).dependents }
      else s

/-- the drain loop: repeatedly take `changed_nodes` and update each entry -/
def drain (dfs : Bool) (F : Nat → (Nat → Option V) → Option V) (depth : Nat) : Nat → St V → St V
  | 0, s => { s with oof := true }
  | fuel + 1, s =>
    match s.queue with
    | [] => s
    | q =>
      let s := { s with queue := [] }
      let s := q.foldl (fun s i => updateNode dfs F depth i s) s
      drain dfs F depth fuel s

/-- the `pre_post` closures queued by `update_node`: clear the `visited` flags -/
def resetVisited (s : St V) : St V :=
  let s := s.resetQ.foldl (fun s i => s.upd i fun nd => { nd with visited := false }) s
  { s with resetQ := [] }

/-- clear `changed` and the value slots (what the streams' own `pre_post` closures do) -/
def clearFirings (s : St V) : St V :=
  (List.range s.n).foldl (fun s i => s.upd i fun nd => { nd with changed := false, val := none }) s

/-- one transaction in which the sources `srcs` fire (in this order) with the given values -/
def transaction (dfs : Bool) (F : Nat → (Nat → Option V) → Option V) (srcs : List (Nat × V)) (s : St V) : St V :=
  let s := srcs.foldl (fun s (p : Nat × V) =>
    let s := s.upd p.1 fun nd => { nd with changed := true, val := some p.2 }
    { s with queue := s.queue ++ [p.1] }) s
  let s := drain dfs F (s.n + 2) (s.n * s.n + s.n + 2) s
  resetVisited s

/-- `Node::new` with the given dependencies -/
def newNode (deps : List Nat) (s : St V) : St V :=
  let i := s.n
  let s := { s with n := i + 1, nodes := s.nodes.set i { deps := deps } }
  deps.foldl (fun s d => s.upd d fun nd => { nd with dependents := nd.dependents ++ [i] }) s

/-- `add_dependency` -/
def addDep (a b : Nat) (s : St V) : St V :=
  let s := s.upd a fun nd => { nd with deps := nd.deps ++ [b] }
  s.upd b fun nd => { nd with dependents := nd.dependents ++ [a] }

/-- `remove_dependency` (removes every occurrence, as `retain` does) -/
def rmDep (a b : Nat) (s : St V) : St V :=
  let s := s.upd a fun nd => { nd with deps := nd.deps.filter (· ≠ b) }
  s.upd b fun nd => { nd with dependents := nd.dependents.filter (· ≠ a) }

end Sched
end SodiumVerif
