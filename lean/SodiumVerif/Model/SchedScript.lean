/-
  Line protocol for the raw node level (L-node).  Values are `Unit`: the update of node `i` fires
  iff some dependency holds a value — the harness installs exactly this closure on real `Node`s.
-/
import SodiumVerif.Model.Sched

namespace SodiumVerif
namespace SchedScript
open Sched

structure S where
  st : St Unit := {}
  dfs : Bool := true

def F (s : St Unit) : Nat → (Nat → Option Unit) → Option Unit :=
  fun i vals => if (s.nodes.get i).deps.any (fun d => (vals d).isSome) then some () else none

def nats (ws : List String) : Option (List Nat) := ws.mapM String.toNat?

def showList (l : List Nat) : String := ",".intercalate (l.map toString)

def observe (s : St Unit) : String :=
  if s.oof then "OUT-OF-FUEL" else
  let fired := (List.range s.n).filter fun i => (s.nodes.get i).val.isSome
  let vis := (List.range s.n).filter fun i => (s.nodes.get i).visited
  s!"log={showList s.log} fired={showList fired} visited={showList vis} q={s.queue.length}"

def step (s : S) (line : String) : S × String :=
  let ws := (line.trimAscii.toString.splitOn " ").filter (· ≠ "")
  match ws with
  | ["---"] => ({ s with st := {} }, "---")
  | ["variant", "dfs"] => ({ s with dfs := true }, "ok")
  | ["variant", "queue"] => ({ s with dfs := false }, "ok")
  | "node" :: ds =>
    match nats ds with
    | some ds => if ds.all (· < s.st.n) then ({ s with st := newNode ds s.st }, s!"n{s.st.n}") else (s, "skip")
    | none => (s, "bad-op")
  | ["adddep", a, b] =>
    match a.toNat?, b.toNat? with
    | some a, some b => if a < s.st.n ∧ b < a then ({ s with st := addDep a b s.st }, "ok") else (s, "skip")
    | _, _ => (s, "bad-op")
  | ["rmdep", a, b] =>
    match a.toNat?, b.toNat? with
    | some a, some b => if a < s.st.n ∧ b < s.st.n then ({ s with st := rmDep a b s.st }, "ok") else (s, "skip")
    | _, _ => (s, "bad-op")
  | "txn" :: fs =>
    match nats fs with
    | some fs =>
      if fs.all (· < s.st.n) then
        let st := { s.st with log := [] }
        let st := transaction s.dfs (F st) (fs.map fun f => (f, ())) st
        let out := observe st
        ({ s with st := clearFirings st }, out)
      else (s, "skip")
    | none => (s, "bad-op")
  | _ => (s, "bad-op")

end SchedScript
end SodiumVerif
