/-
  Model of `src/impl_/lazy.rs`: a `Lazy` is a shared memo cell (`Arc<Mutex<LazyData>>`), every
  clone points to the same cell; `run` executes the thunk only if no value is stored yet.
-/
namespace SodiumVerif
namespace LazyM

structure Cell where
  value : Option Int := none   -- `LazyData::Value` once computed
  runs : Nat := 0              -- how often the thunk has been executed
  deriving Repr, DecidableEq

/-- `Lazy::run` on a cell whose thunk computes `thunk ()` -/
def run (thunk : Unit → Int) (c : Cell) : Cell × Int :=
  match c.value with
  | some v => (c, v)
  | none => let v := thunk (); ({ value := some v, runs := c.runs + 1 }, v)

/-- any number of forces through any clones: all act on the one shared cell -/
def runMany (thunk : Unit → Int) : Nat → Cell → Cell × List Int
  | 0, c => (c, [])
  | n + 1, c =>
    let (c, v) := run thunk c
    let (c, vs) := runMany thunk n c
    (c, v :: vs)

end LazyM
end SodiumVerif
