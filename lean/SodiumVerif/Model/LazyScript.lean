/-
  Line protocol of level L-lazy: the harness (`harness/src/lazy.rs`) runs the same lines on the real
  `Lazy` with counting thunks.  One observation per line:
    new c V | new v V | new app F H | new app2 F H1 H2 | clone H   ->  h=<new handle>
    force H                                             ->  v=<value> runs=<executions of every cell's thunk>
    drop H                                              ->  ok
  A line the real harness refuses (dead or unknown handle, unparsable number) is `bad-op` here too;
  nothing is defaulted.  The function tables `f1` / `f2` are the harness's, on values far from the
  64-bit range (at most 30 doublings of a one-digit constant).
-/
import SodiumVerif.Model.LazyHeap

namespace SodiumVerif
namespace LazyScript

open LazyHeap

def f1 (fid : Nat) (x : Int) : Int :=
  match fid % 4 with
  | 0 => x + 1
  | 1 => x * 2
  | 2 => -x
  | _ => x - 7

def f2 (fid : Nat) (a b : Int) : Int :=
  match fid % 3 with
  | 0 => a + b
  | 1 => a - b
  | _ => if a ≥ b then a else b

def showRuns (hp : List Cell) : String := ",".intercalate (hp.map fun c => toString c.runs)

def alloc (s : State) (e : Expr) : State × String :=
  let s' := (LazyHeap.step s (.new e)).1
  (s', s!"h={s.handles.length}")

def step (s : State) (line : String) : State × String :=
  match (line.trimAscii.toString.splitOn " ").filter (· ≠ "") with
  | ["---"] => (State.empty, "---")
  | ["new", "c", v] =>
    match v.toInt? with
    | some v => alloc s (.const v)
    | none => (s, "bad-op")
  | ["new", "v", v] =>
    match v.toInt? with
    | some v => alloc s (.val v)
    | none => (s, "bad-op")
  | ["new", "app", fid, h] =>
    match fid.toNat?, h.toNat? with
    | some fid, some h =>
      match lookup s h with
      | some i => alloc s (.app (f1 fid) i)
      | none => (s, "bad-op")
    | _, _ => (s, "bad-op")
  | ["new", "app2", fid, h1, h2] =>
    match fid.toNat?, h1.toNat?, h2.toNat? with
    | some fid, some h1, some h2 =>
      match lookup s h1, lookup s h2 with
      | some a, some b => alloc s (.app2 (f2 fid) a b)
      | _, _ => (s, "bad-op")
    | _, _, _ => (s, "bad-op")
  | ["clone", h] =>
    match h.toNat? with
    | some h =>
      match lookup s h with
      | some _ => ((LazyHeap.step s (.clone h)).1, s!"h={s.handles.length}")
      | none => (s, "bad-op")
    | none => (s, "bad-op")
  | ["force", h] =>
    match h.toNat? with
    | some h =>
      match LazyHeap.step s (.force h) with
      | (s', some v) => (s', s!"v={v} runs={showRuns s'.heap}")
      | (_, none) => (s, "bad-op")
    | none => (s, "bad-op")
  | ["drop", h] =>
    match h.toNat? with
    | some h =>
      match lookup s h with
      | some _ => ((LazyHeap.step s (.drop h)).1, "ok")
      | none => (s, "bad-op")
    | none => (s, "bad-op")
  | _ => (s, "bad-op")

end LazyScript
end SodiumVerif
