/-
  M_gc : executable model of `src/impl_/gc_node.rs` (the synchronous Bacon–Rajan collector).

  Every function mirrors one Rust function, in the same order of effects.  Recursive walks
  take a fuel argument (structural recursion); running out of fuel sets `oof`, and
  `Lemmas/GcFuel.lean` shows the fuel handed out by `collectCycles` is never exhausted.

  Objects are the harness's synthetic objects: `traced` is what the object's `trace` closure
  reports, `owned` the counted references its destructor releases.  The collector's contract
  ("a reported edge is backed by one counted reference") is `traced = owned` per object; the
  model also runs contract-violating histories so that the panics of the real collector can be
  predicted (that is part of the tie, not of the theorems).
-/
import SodiumVerif.Model.Store

namespace SodiumVerif
namespace Gc

inductive Color where
  | black | gray | purple | white
  deriving DecidableEq, Repr, Inhabited

inductive Panic where
  | adjGtRc      -- "ref count adj was larger than ref count" (mark_gray)
  | notZero      -- "freed node ref count did not drop to zero" (collect_roots)
  | incRefFreed  -- "inc_ref on freed node"
  deriving DecidableEq, Repr, Inhabited

structure GNode where
  rc : Nat := 0
  adj : Nat := 0
  visited : Bool := false
  color : Color := .black
  buffered : Bool := false
  freed : Bool := false
  traced : List Nat := []
  owned : List Nat := []
  dtorRuns : Nat := 0
  deriving Repr, Inhabited

structure State where
  nodes : Store GNode := Store.empty
  nextId : Nat := 0
  roots : List Nat := []
  toBeFreed : List Nat := []
  traceCalls : Nat := 0
  edgeCalls : Nat := 0
  dtorLog : List Nat := []
  panic : Option Panic := none
  oof : Bool := false

namespace State

@[inline] abbrev node (g : State) (i : Nat) : GNode := g.nodes.get i
@[inline] abbrev upd (g : State) (i : Nat) (f : GNode → GNode) : State :=
  { g with nodes := g.nodes.set i (f (g.nodes.get i)) }
@[inline] def setPanic (g : State) (p : Panic) : State :=
  match g.panic with
  | none => { g with panic := some p }
  | some _ => g
@[inline] abbrev tick (g : State) : State := { g with traceCalls := g.traceCalls + 1 }
@[inline] abbrev tickE (g : State) : State := { g with edgeCalls := g.edgeCalls + 1 }

end State

open State

/-- `GcNode::new` : id from `make_id`, count 1, Black. -/
def newNode (g : State) : State × Nat :=
  let id := g.nextId
  ({ g with nextId := id + 1,
            nodes := g.nodes.set id { rc := 1 } }, id)

/-- `GcNode::inc_ref` -/
def incRef (g : State) (n : Nat) : State :=
  if (g.node n).freed then g.setPanic .incRefFreed
  else g.upd n fun x => { x with rc := x.rc + 1, color := .black }

/-- `GcNode::inc_ref_if_alive` -/
def incRefIfAlive (g : State) (n : Nat) : State × Bool :=
  let x := g.node n
  if x.rc ≠ 0 ∧ ¬ x.freed then
    (g.upd n fun x => { x with rc := x.rc + 1, color := .black }, true)
  else (g, false)

/-- `GcNode::possible_root` -/
def possibleRoot (g : State) (n : Nat) : State :=
  if (g.node n).color ≠ .purple then
    let g := g.upd n fun x => { x with color := .purple }
    if ¬ (g.node n).buffered then
      let g := g.upd n fun x => { x with buffered := true }
      { g with roots := g.roots ++ [n] }
    else g
  else g

/-- `GcNode::dec_ref`.  `fetch_update` returns the *previous* count, which is non-zero after the
    early return, so the `release` branch of the source is dead code and every decrement goes
    through `possible_root`; an object whose count reaches zero is freed by the next collection. -/
def decRef (g : State) (n : Nat) : State :=
  if (g.node n).rc = 0 then g
  else
    let g := g.upd n fun x => { x with rc := x.rc - 1 }
    possibleRoot g n

/-- `GcNode::free` for a synthetic object: set `freed`, run the destructor once (it takes the
    out-edge lists and releases every owned reference in order), then disable `trace`. -/
def free (g : State) (n : Nat) : State :=
  let x := g.node n
  let g := g.upd n fun x => { x with freed := true }
  if x.dtorRuns = 0 then
    let g := g.upd n fun x => { x with dtorRuns := x.dtorRuns + 1, traced := [], owned := [] }
    let g := { g with dtorLog := g.dtorLog ++ [n] }
    x.owned.foldl decRef g
  else
    g.upd n fun x => { x with traced := [] }

/-- iterate a recursive visit over the reported edges, counting one callback per edge -/
@[inline] def overEdges (rec : Nat → State → State) (l : List Nat) (g : State) : State :=
  l.foldl (fun g t => rec t g.tickE) g

/-- `reset_ref_count_adj_step_1_of_2` -/
def reset1 : Nat → Nat → State → State
  | 0, _, g => { g with oof := true }
  | fuel + 1, s, g =>
    if (g.node s).visited then g
    else
      let g := g.upd s fun x => { x with visited := true, adj := 0 }
      overEdges (reset1 fuel) (g.node s).traced g.tick

/-- `reset_ref_count_adj_step_2_of_2` -/
def reset2 : Nat → Nat → State → State
  | 0, _, g => { g with oof := true }
  | fuel + 1, s, g =>
    if ¬ (g.node s).visited then g
    else
      let g := g.upd s fun x => { x with visited := false }
      overEdges (reset2 fuel) (g.node s).traced g.tick

/-- `mark_gray`; the panic test compares the *previous* adjustment with the count. -/
def markGray : Nat → Nat → State → State
  | 0, _, g => { g with oof := true }
  | fuel + 1, s, g =>
    if (g.node s).color = .gray then g
    else
      let g := g.upd s fun x => { x with color := .gray }
      (g.node s).traced.foldl (fun g t =>
        let g := g.tickE
        let old := (g.node t).adj
        let g := g.upd t fun x => { x with adj := old + 1 }
        let g := if old > (g.node t).rc then g.setPanic .adjGtRc else g
        markGray fuel t g) g.tick

/-- `scan_black` -/
def scanBlack : Nat → Nat → State → State
  | 0, _, g => { g with oof := true }
  | fuel + 1, s, g =>
    let g := g.upd s fun x => { x with color := .black }
    (g.node s).traced.foldl (fun g t =>
      let g := g.tickE
      if (g.node t).color ≠ .black then scanBlack fuel t g else g) g.tick

/-- `scan` -/
def scan : Nat → Nat → State → State
  | 0, _, g => { g with oof := true }
  | fuel + 1, s, g =>
    if (g.node s).color ≠ .gray then g
    else if (g.node s).adj = (g.node s).rc then
      let g := g.upd s fun x => { x with color := .white }
      overEdges (scan fuel) (g.node s).traced g.tick
    else scanBlack (fuel + 1) s g

/-- `collect_white`; returns the white list in the order the source pushes it (post-order). -/
def collectWhite : Nat → Nat → State × List Nat → State × List Nat
  | 0, _, (g, w) => ({ g with oof := true }, w)
  | fuel + 1, s, (g, w) =>
    if (g.node s).color = .white then
      let g := g.upd s fun x => { x with color := .black }
      let (g, w) := (g.node s).traced.foldl
        (fun (gw : State × List Nat) t => collectWhite fuel t (gw.1.tickE, gw.2)) (g.tick, w)
      (g, w ++ [s])
    else (g, w)

/-- `display_graph`: a depth-first walk with its own visited set that calls `trace` once per
    distinct reachable object.  It is executed unconditionally (only the log output depends on
    the log level), so it is part of the cost of every pass. -/
def displayGraph : Nat → List Nat → Store Bool → State → State
  | 0, _, _, g => { g with oof := true }
  | _ + 1, [], _, g => g
  | fuel + 1, next :: stack, seen, g =>      -- head of the list = top of the source's stack
    if seen.get next then displayGraph fuel stack seen g
    else
      let seen := seen.set next true
      let ts := (g.node next).traced
      let g := { g.tick with edgeCalls := g.edgeCalls + ts.length }
      displayGraph fuel (ts.reverse ++ stack) seen g

def totalEdges (g : State) : Nat :=
  (List.range g.nextId).foldl (fun acc i => acc + (g.node i).traced.length) 0

/-- recursion depth available to every walk.  A walk that flips one flag per object nests at most
    one frame per object plus the returning call; `scan` can nest twice that: a chain of objects it
    has just whitened may be walked again by `scan_black` while the `scan` frames are still open
    (cyclic graphs), so the bound is two frames per object. -/
def walkFuel (g : State) : Nat := 2 * g.nextId + 3

/-- `mark_roots` -/
def markRoots (g : State) : State :=
  let old := g.roots
  let g := { g with roots := [] }
  let g := displayGraph (old.length + totalEdges g + 1) old.reverse Store.empty g
  let f := walkFuel g
  let g := old.foldl (fun g r => reset1 f r g) g
  let g := old.foldl (fun g r => reset2 f r g) g
  let (g, new) := old.foldl (fun (gn : State × List Nat) r =>
    let (g, new) := gn
    if (g.node r).color = .purple then (markGray f r g, new ++ [r])
    else
      let g := g.upd r fun x => { x with buffered := false }
      let x := g.node r
      if x.color = .black ∧ x.rc = 0 ∧ ¬ x.freed then
        ({ g with toBeFreed := g.toBeFreed ++ [r] }, new)
      else (g, new)) (g, [])
  { g with roots := new }

/-- `scan_roots` -/
def scanRoots (g : State) : State :=
  let rs := g.roots
  let g := { g with roots := [] }
  let f := walkFuel g
  let g := rs.foldl (fun g r => scan f r g) g
  let g := rs.foldl (fun g r => reset1 f r g) g
  let g := rs.foldl (fun g r => reset2 f r g) g
  { g with roots := rs }

/-- free one collected object and drop it from the candidate buffer (`roots.retain`) -/
def freeCollected (g : State) (i : Nat) : State :=
  if ¬ (g.node i).freed then
    let g := free g i
    { g with roots := g.roots.filter (· ≠ i) }
  else g

def checkZero (g : State) (l : List Nat) : State :=
  l.foldl (fun g i => if (g.node i).rc ≠ 0 then g.setPanic .notZero else g) g

/-- `collect_roots` -/
def collectRoots (g : State) : State :=
  let rs := g.roots
  let g := { g with roots := [] }
  let f := walkFuel g
  let (g, white) := rs.foldl (fun (gw : State × List Nat) r =>
    let g := gw.1.upd r fun x => { x with buffered := false }
    collectWhite f r (g, gw.2)) (g, [])
  let g := white.foldl freeCollected g
  let tbf := g.toBeFreed
  let g := { g with toBeFreed := [] }
  let g := tbf.foldl freeCollected g
  let g := checkZero g white
  checkZero g tbf

def onePass (g : State) : State := collectRoots (scanRoots (markRoots g))

/-- `collect_cycles`: passes until both buffers are empty.  A pass that frees nothing leaves
    both buffers empty, so the number of passes is at most the number of unfreed objects + 1
    (`Lemmas/GcFuel`); a panic stops the real collector by unwinding. -/
def collectLoop : Nat → State → State
  | 0, g => { g with oof := true }
  | fuel + 1, g =>
    let g := onePass g
    if g.panic.isSome then g
    else if g.roots.isEmpty ∧ g.toBeFreed.isEmpty then g
    else collectLoop fuel g

def collectCycles (g : State) : State := collectLoop (g.nextId + 2) g

end Gc
end SodiumVerif
