/-
Model of `/repo/src/impl_/lazy.rs`: `Lazy<A> = Arc<Mutex<LazyData<A>>>`,
`LazyData = Thunk(closure) | Value(a)`.  `Expr.val v` is `Lazy::of_value(v)`: the cell holds
`Value(v)` from the start, there is no thunk.  A heap of cells (one per `Arc`),
handles (one per `Lazy` value; `clone` shares the cell), `force` = `Lazy::run`
(memoises the cell and every cell forced on the way).  A thunk built by
`Cell::map`/`sample_lazy` forces the source lazy taken at construction, so
`app f src` (map) / `app2 f a b` (lift2) refer to EARLIER cells; a forward reference is ignored
(reads the default `0` without forcing anything), which keeps `force` total.
No imports: core Lean only.
-/
namespace SodiumVerif.LazyHeap

inductive Expr where
  | const (v : Int)
  | val (v : Int)
  | app (f : Int → Int) (src : Nat)
  | app2 (f : Int → Int → Int) (a b : Nat)

structure Cell where
  thunk : Expr
  value : Option Int
  runs : Nat

def thunks (hp : List Cell) : List Expr := hp.map (·.thunk)

/-- Pure value of cell `i`'s expression; ignores memo state. -/
def denF : Nat → List Expr → Nat → Int
  | 0, _, _ => 0
  | fuel+1, es, i =>
    match es[i]? with
    | none => 0
    | some (.const v) => v
    | some (.val v) => v
    | some (.app f s) => if s < i then f (denF fuel es s) else f 0
    | some (.app2 f a b) =>
      if a < i ∧ b < i then f (denF fuel es a) (denF fuel es b) else f 0 0

def den (hp : List Cell) (i : Nat) : Int := denF (i+1) (thunks hp) i

/-- `LazyData::Thunk(k)` → `LazyData::Value(v)` after running `k` once. -/
def memo (c : Cell) (v : Int) : Cell := { c with value := some v, runs := c.runs + 1 }

/-- `Lazy::run` on cell `i`. -/
def forceC : Nat → List Cell → Nat → List Cell × Int
  | 0, hp, _ => (hp, 0)
  | fuel+1, hp, i =>
    match hp[i]? with
    | none => (hp, 0)
    | some c =>
      match c.value with
      | some v => (hp, v)
      | none =>
        match c.thunk with
        | .const v => (hp.set i (memo c v), v)
        | .app f s =>
          if s < i then
            let r := forceC fuel hp s
            (r.1.set i (memo c (f r.2)), f r.2)
          else (hp.set i (memo c (f 0)), f 0)
        | .app2 f a b =>
          if a < i ∧ b < i then
            let r := forceC fuel hp a
            let q := forceC fuel r.1 b
            (q.1.set i (memo c (f r.2 q.2)), f r.2 q.2)
          else (hp.set i (memo c (f 0 0)), f 0 0)
        | .val v => (hp, v)

/-- Handle id ↦ cell index; a dropped handle becomes `none` (ids stay stable). -/
structure State where
  heap : List Cell
  handles : List (Option Nat)

def State.empty : State := ⟨[], []⟩

inductive Op where
  | new (e : Expr)
  | clone (h : Nat)
  | force (h : Nat)
  | drop (h : Nat)

def lookup (s : State) (h : Nat) : Option Nat :=
  match s.handles[h]? with
  | some (some i) => some i
  | _ => none

/-- Memo state of a fresh cell: `Lazy::of_value(v)` starts as `LazyData::Value(v)` (no thunk, so
nothing ever runs); `Lazy::new(k)` starts as `LazyData::Thunk(k)`. -/
def initValue : Expr → Option Int
  | .val v => some v
  | _ => none

def step (s : State) : Op → State × Option Int
  | .new e =>
    ({ heap := s.heap ++ [⟨e, initValue e, 0⟩], handles := s.handles ++ [some s.heap.length] }, none)
  | .clone h =>
    match lookup s h with
    | some i => ({ s with handles := s.handles ++ [some i] }, none)
    | none => (s, none)
  | .force h =>
    match lookup s h with
    | some i => ({ s with heap := (forceC (i+1) s.heap i).1 }, some (forceC (i+1) s.heap i).2)
    | none => (s, none)
  | .drop h => ({ s with handles := s.handles.set h none }, none)

def runOps (s : State) : List Op → State
  | [] => s
  | op :: ops => runOps (step s op).1 ops

def outputs (s : State) : List Op → List (Option Int)
  | [] => []
  | op :: ops => (step s op).2 :: outputs (step s op).1 ops

end SodiumVerif.LazyHeap
