/-
  M_struct : what each public primitive builds in the collector's object graph.

  Every line of an API script (the L-api protocol of `/verif/PROTOCOL.md`) is compiled into a
  straight-line program of *client operations of the collector model* (`GcScript.Op`: allocate an
  object, clone/drop a handle, add/remove a counted-and-reported edge, clone a handle out of a held
  object, collect).  The recipes below were read off `src/impl_/{stream,cell,listener,stream_loop,
  cell_loop,router,lambda}.rs`: a `Node`'s `dependencies` are counted and reported; every handle its
  update closure captures is declared as an "update dependency" (counted by the capture, reported by
  the declaration); a `Listener` owns its node and is owned by the context's keep-alive list (strong)
  or by nothing but its handle (weak); `Operational::defer`/`split` hang a weak listener on the output
  sink's `keep_alive`.

  The harness op `graphdump` prints the *real* collector graph in the same canonical form as
  `dump` below (every unfreed object in creation order: kind, count, reported edges), so the recipes
  are validated against the code on every run (level L-struct), and every theorem about
  `GcScript.Reachable` states (soundness, completeness, no leak after dropping everything) applies
  to the graph of every compiled program (`Props/StructMem.lean`).

  `switch_s` rewires its inner node while events flow, according to the value of its selector cell.
  M_struct does not compute values: the driver runs the specification S next to it and tells it, before
  every line, what every cell is worth after that line (`cellvals`), and which cell of S a switch's
  selector is (`@id`); `rewire` then cuts the old candidate and attaches the new one, taking the
  handles it needs by `deref`s along owned edges from a handle the client holds (`pathTo`).  The
  theorems of `Props/StructMem.lean` hold for every sequence of such hints.

  `switch_c` adds handles owned by Rust *values*, which the collector cannot see: the value of its cell
  of cells (a handle on the selected candidate cell) and the unforced initial thunk of its result (a
  handle on the cell of cells).  They are `held` entries (owner, target): plain client handles as far as
  the collector is concerned, let go when the owner dies (`sweep`), also in the middle of a collection
  (`collectLoop`).  This is where the known finding D6 lives (`Props/StructMem.lean`, `d6_witness`).

  Not modelled here (the struct profiles of the generator avoid them): which of "first update" and "first
  read" forces a `switch_c` result's initial thunk (the generator samples it at once), the detachment of
  `once` when it fires, lazies that capture cells.
-/
import SodiumVerif.Model.GcScript

namespace SodiumVerif
namespace Struct
open GcScript

/-- the client operations a recipe may use: exactly the contract-respecting ones -/
inductive GOp where
  | new (kind : String)
  | inc (a : Nat) | dec (a : Nat)
  | edge (a b : Nat) | unedge (a b : Nat)
  | deref (a b : Nat)
  | cut (a b : Nat)            -- `a` gives up its reference to `b` (the value held inside `a` is dropped)
  | collect
  | eot                        -- an outermost transaction of the library ends here (if none is open): collect
  | sdeps (n : Nat) (ds : List Nat)   -- scheduler view: node `n` was created with `dependencies = ds` (no collector effect)
  | sadd (n d : Nat)                  -- scheduler view: `add_dependency(n, d)` (no collector effect)
  | hold (a b : Nat)      -- one of the handles held on `b` now belongs to the Rust value of `a` (a cell value, an unforced
                          -- thunk): no collector effect — the collector cannot see it — but it is let go when `a` dies
  | unhold (a b : Nat)    -- the value of `a` lets go of its handle on `b` (the value was replaced)
  | unholdAll (a : Nat)   -- … of all of them (the thunk was forced)
  deriving Repr, DecidableEq

def GOp.toOp : GOp → Op
  | .new _ => .new
  | .inc a => .inc a
  | .dec a => .dec a
  | .edge a b => .edge a b
  | .unedge a b => .unedge a b
  | .deref a b => .deref a b
  | .cut a b => .unedge a b
  | .collect => .collect
  | .eot => .collect
  | .sdeps _ _ => .dump
  | .sadd _ _ => .dump
  | .hold _ _ => .dump
  | .unhold _ _ => .dump
  | .unholdAll _ => .dump

/-- what a script name denotes: which collector objects the harness holds handles on through it -/
inductive Ent where
  | stream (n : Nat)                       -- `Stream`: a handle on its node
  | ssink (n : Nat)                        -- `StreamSink`
  | cell (h s : Nat)                       -- `Cell`: a handle on the hold node `h`; `s` its update stream
  | csink (h s : Nat)                      -- `CellSink`: handles on `h` and on the sink stream `s`
  | sloop (sl l : Nat)                     -- `StreamLoop`: a handle on the loop object, which owns `l`
  | cloop (sl l h : Nat)                   -- `CellLoop`: handles on the loop object and the hold node
  | router (r : Nat)
  | listener (li n : Nat) (strong active : Bool)
  | rooted (li : Nat)                      -- a strong listener whose handle was dropped before `unlisten`:
                                           -- the context's keep-alive list holds it for good
  | temps (l : List Nat)                   -- handles owned by closures queued for the end of the open transaction
  | other                                  -- lazies, transactions, posts: no collector object
  | dropped
  deriving Repr, DecidableEq, Inhabited

abbrev Env := List (String × Ent)

def Env.find (e : Env) (x : String) : Option Ent := (e.find? (·.1 == x)).map (·.2)
def Env.put (e : Env) (x : String) (v : Ent) : Env := (x, v) :: e.filter (·.1 != x)

/-- recipe builder: `next` is the id the next allocation gets -/
structure B where
  next : Nat
  ops : List GOp := []

def B.emit (b : B) (l : List GOp) : B := { b with ops := b.ops ++ l }
/-- which of the edges of a new object are its `Node::dependencies` (the scheduler's upstream list, in order);
    the other edges are handles captured by its update closure.  `none`: not a scheduler node. -/
def schedDeps (kind : String) (targets : List Nat) : Option (List Nat) :=
  if kind == "Listener::new" || kind == "StreamLoop::new" then none
  else if kind == "Stream::merge" then some ((targets.take 1) ++ ((targets.drop 2).take 1))
  else some (targets.take 1)

/-- allocate a node of the given kind with one counted+reported edge per listed target -/
def B.node (b : B) (kind : String) (targets : List Nat) : B × Nat :=
  ({ next := b.next + 1,
     ops := b.ops ++ [GOp.new kind] ++ targets.map (GOp.edge b.next) ++
       (match schedDeps kind targets with | some ds => [GOp.sdeps b.next ds] | none => []) }, b.next)

/-- temporary handle on the stream a name denotes (as `Api::s` clones it): ops, node id -/
def streamRef : Ent → Option (List GOp × Nat)
  | .stream n => some ([.inc n], n)
  | .ssink n => some ([.inc n], n)
  | .sloop sl l => some ([.deref sl l], l)
  | _ => none

/-- temporary handle on the hold node of the cell a name denotes: ops, hold node, update stream -/
def cellRef : Ent → Option (List GOp × Nat × Nat)
  | .cell h s => some ([.inc h], h, s)
  | .csink h s => some ([.inc h], h, s)
  | .cloop _ l h => some ([.inc h], h, l)
  | _ => none

/-- temporary handle on the update stream of a cell (`Cell::updates` clones it out of the cell) -/
def updRef : Ent → Option (List GOp × Nat)
  | .cell h s => some ([.deref h s], s)
  | .csink h s => some ([.deref h s], s)
  | .cloop _ l h => some ([.deref h l], l)
  | _ => none

/-- a `switch_s` whose inner dependency follows a selector cell: `n1` the inner node (the output stream), `chain` the owned
    path from `n1` to the node whose closure owns the candidates, `sel` the selector cell (its number in the value
    oracle), `cur` the candidate `n1` currently depends on -/
structure SwRec where
  n1 : Nat
  chain : List Nat
  cands : List Nat
  sel : Nat
  cur : Option Nat := none
  deps : List Nat := []        -- what `n1` depends on for each candidate (`switch_c`: the candidate cell's update stream); [] = `cands`
  valOwners : List Nat := []   -- `switch_c`: the cells of cells, whose current value is a handle on the selected candidate
  resHold : Option Nat := none -- `switch_c`: the result's hold node (its initial thunk owns the cell of cells until it is forced or replaced)
  deriving Repr, DecidableEq

inductive R where
  | ops (l : List GOp) (env : Env)      -- a structural line: run these, then `ok`
  | sw (pre mid atClose post : List GOp) (env : Env) (r : SwRec)
      -- a switch: `pre`, then (when the transaction of the construction ends) the first selection, `mid` (at least a
      -- collection) and `atClose`; `post`
  | hints (l : List (Nat × Int))        -- value oracle (driver-internal line): current values of cells
  | fired (l : List Nat)                -- … and which `once` streams of S have let their event through
  | once (l : List GOp) (env : Env) (n a sid : Nat)   -- a `once` node `n` on `a`, number `sid` in the oracle
  | quiet (l : List GOp)                -- run these; the answer of the line is not compared (`-`)
  | open_ | close                       -- `begin` / `end`
  | skip                                -- the harness answers `skip`
  | na                                  -- no structural effect (send, sample, …): `-`
  | dump | leak | bad

/-- stream → stream node with two edges to its source (dependency + captured handle) -/
def unary (e : Env) (next : Nat) (kind x s : String) : R :=
  match e.find x, (e.find s).bind streamRef with
  | none, some (acq, a) =>
    let b : B := { next := next, ops := acq }
    let (b, n) := b.node kind [a, a]
    .ops (b.emit [.dec a]).ops (e.put x (.stream n))
  | _, _ => .skip

def mapM' {α β : Type} (f : α → Option β) : List α → Option (List β)
  | [] => some []
  | a :: r => match f a, mapM' f r with
    | some b, some bs => some (b :: bs)
    | _, _ => none

/-- the listener hung on stream node `a`: listen node, listener object -/
def mkListen (b : B) (a : Nat) : B × Nat × Nat :=
  let (b, n) := b.node "Stream::listen" [a, a]
  let (b, li) := b.node "Listener::new" [n]
  (b.emit [.dec n], n, li)

/-- `Cell::value`: spark, its map, merge with the updates; returns the merge node (one handle) -/
def mkValue (b : B) (u : Nat) : B × Nat :=
  let (b, sp) := b.node "Stream::new" []
  let (b, m) := b.node "Stream::map" [sp, sp]
  let (b, mg) := b.node "Stream::merge" [u, u, m, m]
  (b.emit [.dec sp, .dec m], mg)

/-- `Cell::lift2` over the update streams `ua`, `ub`: returns hold node and its stream (one handle
    on the hold node) -/
def mkLift2 (b : B) (ua ub : Nat) : B × Nat × Nat :=
  let (b, m1) := b.node "Stream::map" [ua, ua]
  let (b, m2) := b.node "Stream::map" [ub, ub]
  let (b, mg) := b.node "Stream::merge" [m1, m1, m2, m2]
  let (b, m3) := b.node "Stream::map" [mg, mg]
  let (b, h) := b.node "Cell::hold" [m3, m3, m3]
  (b.emit [.dec m1, .dec m2, .dec mg, .dec m3], h, m3)

/-- a cell operand of a lift: its update stream, and its hold node when it is an intermediate cell the call owns -/
structure LRef where
  h : Option Nat
  u : Nat

/-- `lift2` of two operands (taking `updates()` of an intermediate cell clones the stream out of it); every
    constructor inside runs its own transaction: a collection follows -/
def lift2R (b : B) (x y : LRef) : B × LRef :=
  let acq (r : LRef) : List GOp := match r.h with | some h => [.deref h r.u] | none => []
  let rel (r : LRef) : List GOp := match r.h with | some _ => [.dec r.u] | none => []
  let b := b.emit (acq x ++ acq y)
  let (b, h, m3) := mkLift2 b x.u y.u
  (b.emit ([.eot] ++ rel x ++ rel y), { h := some h, u := m3 })

def dropT (b : B) (t : LRef) : B := match t.h with | some h => b.emit [.dec h] | none => b

def lift3R (b : B) (x y z : LRef) : B × LRef :=
  let (b, t) := lift2R b x y
  let (b, r) := lift2R b t z
  (dropT b t, r)

def lift4R (b : B) (w x y z : LRef) : B × LRef :=
  let (b, t) := lift3R b w x y
  let (b, r) := lift2R b t z
  (dropT b t, r)

def lift5R (b : B) (v w x y z : LRef) : B × LRef :=
  let (b, t) := lift3R b v w x
  let (b, r) := lift3R b t y z
  (dropT b t, r)

def lift6R (b : B) (u v w x y z : LRef) : B × LRef :=
  let (b, t) := lift4R b u v w x
  let (b, r) := lift3R b t y z
  (dropT b t, r)

/-- `Operational::defer` of stream node `a`: output sink with a weak listener in its keep-alive -/
def mkDefer (b : B) (a : Nat) : B × Nat :=
  let (b, out) := b.node "Stream::new" []
  let (b, _, li) := mkListen b a
  (b.emit [.edge out li, .dec li], out)

def compileRaw (e : Env) (next : Nat) (ws : List String) : R :=
  let fresh (x : String) : Bool := (e.find x).isNone
  match ws with
  | ["graphdump"] => .dump
  | ["leakcheck"] => .leak
  | ["gc"] => .ops [.collect] e
  | ["begin"] => .open_
  | ["end"] => .close
  | ["send", _, _] => .quiet [.eot]
  | ["post", _, _] => .quiet [.eot]
  | ["ssink", x] => if fresh x then .ops [.new "Stream::new", .sdeps next []] (e.put x (.ssink next)) else .skip
  | ["ssinkc", x, _] =>
    if fresh x then .ops [.new "Stream::_new_with_coalescer", .sdeps next []] (e.put x (.ssink next)) else .skip
  | ["never", x] => if fresh x then .ops [.new "Stream::new", .sdeps next []] (e.put x (.stream next)) else .skip
  | ["csink", x, _] =>
    if fresh x then
      let b : B := { next := next }
      let (b, s) := b.node "Stream::new" []
      let (b, h) := b.node "Cell::hold" [s, s, s]
      .ops b.ops (e.put x (.csink h s))
    else .skip
  | ["map", x, s, _] => unary e next "Stream::map" x s
  | ["mapto", x, s, _] => unary e next "Stream::map" x s
  | ["filter", x, s, _] => unary e next "Stream::filter" x s
  | ["once", x, s] => unary e next "Stream::once" x s
  | ["once", x, s, sid] =>
    -- `once x s @id` (the driver names the stream in the oracle): the node detaches from `s` when it has fired
    match e.find x, (e.find s).bind streamRef, (if sid.startsWith "@" then (sid.drop 1).toString.toNat? else none) with
    | none, some (acq, a), some id =>
      let b : B := { next := next, ops := acq }
      let (b, n) := b.node "Stream::once" [a, a]
      .once (b.emit [.dec a, .eot]).ops (e.put x (.stream n)) n a id
    | _, _, _ => .skip
  | "oncedone" :: ids => .fired (ids.filterMap String.toNat?)
  | ["filteropt", x, s, _] =>
    match e.find x, (e.find s).bind streamRef with
    | none, some (acq, a) =>
      let b : B := { next := next, ops := acq }
      let (b, m1) := b.node "Stream::map" [a, a]
      let (b, f) := b.node "Stream::filter" [m1, m1]
      let (b, m2) := b.node "Stream::map" [f, f]
      .ops (b.emit [.dec m1, .dec f, .dec a]).ops (e.put x (.stream m2))
    | _, _ => .skip
  | ["merge", x, p, q, _] | ["orelse", x, p, q] =>
    match e.find x, (e.find p).bind streamRef, (e.find q).bind streamRef with
    | none, some (acq1, a), some (acq2, a') =>
      let b : B := { next := next, ops := acq1 ++ acq2 }
      let (b, n) := b.node "Stream::merge" [a, a, a', a']
      .ops (b.emit [.dec a, .dec a']).ops (e.put x (.stream n))
    | _, _, _ => .skip
  | "snapshotn" :: x :: s :: cs | "snapshot" :: x :: s :: cs | "snapshot1" :: x :: s :: cs =>
    -- `snapshot x s c op`: the last word is the function selector, not a cell
    let cs := if ws.head? == some "snapshot" then cs.dropLast else cs
    let arityOk := if ws.head? == some "snapshotn" then 2 ≤ cs.length && cs.length ≤ 5 else cs.length == 1
    match e.find x, (e.find s).bind streamRef, mapM' (fun c => (e.find c).bind cellRef) cs with
    | none, some (acq, a), some refs =>
      if arityOk then
        let b : B := { next := next, ops := acq ++ (refs.map (·.1)).flatten }
        let (b, n) := b.node "Stream::map" ([a, a] ++ refs.map (·.2.1))
        .ops (b.emit ([.dec a] ++ refs.map fun r => GOp.dec r.2.1)).ops (e.put x (.stream n))
      else .skip
    | _, _, _ => .skip
  | ["gate", x, s, c] =>
    match e.find x, (e.find s).bind streamRef, (e.find c).bind cellRef, (e.find c).bind updRef with
    | none, some (acq, a), some _, some (acqu, u) =>
      let b : B := { next := next, ops := acq ++ acqu }
      let (b, m) := b.node "Stream::map" [u, u]
      let (b, h) := b.node "Cell::hold" [m, m, m]
      let (b, f) := b.node "Stream::filter" [a, a, h]
      .ops (b.emit [.dec m, .dec h, .dec a, .dec u]).ops (e.put x (.stream f))
    | _, _, _, _ => .skip
  | ["hold", x, s, _] | ["holdlazy", x, s, _] =>
    match e.find x, (e.find s).bind streamRef with
    | none, some (acq, a) =>
      -- `holdlazy x s z` needs a lazy `z`
      if ws.head? == some "holdlazy" && (e.find (ws.getD 3 "")) != some .other then .skip else
      let b : B := { next := next, ops := acq }
      let (b, h) := b.node "Cell::hold" [a, a, a]
      .ops (b.emit [.dec a]).ops (e.put x (.cell h a))
    | _, _ => .skip
  | ["updates", x, c] =>
    match e.find x, (e.find c).bind cellRef, (e.find c).bind updRef with
    | none, some _, some (acq, u) => .ops acq (e.put x (.stream u))
    | _, _, _ => .skip
  | ["value", x, c] =>
    match e.find x, (e.find c).bind cellRef, (e.find c).bind updRef with
    | none, some _, some (acq, u) =>
      let (b, mg) := mkValue { next := next, ops := acq } u
      .ops (b.emit [.dec u]).ops (e.put x (.stream mg))
    | _, _, _ => .skip
  | ["mapc", x, c, _] =>
    match e.find x, (e.find c).bind cellRef, (e.find c).bind updRef with
    | none, some _, some (acq, u) =>
      let b : B := { next := next, ops := acq }
      let (b, m) := b.node "Stream::map" [u, u]
      let (b, h) := b.node "Cell::hold" [m, m, m]
      .ops (b.emit [.dec m, .dec u]).ops (e.put x (.cell h m))
    | _, _, _ => .skip
  | ["lift2", x, p, q, _] =>
    match e.find x, (e.find p).bind updRef, (e.find q).bind updRef with
    | none, some (acq1, ua), some (acq2, ub) =>
      let (b, h, m3) := mkLift2 { next := next, ops := acq1 ++ acq2 } ua ub
      .ops (b.emit [.dec ua, .dec ub]).ops (e.put x (.cell h m3))
    | _, _, _ => .skip
  | ["lift2d", x, p, q, c, _] =>
    -- lift2 with a function that captures cell `c` and declares it: the node that holds the function (the map after the
    -- merge) has one more edge, to `c`'s hold node
    match e.find x, (e.find p).bind updRef, (e.find q).bind updRef, (e.find c).bind cellRef with
    | none, some (acq1, ua), some (acq2, ub), some (acq3, hc, _) =>
      let b : B := { next := next, ops := acq1 ++ acq2 ++ acq3 }
      let (b, m1) := b.node "Stream::map" [ua, ua]
      let (b, m2) := b.node "Stream::map" [ub, ub]
      let (b, mg) := b.node "Stream::merge" [m1, m1, m2, m2]
      let (b, m3) := b.node "Stream::map" [mg, mg, hc]
      let (b, h) := b.node "Cell::hold" [m3, m3, m3]
      .ops (b.emit [.dec m1, .dec m2, .dec mg, .dec m3, .dec ua, .dec ub, .dec hc]).ops (e.put x (.cell h m3))
    | _, _, _, _ => .skip
  | "liftn" :: x :: cs =>
    -- lift3..6 are built from lift2/lift3/lift4 on tuples (`cell.rs`); an intermediate cell is a temporary of the
    -- call that made it and is dropped when that call returns
    match e.find x, mapM' (fun c => (e.find c).bind updRef) cs with
    | none, some refs =>
      let b : B := { next := next, ops := (refs.map (·.1)).flatten }
      let us := refs.map fun r => ({ h := none, u := r.2 } : LRef)
      let res : Option (B × LRef) := match us with
        | [p, q, r] => some (lift3R b p q r)
        | [p, q, r, t] => some (lift4R b p q r t)
        | [p, q, r, t, v] => some (lift5R b p q r t v)
        | [p, q, r, t, v, w] => some (lift6R b p q r t v w)
        | _ => none
      match res with
      | some (b, r) => .ops (b.emit (refs.map fun r => GOp.dec r.2)).ops (e.put x (.cell (r.h.getD 0) r.u))
      | none => .skip
    | _, _ => .skip
  | ["accum", x, s, _, _] | ["accumlazy", x, s, _, _] =>
    if ws.head? == some "accumlazy" && (e.find (ws.getD 3 "")) != some .other then .skip else
    match e.find x, (e.find s).bind streamRef with
    | none, some (acq, a) =>
      let b : B := { next := next, ops := acq }
      let (b, l) := b.node "Stream::new" []
      let (b, sl) := b.node "StreamLoop::new" [l]
      let (b, h) := b.node "Cell::hold" [l, l, l]
      let (b, m) := b.node "Stream::map" [a, a, h]
      .ops (b.emit [.edge l m, .edge l m, .sadd l m, .dec m, .dec l, .dec sl, .dec a]).ops (e.put x (.cell h l))
    | _, _ => .skip
  | ["collect", x, s, _, _] | ["collectlazy", x, s, _, _] =>
    if ws.head? == some "collectlazy" && (e.find (ws.getD 3 "")) != some .other then .skip else
    match e.find x, (e.find s).bind streamRef with
    | none, some (acq, a) =>
      let b : B := { next := next, ops := acq }
      let (b, l) := b.node "Stream::new" []
      let (b, sl) := b.node "StreamLoop::new" [l]
      let (b, h) := b.node "Cell::hold" [l, l, l]
      let (b, m) := b.node "Stream::map" [a, a, h]
      let (b, e1) := b.node "Stream::map" [m, m]
      let (b, e2) := b.node "Stream::map" [m, m]
      .ops (b.emit [.edge l e2, .edge l e2, .sadd l e2, .dec e2, .dec m, .dec h, .dec l, .dec sl, .dec a]).ops
        (e.put x (.stream e1))
    | _, _ => .skip
  | ["defer", x, s] =>
    match e.find x, (e.find s).bind streamRef with
    | none, some (acq, a) =>
      let (b, out) := mkDefer { next := next, ops := acq } a
      .ops (b.emit [.dec a]).ops (e.put x (.stream out))
    | _, _ => .skip
  | ["split", x, s, n] =>
    match e.find x, (e.find s).bind streamRef, n.toNat? with
    | none, some (acq, a), some k =>
      if k ≤ 8 then
        let b : B := { next := next, ops := acq }
        let (b, m) := b.node "Stream::map" [a, a]
        let (b, out) := mkDefer b m
        .ops (b.emit [.dec m, .dec a]).ops (e.put x (.stream out))
      else .skip
    | _, _, _ => .skip
  | "switchs" :: x :: sel :: rest =>
    -- `switchs x sel c1 … cn @id`: `Cell::switch_s(sel.map(k ↦ c[k mod n]))`; `@id` names the selector in the value oracle
    match rest.getLast?.bind (fun t => if t.startsWith "@" then (t.drop 1).toString.toNat? else none), e.find x,
          (e.find sel).bind cellRef, (e.find sel).bind updRef, mapM' (fun c => (e.find c).bind streamRef) rest.dropLast with
    | some id, none, some (acqh, hsel, _), some (acqu, usel), some refs =>
      if refs.isEmpty then .skip else
      let cands := refs.map (·.2)
      let b : B := { next := next, ops := acqh ++ (refs.map (·.1)).flatten ++ acqu }
      -- `sel.map(f)` with the candidates declared as dependencies of `f`
      let (b, m4) := b.node "Stream::map" ([usel, usel] ++ cands)
      let (b, h5) := b.node "Cell::hold" [m4, m4, m4]
      let b := b.emit [.dec m4, .dec usel, .eot]
      -- the public wrapper maps the cell of public streams to a cell of implementation streams
      let b := b.emit [.deref h5 m4]
      let (b, m6) := b.node "Stream::map" [m4, m4]
      let (b, h7) := b.node "Cell::hold" [m6, m6, m6]
      let b := b.emit [.dec m6, .dec m4, .eot]
      -- `switch_s`: a placeholder stream (dropped at once), the inner node, the outer node
      let (b, tmp) := b.node "Stream::new" []
      let b := b.emit [.dec tmp]
      let (b, n1) := b.node "switch_s inner node" []
      let b := b.emit [.deref h7 m6]
      let (b, n2) := b.node "switch_s outer node" [m6, m6, n1]
      let b := b.emit [.edge n1 n2, .dec n2, .dec m6]
      -- the two temporary cells are owned by closures queued for the end of the transaction
      .sw b.ops [.eot] [.dec h7, .dec h5] (cands.map GOp.dec ++ [.dec hsel]) ((e.put x (.stream n1)).put ("#switch:" ++ x) (.temps [h7, h5]))
        { n1 := n1, chain := [n2, m6, m4], cands := cands, sel := id }
    | _, _, _, _, _ => .skip
  | "switchc" :: x :: sel :: rest =>
    -- `switchc x sel c1 … cn @id`: `Cell::switch_c(sel.map(k ↦ c[k mod n]))`
    match rest.getLast?.bind (fun t => if t.startsWith "@" then (t.drop 1).toString.toNat? else none), e.find x,
          (e.find sel).bind cellRef, (e.find sel).bind updRef, mapM' (fun c => (e.find c).bind cellRef) rest.dropLast with
    | some id, none, some (acqh, hsel, _), some (acqu, usel), some refs =>
      if refs.isEmpty then .skip else
      let cholds := refs.map (·.2.1)
      let cstreams := refs.map (·.2.2)
      let b : B := { next := next, ops := acqh ++ (refs.map (·.1)).flatten ++ acqu }
      -- `sel.map(f)`: the candidates' cells are declared dependencies of `f`
      let (b, m6) := b.node "Stream::map" ([usel, usel] ++ cholds)
      let (b, h7) := b.node "Cell::hold" [m6, m6, m6]
      let b := b.emit [.dec m6, .dec usel, .eot]
      -- the public wrapper: a cell of implementation cells
      let b := b.emit [.deref h7 m6]
      let (b, m8) := b.node "Stream::map" [m6, m6]
      let (b, h9) := b.node "Cell::hold" [m8, m8, m8]
      let b := b.emit [.dec m8, .dec m6, .eot]
      -- `switch_c`: the outer node (its closure keeps the cell of cells, declared since R18), a placeholder stream, the
      -- inner node (the result's stream)
      let b := b.emit [.deref h9 m8]
      let (b, no) := b.node "switch_c outer node" [m8]
      let b := b.emit [.dec m8]
      let (b, tmp) := b.node "Stream::new" []
      let b := b.emit [.dec tmp]
      let (b, ni) := b.node "switch_c inner node" [no]
      let b := b.emit [.edge no h9, .edge no no, .edge no ni, .dec no]
      let pre := b.ops
      -- after the first selection: the transaction of `Stream::_new` ends; `hold_lazy` with a thunk that owns the cell of cells
      let b : B := { next := b.next }
      let b := b.emit [.eot]
      let (b, h12) := b.node "Cell::hold" [ni, ni, ni]
      let b := b.emit [.inc h9, .hold h12 h9, .dec ni, .eot]
      .sw pre b.ops [.dec h9, .dec h7] (cholds.map GOp.dec ++ [.dec hsel])
        ((e.put x (.cell h12 ni)).put ("#switch:" ++ x) (.temps [h9, h7]))
        { n1 := ni, chain := [no, m8, m6], cands := cholds, deps := cstreams, valOwners := [h9, h7], sel := id, resHold := some h12 }
    | _, _, _, _, _ => .skip
  | ["sample", c] =>
    -- sampling forces the cell's value: an initial thunk lets go of what it owns
    match (e.find c).bind cellRef with
    | some (_, h, _) => .quiet [.unholdAll h]
    | none => .na
  | "cellvals" :: vs =>
    .hints (vs.filterMap fun t => match t.splitOn ":" with
      | [a, b] => (match a.toNat?, b.toInt? with | some a, some b => some (a, b) | _, _ => none)
      | _ => none)
  | ["sloop", x] =>
    if fresh x then
      let b : B := { next := next }
      let (b, l) := b.node "Stream::new" []
      let (b, sl) := b.node "StreamLoop::new" [l]
      .ops (b.emit [.dec l]).ops (e.put x (.sloop sl l))
    else .skip
  | ["sloopclose", l, s] =>
    match e.find l, (e.find s).bind streamRef with
    | some (.sloop sl ln), some (acq, a) =>
      .ops (acq ++ [.deref sl ln, .edge ln a, .edge ln a, .sadd ln a, .dec ln, .dec a]) e
    | _, _ => .skip
  | ["cloop", x] =>
    if fresh x then
      let b : B := { next := next }
      let (b, l) := b.node "Stream::new" []
      let (b, sl) := b.node "StreamLoop::new" [l]
      let (b, h) := b.node "Cell::hold" [l, l, l]
      .ops (b.emit [.dec l]).ops (e.put x (.cloop sl l h))
    else .skip
  | ["cloopclose", l, c] =>
    match e.find l, (e.find c).bind cellRef, (e.find c).bind updRef with
    | some (.cloop sl ln _), some _, some (acq, u) =>
      .ops (acq ++ [.deref sl ln, .edge ln u, .edge ln u, .sadd ln u, .dec ln, .dec u]) e
    | _, _, _ => .skip
  | ["router", r, s, _] =>
    match e.find r, (e.find s).bind streamRef with
    | none, some (acq, a) =>
      let b : B := { next := next, ops := acq }
      let (b, n) := b.node "Router" [a, a]
      .ops (b.emit [.dec a]).ops (e.put r (.router n))
    | _, _ => .skip
  | ["route", x, r, _] =>
    match e.find x, e.find r with
    | none, some (.router rn) =>
      let b : B := { next := next, ops := [.inc rn] }
      let (b, n) := b.node "Stream::new" [rn]
      .ops (b.emit [.dec rn]).ops (e.put x (.stream n))
    | _, _ => .skip
  | ["listen", l, x] | ["listenweak", l, x] =>
    let strong := ws.head? == some "listen"
    match e.find l, (e.find x).bind streamRef, (e.find x).bind updRef with
    | none, some (acq, a), _ =>
      let (b, n, li) := mkListen { next := next, ops := acq } a
      .ops (b.emit ((if strong then [.inc li] else []) ++ [.dec a])).ops (e.put l (.listener li n strong true))
    | none, none, some (acq, u) =>
      let (b, mg) := mkValue { next := next, ops := acq } u
      let (b, n, li) := mkListen b mg
      -- (the listener is told the current value at the end of this transaction: an initial thunk is forced)
      let force := match (e.find x).bind cellRef with | some (_, h, _) => [GOp.unholdAll h] | none => []
      .ops (b.emit ((if strong then [.inc li] else []) ++ [.dec mg, .dec u] ++ force)).ops
        (e.put l (.listener li n strong true))
    | _, _, _ => .skip
  | ["unlisten", l] =>
    match e.find l with
    | some (.listener li n strong true) =>
      .ops ([.cut li n] ++ if strong then [.dec li] else []) (e.put l (.listener li n strong false))
    | some (.listener _ _ _ false) => .ops [] e
    | _ => .skip
  | ["drop", x] =>
    match e.find x with
    | some (.stream n) | some (.ssink n) | some (.router n) => .ops [.dec n] (e.put x .dropped)
    | some (.cell h _) => .ops [.dec h] (e.put x .dropped)
    | some (.csink h s) => .ops [.dec h, .dec s] (e.put x .dropped)
    | some (.sloop sl _) => .ops [.dec sl] (e.put x .dropped)
    | some (.cloop sl _ h) => .ops [.dec sl, .dec h] (e.put x .dropped)
    | some (.listener li _ strong active) => .ops [.dec li] (e.put x (if strong && active then .rooted li else .dropped))
    | _ => .skip
  | ["clone", y, x] =>
    match e.find y, e.find x with
    | none, some (.stream n) => .ops [.inc n] (e.put y (.stream n))
    | none, some (.ssink n) => .ops [.inc n] (e.put y (.ssink n))
    | none, some (.cell h s) => .ops [.inc h] (e.put y (.cell h s))
    | none, some (.csink h s) => .ops [.inc h, .inc s] (e.put y (.csink h s))
    | none, some (.sloop sl l) => .ops [.deref sl l] (e.put y (.stream l))
    | none, some (.cloop _ l h) => .ops [.inc h] (e.put y (.cell h l))
    | _, _ => .skip
  | ["mklazy", z, _] => if fresh z then .ops [] (e.put z .other) else .skip
  | ["lazy", z, c] =>
    match e.find z, (e.find c).bind cellRef with
    | none, some _ => .ops [] (e.put z .other)
    | _, _ => .skip
  | ["clonelazy", y, z] =>
    match e.find y, e.find z with
    | none, some .other => .ops [] (e.put y .other)
    | _, _ => .skip
  | ["---"] => .bad
  | _ => .na

/-- constructors that run a transaction of their own (`Stream::_new`, `Cell::_new`, `listen`): when no
    transaction is open, a collection follows the construction -/
def ctorWithTxn : List String :=
  ["ssink", "never", "csink", "map", "mapto", "filter", "once", "filteropt", "merge", "orelse",
   "snapshot", "snapshot1", "snapshotn", "gate", "hold", "holdlazy", "value", "mapc", "lift2", "lift2d", "accum", "collect", "accumlazy", "collectlazy",
   "defer", "split", "sloop", "cloop", "route", "listen", "listenweak"]
-- (`switchs` places its collections itself)

def compile (e : Env) (next : Nat) (ws : List String) : R :=
  match compileRaw e next ws with
  | .ops l env => if ctorWithTxn.contains (ws.headD "") then .ops (l ++ [.eot]) env else .ops l env
  | r => r

structure PSt where
  gs : GcScript.St := {}
  kinds : Array String := #[]
  env : Env := []
  err : Bool := false
  depth : Nat := 0                      -- open `begin` brackets
  sw : List SwRec := []                 -- the switches built so far
  hints : List (Nat × Int) := []        -- value oracle: what the cells are worth after the current line
  pend : List GOp := []                 -- what the closures queued for the end of the open transaction let go of
  held : List (Nat × Nat) := []         -- (owner, target): handles owned by Rust values the collector cannot see into
  onces : List (Nat × Nat × Nat) := []  -- (node, source, number in the oracle) of the `once` nodes still attached
  done : List Nat := []                 -- oracle: the `once` streams that have fired

/-- apply one collector operation; an inapplicable one is a bug of the recipe: flag it -/
def applyE (x : GcScript.St × Bool) (o : Op) : GcScript.St × Bool :=
  match apply x.1 o with
  | some gs => (gs, x.2)
  | none => (x.1, true)

def edgeCount (gs : GcScript.St) : Nat :=
  (List.range gs.g.nextId).foldl (fun n i => n + (gs.g.node i).owned.length) 0

/-- Drop one client handle on each object of `work`.  The library's objects are Rust values whose
    clones are in lockstep with the collector count: an object whose last reference this is dies on
    the spot (`Arc` drop of `NodeData`, `ListenerData`, …) and lets go of everything it owns — which
    may kill those in turn — while its collector record stays (count 0, buffered) until the next
    collection.  In client operations: take a handle on each target, cut the edge, drop the target. -/
def release (lazyKind : Nat → Bool) : Nat → GcScript.St × Bool → List Nat → GcScript.St × Bool
  | 0, x, _ => x
  | _ + 1, x, [] => x
  | fuel + 1, x, a :: rest =>
    let gs := x.1
    if (gs.g.node a).rc == 1 && gs.handles.get a == 1 && !(gs.g.node a).freed && !lazyKind a then
      let owned := (gs.g.node a).owned
      let x := owned.foldl (fun x b => applyE (applyE x (.deref a b)) (.unedge a b)) x
      release lazyKind fuel (applyE x (.dec a)) (owned ++ rest)
    else release lazyKind fuel (applyE x (.dec a)) rest

/-- a `Listener`'s data is owned by its collector record (the record's callbacks capture it): it
    lets go of its node only when it is unlistened or collected, not when its last handle goes -/
def isLazyKind (kinds : Array String) (a : Nat) : Bool := kinds.getD a "" == "Listener::new"

def dropHandle (kinds : Array String) (x : GcScript.St × Bool) (a : Nat) : GcScript.St × Bool :=
  release (isLazyKind kinds) (edgeCount x.1 + 2) x [a]

/-- run compiled operations -/
def runOp (kinds : Array String) (depth : Nat) (x : GcScript.St × Bool) : GOp → GcScript.St × Bool
  | .eot => if depth = 0 then applyE x .collect else x
  | .dec a => dropHandle kinds x a
  | .cut a b => dropHandle kinds (applyE (applyE x (.deref a b)) (.unedge a b)) b
  | o => applyE x o.toOp

abbrev HSt := (GcScript.St × Bool) × List (Nat × Nat)

/-- a value dies with its owner (dropped by `Arc` counting, or freed by the collector): what it held is let go -/
def sweep (kinds : Array String) : Nat → HSt → HSt
  | 0, y => y
  | fuel + 1, (x, held) =>
    match held.find? (fun ot => (x.1.g.node ot.1).rc == 0 || (x.1.g.node ot.1).freed) with
    | none => (x, held)
    | some ot => sweep kinds fuel (dropHandle kinds x ot.2, held.erase ot)

/-- a collection: the deconstructor of a freed object drops what it owns at once, inside `collect_cycles`, whose loop
    goes on while that produces new candidate roots — values owned by freed (or thereby dead) objects are let go and
    the collection continues -/
def collectLoop (kinds : Array String) : Nat → HSt → HSt
  | 0, y => y
  | fuel + 1, y =>
    let y' := sweep kinds (y.2.length + 1) (applyE y.1 .collect, y.2)
    if y'.2.length == y.2.length then y' else collectLoop kinds fuel y'

def runOpH (kinds : Array String) (depth : Nat) (y : HSt) : GOp → HSt
  | .hold a b => (y.1, y.2 ++ [(a, b)])
  | .unhold a b =>
    if y.2.contains (a, b) then sweep kinds (y.2.length + 1) (dropHandle kinds y.1 b, y.2.erase (a, b)) else y
  | .unholdAll a =>
    let mine := y.2.filter (·.1 == a)
    sweep kinds (y.2.length + 1) (mine.foldl (fun x ot => dropHandle kinds x ot.2) y.1, y.2.filter (·.1 != a))
  | .collect => collectLoop kinds (y.2.length + 1) y
  | .eot => if depth = 0 then collectLoop kinds (y.2.length + 1) y else y
  | o => sweep kinds (y.2.length + 1) (runOp kinds depth y.1 o, y.2)

def runG (p : PSt) (l : List GOp) : PSt :=
  let kinds := l.foldl (fun k o => match o with | .new kd => k.push kd | _ => k) p.kinds
  let y := l.foldl (runOpH kinds p.depth) ((p.gs, p.err), p.held)
  { p with gs := y.1.1, err := y.1.2, kinds := kinds, held := y.2 }

/-- breadth-first search along owned edges for a chain from a held object to `t` -/
def bfs (gs : GcScript.St) (t : Nat) : Nat → List (List Nat) → List Nat → Option (List Nat)
  | 0, _, _ => none
  | _ + 1, [], _ => none
  | fuel + 1, p :: rest, seen =>
    match p with
    | [] => bfs gs t fuel rest seen
    | a :: _ =>
      if a == t then some p.reverse else
      if (gs.g.node a).freed then bfs gs t fuel rest seen else
      let nxt := ((gs.g.node a).owned.eraseDups).filter fun b => !seen.contains b
      bfs gs t fuel (rest ++ nxt.map (· :: p)) (seen ++ nxt)

/-- the library reaches a node through handles stored in the objects it holds: a chain of `deref`s from an object the
    client has a handle on (the first element) to `t` -/
def pathTo (gs : GcScript.St) (t : Nat) : Option (List Nat) :=
  let roots := (List.range gs.g.nextId).filter fun a => gs.handles.get a > 0 && !(gs.g.node a).freed
  bfs gs t (2 * gs.g.nextId + 2) (roots.map ([·])) roots

/-- `deref`s along a chain; the temporary handles obtained (all elements but the first) -/
def chainOps : List Nat → List GOp
  | a :: b :: r => .deref a b :: chainOps (b :: r)
  | _ => []

/-- the rewiring a switch does when its selector has a new value (`pre_post` of the outer node; the first time:
    `pre_eot` of the construction): the inner node gives up the old candidate and depends on the new one; for `switch_c`
    the cells of cells that are still alive now hold the new candidate cell as their value.  Nothing happens on a node
    that is dead, or that nothing the client holds leads to (the collection that follows frees it). -/
def rewire (kinds : Array String) (hints : List (Nat × Int)) (y : HSt) (r : SwRec) : HSt × SwRec :=
  let x := y.1
  let nd := x.1.g.node r.n1
  if nd.freed || nd.rc == 0 || r.cands.isEmpty then (y, r) else
  match hints.lookup r.sel, pathTo x.1 r.n1 with
  | some v, some path =>
    let k := (v.emod r.cands.length).toNat
    if r.cur == some k then (y, r) else
    let cand := r.cands.getD k 0
    let dep := if r.deps.isEmpty then cand else r.deps.getD k 0
    let oldCand := r.cur.map fun j => r.cands.getD j 0
    let oldDep := r.cur.map fun j => if r.deps.isEmpty then r.cands.getD j 0 else r.deps.getD j 0
    let full := path ++ r.chain ++ [cand] ++ (if dep == cand then [] else [dep])
    let alive := r.valOwners.filter fun o => !(x.1.g.node o).freed && (x.1.g.node o).rc != 0
    let vals := alive.flatMap fun o =>
      [GOp.inc cand, GOp.hold o cand] ++ (match oldCand with | some oc => [GOp.unhold o oc] | none => [])
    -- (a switch that is not the first selection updates the result: its initial thunk, if still there, is replaced)
    let forced := match r.cur, r.resHold with | some _, some h => [GOp.unholdAll h] | _, _ => []
    let ops := chainOps full ++ (match oldDep with | some od => [GOp.cut r.n1 od] | none => []) ++
      [.edge r.n1 dep, .sadd r.n1 dep] ++ vals ++ forced ++ (full.drop 1).reverse.map GOp.dec
    (ops.foldl (runOpH kinds 1) y, { r with cur := some k })
  | _, _ => (y, r)

def rewireAll (p : PSt) : PSt :=
  let (y, sw) := p.sw.foldl (fun (acc : HSt × List SwRec) r =>
    let (y, r) := rewire p.kinds p.hints acc.1 r
    (y, acc.2 ++ [r])) (((p.gs, p.err), p.held), [])
  { p with gs := y.1.1, err := y.1.2, held := y.2, sw := sw }

/-- `once` detaches from its source when it has let its event through (`pre_post` of that transaction): it gives up the
    dependency edge (the handle its closure captured stays) -/
def detachAll (p : PSt) : PSt :=
  let (y, left) := p.onces.foldl (fun (acc : HSt × List (Nat × Nat × Nat)) o =>
    let (n, a, sid) := o
    let y := acc.1
    let nd := y.1.1.g.node n
    if !p.done.contains sid then (y, acc.2 ++ [o]) else
    if nd.freed || nd.rc == 0 then (y, acc.2) else
    match pathTo y.1.1 n with
    | some path =>
      let ops := chainOps path ++ [GOp.cut n a] ++ (path.drop 1).reverse.map GOp.dec
      (ops.foldl (runOpH p.kinds 1) y, acc.2)
    | none => (y, acc.2)) (((p.gs, p.err), p.held), [])
  { p with gs := y.1.1, err := y.1.2, held := y.2, onces := left }

def dump (p : PSt) : String :=
  let g := p.gs.g
  let live := (List.range g.nextId).filter fun i => !(g.node i).freed
  let rank (t : Nat) : Option Nat := live.findIdx? (· == t)
  let part (i : Nat) : String :=
    let x := g.node i
    let dead := x.traced.filter fun t => (rank t).isNone
    let es := (x.traced.filterMap rank).mergeSort
    let strs := dead.map (fun _ => "freed") ++ es.map toString
    s!"{p.kinds.getD i "?"}:{x.rc}[{",".intercalate strs}]"
  "graph " ++ " ".intercalate (live.map part)

/-- `leakcheck`: unlisten every listener still registered, drop every handle, collect -/
def leakOps (p : PSt) : List GOp :=
  let un := p.env.flatMap fun (_, v) => match v with
    | .listener li n strong true => [GOp.cut li n] ++ if strong then [GOp.dec li] else []
    | _ => []
  un

def dropAll (kinds : Array String) (keep : List Nat) (x : GcScript.St × Bool) : GcScript.St × Bool :=
  (List.range x.1.g.nextId).foldl (fun x a =>
    (List.range (x.1.handles.get a - if keep.contains a then 1 else 0)).foldl (fun x _ => dropHandle kinds x a) x) x

def isNodeKind (k : String) : Bool := k != "Listener::new" && k != "StreamLoop::new"

/-- plain drops of whatever handles are left on `a` but `keepN` (none, when `dropAll` did its job) -/
def zeroOne (gs : GcScript.St) (a keepN : Nat) : GcScript.St :=
  (List.range (gs.handles.get a - keepN)).foldl (fun gs _ => (apply gs (.dec a)).getD gs) gs

def zeroAll (keep : List Nat) (gs : GcScript.St) : GcScript.St :=
  (List.range gs.g.nextId).foldl (fun gs a => zeroOne gs a (if keep.contains a then 1 else 0)) gs

def leakCount (p : PSt) : Nat :=
  let g := p.gs.g
  -- (`node_count()` counts the nodes' Rust objects: one that died after the last collection is gone although its
  --  collector record is still buffered)
  ((List.range g.nextId).filter fun i => !(g.node i).freed && (g.node i).rc != 0 && isNodeKind (p.kinds.getD i "?")).length

/-- the handles a script name stands for -/
def Ent.handles : Ent → List Nat
  | .stream n | .ssink n | .router n => [n]
  | .cell h _ => [h]
  | .csink h s => [h, s]
  | .sloop sl _ => [sl]
  | .cloop sl _ h => [sl, h]
  | .listener li _ strong active => if strong && active then [li, li] else [li]   -- the script's and the context's
  | .rooted li => [li]
  | .temps l => l
  | .other | .dropped => []

/-- `leakcheck` when Rust values own handles: only the script's own handles are dropped; a value lets go of what it holds
    when its owner dies, possibly because a collection freed it — the harness collects twice (an empty transaction, then
    `collect_cycles`) -/
def leakStepH (p : PSt) : PSt × List Nat :=
  let p := runG p (leakOps p)
  let rooted := p.env.filterMap fun (_, v) => match v with | .rooted li => some li | _ => none
  -- every handle but the context's own on rooted listeners and those owned by values
  let keep := rooted ++ p.held.map (·.2)
  let drops := (List.range p.gs.g.nextId).flatMap fun a => List.replicate (p.gs.handles.get a - keep.count a) (GOp.dec a)
  let p := runG { p with env := [] } (drops ++ [.collect, .collect])
  (p, rooted ++ p.held.map (·.2))

/-- `leakcheck`: unlisten every listener the script still has a handle on, drop every handle (all
    but the context's own on listeners it can no longer unlisten), collect -/
def leakStep (p : PSt) : PSt × List Nat :=
  if !p.held.isEmpty then leakStepH p else
  let p := runG p (leakOps p)
  let keep := p.env.filterMap fun (_, v) => match v with | .rooted li => some li | _ => none
  let x := dropAll p.kinds keep (p.gs, p.err)
  let x := applyE (zeroAll keep x.1, x.2) .collect
  ({ p with gs := x.1, err := x.2, env := [] }, keep)

/-- self-check of the recipes, evaluated after every line: the handle count of every object is exactly the number
    of handles the script's names (and the context's keep-alive list) stand for — no recipe forgets a temporary
    handle or drops one it does not own -/
def balanced (p : PSt) : Bool :=
  let held := (p.env.flatMap fun (_, v) => v.handles) ++ p.held.map (·.2)
  (List.range p.gs.g.nextId).all fun a => p.gs.handles.get a == held.count a

def step (p : PSt) (line : String) : PSt × String :=
  let ws := (line.trimAscii.toString.splitOn " ").filter (· ≠ "")
  if ws == ["---"] then ({}, "---") else
  match compile p.env p.gs.g.nextId ws with
  | .ops l env =>
    let p := runG { p with env := env } l
    let p := if balanced p then p else { p with err := true }
    (p, if p.err then "struct-error" else "ok")
  | .sw pre mid atClose post env r =>
    -- the switch samples its selector when the transaction of its construction ends
    let p := runG { p with env := env, sw := p.sw ++ [r] } pre
    let p := if p.depth = 0 then
        let p := runG (rewireAll p) (mid ++ atClose)
        { p with env := p.env.filter fun kv => match kv.2 with | .temps _ => false | _ => true }
      else { (runG p mid) with pend := p.pend ++ atClose }
    let p := runG p post
    let p := if balanced p then p else { p with err := true }
    (p, if p.err then "struct-error" else "ok")
  | .hints l => ({ p with hints := l }, "-")
  | .fired l => ({ p with done := l }, "-")
  | .once l env n a sid =>
    let p := runG { p with env := env, onces := p.onces ++ [(n, a, sid)] } l
    let p := if balanced p then p else { p with err := true }
    (p, if p.err then "struct-error" else "ok")
  | .quiet l => (runG (if p.depth = 0 then detachAll (rewireAll p) else p) l, "-")
  | .open_ => ({ p with depth := p.depth + 1 }, "ok")
  | .close =>
    if p.depth = 0 then (p, "bad-op") else
    let p := { p with depth := p.depth - 1 }
    let p := if p.depth = 0 then
        let p := runG p p.pend
        detachAll (rewireAll { p with pend := [], env := p.env.filter fun kv => match kv.2 with | .temps _ => false | _ => true })
      else p
    let p := runG p [.eot]
    (p, if p.err then "struct-error" else "ok")
  | .skip => (p, "skip")
  | .na => (p, "-")
  | .bad => (p, "bad-op")
  | .dump => (p, if p.err then "struct-error" else dump p)
  | .leak =>
    let (p, keep) := leakStep p
    ({ p with sw := [] }, if p.err then "struct-error" else
      let nl := (keep.filter fun a => p.kinds.getD a "" == "Listener::new").length
      s!"leak={leakCount p}" ++ if nl = 0 then "" else s!" listeners-still-rooted={nl}")

/-- the state after a whole script -/
def run (lines : List String) : PSt := lines.foldl (fun p l => (step p l).1) {}

end Struct
end SodiumVerif
