/-
  A total finite map `Nat → α` backed by an `Array`, with default value for unset keys.
  `get_set` holds unconditionally because `set` grows the array; the rest of the
  development uses only `get`, `set`, `empty` and the two lemmas below.
-/
namespace SodiumVerif

structure Store (α : Type) where
  arr : Array α

namespace Store
variable {α : Type} [Inhabited α]

def empty : Store α := ⟨#[]⟩

def get (s : Store α) (i : Nat) : α := (s.arr[i]?).getD default

def set (s : Store α) (i : Nat) (v : α) : Store α :=
  if i < s.arr.size then ⟨s.arr.setIfInBounds i v⟩
  else ⟨s.arr ++ (Array.replicate (i - s.arr.size) default).push v⟩

def modify (s : Store α) (i : Nat) (f : α → α) : Store α := s.set i (f (s.get i))

@[simp] theorem get_empty (i : Nat) : (empty : Store α).get i = default := by
  simp [empty, get]

theorem get_set (s : Store α) (i j : Nat) (v : α) :
    (s.set i v).get j = if j = i then v else s.get j := by
  unfold set get
  by_cases h : i < s.arr.size
  · simp only [h, if_true, Array.getElem?_setIfInBounds]
    by_cases hji : j = i
    · subst hji; simp [h]
    · have : ¬ i = j := fun e => hji e.symm
      simp [hji, this]
  · simp only [h, if_false, Array.getElem?_append]
    by_cases hj : j < s.arr.size
    · have : j ≠ i := by omega
      simp [hj, this]
    · simp only [hj, if_false, Array.getElem?_push, Array.size_replicate]
      by_cases hji : j = i
      · subst hji; simp
      · have : ¬ j - s.arr.size = i - s.arr.size := by omega
        simp only [this, hji, if_false, Array.getElem?_replicate]
        split <;> simp [Array.getElem?_eq_none (Nat.le_of_not_lt hj)]

@[simp] theorem get_set_same (s : Store α) (i : Nat) (v : α) : (s.set i v).get i = v := by
  simp [get_set]

@[simp] theorem get_set_ne (s : Store α) (i j : Nat) (v : α) (h : j ≠ i) :
    (s.set i v).get j = s.get j := by
  simp [get_set, h]

theorem get_modify (s : Store α) (i j : Nat) (f : α → α) :
    (s.modify i f).get j = if j = i then f (s.get i) else s.get j := by
  simp [modify, get_set]

end Store
end SodiumVerif
