/-
  M_sched on the node graphs of API programs (level L-sched-api).

  `Model/Struct.lean` says which `Node`s every public primitive creates and what each node's
  `dependencies` vector is (`GOp.sdeps`, `GOp.sadd`); `Model/Sched.lean` is the scheduler
  (`update_node` + the drain loop of `end_of_transaction`).  This file runs the second on the graph
  the first builds: node ids are the collector object ids, a node whose Rust value is gone (count 0
  or freed) is no longer reachable through the weak `dependents` lists.

  Which nodes *fire* in a transaction is data (filters, gates, snapshots of cell values); here it
  is an oracle taken from the real run (`chg=` of the harness line `updlog`): the model then
  predicts the order in which the library ran the update closures (`upd=`).  The prediction is
  compared with the hook log of the real `update_node`.  So: the scheduler theorems of
  `Props/C03.lean` (for every graph, every update function) are about a model that is checked
  against the real scheduler not only on raw `Node` graphs (L-node) but on the graphs the public
  API builds.
-/
import SodiumVerif.Model.Struct
import SodiumVerif.Model.Sched

namespace SodiumVerif
namespace SchedApi
open Struct

structure St where
  p : Struct.PSt := {}
  sch : Sched.St Unit := {}
  pending : List Nat := []       -- `changed_nodes` pushes of the sends of the open transaction, in order
  liveAtClose : List Nat := []   -- the objects whose Rust value existed when the transaction closed: propagation
                                 -- runs before the collection that ends the transaction

/-- mirror the structural operations of one line in the scheduler graph -/
def applyOps (sch : Sched.St Unit) : List GOp → Sched.St Unit
  | [] => sch
  | .new _ :: rest => applyOps (Sched.newNode [] sch) rest
  | .sdeps n ds :: rest => applyOps (ds.foldl (fun s d => Sched.addDep n d s) sch) rest
  | .sadd n d :: rest => applyOps (Sched.addDep n d sch) rest
  | _ :: rest => applyOps sch rest

/-- the Rust value of collector object `i` still exists (a `Weak` to it upgrades) -/
def alive (p : Struct.PSt) (i : Nat) : Bool :=
  let x := p.gs.g.node i
  !x.freed && x.rc > 0

/-- the node a sink name pushes on `changed_nodes` when it is sent to -/
def sinkNode (p : Struct.PSt) (x : String) : Option Nat :=
  match p.env.find x with
  | some (.ssink n) => some n
  | some (.csink _ s) => some s
  | _ => none

def natList (s : String) : List Nat := (s.splitOn ",").filterMap fun w => w.trimAscii.toString.toNat?

def showList (l : List Nat) : String := ",".intercalate (l.map toString)

/-- the sending transaction: `srcs` pushed in order, `fired` = the oracle -/
def runTxn (st : St) (srcs fired : List Nat) : St × List Nat :=
  let n := st.sch.n
  -- dependents that are gone are skipped by `add_dependents_to_changed_nodes`
  let sch := (List.range n).foldl (fun s i =>
    s.upd i fun nd => { nd with dependents := nd.dependents.filter st.liveAtClose.contains }) st.sch
  let sch := { sch with log := [] }
  let F : Nat → (Nat → Option Unit) → Option Unit := fun i _ => if fired.contains i then some () else none
  let sch := Sched.transaction false F (srcs.map fun s => (s, ())) sch
  let log := sch.log
  ({ st with sch := Sched.clearFirings sch }, log)

def step (st : St) (line : String) : St × String :=
  let ws := (line.trimAscii.toString.splitOn " ").filter (· ≠ "")
  if ws == ["---"] then ({}, "---") else
  match ws with
  | ["updclear"] => ({ st with pending := [] }, "-")
  | ["updlog", chg] =>
    -- `updlog chg=<ids>`: predict the update order of the transaction since `updclear`
    let fired := natList (chg.drop 4).toString
    let (st, log) := runTxn st st.pending fired
    ({ st with pending := [] }, s!"upd={showList log}")
  | ["updlog"] => (st, "upd=?")
  | _ =>
    let ops := match compile st.p.env st.p.gs.g.nextId ws with
      | .ops l _ => l
      | _ => []
    let pending := match ws with
      | ["send", x, _] => (match sinkNode st.p x with | some n => st.pending ++ [n] | none => st.pending)
      | _ => st.pending
    let closes := match ws with
      | ["send", _, _] => st.p.depth == 0
      | ["end"] => st.p.depth == 1
      | _ => false
    let live := if closes then (List.range st.p.gs.g.nextId).filter (alive st.p) else st.liveAtClose
    let (p, out) := Struct.step st.p line
    ({ st with p := p, sch := applyOps st.sch ops, pending := pending, liveAtClose := live },
      if out == "ok" || out == "skip" then out else "-")

end SchedApi
end SodiumVerif
