/-
  Line protocol for the transaction-bookkeeping level (L-txn): actions are numbered closures with a
  queue and, for `post` closures, a body (the closures their nested transaction pushes).
-/
import SodiumVerif.Model.Txn

namespace SodiumVerif
namespace TxnScript
open Txn

structure ActDef where
  q : Queue := .prePost
  body : List Nat := []
  deriving Inhabited

structure S where
  defs : List (Nat × ActDef) := []
  c : Ctx Nat := {}
  scopedT : List (String × Bool) := []   -- name ↦ done
  upd : List Nat := []                   -- closures the propagation of the closing transaction will push

def S.lookup (s : S) (i : Nat) : ActDef := ((s.defs.find? (·.1 == i)).map (·.2)).getD {}

def nats (ws : List String) : Option (List Nat) := ws.mapM String.toNat?
def showList (l : List Nat) : String := ",".intercalate (l.map toString)

def observe (c : Ctx Nat) : String :=
  if c.oof then "OUT-OF-FUEL" else
  s!"d={c.depth} e={c.preEot.length} p={c.prePost.length} o={c.post.length} a={c.allow} log={showList c.log}"

def qOf (s : S) : Nat → Queue := fun i => (s.lookup i).q
def bodyOf (s : S) : Nat → List Nat := fun i => (s.lookup i).body

def step (s : S) (line : String) : S × String :=
  let ws := (line.trimAscii.toString.splitOn " ").filter (· ≠ "")
  match ws with
  | ["---"] => ({}, "---")
  | "def" :: i :: q :: body =>
    match i.toNat?, nats body with
    | some i, some body =>
      let q := if q == "e" then Queue.preEot else if q == "p" then Queue.prePost else Queue.post
      if body.all (fun b => b < i) ∧ (s.defs.find? (·.1 == i)).isNone then
        ({ s with defs := (i, { q := q, body := body }) :: s.defs }, "ok") else (s, "skip")
    | _, _ => (s, "bad-op")
  | ["enter"] => ({ s with c := enter s.c }, observe (enter s.c))
  | ["leave"] =>
    if s.c.depth = 0 then (s, "skip") else
    let c := leave (qOf s) (bodyOf s) s.upd 64 s.c
    ({ s with c := c, upd := if s.c.depth = 1 then [] else s.upd }, observe c)
  | "upd" :: is =>
    -- a node queued for the propagation of the open transaction whose update pushes these closures
    match nats is with
    | some is =>
      if s.c.depth = 0 ∨ is.isEmpty ∨ !(is.all fun i => (s.defs.find? (·.1 == i)).isSome) then (s, "skip")
      else ({ s with upd := s.upd ++ is }, observe s.c)
    | none => (s, "bad-op")
  | ["push", i] =>
    match i.toNat? with
    | some i => if (s.defs.find? (·.1 == i)).isSome then
        let c := push (qOf s) s.c i; ({ s with c := c }, observe c) else (s, "skip")
    | none => (s, "bad-op")
  | ["topen", t] =>
    if (s.scopedT.find? (·.1 == t)).isSome then (s, "skip") else
    ({ s with c := enter s.c, scopedT := (t, false) :: s.scopedT }, observe (enter s.c))
  | ["tclose", t] =>
    match s.scopedT.find? (·.1 == t) with
    | some (_, done) =>
      let (t', c) := Scoped.close { done := done } (qOf s) (bodyOf s) s.upd 64 s.c
      ({ s with c := c, scopedT := s.scopedT.map fun p => if p.1 == t then (t, t'.done) else p,
                upd := if !done ∧ s.c.depth = 1 then [] else s.upd }, observe c)
    | none => (s, "skip")
  | _ => (s, "bad-op")

end TxnScript
end SodiumVerif
