/-
  M_conc : several threads sending on sinks of ONE shared context, at the granularity of the
  library's schedule points (`verif::sched_point`, which sit between — never inside — the
  library's own lock sections).  A thread executes one *segment* at a time: the code between two
  consecutive schedule points of `StreamSink::send` → `transaction` → `_send` →
  `leave_transaction` → `end_of_transaction` (`src/impl_/stream_sink.rs`, `sodium_ctx.rs`,
  `stream.rs`).  Every sink has one listener.  All threads share one state; thread-local
  variables (`is_end_of_transaction`, the `changed_nodes` batch being drained) live in the thread.

  A schedule is a list of thread ids; entries naming a finished thread are skipped; when it is
  exhausted the lowest unfinished thread runs (the harness's baton does exactly the same), so every
  schedule is a complete, deterministic execution.  Real executions can interleave more finely than
  segments, so a schedule exhibited here is a genuine execution, but the absence of a bad schedule
  here proves nothing about the runtime.
-/
import SodiumVerif.Model.Store

namespace SodiumVerif
namespace Conc

/-- closures on the `pre_post` queue -/
inductive PP where
  | clear (sink : Nat)       -- `_send`: firing := None; changed := false
  | unvisit (node : Nat)     -- `update_node`: visited := false
  deriving Repr, DecidableEq, Inhabited

structure Shared where
  nsinks : Nat := 1
  depth : Nat := 0
  allow : Nat := 0
  changedNodes : List Nat := []          -- node ids: sink i = i, its listener = nsinks + i
  prePost : List PP := []
  firing : Store (Option Int) := Store.empty
  changed : Store Bool := Store.empty
  visited : Store Bool := Store.empty
  delivered : List (Nat × Int) := []     -- listener callbacks in order (sink, value)
  collects : Nat := 0
  underflow : Bool := false              -- a `transaction_depth -= 1` at 0 (a panic in a debug build)

/-- where a thread is inside `send` -/
inductive PC where
  | start                       -- before `enter_transaction` of `send`
  | entered                     -- at `enter:after-inc`: next: mark changed, push on changed_nodes
  | pushed                      -- at `send:after-push`: next: `_send`'s own enter
  | entered2                    -- at `enter:after-inc` (inner): next: store the firing, queue the clear
  | stored                      -- at `leave:before-dec` (inner): next: decrement
  | left2 (eot : Bool)          -- at `leave:after-dec` (inner)
  | afterStore                  -- at `send:after-store`
  | beforeDec                   -- at `leave:before-dec` (outer)
  | left (eot : Bool)           -- at `leave:after-dec` (outer)
  | eotStart                    -- at `eot:start`
  | afterPreEot                 -- at `eot:after-pre-eot`
  | took (batch : List Nat)     -- at `eot:took-changed` holding the batch just taken
  | drained                     -- at `eot:drained`
  | afterDepthDec               -- at `eot:after-depth-dec`
  | afterPrePost                -- at `eot:after-pre-post`
  | afterPost                   -- at `eot:after-post`
  | beforeCollect               -- at `eot:before-collect`
  | sent                        -- `send` has returned
  deriving Repr, DecidableEq, Inhabited

structure Thread where
  todo : List (Nat × Int) := []     -- remaining sends
  cur : Option (Nat × Int) := none  -- the send in progress
  pc : PC := .sent
  nested : Bool := false            -- inside the `_send` of ... (unused: `_send` is inlined in the pcs)
  deriving Repr, Inhabited

def Thread.finished (t : Thread) : Bool := t.cur.isNone

def runPP (sh : Shared) : PP → Shared
  | .clear s => { sh with firing := sh.firing.set s none, changed := sh.changed.set s false }
  | .unvisit n => { sh with visited := sh.visited.set n false }

/-- `update_node` for the two kinds of node of this scenario -/
def updateNode (sh : Shared) (n : Nat) : Shared :=
  if n < sh.nsinks then
    -- a sink: no dependencies; if changed, queue its dependents (its listener)
    if sh.visited.get n then sh else
    let sh := { sh with visited := sh.visited.set n true, prePost := sh.prePost ++ [PP.unvisit n] }
    if sh.changed.get n then { sh with changedNodes := sh.changedNodes ++ [sh.nsinks + n] } else sh
  else
    let s := n - sh.nsinks
    if sh.visited.get n then sh else
    let sh := { sh with visited := sh.visited.set n true, prePost := sh.prePost ++ [PP.unvisit n] }
    -- visit the dependency (the sink) if it is not visited yet
    let sh := if sh.visited.get s then sh else
      let sh := { sh with visited := sh.visited.set s true, prePost := sh.prePost ++ [PP.unvisit s] }
      if sh.changed.get s then { sh with changedNodes := sh.changedNodes ++ [sh.nsinks + s] } else sh
    -- run the listener iff the sink is marked changed; it delivers what is in the firing slot
    if sh.changed.get s then
      match sh.firing.get s with
      | some v => { sh with delivered := sh.delivered ++ [(s, v)] }
      | none => sh
    else sh

def decDepth (sh : Shared) : Shared :=
  if sh.depth = 0 then { sh with underflow := true } else { sh with depth := sh.depth - 1 }

/-- `send` has returned: go on with the next send of the program, if any -/
def Thread.next (t : Thread) : Thread :=
  match t.todo with
  | [] => { t with cur := none, pc := .sent }
  | sv :: rest => { t with todo := rest, cur := some sv, pc := .start, nested := false }

/-- one segment of thread `t` -/
def stepThread (sh : Shared) (t : Thread) : Shared × Thread :=
  match t.cur with
  | none => (sh, t)
  | some (s, v) =>
    match t.pc with
    | .start => ({ sh with depth := sh.depth + 1 }, { t with pc := .entered })
    | .entered =>
      ({ sh with changed := sh.changed.set s true, changedNodes := sh.changedNodes ++ [s] }, { t with pc := .pushed })
    | .pushed => ({ sh with depth := sh.depth + 1 }, { t with pc := .entered2 })
    | .entered2 =>
      let first := (sh.firing.get s).isNone
      let sh := { sh with firing := sh.firing.set s (some v), changed := sh.changed.set s true }
      let sh := if first then { sh with prePost := sh.prePost ++ [PP.clear s] } else sh
      (sh, { t with pc := .stored })
    | .stored =>
      let sh := decDepth sh
      (sh, { t with pc := .left2 (sh.depth == 0) })
    | .left2 eot =>
      if eot then ({ sh with depth := sh.depth + 1, allow := sh.allow + 1 }, { t with pc := .eotStart, nested := true })
      else (sh, { t with pc := .afterStore })
    | .afterStore => (sh, { t with pc := .beforeDec })
    | .beforeDec =>
      let sh := decDepth sh
      (sh, { t with pc := .left (sh.depth == 0) })
    | .left eot =>
      if eot then ({ sh with depth := sh.depth + 1, allow := sh.allow + 1 }, { t with pc := .eotStart })
      else (sh, t.next)
    | .eotStart => (sh, { t with pc := .afterPreEot })         -- no pre_eot closures in this scenario
    | .afterPreEot => ({ sh with changedNodes := [] }, { t with pc := .took sh.changedNodes })
    | .took batch =>
      if batch.isEmpty then (sh, { t with pc := .drained })
      else
        let sh := batch.foldl updateNode sh
        ({ sh with changedNodes := [] }, { t with pc := .took sh.changedNodes })
    | .drained => (decDepth sh, { t with pc := .afterDepthDec })
    | .afterDepthDec =>
      let pp := sh.prePost
      let sh := { sh with prePost := [] }
      (pp.foldl runPP sh, { t with pc := .afterPrePost })
    | .afterPrePost => (sh, { t with pc := .afterPost })         -- no post closures
    | .afterPost =>
      let sh := { sh with allow := sh.allow - 1 }
      if sh.allow = 0 then (sh, { t with pc := .beforeCollect })
      else if t.nested then (sh, { t with pc := .afterStore, nested := false })
      else (sh, t.next)
    | .beforeCollect =>
      let sh := { sh with collects := sh.collects + 1 }
      if t.nested then (sh, { t with pc := .afterStore, nested := false })
      else (sh, t.next)
    | .sent => (sh, t.next)

/-- the harness calls the schedule point `sent` after each send and `start` before the first: a
    thread that has just finished a send still needs one scheduling step to begin the next one,
    which `stepThread` models by the `cur = none` case -/
def pickNext (ths : Array Thread) : List Nat → Option (Nat × List Nat)
  | [] => (List.range ths.size).find? (fun i => !(ths[i]!).finished) |>.map (·, [])
  | i :: rest => if i < ths.size && !(ths[i]!).finished then some (i, rest) else pickNext ths rest

def runSched : Nat → Shared → Array Thread → List Nat → Shared × Array Thread
  | 0, sh, ths, _ => (sh, ths)
  | fuel + 1, sh, ths, sched =>
    match pickNext ths sched with
    | none => (sh, ths)
    | some (i, rest) =>
      let (sh, t) := stepThread sh ths[i]!
      runSched fuel sh (ths.set! i t) rest

def showRes (sh : Shared) : String :=
  let d := ",".intercalate (sh.delivered.map fun (s, v) => s!"{s}:{v}")
  let firing := (List.range sh.nsinks).foldl (fun a i => if (sh.firing.get i).isSome then a + 1 else a) 0
  s!"delivered={d} depth={sh.depth} cn={sh.changedNodes.length} pp={sh.prePost.length} po=0 firing={firing}" ++
    (if sh.underflow then " PANIC" else "")

def run (nsinks : Nat) (progs : List (List (Nat × Int))) (sched : List Nat) : Shared :=
  let ths := (progs.map fun p => ({ todo := p } : Thread).next).toArray
  (runSched 4000 { nsinks := nsinks } ths sched).1

end Conc
end SodiumVerif
