/-
  M_txn : model of the transaction bookkeeping of `SodiumCtx` (`src/impl_/sodium_ctx.rs`,
  `src/impl_/transaction.rs`): the depth counter, the three closure queues, the phases of
  `end_of_transaction`, nested transactions opened from `post` closures, and the
  `allow_collect_cycles_counter`.

  Closures are a small datatype `Act`; what a closure does to the graph is abstracted away — the
  model keeps *when* it runs (`log`).  The queue on which each kind of closure is pushed and the
  phase order are compared with the facts regenerated from the source (`Gen/Facts.lean`).
-/
namespace SodiumVerif
namespace Txn

inductive Queue where
  | preEot | prePost | post
  deriving DecidableEq, Repr

/-- the closures the primitives push -/
inductive Act where
  | catchUpHold (c : Nat)        -- `Cell::_new`: initial update of a hold built in this transaction
  | switchInit (n : Nat)         -- `switch_s` / `switch_c`: wire the initial inner dependency
  | clearFiring (n : Nat)        -- `_send`: clear the firing slot and the `changed` flag
  | resetVisited (n : Nat)       -- `update_node`: clear the `visited` flag
  | commitHold (c : Nat)         -- hold: commit the new value
  | onceDetach (n : Nat)         -- `once`: detach from the source
  | rewireSwitch (n : Nat)       -- `switch_s`: swap the inner dependency
  | deferredSend (s : Nat) (v : Int)   -- `defer` / `split`: re-emit on the output sink
  | userPost (p : Nat)           -- `SodiumCtx::post`
  deriving DecidableEq, Repr

def Act.queue : Act → Queue
  | .catchUpHold _ | .switchInit _ => .preEot
  | .clearFiring _ | .resetVisited _ | .commitHold _ | .onceDetach _ | .rewireSwitch _ => .prePost
  | .deferredSend .. | .userPost _ => .post

/-- phase order of `end_of_transaction` -/
def phases : List String := ["pre_eot", "changed_nodes", "pre_post", "post", "collect_cycles"]

structure Ctx (α : Type) where
  depth : Nat := 0
  preEot : List α := []
  prePost : List α := []
  post : List α := []
  allow : Nat := 0            -- `allow_collect_cycles_counter`
  log : List α := []          -- closures executed so far, in order
  eots : Nat := 0             -- runs of `end_of_transaction`
  collects : Nat := 0         -- runs of `collect_cycles`
  oof : Bool := false
  deriving Repr

variable {α : Type}

def push (q : α → Queue) (c : Ctx α) (a : α) : Ctx α :=
  match q a with
  | .preEot => { c with preEot := c.preEot ++ [a] }
  | .prePost => { c with prePost := c.prePost ++ [a] }
  | .post => { c with post := c.post ++ [a] }

def enter (c : Ctx α) : Ctx α := { c with depth := c.depth + 1 }

/-- run the `post` closures one by one; each is an arbitrary nested transaction whose body pushes
    `body a` (for a deferred send: the clearing of the sink, resets, commits, further deferred
    sends …) and which is closed by `leaveRec` -/
@[inline] def runPosts (q : α → Queue) (leaveRec : Ctx α → Ctx α) (body : α → List α) (po : List α) (c : Ctx α) : Ctx α :=
  po.foldl (fun c a =>
    let c := { c with log := c.log ++ [a] }
    leaveRec ((body a).foldl (push q) (enter c))) c

/-- `run_pre_eot`: the closures queued for the end of the transaction, and those they queue meanwhile (`pushes a`: what
    running `a` inside the closing transaction queues — a switch built by the mapping function that a switch's set-up
    closure forces), until the queue is empty -/
def runPre (q : α → Queue) (pushes : α → List α) : Nat → Ctx α → Ctx α
  | 0, c => { c with oof := true }
  | fuel + 1, c =>
    match c.preEot with
    | [] => c
    | pre =>
      let c := { c with preEot := [] }
      let c := pre.foldl (fun c a => (pushes a).foldl (push q) { c with log := c.log ++ [a] }) c
      runPre q pushes fuel c

/-- `leave_transaction` followed, when the depth returns to 0, by `end_of_transaction`.
    `upd` = closures pushed by the propagation itself (the drain loop); the pre_eot closures among them (a cell or a
    switch built by a handler) are run before `pre_post` (since R12). -/
def leave (q : α → Queue) (body : α → List α) (upd : List α) : Nat → Ctx α → Ctx α
  | 0, c => { c with oof := true }
  | fuel + 1, c =>
    let c := { c with depth := c.depth - 1 }
    if c.depth ≠ 0 then c
    else
      -- end_of_transaction
      let c := { c with depth := c.depth + 1, allow := c.allow + 1, eots := c.eots + 1 }
      let c := runPre q (fun a => if q a = .preEot then body a else []) (fuel + 1) c
      let c := upd.foldl (push q) c                    -- drain loop
      let c := runPre q (fun a => if q a = .preEot then body a else []) (fuel + 1) c
      let c := { c with depth := c.depth - 1 }
      let pp := c.prePost
      let c := { c with prePost := [], log := c.log ++ pp }
      let po := c.post
      let c := { c with post := [] }
      let c := runPosts q (leave q body [] fuel) body po c
      let c := { c with allow := c.allow - 1 }
      if c.allow = 0 then { c with collects := c.collects + 1 } else c

/-- `SodiumCtx::transaction(k)` where the body pushes `acts` -/
def transaction (q : α → Queue) (body : α → List α) (upd acts : List α) (fuel : Nat) (c : Ctx α) : Ctx α :=
  leave q body upd fuel (acts.foldl (push q) (enter c))

/-- scoped `Transaction` object: `close` is guarded by `done`; `drop` calls `close` -/
structure Scoped where
  done : Bool := false

def Scoped.close (t : Scoped) (q : α → Queue) (body : α → List α) (upd : List α) (fuel : Nat) (c : Ctx α) :
    Scoped × Ctx α :=
  if t.done then (t, c) else ({ done := true }, leave q body upd fuel c)

def quiescent (c : Ctx α) : Prop :=
  c.depth = 0 ∧ c.preEot = [] ∧ c.prePost = [] ∧ c.post = [] ∧ c.allow = 0

end Txn
end SodiumVerif
