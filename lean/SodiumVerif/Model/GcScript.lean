/-
  Line protocol for the raw collector level (L-gc): one operation per line, one observation
  line per operation.  The harness (`/verif/harness`, mode `gc`) interprets the same lines
  against the real `GcCtx`/`GcNode` and must print the same observations.
-/
import SodiumVerif.Model.Gc

namespace SodiumVerif
namespace GcScript
open Gc

structure St where
  g : State := {}
  handles : Store Nat := Store.empty
  dead : Bool := false
  brief : Bool := false

inductive Op where
  | new | inc (a : Nat) | dec (a : Nat) | edge (a b : Nat) | unedge (a b : Nat)
  | tedge (a b : Nat) | oedge (a b : Nat) | updrop (a : Nat) | deref (a b : Nat) | collect | reset | bad
  | brief | full | dump
  deriving Repr, DecidableEq

def parse (line : String) : Op :=
  let ws := (line.trimAscii.toString.splitOn " ").filter (· ≠ "")
  match ws with
  | ["new"] => .new
  | ["collect"] => .collect
  | ["brief"] => .brief
  | ["full"] => .full
  | ["dump"] => .dump
  | ["---"] => .reset
  | ["inc", a] => match a.toNat? with | some a => .inc a | none => .bad
  | ["dec", a] => match a.toNat? with | some a => .dec a | none => .bad
  | ["updrop", a] => match a.toNat? with | some a => .updrop a | none => .bad
  | ["edge", a, b] => match a.toNat?, b.toNat? with | some a, some b => .edge a b | _, _ => .bad
  | ["unedge", a, b] => match a.toNat?, b.toNat? with | some a, some b => .unedge a b | _, _ => .bad
  | ["tedge", a, b] => match a.toNat?, b.toNat? with | some a, some b => .tedge a b | _, _ => .bad
  | ["deref", a, b] => match a.toNat?, b.toNat? with | some a, some b => .deref a b | _, _ => .bad
  | ["oedge", a, b] => match a.toNat?, b.toNat? with | some a, some b => .oedge a b | _, _ => .bad
  | _ => .bad

def eraseFirst (l : List Nat) (b : Nat) : List Nat := l.erase b

/-- apply one operation; `none` = the operation is not applicable in this state (`skip`). -/
def apply (s : St) : Op → Option St
  | .new =>
    let (g, id) := newNode s.g
    some { s with g := g, handles := s.handles.set id 1 }
  | .inc a =>
    if a < s.g.nextId ∧ s.handles.get a > 0 then
      some { s with g := incRef s.g a, handles := s.handles.set a (s.handles.get a + 1) }
    else none
  | .dec a =>
    if a < s.g.nextId ∧ s.handles.get a > 0 then
      some { s with g := decRef s.g a, handles := s.handles.set a (s.handles.get a - 1) }
    else none
  | .edge a b =>
    if a < s.g.nextId ∧ b < s.g.nextId ∧ s.handles.get a > 0 ∧ s.handles.get b > 0
        ∧ ¬ (s.g.node a).freed then
      let g := incRef s.g b
      some { s with g := g.upd a fun x => { x with traced := x.traced ++ [b], owned := x.owned ++ [b] } }
    else none
  | .tedge a b =>
    if a < s.g.nextId ∧ b < s.g.nextId ∧ s.handles.get a > 0 ∧ ¬ (s.g.node a).freed then
      some { s with g := s.g.upd a fun x => { x with traced := x.traced ++ [b] } }
    else none
  | .oedge a b =>
    if a < s.g.nextId ∧ b < s.g.nextId ∧ s.handles.get a > 0 ∧ s.handles.get b > 0
        ∧ ¬ (s.g.node a).freed then
      let g := incRef s.g b
      some { s with g := g.upd a fun x => { x with owned := x.owned ++ [b] } }
    else none
  | .unedge a b =>
    if a < s.g.nextId ∧ b < s.g.nextId ∧ s.handles.get a > 0 ∧ ¬ (s.g.node a).freed
        ∧ (s.g.node a).traced.contains b ∧ (s.g.node a).owned.contains b then
      let g := s.g.upd a fun x => { x with traced := x.traced.erase b, owned := x.owned.erase b }
      some { s with g := decRef g b }
    else none
  | .deref a b =>
    -- a new handle on `b` obtained through a held object `a` that references it
    -- (`Cell::updates`, `StreamLoop::stream`, `Listener::node_op` clone a handle stored inside)
    if a < s.g.nextId ∧ s.handles.get a > 0 ∧ ¬ (s.g.node a).freed ∧ (s.g.node a).owned.contains b then
      some { s with g := incRef s.g b, handles := s.handles.set b (s.handles.get b + 1) }
    else none
  | .updrop a =>
    if a < s.g.nextId then
      let (g, ok) := incRefIfAlive s.g a
      some { s with g := if ok then decRef g a else g }
    else none
  | .collect => some { s with g := collectCycles s.g }
  | .reset => some {}
  | .brief => some { s with brief := true }
  | .full => some { s with brief := false }
  | .dump => some s
  | .bad => none

def colorChar : Color → Char
  | .black => 'B' | .gray => 'G' | .purple => 'P' | .white => 'W'

def b2c (b : Bool) : Char := if b then '1' else '0'

def showNode (x : GNode) : String :=
  s!"{x.rc}.{x.adj}.{colorChar x.color}{b2c x.buffered}{b2c x.freed}{b2c x.visited}.{x.dtorRuns}"

def panicName : Panic → String
  | .adjGtRc => "adj-gt-rc" | .notZero => "not-zero" | .incRefFreed => "inc-ref-freed"

def showList (l : List Nat) : String := ",".intercalate (l.map toString)

def observe (s : St) : String :=
  let g := s.g
  if g.oof then "OUT-OF-FUEL"
  else match g.panic with
  | some p => s!"PANIC {panicName p}"
  | none =>
    let ns := (List.range g.nextId).map fun i => showNode (g.node i)
    s!"{" ".intercalate ns} | R:{showList g.roots} T:{g.toBeFreed.length} C:{g.traceCalls}/{g.edgeCalls} D:{showList g.dtorLog}"

def observeBrief (s : St) : String :=
  let g := s.g
  if g.oof then "OUT-OF-FUEL"
  else match g.panic with
  | some p => s!"PANIC {panicName p}"
  | none =>
    let freed := (List.range g.nextId).foldl (fun acc i => if (g.node i).freed then acc + 1 else acc) 0
    s!"n={g.nextId} freed={freed} R:{g.roots.length} T:{g.toBeFreed.length} C:{g.traceCalls}/{g.edgeCalls}"

/-- one protocol step: state, input line ↦ state, output line -/
def step (s : St) (line : String) : St × String :=
  match parse line with
  | .bad => (s, "bad-op")
  | .reset => ({}, "---")
  | op =>
    if s.dead then (s, "dead")
    else match apply s op with
    | none => (s, "skip")
    | some s' =>
      let out :=
        if op = .dump then observe s'
        else if s'.brief || op = .brief then
          (if op = .collect || s'.g.panic.isSome || s'.g.oof then observeBrief s' else "ok")
        else observe s'
      let dead := s'.g.panic.isSome || s'.g.oof
      ({ s' with dead := dead }, out)

end GcScript
end SodiumVerif
