/-
  The API script language interpreted by the specification S (`Spec/Denot.lean`).
  The harness (`/verif/harness/src/api.rs`) interprets the same lines against the real library;
  the two output streams must be equal line by line (see /verif/PROTOCOL.md).
-/
import SodiumVerif.Spec.Denot

namespace SodiumVerif
namespace Spec

inductive Kind where
  | s | ss | c | cs | sl | cl
  deriving DecidableEq, Repr

inductive Handle where
  | ent (i : Nat) (k : Kind)
  | router (src : Nat) (sel : Int)
  | listener (id : Nat)
  | lazy (snap : Option Int) (cell : Option Nat)
  | txn (live : Bool)          -- scoped transaction object still held (not yet dropped)
  | post
  | dropped

/-- work queued for after the transaction (the library's `post` queue) -/
inductive Item where
  | ev (i : Nat) (v : Int)            -- a transaction of its own carrying this event: a deferred event, or a send posted by user code
  | samp (name : String) (c : Nat)    -- a posted closure that samples a cell

structure Lis where
  name : String
  target : Nat
  isCell : Bool
  regTxn : Nat
  weak : Bool
  active : Bool := true
  dying : Bool := false
  kills : Option Nat := none      -- `listenkill`: this listener's handler unlistens that listener

structure St where
  sp : Spec := {}
  names : List (String × Handle) := []
  lis : Array Lis := #[]
  depth : Nat := 0
  sends : Events := []
  posts : List Item := []              -- closures queued with `SodiumCtx::post` in the open transaction, in order
  txOpen : List (String × Bool) := []     -- scoped transactions: name ↦ still open
  dead : Bool := false

def St.find (st : St) (n : String) : Option Handle := (st.names.find? (·.1 == n)).map (·.2)
def St.fresh (st : St) (n : String) : Bool := (st.find n).isNone
def St.bind (st : St) (n : String) (h : Handle) : St :=
  { st with names := (n, h) :: st.names.filter (·.1 != n) }

def St.stream (st : St) (n : String) : Option Nat :=
  match st.find n with
  | some (.ent i .s) | some (.ent i .ss) | some (.ent i .sl) => some i
  | _ => none
def St.cell (st : St) (n : String) : Option Nat :=
  match st.find n with
  | some (.ent i .c) | some (.ent i .cs) | some (.ent i .cl) => some i
  | _ => none

def St.addDef (st : St) (n : String) (d : Def) (k : Kind) : St :=
  let i := st.sp.defs.size
  let sp := { st.sp with defs := st.sp.defs.push d, created := st.sp.created.push st.sp.txn }
  ({ st with sp := sp }).bind n (.ent i k)

def showCbs (cbs : List (String × Int)) : String :=
  if cbs.isEmpty then "" else
  let sorted := cbs.mergeSort (fun a b => a.1 ≤ b.1)
  " | cb " ++ " ".intercalate (sorted.map fun (n, v) => s!"{n}={v}")

/-- what one listener receives from a transaction with firing table `tbl` -/
def lisOut (st : St) (tbl : Table) (l : Lis) : Option (String × Int) :=
  if !l.active then none else
  let f := fire tbl l.target
  let o := if l.isCell && l.regTxn == st.sp.txn then (f.orElse fun _ => st.sp.val l.target) else f
  o.map fun v => (l.name, v)

/-- outputs of all listeners for one transaction's firing table -/
def listenerOutputs (st : St) (tbl : Table) : List (String × Int) :=
  st.lis.toList.filterMap (lisOut st tbl)

/-- a listener whose handler unlistens another one (`listenkill`): when it is called in this transaction the victim is
    silent from this very transaction on (the scripts only pair a killer with a victim that is visited later: the victim
    listens further downstream of the killer's stream) — "after unlisten returns it is never called again, including for
    a transaction that is still open" (C10) -/
def killVictims (st : St) (tbl : Table) : Array Lis :=
  st.lis.toList.foldl (fun lis l =>
    match l.kills with
    | some v => if (lisOut st tbl l).isSome then lis.modify v fun x => { x with active := false } else lis
    | none => lis) st.lis

/-- one transaction with the given injected events; returns callbacks and the spawned events -/
def runOne (st : St) (ev : Events) (posts : List (String × Nat)) : St × List (String × Int) × List (Nat × Int) :=
  let tbl := fireTable st.sp ev
  let st := { st with lis := killVictims st tbl }
  let cbs := listenerOutputs st tbl
  let dfr := deferred st.sp tbl
  let sp := applyUpdates st.sp tbl      -- together with the `txn + 1` below: `stepTxn`
  let pcb := posts.filterMap fun (p, c) => (sp.val c).map fun v => (p, v)
  let sp := { sp with txn := sp.txn + 1 }
  ({ st with sp := sp }, cbs ++ pcb, dfr)

def runDeferred : Nat → St → List (Nat × Int) → List (String × Int) → St × List (String × Int) × Bool
  | 0, st, _, acc => (st, acc, true)
  | _ + 1, st, [], acc => (st, acc, false)
  | fuel + 1, st, e :: rest, acc =>
    let (st, cbs, more) := runOne st [e] []
    -- events deferred by a deferred transaction run before the remaining ones of the outer queue: the
    -- nested `end_of_transaction` drains the `post` queue itself (depth-first, as in M_txn's `trace`)
    runDeferred fuel st (more ++ rest) (acc ++ cbs)

/-- the `post` queue after the outermost transaction: items run in order; the events a spawned transaction defers run
    before the rest of the queue (its own `end_of_transaction` drains them) -/
def runItems : Nat → St → List Item → List (String × Int) → St × List (String × Int) × Bool
  | 0, st, _, acc => (st, acc, true)
  | _ + 1, st, [], acc => (st, acc, false)
  | fuel + 1, st, .samp p c :: rest, acc =>
    runItems fuel st rest (acc ++ ((st.sp.val c).map fun v => (p, v)).toList)
  | fuel + 1, st, .ev i v :: rest, acc =>
    let (st, cbs, more) := runOne st [(i, v)] []
    runItems fuel st (more.map (fun e => Item.ev e.1 e.2) ++ rest) (acc ++ cbs)

/-- a Lazy taken from a cell that could not be read yet (an open CellLoop) denotes the cell's value
    at the start of the transaction it was taken in: fixed when that transaction closes -/
def resolveLazies (st : St) : St :=
  { st with names := st.names.map fun (n, h) => match h with
      | .lazy none (some c) => (n, .lazy (st.sp.val c) (some c))
      | h => (n, h) }

/-- the outermost transaction closes -/
def closeTxn (st : St) : St × String :=
  let st := resolveLazies st
  let (st1, cbs, dfr) := runOne st st.sends []
  let st1 := { st1 with sends := [], posts := [] }
  -- user posts were queued while the transaction body ran, the deferring primitives queue theirs during propagation
  let (st2, cbs2, diverged) := runItems 400 st1 (st.posts ++ dfr.map fun e => Item.ev e.1 e.2) cbs
  -- the collection at the very end of the outermost transaction frees weak listeners whose handle is gone
  let st2 := { st2 with lis := st2.lis.map fun l => if l.dying then { l with active := false } else l }
  (st2, if diverged then "DIVERGE" else "ok" ++ showCbs cbs2)

def num (s : String) : Option Int := s.toInt?

/-- a statement that opens a transaction of its own when none is open -/
def St.inTxn (st : St) (body : St → St) : St × String :=
  if st.depth > 0 then (body st, "ok")
  else closeTxn (body st)

def defStmt (st : St) (x : String) (d : Option Def) (k : Kind) : St × String :=
  if !st.fresh x then (st, "skip") else
  match d with
  | none => (st, "skip")
  | some d => st.inTxn fun st => st.addDef x d k

def cells (st : St) (ns : List String) : Option (List Nat) := ns.mapM st.cell
def streams (st : St) (ns : List String) : Option (List Nat) := ns.mapM st.stream

def idleObs : String := "idle cn=0 pp=0 po=0 ac=0 firing=0"

/-- `StreamLoop::loop_`: looping twice panics -/
def sloopCloseStmt (st : St) (l s : String) : St × String :=
  match st.stream s, st.find l with
  | some s, some (.ent i .sl) =>
    if (st.sp.loopTo.get i).isSome then ({ st with dead := true }, "PANIC looped-twice")
    else ({ st with sp := { st.sp with loopTo := st.sp.loopTo.set i (some s) } }, "ok")
  | _, _ => (st, "skip")

/-- `CellLoop::loop_` -/
def cloopCloseStmt (st : St) (l c : String) : St × String :=
  match st.cell c, st.find l with
  | some c, some (.ent i .cl) =>
    if (st.sp.loopTo.get i).isSome then ({ st with dead := true }, "PANIC looped-twice")
    else ({ st with sp := { st.sp with loopTo := st.sp.loopTo.set i (some c) } }, "ok")
  | _, _ => (st, "skip")

/-- `Cell::sample`: the value at the start of the current transaction; a CellLoop that is not
    looped yet (or anything computed from it) panics -/
def sampleStmt (st : St) (c : String) : St × String :=
  match st.cell c with
  | some c => (match st.sp.val c with
      | some v => (st, s!"v={v}")
      | none => ({ st with dead := true }, "PANIC sample-before-loop"))
  | none => (st, "skip")

/-- `Lazy::run`: the value captured when the lazy was taken -/
def forceStmt (st : St) (z : String) : St × String :=
  match st.find z with
  | some (.lazy snap cell) =>
    (match snap.orElse fun _ => cell.bind st.sp.val with
     | some v => (st, s!"v={v} runs=ok")
     | none => ({ st with dead := true }, "PANIC sample-before-loop"))
  | _ => (st, "skip")

/-- `Listener::unlisten`: from now on the listener gets nothing, also for a transaction still open -/
def unlistenStmt (st : St) (l : String) : St × String :=
  match st.find l with
  | some (.listener id) => ({ st with lis := st.lis.modify id fun x => { x with active := false } }, "ok")
  | _ => (st, "skip")

/-- `accum_lazy` / `collect_lazy`: the fold starts from the value the Lazy denotes (the value its cell had when
    it was taken) -/
def lazyFoldStmt (st : St) (x s z op : String) (isAccum : Bool) : St × String :=
  if !st.fresh x then (st, "skip") else
  match st.stream s, st.find z, num op with
  | some s, some (.lazy snap cell), some op =>
    (match snap.orElse fun _ => cell.bind st.sp.val with
     | some v => if isAccum then defStmt st x (some (.accum s v op)) .c else defStmt st x (some (.collect s v op)) .s
     | none => ({ st with dead := true }, "PANIC sample-before-loop"))
  | _, _, _ => (st, "skip")

/-- `switch_s(s.map(k ↦ base.map(f2 op · k)).hold(never))` — the canonical dynamic use of switch: every event `k` of
    `s` builds a fresh stream on `base`, effective from the next transaction on; before the first event of `s` nothing is
    emitted.  In S: the events of `base` combined with the last `k` (a snapshot of a hold of `s`), let through once `s` has
    fired at least once (a gate on a flag cell that starts odd and is set to 2 by the first event). -/
def switchLateStmt (st : St) (x s base op : String) : St × String :=
  if !st.fresh x then (st, "skip") else
  match st.stream s, st.stream base, num op with
  | some s, some b, some op =>
    st.inTxn fun st =>
      let i := st.sp.defs.size
      let st := st.addDef (x ++ "#k") (.hold s 0) .c
      let st := st.addDef (x ++ "#m") (.mapto s 2) .s
      let st := st.addDef (x ++ "#f") (.hold (i + 1) 1) .c
      let st := st.addDef (x ++ "#s") (.snapshot b i op) .s
      st.addDef x (.gate (i + 3) (i + 2)) .s
  | _, _, _ => (st, "skip")

/-- `switch_c(s.map(k ↦ base.map(f2 op · k).hold(k)).hold(constant 0))` — cells built on demand: every event `k` of `s`
    builds a fresh cell on `base` inside the transaction and the result switches to it at once, "including an update the
    new cell receives in that same transaction" (C05).  In S the result is a hold (initially 0) of these events: when `s`
    fires `k`: `f2 op v k` if `base` fires `v` in the same transaction, else `k`; when only `base` fires `v` and some `k`
    came before: `f2 op v (last k)`. -/
def switchLateCStmt (st : St) (x s base op : String) : St × String :=
  if !st.fresh x then (st, "skip") else
  match st.stream s, st.stream base, num op with
  | some s, some b, some op =>
    st.inTxn fun st =>
      let i := st.sp.defs.size
      let st := st.addDef (x ++ "#k") (.hold s 0) .c               -- i     last k
      let st := st.addDef (x ++ "#m") (.mapto s 2) .s              -- i+1
      let st := st.addDef (x ++ "#f") (.hold (i + 1) 1) .c         -- i+2   even once `s` has fired
      let st := st.addDef (x ++ "#s") (.snapshot b i op) .s        -- i+3   base with the last k
      let st := st.addDef (x ++ "#g") (.gate (i + 3) (i + 2)) .s   -- i+4   … once there is one
      let st := st.addDef (x ++ "#b") (.merge b s op) .s           -- i+5   both: f2 op v k; only s: k; (only base: v)
      let st := st.addDef (x ++ "#w") (.when (i + 5) s) .s         -- i+6   … in the transactions in which s fires
      let st := st.addDef (x ++ "#e") (.orelse (i + 6) (i + 4)) .s -- i+7
      st.addDef x (.hold (i + 7) 0) .c
  | _, _, _ => (st, "skip")

/-- `s.once().listen(|k| { base.or_else(&never).map(f2 op · k).listen(log l) })` — FRP built inside a listener handler,
    during propagation: from the transaction of the first event `k` of `s` on — that very transaction included — every
    event `v` of `base` is reported to `l` as `f2 op v k`.  In S: a listener on the stream that fires `f2 op v k` when
    `base` and the first event of `s` coincide, and afterwards the snapshot of `base` with the held `k`. -/
def lateListenStmt (st : St) (l s base op : String) : St × String :=
  if !st.fresh l then (st, "skip") else
  match st.stream s, st.stream base, num op with
  | some s, some b, some op =>
    st.inTxn fun st =>
      let i := st.sp.defs.size
      let st := st.addDef (l ++ "#o") (.once s) .s                  -- i     the first event of s
      let st := st.addDef (l ++ "#k") (.hold i 0) .c                -- i+1   k, afterwards
      let st := st.addDef (l ++ "#m") (.mapto i 2) .s               -- i+2
      let st := st.addDef (l ++ "#f") (.hold (i + 2) 1) .c          -- i+3   even once it happened
      let st := st.addDef (l ++ "#s") (.snapshot b (i + 1) op) .s   -- i+4
      let st := st.addDef (l ++ "#g") (.gate (i + 4) (i + 3)) .s    -- i+5   later transactions
      let st := st.addDef (l ++ "#b") (.merge b i op) .s            -- i+6
      let st := st.addDef (l ++ "#w") (.when (i + 6) i) .s          -- i+7   … when s fires its first event
      let st := st.addDef (l ++ "#v") (.when (i + 7) b) .s          -- i+8   … and base fires too: the same transaction
      let st := st.addDef (l ++ "#e") (.orelse (i + 8) (i + 5)) .s  -- i+9
      let st := { st with lis := st.lis.push { name := l, target := i + 9, isCell := false, regTxn := st.sp.txn, weak := false } }
      st.bind l .post
  | _, _, _ => (st, "skip")

/-- FRP built on stream `s` inside the handler of (the first event of) another stream `trig`, during propagation.
    `events` of `s` as seen by what was built: the event `s` has in the building transaction itself (whether `s` was
    updated before or after the handler ran), and every later one.  Returns the state and the number of that stream. -/
def lateEvents (st : St) (l : String) (trig s : Nat) : St × Nat × Nat :=
  let i := st.sp.defs.size
  let st := st.addDef (l ++ "#o") (.once trig) .s                -- i     the building transaction
  let st := st.addDef (l ++ "#m") (.mapto i 2) .s                -- i+1
  let st := st.addDef (l ++ "#f") (.hold (i + 1) 1) .c           -- i+2   even once it happened
  let st := st.addDef (l ++ "#w") (.when s i) .s                 -- i+3   s in the building transaction
  let st := st.addDef (l ++ "#g") (.gate s (i + 2)) .s           -- i+4   s in later transactions
  let st := st.addDef (l ++ "#e") (.orelse (i + 3) (i + 4)) .s   -- i+5
  (st, i, i + 5)

/-- `trig.once().listen(|_| { s.listen(log l) })` -/
def handlerListenStmt (st : St) (l trig s : String) : St × String :=
  if !st.fresh l then (st, "skip") else
  match st.stream trig, st.stream s with
  | some t, some s =>
    st.inTxn fun st =>
      let (st, _, e) := lateEvents st l t s
      let st := { st with lis := st.lis.push { name := l, target := e, isCell := false, regTxn := st.sp.txn, weak := false } }
      st.bind l .post
  | _, _ => (st, "skip")

/-- `trig.once().listen(|_| { c = s.hold(init); s.snapshot1(c).listen(log l) })`: every event of `s` from the building
    transaction on reports the value the cell had before it: `init`, then the previous event — the event of the
    building transaction included -/
def lateHoldStmt (st : St) (l trig s init : String) : St × String :=
  if !st.fresh l then (st, "skip") else
  match st.stream trig, st.stream s, num init with
  | some t, some s, some init =>
    st.inTxn fun st =>
      let (st, _, e) := lateEvents st l t s
      let j := st.sp.defs.size
      let st := st.addDef (l ++ "#h") (.hold e init) .c            -- j     the cell built by the handler
      let st := st.addDef (l ++ "#v") (.snapshot1 e j) .s          -- j+1
      let st := { st with lis := st.lis.push { name := l, target := j + 1, isCell := false, regTxn := st.sp.txn, weak := false } }
      st.bind l .post
  | _, _, _ => (st, "skip")

/-- `trig.once().listen(|_| { sl = StreamLoop; sl.stream().map(f1 k).listen(log l); sl.loop_(s) })` -/
def lateLoopStmt (st : St) (l trig s k : String) : St × String :=
  if !st.fresh l then (st, "skip") else
  match st.stream trig, st.stream s, num k with
  | some t, some s, some k =>
    st.inTxn fun st =>
      let (st, _, e) := lateEvents st l t s
      let j := st.sp.defs.size
      let st := st.addDef (l ++ "#p") (.map e k) .s
      let st := { st with lis := st.lis.push { name := l, target := j, isCell := false, regTxn := st.sp.txn, weak := false } }
      st.bind l .post
  | _, _, _ => (st, "skip")

/-- `r.filter_matches(k0).once().listen(|_| { r.filter_matches(k).listen(log l) })` — a route requested from inside a
    handler, after the router has dispatched the event of the transaction: `l` is told every event routed to `k` from
    the requesting transaction on, that transaction's own event included (C18: "requested before or after"). -/
def routeLateStmt (st : St) (l r k0 k : String) : St × String :=
  if !st.fresh l then (st, "skip") else
  match num k0, num k, st.find r with
  | some k0, some k, some (.router src sel) =>
    st.inTxn fun st =>
      let i := st.sp.defs.size
      let st := st.addDef (l ++ "#t") (.route src sel k0) .s       -- i
      let st := st.addDef (l ++ "#r") (.route src sel k) .s        -- i+1
      let (st, _, e) := lateEvents st l i (i + 1)
      let st := { st with lis := st.lis.push { name := l, target := e, isCell := false, regTxn := st.sp.txn, weak := false } }
      st.bind l .post
  | _, _, _ => (st, "skip")

/-- one statement (not `begin`/`end`) -/
def stmt (st : St) (ws : List String) : St × String :=
  match ws with
  | ["ssink", x] => defStmt st x (some (.sink none)) .ss
  | ["ssinkc", x, op] => defStmt st x ((num op).map fun op => .sink (some op)) .ss
  | ["csink", x, k] => defStmt st x ((num k).map .csink) .cs
  | ["const", x, k] => defStmt st x ((num k).map .const) .c
  | ["never", x] => defStmt st x (some .never) .s
  | ["map", x, s, k] => defStmt st x (do pure (.map (← st.stream s) (← num k))) .s
  | ["mapto", x, s, k] => defStmt st x (do pure (.mapto (← st.stream s) (← num k))) .s
  | ["filter", x, s, k] => defStmt st x (do pure (.filter (← st.stream s) (← num k))) .s
  | ["filteropt", x, s, k] => defStmt st x (do pure (.filter (← st.stream s) (← num k))) .s
  | ["merge", x, a, b, op] => defStmt st x (do pure (.merge (← st.stream a) (← st.stream b) (← num op))) .s
  | ["orelse", x, a, b] => defStmt st x (do pure (.orelse (← st.stream a) (← st.stream b))) .s
  | ["snapshot", x, s, c, op] => defStmt st x (do pure (.snapshot (← st.stream s) (← st.cell c) (← num op))) .s
  | ["snapshot1", x, s, c] => defStmt st x (do pure (.snapshot1 (← st.stream s) (← st.cell c))) .s
  | "snapshotn" :: x :: s :: cs =>
    defStmt st x (do
      let s ← st.stream s; let cs ← cells st cs
      if 2 ≤ cs.length ∧ cs.length ≤ 5 then pure (.snapshotn s cs) else none) .s
  | ["gate", x, s, c] => defStmt st x (do pure (.gate (← st.stream s) (← st.cell c))) .s
  | ["hold", x, s, k] => defStmt st x (do pure (.hold (← st.stream s) (← num k))) .c
  | ["holdlazy", x, s, z] =>
    if !st.fresh x then (st, "skip") else
    match st.stream s, st.find z with
    | some s, some (.lazy snap cell) =>
      let v := snap.orElse fun _ => cell.bind st.sp.val
      (match v, cell with
       | some v, _ => defStmt st x (some (.hold s v)) .c
       | none, some c => defStmt st x (some (.holdz s c)) .c     -- `hold_lazy` does not force the Lazy
       | none, none => ({ st with dead := true }, "PANIC sample-before-loop"))
    | _, _ => (st, "skip")
  | ["once", x, s] => defStmt st x (do pure (.once (← st.stream s))) .s
  | ["updates", x, c] => defStmt st x (do pure (.updates (← st.cell c))) .s
  | ["value", x, c] => defStmt st x (do pure (.value (← st.cell c))) .s
  | ["mapc", x, c, k] => defStmt st x (do pure (.mapc (← st.cell c) (← num k))) .c
  | ["lift2", x, a, b, op] => defStmt st x (do pure (.lift2 (← st.cell a) (← st.cell b) (← num op))) .c
  | ["lift2d", x, a, b, c, op] =>
    -- a lift whose function also captures (and declares) cell `c` without reading it: the value is that of `lift2`
    (match st.cell c with
     | some _ => defStmt st x (do pure (.lift2 (← st.cell a) (← st.cell b) (← num op))) .c
     | none => (st, "skip"))
  | "liftn" :: x :: cs =>
    defStmt st x (do
      let cs ← cells st cs
      if 3 ≤ cs.length ∧ cs.length ≤ 6 then pure (.liftn cs) else none) .c
  | ["accum", x, s, k, op] => defStmt st x (do pure (.accum (← st.stream s) (← num k) (← num op))) .c
  | ["collect", x, s, k, op] => defStmt st x (do pure (.collect (← st.stream s) (← num k) (← num op))) .s
  | ["accumlazy", x, s, z, op] => lazyFoldStmt st x s z op true
  | ["collectlazy", x, s, z, op] => lazyFoldStmt st x s z op false
  | ["defer", x, s] => defStmt st x (do pure (.defer (← st.stream s))) .s
  | ["split", x, s, n] => defStmt st x (do
      let s ← st.stream s; let n ← num n
      if 0 ≤ n ∧ n ≤ 8 then pure (.split s n.toNat) else none) .s
  | "switchs" :: x :: sel :: cands =>
    defStmt st x (do
      let sel ← st.cell sel
      if cands.isEmpty then none else
      let cs ← streams st cands
      pure (.switchs sel cs)) .s
  | "switchnest" :: x :: c :: sel :: cands =>
    -- `switch_s(c.map(_ ↦ switch_s(sel.map(k ↦ cands[k mod n]))))`: the inner switch is rebuilt by the mapping function at
    -- every update of `c` (the first time: when the outer switch samples its cell); each copy is the same switch
    if c == sel then (st, "skip") else
    defStmt st x (do
      let _ ← st.cell c
      let sel ← st.cell sel
      if cands.isEmpty then none else
      let cs ← streams st cands
      pure (.switchs sel cs)) .s
  | ["switchdyn", x, sel, s, op] =>
    -- switch_s over candidates built afresh at every update of the selector, candidate for `k` = `s.map (f2 op · k)`:
    -- it emits `f2 op v (value of sel at the start of the transaction)`, which is exactly `snapshot s sel op`
    defStmt st x (do pure (.snapshot (← st.stream s) (← st.cell sel) (← num op))) .s
  | ["snaplazy", x, s, c] =>
    -- `s.map(|_| c.sample_lazy()).map(|l| l.run())`: the Lazy denotes the value of `c` in this transaction
    defStmt st x (do pure (.snapshot1 (← st.stream s) (← st.cell c))) .s
  | ["snapmapc", x, s, c, k] =>
    -- `s.map(|_| c.map(f1 k).sample())`: a mapped cell built and sampled inside a propagation callback equals
    -- `f1 k` of the value `c` has in this transaction
    if !st.fresh x then (st, "skip") else
    (match st.stream s, st.cell c, num k with
     | some s, some c, some k =>
       st.inTxn fun st =>
         let i := st.sp.defs.size
         let st := st.addDef (x ++ "#1") (.snapshot1 s c) .s
         st.addDef x (.map i k) .s
     | _, _, _ => (st, "skip"))
  | ["postsend", p, s, v] =>
    -- `ctx.post(move || sink.send(v))`: a transaction of its own after the current one (at once when none is open)
    if !st.fresh p then (st, "skip") else
    (match num v, st.find s with
     | some v, some (.ent i k) =>
       if k == .ss || k == .cs then
         let st := st.bind p .post
         if st.depth > 0 then ({ st with posts := st.posts ++ [.ev i v] }, "ok")
         else closeTxn { st with posts := st.posts ++ [.ev i v] }
       else (st, "skip")
     | _, _ => (st, "skip"))
  | ["listenkill", l, x, victim] =>
    if !st.fresh l then (st, "skip") else
    (match st.stream x, st.find victim with
     | some t, some (.listener v) =>
       st.inTxn fun st =>
         let id := st.lis.size
         let st := { st with lis := st.lis.push { name := l, target := t, isCell := false, regTxn := st.sp.txn, weak := false, kills := some v } }
         st.bind l (.listener id)
     | _, _ => (st, "skip"))
  | ["routelate", l, r, k0, k] => routeLateStmt st l r k0 k
  | ["handlerlisten", l, trig, s] => handlerListenStmt st l trig s
  | ["lateloop2", l, trig1, trig2, s] =>
    -- a loop created and used (`loop.or_else(trig1)`) by `trig1`'s handler and closed onto `s` by `trig2`'s handler later in the
    -- same transaction: transparent (C11) — the listener hears `s.or_else(trig1)` from that transaction on
    if !st.fresh l then (st, "skip") else
    (match st.stream trig1, st.stream trig2, st.stream s with
     | some t1, some _, some s =>
       st.inTxn fun st =>
         let j := st.sp.defs.size
         let st := st.addDef (l ++ "#n") (.orelse s t1) .s
         let (st, _, e) := lateEvents st l t1 j
         let st := { st with lis := st.lis.push { name := l, target := e, isCell := false, regTxn := st.sp.txn, weak := false } }
         st.bind l .post
     | _, _, _ => (st, "skip"))
  | ["laterouter", l, trig, s, sel, k] =>
    -- a router on `s` built by `trig`'s handler, its route `k` listened to: the events of `s` routed to `k` from that
    -- transaction on
    if !st.fresh l then (st, "skip") else
    (match st.stream trig, st.stream s, num sel, num k with
     | some t, some s, some sel, some k =>
       st.inTxn fun st =>
         let j := st.sp.defs.size
         let st := st.addDef (l ++ "#r") (.route s sel k) .s
         let (st, _, e) := lateEvents st l t j
         let st := { st with lis := st.lis.push { name := l, target := e, isCell := false, regTxn := st.sp.txn, weak := false } }
         st.bind l .post
     | _, _, _, _ => (st, "skip"))
  | ["routehandler", l, trig, r, k] =>
    -- `trig.once().listen(|_| { r.filter_matches(k).listen(log l) })`: the events routed to `k` from the transaction of the
    -- request on (a transaction of its own when `trig` is a deferred stream: then nothing of the earlier one)
    if !st.fresh l then (st, "skip") else
    (match st.stream trig, num k, st.find r with
     | some t, some k, some (.router src sel) =>
       st.inTxn fun st =>
         let j := st.sp.defs.size
         let st := st.addDef (l ++ "#r") (.route src sel k) .s
         let (st, _, e) := lateEvents st l t j
         let st := { st with lis := st.lis.push { name := l, target := e, isCell := false, regTxn := st.sp.txn, weak := false } }
         st.bind l .post
     | _, _, _ => (st, "skip"))
  | ["lateswitch", l, trig, s] => handlerListenStmt st l trig s      -- `switch_s` over a constant cell holding `s` is `s`
  | ["lateswitchc", l, trig, c] =>
    -- `switch_c` over a constant cell holding `c`, its updates listened to: the updates of `c`
    if !st.fresh l then (st, "skip") else
    (match st.stream trig, st.cell c with
     | some t, some c =>
       st.inTxn fun st =>
         let j := st.sp.defs.size
         let st := st.addDef (l ++ "#u") (.updates c) .s
         let (st, _, e) := lateEvents st l t j
         let st := { st with lis := st.lis.push { name := l, target := e, isCell := false, regTxn := st.sp.txn, weak := false } }
         st.bind l .post
     | _, _ => (st, "skip"))
  | ["leafdrop", l, trig, s, kind] =>
    -- an unobserved primitive on `s` dropped by a handler of `trig`: no observable effect whatsoever
    if !st.fresh l then (st, "skip") else
    (match st.stream trig, st.stream s, num kind with
     | some _, some _, some _ => (st.bind l .post, "ok")
     | _, _, _ => (st, "skip"))
  | ["latehold", l, trig, s, init] => lateHoldStmt st l trig s init
  | ["lateloop", l, trig, s, k] => lateLoopStmt st l trig s k
  | ["latelisten", l, s, base, op] => lateListenStmt st l s base op
  | ["switchlate", x, s, base, op] => switchLateStmt st x s base op
  | ["switchlatec", x, s, base, op] => switchLateCStmt st x s base op
  | ["switchlatecs", x, s, base, op] => switchLateCStmt st x s base op      -- a switch over a constant cell is its stream
  | "switchc" :: x :: sel :: cands =>
    defStmt st x (do
      let sel ← st.cell sel
      if cands.isEmpty then none else
      let cs ← cells st cands
      pure (.switchc sel cs)) .c
  | ["sloop", x] => defStmt st x (some .sloop) .sl
  | ["cloop", x] => defStmt st x (some .cloop) .cl
  | ["sloopclose", l, s] => sloopCloseStmt st l s
  | ["cloopclose", l, c] => cloopCloseStmt st l c
  | ["router", r, s, sel] =>
    if !st.fresh r then (st, "skip") else
    match st.stream s, num sel with
    | some s, some sel => (st.bind r (.router s sel), "ok")
    | _, _ => (st, "skip")
  | ["route", x, r, k] =>
    if !st.fresh x then (st, "skip") else
    match num k, st.find r with
    | some k, some (.router src sel) =>
      -- `filter_matches` does not open a transaction, and returns the existing stream for a key
      -- whose stream is still alive: semantically the same filter, so a fresh definition is exact
      (st.addDef x (.route src sel k) .s, "ok")
    | _, _ => (st, "skip")
  | [cmd, l, x] =>
    if cmd == "listen" || cmd == "listenweak" then
      if !st.fresh l then (st, "skip") else
      let tgt : Option (Nat × Bool) := (st.stream x).map (·, false) |>.orElse fun _ => (st.cell x).map (·, true)
      match tgt with
      | none => (st, "skip")
      | some (t, isC) =>
        st.inTxn fun st =>
          let id := st.lis.size
          let st := { st with lis := st.lis.push { name := l, target := t, isCell := isC, regTxn := st.sp.txn, weak := cmd == "listenweak" } }
          st.bind l (.listener id)
    else if cmd == "send" then
      match num x, st.find l with
      | some v, some (.ent i k) =>
        if k == .ss || k == .cs then
          st.inTxn fun st =>
            { st with sends := addSend (st.sp.coalescer i) st.sends i v }
        else (st, "skip")
      | _, _ => (st, "skip")
    else if cmd == "mklazy" then
      if !st.fresh l then (st, "skip") else
      match num x with
      | some k => (st.bind l (.lazy (some k) none), "ok")
      | none => (st, "skip")
    else if cmd == "lazy" then
      if !st.fresh l then (st, "skip") else
      match st.cell x with
      | some c => (st.bind l (.lazy (st.sp.val c) (some c)), "ok")
      | none => (st, "skip")
    else if cmd == "clonelazy" then
      if !st.fresh l then (st, "skip") else
      match st.find x with
      | some (.lazy a b) => (st.bind l (.lazy a b), "ok")
      | _ => (st, "skip")
    else if cmd == "post" then
      if !st.fresh l then (st, "skip") else
      match st.cell x with
      | some c =>
        let st := st.bind l .post
        if st.depth > 0 then ({ st with posts := st.posts ++ [.samp l c] }, "ok")
        else (match st.sp.val c with
              | some v => (st, "ok" ++ showCbs [(l, v)])
              | none => ({ st with dead := true }, "PANIC sample-before-loop"))
      | none => (st, "skip")
    else if cmd == "clone" then
      if !st.fresh l then (st, "skip") else
      match st.find x with
      | some (.ent i .sl) => (st.bind l (.ent i .s), "ok")
      | some (.ent i .cl) => (st.bind l (.ent i .c), "ok")
      | some (.ent i k) => (st.bind l (.ent i k), "ok")
      | _ => (st, "skip")
    else (st, "bad-op")
  | ["unlisten", l] => unlistenStmt st l
  | ["sample", c] => sampleStmt st c
  | ["force", z] => forceStmt st z
  | ["topen", t] =>
    if !st.fresh t then (st, "skip") else
    (({ st with depth := st.depth + 1, txOpen := (t, true) :: st.txOpen }).bind t (.txn true), "ok")
  | ["tclose", t] =>
    match st.find t with
    | some (.txn true) =>
      if (st.txOpen.find? (·.1 == t)).map (·.2) == some true then
        let st := { st with txOpen := st.txOpen.map fun p => if p.1 == t then (t, false) else p, depth := st.depth - 1 }
        if st.depth == 0 then closeTxn st else (st, "ok")
      else (st, "ok")
    | _ => (st, "skip")
  | ["tdrop", t] =>
    match st.find t with
    | some (.txn true) =>
      let wasOpen := (st.txOpen.find? (·.1 == t)).map (·.2) == some true
      let st := st.bind t (.txn false)
      if wasOpen then
        let st := { st with txOpen := st.txOpen.map fun p => if p.1 == t then (t, false) else p, depth := st.depth - 1 }
        if st.depth == 0 then closeTxn st else (st, "ok")
      else (st, "ok")
    | _ => (st, "skip")
  | ["drop", x] =>
    match st.find x with
    | none | some .dropped | some (.txn _) | some .post => (st, "skip")
    | some (.listener id) =>
      let st := { st with lis := st.lis.modify id fun l => if l.weak then { l with dying := true } else l }
      (st.bind x .dropped, "ok")
    | some _ => (st.bind x .dropped, "ok")
  | ["gc"] =>
    ({ st with lis := st.lis.map fun l => if l.dying then { l with active := false } else l }, "ok")
  | ["obs"] => (st, if st.depth > 0 then s!"open {st.depth}" else idleObs)
  | ["nodes"] => (st, "nodes=?")
  | ["sendsync"] => (st, "sendsync=ok")
  | ["memcheck"] => (st, "mem=ok")
  | ["wfcheck"] => (st, "wf=ok")
  | ["leakcheck"] =>
    ({ st with names := [], lis := st.lis.map fun l => { l with active := false } }, "leak=0")
  | _ => (st, "bad-op")

/-- bracket matching of `begin`/`end` lines, as the harness does it: result[i] = true iff line i is
    a matched `begin` or `end` -/
def matchBrackets (lines : Array (List String)) : Array Bool :=
  let n := lines.size
  let (res, _) := (List.range n).foldl (fun (acc : Array Bool × List Nat) i =>
    let (res, stack) := acc
    match lines[i]! with
    | ["begin"] => (res, i :: stack)
    | ["end"] => (match stack with
        | b :: rest => ((res.set! b true).set! i true, rest)
        | [] => (res, stack))
    | _ => (res, stack)) (Array.replicate n false, [])
  res

def splitWords (line : String) : List String :=
  (line.trimAscii.toString.splitOn " ").filter (· ≠ "")

/-- interpret a whole script; one output line per input line -/
def runScript (lines : List String) : List String :=
  let ws := (lines.map splitWords).toArray
  let matched := matchBrackets ws
  let (_, outs) := (List.range ws.size).foldl (fun (acc : St × Array String) i =>
    let (st, outs) := acc
    if st.dead then (st, outs.push "dead") else
    match ws[i]! with
    | ["begin"] => if matched[i]! then ({ st with depth := st.depth + 1 }, outs.push "ok") else (st, outs.push "bad-op")
    | ["end"] =>
      if matched[i]! then
        let st := { st with depth := st.depth - 1 }
        if st.depth == 0 then let (st, o) := closeTxn st; (st, outs.push o) else (st, outs.push "ok")
      else (st, outs.push "bad-op")
    | w => let (st, o) := stmt st w; (st, outs.push o)) (({} : St), #[])
  outs.toList

end Spec
end SodiumVerif
