/-
  S : denotational semantics of the script DSL (what "the Sodium semantics" means in the
  properties).  No graph, no flags, no scheduling order: per transaction, the firing of every
  stream is the unique solution of one equation per definition, computed from the sink events of
  the transaction and the cell values at its start; cells step afterwards; deferred events are
  replayed as transactions of their own.  `clone`, `drop`, `gc` are no-ops here.
-/
import SodiumVerif.Model.Store

namespace SodiumVerif
namespace Spec

/-! ### 64-bit wrapping integer functions (identical to `harness/src/api.rs`) -/

def wrap (x : Int) : Int :=
  let m := x % 18446744073709551616
  if m ≥ 9223372036854775808 then m - 18446744073709551616 else m

def f1 (k x : Int) : Int := wrap (wrap (x * 3) + k)
def p1 (k x : Int) : Bool := (wrap (x + k)) % 3 != 0
def f2 (op a b : Int) : Int :=
  match op % 3 with
  | 0 => wrap (a - b)
  | 1 => wrap (wrap (a * 31) + b)
  | _ => wrap (a + wrap (b * 7))
def fN : List Int → Int
  | [] => 0
  | a :: bs => bs.foldl (fun acc b => f2 1 acc b) a
def even (x : Int) : Bool := x % 2 == 0
def routeKeys (sel v : Int) : List Int :=
  match sel % 3 with
  | 0 => [v % 3]
  | 1 => [v % 3, v % 2]
  | _ => [v % 2, v % 2, v % 3]

/-! ### definitions -/

inductive Def where
  | sink (coal : Option Int)
  | csink (k : Int)
  | const (k : Int)
  | never
  | map (s : Nat) (k : Int)
  | mapto (s : Nat) (k : Int)
  | filter (s : Nat) (k : Int)
  | merge (a b : Nat) (op : Int)
  | orelse (a b : Nat)
  | snapshot (s c : Nat) (op : Int)
  | snapshot1 (s c : Nat)
  | snapshotn (s : Nat) (cs : List Nat)
  | gate (s c : Nat)
  | hold (s : Nat) (k : Int)
  | holdz (s : Nat) (c : Nat)        -- `hold_lazy` of a Lazy of cell `c` that could not be read yet (an open CellLoop)
  | once (s : Nat)
  | updates (c : Nat)
  | value (c : Nat)
  | mapc (c : Nat) (k : Int)
  | lift2 (a b : Nat) (op : Int)
  | liftn (cs : List Nat)
  | accum (s : Nat) (k : Int) (op : Int)
  | collect (s : Nat) (k : Int) (op : Int)
  | defer (s : Nat)
  | split (s : Nat) (n : Nat)
  | switchs (sel : Nat) (cands : List Nat)
  | switchc (sel : Nat) (cands : List Nat)
  | sloop
  | cloop
  | route (src : Nat) (sel : Int) (k : Int)
  | when (s t : Nat)                 -- the event of `s`, in the transactions in which `t` fires too (specification helper)
  deriving Repr, Inhabited

/-- is the definition a cell (has a current value)?  `collect` is a stream with a hidden state. -/
def Def.isCell : Def → Bool
  | .csink _ | .const _ | .hold .. | .holdz .. | .mapc .. | .lift2 .. | .liftn _ | .accum .. | .switchc .. | .cloop => true
  | _ => false

structure Spec where
  defs : Array Def := #[]
  created : Array Nat := #[]            -- transaction number in which each definition was made
  stored : Store (Option Int) := Store.empty   -- cell values (and collect states) written by updates
  onceDone : Store Bool := Store.empty
  loopTo : Store (Option Nat) := Store.empty
  txn : Nat := 1                          -- number of the current (or next) transaction
  deriving Inhabited

def Spec.getDef (sp : Spec) (i : Nat) : Def := sp.defs.getD i .never

/-- value of a cell (or state of a `collect`) at the start of the current transaction.
    A cell that was never updated has its initial value, computed from its inputs' values
    (inputs cannot have been updated since, or it would have been updated too).
    `none` = not available: a `CellLoop` that is not looped yet (or something built on it). -/
def cellVal (sp : Spec) : Nat → Nat → Option Int
  | 0, _ => none
  | fuel + 1, i =>
    match sp.stored.get i with
    | some v => some v
    | none =>
      match sp.getDef i with
      | .csink k | .const k | .hold _ k | .accum _ k _ | .collect _ k _ => some k
      | .holdz _ c => cellVal sp fuel c      -- until the end of its defining transaction (then stored)
      | .mapc c k => (cellVal sp fuel c).map (f1 k)
      | .lift2 a b op => do let x ← cellVal sp fuel a; let y ← cellVal sp fuel b; pure (f2 op x y)
      | .liftn cs => (cs.mapM (cellVal sp fuel)).map fN
      | .switchc sel cands => do
          let k ← cellVal sp fuel sel
          cellVal sp fuel (cands.getD (k % cands.length).toNat 0)
      | .cloop => match sp.loopTo.get i with
          | some t => cellVal sp fuel t
          | none => none
      | _ => none

def Spec.val (sp : Spec) (i : Nat) : Option Int := cellVal sp (sp.defs.size + 1) i

/-- firing table of one transaction: `none` = not computed yet, `some none` = does not fire -/
abbrev Table := Store (Option (Option Int))

/-- events injected from outside into this transaction: sink sends (already coalesced) and the
    one deferred event a spawned transaction carries -/
abbrev Events := List (Nat × Int)

def Events.get (ev : Events) (i : Nat) : Option Int := (ev.find? (·.1 == i)).map (·.2)

/-- a send to sink `i` inside the current transaction: a sink with coalescer `f2 op` folds the new
    value into the pending event (previous value first), any other sink keeps the last value sent -/
def addSend (coal : Option Int) (sends : Events) (i : Nat) (v : Int) : Events :=
  match coal, sends.get i with
  | some op, some old => (sends.filter (·.1 != i)) ++ [(i, f2 op old v)]
  | _, _ => (sends.filter (·.1 != i)) ++ [(i, v)]

/-- the coalescer of a definition, if it is a sink created with one -/
def Spec.coalescer (sp : Spec) (i : Nat) : Option Int :=
  match sp.getDef i with
  | .sink (some op) => some op
  | _ => none

/-- the firing equation of one definition, given the firings of the definitions it reads
    (`look`) and the start-of-transaction cell values; `none` = some operand not computed yet. -/
def fireOf (sp : Spec) (ev : Events) (look : Nat → Option (Option Int)) (i : Nat) : Option (Option Int) :=
  let v := fun c => sp.val c
  match sp.getDef i with
  | .sink _ | .csink _ | .defer _ | .split .. => some (ev.get i)
  | .const _ | .never => some none
  | .map s k => (look s).map (·.map (f1 k))
  | .mapto s k => (look s).map (·.map fun _ => k)
  | .filter s k => (look s).map (·.filter (p1 k))
  | .merge a b op => do
      let x ← look a; let y ← look b
      pure (match x, y with
        | some x, some y => some (f2 op x y)
        | some x, none => some x
        | none, y => y)
  | .orelse a b => do let x ← look a; let y ← look b; pure (x.orElse fun _ => y)
  | .snapshot s c op => (look s).map (·.bind fun x => (v c).map (f2 op x))
  | .snapshot1 s c => (look s).map (·.bind fun _ => v c)
  | .snapshotn s cs => (look s).map (·.bind fun x => (cs.mapM v).map fun ys => fN (x :: ys))
  | .gate s c => (look s).map (·.filter fun _ => ((v c).map even).getD false)
  | .hold s _ => look s
  | .holdz s _ => look s
  | .once s => if sp.onceDone.get i then some none else look s
  | .updates c => look c
  | .value c => (look c).map fun u =>
      if sp.created.getD i 0 == sp.txn then (u.orElse fun _ => v c) else u
  | .mapc c k => (look c).map (·.map (f1 k))
  | .lift2 a b op => do
      let x ← look a; let y ← look b
      pure (if x.isSome || y.isSome then
              (do let p ← x.orElse (fun _ => v a); let q ← y.orElse (fun _ => v b); pure (f2 op p q))
            else none)
  | .liftn cs => do
      let xs ← cs.mapM look
      pure (if xs.any (·.isSome) then
              ((cs.zip xs).mapM fun (p : Nat × Option Int) => p.2.orElse fun _ => v p.1).map fN
            else none)
  | .accum s _ op => (look s).map (·.bind fun x => (v i).map (f2 op x))
  | .collect s _ op => (look s).map (·.bind fun x => (v i).map (f2 op x))
  | .switchs sel cands =>
      match v sel with
      | some k => look (cands.getD (k % cands.length).toNat 0)
      | none => some none
  | .switchc sel cands => do
      let sf ← look sel
      match sf with
      | some k =>
        let inner := cands.getD (k % cands.length).toNat 0
        let f ← look inner
        pure (f.orElse fun _ => v inner)
      | none =>
        match v sel with
        | some k => look (cands.getD (k % cands.length).toNat 0)
        | none => some none
  | .sloop | .cloop =>
      match sp.loopTo.get i with
      | some t => look t
      | none => some none
  | .route src sel k => (look src).map (·.filter fun x => (routeKeys sel x).contains k)
  | .when s t => do
      let x ← look s; let y ← look t
      pure (if y.isSome then x else none)

/-- one round: compute every entry whose operands are available -/
def round (sp : Spec) (ev : Events) (tbl : Table) : Table :=
  (List.range sp.defs.size).foldl (fun t i =>
    match t.get i with
    | some _ => t
    | none => match fireOf sp ev (fun j => t.get j) i with
      | some r => t.set i (some r)
      | none => t) tbl

def rounds (sp : Spec) (ev : Events) : Nat → Table → Table
  | 0, t => t
  | n + 1, t => rounds sp ev n (round sp ev t)

/-- the firing of every definition in this transaction (entries that depend on themselves without
    a delay never resolve and count as not firing) -/
def fireTable (sp : Spec) (ev : Events) : Table := rounds sp ev (sp.defs.size + 1) Store.empty

def fire (tbl : Table) (i : Nat) : Option Int := (tbl.get i).getD none

/-- cell updates of a transaction: every cell (and `collect` state) whose update fires -/
def applyUpdates (sp : Spec) (tbl : Table) : Spec :=
  let n := sp.defs.size
  let stored := (List.range n).foldl (fun st i =>
    match sp.getDef i with
    | .collect s _ op =>
      (match fire tbl s, sp.val i with
       | some x, some stv => st.set i (some (f2 (op + 1) x stv))
       | _, _ => st)
    | .holdz _ c =>
      -- an event wins; otherwise the Lazy's value (the cell `c` as it was when this transaction
      -- started) becomes the cell's own value as soon as it can be read
      (match fire tbl i with
       | some v => st.set i (some v)
       | none => (match sp.stored.get i, sp.val c with
          | none, some v => st.set i (some v)
          | _, _ => st))
    | d => if d.isCell then (match fire tbl i with | some v => st.set i (some v) | none => st) else st) sp.stored
  let once := (List.range n).foldl (fun od i =>
    match sp.getDef i with
    | .once _ => if (fire tbl i).isSome then od.set i true else od
    | _ => od) sp.onceDone
  { sp with stored := stored, onceDone := once }

/-- events deferred by this transaction, in definition order; one split element per entry -/
def deferred (sp : Spec) (tbl : Table) : List (Nat × Int) :=
  (List.range sp.defs.size).foldl (fun acc i =>
    match sp.getDef i with
    | .defer s => (match fire tbl s with | some v => acc ++ [(i, v)] | none => acc)
    | .split s n => (match fire tbl s with
        | some v => acc ++ (List.range n).map fun (j : Nat) => (i, wrap (v + (j : Int)))
        | none => acc)
    | _ => acc) []

/-- one whole transaction at the level of S: fire, update cells, advance the transaction counter -/
def stepTxn (sp : Spec) (ev : Events) : Spec :=
  { applyUpdates sp (fireTable sp ev) with txn := sp.txn + 1 }

end Spec
end SodiumVerif
