/-
  C10 — listener lifecycle: from the registering transaction until unlisten, never after.
  Theorems about the script semantics of S: what a listener receives from a transaction is
  `lisOut`; `listenerOutputs` is exactly the collection of these over all listeners.
-/
import SodiumVerif.Spec.Script

namespace SodiumVerif
namespace Spec

theorem listenerOutputs_eq (st : St) (tbl : Table) :
    listenerOutputs st tbl = st.lis.toList.filterMap (lisOut st tbl) := rfl

/-- after `unlisten` the listener receives nothing, whatever fires — also in a transaction that is
    still open when `unlisten` is called, because outputs are computed at the close -/
theorem unlisten_stops (st : St) (tbl : Table) (l : Lis) (h : l.active = false) : lisOut st tbl l = none := by
  simp [lisOut, h]

/-- `unlisten` deactivates exactly the listener it is called on, and can be repeated -/
theorem unlisten_deactivates (st : St) (name : String) (id : Nat) (h : st.find name = some (.listener id))
    (hid : id < st.lis.size) :
    ((unlistenStmt st name).1.lis[id]?).map (·.active) = some false ∧ (unlistenStmt st name).2 = "ok" := by
  simp [unlistenStmt, h, hid, Array.getElem_modify]

/-- a stream listener receives, in every transaction from its registration on (while active),
    exactly the event of its stream -/
theorem listen_stream (st : St) (tbl : Table) (l : Lis) (ha : l.active = true) (hs : l.isCell = false) :
    lisOut st tbl l = (fire tbl l.target).map fun v => (l.name, v) := by
  simp [lisOut, ha, hs]

/-- a cell listener additionally receives, in the registering transaction, the cell's current value,
    or the new value if the cell is updated in that very transaction -/
theorem listen_cell_initial (st : St) (tbl : Table) (l : Lis) (ha : l.active = true) (hc : l.isCell = true)
    (hr : l.regTxn = st.sp.txn) :
    lisOut st tbl l = ((fire tbl l.target).orElse fun _ => st.sp.val l.target).map fun v => (l.name, v) := by
  simp [lisOut, ha, hc, hr]

theorem listen_cell_later (st : St) (tbl : Table) (l : Lis) (ha : l.active = true)
    (hr : l.regTxn ≠ st.sp.txn) :
    lisOut st tbl l = (fire tbl l.target).map fun v => (l.name, v) := by
  have : (l.regTxn == st.sp.txn) = false := by simpa using hr
  simp [lisOut, ha, this]

/-- dropping the handle of a listener registered with `listen` (not `listen_weak`) changes nothing -/
theorem strong_listener_survives_drop (l : Lis) (h : l.weak = false) :
    (if l.weak then { l with dying := true } else l) = l := by simp [h]

theorem stmt_unlisten (st : St) (l : String) : stmt st ["unlisten", l] = unlistenStmt st l := by
  unfold stmt; rfl

end Spec
end SodiumVerif
