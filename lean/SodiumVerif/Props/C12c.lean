/-
  C12c — the `post` queue at the level of the specification S (`Spec/Script.lean`): a posted send is a
  transaction of its own, run after the outermost transaction has committed, depth-first with respect
  to the events it defers; sampling closures do not change the state.
-/
import SodiumVerif.Spec.Script

namespace SodiumVerif
namespace Spec

/-! ### 1. unfolding equations of `runItems` -/

theorem runItems_zero (st : St) (items : List Item) (acc : List (String × Int)) :
    runItems 0 st items acc = (st, acc, true) := by
  cases items with
  | nil => rfl
  | cons it rest => cases it <;> rfl

theorem runItems_nil (fuel : Nat) (st : St) (acc : List (String × Int)) :
    runItems (fuel + 1) st [] acc = (st, acc, false) := rfl

theorem runItems_samp (fuel : Nat) (st : St) (p : String) (c : Nat) (rest : List Item)
    (acc : List (String × Int)) :
    runItems (fuel + 1) st (.samp p c :: rest) acc
      = runItems fuel st rest (acc ++ ((st.sp.val c).map fun v => (p, v)).toList) := rfl

theorem runItems_ev (fuel : Nat) (st : St) (i : Nat) (v : Int) (rest : List Item)
    (acc : List (String × Int)) :
    runItems (fuel + 1) st (.ev i v :: rest) acc
      = runItems fuel (runOne st [(i, v)] []).1
          ((runOne st [(i, v)] []).2.2.map (fun e => Item.ev e.1 e.2) ++ rest)
          (acc ++ (runOne st [(i, v)] []).2.1) := rfl

/-! ### 2. one scripted transaction is one `stepTxn` -/

/-- one scripted transaction is exactly one `stepTxn` of the specification state -/
theorem runOne_sp (st : St) (ev : Events) (posts : List (String × Nat)) :
    (runOne st ev posts).1.sp = stepTxn st.sp ev := rfl

/-- the events it hands to the `post` queue are the deferred events of its firing table -/
theorem runOne_deferred (st : St) (ev : Events) (posts : List (String × Nat)) :
    (runOne st ev posts).2.2 = deferred st.sp (fireTable st.sp ev) := rfl

/-! ### 3. a sampling closure does not change the specification state -/

theorem runItems_samp_single (fuel : Nat) (st : St) (p : String) (c : Nat)
    (acc : List (String × Int)) :
    runItems (fuel + 1) st [.samp p c] acc
      = (st, acc ++ ((st.sp.val c).map fun v => (p, v)).toList, decide (fuel = 0)) := by
  rw [runItems_samp]
  cases fuel with
  | zero => rfl
  | succ n => rfl

/-- processing a `.samp` item leaves the state as it is (it only reports the cell's current value) -/
theorem runItems_samp_sp (fuel : Nat) (st : St) (p : String) (c : Nat) (acc : List (String × Int)) :
    (runItems (fuel + 1) st [.samp p c] acc).1.sp = st.sp := by
  rw [runItems_samp_single]

theorem runItems_samp_st (fuel : Nat) (st : St) (p : String) (c : Nat) (acc : List (String × Int)) :
    (runItems (fuel + 1) st [.samp p c] acc).1 = st := by
  rw [runItems_samp_single]

/-- what it reports is the value of the cell in the state it is run in -/
theorem runItems_samp_cbs (fuel : Nat) (st : St) (p : String) (c : Nat) (acc : List (String × Int)) :
    (runItems (fuel + 1) st [.samp p c] acc).2.1
      = acc ++ ((st.sp.val c).map fun v => (p, v)).toList := by
  rw [runItems_samp_single]

/-! ### 4. a posted send is a transaction of its own -/

/-- `runOne` never reads `St.sends`: the events of the transaction are its argument only -/
theorem runOne_sends_irrel (st : St) (s' : Events) (ev : Events) (posts : List (String × Nat)) :
    runOne { st with sends := s' } ev posts
      = ({ (runOne st ev posts).1 with sends := s' }, (runOne st ev posts).2) := rfl

/-- `runItems` never reads `St.sends` -/
theorem runItems_sends_irrel (fuel : Nat) (st : St) (s' : Events) (items : List Item)
    (acc : List (String × Int)) :
    runItems fuel { st with sends := s' } items acc
      = ({ (runItems fuel st items acc).1 with sends := s' }, (runItems fuel st items acc).2) := by
  induction fuel generalizing st items acc with
  | zero => simp only [runItems_zero]
  | succ n ih =>
    cases items with
    | nil => rfl
    | cons it rest =>
      cases it with
      | samp p c => simp only [runItems_samp]; exact ih st rest _
      | ev i v =>
        simp only [runItems_ev, runOne_sends_irrel]
        exact ih _ _ _

theorem runItems_sends_irrel_sp (fuel : Nat) (st : St) (s' : Events) (items : List Item)
    (acc : List (String × Int)) :
    (runItems fuel { st with sends := s' } items acc).1.sp = (runItems fuel st items acc).1.sp := by
  rw [runItems_sends_irrel]

theorem runItems_sends_irrel_cbs (fuel : Nat) (st : St) (s' : Events) (items : List Item)
    (acc : List (String × Int)) :
    (runItems fuel { st with sends := s' } items acc).2 = (runItems fuel st items acc).2 := by
  rw [runItems_sends_irrel]

/-- a posted send `(i, v)` runs as a transaction whose events are exactly `[(i, v)]`: one `stepTxn` of
    the state it finds, followed by the transactions of the events it defers -/
theorem posted_send_own_transaction (fuel : Nat) (st : St) (i : Nat) (v : Int)
    (acc : List (String × Int)) :
    runItems (fuel + 1) st [.ev i v] acc
      = runItems fuel (runOne st [(i, v)] []).1
          ((deferred st.sp (fireTable st.sp [(i, v)])).map fun e => Item.ev e.1 e.2)
          (acc ++ (runOne st [(i, v)] []).2.1) := by
  rw [runItems_ev, runOne_deferred, List.append_nil]

/-- the state the deferred events of the posted send start from -/
theorem posted_send_first_state (st : St) (i : Nat) (v : Int) :
    (runOne st [(i, v)] []).1.sp = stepTxn st.sp [(i, v)] := rfl

/-- a posted send that defers nothing is exactly one `stepTxn` with the single event `(i, v)` -/
theorem posted_send_no_deferred (fuel : Nat) (st : St) (i : Nat) (v : Int)
    (acc : List (String × Int)) (h : deferred st.sp (fireTable st.sp [(i, v)]) = []) :
    (runItems (fuel + 2) st [.ev i v] acc).1.sp = stepTxn st.sp [(i, v)] ∧
    (runItems (fuel + 2) st [.ev i v] acc).2.2 = false := by
  rw [posted_send_own_transaction, h]
  exact ⟨rfl, rfl⟩

/-- nothing sent earlier (and still pending in `st.sends`) is folded into the posted send's
    transaction: the result does not depend on `st.sends` -/
theorem posted_send_sends_irrel (fuel : Nat) (st : St) (s' : Events) (i : Nat) (v : Int)
    (acc : List (String × Int)) :
    (runItems (fuel + 1) { st with sends := s' } [.ev i v] acc).1.sp
      = (runItems (fuel + 1) st [.ev i v] acc).1.sp :=
  runItems_sends_irrel_sp _ _ _ _ _

theorem posted_send_sends_irrel_cbs (fuel : Nat) (st : St) (s' : Events) (i : Nat) (v : Int)
    (acc : List (String × Int)) :
    (runItems (fuel + 1) { st with sends := s' } [.ev i v] acc).2
      = (runItems (fuel + 1) st [.ev i v] acc).2 :=
  runItems_sends_irrel_cbs _ _ _ _ _

/-! ### 5. the outermost transaction commits before the `post` queue runs -/

/-- `closeTxn` unfolded: the queue (user posts, then the events the transaction deferred) is processed
    by `runItems` starting from the state after the transaction of `st.sends` -/
theorem closeTxn_commits_before_posts (st : St) :
    closeTxn st =
      (let st0 := resolveLazies st
       let r := runItems 400 { (runOne st0 st0.sends []).1 with sends := [], posts := [] }
          (st0.posts ++ (runOne st0 st0.sends []).2.2.map fun e => Item.ev e.1 e.2)
          (runOne st0 st0.sends []).2.1
       ({ r.1 with lis := r.1.lis.map fun l => if l.dying then { l with active := false } else l },
        if r.2.2 then "DIVERGE" else "ok" ++ showCbs r.2.1)) := rfl

/-- the state the first queued item is run in is the committed one: `stepTxn` of the state the
    transaction started from, with all the events sent in it -/
theorem closeTxn_first_state (st : St) :
    (runOne (resolveLazies st) (resolveLazies st).sends []).1.sp = stepTxn st.sp st.sends := rfl

theorem closeTxn_first_state' (st : St) :
    ({ (runOne (resolveLazies st) (resolveLazies st).sends []).1 with sends := [], posts := [] } : St).sp
      = stepTxn st.sp st.sends := rfl

/-- the queue is the user's posts (in order) followed by the deferred events of the transaction -/
theorem closeTxn_queue (st : St) :
    (resolveLazies st).posts ++
        (runOne (resolveLazies st) (resolveLazies st).sends []).2.2.map (fun e => Item.ev e.1 e.2)
      = st.posts ++ (deferred st.sp (fireTable st.sp st.sends)).map fun e => Item.ev e.1 e.2 := rfl

/-! ### 6. depth first -/

/-- the events a posted / deferred transaction defers (`more`) run before the rest of the queue: its
    own `end_of_transaction` drains them -/
theorem depth_first (fuel : Nat) (st : St) (i : Nat) (v : Int) (rest : List Item)
    (acc : List (String × Int)) :
    runItems (fuel + 1) st (.ev i v :: rest) acc
      = (let st1 := (runOne st [(i, v)] []).1
         let more := (deferred st.sp (fireTable st.sp [(i, v)])).map fun e => Item.ev e.1 e.2
         let acc1 := acc ++ (runOne st [(i, v)] []).2.1
         runItems fuel st1 (more ++ rest) acc1) := rfl

/-! ### 7. a concrete program -/

/-- `0 = sink` with coalescer `f2 1`, `1 = 0.hold(7)` -/
def demoPost : Spec := { defs := #[.sink (some 1), .hold 0 7], created := #[0, 0] }

/-- a transaction that sent 5 to the sink and posted a closure sending 9 -/
def demoPostSt : St := { sp := demoPost, sends := [(0, 5)], posts := [.ev 0 9] }

set_option maxRecDepth 8192 in
/-- the sends of the transaction give the hold 5; the posted send then arrives alone, in a transaction
    of its own, and the hold ends with 9 — not with the coalesced `f2 1 5 9 = 164`, which is what a
    send folded into the outer transaction would have produced -/
example :
    (runOne demoPostSt demoPostSt.sends []).1.sp.val 1 = some 5 ∧
    (runOne demoPostSt demoPostSt.sends []).2.2 = [] ∧
    (runItems 400 { (runOne demoPostSt demoPostSt.sends []).1 with sends := [], posts := [] }
        (demoPostSt.posts ++ (runOne demoPostSt demoPostSt.sends []).2.2.map fun e => Item.ev e.1 e.2)
        []).1.sp.val 1 = some 9 ∧
    (runItems 400 { (runOne demoPostSt demoPostSt.sends []).1 with sends := [], posts := [] }
        (demoPostSt.posts ++ (runOne demoPostSt demoPostSt.sends []).2.2.map fun e => Item.ev e.1 e.2)
        []).1.sp.txn = 3 ∧
    (runItems 400 { (runOne demoPostSt demoPostSt.sends []).1 with sends := [], posts := [] }
        (demoPostSt.posts ++ (runOne demoPostSt demoPostSt.sends []).2.2.map fun e => Item.ev e.1 e.2)
        []).2.2 = false ∧
    f2 1 5 9 = 164 ∧
    (stepTxn demoPost (addSend (demoPost.coalescer 0) [(0, 5)] 0 9)).val 1 = some 164 := by decide

set_option maxRecDepth 8192 in
/-- the same through `closeTxn` itself (state component only) -/
example : (closeTxn demoPostSt).1.sp.val 1 = some 9 := by decide

end Spec
end SodiumVerif
