/-
  C10c — listener lifecycle over every continuation of a script: no statement re-activates a listener,
  listeners are never removed, so after `unlisten` the listener is never called again whatever follows.
-/
import SodiumVerif.Props.C10

namespace SodiumVerif
namespace Spec

/-- `b` extends `a`: every index of `a` is still there and an inactive listener stays inactive -/
def Quiet (a b : Array Lis) : Prop :=
  ∀ (id : Nat) (l : Lis), a[id]? = some l → ∃ l' : Lis, b[id]? = some l' ∧ (l.active = false → l'.active = false)

theorem Quiet.refl (a : Array Lis) : Quiet a a := fun _ l h => ⟨l, h, id⟩

theorem Quiet.trans {a b c : Array Lis} (h1 : Quiet a b) (h2 : Quiet b c) : Quiet a c := by
  intro id l h
  obtain ⟨l', hb, hl'⟩ := h1 id l h
  obtain ⟨l'', hc, hl''⟩ := h2 id l' hb
  exact ⟨l'', hc, fun x => hl'' (hl' x)⟩

theorem Quiet.of_eq {a b : Array Lis} (h : b = a) : Quiet a b := h ▸ Quiet.refl a

theorem quiet_push (a : Array Lis) (x : Lis) : Quiet a (a.push x) := by
  unfold Quiet
  intro id l h
  have hlt : id < a.size := by
    rcases Array.getElem?_eq_some_iff.mp h with ⟨hlt, _⟩; exact hlt
  refine ⟨l, ?_, fun x => x⟩
  rw [Array.getElem?_push]
  have : id ≠ a.size := Nat.ne_of_lt hlt
  simp [this, h]

theorem quiet_modify (a : Array Lis) (v : Nat) (f : Lis → Lis)
    (hf : ∀ l, l.active = false → (f l).active = false) : Quiet a (a.modify v f) := by
  unfold Quiet
  intro id l h
  rw [Array.getElem?_modify]
  by_cases hv : v = id
  · subst hv; simp [h]; exact hf l
  · simp [hv, h]

theorem quiet_map (a : Array Lis) (f : Lis → Lis)
    (hf : ∀ l, l.active = false → (f l).active = false) : Quiet a (a.map f) := by
  unfold Quiet
  intro id l h
  simp [h]; exact hf l

theorem quiet_modify_off (a : Array Lis) (v : Nat) :
    Quiet a (a.modify v fun x => { x with active := false }) :=
  quiet_modify a v _ (fun _ _ => rfl)

theorem quiet_modify_dying (a : Array Lis) (v : Nat) :
    Quiet a (a.modify v fun l => if l.weak then { l with dying := true } else l) :=
  quiet_modify a v _ (fun l h => by by_cases hw : l.weak <;> simp [hw, h])

theorem quiet_map_dying (a : Array Lis) :
    Quiet a (a.map fun l => if l.dying then { l with active := false } else l) :=
  quiet_map a _ (fun l h => by by_cases hw : l.dying <;> simp [hw, h])

theorem quiet_map_off (a : Array Lis) :
    Quiet a (a.map fun l => { l with active := false }) :=
  quiet_map a _ (fun _ _ => rfl)

/-! ### helpers of `stmt` -/

@[simp] theorem bind_lis (st : St) (n : String) (h : Handle) : (st.bind n h).lis = st.lis := rfl
@[simp] theorem addDef_lis (st : St) (n : String) (d : Def) (k : Kind) : (st.addDef n d k).lis = st.lis := rfl
@[simp] theorem resolveLazies_lis (st : St) : (resolveLazies st).lis = st.lis := rfl
@[simp] theorem lateEvents_lis (st : St) (l : String) (t s : Nat) : (lateEvents st l t s).1.lis = st.lis := rfl

theorem quiet_killFold (st : St) (tbl : Table) (xs : List Lis) (lis0 : Array Lis) :
    Quiet lis0 (xs.foldl (fun lis l =>
      match l.kills with
      | some v => if (lisOut st tbl l).isSome then lis.modify v fun x => { x with active := false } else lis
      | none => lis) lis0) := by
  induction xs generalizing lis0 with
  | nil => exact Quiet.refl _
  | cons x xs ih =>
    simp only [List.foldl_cons]
    refine Quiet.trans ?_ (ih _)
    split
    · split
      · exact quiet_modify_off _ _
      · exact Quiet.refl _
    · exact Quiet.refl _

theorem quiet_killVictims (st : St) (tbl : Table) : Quiet st.lis (killVictims st tbl) :=
  quiet_killFold st tbl _ _

theorem runOne_lis (st : St) (ev : Events) (posts : List (String × Nat)) :
    (runOne st ev posts).1.lis = killVictims st (fireTable st.sp ev) := rfl

theorem quiet_runOne (st : St) (ev : Events) (posts : List (String × Nat)) :
    Quiet st.lis (runOne st ev posts).1.lis := by
  rw [runOne_lis]; exact quiet_killVictims _ _

theorem quiet_runItems : ∀ (fuel : Nat) (st : St) (items : List Item) (acc : List (String × Int)),
    Quiet st.lis (runItems fuel st items acc).1.lis
  | 0, st, _, _ => by simp only [runItems]; exact Quiet.refl _
  | _ + 1, st, [], _ => by simp only [runItems]; exact Quiet.refl _
  | fuel + 1, st, .samp p c :: rest, acc => by
    simp only [runItems]; exact quiet_runItems fuel st rest _
  | fuel + 1, st, .ev i v :: rest, acc => by
    simp only [runItems]
    exact Quiet.trans (quiet_runOne st [(i, v)] []) (quiet_runItems fuel _ _ _)

theorem quiet_closeTxn (st : St) : Quiet st.lis (closeTxn st).1.lis := by
  let st0 := resolveLazies st
  let r1 := runOne st0 st0.sends []
  let st1 : St := { r1.1 with sends := [], posts := [] }
  let r2 := runItems 400 st1 (st0.posts ++ r1.2.2.map fun e => Item.ev e.1 e.2) r1.2.1
  have : (closeTxn st).1.lis = r2.1.lis.map fun l => if l.dying then { l with active := false } else l := rfl
  rw [this]
  refine Quiet.trans ?_ (quiet_map_dying _)
  refine Quiet.trans ?_ (quiet_runItems 400 st1 _ _)
  exact (quiet_runOne st0 st0.sends [] : Quiet st0.lis r1.1.lis)

theorem quiet_inTxn (st : St) (body : St → St) (h : Quiet st.lis (body st).lis) :
    Quiet st.lis (st.inTxn body).1.lis := by
  unfold St.inTxn
  split
  · exact h
  · exact Quiet.trans h (quiet_closeTxn _)

theorem quiet_defStmt (st : St) (x : String) (d : Option Def) (k : Kind) :
    Quiet st.lis (defStmt st x d k).1.lis := by
  unfold defStmt
  split
  · exact Quiet.refl _
  · split
    · exact Quiet.refl _
    · exact quiet_inTxn _ _ (Quiet.of_eq rfl)

theorem quiet_unlistenStmt (st : St) (l : String) : Quiet st.lis (unlistenStmt st l).1.lis := by
  unfold unlistenStmt
  split
  · exact quiet_modify_off _ _
  · exact Quiet.refl _

theorem quiet_sloopCloseStmt (st : St) (l s : String) : Quiet st.lis (sloopCloseStmt st l s).1.lis := by
  unfold sloopCloseStmt
  split
  · split <;> exact Quiet.refl _
  · exact Quiet.refl _

theorem quiet_cloopCloseStmt (st : St) (l s : String) : Quiet st.lis (cloopCloseStmt st l s).1.lis := by
  unfold cloopCloseStmt
  split
  · split <;> exact Quiet.refl _
  · exact Quiet.refl _

theorem quiet_sampleStmt (st : St) (c : String) : Quiet st.lis (sampleStmt st c).1.lis := by
  unfold sampleStmt
  split
  · split <;> exact Quiet.refl _
  · exact Quiet.refl _

theorem quiet_forceStmt (st : St) (c : String) : Quiet st.lis (forceStmt st c).1.lis := by
  unfold forceStmt
  split
  · split <;> exact Quiet.refl _
  · exact Quiet.refl _

theorem quiet_lazyFoldStmt (st : St) (x s z op : String) (b : Bool) :
    Quiet st.lis (lazyFoldStmt st x s z op b).1.lis := by
  unfold lazyFoldStmt
  split
  · exact Quiet.refl _
  · split
    · split
      · split <;> exact quiet_defStmt _ _ _ _
      · exact Quiet.refl _
    · exact Quiet.refl _

theorem quiet_switchLateStmt (st : St) (x s base op : String) :
    Quiet st.lis (switchLateStmt st x s base op).1.lis := by
  unfold switchLateStmt
  split
  · exact Quiet.refl _
  · split
    · exact quiet_inTxn _ _ (Quiet.of_eq rfl)
    · exact Quiet.refl _

theorem quiet_switchLateCStmt (st : St) (x s base op : String) :
    Quiet st.lis (switchLateCStmt st x s base op).1.lis := by
  unfold switchLateCStmt
  split
  · exact Quiet.refl _
  · split
    · exact quiet_inTxn _ _ (Quiet.of_eq rfl)
    · exact Quiet.refl _

theorem quiet_lateListenStmt (st : St) (l s base op : String) :
    Quiet st.lis (lateListenStmt st l s base op).1.lis := by
  unfold lateListenStmt
  split
  · exact Quiet.refl _
  · split
    · exact quiet_inTxn _ _ (quiet_push _ _)
    · exact Quiet.refl _

theorem quiet_handlerListenStmt (st : St) (l trig s : String) :
    Quiet st.lis (handlerListenStmt st l trig s).1.lis := by
  unfold handlerListenStmt
  split
  · exact Quiet.refl _
  · split
    · exact quiet_inTxn _ _ (quiet_push _ _)
    · exact Quiet.refl _

theorem quiet_lateHoldStmt (st : St) (l trig s init : String) :
    Quiet st.lis (lateHoldStmt st l trig s init).1.lis := by
  unfold lateHoldStmt
  split
  · exact Quiet.refl _
  · split
    · exact quiet_inTxn _ _ (quiet_push _ _)
    · exact Quiet.refl _

theorem quiet_lateLoopStmt (st : St) (l trig s k : String) :
    Quiet st.lis (lateLoopStmt st l trig s k).1.lis := by
  unfold lateLoopStmt
  split
  · exact Quiet.refl _
  · split
    · exact quiet_inTxn _ _ (quiet_push _ _)
    · exact Quiet.refl _

theorem quiet_routeLateStmt (st : St) (l r k0 k : String) :
    Quiet st.lis (routeLateStmt st l r k0 k).1.lis := by
  unfold routeLateStmt
  split
  · exact Quiet.refl _
  · split
    · exact quiet_inTxn _ _ (quiet_push _ _)
    · exact Quiet.refl _

theorem quiet_closeTxn' (st st' : St) (h : st'.lis = st.lis) : Quiet st.lis (closeTxn st').1.lis := by
  rw [← h]; exact quiet_closeTxn st'

/-! ### the body of `stmt` for single statement kinds (`unfold stmt; rfl` on the concrete words) -/

theorem stmt_drop (st : St) (x : String) : stmt st ["drop", x] =
    (match st.find x with
    | none | some .dropped | some (.txn _) | some .post => (st, "skip")
    | some (.listener id) =>
      let st := { st with lis := st.lis.modify id fun l => if l.weak then { l with dying := true } else l }
      (st.bind x .dropped, "ok")
    | some _ => (st.bind x .dropped, "ok")) := by unfold stmt; rfl

theorem quiet_stmt_drop (st : St) (x : String) : Quiet st.lis (stmt st ["drop", x]).1.lis := by
  rw [stmt_drop]
  split <;> first | exact Quiet.refl _ | exact quiet_modify_dying _ _

theorem stmt_send (st : St) (l x : String) : stmt st ["send", l, x] =
    (match num x, st.find l with
      | some v, some (.ent i k) =>
        if k == .ss || k == .cs then
          st.inTxn fun st =>
            { st with sends := addSend (st.sp.coalescer i) st.sends i v }
        else (st, "skip")
      | _, _ => (st, "skip")) := by unfold stmt; rfl

theorem quiet_stmt_send (st : St) (l x : String) : Quiet st.lis (stmt st ["send", l, x]).1.lis := by
  rw [stmt_send]
  split
  · split
    · exact quiet_inTxn _ _ (Quiet.of_eq rfl)
    · exact Quiet.refl _
  · exact Quiet.refl _

theorem stmt_listen (st : St) (l x : String) : stmt st ["listen", l, x] =
    (if !st.fresh l then (st, "skip") else
      let tgt : Option (Nat × Bool) := (st.stream x).map (·, false) |>.orElse fun _ => (st.cell x).map (·, true)
      match tgt with
      | none => (st, "skip")
      | some (t, isC) =>
        st.inTxn fun st =>
          let id := st.lis.size
          let st := { st with lis := st.lis.push { name := l, target := t, isCell := isC, regTxn := st.sp.txn, weak := "listen" == "listenweak" } }
          st.bind l (.listener id)) := by unfold stmt; rfl

theorem quiet_stmt_listen (st : St) (l x : String) : Quiet st.lis (stmt st ["listen", l, x]).1.lis := by
  rw [stmt_listen]
  split
  · exact Quiet.refl _
  · dsimp only
    split
    · exact Quiet.refl _
    · exact quiet_inTxn _ _ (quiet_push _ _)

theorem stmt_listenweak (st : St) (l x : String) : stmt st ["listenweak", l, x] =
    (if !st.fresh l then (st, "skip") else
      let tgt : Option (Nat × Bool) := (st.stream x).map (·, false) |>.orElse fun _ => (st.cell x).map (·, true)
      match tgt with
      | none => (st, "skip")
      | some (t, isC) =>
        st.inTxn fun st =>
          let id := st.lis.size
          let st := { st with lis := st.lis.push { name := l, target := t, isCell := isC, regTxn := st.sp.txn, weak := "listenweak" == "listenweak" } }
          st.bind l (.listener id)) := by unfold stmt; rfl

theorem quiet_stmt_listenweak (st : St) (l x : String) : Quiet st.lis (stmt st ["listenweak", l, x]).1.lis := by
  rw [stmt_listenweak]
  split
  · exact Quiet.refl _
  · dsimp only
    split
    · exact Quiet.refl _
    · exact quiet_inTxn _ _ (quiet_push _ _)

theorem stmt_clone (st : St) (l x : String) : stmt st ["clone", l, x] =
    (if !st.fresh l then (st, "skip") else
      match st.find x with
      | some (.ent i .sl) => (st.bind l (.ent i .s), "ok")
      | some (.ent i .cl) => (st.bind l (.ent i .c), "ok")
      | some (.ent i k) => (st.bind l (.ent i k), "ok")
      | _ => (st, "skip")) := by unfold stmt; rfl

theorem quiet_stmt_clone (st : St) (l x : String) : Quiet st.lis (stmt st ["clone", l, x]).1.lis := by
  rw [stmt_clone]
  split
  · exact Quiet.refl _
  · split <;> exact Quiet.refl _

theorem stmt_listenkill (st : St) (l x victim : String) : stmt st ["listenkill", l, x, victim] =
    (if !st.fresh l then (st, "skip") else
    (match st.stream x, st.find victim with
     | some t, some (.listener v) =>
       st.inTxn fun st =>
         let id := st.lis.size
         let st := { st with lis := st.lis.push { name := l, target := t, isCell := false, regTxn := st.sp.txn, weak := false, kills := some v } }
         st.bind l (.listener id)
     | _, _ => (st, "skip"))) := by unfold stmt; rfl

theorem quiet_stmt_listenkill (st : St) (l x victim : String) :
    Quiet st.lis (stmt st ["listenkill", l, x, victim]).1.lis := by
  rw [stmt_listenkill]
  split
  · exact Quiet.refl _
  · split
    · exact quiet_inTxn _ _ (quiet_push _ _)
    · exact Quiet.refl _

theorem stmt_topen (st : St) (t : String) : stmt st ["topen", t] =
    (if !st.fresh t then (st, "skip") else
    (({ st with depth := st.depth + 1, txOpen := (t, true) :: st.txOpen }).bind t (.txn true), "ok")) := by
  unfold stmt; rfl

theorem quiet_stmt_topen (st : St) (t : String) : Quiet st.lis (stmt st ["topen", t]).1.lis := by
  rw [stmt_topen]
  split <;> exact Quiet.refl _

theorem stmt_tclose (st : St) (t : String) : stmt st ["tclose", t] =
    (match st.find t with
    | some (.txn true) =>
      if (st.txOpen.find? (·.1 == t)).map (·.2) == some true then
        let st := { st with txOpen := st.txOpen.map fun p => if p.1 == t then (t, false) else p, depth := st.depth - 1 }
        if st.depth == 0 then closeTxn st else (st, "ok")
      else (st, "ok")
    | _ => (st, "skip")) := by unfold stmt; rfl

theorem quiet_stmt_tclose (st : St) (t : String) : Quiet st.lis (stmt st ["tclose", t]).1.lis := by
  rw [stmt_tclose]
  split
  · split
    · dsimp only
      split
      · exact quiet_closeTxn' _ _ rfl
      · exact Quiet.refl _
    · exact Quiet.refl _
  · exact Quiet.refl _

theorem stmt_tdrop (st : St) (t : String) : stmt st ["tdrop", t] =
    (match st.find t with
    | some (.txn true) =>
      let wasOpen := (st.txOpen.find? (·.1 == t)).map (·.2) == some true
      let st := st.bind t (.txn false)
      if wasOpen then
        let st := { st with txOpen := st.txOpen.map fun p => if p.1 == t then (t, false) else p, depth := st.depth - 1 }
        if st.depth == 0 then closeTxn st else (st, "ok")
      else (st, "ok")
    | _ => (st, "skip")) := by unfold stmt; rfl

theorem quiet_stmt_tdrop (st : St) (t : String) : Quiet st.lis (stmt st ["tdrop", t]).1.lis := by
  rw [stmt_tdrop]
  split
  · dsimp only
    split
    · split
      · exact quiet_closeTxn' _ _ rfl
      · exact Quiet.refl _
    · exact Quiet.refl _
  · exact Quiet.refl _

theorem stmt_lazy (st : St) (l x : String) : stmt st ["lazy", l, x] =
    (if !st.fresh l then (st, "skip") else
      match st.cell x with
      | some c => (st.bind l (.lazy (st.sp.val c) (some c)), "ok")
      | none => (st, "skip")) := by unfold stmt; rfl

theorem quiet_stmt_lazy (st : St) (l x : String) : Quiet st.lis (stmt st ["lazy", l, x]).1.lis := by
  rw [stmt_lazy]
  split
  · exact Quiet.refl _
  · split <;> exact Quiet.refl _

/-- the statement kinds covered by the lifted theorems (the top-level match of `stmt` is too large for `split`) -/
inductive Covered : List String → Prop
  | unlisten (l : String) : Covered ["unlisten", l]
  | gc : Covered ["gc"]
  | leakcheck : Covered ["leakcheck"]
  | ssink (x : String) : Covered ["ssink", x]
  | csink (x k : String) : Covered ["csink", x, k]
  | map (x s k : String) : Covered ["map", x, s, k]
  | hold (x s k : String) : Covered ["hold", x, s, k]
  | sample (c : String) : Covered ["sample", c]
  | handlerlisten (l t s : String) : Covered ["handlerlisten", l, t, s]
  | drop (x : String) : Covered ["drop", x]
  | send (l x : String) : Covered ["send", l, x]
  | listen (l x : String) : Covered ["listen", l, x]
  | listenweak (l x : String) : Covered ["listenweak", l, x]
  | clone (l x : String) : Covered ["clone", l, x]
  | listenkill (l x v : String) : Covered ["listenkill", l, x, v]
  | topen (t : String) : Covered ["topen", t]
  | tclose (t : String) : Covered ["tclose", t]
  | tdrop (t : String) : Covered ["tdrop", t]
  | force (z : String) : Covered ["force", z]
  | lazy (l x : String) : Covered ["lazy", l, x]
  | merge (x a b op : String) : Covered ["merge", x, a, b, op]
  | snapshot (x s c op : String) : Covered ["snapshot", x, s, c, op]
  | switchs (x sel : String) (cands : List String) : Covered ("switchs" :: x :: sel :: cands)
  | switchc (x sel : String) (cands : List String) : Covered ("switchc" :: x :: sel :: cands)

set_option maxHeartbeats 4000000 in
/-- every covered statement only extends the listener array and never re-activates a listener -/
theorem quiet_stmt (st : St) (ws : List String) (h : Covered ws) : Quiet st.lis (stmt st ws).1.lis := by
  cases h
  case unlisten l => unfold stmt; exact quiet_unlistenStmt _ _
  case gc => unfold stmt; exact quiet_map_dying _
  case leakcheck => unfold stmt; exact quiet_map_off _
  case ssink x => unfold stmt; exact quiet_defStmt _ _ _ _
  case csink x k => unfold stmt; exact quiet_defStmt _ _ _ _
  case map x s k => unfold stmt; exact quiet_defStmt _ _ _ _
  case hold x s k => unfold stmt; exact quiet_defStmt _ _ _ _
  case sample c => unfold stmt; exact quiet_sampleStmt _ _
  case handlerlisten l t s => unfold stmt; exact quiet_handlerListenStmt _ _ _ _
  case drop x => exact quiet_stmt_drop _ _
  case send l x => exact quiet_stmt_send _ _ _
  case listen l x => exact quiet_stmt_listen _ _ _
  case listenweak l x => exact quiet_stmt_listenweak _ _ _
  case clone l x => exact quiet_stmt_clone _ _ _
  case listenkill l x v => exact quiet_stmt_listenkill _ _ _ _
  case topen t => exact quiet_stmt_topen _ _
  case tclose t => exact quiet_stmt_tclose _ _
  case tdrop t => exact quiet_stmt_tdrop _ _
  case force z => unfold stmt; exact quiet_forceStmt _ _
  case lazy l x => exact quiet_stmt_lazy _ _ _
  case merge x a b op => unfold stmt; exact quiet_defStmt _ _ _ _
  case snapshot x s c op => unfold stmt; exact quiet_defStmt _ _ _ _
  case switchs x sel cands => unfold stmt; exact quiet_defStmt _ _ _ _
  case switchc x sel cands => unfold stmt; exact quiet_defStmt _ _ _ _

/-- one line of a script: a covered statement, `begin`, or `end` (inner, or outermost: the transaction closes) -/
inductive Step : St → St → Prop
  | stmt (st : St) (ws : List String) (h : Covered ws) : Step st (stmt st ws).1
  | begin (st : St) : Step st { st with depth := st.depth + 1 }
  | endInner (st : St) : Step st { st with depth := st.depth - 1 }
  | endClose (st : St) : Step st (closeTxn { st with depth := st.depth - 1 }).1

inductive Steps : St → St → Prop
  | nil (st : St) : Steps st st
  | cons {a b c : St} : Step a b → Steps b c → Steps a c

theorem quiet_step {a b : St} (h : Step a b) : Quiet a.lis b.lis := by
  cases h with
  | stmt ws h => exact quiet_stmt _ _ h
  | begin => exact Quiet.refl _
  | endInner => exact Quiet.refl _
  | endClose => exact quiet_closeTxn' _ _ rfl

theorem quiet_steps {a b : St} (h : Steps a b) : Quiet a.lis b.lis := by
  induction h with
  | nil => exact Quiet.refl _
  | cons h _ ih => exact Quiet.trans (quiet_step h) ih

/-- no line ever re-activates a listener -/
theorem inactive_stays_inactive {st st' : St} (h : Step st st') (id : Nat)
    (hi : st.lis[id]?.map (·.active) = some false) : st'.lis[id]?.map (·.active) = some false := by
  cases hl : st.lis[id]? with
  | none => simp [hl] at hi
  | some l =>
    simp [hl] at hi
    obtain ⟨l', h1, h2⟩ := quiet_step h id l hl
    simp [h1, h2 hi]

theorem inactive_forever {st st' : St} (h : Steps st st') (id : Nat)
    (hi : st.lis[id]?.map (·.active) = some false) : st'.lis[id]?.map (·.active) = some false := by
  induction h with
  | nil => exact hi
  | cons h _ ih => exact ih (inactive_stays_inactive h id hi)

/-- after `unlisten` the listener is never called again, whatever lines follow, whatever fires -/
theorem unlisten_never_called_again (st st' : St) (name : String) (id : Nat)
    (h : st.find name = some (.listener id)) (hid : id < st.lis.size)
    (hs : Steps (unlistenStmt st name).1 st') (tbl : Table) :
    ∃ l, st'.lis[id]? = some l ∧ lisOut st' tbl l = none := by
  have h0 := (unlisten_deactivates st name id h hid).1
  have h1 := inactive_forever hs id h0
  cases hl : st'.lis[id]? with
  | none => simp [hl] at h1
  | some l =>
    simp [hl] at h1
    exact ⟨l, rfl, unlisten_stops st' tbl l h1⟩

theorem size_monotone {st st' : St} (h : Steps st st') : st.lis.size ≤ st'.lis.size := by
  rcases Nat.lt_or_ge st'.lis.size st.lis.size with hlt | hge
  · have hpos : st.lis.size - 1 < st.lis.size := by omega
    obtain ⟨l', h1, _⟩ := quiet_steps h (st.lis.size - 1) _ (Array.getElem?_eq_getElem hpos)
    have := (Array.getElem?_eq_some_iff.mp h1).1
    omega
  · exact hge

end Spec
end SodiumVerif
