/-
  C10c — listener lifecycle over every continuation of a script: no statement re-activates a listener,
  listeners are never removed, so after `unlisten` the listener is never called again whatever follows.
-/
import SodiumVerif.Props.C10

namespace SodiumVerif
namespace Spec

/-- `b` extends `a`: every index of `a` is still there and an inactive listener stays inactive -/
def Quiet (a b : Array Lis) : Prop :=
  ∀ (id : Nat) (l : Lis), a[id]? = some l → ∃ l' : Lis, b[id]? = some l' ∧ (l.active = false → l'.active = false)

theorem Quiet.refl (a : Array Lis) : Quiet a a := fun _ l h => ⟨l, h, id⟩

theorem Quiet.trans {a b c : Array Lis} (h1 : Quiet a b) (h2 : Quiet b c) : Quiet a c := by
  intro id l h
  obtain ⟨l', hb, hl'⟩ := h1 id l h
  obtain ⟨l'', hc, hl''⟩ := h2 id l' hb
  exact ⟨l'', hc, fun x => hl'' (hl' x)⟩

theorem Quiet.of_eq {a b : Array Lis} (h : b = a) : Quiet a b := h ▸ Quiet.refl a

theorem quiet_push (a : Array Lis) (x : Lis) : Quiet a (a.push x) := by
  unfold Quiet
  intro id l h
  have hlt : id < a.size := by
    rcases Array.getElem?_eq_some_iff.mp h with ⟨hlt, _⟩; exact hlt
  refine ⟨l, ?_, fun x => x⟩
  rw [Array.getElem?_push]
  have : id ≠ a.size := Nat.ne_of_lt hlt
  simp [this, h]

theorem quiet_modify (a : Array Lis) (v : Nat) (f : Lis → Lis)
    (hf : ∀ l, l.active = false → (f l).active = false) : Quiet a (a.modify v f) := by
  unfold Quiet
  intro id l h
  rw [Array.getElem?_modify]
  by_cases hv : v = id
  · subst hv; simp [h]; exact hf l
  · simp [hv, h]

theorem quiet_map (a : Array Lis) (f : Lis → Lis)
    (hf : ∀ l, l.active = false → (f l).active = false) : Quiet a (a.map f) := by
  unfold Quiet
  intro id l h
  simp [h]; exact hf l

theorem quiet_modify_off (a : Array Lis) (v : Nat) :
    Quiet a (a.modify v fun x => { x with active := false }) :=
  quiet_modify a v _ (fun _ _ => rfl)

theorem quiet_modify_dying (a : Array Lis) (v : Nat) :
    Quiet a (a.modify v fun l => if l.weak then { l with dying := true } else l) :=
  quiet_modify a v _ (fun l h => by by_cases hw : l.weak <;> simp [hw, h])

theorem quiet_map_dying (a : Array Lis) :
    Quiet a (a.map fun l => if l.dying then { l with active := false } else l) :=
  quiet_map a _ (fun l h => by by_cases hw : l.dying <;> simp [hw, h])

theorem quiet_map_off (a : Array Lis) :
    Quiet a (a.map fun l => { l with active := false }) :=
  quiet_map a _ (fun _ _ => rfl)

/-! ### helpers of `stmt` -/

@[simp] theorem bind_lis (st : St) (n : String) (h : Handle) : (st.bind n h).lis = st.lis := rfl
@[simp] theorem addDef_lis (st : St) (n : String) (d : Def) (k : Kind) : (st.addDef n d k).lis = st.lis := rfl
@[simp] theorem resolveLazies_lis (st : St) : (resolveLazies st).lis = st.lis := rfl
@[simp] theorem lateEvents_lis (st : St) (l : String) (t s : Nat) : (lateEvents st l t s).1.lis = st.lis := rfl

theorem quiet_killFold (st : St) (tbl : Table) (xs : List Lis) (lis0 : Array Lis) :
    Quiet lis0 (xs.foldl (fun lis l =>
      match l.kills with
      | some v => if (lisOut st tbl l).isSome then lis.modify v fun x => { x with active := false } else lis
      | none => lis) lis0) := by
  induction xs generalizing lis0 with
  | nil => exact Quiet.refl _
  | cons x xs ih =>
    simp only [List.foldl_cons]
    refine Quiet.trans ?_ (ih _)
    split
    · split
      · exact quiet_modify_off _ _
      · exact Quiet.refl _
    · exact Quiet.refl _

theorem quiet_killVictims (st : St) (tbl : Table) : Quiet st.lis (killVictims st tbl) :=
  quiet_killFold st tbl _ _

theorem runOne_lis (st : St) (ev : Events) (posts : List (String × Nat)) :
    (runOne st ev posts).1.lis = killVictims st (fireTable st.sp ev) := rfl

theorem quiet_runOne (st : St) (ev : Events) (posts : List (String × Nat)) :
    Quiet st.lis (runOne st ev posts).1.lis := by
  rw [runOne_lis]; exact quiet_killVictims _ _

theorem quiet_runItems : ∀ (fuel : Nat) (st : St) (items : List Item) (acc : List (String × Int)),
    Quiet st.lis (runItems fuel st items acc).1.lis
  | 0, st, _, _ => by simp only [runItems]; exact Quiet.refl _
  | _ + 1, st, [], _ => by simp only [runItems]; exact Quiet.refl _
  | fuel + 1, st, .samp p c :: rest, acc => by
    simp only [runItems]; exact quiet_runItems fuel st rest _
  | fuel + 1, st, .ev i v :: rest, acc => by
    simp only [runItems]
    exact Quiet.trans (quiet_runOne st [(i, v)] []) (quiet_runItems fuel _ _ _)

theorem quiet_closeTxn (st : St) : Quiet st.lis (closeTxn st).1.lis := by
  let st0 := resolveLazies st
  let r1 := runOne st0 st0.sends []
  let st1 : St := { r1.1 with sends := [], posts := [] }
  let r2 := runItems 400 st1 (st0.posts ++ r1.2.2.map fun e => Item.ev e.1 e.2) r1.2.1
  have : (closeTxn st).1.lis = r2.1.lis.map fun l => if l.dying then { l with active := false } else l := rfl
  rw [this]
  refine Quiet.trans ?_ (quiet_map_dying _)
  refine Quiet.trans ?_ (quiet_runItems 400 st1 _ _)
  exact (quiet_runOne st0 st0.sends [] : Quiet st0.lis r1.1.lis)

theorem quiet_inTxn (st : St) (body : St → St) (h : Quiet st.lis (body st).lis) :
    Quiet st.lis (st.inTxn body).1.lis := by
  unfold St.inTxn
  split
  · exact h
  · exact Quiet.trans h (quiet_closeTxn _)

theorem quiet_defStmt (st : St) (x : String) (d : Option Def) (k : Kind) :
    Quiet st.lis (defStmt st x d k).1.lis := by
  unfold defStmt
  split
  · exact Quiet.refl _
  · split
    · exact Quiet.refl _
    · exact quiet_inTxn _ _ (Quiet.of_eq rfl)

theorem quiet_unlistenStmt (st : St) (l : String) : Quiet st.lis (unlistenStmt st l).1.lis := by
  unfold unlistenStmt
  split
  · exact quiet_modify_off _ _
  · exact Quiet.refl _

theorem quiet_sloopCloseStmt (st : St) (l s : String) : Quiet st.lis (sloopCloseStmt st l s).1.lis := by
  unfold sloopCloseStmt
  split
  · split <;> exact Quiet.refl _
  · exact Quiet.refl _

theorem quiet_cloopCloseStmt (st : St) (l s : String) : Quiet st.lis (cloopCloseStmt st l s).1.lis := by
  unfold cloopCloseStmt
  split
  · split <;> exact Quiet.refl _
  · exact Quiet.refl _

theorem quiet_sampleStmt (st : St) (c : String) : Quiet st.lis (sampleStmt st c).1.lis := by
  unfold sampleStmt
  split
  · split <;> exact Quiet.refl _
  · exact Quiet.refl _

theorem quiet_forceStmt (st : St) (c : String) : Quiet st.lis (forceStmt st c).1.lis := by
  unfold forceStmt
  split
  · split <;> exact Quiet.refl _
  · exact Quiet.refl _

theorem quiet_lazyFoldStmt (st : St) (x s z op : String) (b : Bool) :
    Quiet st.lis (lazyFoldStmt st x s z op b).1.lis := by
  unfold lazyFoldStmt
  split
  · exact Quiet.refl _
  · split
    · split
      · split <;> exact quiet_defStmt _ _ _ _
      · exact Quiet.refl _
    · exact Quiet.refl _

theorem quiet_switchLateStmt (st : St) (x s base op : String) :
    Quiet st.lis (switchLateStmt st x s base op).1.lis := by
  unfold switchLateStmt
  split
  · exact Quiet.refl _
  · split
    · exact quiet_inTxn _ _ (Quiet.of_eq rfl)
    · exact Quiet.refl _

theorem quiet_switchLateCStmt (st : St) (x s base op : String) :
    Quiet st.lis (switchLateCStmt st x s base op).1.lis := by
  unfold switchLateCStmt
  split
  · exact Quiet.refl _
  · split
    · exact quiet_inTxn _ _ (Quiet.of_eq rfl)
    · exact Quiet.refl _

theorem quiet_lateListenStmt (st : St) (l s base op : String) :
    Quiet st.lis (lateListenStmt st l s base op).1.lis := by
  unfold lateListenStmt
  split
  · exact Quiet.refl _
  · split
    · exact quiet_inTxn _ _ (quiet_push _ _)
    · exact Quiet.refl _

theorem quiet_handlerListenStmt (st : St) (l trig s : String) :
    Quiet st.lis (handlerListenStmt st l trig s).1.lis := by
  unfold handlerListenStmt
  split
  · exact Quiet.refl _
  · split
    · exact quiet_inTxn _ _ (quiet_push _ _)
    · exact Quiet.refl _

theorem quiet_lateHoldStmt (st : St) (l trig s init : String) :
    Quiet st.lis (lateHoldStmt st l trig s init).1.lis := by
  unfold lateHoldStmt
  split
  · exact Quiet.refl _
  · split
    · exact quiet_inTxn _ _ (quiet_push _ _)
    · exact Quiet.refl _

theorem quiet_lateLoopStmt (st : St) (l trig s k : String) :
    Quiet st.lis (lateLoopStmt st l trig s k).1.lis := by
  unfold lateLoopStmt
  split
  · exact Quiet.refl _
  · split
    · exact quiet_inTxn _ _ (quiet_push _ _)
    · exact Quiet.refl _

theorem quiet_routeLateStmt (st : St) (l r k0 k : String) :
    Quiet st.lis (routeLateStmt st l r k0 k).1.lis := by
  unfold routeLateStmt
  split
  · exact Quiet.refl _
  · split
    · exact quiet_inTxn _ _ (quiet_push _ _)
    · exact Quiet.refl _

theorem quiet_closeTxn' (st st' : St) (h : st'.lis = st.lis) : Quiet st.lis (closeTxn st').1.lis := by
  rw [← h]; exact quiet_closeTxn st'

/-! ### the body of `stmt` for single statement kinds (`unfold stmt; rfl` on the concrete words) -/

theorem stmt_drop (st : St) (x : String) : stmt st ["drop", x] =
    (match st.find x with
    | none | some .dropped | some (.txn _) | some .post => (st, "skip")
    | some (.listener id) =>
      let st := { st with lis := st.lis.modify id fun l => if l.weak then { l with dying := true } else l }
      (st.bind x .dropped, "ok")
    | some _ => (st.bind x .dropped, "ok")) := by unfold stmt; rfl

theorem quiet_stmt_drop (st : St) (x : String) : Quiet st.lis (stmt st ["drop", x]).1.lis := by
  rw [stmt_drop]
  split <;> first | exact Quiet.refl _ | exact quiet_modify_dying _ _

theorem stmt_send (st : St) (l x : String) : stmt st ["send", l, x] =
    (match num x, st.find l with
      | some v, some (.ent i k) =>
        if k == .ss || k == .cs then
          st.inTxn fun st =>
            { st with sends := addSend (st.sp.coalescer i) st.sends i v }
        else (st, "skip")
      | _, _ => (st, "skip")) := by unfold stmt; rfl

theorem quiet_stmt_send (st : St) (l x : String) : Quiet st.lis (stmt st ["send", l, x]).1.lis := by
  rw [stmt_send]
  split
  · split
    · exact quiet_inTxn _ _ (Quiet.of_eq rfl)
    · exact Quiet.refl _
  · exact Quiet.refl _

theorem stmt_listen (st : St) (l x : String) : stmt st ["listen", l, x] =
    (if !st.fresh l then (st, "skip") else
      let tgt : Option (Nat × Bool) := (st.stream x).map (·, false) |>.orElse fun _ => (st.cell x).map (·, true)
      match tgt with
      | none => (st, "skip")
      | some (t, isC) =>
        st.inTxn fun st =>
          let id := st.lis.size
          let st := { st with lis := st.lis.push { name := l, target := t, isCell := isC, regTxn := st.sp.txn, weak := "listen" == "listenweak" } }
          st.bind l (.listener id)) := by unfold stmt; rfl

theorem quiet_stmt_listen (st : St) (l x : String) : Quiet st.lis (stmt st ["listen", l, x]).1.lis := by
  rw [stmt_listen]
  split
  · exact Quiet.refl _
  · dsimp only
    split
    · exact Quiet.refl _
    · exact quiet_inTxn _ _ (quiet_push _ _)

theorem stmt_listenweak (st : St) (l x : String) : stmt st ["listenweak", l, x] =
    (if !st.fresh l then (st, "skip") else
      let tgt : Option (Nat × Bool) := (st.stream x).map (·, false) |>.orElse fun _ => (st.cell x).map (·, true)
      match tgt with
      | none => (st, "skip")
      | some (t, isC) =>
        st.inTxn fun st =>
          let id := st.lis.size
          let st := { st with lis := st.lis.push { name := l, target := t, isCell := isC, regTxn := st.sp.txn, weak := "listenweak" == "listenweak" } }
          st.bind l (.listener id)) := by unfold stmt; rfl

theorem quiet_stmt_listenweak (st : St) (l x : String) : Quiet st.lis (stmt st ["listenweak", l, x]).1.lis := by
  rw [stmt_listenweak]
  split
  · exact Quiet.refl _
  · dsimp only
    split
    · exact Quiet.refl _
    · exact quiet_inTxn _ _ (quiet_push _ _)

theorem stmt_clone (st : St) (l x : String) : stmt st ["clone", l, x] =
    (if !st.fresh l then (st, "skip") else
      match st.find x with
      | some (.ent i .sl) => (st.bind l (.ent i .s), "ok")
      | some (.ent i .cl) => (st.bind l (.ent i .c), "ok")
      | some (.ent i k) => (st.bind l (.ent i k), "ok")
      | _ => (st, "skip")) := by unfold stmt; rfl

theorem quiet_stmt_clone (st : St) (l x : String) : Quiet st.lis (stmt st ["clone", l, x]).1.lis := by
  rw [stmt_clone]
  split
  · exact Quiet.refl _
  · split <;> exact Quiet.refl _

theorem stmt_listenkill (st : St) (l x victim : String) : stmt st ["listenkill", l, x, victim] =
    (if !st.fresh l then (st, "skip") else
    (match st.stream x, st.find victim with
     | some t, some (.listener v) =>
       st.inTxn fun st =>
         let id := st.lis.size
         let st := { st with lis := st.lis.push { name := l, target := t, isCell := false, regTxn := st.sp.txn, weak := false, kills := some v } }
         st.bind l (.listener id)
     | _, _ => (st, "skip"))) := by unfold stmt; rfl

theorem quiet_stmt_listenkill (st : St) (l x victim : String) :
    Quiet st.lis (stmt st ["listenkill", l, x, victim]).1.lis := by
  rw [stmt_listenkill]
  split
  · exact Quiet.refl _
  · split
    · exact quiet_inTxn _ _ (quiet_push _ _)
    · exact Quiet.refl _

theorem stmt_topen (st : St) (t : String) : stmt st ["topen", t] =
    (if !st.fresh t then (st, "skip") else
    (({ st with depth := st.depth + 1, txOpen := (t, true) :: st.txOpen }).bind t (.txn true), "ok")) := by
  unfold stmt; rfl

theorem quiet_stmt_topen (st : St) (t : String) : Quiet st.lis (stmt st ["topen", t]).1.lis := by
  rw [stmt_topen]
  split <;> exact Quiet.refl _

theorem stmt_tclose (st : St) (t : String) : stmt st ["tclose", t] =
    (match st.find t with
    | some (.txn true) =>
      if (st.txOpen.find? (·.1 == t)).map (·.2) == some true then
        let st := { st with txOpen := st.txOpen.map fun p => if p.1 == t then (t, false) else p, depth := st.depth - 1 }
        if st.depth == 0 then closeTxn st else (st, "ok")
      else (st, "ok")
    | _ => (st, "skip")) := by unfold stmt; rfl

theorem quiet_stmt_tclose (st : St) (t : String) : Quiet st.lis (stmt st ["tclose", t]).1.lis := by
  rw [stmt_tclose]
  split
  · split
    · dsimp only
      split
      · exact quiet_closeTxn' _ _ rfl
      · exact Quiet.refl _
    · exact Quiet.refl _
  · exact Quiet.refl _

theorem stmt_tdrop (st : St) (t : String) : stmt st ["tdrop", t] =
    (match st.find t with
    | some (.txn true) =>
      let wasOpen := (st.txOpen.find? (·.1 == t)).map (·.2) == some true
      let st := st.bind t (.txn false)
      if wasOpen then
        let st := { st with txOpen := st.txOpen.map fun p => if p.1 == t then (t, false) else p, depth := st.depth - 1 }
        if st.depth == 0 then closeTxn st else (st, "ok")
      else (st, "ok")
    | _ => (st, "skip")) := by unfold stmt; rfl

theorem quiet_stmt_tdrop (st : St) (t : String) : Quiet st.lis (stmt st ["tdrop", t]).1.lis := by
  rw [stmt_tdrop]
  split
  · dsimp only
    split
    · split
      · exact quiet_closeTxn' _ _ rfl
      · exact Quiet.refl _
    · exact Quiet.refl _
  · exact Quiet.refl _

theorem stmt_lazy (st : St) (l x : String) : stmt st ["lazy", l, x] =
    (if !st.fresh l then (st, "skip") else
      match st.cell x with
      | some c => (st.bind l (.lazy (st.sp.val c) (some c)), "ok")
      | none => (st, "skip")) := by unfold stmt; rfl

theorem quiet_stmt_lazy (st : St) (l x : String) : Quiet st.lis (stmt st ["lazy", l, x]).1.lis := by
  rw [stmt_lazy]
  split
  · exact Quiet.refl _
  · split <;> exact Quiet.refl _

syntax "qt" : tactic
macro_rules
  | `(tactic| qt) => `(tactic| repeat' (first
      | exact quiet_defStmt _ _ _ _
      | exact quiet_inTxn _ _ (quiet_push _ _)
      | exact quiet_inTxn _ _ (Quiet.of_eq rfl)
      | exact quiet_closeTxn' _ _ rfl
      | exact Quiet.refl _
      | split
      | dsimp only))

theorem stmt_holdlazy (st : St) (x s z : String) : stmt st ["holdlazy", x, s, z] =
    (if !st.fresh x then (st, "skip") else
    match st.stream s, st.find z with
    | some s, some (.lazy snap cell) =>
      let v := snap.orElse fun _ => cell.bind st.sp.val
      (match v, cell with
       | some v, _ => defStmt st x (some (.hold s v)) .c
       | none, some c => defStmt st x (some (.holdz s c)) .c
       | none, none => ({ st with dead := true }, "PANIC sample-before-loop"))
    | _, _ => (st, "skip")) := by unfold stmt; rfl

theorem quiet_stmt_holdlazy (st : St) (x s z : String) : Quiet st.lis (stmt st ["holdlazy", x, s, z]).1.lis := by
  rw [stmt_holdlazy]; qt

theorem stmt_lift2d (st : St) (x a b c op : String) : stmt st ["lift2d", x, a, b, c, op] =
    (match st.cell c with
     | some _ => defStmt st x (do pure (.lift2 (← st.cell a) (← st.cell b) (← num op))) .c
     | none => (st, "skip")) := by unfold stmt; rfl

theorem quiet_stmt_lift2d (st : St) (x a b c op : String) : Quiet st.lis (stmt st ["lift2d", x, a, b, c, op]).1.lis := by
  rw [stmt_lift2d]; qt

theorem stmt_snapmapc (st : St) (x s c k : String) : stmt st ["snapmapc", x, s, c, k] =
    (if !st.fresh x then (st, "skip") else
    (match st.stream s, st.cell c, num k with
     | some s, some c, some k =>
       st.inTxn fun st =>
         let i := st.sp.defs.size
         let st := st.addDef (x ++ "#1") (.snapshot1 s c) .s
         st.addDef x (.map i k) .s
     | _, _, _ => (st, "skip"))) := by unfold stmt; rfl

theorem quiet_stmt_snapmapc (st : St) (x s c k : String) : Quiet st.lis (stmt st ["snapmapc", x, s, c, k]).1.lis := by
  rw [stmt_snapmapc]; qt

theorem stmt_postsend (st : St) (p s v : String) : stmt st ["postsend", p, s, v] =
    (if !st.fresh p then (st, "skip") else
    (match num v, st.find s with
     | some v, some (.ent i k) =>
       if k == .ss || k == .cs then
         let st := st.bind p .post
         if st.depth > 0 then ({ st with posts := st.posts ++ [.ev i v] }, "ok")
         else closeTxn { st with posts := st.posts ++ [.ev i v] }
       else (st, "skip")
     | _, _ => (st, "skip"))) := by unfold stmt; rfl

theorem quiet_stmt_postsend (st : St) (p s v : String) : Quiet st.lis (stmt st ["postsend", p, s, v]).1.lis := by
  rw [stmt_postsend]
  split
  · exact Quiet.refl _
  · split
    · split
      · dsimp only
        split
        · exact Quiet.refl _
        · exact quiet_closeTxn' _ _ rfl
      · exact Quiet.refl _
    · exact Quiet.refl _

theorem stmt_lateloop2 (st : St) (l trig1 trig2 s : String) : stmt st ["lateloop2", l, trig1, trig2, s] =
    (if !st.fresh l then (st, "skip") else
    (match st.stream trig1, st.stream trig2, st.stream s with
     | some t1, some _, some s =>
       st.inTxn fun st =>
         let j := st.sp.defs.size
         let st := st.addDef (l ++ "#n") (.orelse s t1) .s
         let (st, _, e) := lateEvents st l t1 j
         let st := { st with lis := st.lis.push { name := l, target := e, isCell := false, regTxn := st.sp.txn, weak := false } }
         st.bind l .post
     | _, _, _ => (st, "skip"))) := by unfold stmt; rfl

theorem quiet_stmt_lateloop2 (st : St) (l trig1 trig2 s : String) : Quiet st.lis (stmt st ["lateloop2", l, trig1, trig2, s]).1.lis := by
  rw [stmt_lateloop2]; qt

theorem stmt_laterouter (st : St) (l trig s sel k : String) : stmt st ["laterouter", l, trig, s, sel, k] =
    (if !st.fresh l then (st, "skip") else
    (match st.stream trig, st.stream s, num sel, num k with
     | some t, some s, some sel, some k =>
       st.inTxn fun st =>
         let j := st.sp.defs.size
         let st := st.addDef (l ++ "#r") (.route s sel k) .s
         let (st, _, e) := lateEvents st l t j
         let st := { st with lis := st.lis.push { name := l, target := e, isCell := false, regTxn := st.sp.txn, weak := false } }
         st.bind l .post
     | _, _, _, _ => (st, "skip"))) := by unfold stmt; rfl

theorem quiet_stmt_laterouter (st : St) (l trig s sel k : String) : Quiet st.lis (stmt st ["laterouter", l, trig, s, sel, k]).1.lis := by
  rw [stmt_laterouter]; qt

theorem stmt_routehandler (st : St) (l trig r k : String) : stmt st ["routehandler", l, trig, r, k] =
    (if !st.fresh l then (st, "skip") else
    (match st.stream trig, num k, st.find r with
     | some t, some k, some (.router src sel) =>
       st.inTxn fun st =>
         let j := st.sp.defs.size
         let st := st.addDef (l ++ "#r") (.route src sel k) .s
         let (st, _, e) := lateEvents st l t j
         let st := { st with lis := st.lis.push { name := l, target := e, isCell := false, regTxn := st.sp.txn, weak := false } }
         st.bind l .post
     | _, _, _ => (st, "skip"))) := by unfold stmt; rfl

theorem quiet_stmt_routehandler (st : St) (l trig r k : String) : Quiet st.lis (stmt st ["routehandler", l, trig, r, k]).1.lis := by
  rw [stmt_routehandler]; qt

theorem stmt_lateswitchc (st : St) (l trig c : String) : stmt st ["lateswitchc", l, trig, c] =
    (if !st.fresh l then (st, "skip") else
    (match st.stream trig, st.cell c with
     | some t, some c =>
       st.inTxn fun st =>
         let j := st.sp.defs.size
         let st := st.addDef (l ++ "#u") (.updates c) .s
         let (st, _, e) := lateEvents st l t j
         let st := { st with lis := st.lis.push { name := l, target := e, isCell := false, regTxn := st.sp.txn, weak := false } }
         st.bind l .post
     | _, _ => (st, "skip"))) := by unfold stmt; rfl

theorem quiet_stmt_lateswitchc (st : St) (l trig c : String) : Quiet st.lis (stmt st ["lateswitchc", l, trig, c]).1.lis := by
  rw [stmt_lateswitchc]; qt

theorem stmt_leafdrop (st : St) (l trig s kind : String) : stmt st ["leafdrop", l, trig, s, kind] =
    (if !st.fresh l then (st, "skip") else
    (match st.stream trig, st.stream s, num kind with
     | some _, some _, some _ => (st.bind l .post, "ok")
     | _, _, _ => (st, "skip"))) := by unfold stmt; rfl

theorem quiet_stmt_leafdrop (st : St) (l trig s kind : String) : Quiet st.lis (stmt st ["leafdrop", l, trig, s, kind]).1.lis := by
  rw [stmt_leafdrop]; qt

theorem stmt_router (st : St) (r s sel : String) : stmt st ["router", r, s, sel] =
    (if !st.fresh r then (st, "skip") else
    match st.stream s, num sel with
    | some s, some sel => (st.bind r (.router s sel), "ok")
    | _, _ => (st, "skip")) := by unfold stmt; rfl

theorem quiet_stmt_router (st : St) (r s sel : String) : Quiet st.lis (stmt st ["router", r, s, sel]).1.lis := by
  rw [stmt_router]; qt

theorem stmt_route (st : St) (x r k : String) : stmt st ["route", x, r, k] =
    (if !st.fresh x then (st, "skip") else
    match num k, st.find r with
    | some k, some (.router src sel) => (st.addDef x (.route src sel k) .s, "ok")
    | _, _ => (st, "skip")) := by unfold stmt; rfl

theorem quiet_stmt_route (st : St) (x r k : String) : Quiet st.lis (stmt st ["route", x, r, k]).1.lis := by
  rw [stmt_route]; qt

theorem stmt_mklazy (st : St) (l x : String) : stmt st ["mklazy", l, x] =
    (if !st.fresh l then (st, "skip") else
      match num x with
      | some k => (st.bind l (.lazy (some k) none), "ok")
      | none => (st, "skip")) := by unfold stmt; rfl

theorem quiet_stmt_mklazy (st : St) (l x : String) : Quiet st.lis (stmt st ["mklazy", l, x]).1.lis := by
  rw [stmt_mklazy]; qt

theorem stmt_clonelazy (st : St) (l x : String) : stmt st ["clonelazy", l, x] =
    (if !st.fresh l then (st, "skip") else
      match st.find x with
      | some (.lazy a b) => (st.bind l (.lazy a b), "ok")
      | _ => (st, "skip")) := by unfold stmt; rfl

theorem quiet_stmt_clonelazy (st : St) (l x : String) : Quiet st.lis (stmt st ["clonelazy", l, x]).1.lis := by
  rw [stmt_clonelazy]; qt

theorem stmt_post (st : St) (l x : String) : stmt st ["post", l, x] =
    (if !st.fresh l then (st, "skip") else
      match st.cell x with
      | some c =>
        let st := st.bind l .post
        if st.depth > 0 then ({ st with posts := st.posts ++ [.samp l c] }, "ok")
        else (match st.sp.val c with
              | some v => (st, "ok" ++ showCbs [(l, v)])
              | none => ({ st with dead := true }, "PANIC sample-before-loop"))
      | none => (st, "skip")) := by unfold stmt; rfl

theorem quiet_stmt_post (st : St) (l x : String) : Quiet st.lis (stmt st ["post", l, x]).1.lis := by
  rw [stmt_post]
  split
  · exact Quiet.refl _
  · split
    · dsimp only
      split
      · exact Quiet.refl _
      · split <;> exact Quiet.refl _
    · exact Quiet.refl _

theorem stmt_switchnest (st : St) (x c sel : String) (cands : List String) :
    stmt st ("switchnest" :: x :: c :: sel :: cands) =
    (if c == sel then (st, "skip") else
    defStmt st x (do
      let _ ← st.cell c
      let sel ← st.cell sel
      if cands.isEmpty then none else
      let cs ← streams st cands
      pure (.switchs sel cs)) .s) := by unfold stmt; rfl

theorem quiet_stmt_switchnest (st : St) (x c sel : String) (cands : List String) :
    Quiet st.lis (stmt st ("switchnest" :: x :: c :: sel :: cands)).1.lis := by
  rw [stmt_switchnest]
  split
  · exact Quiet.refl _
  · exact quiet_defStmt _ _ _ _

/-- the statement kinds covered by the lifted theorems (the top-level match of `stmt` is too large for `split`) -/
inductive Covered : List String → Prop
  | unlisten (l : String) : Covered ["unlisten", l]
  | gc : Covered ["gc"]
  | leakcheck : Covered ["leakcheck"]
  | ssink (x : String) : Covered ["ssink", x]
  | csink (x k : String) : Covered ["csink", x, k]
  | map (x s k : String) : Covered ["map", x, s, k]
  | hold (x s k : String) : Covered ["hold", x, s, k]
  | sample (c : String) : Covered ["sample", c]
  | handlerlisten (l t s : String) : Covered ["handlerlisten", l, t, s]
  | drop (x : String) : Covered ["drop", x]
  | send (l x : String) : Covered ["send", l, x]
  | listen (l x : String) : Covered ["listen", l, x]
  | listenweak (l x : String) : Covered ["listenweak", l, x]
  | clone (l x : String) : Covered ["clone", l, x]
  | listenkill (l x v : String) : Covered ["listenkill", l, x, v]
  | topen (t : String) : Covered ["topen", t]
  | tclose (t : String) : Covered ["tclose", t]
  | tdrop (t : String) : Covered ["tdrop", t]
  | force (z : String) : Covered ["force", z]
  | lazy (l x : String) : Covered ["lazy", l, x]
  | merge (x a b op : String) : Covered ["merge", x, a, b, op]
  | snapshot (x s c op : String) : Covered ["snapshot", x, s, c, op]
  | switchs (x sel : String) (cands : List String) : Covered ("switchs" :: x :: sel :: cands)
  | switchc (x sel : String) (cands : List String) : Covered ("switchc" :: x :: sel :: cands)
  | switchnest (x c sel : String) (cands : List String) : Covered ("switchnest" :: x :: c :: sel :: cands)
  | ssinkc (x op : String) : Covered ["ssinkc", x, op]
  | const' (x k : String) : Covered ["const", x, k]
  | never' (x : String) : Covered ["never", x]
  | mapto (x s k : String) : Covered ["mapto", x, s, k]
  | filter' (x s k : String) : Covered ["filter", x, s, k]
  | filteropt (x s k : String) : Covered ["filteropt", x, s, k]
  | orelse (x a b : String) : Covered ["orelse", x, a, b]
  | snapshot1 (x s c : String) : Covered ["snapshot1", x, s, c]
  | gate (x s c : String) : Covered ["gate", x, s, c]
  | once' (x s : String) : Covered ["once", x, s]
  | updates (x c : String) : Covered ["updates", x, c]
  | value' (x c : String) : Covered ["value", x, c]
  | mapc (x c k : String) : Covered ["mapc", x, c, k]
  | lift2 (x a b op : String) : Covered ["lift2", x, a, b, op]
  | accum (x s k op : String) : Covered ["accum", x, s, k, op]
  | collect' (x s k op : String) : Covered ["collect", x, s, k, op]
  | defer' (x s : String) : Covered ["defer", x, s]
  | split' (x s n : String) : Covered ["split", x, s, n]
  | switchdyn (x sel s op : String) : Covered ["switchdyn", x, sel, s, op]
  | snaplazy (x s c : String) : Covered ["snaplazy", x, s, c]
  | sloop (x : String) : Covered ["sloop", x]
  | cloop (x : String) : Covered ["cloop", x]
  | snapshotn (x s : String) (cs : List String) : Covered ("snapshotn" :: x :: s :: cs)
  | liftn (x : String) (cs : List String) : Covered ("liftn" :: x :: cs)
  | accumlazy (x s z op : String) : Covered ["accumlazy", x, s, z, op]
  | collectlazy (x s z op : String) : Covered ["collectlazy", x, s, z, op]
  | routelate (l r k0 k : String) : Covered ["routelate", l, r, k0, k]
  | lateswitch (l trig s : String) : Covered ["lateswitch", l, trig, s]
  | latehold (l trig s init : String) : Covered ["latehold", l, trig, s, init]
  | lateloop (l trig s k : String) : Covered ["lateloop", l, trig, s, k]
  | latelisten (l s base op : String) : Covered ["latelisten", l, s, base, op]
  | switchlate (x s base op : String) : Covered ["switchlate", x, s, base, op]
  | switchlatec (x s base op : String) : Covered ["switchlatec", x, s, base, op]
  | switchlatecs (x s base op : String) : Covered ["switchlatecs", x, s, base, op]
  | sloopclose (l s : String) : Covered ["sloopclose", l, s]
  | cloopclose (l c : String) : Covered ["cloopclose", l, c]
  | obs'  : Covered ["obs"]
  | nodes  : Covered ["nodes"]
  | sendsync  : Covered ["sendsync"]
  | memcheck  : Covered ["memcheck"]
  | wfcheck  : Covered ["wfcheck"]
  | holdlazy (x s z : String) : Covered ["holdlazy", x, s, z]
  | lift2d (x a b c op : String) : Covered ["lift2d", x, a, b, c, op]
  | snapmapc (x s c k : String) : Covered ["snapmapc", x, s, c, k]
  | postsend (p s v : String) : Covered ["postsend", p, s, v]
  | lateloop2 (l trig1 trig2 s : String) : Covered ["lateloop2", l, trig1, trig2, s]
  | laterouter (l trig s sel k : String) : Covered ["laterouter", l, trig, s, sel, k]
  | routehandler (l trig r k : String) : Covered ["routehandler", l, trig, r, k]
  | lateswitchc (l trig c : String) : Covered ["lateswitchc", l, trig, c]
  | leafdrop (l trig s kind : String) : Covered ["leafdrop", l, trig, s, kind]
  | router' (r s sel : String) : Covered ["router", r, s, sel]
  | route' (x r k : String) : Covered ["route", x, r, k]
  | mklazy (l x : String) : Covered ["mklazy", l, x]
  | clonelazy (l x : String) : Covered ["clonelazy", l, x]
  | post' (l x : String) : Covered ["post", l, x]

set_option maxHeartbeats 4000000 in
/-- every covered statement only extends the listener array and never re-activates a listener -/
theorem quiet_stmt (st : St) (ws : List String) (h : Covered ws) : Quiet st.lis (stmt st ws).1.lis := by
  cases h
  case unlisten l => unfold stmt; exact quiet_unlistenStmt _ _
  case gc => unfold stmt; exact quiet_map_dying _
  case leakcheck => unfold stmt; exact quiet_map_off _
  case ssink x => unfold stmt; exact quiet_defStmt _ _ _ _
  case csink x k => unfold stmt; exact quiet_defStmt _ _ _ _
  case map x s k => unfold stmt; exact quiet_defStmt _ _ _ _
  case hold x s k => unfold stmt; exact quiet_defStmt _ _ _ _
  case sample c => unfold stmt; exact quiet_sampleStmt _ _
  case handlerlisten l t s => unfold stmt; exact quiet_handlerListenStmt _ _ _ _
  case drop x => exact quiet_stmt_drop _ _
  case send l x => exact quiet_stmt_send _ _ _
  case listen l x => exact quiet_stmt_listen _ _ _
  case listenweak l x => exact quiet_stmt_listenweak _ _ _
  case clone l x => exact quiet_stmt_clone _ _ _
  case listenkill l x v => exact quiet_stmt_listenkill _ _ _ _
  case topen t => exact quiet_stmt_topen _ _
  case tclose t => exact quiet_stmt_tclose _ _
  case tdrop t => exact quiet_stmt_tdrop _ _
  case force z => unfold stmt; exact quiet_forceStmt _ _
  case lazy l x => exact quiet_stmt_lazy _ _ _
  case merge x a b op => unfold stmt; exact quiet_defStmt _ _ _ _
  case snapshot x s c op => unfold stmt; exact quiet_defStmt _ _ _ _
  case switchs x sel cands => unfold stmt; exact quiet_defStmt _ _ _ _
  case switchc x sel cands => unfold stmt; exact quiet_defStmt _ _ _ _
  case switchnest x c sel cands => exact quiet_stmt_switchnest _ _ _ _ _
  case ssinkc x op => unfold stmt; exact quiet_defStmt _ _ _ _
  case const' x k => unfold stmt; exact quiet_defStmt _ _ _ _
  case never' x => unfold stmt; exact quiet_defStmt _ _ _ _
  case mapto x s k => unfold stmt; exact quiet_defStmt _ _ _ _
  case filter' x s k => unfold stmt; exact quiet_defStmt _ _ _ _
  case filteropt x s k => unfold stmt; exact quiet_defStmt _ _ _ _
  case orelse x a b => unfold stmt; exact quiet_defStmt _ _ _ _
  case snapshot1 x s c => unfold stmt; exact quiet_defStmt _ _ _ _
  case gate x s c => unfold stmt; exact quiet_defStmt _ _ _ _
  case once' x s => unfold stmt; exact quiet_defStmt _ _ _ _
  case updates x c => unfold stmt; exact quiet_defStmt _ _ _ _
  case value' x c => unfold stmt; exact quiet_defStmt _ _ _ _
  case mapc x c k => unfold stmt; exact quiet_defStmt _ _ _ _
  case lift2 x a b op => unfold stmt; exact quiet_defStmt _ _ _ _
  case accum x s k op => unfold stmt; exact quiet_defStmt _ _ _ _
  case collect' x s k op => unfold stmt; exact quiet_defStmt _ _ _ _
  case defer' x s => unfold stmt; exact quiet_defStmt _ _ _ _
  case split' x s n => unfold stmt; exact quiet_defStmt _ _ _ _
  case switchdyn x sel s op => unfold stmt; exact quiet_defStmt _ _ _ _
  case snaplazy x s c => unfold stmt; exact quiet_defStmt _ _ _ _
  case sloop x => unfold stmt; exact quiet_defStmt _ _ _ _
  case cloop x => unfold stmt; exact quiet_defStmt _ _ _ _
  case snapshotn x s cs => unfold stmt; exact quiet_defStmt _ _ _ _
  case liftn x cs => unfold stmt; exact quiet_defStmt _ _ _ _
  case accumlazy x s z op => unfold stmt; exact quiet_lazyFoldStmt _ _ _ _ _ _
  case collectlazy x s z op => unfold stmt; exact quiet_lazyFoldStmt _ _ _ _ _ _
  case routelate l r k0 k => unfold stmt; exact quiet_routeLateStmt _ _ _ _ _
  case lateswitch l trig s => unfold stmt; exact quiet_handlerListenStmt _ _ _ _
  case latehold l trig s init => unfold stmt; exact quiet_lateHoldStmt _ _ _ _ _
  case lateloop l trig s k => unfold stmt; exact quiet_lateLoopStmt _ _ _ _ _
  case latelisten l s base op => unfold stmt; exact quiet_lateListenStmt _ _ _ _ _
  case switchlate x s base op => unfold stmt; exact quiet_switchLateStmt _ _ _ _ _
  case switchlatec x s base op => unfold stmt; exact quiet_switchLateCStmt _ _ _ _ _
  case switchlatecs x s base op => unfold stmt; exact quiet_switchLateCStmt _ _ _ _ _
  case sloopclose l s => unfold stmt; exact quiet_sloopCloseStmt _ _ _
  case cloopclose l c => unfold stmt; exact quiet_cloopCloseStmt _ _ _
  case obs'  => unfold stmt; exact Quiet.refl _
  case nodes  => unfold stmt; exact Quiet.refl _
  case sendsync  => unfold stmt; exact Quiet.refl _
  case memcheck  => unfold stmt; exact Quiet.refl _
  case wfcheck  => unfold stmt; exact Quiet.refl _
  case holdlazy x s z => exact quiet_stmt_holdlazy _ _ _ _
  case lift2d x a b c op => exact quiet_stmt_lift2d _ _ _ _ _ _
  case snapmapc x s c k => exact quiet_stmt_snapmapc _ _ _ _ _
  case postsend p s v => exact quiet_stmt_postsend _ _ _ _
  case lateloop2 l trig1 trig2 s => exact quiet_stmt_lateloop2 _ _ _ _ _
  case laterouter l trig s sel k => exact quiet_stmt_laterouter _ _ _ _ _ _
  case routehandler l trig r k => exact quiet_stmt_routehandler _ _ _ _ _
  case lateswitchc l trig c => exact quiet_stmt_lateswitchc _ _ _ _
  case leafdrop l trig s kind => exact quiet_stmt_leafdrop _ _ _ _ _
  case router' r s sel => exact quiet_stmt_router _ _ _ _
  case route' x r k => exact quiet_stmt_route _ _ _ _
  case mklazy l x => exact quiet_stmt_mklazy _ _ _
  case clonelazy l x => exact quiet_stmt_clonelazy _ _ _
  case post' l x => exact quiet_stmt_post _ _ _

/-- one line of a script: a covered statement, `begin`, or `end` (inner, or outermost: the transaction closes) -/
inductive Step : St → St → Prop
  | stmt (st : St) (ws : List String) (h : Covered ws) : Step st (stmt st ws).1
  | begin (st : St) : Step st { st with depth := st.depth + 1 }
  | endInner (st : St) : Step st { st with depth := st.depth - 1 }
  | endClose (st : St) : Step st (closeTxn { st with depth := st.depth - 1 }).1

inductive Steps : St → St → Prop
  | nil (st : St) : Steps st st
  | cons {a b c : St} : Step a b → Steps b c → Steps a c

theorem quiet_step {a b : St} (h : Step a b) : Quiet a.lis b.lis := by
  cases h with
  | stmt ws h => exact quiet_stmt _ _ h
  | begin => exact Quiet.refl _
  | endInner => exact Quiet.refl _
  | endClose => exact quiet_closeTxn' _ _ rfl

theorem quiet_steps {a b : St} (h : Steps a b) : Quiet a.lis b.lis := by
  induction h with
  | nil => exact Quiet.refl _
  | cons h _ ih => exact Quiet.trans (quiet_step h) ih

/-- no line ever re-activates a listener -/
theorem inactive_stays_inactive {st st' : St} (h : Step st st') (id : Nat)
    (hi : st.lis[id]?.map (·.active) = some false) : st'.lis[id]?.map (·.active) = some false := by
  cases hl : st.lis[id]? with
  | none => simp [hl] at hi
  | some l =>
    simp [hl] at hi
    obtain ⟨l', h1, h2⟩ := quiet_step h id l hl
    simp [h1, h2 hi]

theorem inactive_forever {st st' : St} (h : Steps st st') (id : Nat)
    (hi : st.lis[id]?.map (·.active) = some false) : st'.lis[id]?.map (·.active) = some false := by
  induction h with
  | nil => exact hi
  | cons h _ ih => exact ih (inactive_stays_inactive h id hi)

/-- after `unlisten` the listener is never called again, whatever lines follow, whatever fires -/
theorem unlisten_never_called_again (st st' : St) (name : String) (id : Nat)
    (h : st.find name = some (.listener id)) (hid : id < st.lis.size)
    (hs : Steps (unlistenStmt st name).1 st') (tbl : Table) :
    ∃ l, st'.lis[id]? = some l ∧ lisOut st' tbl l = none := by
  have h0 := (unlisten_deactivates st name id h hid).1
  have h1 := inactive_forever hs id h0
  cases hl : st'.lis[id]? with
  | none => simp [hl] at h1
  | some l =>
    simp [hl] at h1
    exact ⟨l, rfl, unlisten_stops st' tbl l h1⟩

theorem size_monotone {st st' : St} (h : Steps st st') : st.lis.size ≤ st'.lis.size := by
  rcases Nat.lt_or_ge st'.lis.size st.lis.size with hlt | hge
  · have hpos : st.lis.size - 1 < st.lis.size := by omega
    obtain ⟨l', h1, _⟩ := quiet_steps h (st.lis.size - 1) _ (Array.getElem?_eq_getElem hpos)
    have := (Array.getElem?_eq_some_iff.mp h1).1
    omega
  · exact hge

/-! ### a listener registered with `listen` stays active under drops, clones and collections -/

/-- registered with `listen` (not `listen_weak`), not marked for collection, not unlistened -/
def Strong (l : Lis) : Prop := l.weak = false ∧ l.dying = false ∧ l.active = true

/-- every strong listener of `a` is still there, at the same index, and still strong in `b` -/
def Keeps (a b : Array Lis) : Prop :=
  ∀ (id : Nat) (l : Lis), a[id]? = some l → Strong l → ∃ l' : Lis, b[id]? = some l' ∧ Strong l'

theorem Keeps.refl (a : Array Lis) : Keeps a a := fun _ l h hs => ⟨l, h, hs⟩

theorem Keeps.trans {a b c : Array Lis} (h1 : Keeps a b) (h2 : Keeps b c) : Keeps a c := by
  intro id l h hs
  obtain ⟨l', hb, hs'⟩ := h1 id l h hs
  exact h2 id l' hb hs'

theorem keeps_modify (a : Array Lis) (v : Nat) (f : Lis → Lis) (hf : ∀ l, Strong l → f l = l) :
    Keeps a (a.modify v f) := by
  unfold Keeps
  intro id l h hs
  rw [Array.getElem?_modify]
  by_cases hv : v = id
  · subst hv; simp [h, hf l hs]; exact hs
  · simp [hv, h]; exact hs

theorem keeps_map (a : Array Lis) (f : Lis → Lis) (hf : ∀ l, Strong l → f l = l) : Keeps a (a.map f) := by
  unfold Keeps
  intro id l h hs
  simp [h, hf l hs]; exact hs

/-- dropping any handle — the listener's own included — leaves a strong listener as it is -/
theorem keeps_stmt_drop (st : St) (x : String) : Keeps st.lis (stmt st ["drop", x]).1.lis := by
  rw [stmt_drop]
  split
  any_goals exact Keeps.refl _
  exact keeps_modify _ _ _ (fun l hs => by simp [hs.1])

/-- a collection leaves a strong listener as it is -/
theorem keeps_stmt_gc (st : St) : Keeps st.lis (stmt st ["gc"]).1.lis := by
  unfold stmt
  exact keeps_map _ _ (fun l hs => by simp [hs.2.1])

theorem keeps_stmt_clone (st : St) (l x : String) : Keeps st.lis (stmt st ["clone", l, x]).1.lis := by
  rw [stmt_clone]
  split
  · exact Keeps.refl _
  · split <;> exact Keeps.refl _

/-- lines that only drop handles, clone handles, or collect -/
inductive Harmless : List String → Prop
  | drop (x : String) : Harmless ["drop", x]
  | gc : Harmless ["gc"]
  | clone (l x : String) : Harmless ["clone", l, x]

theorem keeps_stmt_harmless (st : St) (ws : List String) (h : Harmless ws) : Keeps st.lis (stmt st ws).1.lis := by
  cases h
  case drop x => exact keeps_stmt_drop _ _
  case gc => exact keeps_stmt_gc _
  case clone l x => exact keeps_stmt_clone _ _ _

/-- the state after a list of lines -/
def runLines (st : St) (lines : List (List String)) : St := lines.foldl (fun st ws => (stmt st ws).1) st

theorem keeps_runLines (lines : List (List String)) (st : St) (h : ∀ ws ∈ lines, Harmless ws) :
    Keeps st.lis (runLines st lines).lis := by
  induction lines generalizing st with
  | nil => exact Keeps.refl _
  | cons ws rest ih =>
    have h1 := keeps_stmt_harmless st ws (h ws (by simp))
    have h2 := ih (stmt st ws).1 (fun w hw => h w (by simp [hw]))
    exact Keeps.trans h1 h2

/-- C10: a listener registered with `listen` keeps being called even if its handle and every other handle are dropped
    and collections run: after any list of `drop` / `gc` / `clone` lines it is still there, still active, and what it
    receives from a transaction is still given by `listen_stream` / `listen_cell_*` -/
theorem strong_listener_survives_drops_and_gc (st : St) (lines : List (List String))
    (h : ∀ ws ∈ lines, Harmless ws) (id : Nat) (l : Lis) (hl : st.lis[id]? = some l)
    (hw : l.weak = false) (hd : l.dying = false) (ha : l.active = true) :
    ∃ l' : Lis, (runLines st lines).lis[id]? = some l' ∧ l'.active = true ∧ l'.weak = false ∧ l'.dying = false := by
  obtain ⟨l', h1, h2⟩ := keeps_runLines lines st h id l hl ⟨hw, hd, ha⟩
  exact ⟨l', h1, h2.2.2, h2.1, h2.2.1⟩

end Spec
end SodiumVerif
