/-
  Memory-safety and no-leak theorems for the structural model `Model/Struct.lean` (level L-struct):
  whatever API script is run, the collector state the model builds is one a contract-respecting
  client of the collector can reach (`GcScript.Reachable`), so the soundness theorem (`Props/C08`),
  the exact-count and completeness theorems (`Props/C07`) apply to it; and a `leakcheck` that leaves
  no listener rooted frees every object.
-/
import SodiumVerif.Lemmas.StructReach

namespace SodiumVerif
namespace Struct
open GcScript Gc

/-! ### every script state is reachable -/

theorem reach_leakStep0 (p : PSt) (h : Reachable p.gs) : Reachable (leakStep0 p).1.gs := by
  have h1 : Reachable (runG p (leakOps p)).gs := reach_runG p _ h
  exact reach_applyE (o := .collect)
    (x := (zeroAll (leakStep0 p).2 (dropAll (runG p (leakOps p)).kinds (leakStep0 p).2
      ((runG p (leakOps p)).gs, (runG p (leakOps p)).err)).1, _))
    (reach_zeroAll _ (reach_dropAll _ _ _ h1)) trivial

/-- `leakcheck` keeps the state reachable, whether Rust values own handles (`leakStepH`: drops and two collections
    through `runG`) or not (the plain one) -/
theorem reach_leakStep (p : PSt) (h : Reachable p.gs) : Reachable (leakStep p).1.gs := by
  by_cases hh : p.held = []
  · rw [leakStep_of_held_nil p hh]; exact reach_leakStep0 p h
  · rw [leakStep_of_held_ne p hh]; exact reach_leakStepH p h

/-- the compiled form of a line, whatever it is, keeps the collector state reachable (one case per
    constructor of `R`) -/
theorem reach_stepR (p : PSt) (r : R) (h : Reachable p.gs) : Reachable (stepR p r).1.gs := by
  unfold stepR
  dsimp only
  split
  · -- `.ops`
    exact reach_ite (reach_runG _ _ h) (reach_runG _ _ h)
  · -- `.sw`: `pre`, then either the first selection, `mid` and `atClose`, or `mid` alone; then `post`
    refine reach_ite ?_ ?_ <;> refine reach_runG _ _ ?_ <;> refine reach_ite ?_ ?_
    all_goals first
      | exact reach_runG _ _ (reach_rewireAll _ (reach_runG _ _ h))
      | exact reach_runG _ _ (reach_runG _ _ h)
      | exact reach_runG _ _ h
  · -- `.hints`
    exact h
  · -- `.fired`
    exact h
  · -- `.once`
    exact reach_ite (reach_runG _ _ h) (reach_runG _ _ h)
  · -- `.quiet`
    exact reach_runG _ _ (reach_ite (reach_detachAll _ (reach_rewireAll _ h)) h)
  · -- `.open_`
    exact h
  · -- `.close`
    split
    · exact h
    · exact reach_runG _ _ (reach_ite (reach_detachAll _ (reach_rewireAll _ (reach_runG _ _ h))) h)
  · exact h
  · exact h
  · exact h
  · exact h
  · exact reach_leakStep p h

theorem reach_step (p : PSt) (line : String) (h : Reachable p.gs) :
    Reachable (step p line).1.gs := by
  rw [step_eq_stepR]
  split
  · exact .init
  · exact reach_stepR p _ h

theorem reach_steps : ∀ (lines : List String) (p : PSt), Reachable p.gs →
    Reachable (lines.foldl (fun p l => (step p l).1) p).gs := by
  intro lines
  induction lines with
  | nil => intro p h; exact h
  | cons l r ih => intro p h; exact ih _ (reach_step p l h)

/-- **the collector state of every API script is a reachable client state** -/
theorem run_reachable (lines : List String) : Reachable (run lines).gs :=
  reach_steps lines {} .init

/-! ### corollaries: the collector theorems hold of every script state -/

/-- **memory safety**: after any API script the collector invariant holds, the collector has not
    panicked, and every object the harness holds a handle on is allocated, not freed, and its
    count covers the handles -/
theorem struct_sound (lines : List String) :
    let s := (run lines).gs
    GcInv s.g ∧ s.g.panic = none ∧
    ∀ a, 0 < s.handles.get a →
      a < s.g.nextId ∧ (s.g.nodes.get a).freed = false ∧ s.handles.get a ≤ ext s.g a :=
  script_sound (run_reachable lines)

/-- **exact counts**: the external count of every unfreed object is exactly the number of handles
    the script holds on it -/
theorem struct_counts_exact (lines : List String) (a : Nat)
    (hf : ((run lines).gs.g.nodes.get a).freed = false) :
    ext (run lines).gs.g a = (run lines).gs.handles.get a :=
  handles_exact (run_reachable lines) a hf

/-- the model's fuel flag is never set -/
theorem struct_oof (lines : List String) : (run lines).gs.g.oof = false :=
  reachable_oof (run_reachable lines)

/-- **no garbage survives a collection**: after a collection in the state of any API script, every
    allocated unfreed object is reachable, along counted references, from an object the script
    holds a handle on -/
theorem struct_gc_complete (lines : List String) (s' : GcScript.St)
    (hc : apply (run lines).gs .collect = some s') :
    Reachable s' ∧ s'.g.oof = false ∧
    ∀ i, i < s'.g.nextId → (s'.g.nodes.get i).freed = false →
      ∃ r, 0 < s'.handles.get r ∧ Reach s'.g r i :=
  no_garbage_after_collect (run_reachable lines) hc

/-- a held object is never lost -/
theorem struct_held_not_freed (lines : List String) (a : Nat)
    (h : 0 < (run lines).gs.handles.get a) :
    a < (run lines).gs.g.nextId ∧ ((run lines).gs.g.nodes.get a).freed = false :=
  let ⟨_, _, hh⟩ := struct_sound lines
  ⟨(hh a h).1, (hh a h).2.1⟩

/-! ### the leak theorem -/

/-- the plain `leakcheck` from a reachable state, when no listener stays rooted: every allocated object is freed -/
theorem leakStep0_frees_all (p : PSt) (h : Reachable p.gs) (hk : (leakStep0 p).2 = []) :
    ∀ i, i < (leakStep0 p).1.gs.g.nextId → ((leakStep0 p).1.gs.g.nodes.get i).freed = true := by
  have h1 : Reachable (runG p (leakOps p)).gs := reach_runG p _ h
  -- the state just before the final collection
  have e : (leakStep0 p).1.gs =
      (applyE (zeroAll (leakStep0 p).2 (dropAll (runG p (leakOps p)).kinds (leakStep0 p).2
        ((runG p (leakOps p)).gs, (runG p (leakOps p)).err)).1,
        (dropAll (runG p (leakOps p)).kinds (leakStep0 p).2
        ((runG p (leakOps p)).gs, (runG p (leakOps p)).err)).2) .collect).1 := rfl
  rw [hk] at e
  rw [e, applyE_collect]
  have hx : Reachable (dropAll (runG p (leakOps p)).kinds []
      ((runG p (leakOps p)).gs, (runG p (leakOps p)).err)).1 := reach_dropAll _ _ _ h1
  generalize (dropAll (runG p (leakOps p)).kinds []
    ((runG p (leakOps p)).gs, (runG p (leakOps p)).err)) = x at *
  have hz : Reachable (zeroAll [] x.1) := reach_zeroAll [] hx
  have hd := drop_all_collect_frees_all hz (fun a ha => zeroAll_nil_handles x.1 a ha)
  intro i hi
  exact hd.2 i (by rw [← collectCycles_nextId hz]; exact hi)

/-- `leakcheck` from a reachable state in which no Rust value owns a handle the collector cannot see (`held = []`: no
    cell value, no unforced thunk keeps a cell), when no listener stays rooted: every allocated object is freed.
    With such handles the conclusion is false: that is the known finding D6, machine-checked below (`d6_witness`). -/
theorem leakStep_frees_all (p : PSt) (h : Reachable p.gs) (hh : p.held = [])
    (hk : (leakStep p).2 = []) :
    ∀ i, i < (leakStep p).1.gs.g.nextId → ((leakStep p).1.gs.g.nodes.get i).freed = true := by
  rw [leakStep_of_held_nil p hh] at hk ⊢
  exact leakStep0_frees_all p h hk

/-- **no leak**: if, after an API script, no Rust value owns a handle the collector cannot see (`held = []`) and the
    `leakcheck` leaves no listener rooted (the harness could unlisten every listener), it frees every object the
    script ever allocated.  (Without `held = []` this is false: `d6_witness`, the known finding D6.) -/
theorem leakcheck_frees_all (lines : List String) (hh : (run lines).held = [])
    (hk : (leakStep (run lines)).2 = []) :
    let p' := (leakStep (run lines)).1
    ∀ i, i < p'.gs.g.nextId → (p'.gs.g.nodes.get i).freed = true :=
  leakStep_frees_all (run lines) (run_reachable lines) hh hk

theorem leakCount_zero_of_all_freed (p : PSt)
    (h : ∀ i, i < p.gs.g.nextId → (p.gs.g.nodes.get i).freed = true) : leakCount p = 0 := by
  unfold leakCount
  simp only [List.length_eq_zero_iff, List.filter_eq_nil_iff, List.mem_range]
  intro i hi
  simp [State.node, h i hi]

/-- … so the harness's `leak=` answer is `0` (same hypotheses; false without `held = []`: `d6_witness`) -/
theorem leakcheck_count_zero (lines : List String) (hh : (run lines).held = [])
    (hk : (leakStep (run lines)).2 = []) :
    leakCount (leakStep (run lines)).1 = 0 :=
  leakCount_zero_of_all_freed _ (leakcheck_frees_all lines hh hk)

/-! ### non-vacuity -/

/-- what `ssink s` then `accum c s …` compile to: the sink `0`, then loop stream `1`, loop object
    `2`, hold node `3`, snapshot node `4`, with the cycle `3 → 1 → 4 → 3` -/
def exAccumOps : List GOp :=
  [.new "Stream::new", .sdeps 0 [], .eot,
   .inc 0, .new "Stream::new", .sdeps 1 [], .new "StreamLoop::new", .edge 2 1,
   .new "Cell::hold", .edge 3 1, .edge 3 1, .edge 3 1, .sdeps 3 [1],
   .new "Stream::map", .edge 4 0, .edge 4 0, .edge 4 3, .sdeps 4 [0],
   .edge 1 4, .edge 1 4, .sadd 1 4, .dec 4, .dec 1, .dec 2, .dec 0, .eot]

/-- the list above is the compiler's output (word lists, no string parsing) -/
example :
    (match compile [] 0 ["ssink", "s"] with | .ops l _ => l | _ => []) ++
    (match compile [("s", .ssink 0)] 1 ["accum", "c", "s", "0", "add"] with
      | .ops l _ => l | _ => []) = exAccumOps := by decide +kernel

/-- the state after the recipe (handles: one on the sink `0`, one on the hold node `3`) -/
def exAccum : PSt := runG {} exAccumOps

/-- the recipe runs without a structural error, in a reachable state; once the script's two
    handles are dropped the cycle `1, 3, 4` is garbage kept alive by its own counts (no handle,
    not freed, count > 0) — and a collection frees every object -/
example :
    exAccum.err = false ∧ Reachable exAccum.gs ∧
    exAccum.gs.handles.get 0 = 1 ∧ exAccum.gs.handles.get 3 = 1 ∧
    (let p := runG exAccum [.dec 3, .dec 0]
     p.err = false ∧ Reachable p.gs ∧
     (∀ a, a < p.gs.g.nextId → p.gs.handles.get a = 0) ∧
     (∀ i, i ∈ [1, 3, 4] → (p.gs.g.nodes.get i).freed = false ∧ 0 < (p.gs.g.nodes.get i).rc) ∧
     1 ∈ (p.gs.g.nodes.get 3).owned ∧ 4 ∈ (p.gs.g.nodes.get 1).owned ∧
       3 ∈ (p.gs.g.nodes.get 4).owned) ∧
    (let p := runG exAccum [.dec 3, .dec 0, .collect]
     p.err = false ∧ p.gs.g.nextId = 5 ∧
     ∀ i, i < p.gs.g.nextId → (p.gs.g.nodes.get i).freed = true) := by
  have hr : Reachable exAccum.gs := reach_runG {} _ .init
  exact ⟨by decide +kernel, hr, by decide +kernel, by decide +kernel,
    ⟨by decide +kernel, reach_runG _ _ hr, by decide +kernel, by decide +kernel,
      by decide +kernel, by decide +kernel, by decide +kernel⟩,
    ⟨by decide +kernel, by decide +kernel, by decide +kernel⟩⟩

/-- the hypotheses of `leakStep_frees_all` are satisfiable: with the script's environment, the
    `leakcheck` of the `accum` state keeps nothing, and the theorem gives `leak=0` -/
example :
    let p : PSt := { exAccum with env := [("c", .cell 3 1), ("s", .ssink 0)] }
    Reachable p.gs ∧ (leakStep p).2 = [] ∧ (leakStep p).1.gs.g.nextId = 5 ∧
    leakCount (leakStep p).1 = 0 := by
  intro p
  have hr : Reachable p.gs := reach_runG {} _ .init
  have hk : (leakStep p).2 = [] := by decide +kernel
  exact ⟨hr, hk, by decide +kernel,
    leakCount_zero_of_all_freed _ (leakStep_frees_all p hr (by decide +kernel) hk)⟩

/-- what `ssink s` then `listen l s` compile to: sink `0`, listen node `1`, listener `2` (held by
    the script and by the context's keep-alive list) -/
def exListenOps : List GOp :=
  [.new "Stream::new", .sdeps 0 [], .eot, .inc 0, .new "Stream::listen", .edge 1 0, .edge 1 0, .sdeps 1 [0],
   .new "Listener::new", .edge 2 1, .dec 1, .inc 2, .dec 0, .eot]

example :
    (match compile [] 0 ["ssink", "s"] with | .ops l _ => l | _ => []) ++
    (match compile [("s", .ssink 0)] 1 ["listen", "l", "s"] with
      | .ops l _ => l | _ => []) = exListenOps := by decide +kernel

/-- a strong listener the script still holds is unlistened by `leakcheck`: nothing is kept and
    everything is freed; -/
example :
    let p : PSt := { runG {} exListenOps with
      env := [("l", .listener 2 1 true true), ("s", .ssink 0)] }
    p.err = false ∧ (leakStep p).2 = [] ∧ (leakStep p).1.err = false ∧
    ∀ i, i < (leakStep p).1.gs.g.nextId → ((leakStep p).1.gs.g.nodes.get i).freed = true := by
  intro p
  have hr : Reachable p.gs := reach_runG {} _ .init
  have hk : (leakStep p).2 = [] := by decide +kernel
  exact ⟨by decide +kernel, hk, by decide +kernel, leakStep_frees_all p hr (by decide +kernel) hk⟩

/-- … and the hypothesis `keep = []` of the leak theorem is needed: once the script has dropped
    its handle on the strong listener (`drop l`), the context keeps it for good, `leakcheck`
    reports it as rooted, and the listener, its node and the sink survive the collection -/
example :
    let p0 : PSt := runG {} exListenOps
    let p : PSt := { runG p0 [.dec 2] with env := [("l", .rooted 2), ("s", .ssink 0)] }
    p.err = false ∧ (leakStep p).2 = [2] ∧ (leakStep p).1.err = false ∧
    (∀ i, i < 3 → ((leakStep p).1.gs.g.nodes.get i).freed = false) ∧
    leakCount (leakStep p).1 = 2 := by
  decide +kernel

/-! ### non-vacuity: a switch that is rewired

  `trimAscii`, `splitOn`, `toNat?`, `toInt?` do not reduce in the kernel, so `run` on strings cannot be decided there.
  The example is stated on `stepR` (= `step` after tokenisation, `step_eq_stepR` / `step_of_tokens`): nine of the
  eleven lines go through the real `compile` on their words; the two lines whose compilation parses a number
  (`switchs … @2`, `cellvals 2:1`) are given by their compiled form, which the `#guard`s below compare (by
  evaluation, at build time) with what `compile` answers on the tokenised strings. -/

deriving instance DecidableEq for R

/-- two sinks, a selector cell (value 0, number 2 in the value oracle), the switch over the two sinks, a listener on
    its output; the selector becomes 1 (`cellvals` is the oracle, `send` ends a transaction: the rewiring happens);
    then everything is dropped -/
def exSwitchLines : List String :=
  ["ssink a", "ssink b", "csink c 0", "switchs x c a b @2", "listen l x", "cellvals 2:1", "send c 1",
   "graphdump", "drop x", "unlisten l", "leakcheck"]

/-- what `switchs x c a b @2` compiles to after the first three lines (sinks `0`, `1`; selector: stream `2`, hold
    node `3`): `sel.map` node `4` (declares the candidates), cell `5`, wrapper `6`, cell `7`, placeholder `8`,
    inner node `9`, outer node `10` -/
def exSwitchR : R :=
  .sw
    [.inc 3, .inc 0, .inc 1, .deref 3 2,
     .new "Stream::map", .edge 4 2, .edge 4 2, .edge 4 0, .edge 4 1, .sdeps 4 [2],
     .new "Cell::hold", .edge 5 4, .edge 5 4, .edge 5 4, .sdeps 5 [4], .dec 4, .dec 2, .eot,
     .deref 5 4, .new "Stream::map", .edge 6 4, .edge 6 4, .sdeps 6 [4],
     .new "Cell::hold", .edge 7 6, .edge 7 6, .edge 7 6, .sdeps 7 [6], .dec 6, .dec 4, .eot,
     .new "Stream::new", .sdeps 8 [], .dec 8,
     .new "switch_s inner node", .sdeps 9 [], .deref 7 6,
     .new "switch_s outer node", .edge 10 6, .edge 10 6, .edge 10 9, .sdeps 10 [6],
     .edge 9 10, .dec 10, .dec 6]
    [.eot]
    [.dec 7, .dec 5]
    [.dec 0, .dec 1, .dec 3]
    [("#switch:x", .temps [7, 5]), ("x", .stream 9), ("c", .csink 3 2), ("b", .ssink 1), ("a", .ssink 0)]
    { n1 := 9, chain := [10, 6, 4], cands := [0, 1], sel := 2 }

/-- a script given line by line as words (compiled by `compile`) or as an already compiled line -/
def runItems (p : PSt) (l : List (List String ⊕ R)) : PSt :=
  l.foldl (fun p it => match it with
    | .inl ws => (stepR p (compile p.env p.gs.g.nextId ws)).1
    | .inr r => (stepR p r).1) p

theorem reach_runItems : ∀ (l : List (List String ⊕ R)) (p : PSt), Reachable p.gs →
    Reachable (runItems p l).gs := by
  intro l
  induction l with
  | nil => intro p h; exact h
  | cons it r ih =>
    intro p h
    cases it with
    | inl ws => exact ih _ (reach_stepR p _ h)
    | inr c => exact ih _ (reach_stepR p c h)

def exSwitchItems : List (List String ⊕ R) :=
  [.inl ["ssink", "a"], .inl ["ssink", "b"], .inl ["csink", "c", "0"], .inr exSwitchR,
   .inl ["listen", "l", "x"], .inr (.hints [(2, 1)]), .inl ["send", "c", "1"], .inl ["graphdump"],
   .inl ["drop", "x"], .inl ["unlisten", "l"], .inl ["leakcheck"]]

-- evaluation checks (run at build time, not theorems): the tokenisation of the lines, the compiled form of the two
-- lines that parse numbers, and the facts proved below as they come out of `run` on the strings
#guard exSwitchLines.map tokens ==
  [["ssink", "a"], ["ssink", "b"], ["csink", "c", "0"], ["switchs", "x", "c", "a", "b", "@2"],
   ["listen", "l", "x"], ["cellvals", "2:1"], ["send", "c", "1"], ["graphdump"], ["drop", "x"],
   ["unlisten", "l"], ["leakcheck"]]
#guard compile (runItems {} (exSwitchItems.take 3)).env (runItems {} (exSwitchItems.take 3)).gs.g.nextId
  (tokens "switchs x c a b @2") = exSwitchR
#guard compile [] 0 (tokens "cellvals 2:1") = .hints [(2, 1)]
#guard (run exSwitchLines).err = false
#guard (run (exSwitchLines.take 5)).sw.map (·.cur) = [none]
#guard (run (exSwitchLines.take 8)).sw.map (·.cur) = [some 1]
#guard leakCount (run exSwitchLines) = 0
#guard (step (run (exSwitchLines.take 7)) "graphdump").2 =
  "graph Stream::new:2[] Stream::new:3[] Stream::new:6[] Cell::hold:1[2,2,2] Stream::map:2[0,1,2,2] " ++
  "Stream::map:2[4,4] switch_s inner node:4[1,7] switch_s outer node:1[5,5,6] Stream::listen:1[6,6] Listener::new:2[8]"

/-- the switch recipe runs without a structural error (no inapplicable operation, handle balance after every line) in
    reachable states.  Built with no value known for the selector, the inner node `9` owns only the outer node `10`;
    once the oracle says the selector is worth 1 and a transaction ends, the rewiring makes it depend on candidate
    `b` (object `1`) — through temporary handles that are all given back (`err = false` includes `balanced`); after
    the drops, `leakcheck` keeps nothing and frees every one of the 13 objects -/
example :
    (runItems {} exSwitchItems).err = false ∧ Reachable (runItems {} exSwitchItems).gs ∧
    (let p := runItems {} (exSwitchItems.take 5)
     p.err = false ∧ p.sw.map (·.cur) = [none] ∧ (p.gs.g.node 9).owned = [10] ∧ p.gs.handles.get 9 = 1) ∧
    (let p := runItems {} (exSwitchItems.take 8)
     p.err = false ∧ Reachable p.gs ∧ p.sw.map (·.cur) = [some 1] ∧ (p.gs.g.node 9).owned = [10, 1] ∧
     p.gs.handles.get 9 = 1 ∧ (p.gs.g.node 1).freed = false) ∧
    (let p := runItems {} (exSwitchItems.take 10)
     (leakStep p).2 = [] ∧ (leakStep p).1.gs.g.nextId = 13 ∧
     ∀ i, i < (leakStep p).1.gs.g.nextId → ((leakStep p).1.gs.g.nodes.get i).freed = true) ∧
    leakCount (runItems {} exSwitchItems) = 0 := by
  have hr := fun l => reach_runItems l {} .init
  have hk : (leakStep (runItems {} (exSwitchItems.take 10))).2 = [] := by decide +kernel
  exact ⟨by decide +kernel, hr _,
    ⟨by decide +kernel, by decide +kernel, by decide +kernel, by decide +kernel⟩,
    ⟨by decide +kernel, hr _, by decide +kernel, by decide +kernel, by decide +kernel, by decide +kernel⟩,
    ⟨hk, by decide +kernel, leakStep_frees_all _ (hr _) (by decide +kernel) hk⟩,
    by decide +kernel⟩

/-! ### non-vacuity: a `once` that detaches from its source when it has fired

  Same presentation: four of the six lines go through the real `compile` on their words; the two that parse a number
  (`once o s @1`, `oncedone 1`) are given compiled, and `#guard`s compare with `compile` / `run` on the strings. -/

/-- a sink, a `once` on it (number 1 in the oracle) and a listener on its output; the oracle says the `once` has let its
    event through (`oncedone`), `send` ends a transaction: the detachment happens -/
def exOnceLines : List String :=
  ["ssink s", "once o s @1", "listen l o", "oncedone 1", "send s 1", "graphdump"]

/-- what `once o s @1` compiles to after `ssink s` (sink `0`): the once node `1`, with its dependency edge and the handle
    its closure captured, both on `0` -/
def exOnceR : R :=
  .once
    [.inc 0, .new "Stream::once", .edge 1 0, .edge 1 0, .sdeps 1 [0], .dec 0, .eot]
    [("o", .stream 1), ("s", .ssink 0)] 1 0 1

def exOnceItems : List (List String ⊕ R) :=
  [.inl ["ssink", "s"], .inr exOnceR, .inl ["listen", "l", "o"], .inr (.fired [1]), .inl ["send", "s", "1"],
   .inl ["graphdump"]]

-- evaluation checks (run at build time, not theorems)
#guard exOnceLines.map tokens ==
  [["ssink", "s"], ["once", "o", "s", "@1"], ["listen", "l", "o"], ["oncedone", "1"], ["send", "s", "1"], ["graphdump"]]
#guard compile [("s", .ssink 0)] 1 ["once", "o", "s", "@1"] = exOnceR
#guard compile (runItems {} (exOnceItems.take 1)).env (runItems {} (exOnceItems.take 1)).gs.g.nextId
  (tokens "once o s @1") = exOnceR
#guard compile [] 0 (tokens "oncedone 1") = .fired [1]
#guard (run exOnceLines).err = false
#guard (run (exOnceLines.take 4)).onces = [(1, 0, 1)]
#guard (run exOnceLines).onces = []
#guard ((run (exOnceLines.take 4)).gs.g.node 1).owned = [0, 0]
#guard ((run exOnceLines).gs.g.node 1).owned = [0]
#guard (step (run (exOnceLines.take 5)) "graphdump").2 =
  "graph Stream::new:2[] Stream::once:3[0] Stream::listen:1[1,1] Listener::new:2[2]"

/-- the `once` recipe and its detachment run without a structural error (no inapplicable operation, handle balance after
    the structural lines) in reachable states.  Before the send, the once node `1` is recorded as attached and owns two
    edges to its source `0` (the dependency, the handle captured by its closure); once the oracle says it has fired and a
    transaction ends, it is no longer recorded and one edge is left — cut through temporary handles that are all given
    back (`balanced`) -/
example :
    (runItems {} exOnceItems).err = false ∧ Reachable (runItems {} exOnceItems).gs ∧
    (let p := runItems {} (exOnceItems.take 4)
     p.err = false ∧ p.onces = [(1, 0, 1)] ∧ p.done = [1] ∧ (p.gs.g.node 1).owned = [0, 0] ∧
     (p.gs.g.node 0).rc = 3) ∧
    (let p := runItems {} exOnceItems
     p.onces = [] ∧ (p.gs.g.node 1).owned = [0] ∧ (p.gs.g.node 0).rc = 2 ∧ (p.gs.g.node 1).freed = false ∧
     balanced p = true) := by
  exact ⟨by decide +kernel, reach_runItems _ {} .init,
    ⟨by decide +kernel, by decide +kernel, by decide +kernel, by decide +kernel, by decide +kernel⟩,
    ⟨by decide +kernel, by decide +kernel, by decide +kernel, by decide +kernel, by decide +kernel⟩⟩

/-! ### the known finding D6, machine-checked: a `switch_c` in a `CellLoop` is never freed

  The hypothesis `held = []` of the no-leak theorems is not a convenience: the value of a cell is a Rust value, and when
  that value is itself a cell (`switch_c`: a cell of cells) the handle it owns is invisible to the collector.  If the
  candidates of a `switch_c` depend on its own output through a `CellLoop`, the cell of cells is reachable from the
  cell it holds: a cycle the collector cannot see, kept alive by a handle nothing will ever drop.  Same presentation as
  the switch example above: ten of the twelve lines go through the real `compile` on their words, the two that parse a
  number (`switchc … @0`, `cellvals 0:0`) are given compiled, and `#guard`s compare with `run` on the strings. -/

/-- a selector cell (value 0, number 0 in the value oracle) and a sink; in one transaction: a cell loop `k`, candidate
    `c0 = hold (snapshot e k)` and candidate `c1 = k.map`, both depending on the loop, `w = switch_c (sel ↦ c0 | c1)`,
    and the loop is closed on `w`; the selector is worth 0 when the transaction ends (the first selection: `c0`);
    then `leakcheck` -/
def exD6Lines : List String :=
  ["csink sel 0", "ssink e", "begin", "cloop k", "snapshot a e k 2", "hold c0 a 1", "mapc c1 k 2",
   "switchc w sel c0 c1 @0", "cloopclose k w", "cellvals 0:0", "end", "leakcheck"]

/-- what `switchc w sel c0 c1 @0` compiles to after the first seven lines (selector: stream `0`, hold node `1`; sink
    `2`; loop: stream `3`, loop object `4`, hold node `5`; snapshot `6`, `c0` = hold node `7`; map `8`, `c1` = hold node
    `9`): `sel.map` node `10` (declares the candidates' cells), cell `11`, wrapper `12`, cell of cells `13`, outer node
    `14` (keeps `13`), placeholder `15`, inner node `16`; when the transaction ends: the result `w` = hold node `17`,
    whose initial thunk owns a handle on the cell of cells `13` (`.hold 17 13`) -/
def exD6R : R :=
  .sw
    [.inc 1, .inc 7, .inc 9, .deref 1 0,
     .new "Stream::map", .edge 10 0, .edge 10 0, .edge 10 7, .edge 10 9, .sdeps 10 [0],
     .new "Cell::hold", .edge 11 10, .edge 11 10, .edge 11 10, .sdeps 11 [10], .dec 10, .dec 0, .eot,
     .deref 11 10, .new "Stream::map", .edge 12 10, .edge 12 10, .sdeps 12 [10],
     .new "Cell::hold", .edge 13 12, .edge 13 12, .edge 13 12, .sdeps 13 [12], .dec 12, .dec 10, .eot,
     .deref 13 12, .new "switch_c outer node", .edge 14 12, .sdeps 14 [12], .dec 12,
     .new "Stream::new", .sdeps 15 [], .dec 15,
     .new "switch_c inner node", .edge 16 14, .sdeps 16 [14],
     .edge 14 13, .edge 14 14, .edge 14 16, .dec 14]
    [.eot, .new "Cell::hold", .edge 17 16, .edge 17 16, .edge 17 16, .sdeps 17 [16],
     .inc 13, .hold 17 13, .dec 16, .eot]
    [.dec 13, .dec 11]
    [.dec 7, .dec 9, .dec 1]
    [("#switch:w", .temps [13, 11]), ("w", .cell 17 16), ("c1", .cell 9 8), ("c0", .cell 7 6), ("a", .stream 6),
     ("k", .cloop 4 3 5), ("e", .ssink 2), ("sel", .csink 1 0)]
    { n1 := 16, chain := [14, 12, 10], cands := [7, 9], sel := 0, deps := [6, 8], valOwners := [13, 11],
      resHold := some 17 }

def exD6Items : List (List String ⊕ R) :=
  [.inl ["csink", "sel", "0"], .inl ["ssink", "e"], .inl ["begin"], .inl ["cloop", "k"],
   .inl ["snapshot", "a", "e", "k", "2"], .inl ["hold", "c0", "a", "1"], .inl ["mapc", "c1", "k", "2"],
   .inr exD6R, .inl ["cloopclose", "k", "w"], .inr (.hints [(0, 0)]), .inl ["end"], .inl ["leakcheck"]]

-- evaluation checks (run at build time, not theorems): tokenisation, the compiled form of the two lines that parse
-- numbers, and the facts of `d6_witness` as they come out of `run` / `step` on the strings
#guard exD6Lines.map tokens ==
  [["csink", "sel", "0"], ["ssink", "e"], ["begin"], ["cloop", "k"], ["snapshot", "a", "e", "k", "2"],
   ["hold", "c0", "a", "1"], ["mapc", "c1", "k", "2"], ["switchc", "w", "sel", "c0", "c1", "@0"],
   ["cloopclose", "k", "w"], ["cellvals", "0:0"], ["end"], ["leakcheck"]]
#guard compile (runItems {} (exD6Items.take 7)).env (runItems {} (exD6Items.take 7)).gs.g.nextId
  (tokens "switchc w sel c0 c1 @0") = exD6R
#guard compile [] 0 (tokens "cellvals 0:0") = .hints [(0, 0)]
#guard (run exD6Lines).err = false
#guard leakCount (run exD6Lines) = 13
#guard (run exD6Lines.dropLast).err = false
#guard (run exD6Lines.dropLast).held = [(17, 13), (13, 7)]
#guard (leakStep (run exD6Lines.dropLast)).2 = [7]
#guard (run exD6Lines).held = [(13, 7)]
#guard (step (run exD6Lines.dropLast) "leakcheck").2 == "leak=13"
#guard (stepR (runItems {} exD6Items.dropLast) .leak).2 == "leak=13"


/-- **known finding D6** (a `switch_c` whose candidates depend on its own output through a `CellLoop` is never freed).
    The script `exD6Lines` runs without a structural error (no inapplicable operation, handle balance after every
    line), in reachable states.  Before `leakcheck`, two handles are owned by Rust values: the initial thunk of the
    result `17` owns the cell of cells `13`, and the value of the cell of cells `13` is the selected candidate cell
    `7`.  No listener is rooted — the hypothesis `(leakStep p).2 = []` of `leakStep_frees_all` holds in the sense it
    has when `held = []` — but `held ≠ []`, and the conclusion of `leakStep_frees_all` / `leakcheck_frees_all` /
    `leakcheck_count_zero` fails: `leakcheck` answers `leak=13`.  After it the script's environment is empty, the
    only handle left on any object is the one the value of `13` has on `7` (`balanced`: the handle counts are exactly
    what the environment — nothing — and `held` stand for), so no object is reachable from a handle of the script;
    that one handle keeps `7`, from which the loop leads back to `13`: 13 of the 18 objects — all of them nodes — are
    neither freed nor dead, the list `leakStep` says it kept is `[7]`, not `[]`, and the line answers `leak=13`. -/
theorem d6_witness :
    Reachable (runItems {} exD6Items).gs ∧ Reachable (runItems {} exD6Items.dropLast).gs ∧
    (runItems {} exD6Items).err = false ∧ leakCount (runItems {} exD6Items) = 13 ∧
    (let p := runItems {} exD6Items.dropLast
     p.err = false ∧ p.held = [(17, 13), (13, 7)] ∧
     (p.env.filterMap fun kv => match kv.2 with | .rooted li => some li | _ => none) = [] ∧
     (leakStep p).2 = [7] ∧ (leakStep p).2 ≠ [] ∧
     (leakStep p).1.err = false ∧ (leakStep p).1.env = [] ∧ (leakStep p).1.held = [(13, 7)] ∧
     balanced (leakStep p).1 = true ∧
     (leakStep p).1.gs.g.nextId = 18 ∧
     (∀ a, a < (leakStep p).1.gs.g.nextId → (leakStep p).1.gs.handles.get a = if a = 7 then 1 else 0) ∧
     (List.range 18).filter (fun i => !((leakStep p).1.gs.g.nodes.get i).freed) =
       [0, 2, 3, 5, 6, 7, 8, 9, 10, 12, 13, 14, 16] ∧
     ¬ (∀ i, i < (leakStep p).1.gs.g.nextId → ((leakStep p).1.gs.g.nodes.get i).freed = true) ∧
     leakCount (leakStep p).1 = 13 ∧ (stepR p .leak).2 = "leak=13") :=
  ⟨reach_runItems _ {} .init, reach_runItems _ {} .init, by decide +kernel⟩

end Struct
end SodiumVerif
