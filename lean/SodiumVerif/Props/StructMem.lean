/-
  Memory-safety and no-leak theorems for the structural model `Model/Struct.lean` (level L-struct):
  whatever API script is run, the collector state the model builds is one a contract-respecting
  client of the collector can reach (`GcScript.Reachable`), so the soundness theorem (`Props/C08`),
  the exact-count and completeness theorems (`Props/C07`) apply to it; and a `leakcheck` that leaves
  no listener rooted frees every object.
-/
import SodiumVerif.Lemmas.StructReach

namespace SodiumVerif
namespace Struct
open GcScript Gc

/-! ### every script state is reachable -/

theorem reach_leakStep (p : PSt) (h : Reachable p.gs) : Reachable (leakStep p).1.gs := by
  have h1 : Reachable (runG p (leakOps p)).gs := reach_runG p _ h
  exact reach_applyE (o := .collect)
    (x := (zeroAll (leakStep p).2 (dropAll (runG p (leakOps p)).kinds (leakStep p).2
      ((runG p (leakOps p)).gs, (runG p (leakOps p)).err)).1, _))
    (reach_zeroAll _ (reach_dropAll _ _ _ h1)) trivial

theorem reach_step (p : PSt) (line : String) (h : Reachable p.gs) :
    Reachable (step p line).1.gs := by
  unfold step
  dsimp only
  split
  · exact .init
  · split
    · split
      · exact reach_runG _ _ h
      · exact reach_runG _ _ h
    · exact reach_runG _ _ h
    · exact h
    · split
      · exact h
      · exact reach_runG _ _ h
    · exact h
    · exact h
    · exact h
    · exact h
    · exact reach_leakStep p h

theorem reach_steps : ∀ (lines : List String) (p : PSt), Reachable p.gs →
    Reachable (lines.foldl (fun p l => (step p l).1) p).gs := by
  intro lines
  induction lines with
  | nil => intro p h; exact h
  | cons l r ih => intro p h; exact ih _ (reach_step p l h)

/-- **the collector state of every API script is a reachable client state** -/
theorem run_reachable (lines : List String) : Reachable (run lines).gs :=
  reach_steps lines {} .init

/-! ### corollaries: the collector theorems hold of every script state -/

/-- **memory safety**: after any API script the collector invariant holds, the collector has not
    panicked, and every object the harness holds a handle on is allocated, not freed, and its
    count covers the handles -/
theorem struct_sound (lines : List String) :
    let s := (run lines).gs
    GcInv s.g ∧ s.g.panic = none ∧
    ∀ a, 0 < s.handles.get a →
      a < s.g.nextId ∧ (s.g.nodes.get a).freed = false ∧ s.handles.get a ≤ ext s.g a :=
  script_sound (run_reachable lines)

/-- **exact counts**: the external count of every unfreed object is exactly the number of handles
    the script holds on it -/
theorem struct_counts_exact (lines : List String) (a : Nat)
    (hf : ((run lines).gs.g.nodes.get a).freed = false) :
    ext (run lines).gs.g a = (run lines).gs.handles.get a :=
  handles_exact (run_reachable lines) a hf

/-- the model's fuel flag is never set -/
theorem struct_oof (lines : List String) : (run lines).gs.g.oof = false :=
  reachable_oof (run_reachable lines)

/-- **no garbage survives a collection**: after a collection in the state of any API script, every
    allocated unfreed object is reachable, along counted references, from an object the script
    holds a handle on -/
theorem struct_gc_complete (lines : List String) (s' : GcScript.St)
    (hc : apply (run lines).gs .collect = some s') :
    Reachable s' ∧ s'.g.oof = false ∧
    ∀ i, i < s'.g.nextId → (s'.g.nodes.get i).freed = false →
      ∃ r, 0 < s'.handles.get r ∧ Reach s'.g r i :=
  no_garbage_after_collect (run_reachable lines) hc

/-- a held object is never lost -/
theorem struct_held_not_freed (lines : List String) (a : Nat)
    (h : 0 < (run lines).gs.handles.get a) :
    a < (run lines).gs.g.nextId ∧ ((run lines).gs.g.nodes.get a).freed = false :=
  let ⟨_, _, hh⟩ := struct_sound lines
  ⟨(hh a h).1, (hh a h).2.1⟩

/-! ### the leak theorem -/

/-- `leakcheck` from a reachable state, when no listener stays rooted: every allocated object is
    freed -/
theorem leakStep_frees_all (p : PSt) (h : Reachable p.gs) (hk : (leakStep p).2 = []) :
    ∀ i, i < (leakStep p).1.gs.g.nextId → ((leakStep p).1.gs.g.nodes.get i).freed = true := by
  have h1 : Reachable (runG p (leakOps p)).gs := reach_runG p _ h
  -- the state just before the final collection
  have e : (leakStep p).1.gs =
      (applyE (zeroAll (leakStep p).2 (dropAll (runG p (leakOps p)).kinds (leakStep p).2
        ((runG p (leakOps p)).gs, (runG p (leakOps p)).err)).1,
        (dropAll (runG p (leakOps p)).kinds (leakStep p).2
        ((runG p (leakOps p)).gs, (runG p (leakOps p)).err)).2) .collect).1 := rfl
  rw [hk] at e
  rw [e, applyE_collect]
  have hx : Reachable (dropAll (runG p (leakOps p)).kinds []
      ((runG p (leakOps p)).gs, (runG p (leakOps p)).err)).1 := reach_dropAll _ _ _ h1
  generalize (dropAll (runG p (leakOps p)).kinds []
    ((runG p (leakOps p)).gs, (runG p (leakOps p)).err)) = x at *
  have hz : Reachable (zeroAll [] x.1) := reach_zeroAll [] hx
  have hd := drop_all_collect_frees_all hz (fun a ha => zeroAll_nil_handles x.1 a ha)
  intro i hi
  exact hd.2 i (by rw [← collectCycles_nextId hz]; exact hi)

/-- **no leak**: if the `leakcheck` of an API script leaves no listener rooted (the harness could
    unlisten every listener), it frees every object the script ever allocated -/
theorem leakcheck_frees_all (lines : List String) (hk : (leakStep (run lines)).2 = []) :
    let p' := (leakStep (run lines)).1
    ∀ i, i < p'.gs.g.nextId → (p'.gs.g.nodes.get i).freed = true :=
  leakStep_frees_all (run lines) (run_reachable lines) hk

theorem leakCount_zero_of_all_freed (p : PSt)
    (h : ∀ i, i < p.gs.g.nextId → (p.gs.g.nodes.get i).freed = true) : leakCount p = 0 := by
  unfold leakCount
  simp only [List.length_eq_zero_iff, List.filter_eq_nil_iff, List.mem_range]
  intro i hi
  simp [State.node, h i hi]

/-- … so the harness's `leak=` answer is `0` -/
theorem leakcheck_count_zero (lines : List String) (hk : (leakStep (run lines)).2 = []) :
    leakCount (leakStep (run lines)).1 = 0 :=
  leakCount_zero_of_all_freed _ (leakcheck_frees_all lines hk)

/-! ### non-vacuity -/

/-- what `ssink s` then `accum c s …` compile to: the sink `0`, then loop stream `1`, loop object
    `2`, hold node `3`, snapshot node `4`, with the cycle `3 → 1 → 4 → 3` -/
def exAccumOps : List GOp :=
  [.new "Stream::new", .sdeps 0 [], .eot,
   .inc 0, .new "Stream::new", .sdeps 1 [], .new "StreamLoop::new", .edge 2 1,
   .new "Cell::hold", .edge 3 1, .edge 3 1, .edge 3 1, .sdeps 3 [1],
   .new "Stream::map", .edge 4 0, .edge 4 0, .edge 4 3, .sdeps 4 [0],
   .edge 1 4, .edge 1 4, .sadd 1 4, .dec 4, .dec 1, .dec 2, .dec 0, .eot]

/-- the list above is the compiler's output (word lists, no string parsing) -/
example :
    (match compile [] 0 ["ssink", "s"] with | .ops l _ => l | _ => []) ++
    (match compile [("s", .ssink 0)] 1 ["accum", "c", "s", "0", "add"] with
      | .ops l _ => l | _ => []) = exAccumOps := by decide +kernel

/-- the state after the recipe (handles: one on the sink `0`, one on the hold node `3`) -/
def exAccum : PSt := runG {} exAccumOps

/-- the recipe runs without a structural error, in a reachable state; once the script's two
    handles are dropped the cycle `1, 3, 4` is garbage kept alive by its own counts (no handle,
    not freed, count > 0) — and a collection frees every object -/
example :
    exAccum.err = false ∧ Reachable exAccum.gs ∧
    exAccum.gs.handles.get 0 = 1 ∧ exAccum.gs.handles.get 3 = 1 ∧
    (let p := runG exAccum [.dec 3, .dec 0]
     p.err = false ∧ Reachable p.gs ∧
     (∀ a, a < p.gs.g.nextId → p.gs.handles.get a = 0) ∧
     (∀ i, i ∈ [1, 3, 4] → (p.gs.g.nodes.get i).freed = false ∧ 0 < (p.gs.g.nodes.get i).rc) ∧
     1 ∈ (p.gs.g.nodes.get 3).owned ∧ 4 ∈ (p.gs.g.nodes.get 1).owned ∧
       3 ∈ (p.gs.g.nodes.get 4).owned) ∧
    (let p := runG exAccum [.dec 3, .dec 0, .collect]
     p.err = false ∧ p.gs.g.nextId = 5 ∧
     ∀ i, i < p.gs.g.nextId → (p.gs.g.nodes.get i).freed = true) := by
  have hr : Reachable exAccum.gs := reach_runG {} _ .init
  exact ⟨by decide +kernel, hr, by decide +kernel, by decide +kernel,
    ⟨by decide +kernel, reach_runG _ _ hr, by decide +kernel, by decide +kernel,
      by decide +kernel, by decide +kernel, by decide +kernel⟩,
    ⟨by decide +kernel, by decide +kernel, by decide +kernel⟩⟩

/-- the hypotheses of `leakStep_frees_all` are satisfiable: with the script's environment, the
    `leakcheck` of the `accum` state keeps nothing, and the theorem gives `leak=0` -/
example :
    let p : PSt := { exAccum with env := [("c", .cell 3 1), ("s", .ssink 0)] }
    Reachable p.gs ∧ (leakStep p).2 = [] ∧ (leakStep p).1.gs.g.nextId = 5 ∧
    leakCount (leakStep p).1 = 0 := by
  intro p
  have hr : Reachable p.gs := reach_runG {} _ .init
  have hk : (leakStep p).2 = [] := by decide +kernel
  exact ⟨hr, hk, by decide +kernel,
    leakCount_zero_of_all_freed _ (leakStep_frees_all p hr hk)⟩

/-- what `ssink s` then `listen l s` compile to: sink `0`, listen node `1`, listener `2` (held by
    the script and by the context's keep-alive list) -/
def exListenOps : List GOp :=
  [.new "Stream::new", .sdeps 0 [], .eot, .inc 0, .new "Stream::listen", .edge 1 0, .edge 1 0, .sdeps 1 [0],
   .new "Listener::new", .edge 2 1, .dec 1, .inc 2, .dec 0, .eot]

example :
    (match compile [] 0 ["ssink", "s"] with | .ops l _ => l | _ => []) ++
    (match compile [("s", .ssink 0)] 1 ["listen", "l", "s"] with
      | .ops l _ => l | _ => []) = exListenOps := by decide +kernel

/-- a strong listener the script still holds is unlistened by `leakcheck`: nothing is kept and
    everything is freed; -/
example :
    let p : PSt := { runG {} exListenOps with
      env := [("l", .listener 2 1 true true), ("s", .ssink 0)] }
    p.err = false ∧ (leakStep p).2 = [] ∧ (leakStep p).1.err = false ∧
    ∀ i, i < (leakStep p).1.gs.g.nextId → ((leakStep p).1.gs.g.nodes.get i).freed = true := by
  intro p
  have hr : Reachable p.gs := reach_runG {} _ .init
  have hk : (leakStep p).2 = [] := by decide +kernel
  exact ⟨by decide +kernel, hk, by decide +kernel, leakStep_frees_all p hr hk⟩

/-- … and the hypothesis `keep = []` of the leak theorem is needed: once the script has dropped
    its handle on the strong listener (`drop l`), the context keeps it for good, `leakcheck`
    reports it as rooted, and the listener, its node and the sink survive the collection -/
example :
    let p0 : PSt := runG {} exListenOps
    let p : PSt := { runG p0 [.dec 2] with env := [("l", .rooted 2), ("s", .ssink 0)] }
    p.err = false ∧ (leakStep p).2 = [2] ∧ (leakStep p).1.err = false ∧
    (∀ i, i < 3 → ((leakStep p).1.gs.g.nodes.get i).freed = false) ∧
    leakCount (leakStep p).1 = 2 := by
  decide +kernel

end Struct
end SodiumVerif
