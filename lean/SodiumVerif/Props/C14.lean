/-
  C14 — transaction brackets balance; the context is quiescent after the outermost close.
  Property theorems about M_txn (`Model/Txn.lean`).
-/
import SodiumVerif.Model.Txn
import SodiumVerif.Gen.Facts
import SodiumVerif.Lemmas.TxnBasic

namespace SodiumVerif
namespace Txn

variable {α : Type}

/-- C14.1 — an inner close (depth ≥ 2) only decrements the depth: no closure runs, no queue changes,
    no `end_of_transaction`, no collection. -/
theorem leave_inner (q : α → Queue) (body : α → List α) (upd : List α) (fuel : Nat) (c : Ctx α)
    (h : 2 ≤ c.depth) : leave q body upd (fuel + 1) c = { c with depth := c.depth - 1 } :=
  leave_of_two_le q body upd fuel c h

example : leave Act.queue exBody exUpd 3 { exCtx with depth := 2 } = { exCtx with depth := 1 } := by
  decide

/-- C14.2 — after the outermost close the context is quiescent (depth 0, the three queues empty,
    `allow = 0`), whatever the propagation pushes — `pre_eot` closures included: they are run after
    the propagation, and so are the closures they push in turn —; no fuel ran out, `collect_cycles`
    ran exactly once (at the very end, although nested transactions ran), and `end_of_transaction`
    ran once for the outer transaction plus once per post closure run, transitively (`cnt`).
    Hypotheses: nested bodies are well-founded, fuel exceeds the rank of every queued `pre_eot` and
    post closure. -/
theorem quiescent_after_close (q : α → Queue) (body : α → List α) (rank : α → Nat)
    (hbody : ∀ a, ∀ b ∈ body a, rank b < rank a) (fuel : Nat) (upd : List α) (c : Ctx α)
    (hd : c.depth = 1) (ha : c.allow = 0) (ho : c.oof = false)
    (hfuelPre : ∀ a ∈ c.preEot ++ onQ q .preEot upd, rank a < fuel)
    (hfuel : ∀ a ∈ c.post ++ onQ q .post upd, rank a < fuel) :
    quiescent (leave q body upd (fuel + 1) c) ∧
    (leave q body upd (fuel + 1) c).oof = false ∧
    (leave q body upd (fuel + 1) c).collects = c.collects + 1 ∧
    (leave q body upd (fuel + 1) c).eots
      = c.eots + 1 + ((postPart q body upd fuel c).map (cnt q body fuel)).sum ∧
    c.eots + 1 + (c.post ++ onQ q .post upd).length ≤ (leave q body upd (fuel + 1) c).eots := by
  rw [leave_closed q body rank hbody fuel upd c hd hfuelPre hfuel]
  have := length_le_sum_cnt q body fuel (postPart q body upd fuel c)
  have hlen := (sublist_postPart q body upd fuel c).length_le
  refine ⟨?_, ?_, ?_, ?_, ?_⟩
  · simp [quiescent, closed, ha]
  · simpa [closed] using ho
  · simp [closed, ha]
  · simp [closed]
  · simp only [closed]; omega

/-- the hypotheses are satisfiable … -/
example := quiescent_after_close Act.queue exBody exRank exBody_wf 2 exUpd exCtx rfl rfl rfl
  (by decide) (by decide)

/-- … and the conclusion is not trivial: three `end_of_transaction`s (outer, `deferredSend 1 5`,
    `userPost 9`), one collection -/
example : quiescent (leave Act.queue exBody exUpd 3 exCtx)
    ∧ (leave Act.queue exBody exUpd 3 exCtx).eots = 3
    ∧ (leave Act.queue exBody exUpd 3 exCtx).collects = 1
    ∧ (leave Act.queue exBody exUpd 3 exCtx).log
        = [.catchUpHold 3, .commitHold 7, .clearFiring 0, .onceDetach 4,
           .deferredSend 1 5, .clearFiring 1, .commitHold 2, .userPost 9] := by decide

/-- a propagation that pushes a `pre_eot` closure (`exUpdPre` contains `catchUpHold 7`: a handler
    builds a hold): the theorem applies … -/
example := quiescent_after_close Act.queue exBody exRank exBody_wf 2 exUpdPre exCtx rfl rfl rfl
  (by decide) (by decide)

/-- … the closure is logged after the queued `pre_eot` closure and before the `pre_post` closures,
    and the result is quiescent -/
example : quiescent (leave Act.queue exBody exUpdPre 3 exCtx)
    ∧ (leave Act.queue exBody exUpdPre 3 exCtx).eots = 3
    ∧ (leave Act.queue exBody exUpdPre 3 exCtx).collects = 1
    ∧ (leave Act.queue exBody exUpdPre 3 exCtx).log
        = [.catchUpHold 3, .catchUpHold 7, .commitHold 7, .clearFiring 0, .onceDetach 4,
           .deferredSend 1 5, .clearFiring 1, .commitHold 2, .userPost 9] := by decide

/-- the former counterexample (a `pre_eot` closure pushed *by the propagation* when no post closure
    is queued used to stay on its queue after the outermost close): it is run, the context is
    quiescent -/
example : quiescent (leave Act.queue exBody [.catchUpHold 1] 3 ({ depth := 1 } : Ctx Act))
    ∧ (leave Act.queue exBody [.catchUpHold 1] 3 ({ depth := 1 } : Ctx Act)).log
        = [.catchUpHold 1] := by
  decide

/-- `pre_eot` closures that push (`exBodyPre`): the drains run until the queue is empty -/
example := quiescent_after_close Act.queue exBodyPre exRankPre exBodyPre_wf 4 exUpdPre
  { exCtx with preEot := [.switchInit 2] } rfl rfl rfl (by decide) (by decide)

/-- C14.2, nested case — a close at depth 1 while `end_of_transaction` of an enclosing transaction
    is running (`allow > 0`): the nested `end_of_transaction` empties the queues, brings the depth
    back to 0 and returns `allow` unchanged; it does **not** collect. -/
theorem nested_close_transparent (q : α → Queue) (body : α → List α) (rank : α → Nat)
    (hbody : ∀ a, ∀ b ∈ body a, rank b < rank a) (fuel : Nat) (upd : List α) (c : Ctx α)
    (hd : c.depth = 1) (ha : c.allow ≠ 0)
    (hfuelPre : ∀ a ∈ c.preEot ++ onQ q .preEot upd, rank a < fuel)
    (hfuel : ∀ a ∈ c.post ++ onQ q .post upd, rank a < fuel) :
    let r := leave q body upd (fuel + 1) c
    r.depth = 0 ∧ r.preEot = [] ∧ r.prePost = [] ∧ r.post = [] ∧
    r.allow = c.allow ∧ r.collects = c.collects ∧ r.oof = c.oof := by
  intro r
  have hr : r = closed q body upd fuel c :=
    leave_closed q body rank hbody fuel upd c hd hfuelPre hfuel
  rw [hr]
  simp [closed, ha]

example : (leave Act.queue exBody exUpd 3 { exCtx with allow := 1 }).collects = 0
    ∧ (leave Act.queue exBody exUpd 3 { exCtx with allow := 1 }).allow = 1 := by decide

example : (leave Act.queue exBody exUpdPre 3 { exCtx with allow := 1 }).collects = 0
    ∧ (leave Act.queue exBody exUpdPre 3 { exCtx with allow := 1 }).allow = 1
    ∧ (leave Act.queue exBody exUpdPre 3 { exCtx with allow := 1 }).preEot = [] := by decide

/-- C14.3 — `Scoped.close` is idempotent: a second `close` (e.g. the one of `drop`), with whatever
    arguments, returns the object and the context unchanged. -/
theorem close_idempotent (t : Scoped) (q q' : α → Queue) (body body' : α → List α)
    (upd upd' : List α) (fuel fuel' : Nat) (c : Ctx α) :
    (t.close q body upd fuel c).1.close q' body' upd' fuel' (t.close q body upd fuel c).2
      = t.close q body upd fuel c := by
  cases t with
  | mk done => cases done <;> simp [Scoped.close]

/-- after `close` the object is done -/
theorem close_done (t : Scoped) (q : α → Queue) (body : α → List α) (upd : List α) (fuel : Nat)
    (c : Ctx α) : (t.close q body upd fuel c).1.done = true := by
  cases t with
  | mk done => cases done <;> simp [Scoped.close]

/-- the first `close` of a scoped transaction is `leave` -/
theorem close_fresh (q : α → Queue) (body : α → List α) (upd : List α) (fuel : Nat) (c : Ctx α) :
    ({ done := false } : Scoped).close q body upd fuel c
      = ({ done := true }, leave q body upd fuel c) := rfl

example : (({} : Scoped).close Act.queue exBody exUpd 3 exCtx).2.eots = 3
    ∧ ((({} : Scoped).close Act.queue exBody exUpd 3 exCtx).1.close Act.queue exBody exUpd 3
        (({} : Scoped).close Act.queue exBody exUpd 3 exCtx).2).2.eots = 3 := by decide

/-- C14.4 — every well-bracketed word (never more leaves than enters, equal totals, pushes only
    inside a bracket) executed from a quiescent context ends in a quiescent context, without running
    out of fuel; `collect_cycles` ran exactly once per return of the depth to zero and
    `end_of_transaction` at least as often. -/
theorem nesting_balanced (q : α → Queue) (body : α → List α) (rank : α → Nat)
    (hbody : ∀ a, ∀ b ∈ body a, rank b < rank a) (fuel : Nat) (w : List (Op α)) (c : Ctx α)
    (hc : quiescent c) (ho : c.oof = false) (hw : wellBracketed 0 w = true)
    (hfuel : ∀ a ∈ pushes w, q a ≠ .prePost → rank a < fuel) :
    quiescent (run q body (fuel + 1) w c) ∧ (run q body (fuel + 1) w c).oof = false ∧
    (run q body (fuel + 1) w c).collects = c.collects + closes 0 w ∧
    c.eots + closes 0 w ≤ (run q body (fuel + 1) w c).eots := by
  obtain ⟨h0, h1, h2, h3, h4⟩ := hc
  have := run_wellBracketed q body rank hbody fuel w c (by rw [h0]; exact hw) h4 ho
    (fun _ => ⟨h1, h2, h3⟩) (by simp [h1]) (by simp [h3]) hfuel
  rw [h0] at this
  exact this

/-- a word with nesting, two outermost closes, a deferred send and a user post -/
def exWord : List (Op Act) :=
  [.enter, .push (.commitHold 7), .enter, .push (.deferredSend 1 5), .leave, .push (.userPost 9),
   .leave, .enter, .leave]

example := nesting_balanced Act.queue exBody exRank exBody_wf 2 exWord {} (by decide) rfl
  (by decide) (by decide)

example : closes 0 exWord = 2 ∧ (run Act.queue exBody 3 exWord {}).collects = 2
    ∧ (run Act.queue exBody 3 exWord {}).eots = 4
    ∧ (run Act.queue exBody 3 exWord {}).log
        = [.commitHold 7, .deferredSend 1 5, .clearFiring 1, .commitHold 2, .userPost 9] := by
  decide

/-- a word that also pushes `pre_eot` closures, one of which (`switchInit 2`) pushes in turn -/
def exWordPre : List (Op Act) :=
  [.enter, .push (.catchUpHold 3), .enter, .push (.switchInit 2), .leave, .push (.userPost 9),
   .leave, .enter, .push (.userPost 8), .leave]

example := nesting_balanced Act.queue exBodyPre exRankPre exBodyPre_wf 5 exWordPre {} (by decide) rfl
  (by decide) (by decide)

example : closes 0 exWordPre = 2 ∧ (run Act.queue exBodyPre 6 exWordPre {}).collects = 2
    ∧ quiescent (run Act.queue exBodyPre 6 exWordPre {})
    ∧ (run Act.queue exBodyPre 6 exWordPre {}).log
        = [.catchUpHold 3, .switchInit 2, .switchInit 3, .resetVisited 2, .resetVisited 3,
           .userPost 9, .userPost 6,
           .userPost 8, .switchInit 5, .commitHold 8, .resetVisited 5, .userPost 6] := by
  decide

/-- C14.4, bracket form — a word `enter :: w ++ [leave]` whose inner part keeps the transaction open
    and returns to the depth it started at is the transaction that pushes `pushes w`: the queues
    accumulate, the log is unchanged until the final `leave` (cf. C01). -/
theorem bracket_eq_transaction (q : α → Queue) (body : α → List α) (fuel : Nat) (w : List (Op α))
    (c : Ctx α) (hopen : staysOpen (c.depth + 1) w = true)
    (hback : depthAfter (c.depth + 1) w = c.depth + 1) :
    (run q body (fuel + 1) (.enter :: w) c).log = c.log ∧
    run q body (fuel + 1) (.enter :: w ++ [.leave]) c
      = transaction q body [] (pushes w) (fuel + 1) c := by
  have h := run_open q body fuel w (enter c) (by simpa [enter] using hopen)
  constructor
  · rw [run_cons, step, h]; rfl
  · rw [List.cons_append, run_cons, run_append, step, h, transaction, foldl_push]
    simp [run_cons, run_nil, step, enter, hback]

example : staysOpen 1 (exWord.drop 1 |>.take 5) = true ∧ depthAfter 1 (exWord.drop 1 |>.take 5) = 1
    ∧ (run Act.queue exBody 3 (exWord.take 6) {}).log = []
    ∧ (run Act.queue exBody 3 (exWord.take 7) {}).log.length = 5 := by decide

/-- C14.5 — an empty transaction on a quiescent context is silent: it only counts one
    `end_of_transaction` and one collection. -/
theorem empty_txn_silent (q : α → Queue) (body : α → List α) (fuel : Nat) (c : Ctx α)
    (hc : quiescent c) :
    transaction q body [] [] (fuel + 1) c
      = { c with eots := c.eots + 1, collects := c.collects + 1 } ∧
    (transaction q body [] [] (fuel + 1) c).log = c.log := by
  obtain ⟨h0, h1, h2, h3, h4⟩ := hc
  have : transaction q body [] [] (fuel + 1) c
      = { c with eots := c.eots + 1, collects := c.collects + 1 } := by
    apply Ctx.ext' <;> simp [transaction, leave, runPre, enter, runPosts, h0, h1, h2, h3, h4]
  exact ⟨this, by rw [this]⟩

example : (transaction Act.queue exBody [] [] 1 ({ log := [.userPost 0] } : Ctx Act)).log
    = [.userPost 0] := by decide

/-- source fact: scoped `Transaction::close` is guarded by its `done` flag (the `if t.done` of
    `Scoped.close`) -/
theorem scoped_close_once : Facts.scopedCloseOnce = true := rfl

end Txn
end SodiumVerif
