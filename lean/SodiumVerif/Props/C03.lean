/-
  C03 — glitch freedom.  Property theorems about M_sched (`Model/Sched.lean`).
-/
import SodiumVerif.Model.Sched
import SodiumVerif.Model.SchedScript
import SodiumVerif.Lemmas.SchedInv

namespace SodiumVerif
namespace Sched

/-- the 4-node graph of finding D1: sources 0 and 1, `2 = f(0,1)`, `3 = g(0,2)` -/
def d1Graph : St Unit := newNode [0, 2] (newNode [0, 1] (newNode [] (newNode [] {})))

/-- D1, machine-checked: with the depth-first scheduler of 2.1.2, firing source 1 then source 0
    runs the update of node 3 *before* the update of its dependency 2 … -/
theorem dfs_glitch_witness :
    (transaction true (SchedScript.F d1Graph) [(1, ()), (0, ())] d1Graph).log = [3, 2] := by decide

/-- … while the queue scheduler runs 2 before 3 for both send orders. -/
theorem queue_no_glitch_on_d1 :
    (transaction false (SchedScript.F d1Graph) [(1, ()), (0, ())] d1Graph).log = [2, 3] ∧
    (transaction false (SchedScript.F d1Graph) [(0, ()), (1, ())] d1Graph).log = [2, 3] := by decide

/-! ## Glitch freedom of the repaired (queue) scheduler, for every graph

  Setting (`Lemmas/SchedInv.lean`): `g : G` is the graph stored in the state (`HasGraph g s`, e.g.
  `g = graphOf s`), a *source* is a node with `g.deps j = []`.  `WF g F rank n depth`: `rank` strictly
  decreases along `deps` and is `< depth`; every `i` with `d ∈ deps i` occurs in `dependents d`; `F i` reads
  only the slots of `deps i`; all dependents are `< n`.  `Init g n s`: nothing visited, non-source nodes have
  `val = none`, `changed = false`, every changed node is in the queue (entries `< n`, any order, duplicates
  allowed), `oof = false`, `log = []`.  No assumption on the order of any `deps`/`dependents` list.

  The scheduler never runs the update of a source (`[].any _ = false`), so no hypothesis "`F` gives no value
  to sources" is needed.
-/

variable {V : Type}

/-- core: the drain loop ends in a state with empty queue that satisfies the scheduler invariant with
    nothing in progress and nothing pending, and only added `visited` flags / non-source values -/
theorem drain_final {g : G} {F : Nat → (Nat → Option V) → Option V} {rank : Nat → Nat} {n depth fuel : Nat}
    {s : St V} (wf : WF g F rank n depth) (hi : Init g n s) (hfuel : n + 2 ≤ fuel) :
    Inv g F (drain false F depth fuel s) noP [] ∧ (drain false F depth fuel s).queue = [] ∧
    Frame g s (drain false F depth fuel s) :=
  drain_ok wf fuel s hi.inv hi.qbnd (by have := unvisited_le_n n s; omega)

/-- **C03 (i)–(iv)** for `drain false`:
    (i) it terminates within `n + 2` rounds and recursion depth `depth` (`oof` stays `false`, queue empty);
    (ii) every update closure runs at most once;
    (iii) every non-source node ends with `val = if some dependency changed then F (final slots) else none`
         — the update of a node saw the final values of all its dependencies, or did not run at all —
         and `changed = val.isSome`; source slots are untouched;
    (iv) every node with a changed dependency was visited; an unvisited non-source node has no changed
         dependency and `val = none`. -/
theorem sched_glitch_free {g : G} {F : Nat → (Nat → Option V) → Option V} {rank : Nat → Nat} {n depth fuel : Nat}
    {s : St V} (wf : WF g F rank n depth) (hi : Init g n s) (hfuel : n + 2 ≤ fuel) :
    (drain false F depth fuel s).oof = false ∧
    (drain false F depth fuel s).queue = [] ∧
    (drain false F depth fuel s).log.Nodup ∧
    FixedPoint g F (drain false F depth fuel s) ∧
    (∀ j, g.deps j = [] →
      ((drain false F depth fuel s).nodes.get j).val = (s.nodes.get j).val ∧
      ((drain false F depth fuel s).nodes.get j).changed = (s.nodes.get j).changed) ∧
    (∀ j, (g.deps j).any (fun d => ((drain false F depth fuel s).nodes.get d).changed) = true →
      ((drain false F depth fuel s).nodes.get j).visited = true) ∧
    (∀ j, g.deps j ≠ [] → ((drain false F depth fuel s).nodes.get j).visited = false →
      ((drain false F depth fuel s).nodes.get j).val = none ∧
      (g.deps j).any (fun d => ((drain false F depth fuel s).nodes.get d).changed) = false) := by
  obtain ⟨hinv, hq, fr⟩ := drain_final wf hi hfuel
  refine ⟨fr.oof.trans hi.oof, hq, hinv.lognd, hinv.fixedPoint hq, fun j hj => fr.keep j (Or.inr hj),
    hinv.complete hq, fun j hs hv => ⟨(hinv.fresh j (Or.inl hv) hs).1, ?_⟩⟩
  cases h : (g.deps j).any (fun d => ((drain false F depth fuel s).nodes.get d).changed) with
  | false => rfl
  | true => rw [hinv.complete hq j h] at hv; cases hv

theorem sched_terminates {g : G} {F : Nat → (Nat → Option V) → Option V} {rank : Nat → Nat} {n depth fuel : Nat}
    {s : St V} (wf : WF g F rank n depth) (hi : Init g n s) (hfuel : n + 2 ≤ fuel) :
    (drain false F depth fuel s).oof = false ∧ (drain false F depth fuel s).queue = [] :=
  ⟨(sched_glitch_free wf hi hfuel).1, (sched_glitch_free wf hi hfuel).2.1⟩

theorem sched_runs_once {g : G} {F : Nat → (Nat → Option V) → Option V} {rank : Nat → Nat} {n depth fuel : Nat}
    {s : St V} (wf : WF g F rank n depth) (hi : Init g n s) (hfuel : n + 2 ≤ fuel) :
    (drain false F depth fuel s).log.Nodup :=
  (sched_glitch_free wf hi hfuel).2.2.1

/-- **C03 (ii), sharpened**: the update closure of `j` runs (exactly once, by `sched_runs_once`) iff one of
    its dependencies changed in this transaction. -/
theorem sched_runs_iff {g : G} {F : Nat → (Nat → Option V) → Option V} {rank : Nat → Nat} {n depth fuel : Nat}
    {s : St V} (wf : WF g F rank n depth) (hi : Init g n s) (hfuel : n + 2 ≤ fuel) (j : Nat) :
    j ∈ (drain false F depth fuel s).log ↔
      (g.deps j).any (fun d => ((drain false F depth fuel s).nodes.get d).changed) = true := by
  obtain ⟨hinv, hq, _⟩ := drain_final wf hi hfuel
  exact hinv.log_iff hq j

theorem deps_nil_of_perm {g g' : G} (hperm : ∀ i d, d ∈ g.deps i ↔ d ∈ g'.deps i) {j : Nat}
    (h : g.deps j = []) : g'.deps j = [] := by
  cases hd : g'.deps j with
  | nil => rfl
  | cons a t =>
    have : a ∈ g.deps j := (hperm j a).mpr (by rw [hd]; exact List.mem_cons_self)
    rw [h] at this; cases this

/-- **C03, order independence** for `drain false`: two runs on graphs whose `deps` lists have the same
    members (any order / multiplicity; `dependents` lists and queues arbitrary within `WF`/`Init`), started
    with the same source slots, end with the same `val` and `changed` in every node. -/
theorem sched_result_unique {g g' : G} {F : Nat → (Nat → Option V) → Option V} {rank rank' : Nat → Nat}
    {n n' depth depth' fuel fuel' : Nat} {s s' : St V}
    (wf : WF g F rank n depth) (wf' : WF g' F rank' n' depth')
    (hperm : ∀ i d, d ∈ g.deps i ↔ d ∈ g'.deps i)
    (hi : Init g n s) (hi' : Init g' n' s') (hfuel : n + 2 ≤ fuel) (hfuel' : n' + 2 ≤ fuel')
    (hsrc : ∀ j, g.deps j = [] →
      (s'.nodes.get j).val = (s.nodes.get j).val ∧ (s'.nodes.get j).changed = (s.nodes.get j).changed) :
    ∀ j, ((drain false F depth' fuel' s').nodes.get j).val = ((drain false F depth fuel s).nodes.get j).val ∧
      ((drain false F depth' fuel' s').nodes.get j).changed = ((drain false F depth fuel s).nodes.get j).changed := by
  obtain ⟨_, _, _, hfp, hkeep, _⟩ := sched_glitch_free wf hi hfuel
  obtain ⟨_, _, _, hfp', hkeep', _⟩ := sched_glitch_free wf' hi' hfuel'
  refine fixedPoint_unique wf.dag wf.loc hperm hfp hfp' (fun j hj => ?_)
  have h1 := hkeep j hj
  have h2 := hkeep' j (deps_nil_of_perm hperm hj)
  have h3 := hsrc j hj
  exact ⟨h2.1.trans (h3.1.trans h1.1.symm), h2.2.trans (h3.2.trans h1.2.symm)⟩

/-- **C03** for a whole `transaction false` (fire the sources `srcs`, drain with the model's own fuel
    `n·n + n + 2` and depth `n + 2`, reset `visited`): no fuel runs out, every update runs at most once, the
    value slots are the fixed point of the update functions over the fired source slots. -/
theorem transaction_glitch_free {g : G} {F : Nat → (Nat → Option V) → Option V} {rank : Nat → Nat}
    {s : St V} {srcs : List (Nat × V)} (wf : WF g F rank s.n (s.n + 2)) (hi : Init g s.n s)
    (hs : ∀ p ∈ srcs, g.deps p.1 = [] ∧ p.1 < s.n) :
    (transaction false F srcs s).oof = false ∧
    (transaction false F srcs s).queue = [] ∧
    (transaction false F srcs s).log.Nodup ∧
    FixedPoint g F (transaction false F srcs s) ∧
    (∀ j, g.deps j = [] →
      ((transaction false F srcs s).nodes.get j).val = ((fireSources srcs s).nodes.get j).val ∧
      ((transaction false F srcs s).nodes.get j).changed = ((fireSources srcs s).nodes.get j).changed) := by
  rw [transaction_eq, fireSources_n]
  have hi1 : Init g s.n (fireSources srcs s) := hi.fireSources srcs s hs
  obtain ⟨h1, h2, h3, h4, h5, _⟩ := sched_glitch_free (fuel := s.n * s.n + s.n + 2) wf hi1 (by omega)
  generalize drain false F (s.n + 2) (s.n * s.n + s.n + 2) (fireSources srcs s) = s1 at h1 h2 h3 h4 h5 ⊢
  obtain ⟨r1, r2, r3, r4⟩ := resetVisited_spec s1
  refine ⟨r3.trans h1, r4.trans h2, by rw [r2]; exact h3, h4.congr r1, fun j hj => ?_⟩
  exact ⟨(r1 j).1.trans (h5 j hj).1, (r1 j).2.trans (h5 j hj).2⟩

theorem transaction_runs_iff {g : G} {F : Nat → (Nat → Option V) → Option V} {rank : Nat → Nat}
    {s : St V} {srcs : List (Nat × V)} (wf : WF g F rank s.n (s.n + 2)) (hi : Init g s.n s)
    (hs : ∀ p ∈ srcs, g.deps p.1 = [] ∧ p.1 < s.n) (j : Nat) :
    j ∈ (transaction false F srcs s).log ↔
      (g.deps j).any (fun d => ((transaction false F srcs s).nodes.get d).changed) = true := by
  rw [transaction_eq, fireSources_n]
  have hi1 : Init g s.n (fireSources srcs s) := hi.fireSources srcs s hs
  have h := sched_runs_iff (fuel := s.n * s.n + s.n + 2) wf hi1 (by omega) j
  generalize drain false F (s.n + 2) (s.n * s.n + s.n + 2) (fireSources srcs s) = s1 at h ⊢
  obtain ⟨r1, r2, _, _⟩ := resetVisited_spec s1
  have hc : (fun d => ((resetVisited s1).nodes.get d).changed) = (fun d => (s1.nodes.get d).changed) :=
    funext fun k => (r1 k).2
  rw [r2, hc]; exact h

/-- **C03, order independence** for `transaction false`: two transactions on states whose `deps` lists
    have the same members and whose fired source slots agree yield the same `val`/`changed` everywhere —
    the result does not depend on the order of any `deps`/`dependents` list nor on the order or
    duplication of the sends. -/
theorem transaction_result_unique {g g' : G} {F : Nat → (Nat → Option V) → Option V} {rank rank' : Nat → Nat}
    {s s' : St V} {srcs srcs' : List (Nat × V)}
    (wf : WF g F rank s.n (s.n + 2)) (wf' : WF g' F rank' s'.n (s'.n + 2))
    (hperm : ∀ i d, d ∈ g.deps i ↔ d ∈ g'.deps i)
    (hi : Init g s.n s) (hi' : Init g' s'.n s')
    (hs : ∀ p ∈ srcs, g.deps p.1 = [] ∧ p.1 < s.n) (hs' : ∀ p ∈ srcs', g'.deps p.1 = [] ∧ p.1 < s'.n)
    (hsrc : ∀ j, g.deps j = [] →
      ((fireSources srcs' s').nodes.get j).val = ((fireSources srcs s).nodes.get j).val ∧
      ((fireSources srcs' s').nodes.get j).changed = ((fireSources srcs s).nodes.get j).changed) :
    ∀ j, ((transaction false F srcs' s').nodes.get j).val = ((transaction false F srcs s).nodes.get j).val ∧
      ((transaction false F srcs' s').nodes.get j).changed = ((transaction false F srcs s).nodes.get j).changed := by
  obtain ⟨_, _, _, hfp, hkeep⟩ := transaction_glitch_free wf hi hs
  obtain ⟨_, _, _, hfp', hkeep'⟩ := transaction_glitch_free wf' hi' hs'
  refine fixedPoint_unique wf.dag wf.loc hperm hfp hfp' (fun j hj => ?_)
  have h1 := hkeep j hj
  have h2 := hkeep' j (deps_nil_of_perm hperm hj)
  have h3 := hsrc j hj
  exact ⟨h2.1.trans (h3.1.trans h1.1.symm), h2.2.trans (h3.2.trans h1.2.symm)⟩


/-! ### the hypotheses are satisfiable: `d1Graph`, rank = node id -/

theorem store_get_ge {α : Type} [Inhabited α] (st : Store α) (i : Nat) (h : st.arr.size ≤ i) :
    st.get i = default := by
  unfold Store.get
  rw [Array.getElem?_eq_none h]; rfl

theorem d1_node (i : Nat) : d1Graph.nodes.get i =
    match i with
    | 0 => { dependents := [2, 3] }
    | 1 => { dependents := [2] }
    | 2 => { deps := [0, 1], dependents := [3] }
    | 3 => { deps := [0, 2] }
    | _ => {} := by
  rcases i with _ | _ | _ | _ | i
  · rfl
  · rfl
  · rfl
  · rfl
  · exact store_get_ge _ _ (by have : d1Graph.nodes.arr.size = 4 := by decide
                               omega)

/-- the graph stored in `d1Graph` -/
def d1G : G := graphOf d1Graph

/-- rank = node id (nodes `≥ 4` do not exist) -/
def d1rank (i : Nat) : Nat := if i < 4 then i else 0

theorem scriptF_loc (s : St Unit) (i : Nat) (v v' : Nat → Option Unit)
    (h : ∀ d ∈ (graphOf s).deps i, v d = v' d) : SchedScript.F s i v = SchedScript.F s i v' := by
  unfold SchedScript.F
  rw [any_congr_mem (l := (s.nodes.get i).deps) (fun d hd => by rw [h d hd])]

theorem d1_wf : WF d1G (SchedScript.F d1Graph) d1rank 4 6 := by
  refine ⟨?_, ?_, ?_, scriptF_loc d1Graph, ?_⟩
  · intro i d h
    have h' : d ∈ (d1Graph.nodes.get i).deps := h
    rw [d1_node] at h'
    rcases i with _ | _ | _ | _ | i <;> simp at h'
    · rcases h' with rfl | rfl <;> decide
    · rcases h' with rfl | rfl <;> decide
  · intro i; unfold d1rank; split <;> omega
  · intro i d h
    have h' : d ∈ (d1Graph.nodes.get i).deps := h
    show i ∈ (d1Graph.nodes.get d).dependents
    rw [d1_node] at h'
    rcases i with _ | _ | _ | _ | i <;> simp at h'
    · rcases h' with rfl | rfl <;> decide
    · rcases h' with rfl | rfl <;> decide
  · intro d i h
    have h' : i ∈ (d1Graph.nodes.get d).dependents := h
    rw [d1_node] at h'
    rcases d with _ | _ | _ | _ | d <;> simp at h' <;> omega

theorem d1_init : Init d1G 4 d1Graph := by
  refine ⟨hasGraph_graphOf _, ?_, ?_, ?_, ?_, rfl, rfl⟩
  · intro j; rw [d1_node]; rcases j with _ | _ | _ | _ | j <;> rfl
  · intro j _; rw [d1_node]; rcases j with _ | _ | _ | _ | j <;> exact ⟨rfl, rfl⟩
  · intro j h; rw [d1_node] at h; rcases j with _ | _ | _ | _ | j <;> cases h
  · intro a h; cases h

theorem d1_srcs : ∀ p ∈ [(1, ()), (0, ())], d1G.deps p.1 = [] ∧ p.1 < 4 := by
  intro p hp
  simp only [List.mem_cons, List.not_mem_nil, or_false] at hp
  rcases hp with rfl | rfl <;> exact ⟨rfl, by decide⟩

example : WF d1G (SchedScript.F d1Graph) d1rank d1Graph.n (d1Graph.n + 2) := d1_wf
example : Init d1G 4 (fireSources [(1, ()), (0, ())] d1Graph) := d1_init.fireSources _ _ d1_srcs

/-- `sched_glitch_free` / `sched_terminates` / `sched_runs_once` / `sched_runs_iff` instantiated -/
example :
    (drain false (SchedScript.F d1Graph) 6 22 (fireSources [(1, ()), (0, ())] d1Graph)).oof = false ∧
    (drain false (SchedScript.F d1Graph) 6 22 (fireSources [(1, ()), (0, ())] d1Graph)).log.Nodup ∧
    FixedPoint d1G (SchedScript.F d1Graph)
      (drain false (SchedScript.F d1Graph) 6 22 (fireSources [(1, ()), (0, ())] d1Graph)) :=
  have h := sched_glitch_free (fuel := 22) d1_wf (d1_init.fireSources _ _ d1_srcs) (by decide)
  ⟨h.1, h.2.2.1, h.2.2.2.1⟩

example : (drain false (SchedScript.F d1Graph) 6 22 (fireSources [(1, ()), (0, ())] d1Graph)).oof = false :=
  (sched_terminates (fuel := 22) d1_wf (d1_init.fireSources _ _ d1_srcs) (by decide)).1

example : (drain false (SchedScript.F d1Graph) 6 22 (fireSources [(1, ()), (0, ())] d1Graph)).log.Nodup :=
  sched_runs_once (fuel := 22) d1_wf (d1_init.fireSources _ _ d1_srcs) (by decide)

example : 3 ∈ (drain false (SchedScript.F d1Graph) 6 22 (fireSources [(1, ()), (0, ())] d1Graph)).log ↔
    (d1G.deps 3).any (fun d =>
      ((drain false (SchedScript.F d1Graph) 6 22 (fireSources [(1, ()), (0, ())] d1Graph)).nodes.get d).changed) = true :=
  sched_runs_iff (fuel := 22) d1_wf (d1_init.fireSources _ _ d1_srcs) (by decide) 3

/-- `transaction_glitch_free` instantiated on the D1 scenario -/
example : FixedPoint d1G (SchedScript.F d1Graph)
    (transaction false (SchedScript.F d1Graph) [(1, ()), (0, ())] d1Graph) :=
  (transaction_glitch_free (s := d1Graph) d1_wf d1_init d1_srcs).2.2.2.1

/-- the same four nodes with every `deps` list registered in the opposite order -/
def d1Graph' : St Unit := newNode [2, 0] (newNode [1, 0] (newNode [] (newNode [] {})))

theorem d1'_node (i : Nat) : d1Graph'.nodes.get i =
    match i with
    | 0 => { dependents := [2, 3] }
    | 1 => { dependents := [2] }
    | 2 => { deps := [1, 0], dependents := [3] }
    | 3 => { deps := [2, 0] }
    | _ => {} := by
  rcases i with _ | _ | _ | _ | i
  · rfl
  · rfl
  · rfl
  · rfl
  · exact store_get_ge _ _ (by have : d1Graph'.nodes.arr.size = 4 := by decide
                               omega)

theorem d1_perm (i d : Nat) : d ∈ d1G.deps i ↔ d ∈ (graphOf d1Graph').deps i := by
  show d ∈ (d1Graph.nodes.get i).deps ↔ d ∈ (d1Graph'.nodes.get i).deps
  rw [d1_node, d1'_node]
  rcases i with _ | _ | _ | _ | i <;> simp <;> omega

/-- `sched_result_unique` / `fixedPoint_unique` instantiated: any state that is a fixed point for the
    reordered graph and agrees on the sources agrees with the result of the transaction everywhere -/
example (s' : St Unit) (h' : FixedPoint (graphOf d1Graph') (SchedScript.F d1Graph) s')
    (hsrc : ∀ j, d1G.deps j = [] →
      (s'.nodes.get j).val = ((transaction false (SchedScript.F d1Graph) [(1, ()), (0, ())] d1Graph).nodes.get j).val ∧
      (s'.nodes.get j).changed =
        ((transaction false (SchedScript.F d1Graph) [(1, ()), (0, ())] d1Graph).nodes.get j).changed) (j : Nat) :
    (s'.nodes.get j).val = ((transaction false (SchedScript.F d1Graph) [(1, ()), (0, ())] d1Graph).nodes.get j).val :=
  (fixedPoint_unique d1_wf.dag d1_wf.loc d1_perm
    (transaction_glitch_free (s := d1Graph) d1_wf d1_init d1_srcs).2.2.2.1 h' hsrc j).1

theorem d1'_wf : WF (graphOf d1Graph') (SchedScript.F d1Graph) d1rank 4 6 := by
  refine ⟨?_, d1_wf.depth, ?_, ?_, ?_⟩
  · intro i d h; exact d1_wf.dag i d ((d1_perm i d).mpr h)
  · intro i d h
    have h' : d ∈ (d1Graph'.nodes.get i).deps := h
    show i ∈ (d1Graph'.nodes.get d).dependents
    rw [d1'_node] at h'
    rcases i with _ | _ | _ | _ | i <;> simp at h'
    · rcases h' with rfl | rfl <;> decide
    · rcases h' with rfl | rfl <;> decide
  · intro i v v' h; exact d1_wf.loc i v v' (fun d hd => h d ((d1_perm i d).mp hd))
  · intro d i h
    have h' : i ∈ (d1Graph'.nodes.get d).dependents := h
    rw [d1'_node] at h'
    rcases d with _ | _ | _ | _ | d <;> simp at h' <;> omega

theorem d1'_init : Init (graphOf d1Graph') 4 d1Graph' := by
  refine ⟨hasGraph_graphOf _, ?_, ?_, ?_, ?_, rfl, rfl⟩
  · intro j; rw [d1'_node]; rcases j with _ | _ | _ | _ | j <;> rfl
  · intro j _; rw [d1'_node]; rcases j with _ | _ | _ | _ | j <;> exact ⟨rfl, rfl⟩
  · intro j h; rw [d1'_node] at h; rcases j with _ | _ | _ | _ | j <;> cases h
  · intro a h; cases h

/-- `transaction_result_unique` instantiated: reversed `deps` lists, sources sent in another order and
    source 0 sent twice — same value slots as the D1 transaction -/
example (j : Nat) :
    ((transaction false (SchedScript.F d1Graph) [(0, ()), (1, ()), (0, ())] d1Graph').nodes.get j).val =
    ((transaction false (SchedScript.F d1Graph) [(1, ()), (0, ())] d1Graph).nodes.get j).val := by
  refine (transaction_result_unique (s := d1Graph) (s' := d1Graph') d1_wf d1'_wf d1_perm d1_init d1'_init
    d1_srcs ?_ ?_ j).1
  · intro p hp
    simp only [List.mem_cons, List.not_mem_nil, or_false] at hp
    rcases hp with rfl | rfl | rfl <;> exact ⟨rfl, by decide⟩
  · intro k _
    rcases k with _ | _ | _ | _ | k
    · decide
    · decide
    · decide
    · decide
    · rw [store_get_ge (fireSources [(0, ()), (1, ()), (0, ())] d1Graph').nodes (k + 4)
          (by have : (fireSources [(0, ()), (1, ()), (0, ())] d1Graph').nodes.arr.size = 4 := by decide
              omega),
        store_get_ge (fireSources [(1, ()), (0, ())] d1Graph).nodes (k + 4)
          (by have : (fireSources [(1, ()), (0, ())] d1Graph).nodes.arr.size = 4 := by decide
              omega)]
      exact ⟨rfl, rfl⟩

end Sched
end SodiumVerif
