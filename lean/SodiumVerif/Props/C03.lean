/-
  C03 — glitch freedom.  Property theorems about M_sched (`Model/Sched.lean`).
-/
import SodiumVerif.Model.Sched
import SodiumVerif.Model.SchedScript

namespace SodiumVerif
namespace Sched

/-- the 4-node graph of finding D1: sources 0 and 1, `2 = f(0,1)`, `3 = g(0,2)` -/
def d1Graph : St Unit := newNode [0, 2] (newNode [0, 1] (newNode [] (newNode [] {})))

/-- D1, machine-checked: with the depth-first scheduler of 2.1.2, firing source 1 then source 0
    runs the update of node 3 *before* the update of its dependency 2 … -/
theorem dfs_glitch_witness :
    (transaction true (SchedScript.F d1Graph) [(1, ()), (0, ())] d1Graph).log = [3, 2] := by decide

/-- … while the queue scheduler runs 2 before 3 for both send orders. -/
theorem queue_no_glitch_on_d1 :
    (transaction false (SchedScript.F d1Graph) [(1, ()), (0, ())] d1Graph).log = [2, 3] ∧
    (transaction false (SchedScript.F d1Graph) [(0, ()), (1, ())] d1Graph).log = [2, 3] := by decide

end Sched
end SodiumVerif
