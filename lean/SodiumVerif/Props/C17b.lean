import SodiumVerif.Model.LazyHeap
namespace SodiumVerif.LazyHeap

theorem denF_fuel (es : List Expr) : ∀ n m i, i < n → i < m → denF n es i = denF m es i := by
  intro n
  induction n with
  | zero => intro m i h; omega
  | succ n ih =>
    intro m i hn hm
    cases m with
    | zero => omega
    | succ m =>
      simp only [denF]
      split
      · rfl
      · rfl
      · rfl
      · split
        · rw [ih m _ (by omega) (by omega)]
        · rfl
      · split
        · rw [ih m _ (by omega) (by omega), ih m _ (by omega) (by omega)]
        · rfl

theorem thunks_get {hp : List Cell} {i : Nat} {c : Cell} (h : hp[i]? = some c) :
    (thunks hp)[i]? = some c.thunk := by
  simp [thunks, List.getElem?_map, h]

theorem den_const {hp : List Cell} {i : Nat} {v : Int}
    (h : (thunks hp)[i]? = some (.const v)) : den hp i = v := by
  simp only [den, denF, h]

theorem den_val {hp : List Cell} {i : Nat} {v : Int}
    (h : (thunks hp)[i]? = some (.val v)) : den hp i = v := by
  simp only [den, denF, h]

theorem val_or_not (e : Expr) : (∃ v, e = .val v) ∨ ∀ v, e ≠ .val v := by
  cases e <;> simp

theorem den_app_lt {hp : List Cell} {i s : Nat} {f : Int → Int}
    (h : (thunks hp)[i]? = some (.app f s)) (hs : s < i) : den hp i = f (den hp s) := by
  unfold den
  rw [denF]
  simp only [h, hs, if_true]
  rw [denF_fuel _ i (s+1) s hs (by omega)]

theorem den_app_ge {hp : List Cell} {i s : Nat} {f : Int → Int}
    (h : (thunks hp)[i]? = some (.app f s)) (hs : ¬ s < i) : den hp i = f 0 := by
  simp only [den, denF, h, hs, if_false]

theorem den_app2_lt {hp : List Cell} {i a b : Nat} {f : Int → Int → Int}
    (h : (thunks hp)[i]? = some (.app2 f a b)) (hs : a < i ∧ b < i) :
    den hp i = f (den hp a) (den hp b) := by
  unfold den
  rw [denF]
  simp only [h, hs, and_self, if_true]
  rw [denF_fuel _ i (a+1) a hs.1 (by omega), denF_fuel _ i (b+1) b hs.2 (by omega)]

theorem den_app2_ge {hp : List Cell} {i a b : Nat} {f : Int → Int → Int}
    (h : (thunks hp)[i]? = some (.app2 f a b)) (hs : ¬ (a < i ∧ b < i)) : den hp i = f 0 0 := by
  unfold den
  rw [denF]
  simp only [h, hs, if_false]

theorem den_congr {hp hp' : List Cell} (h : thunks hp' = thunks hp) (j : Nat) :
    den hp' j = den hp j := by
  simp only [den, h]

/-- A thunk cell (`Lazy::new`) has run at most once, and exactly when it is memoised; an
`of_value` cell never runs and holds its value from the start; a memo is the denotation. -/
def CellOK (d : Int) (c : Cell) : Prop :=
  c.runs ≤ 1 ∧ ((∀ v, c.thunk ≠ .val v) → (c.runs = 1 ↔ c.value.isSome = true)) ∧
    (∀ v, c.value = some v → v = d) ∧
    (∀ v, c.thunk = .val v → c.runs = 0 ∧ c.value = some v)

def HeapInv (hp : List Cell) : Prop := ∀ j c, hp[j]? = some c → CellOK (den hp j) c

theorem set_memo {hp : List Cell} {i : Nat} {c : Cell} {d : Int}
    (hinv : HeapInv hp) (hc : hp[i]? = some c) (hv : c.value = none) (hd : d = den hp i) :
    thunks (hp.set i (memo c d)) = thunks hp ∧ HeapInv (hp.set i (memo c d)) ∧
      (hp.set i (memo c d))[i]? = some (memo c d) := by
  have hlt : i < hp.length := by
    rcases Nat.lt_or_ge i hp.length with h | h
    · exact h
    · rw [List.getElem?_eq_none h] at hc; cases hc
  have ht : thunks (hp.set i (memo c d)) = thunks hp := by
    apply List.ext_getElem?
    intro j
    simp only [thunks, List.getElem?_map, List.getElem?_set]
    split
    · subst_vars
      obtain ⟨_, h⟩ := List.getElem?_eq_some_iff.mp hc
      simp [hlt, memo, h]
    · rfl
  refine ⟨ht, ?_, ?_⟩
  · intro j c' hj
    rw [den_congr ht]
    rw [List.getElem?_set] at hj
    split at hj
    · subst_vars
      cases hj
      have := hinv _ _ hc
      obtain ⟨h1, h2, _, h4⟩ := this
      have hnv : ∀ v, c.thunk ≠ .val v := by
        intro v e
        have := (h4 v e).2
        rw [hv] at this; cases this
      have h2 := h2 hnv
      rw [hv] at h2
      simp at h2
      refine ⟨?_, ?_, ?_, ?_⟩
      · simp [memo]; omega
      · intro _; simp [memo]; omega
      · intro v hv'; simp [memo] at hv'; omega
      · intro v e; exact absurd e (hnv v)
    · exact hinv _ _ hj
  · simp [hlt]

theorem forceC_spec : ∀ fuel hp i, i < fuel → HeapInv hp →
    thunks (forceC fuel hp i).1 = thunks hp ∧ HeapInv (forceC fuel hp i).1 ∧
    (∀ j, i < j → (forceC fuel hp i).1[j]? = hp[j]?) ∧
    (i < hp.length → (forceC fuel hp i).2 = den hp i ∧
      ∃ c, (forceC fuel hp i).1[i]? = some c ∧ c.value = some (den hp i)) := by
  intro fuel
  induction fuel with
  | zero => intro hp i h; omega
  | succ fuel ih =>
    intro hp i hi hinv
    simp only [forceC]
    split
    · rename_i hnone
      refine ⟨rfl, hinv, fun _ _ => rfl, ?_⟩
      intro hlt
      rw [List.getElem?_eq_getElem hlt] at hnone; cases hnone
    · rename_i c hc
      split
      · rename_i v hv
        refine ⟨rfl, hinv, fun _ _ => rfl, ?_⟩
        intro _
        have := (hinv _ _ hc).2.2.1 v hv
        exact ⟨this, c, hc, by rw [hv, this]⟩
      · rename_i hv
        have htc := thunks_get hc
        split
        · rename_i v hth
          rw [hth] at htc
          have hd := den_const htc
          obtain ⟨a, b, e⟩ := set_memo hinv hc hv hd.symm
          refine ⟨a, b, ?_, ?_⟩
          · intro j hj; rw [List.getElem?_set_ne (by omega)]
          · intro _; exact ⟨hd.symm, _, e, by simp [memo, hd]⟩
        · rename_i f s hth
          rw [hth] at htc
          split
          · rename_i hs
            obtain ⟨r1, r2, r3, r4⟩ := ih hp s (by omega) hinv
            have hlt : i < hp.length := by
              rcases Nat.lt_or_ge i hp.length with h | h
              · exact h
              · rw [List.getElem?_eq_none h] at hc; cases hc
            obtain ⟨r4, _⟩ := r4 (by omega)
            have hc' : (forceC fuel hp s).1[i]? = some c := by rw [r3 i hs]; exact hc
            have hd : f (forceC fuel hp s).2 = den (forceC fuel hp s).1 i := by
              rw [den_congr r1, den_app_lt htc hs, r4]
            obtain ⟨a, b, e⟩ := set_memo r2 hc' hv hd
            have hd' : f (forceC fuel hp s).2 = den hp i := by rw [hd, den_congr r1]
            refine ⟨a.trans r1, b, ?_, ?_⟩
            · intro j hj; rw [List.getElem?_set_ne (by omega)]; exact r3 j (by omega)
            · intro _; exact ⟨hd', _, e, by simp [memo, hd']⟩
          · rename_i hs
            have hd := den_app_ge htc hs
            obtain ⟨a, b, e⟩ := set_memo hinv hc hv hd.symm
            refine ⟨a, b, ?_, ?_⟩
            · intro j hj; rw [List.getElem?_set_ne (by omega)]
            · intro _; exact ⟨hd.symm, _, e, by simp [memo, hd]⟩
        · rename_i f a b hth
          rw [hth] at htc
          split
          · rename_i hs
            have hlt : i < hp.length := by
              rcases Nat.lt_or_ge i hp.length with h | h
              · exact h
              · rw [List.getElem?_eq_none h] at hc; cases hc
            obtain ⟨r1, r2, r3, r4⟩ := ih hp a (by omega) hinv
            obtain ⟨r4, _⟩ := r4 (by omega)
            have hlen : (forceC fuel hp a).1.length = hp.length := by
              have := congrArg List.length r1
              simpa [thunks] using this
            obtain ⟨q1, q2, q3, q4⟩ := ih (forceC fuel hp a).1 b (by omega) r2
            obtain ⟨q4, _⟩ := q4 (by omega)
            have t12 := q1.trans r1
            have hc' : (forceC fuel (forceC fuel hp a).1 b).1[i]? = some c := by
              rw [q3 i hs.2, r3 i hs.1]; exact hc
            have hd' : f (forceC fuel hp a).2 (forceC fuel (forceC fuel hp a).1 b).2 = den hp i := by
              rw [den_app2_lt htc hs, r4, q4, den_congr r1]
            have hd : f (forceC fuel hp a).2 (forceC fuel (forceC fuel hp a).1 b).2 =
                den (forceC fuel (forceC fuel hp a).1 b).1 i := by
              rw [hd', den_congr t12]
            obtain ⟨x, y, e⟩ := set_memo q2 hc' hv hd
            refine ⟨x.trans t12, y, ?_, ?_⟩
            · intro j hj; rw [List.getElem?_set_ne (by omega), q3 j (by omega), r3 j (by omega)]
            · intro _; exact ⟨hd', _, e, by simp [memo, hd']⟩
          · rename_i hs
            have hd := den_app2_ge htc hs
            obtain ⟨x, y, e⟩ := set_memo hinv hc hv hd.symm
            refine ⟨x, y, ?_, ?_⟩
            · intro j hj; rw [List.getElem?_set_ne (by omega)]
            · intro _; exact ⟨hd.symm, _, e, by simp [memo, hd]⟩
        · rename_i v hth
          have := ((hinv _ _ hc).2.2.2 v hth).2
          rw [hv] at this; cases this

theorem forceC_memoised {hp : List Cell} {i : Nat} {c : Cell} {v : Int} (n : Nat)
    (h1 : hp[i]? = some c) (h2 : c.value = some v) : forceC (n+1) hp i = (hp, v) := by
  simp only [forceC, h1, h2]

theorem denF_append (es : List Expr) (e : Expr) :
    ∀ fuel i, i < es.length → denF fuel (es ++ [e]) i = denF fuel es i := by
  intro fuel
  induction fuel with
  | zero => intros; rfl
  | succ n ih =>
    intro i hi
    simp only [denF, List.getElem?_append_left hi]
    split
    · rfl
    · rfl
    · rfl
    · split
      · rw [ih _ (by omega)]
      · rfl
    · split
      · rw [ih _ (by omega), ih _ (by omega)]
      · rfl

/-- 6. `new` never changes `den` of existing cells. -/
theorem den_append (hp : List Cell) (c : Cell) (i : Nat) (hi : i < hp.length) :
    den (hp ++ [c]) i = den hp i := by
  have : thunks (hp ++ [c]) = thunks hp ++ [c.thunk] := by simp [thunks]
  unfold den
  rw [this, denF_append _ _ _ _ (by simpa [thunks] using hi)]

theorem lookup_eq {s : State} {h i : Nat} :
    lookup s h = some i ↔ s.handles[h]? = some (some i) := by
  unfold lookup
  split <;> simp_all

def Inv (s : State) : Prop :=
  HeapInv s.heap ∧ ∀ h i, lookup s h = some i → i < s.heap.length

theorem Inv_empty : Inv State.empty := by
  constructor
  · intro j c h; simp [State.empty] at h
  · intro h i hl; rw [lookup_eq] at hl; simp [State.empty] at hl

theorem lookup_append {hs : List (Option Nat)} {x : Option Nat} {h i : Nat}
    (hl : (hs ++ [x])[h]? = some (some i)) : hs[h]? = some (some i) ∨ x = some i := by
  rcases Nat.lt_or_ge h hs.length with hlt | hge
  · left; rwa [List.getElem?_append_left hlt] at hl
  · right
    rw [List.getElem?_append_right hge] at hl
    cases hk : h - hs.length with
    | zero => rw [hk] at hl; simpa using hl
    | succ k => rw [hk] at hl; simp at hl

theorem step_spec (s : State) (op : Op) (hinv : Inv s) :
    Inv (step s op).1 ∧ s.heap.length ≤ (step s op).1.heap.length ∧
    ∀ i, i < s.heap.length → den (step s op).1.heap i = den s.heap i := by
  obtain ⟨hh, hl⟩ := hinv
  cases op with
  | new e =>
    simp only [step]
    refine ⟨⟨?_, ?_⟩, by simp, fun i hi => den_append _ _ _ hi⟩
    · intro j c hj
      rcases Nat.lt_or_ge j s.heap.length with hlt | hge
      · rw [List.getElem?_append_left hlt] at hj
        rw [den_append _ _ _ hlt]; exact hh _ _ hj
      · rw [List.getElem?_append_right hge] at hj
        cases hk : j - s.heap.length with
        | zero =>
          have hj' : j = s.heap.length := by omega
          subst hj'
          rw [hk] at hj; simp at hj; subst hj
          have htc : (thunks (s.heap ++ [(⟨e, initValue e, 0⟩ : Cell)]))[s.heap.length]? = some e := by
            simp [thunks]
          refine ⟨by simp, ?_, ?_, ?_⟩
          · intro hnv
            cases e <;> simp [initValue]
            exact hnv _ rfl
          · intro v hv
            cases e <;> simp [initValue] at hv
            subst hv
            exact (den_val htc).symm
          · intro v he
            simp at he; subst he
            simp [initValue]
        | succ k => rw [hk] at hj; simp at hj
    · intro h i hli
      rw [lookup_eq] at hli
      simp only [List.length_append, List.length_singleton]
      rcases lookup_append hli with h1 | h1
      · have := hl h i (lookup_eq.mpr h1); omega
      · cases h1; omega
  | clone h =>
    simp only [step]
    split
    · rename_i i hi
      refine ⟨⟨hh, ?_⟩, Nat.le_refl _, fun _ _ => rfl⟩
      intro h' i' hli
      rw [lookup_eq] at hli
      rcases lookup_append hli with h1 | h1
      · exact hl h' i' (lookup_eq.mpr h1)
      · cases h1; exact hl h i hi
    · exact ⟨⟨hh, hl⟩, Nat.le_refl _, fun _ _ => rfl⟩
  | force h =>
    simp only [step]
    split
    · rename_i i hi
      obtain ⟨r1, r2, _, _⟩ := forceC_spec (i+1) s.heap i (by omega) hh
      have hlen : (forceC (i+1) s.heap i).1.length = s.heap.length := by
        have := congrArg List.length r1
        simpa [thunks] using this
      refine ⟨⟨r2, ?_⟩, by simp [hlen], fun j _ => den_congr r1 j⟩
      intro h' i' hli
      simp only [hlen]
      exact hl h' i' hli
    · exact ⟨⟨hh, hl⟩, Nat.le_refl _, fun _ _ => rfl⟩
  | drop h =>
    simp only [step]
    refine ⟨⟨hh, ?_⟩, Nat.le_refl _, by intro _ _; first | rfl | trivial⟩
    intro h' i' hli
    rw [lookup_eq] at hli
    simp only [List.getElem?_set] at hli
    split at hli
    · split at hli <;> simp at hli
    · exact hl h' i' (lookup_eq.mpr hli)

theorem runOps_spec (ops : List Op) : ∀ s, Inv s →
    Inv (runOps s ops) ∧ s.heap.length ≤ (runOps s ops).heap.length ∧
    ∀ i, i < s.heap.length → den (runOps s ops).heap i = den s.heap i := by
  induction ops with
  | nil => intro s h; exact ⟨h, Nat.le_refl _, fun _ _ => rfl⟩
  | cons op ops ih =>
    intro s h
    obtain ⟨a, b, c⟩ := step_spec s op h
    obtain ⟨a', b', c'⟩ := ih _ a
    refine ⟨a', Nat.le_trans b b', fun i hi => ?_⟩
    simp only [runOps]
    rw [c' i (by omega), c i hi]


theorem Inv_reach (ops : List Op) : Inv (runOps State.empty ops) :=
  (runOps_spec ops _ Inv_empty).1

/-- 1. The thunk of every cell is executed at most once, and exactly when it has been forced. -/
theorem runs_le_one (ops : List Op) (i : Nat) (c : Cell)
    (h : (runOps State.empty ops).heap[i]? = some c) :
    c.runs ≤ 1 ∧ (c.runs = 1 → c.value.isSome = true) ∧
      (c.value.isSome = true → c.runs = 1 ∨ ∃ v, c.thunk = .val v) := by
  obtain ⟨a, b, _, d⟩ := (Inv_reach ops).1 i c h
  refine ⟨a, ?_, ?_⟩
  · intro hr
    rcases val_or_not c.thunk with ⟨v, e⟩ | hnv
    · have := (d v e).1; omega
    · exact (b hnv).mp hr
  · intro hs
    rcases val_or_not c.thunk with ⟨v, e⟩ | hnv
    · exact Or.inr ⟨v, e⟩
    · exact Or.inl ((b hnv).mpr hs)

/-- 1'. For a cell made by `Lazy::new` (not `of_value`): run exactly when memoised. -/
theorem runs_iff_forced (ops : List Op) (i : Nat) (c : Cell)
    (h : (runOps State.empty ops).heap[i]? = some c) (hnv : ∀ v, c.thunk ≠ .val v) :
    c.runs = 1 ↔ c.value.isSome = true :=
  ((Inv_reach ops).1 i c h).2.1 hnv

/-- 1''. An `of_value` cell never runs anything and holds its value from the start. -/
theorem of_value_never_runs (ops : List Op) (i : Nat) (c : Cell) (v : Int)
    (h : (runOps State.empty ops).heap[i]? = some c) (hth : c.thunk = .val v) :
    c.runs = 0 ∧ c.value = some v :=
  ((Inv_reach ops).1 i c h).2.2.2 v hth

/-- 2. A memoised value is always the denotation of its cell. -/
theorem value_is_den (ops : List Op) (i : Nat) (c : Cell) (v : Int)
    (h : (runOps State.empty ops).heap[i]? = some c) (hv : c.value = some v) :
    v = den (runOps State.empty ops).heap i :=
  ((Inv_reach ops).1 i c h).2.2.1 v hv

/-- 3a. `force h` returns the denotation of the handle's cell. -/
theorem force_returns_den (s : State) (h i : Nat) (hinv : Inv s) (hl : lookup s h = some i) :
    (step s (.force h)).2 = some (den s.heap i) := by
  have hi := hinv.2 h i hl
  obtain ⟨_, _, _, r4⟩ := forceC_spec (i+1) s.heap i (by omega) hinv.1
  simp only [step, hl, (r4 hi).1]

/-- Handle `h` points at cell `i` or has been dropped. -/
def Points (t : State) (h i : Nat) : Prop :=
  t.handles[h]? = some (some i) ∨ t.handles[h]? = some none

theorem Points_step (t : State) (op : Op) (h i : Nat) (hp : Points t h i) :
    Points (step t op).1 h i := by
  have hlt : h < t.handles.length := by
    rcases Nat.lt_or_ge h t.handles.length with x | x
    · exact x
    · rw [Points, List.getElem?_eq_none x] at hp; rcases hp with y | y <;> cases y
  cases op with
  | new e =>
    simp only [step, Points]; rw [List.getElem?_append_left hlt]; exact hp
  | clone h' =>
    simp only [step]
    split
    · simp only [Points]; rw [List.getElem?_append_left hlt]; exact hp
    · exact hp
  | force h' =>
    simp only [step]
    split
    · exact hp
    · exact hp
  | drop h' =>
    simp only [step, Points]
    by_cases e : h' = h
    · right; subst e; simp [hlt]
    · rw [List.getElem?_set_ne e]; exact hp

theorem Points_runOps (ops : List Op) : ∀ (t : State) (h i : Nat), Points t h i →
    Points (runOps t ops) h i := by
  induction ops with
  | nil => intro t h i hp; exact hp
  | cons op ops ih => intro t h i hp; exact ih _ h i (Points_step t op h i hp)

/-- A live handle keeps pointing at the same cell for as long as it is live. -/
theorem lookup_runOps (ops : List Op) (s : State) (h i j : Nat) (h1 : lookup s h = some i)
    (h2 : lookup (runOps s ops) h = some j) : j = i := by
  have := Points_runOps ops s h i (Or.inl (lookup_eq.mp h1))
  rw [lookup_eq] at h2
  rcases this with x | x
  · rw [x] at h2; cases h2; rfl
  · rw [x] at h2; cases h2

/-- 4. Two handles to the same cell force to the same value (the cell's denotation in `s`),
in any state reachable from `s`, whatever happened in between. -/
theorem clones_agree (s : State) (ops : List Op) (h h' i : Nat) (hinv : Inv s)
    (hl : lookup s h = some i) (hl' : lookup (runOps s ops) h' = some i) :
    (step (runOps s ops) (.force h')).2 = (step s (.force h)).2 := by
  obtain ⟨a, _, c⟩ := runOps_spec ops s hinv
  rw [force_returns_den _ _ _ a hl', force_returns_den _ _ _ hinv hl, c i (hinv.2 h i hl)]

/-- 3b. Forcing `h` later (after any ops, while `h` is still live) returns the same as
forcing it now. -/
theorem force_time_independent (s : State) (ops : List Op) (h i j : Nat) (hinv : Inv s)
    (hl : lookup s h = some i) (hl' : lookup (runOps s ops) h = some j) :
    (step (runOps s ops) (.force h)).2 = (step s (.force h)).2 := by
  have := lookup_runOps ops s h i j hl hl'
  subst this
  exact clones_agree s ops h h j hinv hl hl'

/-- 5. A second force changes nothing and returns the same value. -/
theorem force_idempotent (s : State) (h : Nat) (hinv : Inv s) :
    step (step s (.force h)).1 (.force h) = step s (.force h) := by
  cases hl : lookup s h with
  | none => simp only [step, hl]
  | some i =>
    have hi := hinv.2 h i hl
    obtain ⟨_, _, _, r4⟩ := forceC_spec (i+1) s.heap i (by omega) hinv.1
    obtain ⟨r4, c, hc, hv⟩ := r4 hi
    have hl2 : lookup { s with heap := (forceC (i+1) s.heap i).1 } h = some i := hl
    simp only [step, hl, hl2, forceC_memoised i hc hv, r4]

/-- 6. `new` never changes `den` of existing cells. -/
theorem alloc_preserves_den (s : State) (e : Expr) (i : Nat) (hi : i < s.heap.length) :
    den (step s (.new e)).1.heap i = den s.heap i := by
  simp only [step]; exact den_append _ _ _ hi

/-- `den` of an existing cell is never changed by any op sequence. -/
theorem den_stable (s : State) (ops : List Op) (i : Nat) (hinv : Inv s) (hi : i < s.heap.length) :
    den (runOps s ops).heap i = den s.heap i :=
  (runOps_spec ops s hinv).2.2 i hi

/-- Non-vacuity: new const 3; new app (·+1) 0; clone; force clone; force original. -/
def demoOps : List Op :=
  [.new (.const 3), .new (.app (· + 1) 0), .clone 1, .force 2, .force 1]

example : outputs State.empty demoOps = [none, none, none, some 4, some 4] := by decide
example : (runOps State.empty demoOps).heap.map (·.runs) = [1, 1] := by decide
example : (runOps State.empty demoOps).heap.map (·.value) = [some 3, some 4] := by decide
example : (runOps State.empty demoOps).handles = [some 0, some 1, some 1] := by decide

/-- lift2 over a shared source: the source thunk still runs once; drop does not free the cell. -/
def demoOps2 : List Op :=
  [.new (.const 3), .new (.app (· + 1) 0), .new (.app2 (· * ·) 0 1), .drop 0, .force 2, .force 1,
   .force 0]

example : outputs State.empty demoOps2 = [none, none, none, none, some 12, some 4, none] := by
  decide
example : (runOps State.empty demoOps2).heap.map (·.runs) = [1, 1, 1] := by decide

/-- `of_value`: nothing runs for the value cell, the mapped cell over it runs once. -/
def demoOps3 : List Op :=
  [.new (.val 5), .new (.app (· + 1) 0), .force 1, .force 0]

example : outputs State.empty demoOps3 = [none, none, some 6, some 5] := by decide
example : (runOps State.empty demoOps3).heap.map (·.runs) = [0, 1] := by decide
example : (runOps State.empty demoOps3).heap.map (·.value) = [some 5, some 6] := by decide

end SodiumVerif.LazyHeap
