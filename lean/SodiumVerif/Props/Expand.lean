/-
  Expand — the atomic definitions `accum` and `mapc` of S are observationally equal to the
  compositions of simpler primitives by which the library implements them.

  * `s.accum(k, f)`   is   `L = StreamLoop; H = L.hold(k); M = s.snapshot(H, f); L.loop_(M)`, result `H`;
  * `c.map(f)`        is   `U = c.updates(); Mp = U.map(f); H = Mp.hold(f(c.sample()))`.

  Both theorems are stated for a program `sp` that contains the atomic definition *and* the composition
  side by side (no index shifting), and say: over every history `evs` of transactions the two cells have
  the same value, and in every transaction from every state reached that way the two update events are
  the same.

  Ranking hypothesis.  `WellRanked sp rank` depends on the state (the operand of a `switchs` is the
  currently selected candidate), so it is not an invariant of `stepTxn`.  The state-independent
  `StaticRanked` (`Lemmas/SpecCell.lean`) is; it implies `WellRanked` in every reachable state.  Theorem 1
  needs only that (through `Resolved`); Theorem 2 needs `WellFormed` (= `StaticRanked` + `WellTyped` +
  `Closed`), because the value of a *derived* cell after a transaction in which it does not fire is
  recomputed from its input, which must therefore be a cell whose value only changes by firing
  (`val_stepTxn_cell`).
-/
import SodiumVerif.Props.C04
import SodiumVerif.Props.C11

namespace SodiumVerif
namespace Spec

/-! ### small preservation facts -/

theorem StaticRanked.stepTxn {sp : Spec} {rank : Nat → Nat} (h : StaticRanked sp rank) (ev : Events) :
    StaticRanked (stepTxn sp ev) rank := h.same (sameProg_stepTxn sp ev)

theorem StaticRanked.run {sp : Spec} {rank : Nat → Nat} (h : StaticRanked sp rank) (evs : List Events) :
    StaticRanked (run sp evs) rank := h.same (sameProg_run sp evs)

theorem StaticRanked.resolved {sp : Spec} {rank : Nat → Nat} (h : StaticRanked sp rank) (ev : Events)
    {i : Nat} (hi : i < sp.defs.size) : Resolved sp ev i :=
  Resolved.of_wellRanked h.wellRanked ev hi

theorem WellFormed.run {sp : Spec} {rank : Nat → Nat} (h : WellFormed sp rank) (evs : List Events) :
    WellFormed (run sp evs) rank := h.same (sameProg_run sp evs)

/-! ### Theorem 1: `accum` = `StreamLoop` + `hold` + `snapshot` -/

section accum
variable {sp : Spec} {a l h m s : Nat} {k op : Int}

/-- one transaction, firings: with equal values at the start, the accumulator's update event is the
    snapshot's event, and the loop carries it -/
theorem accum_expand_fires (ha : sp.getDef a = .accum s k op) (hl : sp.getDef l = .sloop)
    (hlt : sp.loopTo.get l = some m) (hm : sp.getDef m = .snapshot s h op)
    (hv : sp.val a = sp.val h) (ev : Events)
    (ra : Resolved sp ev a) (rl : Resolved sp ev l) (rm : Resolved sp ev m) :
    fire (fireTable sp ev) a = fire (fireTable sp ev) m ∧
    fire (fireTable sp ev) l = fire (fireTable sp ev) m := by
  refine ⟨?_, sloop_fires hl hlt rl⟩
  rw [accum_fires ha ra, snapshot_fires hm rm, hv]

/-- one transaction, values: equality of the two cells is preserved -/
theorem accum_expand_step (ha : sp.getDef a = .accum s k op) (hl : sp.getDef l = .sloop)
    (hlt : sp.loopTo.get l = some m) (hh : sp.getDef h = .hold l k)
    (hm : sp.getDef m = .snapshot s h op)
    (hv : sp.val a = sp.val h) (ev : Events)
    (ra : Resolved sp ev a) (rl : Resolved sp ev l) (rh : Resolved sp ev h) (rm : Resolved sp ev m) :
    (stepTxn sp ev).val a = (stepTxn sp ev).val h := by
  have hfl : fire (fireTable sp ev) l = fire (fireTable sp ev) m := sloop_fires hl hlt rl
  have hfm := snapshot_fires hm rm
  rw [val_stepTxn_accum ha ra, val_stepTxn_hold hh rh, hfl, hfm, hv]
  cases fire (fireTable sp ev) s with
  | none => rfl
  | some x =>
    cases sp.val h with
    | none => rfl
    | some old => rfl

/-- **`accum` is `loop`/`hold`/`snapshot`.**  In a (statically) ranked program that contains the atomic
    accumulator `a = s.accum(k, op)` next to the composition
    `l = StreamLoop`, `h = l.hold(k)`, `m = s.snapshot(h, op)`, `l.loop_(m)`, started in a state in which
    `a` and `h` have the same value (e.g. nothing stored for either: both are `k`), after every
    sequence of transactions `a` and `h` have the same value, and in every further transaction the
    update event of `a` is the event of `m`, which is also what the loop `l` carries. -/
theorem accum_eq_loop_hold_snapshot {sp : Spec} {rank : Nat → Nat} {a l h m s : Nat} {k op : Int}
    (sr : StaticRanked sp rank)
    (ha : sp.getDef a = .accum s k op) (hl : sp.getDef l = .sloop) (hlt : sp.loopTo.get l = some m)
    (hh : sp.getDef h = .hold l k) (hm : sp.getDef m = .snapshot s h op)
    (hv : sp.val a = sp.val h) (evs : List Events) :
    (run sp evs).val a = (run sp evs).val h ∧
    ∀ ev : Events,
      fire (fireTable (run sp evs) ev) a = fire (fireTable (run sp evs) ev) m ∧
      fire (fireTable (run sp evs) ev) l = fire (fireTable (run sp evs) ev) m := by
  have hia : a < sp.defs.size := getDef_lt sp a (by rw [ha]; simp)
  have hil : l < sp.defs.size := getDef_lt sp l (by rw [hl]; simp)
  have hih : h < sp.defs.size := getDef_lt sp h (by rw [hh]; simp)
  have him : m < sp.defs.size := getDef_lt sp m (by rw [hm]; simp)
  have hval : (run sp evs).val a = (run sp evs).val h := by
    clear him hih hil hia
    induction evs generalizing sp with
    | nil => exact hv
    | cons ev evs ih =>
      have hia : a < sp.defs.size := getDef_lt sp a (by rw [ha]; simp)
      have hil : l < sp.defs.size := getDef_lt sp l (by rw [hl]; simp)
      have hih : h < sp.defs.size := getDef_lt sp h (by rw [hh]; simp)
      have him : m < sp.defs.size := getDef_lt sp m (by rw [hm]; simp)
      rw [run_cons]
      exact ih (sr.stepTxn ev) (by simpa using ha) (by simpa using hl) (by simpa using hlt)
        (by simpa using hh) (by simpa using hm)
        (accum_expand_step ha hl hlt hh hm hv ev (sr.resolved ev hia) (sr.resolved ev hil)
          (sr.resolved ev hih) (sr.resolved ev him))
  refine ⟨hval, fun ev => ?_⟩
  have sr' := sr.run evs
  exact accum_expand_fires (sp := run sp evs) (by simpa using ha) (by simpa using hl)
    (by simpa using hlt) (by simpa using hm) hval ev
    (sr'.resolved ev (by simpa using hia)) (sr'.resolved ev (by simpa using hil))
    (sr'.resolved ev (by simpa using him))

/-- the usual starting state: nothing stored yet for the accumulator and the hold -/
theorem accum_eq_loop_hold_snapshot_fresh {sp : Spec} {rank : Nat → Nat} {a l h m s : Nat} {k op : Int}
    (sr : StaticRanked sp rank)
    (ha : sp.getDef a = .accum s k op) (hl : sp.getDef l = .sloop) (hlt : sp.loopTo.get l = some m)
    (hh : sp.getDef h = .hold l k) (hm : sp.getDef m = .snapshot s h op)
    (h0a : sp.stored.get a = none) (h0h : sp.stored.get h = none) (evs : List Events) :
    (run sp evs).val a = (run sp evs).val h ∧
    ∀ ev : Events,
      fire (fireTable (run sp evs) ev) a = fire (fireTable (run sp evs) ev) m ∧
      fire (fireTable (run sp evs) ev) l = fire (fireTable (run sp evs) ev) m :=
  accum_eq_loop_hold_snapshot sr ha hl hlt hh hm
    (by rw [accum_val_some ha, h0a, hold_initial hh h0h]; rfl) evs

/-- the same under the state-dependent `WellRanked`, for a single transaction (no history: `WellRanked`
    is not preserved by `stepTxn`) -/
theorem accum_eq_loop_hold_snapshot_txn {sp : Spec} {rank : Nat → Nat} {a l h m s : Nat} {k op : Int}
    (wr : WellRanked sp rank)
    (ha : sp.getDef a = .accum s k op) (hl : sp.getDef l = .sloop) (hlt : sp.loopTo.get l = some m)
    (hh : sp.getDef h = .hold l k) (hm : sp.getDef m = .snapshot s h op)
    (hv : sp.val a = sp.val h) (ev : Events) :
    (stepTxn sp ev).val a = (stepTxn sp ev).val h ∧
    fire (fireTable sp ev) a = fire (fireTable sp ev) m ∧
    fire (fireTable sp ev) l = fire (fireTable sp ev) m := by
  have ra := Resolved.of_wellRanked wr ev (getDef_lt sp a (by rw [ha]; simp))
  have rl := Resolved.of_wellRanked wr ev (getDef_lt sp l (by rw [hl]; simp))
  have rh := Resolved.of_wellRanked wr ev (getDef_lt sp h (by rw [hh]; simp))
  have rm := Resolved.of_wellRanked wr ev (getDef_lt sp m (by rw [hm]; simp))
  exact ⟨accum_expand_step ha hl hlt hh hm hv ev ra rl rh rm,
    accum_expand_fires ha hl hlt hm hv ev ra rl rm⟩

end accum

/-- `0 = sink`, `1 = 0.accum(100, op 1)` (atomic);
    `3 = StreamLoop`, `4 = 3.hold(100)`, `2 = 0.snapshot(4, op 1)`, `3.loop_(2)` (composition) -/
def demoAccum : Spec :=
  { defs := #[.sink none, .accum 0 100 1, .snapshot 0 4 1, .sloop, .hold 3 100],
    created := #[0, 0, 0, 0, 0],
    loopTo := Store.empty.set 3 (some 2) }

set_option maxRecDepth 8192 in
example : StaticRanked demoAccum id := ⟨by decide, by decide, by decide⟩

set_option maxRecDepth 8192 in
/-- the hypotheses of `accum_eq_loop_hold_snapshot(_fresh)` hold for `demoAccum` with
    `a = 1, l = 3, h = 4, m = 2, s = 0`; after two transactions the two cells agree, differ from the
    initial value, and the update events agree (and fire) in a third transaction -/
example :
    demoAccum.getDef 1 = .accum 0 100 1 ∧ demoAccum.getDef 3 = .sloop ∧
    demoAccum.loopTo.get 3 = some 2 ∧ demoAccum.getDef 4 = .hold 3 100 ∧
    demoAccum.getDef 2 = .snapshot 0 4 1 ∧
    demoAccum.stored.get 1 = none ∧ demoAccum.stored.get 4 = none ∧
    demoAccum.val 1 = demoAccum.val 4 ∧ demoAccum.val 1 = some 100 ∧
    (run demoAccum [[(0, 1)], [(0, 2)]]).val 1 = (run demoAccum [[(0, 1)], [(0, 2)]]).val 4 ∧
    (run demoAccum [[(0, 1)], [(0, 2)]]).val 1 = some (f2 1 2 (f2 1 1 100)) ∧
    (run demoAccum [[(0, 1)], [(0, 2)]]).val 1 ≠ demoAccum.val 1 ∧
    fire (fireTable (run demoAccum [[(0, 1)], [(0, 2)]]) [(0, 3)]) 1 =
      fire (fireTable (run demoAccum [[(0, 1)], [(0, 2)]]) [(0, 3)]) 2 ∧
    fire (fireTable (run demoAccum [[(0, 1)], [(0, 2)]]) [(0, 3)]) 3 =
      fire (fireTable (run demoAccum [[(0, 1)], [(0, 2)]]) [(0, 3)]) 2 ∧
    fire (fireTable (run demoAccum [[(0, 1)], [(0, 2)]]) [(0, 3)]) 1 =
      some (f2 1 3 (f2 1 2 (f2 1 1 100))) := by
  decide

/-! ### Theorem 2: `Cell::map` = `updates` + `map` + `hold` -/

section mapc
variable {sp : Spec} {c' c u mp h : Nat} {k v0 : Int}

/-- one transaction, firings: the update of the mapped cell is the event of the mapped update stream
    (no hypothesis on the values) -/
theorem mapc_expand_fires (hc' : sp.getDef c' = .mapc c k) (hu : sp.getDef u = .updates c)
    (hmp : sp.getDef mp = .map u k) (ev : Events)
    (rc' : Resolved sp ev c') (ru : Resolved sp ev u) (rmp : Resolved sp ev mp) :
    fire (fireTable sp ev) c' = fire (fireTable sp ev) mp := by
  rw [mapc_fires hc' rc', map_fires hmp rmp, updates_fires hu ru]

/-- one transaction, values: equality of the two cells is preserved -/
theorem mapc_expand_step {rank : Nat → Nat} (wf : WellFormed sp rank)
    (hc' : sp.getDef c' = .mapc c k) (hu : sp.getDef u = .updates c)
    (hmp : sp.getDef mp = .map u k) (hh : sp.getDef h = .hold mp v0)
    (hv : sp.val c' = sp.val h) (ev : Events) :
    (stepTxn sp ev).val c' = (stepTxn sp ev).val h := by
  have hic : c' < sp.defs.size := getDef_lt sp c' (by rw [hc']; simp)
  have hiu : u < sp.defs.size := getDef_lt sp u (by rw [hu]; simp)
  have him : mp < sp.defs.size := getDef_lt sp mp (by rw [hmp]; simp)
  have hih : h < sp.defs.size := getDef_lt sp h (by rw [hh]; simp)
  have hf := mapc_expand_fires hc' hu hmp ev (wf.resolved ev hic) (wf.resolved ev hiu)
    (wf.resolved ev him)
  rw [val_stepTxn_cell wf ev c' (by rw [hc']; rfl), val_stepTxn_hold hh (wf.resolved ev hih)]
  unfold nextVal
  rw [hf, hv]
  cases fire (fireTable sp ev) mp <;> rfl

/-- **`Cell::map` is `updates`/`map`/`hold`.**  In a well-formed program that contains the atomic mapped
    cell `c' = c.map(k)` next to the composition `u = c.updates()`, `mp = u.map(k)`, `h = mp.hold(v0)`,
    started in a state in which `c'` and `h` have the same value (e.g. nothing stored for either and
    `v0 = f1 k x` for the current value `x` of `c`), after every sequence of transactions `c'` and `h`
    have the same value, and in every further transaction the update event of `c'` is the event of
    `mp`. -/
theorem mapc_eq_hold_map_updates {sp : Spec} {rank : Nat → Nat} {c' c u mp h : Nat} {k v0 : Int}
    (wf : WellFormed sp rank)
    (hc' : sp.getDef c' = .mapc c k) (hu : sp.getDef u = .updates c)
    (hmp : sp.getDef mp = .map u k) (hh : sp.getDef h = .hold mp v0)
    (hv : sp.val c' = sp.val h) (evs : List Events) :
    (run sp evs).val c' = (run sp evs).val h ∧
    ∀ ev : Events, fire (fireTable (run sp evs) ev) c' = fire (fireTable (run sp evs) ev) mp := by
  constructor
  · induction evs generalizing sp with
    | nil => exact hv
    | cons ev evs ih =>
      rw [run_cons]
      exact ih (wf.same (sameProg_stepTxn sp ev)) (by simpa using hc') (by simpa using hu)
        (by simpa using hmp) (by simpa using hh) (mapc_expand_step wf hc' hu hmp hh hv ev)
  · intro ev
    have wf' := wf.run evs
    have hic : c' < sp.defs.size := getDef_lt sp c' (by rw [hc']; simp)
    have hiu : u < sp.defs.size := getDef_lt sp u (by rw [hu]; simp)
    have him : mp < sp.defs.size := getDef_lt sp mp (by rw [hmp]; simp)
    exact mapc_expand_fires (sp := run sp evs) (by simpa using hc') (by simpa using hu)
      (by simpa using hmp) ev (wf'.resolved ev (by simpa using hic))
      (wf'.resolved ev (by simpa using hiu)) (wf'.resolved ev (by simpa using him))

/-- the usual starting state: nothing stored for `c'` and `h`, and the hold was made with the image of
    the value `c` has at construction -/
theorem mapc_eq_hold_map_updates_fresh {sp : Spec} {rank : Nat → Nat} {c' c u mp h : Nat}
    {k v0 x : Int} (wf : WellFormed sp rank)
    (hc' : sp.getDef c' = .mapc c k) (hu : sp.getDef u = .updates c)
    (hmp : sp.getDef mp = .map u k) (hh : sp.getDef h = .hold mp v0)
    (h0c : sp.stored.get c' = none) (h0h : sp.stored.get h = none)
    (hx : sp.val c = some x) (hv0 : v0 = f1 k x) (evs : List Events) :
    (run sp evs).val c' = (run sp evs).val h ∧
    ∀ ev : Events, fire (fireTable (run sp evs) ev) c' = fire (fireTable (run sp evs) ev) mp :=
  mapc_eq_hold_map_updates wf hc' hu hmp hh
    (by rw [mapc_inv_init wf hc' h0c, hx, hold_initial hh h0h, hv0]; rfl) evs

end mapc

/-- `0 = csink 5`, `1 = 0.map(k = 2)` (atomic);
    `2 = 0.updates()`, `3 = 2.map(k = 2)`, `4 = 3.hold(f1 2 5)` (composition) -/
def demoMapc : Spec :=
  { defs := #[.csink 5, .mapc 0 2, .updates 0, .map 2 2, .hold 3 17],
    created := #[0, 0, 0, 0, 0] }

set_option maxRecDepth 8192 in
example : WellFormed demoMapc id := ⟨⟨by decide, by decide, by decide⟩, by decide, by decide⟩

set_option maxRecDepth 8192 in
/-- the hypotheses of `mapc_eq_hold_map_updates(_fresh)` hold for `demoMapc` with
    `c' = 1, c = 0, u = 2, mp = 3, h = 4`; after two transactions the two cells agree, differ from the
    initial value, and the update events agree (and fire) in a third transaction -/
example :
    demoMapc.getDef 1 = .mapc 0 2 ∧ demoMapc.getDef 2 = .updates 0 ∧
    demoMapc.getDef 3 = .map 2 2 ∧ demoMapc.getDef 4 = .hold 3 17 ∧
    demoMapc.stored.get 1 = none ∧ demoMapc.stored.get 4 = none ∧
    demoMapc.val 0 = some 5 ∧ (17 : Int) = f1 2 5 ∧
    demoMapc.val 1 = demoMapc.val 4 ∧ demoMapc.val 1 = some 17 ∧
    (run demoMapc [[(0, 4)], [(0, 6)]]).val 1 = (run demoMapc [[(0, 4)], [(0, 6)]]).val 4 ∧
    (run demoMapc [[(0, 4)], [(0, 6)]]).val 1 = some (f1 2 6) ∧
    (run demoMapc [[(0, 4)], [(0, 6)]]).val 1 ≠ demoMapc.val 1 ∧
    fire (fireTable (run demoMapc [[(0, 4)], [(0, 6)]]) [(0, 9)]) 1 =
      fire (fireTable (run demoMapc [[(0, 4)], [(0, 6)]]) [(0, 9)]) 3 ∧
    fire (fireTable (run demoMapc [[(0, 4)], [(0, 6)]]) [(0, 9)]) 1 = some (f1 2 9) := by
  decide

end Spec
end SodiumVerif
