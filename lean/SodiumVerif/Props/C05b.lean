/-
  C05 (second part) — the specification helper `when s t`: the event of stream `s`, in the
  transactions in which stream `t` fires too.

  Property theorems about S (`Spec/Denot.lean`), in the style of `Props/C02.lean`: `fire tbl i` is the
  firing of definition `i` in the transaction (`none` = does not fire); `Resolved sp ev i` says that
  entry `i` of the firing table is computed (it holds for every definition of a well-ranked program,
  `Resolved.of_wellRanked`).  `when` is a stream without state: it reads the firings of both operands
  (`operands sp i = [s, t]`) and no cell value, so `when_fires` is the whole of its meaning.
-/
import SodiumVerif.Props.C02

namespace SodiumVerif
namespace Spec

section
variable {sp : Spec} {ev : Events} {i : Nat}

/-- `when s t` emits the event of `s` in exactly the transactions in which `t` fires -/
theorem when_fires {s t} (h : sp.getDef i = .when s t) (hr : Resolved sp ev i) :
    fire (fireTable sp ev) i =
      if (fire (fireTable sp ev) t).isSome then fire (fireTable sp ev) s else none :=
  fire_binary (a := s) (b := t) (g := fun x y => if y.isSome then x else none)
    (fun look => fireOf_when sp ev look i h) hr

/-- in a transaction in which `t` does not fire, `when s t` does not fire (whatever `s` does) -/
theorem when_silent {s t} (h : sp.getDef i = .when s t) (hr : Resolved sp ev i)
    (ht : fire (fireTable sp ev) t = none) : fire (fireTable sp ev) i = none := by
  rw [when_fires h hr, ht]; rfl

/-- in a transaction in which `t` fires, `when s t` is `s` (fires with the value of `s`, or not at all
    if `s` does not fire) -/
theorem when_passes {s t y} (h : sp.getDef i = .when s t) (hr : Resolved sp ev i)
    (ht : fire (fireTable sp ev) t = some y) : fire (fireTable sp ev) i = fire (fireTable sp ev) s := by
  rw [when_fires h hr, ht]; rfl

/-- `when s t` does not fire unless `s` fires -/
theorem when_silent_left {s t} (h : sp.getDef i = .when s t) (hr : Resolved sp ev i)
    (hs : fire (fireTable sp ev) s = none) : fire (fireTable sp ev) i = none := by
  rw [when_fires h hr, hs]; split <;> rfl

/-- a `when` fires iff both operands fire, and then with the value of the first -/
theorem when_fires_iff {s t v} (h : sp.getDef i = .when s t) (hr : Resolved sp ev i) :
    fire (fireTable sp ev) i = some v ↔
      fire (fireTable sp ev) s = some v ∧ (fire (fireTable sp ev) t).isSome = true := by
  rw [when_fires h hr]
  cases ht : (fire (fireTable sp ev) t).isSome <;> simp

end

/-- `0 = sink`, `1 = sink`, `2 = when 0 1` -/
def demoWhen : Spec :=
  { defs := #[.sink none, .sink none, .when 0 1], created := #[0, 0, 0] }

set_option maxRecDepth 8192 in
example : WellRanked demoWhen id := ⟨by decide, by decide, by decide⟩

set_option maxRecDepth 8192 in
/-- both cases occur: with sends to both sinks the `when` passes the event of sink 0; with a send to
    sink 0 alone (or to sink 1 alone) it is silent -/
example : demoWhen.getDef 2 = .when 0 1 ∧
    Resolved demoWhen [(0, 7), (1, 3)] 2 ∧ fire (fireTable demoWhen [(0, 7), (1, 3)]) 2 = some 7 ∧
    Resolved demoWhen [(0, 7)] 2 ∧ fire (fireTable demoWhen [(0, 7)]) 2 = none ∧
    Resolved demoWhen [(1, 3)] 2 ∧ fire (fireTable demoWhen [(1, 3)]) 2 = none := by decide

end Spec
end SodiumVerif
