/-
  C13 — derived cells (`map` on a cell, `lift2`, …) always equal the function of their inputs.

  Setting.  `WellFormed sp rank` (`Lemmas/SpecCell.lean`): `rank` decreases strictly from every
  definition to the definitions it reads (`staticOperands`, which depend only on `defs` and `loopTo`, so
  the ranking stays valid along `stepTxn`), ranks are `≤ sp.defs.size`; the inputs of derived cells are
  cells (`WellTyped`); every `CellLoop` is closed (`Closed`).  All three are decidable for a concrete
  program.  `run sp evs` is the state after the transactions `evs`.

  `sp.val i` is the value of cell `i` between transactions.  The theorems say that in every state
  reachable from a state without stored values, `val` of a derived cell is the function of the `val`s
  of its inputs — although S *stores* the value a derived cell fired and never recomputes it.
-/
import SodiumVerif.Lemmas.SpecCell

namespace SodiumVerif
namespace Spec

/-- `0, 1 = csink`, `2 = mapc 0`, `3 = lift2 0 1`, `4 = lift2 2 3`, `5 = sink`, `6 = 5.hold(0)`,
    `7 = lift2 6 4` -/
def demo13 : Spec :=
  { defs := #[.csink 1, .csink 2, .mapc 0 5, .lift2 0 1 1, .lift2 2 3 2, .sink none, .hold 5 0,
              .lift2 6 4 0],
    created := #[0, 0, 0, 0, 0, 0, 0, 0] }

set_option maxRecDepth 8192 in
example : WellFormed demo13 id := ⟨⟨by decide, by decide, by decide⟩, by decide, by decide⟩

/-- `0, 1, 2 = csink`, `3 = liftn [0, 1, 2]`, `4 = cloop` closed to `3`, `5 = switchc 0 [1, 3]`,
    `6 = mapc 5` -/
def demo13b : Spec :=
  { defs := #[.csink 1, .csink 2, .csink 3, .liftn [0, 1, 2], .cloop, .switchc 0 [1, 3], .mapc 5 1],
    created := #[0, 0, 0, 0, 0, 0, 0],
    loopTo := Store.empty.set 4 (some 3) }

set_option maxRecDepth 8192 in
example : WellFormed demo13b id ∧ (∀ j, j < 7 → demo13b.stored.get j = none) ∧
    demo13b.getDef 3 = .liftn [0, 1, 2] ∧ demo13b.getDef 4 = .cloop ∧ demo13b.loopTo.get 4 = some 3 ∧
    demo13b.getDef 5 = .switchc 0 [1, 3] ∧ demo13b.getDef 6 = .mapc 5 1 :=
  ⟨⟨⟨by decide, by decide, by decide⟩, by decide, by decide⟩, by decide⟩

/-! ### every cell is delayed state -/

/-- in a well-formed program, for every kind of cell: the value after a transaction is what the cell's
    update fired in it, and the old value if it did not fire -/
theorem cell_next_value {sp : Spec} {rank : Nat → Nat} (wf : WellFormed sp rank) (ev : Events)
    (c : Nat) (hc : (sp.getDef c).isCell = true) :
    (stepTxn sp ev).val c =
      match fire (fireTable sp ev) c with
      | some v => some v
      | none => sp.val c :=
  val_stepTxn_cell wf ev c hc

/-- in a well-formed program every cell has a value -/
theorem cell_has_value {sp : Spec} {rank : Nat → Nat} (wf : WellFormed sp rank)
    (c : Nat) (hc : (sp.getDef c).isCell = true) : sp.val c ≠ none :=
  val_ne_none wf.ranked.wellRanked wf.typed wf.closed c hc

/-! ### `c.map(f)` on a cell -/

/-- the invariant is preserved by a transaction -/
theorem mapc_inv_step {sp : Spec} {rank : Nat → Nat} (wf : WellFormed sp rank) {i c : Nat} {k : Int}
    (h : sp.getDef i = .mapc c k) (hinv : sp.val i = (sp.val c).map (f1 k)) (ev : Events) :
    (stepTxn sp ev).val i = ((stepTxn sp ev).val c).map (f1 k) := by
  have hi : i < sp.defs.size := getDef_lt sp i (by rw [h]; simp)
  have hcc : (sp.getDef c).isCell = true := wf.typed i hi c (by simp [cellDeps, h])
  rw [val_stepTxn_cell wf ev i (by rw [h]; rfl), val_stepTxn_cell wf ev c hcc]
  have hf := mapc_fires h (wf.resolved ev hi)
  cases hfc : fire (fireTable sp ev) c with
  | none =>
    rw [hfc] at hf
    rw [nextVal_none hf, nextVal_none hfc, hinv]
  | some x =>
    rw [hfc] at hf
    rw [nextVal_some hf, nextVal_some hfc]; rfl

/-- a derived cell without stored value satisfies its equation -/
theorem mapc_inv_init {sp : Spec} {rank : Nat → Nat} (wf : WellFormed sp rank) {i c : Nat} {k : Int}
    (h : sp.getDef i = .mapc c k) (h0 : sp.stored.get i = none) :
    sp.val i = (sp.val c).map (f1 k) := by
  rw [val_eq wf.ranked.wellRanked i, h0, h]

theorem mapc_inv_run {sp : Spec} {rank : Nat → Nat} (wf : WellFormed sp rank) {i c : Nat} {k : Int}
    (h : sp.getDef i = .mapc c k) (hinv : sp.val i = (sp.val c).map (f1 k)) (evs : List Events) :
    (run sp evs).val i = ((run sp evs).val c).map (f1 k) := by
  induction evs generalizing sp with
  | nil => exact hinv
  | cons ev evs ih =>
    rw [run_cons]
    exact ih (wf.same (sameProg_stepTxn sp ev)) (by simpa using h) (mapc_inv_step wf h hinv ev)

/-- **lift_inv** (`map` on a cell): in every state reachable from a well-formed state in which
    nothing is stored yet, the mapped cell is `f` of its input -/
theorem lift_inv_mapc {sp : Spec} {rank : Nat → Nat} (wf : WellFormed sp rank)
    (h0 : ∀ j, sp.stored.get j = none) {i c : Nat} {k : Int} (h : sp.getDef i = .mapc c k)
    (evs : List Events) :
    (run sp evs).val i = ((run sp evs).val c).map (f1 k) :=
  mapc_inv_run wf h (mapc_inv_init wf h (h0 i)) evs

/-! ### `lift2` -/

theorem lift2_inv_step {sp : Spec} {rank : Nat → Nat} (wf : WellFormed sp rank) {i a b : Nat} {op : Int}
    (h : sp.getDef i = .lift2 a b op)
    (hinv : sp.val i = (do let x ← sp.val a; let y ← sp.val b; pure (f2 op x y))) (ev : Events) :
    (stepTxn sp ev).val i =
      (do let x ← (stepTxn sp ev).val a; let y ← (stepTxn sp ev).val b; pure (f2 op x y)) := by
  have hi : i < sp.defs.size := getDef_lt sp i (by rw [h]; simp)
  have hca : (sp.getDef a).isCell = true := wf.typed i hi a (by simp [cellDeps, h])
  have hcb : (sp.getDef b).isCell = true := wf.typed i hi b (by simp [cellDeps, h])
  rw [val_stepTxn_cell wf ev i (by rw [h]; rfl), val_stepTxn_cell wf ev a hca,
    val_stepTxn_cell wf ev b hcb]
  have hf := lift2_fires h (wf.resolved ev hi)
  obtain ⟨x0, hx0⟩ := Option.ne_none_iff_exists'.mp (cell_has_value wf a hca)
  obtain ⟨y0, hy0⟩ := Option.ne_none_iff_exists'.mp (cell_has_value wf b hcb)
  cases hfa : fire (fireTable sp ev) a with
  | none =>
    cases hfb : fire (fireTable sp ev) b with
    | none =>
      rw [hfa, hfb] at hf
      rw [nextVal_none hf, nextVal_none hfa, nextVal_none hfb, hinv]
    | some y =>
      rw [hfa, hfb, nextVal_none hfa, nextVal_some hfb, hx0] at hf
      rw [nextVal_some hf, nextVal_none hfa, nextVal_some hfb, hx0]; rfl
  | some x =>
    cases hfb : fire (fireTable sp ev) b with
    | none =>
      rw [hfa, hfb, nextVal_some hfa, nextVal_none hfb, hy0] at hf
      rw [nextVal_some hf, nextVal_some hfa, nextVal_none hfb, hy0]; rfl
    | some y =>
      rw [hfa, hfb, nextVal_some hfa, nextVal_some hfb] at hf
      rw [nextVal_some hf, nextVal_some hfa, nextVal_some hfb]; rfl

theorem lift2_inv_init {sp : Spec} {rank : Nat → Nat} (wf : WellFormed sp rank) {i a b : Nat} {op : Int}
    (h : sp.getDef i = .lift2 a b op) (h0 : sp.stored.get i = none) :
    sp.val i = (do let x ← sp.val a; let y ← sp.val b; pure (f2 op x y)) := by
  rw [val_eq wf.ranked.wellRanked i, h0, h]

theorem lift2_inv_run {sp : Spec} {rank : Nat → Nat} (wf : WellFormed sp rank) {i a b : Nat} {op : Int}
    (h : sp.getDef i = .lift2 a b op)
    (hinv : sp.val i = (do let x ← sp.val a; let y ← sp.val b; pure (f2 op x y))) (evs : List Events) :
    (run sp evs).val i =
      (do let x ← (run sp evs).val a; let y ← (run sp evs).val b; pure (f2 op x y)) := by
  induction evs generalizing sp with
  | nil => exact hinv
  | cons ev evs ih =>
    rw [run_cons]
    exact ih (wf.same (sameProg_stepTxn sp ev)) (by simpa using h) (lift2_inv_step wf h hinv ev)

/-- **lift_inv** (`lift2`): in every state reachable from a well-formed state in which nothing is
    stored yet, the lifted cell is `f` of its two inputs -/
theorem lift_inv_lift2 {sp : Spec} {rank : Nat → Nat} (wf : WellFormed sp rank)
    (h0 : ∀ j, sp.stored.get j = none) {i a b : Nat} {op : Int} (h : sp.getDef i = .lift2 a b op)
    (evs : List Events) :
    (run sp evs).val i =
      (do let x ← (run sp evs).val a; let y ← (run sp evs).val b; pure (f2 op x y)) :=
  lift2_inv_run wf h (lift2_inv_init wf h (h0 i)) evs

set_option maxRecDepth 8192 in
example : (∀ j, j < 8 → demo13.stored.get j = none) ∧ demo13.getDef 7 = .lift2 6 4 0 ∧
    (run demo13 [[(0, 4)], [(5, 9), (1, 3)]]).val 7 = some (f2 0 9 (f2 2 (f1 5 4) (f2 1 4 3))) := by
  decide

/-! ### the other derived cells: `CellLoop`, `liftn`, `switchc` -/

/-- a closed `CellLoop` always has the value of the cell it is looped to -/
theorem lift_inv_cloop {sp : Spec} {rank : Nat → Nat} (wf : WellFormed sp rank)
    (h0 : ∀ j, sp.stored.get j = none) {i t : Nat} (h : sp.getDef i = .cloop)
    (hl : sp.loopTo.get i = some t) (evs : List Events) :
    (run sp evs).val i = (run sp evs).val t := by
  have hinv : sp.val i = sp.val t := by
    rw [val_eq wf.ranked.wellRanked i, h0 i, h, hl]
  clear h0
  induction evs generalizing sp with
  | nil => exact hinv
  | cons ev evs ih =>
    rw [run_cons]
    apply ih (wf.same (sameProg_stepTxn sp ev)) (by simpa using h) (by simpa using hl)
    have hi : i < sp.defs.size := getDef_lt sp i (by rw [h]; simp)
    have hct : (sp.getDef t).isCell = true := wf.typed i hi t (by simp [cellDeps, h, hl])
    rw [val_stepTxn_cell wf ev i (by rw [h]; rfl), val_stepTxn_cell wf ev t hct]
    have hf := cloop_fires h hl (wf.resolved ev hi)
    unfold nextVal
    rw [hf, hinv]

theorem liftn_inv_step {sp : Spec} {rank : Nat → Nat} (wf : WellFormed sp rank) {i : Nat}
    {cs : List Nat} (h : sp.getDef i = .liftn cs)
    (hinv : sp.val i = (cs.mapM fun c => sp.val c).map fN) (ev : Events) :
    (stepTxn sp ev).val i = (cs.mapM fun c => (stepTxn sp ev).val c).map fN := by
  have hi : i < sp.defs.size := getDef_lt sp i (by rw [h]; simp)
  have hcc : ∀ j, j ∈ cs → (sp.getDef j).isCell = true :=
    fun j hj => wf.typed i hi j (by simpa [cellDeps, h] using hj)
  rw [val_stepTxn_cell wf ev i (by rw [h]; rfl),
    mapM_option_congr _ (nextVal sp ev) cs (fun j hj => val_stepTxn_cell wf ev j (hcc j hj))]
  have hf := liftn_fires h (wf.resolved ev hi)
  by_cases hany : cs.any (fun j => (fire (fireTable sp ev) j).isSome) = true
  · rw [if_pos hany] at hf
    have hne : cs.mapM (nextVal sp ev) ≠ none := by
      apply mapM_ne_none
      intro j hj hn
      exact cell_has_value wf j (hcc j hj) (nextVal_eq_none hn).2
    cases hm : cs.mapM (nextVal sp ev) with
    | none => exact absurd hm hne
    | some ys =>
      rw [hm] at hf
      rw [nextVal_some hf]; rfl
  · rw [if_neg hany] at hf
    have hall : ∀ j, j ∈ cs → nextVal sp ev j = sp.val j := by
      intro j hj
      apply nextVal_none
      cases hfj : fire (fireTable sp ev) j with
      | none => rfl
      | some x =>
        exfalso; apply hany
        rw [List.any_eq_true]
        exact ⟨j, hj, by rw [hfj]; rfl⟩
    rw [nextVal_none hf, hinv, mapM_option_congr _ (fun j => sp.val j) cs hall]

/-- **lift_inv** (`liftn`) -/
theorem lift_inv_liftn {sp : Spec} {rank : Nat → Nat} (wf : WellFormed sp rank)
    (h0 : ∀ j, sp.stored.get j = none) {i : Nat} {cs : List Nat} (h : sp.getDef i = .liftn cs)
    (evs : List Events) :
    (run sp evs).val i = (cs.mapM fun c => (run sp evs).val c).map fN := by
  have hinv : sp.val i = (cs.mapM fun c => sp.val c).map fN := by
    rw [val_eq wf.ranked.wellRanked i, h0 i, h]
  clear h0
  induction evs generalizing sp with
  | nil => exact hinv
  | cons ev evs ih =>
    rw [run_cons]
    exact ih (wf.same (sameProg_stepTxn sp ev)) (by simpa using h) (liftn_inv_step wf h hinv ev)

theorem switchc_inv_step {sp : Spec} {rank : Nat → Nat} (wf : WellFormed sp rank) {i sel : Nat}
    {cands : List Nat} (h : sp.getDef i = .switchc sel cands)
    (hinv : sp.val i = (sp.val sel).bind fun k => sp.val (cands.getD (k % cands.length).toNat 0))
    (ev : Events) :
    (stepTxn sp ev).val i =
      ((stepTxn sp ev).val sel).bind fun k =>
        (stepTxn sp ev).val (cands.getD (k % cands.length).toNat 0) := by
  have hi : i < sp.defs.size := getDef_lt sp i (by rw [h]; simp)
  have hsel : (sp.getDef sel).isCell = true :=
    wf.typed i hi sel (by simp only [cellDeps, h]; split <;> simp)
  have hcand : ∀ k : Int, (sp.getDef (cands.getD (k % cands.length).toNat 0)).isCell = true := by
    intro k
    apply wf.typed i hi
    simp only [cellDeps, h]
    split
    · rename_i he; subst he; simp
    · rename_i hne; exact List.mem_cons_of_mem _ (getD_emod_mem cands k hne)
  have hf := switchc_fires h (wf.resolved ev hi)
  rw [val_stepTxn_cell wf ev i (by rw [h]; rfl), val_stepTxn_cell wf ev sel hsel]
  cases hfs : fire (fireTable sp ev) sel with
  | some k =>
    rw [hfs] at hf
    simp only [] at hf
    rw [nextVal_some hfs, Option.bind_some, val_stepTxn_cell wf ev _ (hcand k)]
    cases hn : nextVal sp ev (cands.getD (k % cands.length).toNat 0) with
    | none => exact absurd (nextVal_eq_none hn).2 (cell_has_value wf _ (hcand k))
    | some v => rw [hn] at hf; exact nextVal_some hf
  | none =>
    rw [hfs] at hf
    simp only [] at hf
    rw [nextVal_none hfs]
    obtain ⟨k0, hk0⟩ := Option.ne_none_iff_exists'.mp (cell_has_value wf sel hsel)
    rw [hk0] at hf hinv
    simp only [] at hf
    rw [Option.bind_some] at hinv
    rw [hk0, Option.bind_some, val_stepTxn_cell wf ev _ (hcand k0)]
    unfold nextVal
    rw [hf, hinv]

/-- **lift_inv** (`switchc`): the switched cell always has the value of the currently selected cell -/
theorem lift_inv_switchc {sp : Spec} {rank : Nat → Nat} (wf : WellFormed sp rank)
    (h0 : ∀ j, sp.stored.get j = none) {i sel : Nat} {cands : List Nat}
    (h : sp.getDef i = .switchc sel cands) (evs : List Events) :
    (run sp evs).val i =
      ((run sp evs).val sel).bind fun k =>
        (run sp evs).val (cands.getD (k % cands.length).toNat 0) := by
  have hinv : sp.val i = (sp.val sel).bind fun k => sp.val (cands.getD (k % cands.length).toNat 0) := by
    rw [val_eq wf.ranked.wellRanked i, h0 i, h]; rfl
  clear h0
  induction evs generalizing sp with
  | nil => exact hinv
  | cons ev evs ih =>
    rw [run_cons]
    exact ih (wf.same (sameProg_stepTxn sp ev)) (by simpa using h) (switchc_inv_step wf h hinv ev)

end Spec
end SodiumVerif
