/-
  C02 — the stream primitives fire as the semantics prescribes.

  Property theorems about S (`Spec/Denot.lean`).  `fireTable sp ev` is the firing table of the
  transaction with injected events `ev` in state `sp`; `fire tbl i : Option Int` is the firing of
  definition `i` (`none` = does not fire).  Every statement is a corollary of
  `fireTable_solves` (the table satisfies the firing equation of every resolved entry).

  Hypothesis `Resolved sp ev i` (`Lemmas/SpecStep.lean`): entry `i` of the table is computed, i.e.
  `(fireTable sp ev).get i ≠ none`.  It holds for every definition
  of a well-ranked program (`Resolved.of_wellRanked`, from `fireTable_total`); it only fails for a
  definition that depends on itself without a delay.
-/
import SodiumVerif.Lemmas.SpecStep

namespace SodiumVerif
namespace Spec

/-- the program used in the `example`s below (every hypothesis is satisfiable):
    `0 = sink`, `1 = 0.map`, `2 = csink 10`, `3 = 0.snapshot(2)`, `4 = 0.once`, `5 = 0.merge(1)`,
    `6 = 0.mapto`, `7 = 0.filter`, `8 = 1.orelse(0)`, `9 = 0.snapshot1(2)`, `10 = 0.gate(2)`,
    `11 = 0.hold(3)`, `12 = updates(11)`, `13 = never`; transaction: send 7 to sink 0 -/
def demo : Spec :=
  { defs := #[.sink none, .map 0 5, .csink 10, .snapshot 0 2 1, .once 0, .merge 0 1 0, .mapto 0 9,
              .filter 0 1, .orelse 1 0, .snapshot1 0 2, .gate 0 2, .hold 0 3, .updates 11, .never],
    created := #[0, 0, 0, 0, 0, 0, 0, 0, 0, 0, 0, 0, 0, 0] }
def demoEv : Events := [(0, 7)]

set_option maxRecDepth 8192 in
/-- the demo program is well-ranked (operands have smaller indices), so every entry is resolved -/
example : WellRanked demo id := ⟨by decide, by decide, by decide⟩

section
variable {sp : Spec} {ev : Events} {i : Nat}

/-! ### sinks -/

/-- a sink fires exactly the (coalesced) value sent to it in the transaction -/
theorem sink_fires {c} (h : sp.getDef i = .sink c) (hr : Resolved sp ev i) :
    fire (fireTable sp ev) i = ev.get i := by
  have := hr.eqn; rw [fireOf_sink _ _ _ _ h] at this; simpa using this.symm
set_option maxRecDepth 8192 in
example : demo.getDef 0 = .sink none ∧ Resolved demo demoEv 0 := by decide

/-- a sink is always resolved (it has no operands), so `sink_fires` holds unconditionally -/
theorem sink_resolved {c} (h : sp.getDef i = .sink c) : Resolved sp ev i :=
  resolved_leaf sp ev i (getDef_lt sp i (by rw [h]; simp)) (by simp [operands, h])

theorem never_fires (h : sp.getDef i = .never) : fire (fireTable sp ev) i = none := by
  cases hg : (fireTable sp ev).get i with
  | none => exact fire_of_get_none hg
  | some r =>
    have := fireTable_solves sp ev i r hg
    rw [fireOf_never _ _ _ _ h] at this
    rw [fire_of_get hg]; simpa using this.symm
example : demo.getDef 13 = .never := by decide

/-! ### map, mapto, filter -/

theorem map_fires {s k} (h : sp.getDef i = .map s k) (hr : Resolved sp ev i) :
    fire (fireTable sp ev) i = (fire (fireTable sp ev) s).map (f1 k) :=
  fire_unary (fun look => fireOf_map sp ev look i h) hr
set_option maxRecDepth 8192 in
example : demo.getDef 1 = .map 0 5 ∧ Resolved demo demoEv 1 ∧ fire (fireTable demo demoEv) 1 = some (f1 5 7) := by decide

theorem mapto_fires {s k} (h : sp.getDef i = .mapto s k) (hr : Resolved sp ev i) :
    fire (fireTable sp ev) i = (fire (fireTable sp ev) s).map (fun _ => k) :=
  fire_unary (fun look => fireOf_mapto sp ev look i h) hr
set_option maxRecDepth 8192 in
example : demo.getDef 6 = .mapto 0 9 ∧ Resolved demo demoEv 6 := by decide

theorem filter_fires {s k} (h : sp.getDef i = .filter s k) (hr : Resolved sp ev i) :
    fire (fireTable sp ev) i = (fire (fireTable sp ev) s).filter (p1 k) :=
  fire_unary (fun look => fireOf_filter sp ev look i h) hr
set_option maxRecDepth 8192 in
example : demo.getDef 7 = .filter 0 1 ∧ Resolved demo demoEv 7 := by decide

/-! ### merge, orelse -/

/-- `a.merge(b, f)`: a sole event passes; simultaneous events are combined with the receiver's
    event as the left argument -/
theorem merge_fires {a b op} (h : sp.getDef i = .merge a b op) (hr : Resolved sp ev i) :
    fire (fireTable sp ev) i =
      match fire (fireTable sp ev) a, fire (fireTable sp ev) b with
      | some x, some y => some (f2 op x y)
      | some x, none => some x
      | none, y => y :=
  fire_binary (g := fun x y => match x, y with
      | some x, some y => some (f2 op x y)
      | some x, none => some x
      | none, y => y) (fun look => fireOf_merge sp ev look i h) hr

theorem merge_both {a b op x y} (h : sp.getDef i = .merge a b op) (hr : Resolved sp ev i)
    (ha : fire (fireTable sp ev) a = some x) (hb : fire (fireTable sp ev) b = some y) :
    fire (fireTable sp ev) i = some (f2 op x y) := by
  rw [merge_fires h hr, ha, hb]
set_option maxRecDepth 8192 in
example : demo.getDef 5 = .merge 0 1 0 ∧ Resolved demo demoEv 5 ∧
    fire (fireTable demo demoEv) 0 = some 7 ∧ fire (fireTable demo demoEv) 1 = some 26 := by decide

theorem merge_left {a b op x} (h : sp.getDef i = .merge a b op) (hr : Resolved sp ev i)
    (ha : fire (fireTable sp ev) a = some x) (hb : fire (fireTable sp ev) b = none) :
    fire (fireTable sp ev) i = some x := by
  rw [merge_fires h hr, ha, hb]

theorem merge_right {a b op} (h : sp.getDef i = .merge a b op) (hr : Resolved sp ev i)
    (ha : fire (fireTable sp ev) a = none) :
    fire (fireTable sp ev) i = fire (fireTable sp ev) b := by
  rw [merge_fires h hr, ha]

/-- `a.or_else(b)`: the left event wins -/
theorem orelse_fires {a b} (h : sp.getDef i = .orelse a b) (hr : Resolved sp ev i) :
    fire (fireTable sp ev) i =
      (fire (fireTable sp ev) a).orElse fun _ => fire (fireTable sp ev) b :=
  fire_binary (g := fun x y => x.orElse fun _ => y) (fun look => fireOf_orelse sp ev look i h) hr
set_option maxRecDepth 8192 in
example : demo.getDef 8 = .orelse 1 0 ∧ Resolved demo demoEv 8 := by decide

/-! ### snapshot, gate: the cell is read at its value at the start of the transaction -/

theorem snapshot_fires {s c op} (h : sp.getDef i = .snapshot s c op) (hr : Resolved sp ev i) :
    fire (fireTable sp ev) i =
      (fire (fireTable sp ev) s).bind fun x => (sp.val c).map (f2 op x) :=
  fire_unary (fun look => fireOf_snapshot sp ev look i h) hr

theorem snapshot_fires_val {s c op x y} (h : sp.getDef i = .snapshot s c op)
    (hr : Resolved sp ev i) (hs : fire (fireTable sp ev) s = some x) (hc : sp.val c = some y) :
    fire (fireTable sp ev) i = some (f2 op x y) := by
  rw [snapshot_fires h hr, hs, hc]; rfl
set_option maxRecDepth 8192 in
example : demo.getDef 3 = .snapshot 0 2 1 ∧ Resolved demo demoEv 3 ∧
    fire (fireTable demo demoEv) 0 = some 7 ∧ demo.val 2 = some 10 := by decide

theorem snapshot1_fires {s c} (h : sp.getDef i = .snapshot1 s c) (hr : Resolved sp ev i) :
    fire (fireTable sp ev) i = (fire (fireTable sp ev) s).bind fun _ => sp.val c :=
  fire_unary (fun look => fireOf_snapshot1 sp ev look i h) hr
set_option maxRecDepth 8192 in
example : demo.getDef 9 = .snapshot1 0 2 ∧ Resolved demo demoEv 9 := by decide

theorem gate_fires {s c} (h : sp.getDef i = .gate s c) (hr : Resolved sp ev i) :
    fire (fireTable sp ev) i =
      (fire (fireTable sp ev) s).filter fun _ => ((sp.val c).map even).getD false :=
  fire_unary (fun look => fireOf_gate sp ev look i h) hr
set_option maxRecDepth 8192 in
example : demo.getDef 10 = .gate 0 2 ∧ Resolved demo demoEv 10 := by decide

/-! ### hold / updates -/

/-- the update of `s.hold(k)` is the firing of `s` -/
theorem hold_fires {s k} (h : sp.getDef i = .hold s k) (hr : Resolved sp ev i) :
    fire (fireTable sp ev) i = fire (fireTable sp ev) s := by
  have := fire_unary (s := s) (g := id) (fun look => by rw [fireOf_hold sp ev look i h]; simp) hr
  simpa using this

theorem updates_fires {c} (h : sp.getDef i = .updates c) (hr : Resolved sp ev i) :
    fire (fireTable sp ev) i = fire (fireTable sp ev) c := by
  have := fire_unary (s := c) (g := id) (fun look => by rw [fireOf_updates sp ev look i h]; simp) hr
  simpa using this

/-- `updates(s.hold(k))` fires exactly the events of `s` -/
theorem updates_hold_fires {c s k} (h : sp.getDef i = .updates c) (hc : sp.getDef c = .hold s k)
    (hr : Resolved sp ev i) (hrc : Resolved sp ev c) :
    fire (fireTable sp ev) i = fire (fireTable sp ev) s := by
  rw [updates_fires h hr, hold_fires hc hrc]
set_option maxRecDepth 8192 in
example : demo.getDef 12 = .updates 11 ∧ Resolved demo demoEv 12 ∧
    demo.getDef 11 = .hold 0 3 ∧ Resolved demo demoEv 11 := by decide

/-! ### once -/

/-- `s.once()` fires iff it has not fired in an earlier transaction and `s` fires -/
theorem once_fires {s} (h : sp.getDef i = .once s) (hr : Resolved sp ev i) :
    fire (fireTable sp ev) i = if sp.onceDone.get i then none else fire (fireTable sp ev) s := by
  have he := hr.eqn
  rw [fireOf_once _ _ _ _ h] at he
  split
  · rename_i hd; rw [if_pos hd] at he; simpa using he.symm
  · rename_i hd; rw [if_neg hd] at he
    cases hs : (fireTable sp ev).get s with
    | none => simp [hs] at he
    | some x => rw [fire_of_get hs]; simpa [hs] using he.symm
set_option maxRecDepth 8192 in
example : demo.getDef 4 = .once 0 ∧ Resolved demo demoEv 4 := by decide

/-- once done, never again (no resolution hypothesis needed) -/
theorem once_done_silent {s} (h : sp.getDef i = .once s) (hd : sp.onceDone.get i = true) :
    fire (fireTable sp ev) i = none := by
  cases hg : (fireTable sp ev).get i with
  | none => exact fire_of_get_none hg
  | some r =>
    have := fireTable_solves sp ev i r hg
    rw [fireOf_once _ _ _ _ h, if_pos hd] at this
    rw [fire_of_get hg]; simpa using this.symm

/-- the transaction marks the `once` as done exactly when it fired -/
theorem once_done_step {s} (h : sp.getDef i = .once s) :
    (stepTxn sp ev).onceDone.get i = (sp.onceDone.get i || (fire (fireTable sp ev) i).isSome) := by
  have hi : i < sp.defs.size := getDef_lt sp i (by rw [h]; simp)
  rw [stepTxn_onceDone, applyUpdates_onceDone_get, if_pos hi]
  simp only [onceUpd, h]
  cases hf : fire (fireTable sp ev) i with
  | none => simp
  | some v =>
    simp

end

/-- a `once` that is done stays silent in every later transaction -/
theorem once_done_trace {sp : Spec} {i s : Nat} (h : sp.getDef i = .once s)
    (hd : sp.onceDone.get i = true) (evs : List Events) :
    ∀ f, f ∈ fireTrace sp evs i → f = none := by
  induction evs generalizing sp with
  | nil => intro f hf; cases hf
  | cons ev evs ih =>
    intro f hf
    rcases List.mem_cons.mp hf with rfl | hf'
    · exact once_done_silent h hd
    · exact ih (sp := stepTxn sp ev) (by simpa using h) (by rw [once_done_step h, hd]; rfl) f hf'

/-- `once` fires in at most one transaction of any sequence of transactions -/
theorem once_fires_at_most_once {sp : Spec} {i s : Nat} (h : sp.getDef i = .once s)
    (evs : List Events) : ((fireTrace sp evs i).filter (·.isSome)).length ≤ 1 := by
  induction evs generalizing sp with
  | nil => simp [fireTrace]
  | cons ev evs ih =>
    have h' : (stepTxn sp ev).getDef i = .once s := by simpa using h
    cases hf : fire (fireTable sp ev) i with
    | none =>
      have := ih h'
      simpa [fireTrace, hf] using this
    | some v =>
      have hd : (stepTxn sp ev).onceDone.get i = true := by
        rw [once_done_step h, hf]; simp
      have hnone := once_done_trace h' hd evs
      have : (fireTrace (stepTxn sp ev) evs i).filter (·.isSome) = [] := by
        rw [List.filter_eq_nil_iff]
        intro f hfm
        rw [hnone f hfm]; simp
      simp [fireTrace, hf, this]

/-- two-transaction form: after firing, the `once` does not fire in the next transaction -/
theorem once_not_twice {sp : Spec} {i s : Nat} {v : Int} (h : sp.getDef i = .once s)
    (ev ev' : Events) (hf : fire (fireTable sp ev) i = some v) :
    fire (fireTable (stepTxn sp ev) ev') i = none := by
  apply once_done_silent (s := s) (by simpa using h)
  rw [once_done_step h, hf]; simp
set_option maxRecDepth 8192 in
example : demo.getDef 4 = .once 0 ∧ fire (fireTable demo demoEv) 4 = some 7 := by decide


end Spec
end SodiumVerif
