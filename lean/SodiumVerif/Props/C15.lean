/-
  C15 — coalescing of several sends to one sink inside one transaction.

  `addSend coal sends i v` is a `send v` to sink `i` (with coalescer `coal = sp.coalescer i`) while the
  pending events of the open transaction are `sends`.  A sink with coalescer `f2 op` folds the values
  sent to it from the left, previous value as first argument; no commutativity or associativity of the
  coalescer is used.  A sink without coalescer keeps the last value.  Sends to other sinks, interleaved
  anywhere, do not matter.
-/
import SodiumVerif.Lemmas.SpecSend

namespace SodiumVerif
namespace Spec

/-- a send to sink `i` does not change what is pending for any other sink -/
theorem addSend_get_other (coal : Option Int) (sends : Events) (i j : Nat) (v : Int) (h : j ≠ i) :
    (addSend coal sends i v).get j = sends.get j :=
  addSend_get_other' coal sends i j v h

/-- the sends `vs`, in order, to the one sink `i` -/
def sendMany (coal : Option Int) (sends : Events) (i : Nat) (vs : List Int) : Events :=
  vs.foldl (fun s v => addSend coal s i v) sends

theorem sendMany_get (coal : Option Int) (sends : Events) (i : Nat) (vs : List Int) :
    (sendMany coal sends i vs).get i = vs.foldl (pend coal) (sends.get i) := by
  unfold sendMany
  induction vs generalizing sends with
  | nil => rfl
  | cons v vs ih => rw [List.foldl_cons, List.foldl_cons, ih, addSend_get_same]

/-- **send_fold**: with coalescer `f2 op`, the sends `v₁ … vₙ` to a sink with nothing pending leave
    the left fold `f2 op (… (f2 op (f2 op v₁ v₂) v₃) …) vₙ` pending -/
theorem send_fold (op : Int) (sends : Events) (i : Nat) (v₁ : Int) (vs : List Int)
    (h : sends.get i = none) :
    (sendMany (some op) sends i (v₁ :: vs)).get i = some (vs.foldl (f2 op) v₁) := by
  rw [sendMany_get, h, List.foldl_cons, pend_none_left, foldl_pend_some]

example : (sendMany (some 1) [] 0 [3, 4, 5]).get 0 = some (f2 1 (f2 1 3 4) 5) := by decide

/-- without coalescer the last value sent is pending -/
theorem send_last (sends : Events) (i : Nat) (v₁ : Int) (vs : List Int) :
    (sendMany none sends i (v₁ :: vs)).get i = some ((v₁ :: vs).getLast (by simp)) := by
  rw [sendMany_get, foldl_pend_none]

example : (sendMany none [] 0 [3, 4, 5]).get 0 = some 5 := by decide

/-! ### interleaved sends to several sinks -/

/-- the sends `ps` (sink, value), in order; `coal` gives the coalescer of every sink
    (`sp.coalescer` in `Script.lean`) -/
def sendAll (coal : Nat → Option Int) (sends : Events) (ps : List (Nat × Int)) : Events :=
  ps.foldl (fun s p => addSend (coal p.1) s p.1 p.2) sends

/-- the values sent to sink `i`, in order -/
def sentTo (ps : List (Nat × Int)) (i : Nat) : List Int := (ps.filter (·.1 == i)).map (·.2)

/-- what is pending for sink `i` depends only on the values sent to `i`, in their order -/
theorem sendAll_get (coal : Nat → Option Int) (sends : Events) (ps : List (Nat × Int)) (i : Nat) :
    (sendAll coal sends ps).get i = (sentTo ps i).foldl (pend (coal i)) (sends.get i) := by
  unfold sendAll sentTo
  induction ps generalizing sends with
  | nil => rfl
  | cons p ps ih =>
    rw [List.foldl_cons, ih]
    by_cases hp : p.1 = i
    · have : (p.1 == i) = true := by simp [hp]
      rw [List.filter_cons, if_pos this, List.map_cons, List.foldl_cons, ← hp, addSend_get_same]
    · have : ¬ (p.1 == i) = true := by simp [hp]
      rw [List.filter_cons, if_neg this, addSend_get_other' _ _ _ _ _ (fun e => hp e.symm)]

/-- **send_fold, interleaved**: sink `i` with coalescer `f2 op` and nothing pending; if the values sent
    to `i` among the interleaved sends `ps` are `v₁ … vₙ`, their left fold is pending for `i` -/
theorem send_fold_interleaved (coal : Nat → Option Int) (sends : Events) (ps : List (Nat × Int))
    (i : Nat) (op v₁ : Int) (vs : List Int)
    (hc : coal i = some op) (h : sends.get i = none) (hv : sentTo ps i = v₁ :: vs) :
    (sendAll coal sends ps).get i = some (vs.foldl (f2 op) v₁) := by
  rw [sendAll_get, hv, hc, h, List.foldl_cons, pend_none_left, foldl_pend_some]

/-- interleaved, sink without coalescer: the last value sent to `i` is pending -/
theorem send_last_interleaved (coal : Nat → Option Int) (sends : Events) (ps : List (Nat × Int))
    (i : Nat) (v₁ : Int) (vs : List Int) (hc : coal i = none) (hv : sentTo ps i = v₁ :: vs) :
    (sendAll coal sends ps).get i = some ((v₁ :: vs).getLast (by simp)) := by
  rw [sendAll_get, hv, hc, foldl_pend_none]

/-- no send to `i`: nothing changes for `i` -/
theorem sendAll_get_untouched (coal : Nat → Option Int) (sends : Events) (ps : List (Nat × Int))
    (i : Nat) (hv : sentTo ps i = []) : (sendAll coal sends ps).get i = sends.get i := by
  rw [sendAll_get, hv]; rfl

/-- sinks 0 (coalescer `f2 1`) and 1 (none), sends interleaved -/
example :
    let coal : Nat → Option Int := fun i => if i = 0 then some 1 else none
    let ps : List (Nat × Int) := [(0, 3), (1, 10), (0, 4), (1, 11), (0, 5)]
    sentTo ps 0 = [3, 4, 5] ∧ sentTo ps 1 = [10, 11] ∧
    (sendAll coal [] ps).get 0 = some (f2 1 (f2 1 3 4) 5) ∧ (sendAll coal [] ps).get 1 = some 11 := by
  decide

end Spec
end SodiumVerif
