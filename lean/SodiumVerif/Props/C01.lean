/-
  C01 — no callback (no queued closure) runs before the outermost transaction closes.
  Property theorems about M_txn (`Model/Txn.lean`).
-/
import SodiumVerif.Model.Txn
import SodiumVerif.Gen.Facts
import SodiumVerif.Lemmas.TxnBasic

namespace SodiumVerif
namespace Txn

variable {α : Type}

/-- C01 — opening a transaction, pushing a closure, and closing an inner transaction (depth ≥ 2) run
    nothing: the execution log is unchanged. -/
theorem no_run_while_open (q : α → Queue) (body : α → List α) (upd : List α) (fuel : Nat)
    (c : Ctx α) (a : α) :
    (enter c).log = c.log ∧ (push q c a).log = c.log ∧
    (2 ≤ c.depth → (leave q body upd (fuel + 1) c).log = c.log) := by
  refine ⟨rfl, ?_, ?_⟩
  · rw [push_eq]
  · intro h; rw [leave_of_two_le q body upd fuel c h]

example : (enter exCtx).log = [] ∧ (push Act.queue exCtx (.userPost 9)).log = []
    ∧ (push Act.queue exCtx (.userPost 9)).post = [.deferredSend 1 5, .userPost 9]
    ∧ (leave Act.queue exBody exUpd 3 (enter exCtx)).log = []
    ∧ (leave Act.queue exBody exUpd 3 exCtx).log ≠ [] := by decide

/-- the same with a propagation that pushes a `pre_eot` closure: nothing runs at an inner close -/
example : (leave Act.queue exBody exUpdPre 3 (enter exCtx)).log = []
    ∧ (leave Act.queue exBody exUpdPre 3 (enter exCtx)).preEot = exCtx.preEot
    ∧ (leave Act.queue exBody exUpdPre 3 exCtx).log ≠ [] := by decide

/-- C01 — for every sequence of enters, pushes and leaves that keeps the transaction open (no leave
    brings the depth to 0: `staysOpen`), the log is unchanged, whatever is on the queues; the word
    only accumulates its pushes on the queues.  No closure runs before the outermost close. -/
theorem no_callback_before_outermost_close (q : α → Queue) (body : α → List α) (fuel : Nat)
    (w : List (Op α)) (c : Ctx α) (hopen : staysOpen c.depth w = true) :
    (run q body (fuel + 1) w c).log = c.log ∧
    (run q body (fuel + 1) w c).eots = c.eots ∧
    (run q body (fuel + 1) w c).collects = c.collects ∧
    (run q body (fuel + 1) w c).preEot = c.preEot ++ onQ q .preEot (pushes w) ∧
    (run q body (fuel + 1) w c).prePost = c.prePost ++ onQ q .prePost (pushes w) ∧
    (run q body (fuel + 1) w c).post = c.post ++ onQ q .post (pushes w) := by
  rw [run_open q body fuel w c hopen]
  exact ⟨rfl, rfl, rfl, rfl, rfl, rfl⟩

/-- `staysOpen` from depth ≥ 1 indeed keeps the depth ≥ 1 -/
theorem staysOpen_depth_pos (d : Nat) (w : List (Op α)) (hd : 1 ≤ d) (h : staysOpen d w = true) :
    1 ≤ depthAfter d w := by
  induction w generalizing d with
  | nil => exact hd
  | cons o w ih =>
    cases o with
    | enter => exact ih (d + 1) (by omega) (by simpa [staysOpen] using h)
    | push a => exact ih d hd (by simpa [staysOpen] using h)
    | leave =>
      simp only [staysOpen, Bool.and_eq_true, decide_eq_true_eq] at h
      exact ih (d - 1) (by omega) h.2

/-- a word that opens nested transactions, pushes closures of all three queues, closes the inner
    ones — and runs nothing -/
def exOpenWord : List (Op Act) :=
  [.push (.catchUpHold 1), .enter, .push (.deferredSend 1 5), .enter, .leave,
   .push (.commitHold 2), .leave, .push (.userPost 9)]

example := no_callback_before_outermost_close Act.queue exBody 2 exOpenWord exCtx (by decide)

example : (run Act.queue exBody 3 exOpenWord exCtx).log = []
    ∧ (run Act.queue exBody 3 exOpenWord exCtx).depth = 1
    ∧ (run Act.queue exBody 3 exOpenWord exCtx).post
        = [.deferredSend 1 5, .deferredSend 1 5, .userPost 9]
    ∧ (run Act.queue exBody 3 (exOpenWord ++ [.leave]) exCtx).log.length = 11 := by decide

/-- source fact: `leave_transaction` runs `end_of_transaction` only when the depth reaches 0 (the
    `if c.depth ≠ 0 then c` of `leave`) -/
theorem outermost_leave_only : Facts.outermostLeaveOnly = true := rfl

end Txn
end SodiumVerif
