/-
  C05 — switch_s / switch_c follow the current inner stream or cell with Sodium timing.
  Property theorems about S.  `sp.val sel` is the selector's value at the *start* of the
  transaction, so a switch becomes effective from the next transaction on (`switchs_fires`);
  `switch_c` takes the new inner cell's value, including an update the new cell receives in the
  switching transaction (`switchc_fires_on_switch`), and always equals the value of the cell
  currently selected (`lift_inv_switchc`, proved in `Props/C13.lean`, re-stated here).
-/
import SodiumVerif.Props.C13

namespace SodiumVerif
namespace Spec

variable {sp : Spec} {ev : Events} {i : Nat}

/-- switch_s emits, in each transaction, the event of the stream selected by the outer cell's value
    at the start of that transaction -/
theorem switchs_fires {sel cands k} (h : sp.getDef i = .switchs sel cands) (hv : sp.val sel = some k)
    (hr : Resolved sp ev i) :
    fire (fireTable sp ev) i = fire (fireTable sp ev) (cands.getD (k % cands.length).toNat 0) := by
  have he := hr.eqn
  rw [fireOf_switchs _ _ _ _ h, hv] at he
  simp only at he
  cases hs : (fireTable sp ev).get (cands.getD (k % cands.length).toNat 0) with
  | none => rw [hs] at he; cases he
  | some x => rw [hs] at he; rw [fire_of_get hs]; simpa using he.symm

/-- an update of the selector in the same transaction does not change what switch_s emits in that
    transaction: the equation does not mention the selector's firing at all -/
theorem switchs_ignores_selector_update {sel cands} (h : sp.getDef i = .switchs sel cands)
    (look look' : Nat → Option (Option Int)) (hl : ∀ j, j ≠ sel → look j = look' j)
    (hns : ∀ k : Int, cands.getD (k % cands.length).toNat 0 ≠ sel) :
    fireOf sp ev look i = fireOf sp ev look' i := by
  rw [fireOf_switchs _ _ _ _ h, fireOf_switchs _ _ _ _ h]
  cases hv : sp.val sel with
  | none => rfl
  | some k => simp only; exact hl _ (hns k)

/-- in a transaction in which the selector fires `k`, switch_c emits the new inner cell's update of
    that same transaction if it has one, else the new inner cell's current value -/
theorem switchc_fires_on_switch {sel cands k} (h : sp.getDef i = .switchc sel cands)
    (hs : fire (fireTable sp ev) sel = some k) (hrs : Resolved sp ev sel) (hr : Resolved sp ev i) :
    fire (fireTable sp ev) i =
      (fire (fireTable sp ev) (cands.getD (k % cands.length).toNat 0)).orElse
        fun _ => sp.val (cands.getD (k % cands.length).toNat 0) := by
  have he := hr.eqn
  rw [fireOf_switchc _ _ _ _ h] at he
  cases hsel : (fireTable sp ev).get sel with
  | none => exact absurd hsel hrs
  | some sf =>
    have : sf = some k := by rw [fire_of_get hsel] at hs; exact hs
    subst this
    simp only [hsel, Option.bind_eq_bind, Option.bind_some] at he
    cases hin : (fireTable sp ev).get (cands.getD (k % cands.length).toNat 0) with
    | none =>
      simp only [List.getD_eq_getElem?_getD] at hin he
      simp [hin] at he
    | some f =>
      rw [fire_of_get hin]
      simp only [List.getD_eq_getElem?_getD] at hin he ⊢
      simp only [hin, Option.bind_some, Option.pure_def, Option.some.injEq] at he
      exact he.symm

/-- switch_c always equals the value of the cell currently held by the outer cell (C13's invariant,
    for every reachable state of a well-formed program) -/
theorem switchc_value {rank : Nat → Nat} (wf : WellFormed sp rank) (h0 : ∀ j, sp.stored.get j = none)
    {sel cands} (h : sp.getDef i = .switchc sel cands) (evs : List Events) :
    (run sp evs).val i = (do
      let k ← (run sp evs).val sel
      (run sp evs).val (cands.getD (k % cands.length).toNat 0)) :=
  lift_inv_switchc wf h0 h evs

end Spec
end SodiumVerif
