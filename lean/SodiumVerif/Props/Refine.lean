/-
  Refinement: the propagation scheduler computes S's firing table.

  For a program `sp` of S (`Spec/Denot.lean`) take the scheduler instance of `Lemmas/Bridge.lean`:
  one node per definition, `deps i = operands sp i`, the update closure of node `i` is definition `i`'s
  firing equation applied to the value slots of its operands (`specF`), and the transaction fires the
  input leaves that received an event (`ev`).  Then one `transaction false` of M_sched (`Model/Sched.lean`)
  ends with `fire (fireTable sp ev) i` in the value slot of every node `i`: the scheduler's strategy
  "run the update of a node once, after all its dependencies, and only if one of them changed" computes
  the solution of S's equations.

  Hypotheses: `WellRanked sp rank` (the operand relation is acyclic, and so is the value dependency of a
  `holdz` on the cell of its Lazy: `valDeps`, which is not an edge of the scheduler's graph), `Quiet sp` (no `value` stream created
  in this very transaction — the only equation of S that fires without any operand firing; implied by
  `Static sp`), `EvOK sp ev` (events are injected at distinct input leaves).

  Proof: by `transaction_glitch_free` (C03) the final scheduler state is a `FixedPoint` of `specF`; S's
  table, read as a scheduler state, is one too (`tableState_fixedPoint`) with the same source slots
  (`tableState_sources`, `specState_fired`); fixed points are unique (`fixedPoint_unique`).
-/
import SodiumVerif.Lemmas.Bridge
import SodiumVerif.Props.C03

namespace SodiumVerif
namespace Bridge

open Spec Sched

/-- **Refinement, slots.**  After the transaction every node holds S's firing of its definition, and its
    `changed` flag says whether the definition fires. -/
theorem sched_computes_fireTable {sp : Spec} {rank : Nat → Nat} {ev : Events}
    (wr : WellRanked sp rank) (hq : Quiet sp) (hev : EvOK sp ev) (i : Nat) :
    ((transaction false (specF sp ev) ev (specState sp)).nodes.get i).val = fire (fireTable sp ev) i ∧
    ((transaction false (specF sp ev) ev (specState sp)).nodes.get i).changed =
      (fire (fireTable sp ev) i).isSome := by
  obtain ⟨_, _, _, hfp, hkeep⟩ :=
    transaction_glitch_free (s := specState sp) (specWF wr ev) (specInit sp) (specSrcs hev)
  have hu := fixedPoint_unique (g := specGraph sp) (g' := specGraph sp) (specWF wr ev).dag (specWF wr ev).loc
    (fun _ _ => Iff.rfl) hfp (tableState_fixedPoint wr hq ev) (fun j hj => by
      rw [specGraph_deps] at hj
      have h1 := hkeep j (by rw [specGraph_deps]; exact hj)
      have h2 := specState_fired hev j
      have h3 := tableState_sources wr hev j hj
      exact ⟨h3.1.trans (h2.1.symm.trans h1.1.symm), h3.2.trans (h2.2.symm.trans h1.2.symm)⟩) i
  have hv : ((transaction false (specF sp ev) ev (specState sp)).nodes.get i).val = fire (fireTable sp ev) i := by
    rw [← hu.1, tableState_val']
  exact ⟨hv, by rw [← hu.2, tableState_changed, hu.1, hv]⟩

/-- **Refinement theorem.**  One transaction of the (queue) scheduler on the scheduler instance of a
    well-ranked quiet program:
    (1) no fuel runs out and the queue is drained;
    (2) every update closure ran at most once;
    (3) the value slot of every definition holds its firing in S's table;
    (4) the update closure of `j` ran iff one of its operands fires in S's table. -/
theorem sched_refines_spec {sp : Spec} {rank : Nat → Nat} {ev : Events}
    (wr : WellRanked sp rank) (hq : Quiet sp) (hev : EvOK sp ev) :
    (transaction false (specF sp ev) ev (specState sp)).oof = false ∧
    (transaction false (specF sp ev) ev (specState sp)).queue = [] ∧
    (transaction false (specF sp ev) ev (specState sp)).log.Nodup ∧
    (∀ i, ((transaction false (specF sp ev) ev (specState sp)).nodes.get i).val = fire (fireTable sp ev) i) ∧
    (∀ j, j ∈ (transaction false (specF sp ev) ev (specState sp)).log ↔
      (operands sp j).any (fun d => (fire (fireTable sp ev) d).isSome) = true) := by
  obtain ⟨h1, h2, h3, _, _⟩ :=
    transaction_glitch_free (s := specState sp) (specWF wr ev) (specInit sp) (specSrcs hev)
  refine ⟨h1, h2, h3, fun i => (sched_computes_fireTable wr hq hev i).1, fun j => ?_⟩
  have h := transaction_runs_iff (s := specState sp) (specWF wr ev) (specInit sp) (specSrcs hev) j
  rw [specGraph_deps] at h
  have hc : (fun d => ((transaction false (specF sp ev) ev (specState sp)).nodes.get d).changed) =
      (fun d => (fire (fireTable sp ev) d).isSome) :=
    funext fun d => (sched_computes_fireTable wr hq hev d).2
  rw [hc] at h
  exact h

/-- the refinement theorem for the static stream fragment -/
theorem sched_refines_spec_static {sp : Spec} {rank : Nat → Nat} {ev : Events}
    (wr : WellRanked sp rank) (hs : Static sp) (hev : EvOK sp ev) :
    (transaction false (specF sp ev) ev (specState sp)).oof = false ∧
    (transaction false (specF sp ev) ev (specState sp)).queue = [] ∧
    (transaction false (specF sp ev) ev (specState sp)).log.Nodup ∧
    (∀ i, ((transaction false (specF sp ev) ev (specState sp)).nodes.get i).val = fire (fireTable sp ev) i) ∧
    (∀ j, j ∈ (transaction false (specF sp ev) ev (specState sp)).log ↔
      (operands sp j).any (fun d => (fire (fireTable sp ev) d).isSome) = true) :=
  sched_refines_spec wr hs.quiet hev

/-! ### the hypotheses are satisfiable: a program of the D1 shape

  Sinks `0`, `1`; `2 = merge 0 1`; `3 = map 2`; `4 = merge 3 0` (the D1 diamond: `4` reads `0` directly and
  through `2`, `3`); `5 = filter 4`; `6 = hold 5`; `7 = snapshot 1 6`.  Both sinks receive an event. -/

def d1Prog : Spec :=
  { defs := #[.sink none, .sink none, .merge 0 1 1, .map 2 5, .merge 3 0 0, .filter 4 1, .hold 5 0,
              .snapshot 1 6 2] }

def d1Ev : Events := [(1, 5), (0, 7)]

theorem d1Prog_wellRanked : WellRanked d1Prog id := ⟨by decide, by decide, by decide⟩
theorem d1Prog_static : Static d1Prog := by decide
theorem d1Prog_evOK : EvOK d1Prog d1Ev := ⟨by decide, by decide⟩

/-- the graph the scheduler works on -/
example : (List.range 8).map (fun i => ((specState d1Prog).nodes.get i).deps) =
      [[], [], [0, 1], [2], [3, 0], [4], [5], [1]] ∧
    (List.range 8).map (fun i => ((specState d1Prog).nodes.get i).dependents) =
      [[2, 4], [2, 7], [3], [4], [5], [6], [], []] := by decide

set_option maxRecDepth 4000 in
/-- both sides computed: S's table and the scheduler's value slots -/
example : (List.range 8).map (fire (fireTable d1Prog d1Ev)) =
      [some 7, some 5, some 222, some 671, some 664, some 664, some 664, some 5] ∧
    (List.range 8).map (fun i => ((transaction false (specF d1Prog d1Ev) d1Ev (specState d1Prog)).nodes.get i).val) =
      [some 7, some 5, some 222, some 671, some 664, some 664, some 664, some 5] ∧
    (transaction false (specF d1Prog d1Ev) d1Ev (specState d1Prog)).log = [2, 7, 3, 4, 5, 6] := by decide

/-- `sched_refines_spec_static` instantiated -/
example (i : Nat) :
    ((transaction false (specF d1Prog d1Ev) d1Ev (specState d1Prog)).nodes.get i).val =
      fire (fireTable d1Prog d1Ev) i :=
  (sched_refines_spec_static d1Prog_wellRanked d1Prog_static d1Prog_evOK).2.2.2.1 i

/-- the depth-first scheduler of 2.1.2 does *not* compute S's table on this program (finding D1 with
    values): `3` is reached while `2` is still in progress and never fires, `4` merges a stale slot -/
example : (List.range 8).map (fun i => ((transaction true (specF d1Prog d1Ev) d1Ev (specState d1Prog)).nodes.get i).val) =
      [some 7, some 5, some 222, none, some 7, some 7, some 7, some 5] ∧
    (transaction true (specF d1Prog d1Ev) d1Ev (specState d1Prog)).log = [4, 5, 6, 2, 7] := by decide

/-- `Quiet` cannot be dropped: a `value` stream created in this transaction fires in S although none of
    its operands does, and the scheduler never runs its update -/
def freshProg : Spec := { defs := #[.csink 3, .value 0], created := #[1, 1], txn := 1 }

example : WellRanked freshProg id ∧ EvOK freshProg [] ∧ ¬ Quiet freshProg ∧
    fire (fireTable freshProg []) 1 = some 3 ∧
    ((transaction false (specF freshProg []) [] (specState freshProg)).nodes.get 1).val = none := by
  refine ⟨⟨by decide, by decide, by decide⟩, ⟨by decide, by decide⟩, by decide, by decide, by decide⟩

end Bridge
end SodiumVerif
