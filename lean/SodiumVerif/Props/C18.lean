/-
  C18 — router streams equal the corresponding filters of the input stream.
-/
import SodiumVerif.Lemmas.SpecStep

namespace SodiumVerif
namespace Spec

variable {sp : Spec} {ev : Events} {i : Nat}

/-- the stream for key `k` fires exactly when the input fires a value whose selector result
    contains `k`, carrying that value — once, because a firing is a single optional value, however
    often the selector lists `k` -/
theorem route_fires {src sel k} (h : sp.getDef i = .route src sel k) (hr : Resolved sp ev i) :
    fire (fireTable sp ev) i = (fire (fireTable sp ev) src).filter fun x => (routeKeys sel x).contains k :=
  fire_unary (fun look => fireOf_route _ _ look _ h) hr

/-- a routed stream is the same as a filter on the input stream with the predicate "the selector
    result contains k": two definitions, one a route and one such a filter, fire identically -/
theorem route_eq_filter_twin {src sel k j} (h : sp.getDef i = .route src sel k) (hr : Resolved sp ev i)
    (hj : fire (fireTable sp ev) j = (fire (fireTable sp ev) src).filter fun x => (routeKeys sel x).contains k) :
    fire (fireTable sp ev) i = fire (fireTable sp ev) j := by
  rw [route_fires h hr, hj]

/-- duplicates in the selector's result do not matter -/
theorem contains_dup (l : List Int) (k a : Int) : (a :: a :: l).contains k = (a :: l).contains k := by
  simp [List.contains_cons]

end Spec
end SodiumVerif
