/-
  C06 — nothing reachable from a live handle is ever reclaimed; no internal reference-counting
  abort.  Collector half: soundness of `collect_cycles` on M_gc *without any fuel hypothesis*
  (soundness from `Props/C08`, termination from `Props/C16`), for every object graph that
  satisfies the collector's contract.  The primitives' side of the contract (every reported edge is
  backed by one counted reference) is checked on the real graph by the harness (level L-mem).
-/
import SodiumVerif.Props.C08
import SodiumVerif.Props.C16

namespace SodiumVerif
namespace Gc

/-- the invariant bounds every id the collector can meet -/
theorem GcInv.bounded {g : State} (I : GcInv g) : Bounded g.nextId g :=
  ⟨fun i t ht => I.wf i t (by rw [← I.contract i]; exact ht), I.wf, I.rootsLt,
   fun r hr => by rw [I.tbf] at hr; cases hr⟩

/-- **Unconditional soundness of a collection.**  From any state satisfying the collector
    invariant (counts = external handles + counted edges from unfreed objects, contract
    `traced = owned`), `collect_cycles` terminates (no walk and no pass runs out of its bound),
    raises no internal panic, frees no object reachable from an object with an external handle,
    keeps those objects' edges, leaves every external-handle count unchanged, re-establishes the
    invariant and empties both buffers. -/
theorem collect_sound_total (g : State) (I : GcInv g) (h0 : g.oof = false) :
    let g' := collectCycles g
    g'.oof = false ∧ g'.panic = none ∧
    (∀ r i, (g.nodes.get r).freed = false → 0 < ext g r → Reach g r i →
      (g'.nodes.get i).freed = false ∧ (g'.nodes.get i).owned = (g.nodes.get i).owned ∧
        Reach g' r i) ∧
    GcInv g' ∧ (g'.roots = [] ∧ g'.toBeFreed = []) ∧
    (∀ i, ext g' i = ext g i) ∧ g'.nextId = g.nextId := by
  have ho : (collectCycles g).oof = false := by
    rw [collectCycles_terminates g I.bounded]; exact h0
  exact ⟨ho, collect_sound g I ho⟩

/-- every state a contract-respecting client can reach (handle clone/drop, edge add/remove,
    transient upgrade, collect — any number, any order) satisfies the invariant, has never
    panicked, and every object the client still holds a handle on is unfreed -/
theorem client_never_loses_a_held_object {s : GcScript.St} (h : GcScript.Reachable s) :
    GcInv s.g ∧ s.g.panic = none ∧
    ∀ a, 0 < s.handles.get a → a < s.g.nextId ∧ (s.g.nodes.get a).freed = false ∧
      s.handles.get a ≤ ext s.g a :=
  GcScript.script_sound h

/-- non-vacuity: the mixed example of `Props/C08` (a garbage cycle pointing into a held cycle) -/
example : (collectCycles exMixed).oof = false ∧ (collectCycles exMixed).panic = none :=
  ⟨(collect_sound_total exMixed exMixed_inv (by decide)).1, (collect_sound_total exMixed exMixed_inv (by decide)).2.1⟩

end Gc
end SodiumVerif
