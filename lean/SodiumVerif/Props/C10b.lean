/-
  C10 (second part) — the specification helper `lateEvents` (`Spec/Script.lean`): what a listener that a
  handler attaches to stream `s` during the transaction of the first event of `trig` hears.

  `lateEvents` adds six definitions, `i := sp.defs.size`:
      i     once trig              the building transaction: the first event of `trig`
      i+1   mapto i 2
      i+2   hold (i+1) 1           the flag cell: odd until the building transaction has happened, 2 afterwards
      i+3   when s i               `s`, in the building transaction
      i+4   gate s (i+2)           `s`, in the transactions in which the flag's current value is even
      i+5   orelse (i+3) (i+4)     the result `e`

  Property theorems about S (`Spec/Denot.lean`), in the style of `Props/C02.lean` and `Props/C05b.lean`,
  for an arbitrary `sp` that contains six definitions of this shape (wherever they are):
  in the building transaction `e` is `s` (`late_building_txn`), in every other transaction it is the gated
  stream (`late_later_txn`), and it never fires anything `s` did not fire (`late_never_invents`).
-/
import SodiumVerif.Props.C05b

namespace SodiumVerif
namespace Spec

section
variable {sp : Spec} {ev : Events} {i : Nat}

/-- a gate only passes the event of its input -/
theorem gate_never_invents {s c v} (h : sp.getDef i = .gate s c) (hr : Resolved sp ev i)
    (hv : fire (fireTable sp ev) i = some v) : fire (fireTable sp ev) s = some v := by
  rw [gate_fires h hr] at hv
  cases hs : fire (fireTable sp ev) s with
  | none => rw [hs] at hv; simp at hv
  | some x =>
    rw [hs] at hv
    simp only [Option.filter] at hv
    split at hv
    · exact hv
    · cases hv

/-- a gate whose cell holds an odd value (or no value) at the start of the transaction is silent -/
theorem gate_closed {s c} (h : sp.getDef i = .gate s c) (hr : Resolved sp ev i)
    (hc : ((sp.val c).map even).getD false = false) : fire (fireTable sp ev) i = none := by
  rw [gate_fires h hr, hc]
  cases fire (fireTable sp ev) s <;> simp [Option.filter]

/-- a gate whose cell holds an even value at the start of the transaction is its input -/
theorem gate_open {s c} (h : sp.getDef i = .gate s c) (hr : Resolved sp ev i)
    (hc : ((sp.val c).map even).getD false = true) :
    fire (fireTable sp ev) i = fire (fireTable sp ev) s := by
  rw [gate_fires h hr, hc]
  cases fire (fireTable sp ev) s <;> simp [Option.filter]

end

section
variable {sp : Spec} {ev : Events} {i trig s : Nat}

/-- the result of `lateEvents` is `when`-part, else `gate`-part -/
theorem late_fires (h5 : sp.getDef (i + 5) = .orelse (i + 3) (i + 4)) (hr5 : Resolved sp ev (i + 5)) :
    fire (fireTable sp ev) (i + 5) =
      (fire (fireTable sp ev) (i + 3)).orElse fun _ => fire (fireTable sp ev) (i + 4) :=
  orelse_fires h5 hr5

/-- (1) the building transaction (the one in which the `once` fires): the attached listener hears exactly
    the event `s` has in that very transaction, or nothing if `s` is silent in it.  Hypothesis `hg`: the
    gate is closed in this transaction (the flag cell still holds an odd value — or no value — at its start) -/
theorem late_building_txn
    (h3 : sp.getDef (i + 3) = .when s i) (h4 : sp.getDef (i + 4) = .gate s (i + 2))
    (h5 : sp.getDef (i + 5) = .orelse (i + 3) (i + 4))
    (hr3 : Resolved sp ev (i + 3)) (hr4 : Resolved sp ev (i + 4)) (hr5 : Resolved sp ev (i + 5))
    (hb : (fire (fireTable sp ev) i).isSome = true)
    (hg : ((sp.val (i + 2)).map even).getD false = false) :
    fire (fireTable sp ev) (i + 5) = fire (fireTable sp ev) s := by
  obtain ⟨y, hy⟩ := Option.isSome_iff_exists.mp hb
  rw [late_fires h5 hr5, when_passes h3 hr3 hy, gate_closed h4 hr4 hg]
  cases fire (fireTable sp ev) s <;> rfl

/-- (1), with the hypothesis on the flag spelled out: its value at the start of the transaction is the odd `k` -/
theorem late_building_txn_odd {k : Int}
    (h3 : sp.getDef (i + 3) = .when s i) (h4 : sp.getDef (i + 4) = .gate s (i + 2))
    (h5 : sp.getDef (i + 5) = .orelse (i + 3) (i + 4))
    (hr3 : Resolved sp ev (i + 3)) (hr4 : Resolved sp ev (i + 4)) (hr5 : Resolved sp ev (i + 5))
    (hb : (fire (fireTable sp ev) i).isSome = true)
    (hk : sp.val (i + 2) = some k) (hodd : even k = false) :
    fire (fireTable sp ev) (i + 5) = fire (fireTable sp ev) s :=
  late_building_txn h3 h4 h5 hr3 hr4 hr5 hb (by rw [hk]; simpa using hodd)

/-- (1), stronger: in the building transaction the result is `s` whatever the flag holds (an open gate
    passes the same event of `s` the `when` already passes, and `orelse` takes the left one) -/
theorem late_building_txn'
    (h3 : sp.getDef (i + 3) = .when s i) (h4 : sp.getDef (i + 4) = .gate s (i + 2))
    (h5 : sp.getDef (i + 5) = .orelse (i + 3) (i + 4))
    (hr3 : Resolved sp ev (i + 3)) (hr4 : Resolved sp ev (i + 4)) (hr5 : Resolved sp ev (i + 5))
    (hb : (fire (fireTable sp ev) i).isSome = true) :
    fire (fireTable sp ev) (i + 5) = fire (fireTable sp ev) s := by
  obtain ⟨y, hy⟩ := Option.isSome_iff_exists.mp hb
  rw [late_fires h5 hr5, when_passes h3 hr3 hy, gate_fires h4 hr4]
  cases fire (fireTable sp ev) s <;> rfl

/-- (2) every other transaction (the `once` does not fire: before the building transaction, and after it):
    the result is the gated stream -/
theorem late_later_txn
    (h3 : sp.getDef (i + 3) = .when s i) (h5 : sp.getDef (i + 5) = .orelse (i + 3) (i + 4))
    (hr3 : Resolved sp ev (i + 3)) (hr5 : Resolved sp ev (i + 5))
    (hb : fire (fireTable sp ev) i = none) :
    fire (fireTable sp ev) (i + 5) = fire (fireTable sp ev) (i + 4) := by
  rw [late_fires h5 hr5, when_silent h3 hr3 hb]; rfl

/-- (2), read through the gate: later on, with the flag even, the result is `s` -/
theorem late_later_txn_open
    (h3 : sp.getDef (i + 3) = .when s i) (h4 : sp.getDef (i + 4) = .gate s (i + 2))
    (h5 : sp.getDef (i + 5) = .orelse (i + 3) (i + 4))
    (hr3 : Resolved sp ev (i + 3)) (hr4 : Resolved sp ev (i + 4)) (hr5 : Resolved sp ev (i + 5))
    (hb : fire (fireTable sp ev) i = none)
    (hg : ((sp.val (i + 2)).map even).getD false = true) :
    fire (fireTable sp ev) (i + 5) = fire (fireTable sp ev) s := by
  rw [late_later_txn h3 h5 hr3 hr5 hb, gate_open h4 hr4 hg]

/-- (2), read through the gate: before the building transaction, with the flag odd, the result is silent -/
theorem late_before_txn_closed
    (h3 : sp.getDef (i + 3) = .when s i) (h4 : sp.getDef (i + 4) = .gate s (i + 2))
    (h5 : sp.getDef (i + 5) = .orelse (i + 3) (i + 4))
    (hr3 : Resolved sp ev (i + 3)) (hr4 : Resolved sp ev (i + 4)) (hr5 : Resolved sp ev (i + 5))
    (hb : fire (fireTable sp ev) i = none)
    (hg : ((sp.val (i + 2)).map even).getD false = false) :
    fire (fireTable sp ev) (i + 5) = none := by
  rw [late_later_txn h3 h5 hr3 hr5 hb, gate_closed h4 hr4 hg]

/-- (3) in every transaction: the attached listener never hears anything `s` did not fire -/
theorem late_never_invents {v : Int}
    (h3 : sp.getDef (i + 3) = .when s i) (h4 : sp.getDef (i + 4) = .gate s (i + 2))
    (h5 : sp.getDef (i + 5) = .orelse (i + 3) (i + 4))
    (hr3 : Resolved sp ev (i + 3)) (hr4 : Resolved sp ev (i + 4)) (hr5 : Resolved sp ev (i + 5))
    (hv : fire (fireTable sp ev) (i + 5) = some v) :
    fire (fireTable sp ev) s = some v := by
  rw [late_fires h5 hr5] at hv
  cases hw : fire (fireTable sp ev) (i + 3) with
  | some x =>
    rw [hw] at hv
    have : x = v := by simpa using hv
    subst this
    exact ((when_fires_iff h3 hr3).mp hw).1
  | none =>
    rw [hw] at hv
    exact gate_never_invents h4 hr4 (by simpa using hv)

/-- the flag's update: the flag cell is written (with 2) exactly in the building transaction -/
theorem late_flag_fires
    (h1 : sp.getDef (i + 1) = .mapto i 2) (h2 : sp.getDef (i + 2) = .hold (i + 1) 1)
    (hr1 : Resolved sp ev (i + 1)) (hr2 : Resolved sp ev (i + 2)) :
    fire (fireTable sp ev) (i + 2) = (fire (fireTable sp ev) i).map fun _ => 2 := by
  rw [hold_fires h2 hr2, mapto_fires h1 hr1]

/-- the building transaction happens only if `trig` fires and the `once` has not fired before -/
theorem late_building_is_first (h0 : sp.getDef i = .once trig) (hr0 : Resolved sp ev i)
    (hb : (fire (fireTable sp ev) i).isSome = true) :
    sp.onceDone.get i = false ∧ fire (fireTable sp ev) i = fire (fireTable sp ev) trig := by
  rw [once_fires h0 hr0] at hb ⊢
  cases hd : sp.onceDone.get i <;> simp [hd] at hb ⊢

end

/-- `0 = sink` (trig), `1 = sink` (s), then the six definitions of `lateEvents` with `i = 2`:
    `2 = once 0`, `3 = mapto 2 2`, `4 = hold 3 1`, `5 = when 1 2`, `6 = gate 1 4`, `7 = orelse 5 6` -/
def demoLate : Spec :=
  { defs := #[.sink none, .sink none, .once 0, .mapto 2 2, .hold 3 1, .when 1 2, .gate 1 4, .orelse 5 6],
    created := #[0, 0, 0, 0, 0, 0, 0, 0] }

set_option maxRecDepth 8192 in
example : WellRanked demoLate id := ⟨by decide, by decide, by decide⟩

set_option maxRecDepth 16384 in
/-- the hypotheses of `late_building_txn` are satisfiable: in the transaction that sends to both sinks the
    `once` fires, the flag is odd, and the result fires the event of `s`; with a send to `s` alone (before the
    building transaction) the result is silent -/
example : demoLate.getDef (2 + 3) = .when 1 2 ∧ demoLate.getDef (2 + 4) = .gate 1 (2 + 2) ∧
    demoLate.getDef (2 + 5) = .orelse (2 + 3) (2 + 4) ∧
    Resolved demoLate [(0, 7), (1, 3)] (2 + 3) ∧ Resolved demoLate [(0, 7), (1, 3)] (2 + 4) ∧
    Resolved demoLate [(0, 7), (1, 3)] (2 + 5) ∧
    (fire (fireTable demoLate [(0, 7), (1, 3)]) 2).isSome = true ∧
    ((demoLate.val (2 + 2)).map even).getD false = false ∧
    fire (fireTable demoLate [(0, 7), (1, 3)]) (2 + 5) = some 3 ∧
    fire (fireTable demoLate [(1, 3)]) 2 = none ∧
    fire (fireTable demoLate [(1, 3)]) (2 + 5) = none := by decide

set_option maxRecDepth 16384 in
/-- after the building transaction the flag is even and the result is `s` again (`late_later_txn_open`) -/
example :
    let sp' := stepTxn demoLate [(0, 7), (1, 3)]
    fire (fireTable sp' [(0, 8), (1, 4)]) 2 = none ∧
    ((sp'.val (2 + 2)).map even).getD false = true ∧
    fire (fireTable sp' [(0, 8), (1, 4)]) (2 + 5) = some 4 := by decide

end Spec
end SodiumVerif
