/-
  C07 — once every handle is dropped, a collection reclaims every object, also cycles; nothing
  unreachable survives a collection.  Completeness of `collect_cycles` on M_gc (the converse of
  `Props/C08`, `Props/C06`).

  The synchronous Bacon–Rajan collector only looks at the objects in its candidate buffer, so
  completeness is a property of the collector *and* of the way references are dropped: every
  `dec_ref` colours its target purple and buffers it.  That discipline is the buffer invariant
  `BufInv` (`Lemmas/GcCompleteDefs.lean`): flagged / purple unfreed objects are buffered, and every
  piece of garbage hangs off a purple candidate.  Every client operation used as the contract
  demands preserves it (`Lemmas/GcCompleteClient.lean`), and from `GcInv ∧ BufInv` one collection
  frees all garbage (`Lemmas/GcCompletePass.lean`).
-/
import SodiumVerif.Props.C06
import SodiumVerif.Lemmas.GcCompleteScript

namespace SodiumVerif
namespace Gc
open State

/-! ### the collector -/

/-- liveness read backwards along passes: what is live afterwards was live before -/
theorem Passes.live_back {g g' : State} (I : GcInv g) (P : Passes g g') {i : Nat}
    (h : Live g' i) : Live g i := by
  obtain ⟨r, hr, he, p⟩ := h
  refine ⟨r, (P.mono r hr).1, by rw [← P.ext I]; exact he, ?_⟩
  exact p.mono (fun b c hb hc => ⟨(P.mono b hb).1, by rw [← (P.mono b hb).2]; exact hc⟩)

/-- **C07 (completeness), with the fuel hypothesis.**  See `collect_complete_total`. -/
theorem collect_complete' (g : State) (I : GcInv g) (B : BufInv g)
    (ho : (collectCycles g).oof = false) :
    ∀ i, i < (collectCycles g).nextId → ((collectCycles g).nodes.get i).freed = false →
      Live (collectCycles g) i :=
  collect_complete g I B ho

/-- **C07 (completeness of a collection).**  From any state satisfying the collector invariant
    `GcInv` and the buffer invariant `BufInv`, `collect_cycles` terminates and afterwards
    * every allocated object that is not freed is reachable, along counted references, from an
      unfreed object with an external handle (in the new state and in the old one);
    * every object that was garbage (allocated, unfreed, unreachable from every externally held
      object) is freed — also cycles;
    * the buffer invariant holds again. -/
theorem collect_complete_total (g : State) (I : GcInv g) (B : BufInv g) (h0 : g.oof = false) :
    let g' := collectCycles g
    g'.oof = false ∧
    (∀ i, i < g'.nextId → (g'.nodes.get i).freed = false → Live g' i ∧ Live g i) ∧
    (∀ i, i < g.nextId → (g.nodes.get i).freed = false → ¬ Live g i →
      (g'.nodes.get i).freed = true) ∧
    BufInv g' := by
  intro g'
  have ho : (collectCycles g).oof = false := by
    rw [collectCycles_terminates g I.bounded]; exact h0
  obtain ⟨P, _⟩ := collectCycles_spec g I ho
  have hc := collect_complete g I B ho
  refine ⟨ho, fun i hi hf => ⟨hc i hi hf, P.live_back I (hc i hi hf)⟩, fun i hi hf hnl => ?_,
    bufinv_collectCycles g I B ho⟩
  cases hf' : (g'.nodes.get i).freed with
  | true => rfl
  | false =>
    exact absurd (P.live_back I (hc i (by rw [P.nextId]; exact hi) hf')) hnl

/-- **Soundness and completeness together**: a collection frees exactly the garbage — an
    allocated unfreed object survives iff it is reachable from an externally held object. -/
theorem collect_exact (g : State) (I : GcInv g) (B : BufInv g) (h0 : g.oof = false) (i : Nat)
    (hi : i < g.nextId) :
    ((collectCycles g).nodes.get i).freed = false ↔ Live g i := by
  obtain ⟨ho, h1, _, _⟩ := collect_complete_total g I B h0
  obtain ⟨P, _⟩ := collectCycles_spec g I ho
  exact ⟨fun h => (h1 i (by rw [P.nextId]; exact hi) h).2, fun h => P.live i h⟩

/-- **C07 (drop everything).**  If no unfreed object has an external handle left, a collection
    frees every allocated object. -/
theorem drop_all_frees_all (g : State) (I : GcInv g) (B : BufInv g) (h0 : g.oof = false)
    (hd : ∀ i, (g.nodes.get i).freed = false → ext g i = 0) :
    ∀ i, i < g.nextId → ((collectCycles g).nodes.get i).freed = true := by
  intro i hi
  obtain ⟨ho, h1, _, _⟩ := collect_complete_total g I B h0
  obtain ⟨P, _⟩ := collectCycles_spec g I ho
  cases hf : ((collectCycles g).nodes.get i).freed with
  | true => rfl
  | false =>
    obtain ⟨r, hr, he, _⟩ := (h1 i (by rw [P.nextId]; exact hi) hf).2
    rw [hd r hr] at he
    exact absurd he (Nat.lt_irrefl 0)

/-- after a collection no unfreed object is left flagged or coloured: the next collection starts
    from an empty, consistent candidate buffer -/
theorem collect_leaves_no_candidate (g : State) (I : GcInv g) (B : BufInv g) (h0 : g.oof = false)
    (i : Nat) (hf : ((collectCycles g).nodes.get i).freed = false) :
    ((collectCycles g).nodes.get i).buffered = false ∧
      ((collectCycles g).nodes.get i).color = .black :=
  collectCycles_no_candidates g I B
    (by rw [collectCycles_terminates g I.bounded]; exact h0) i hf

/-! ### non-vacuity: the examples of `Props/C08` -/

theorem exCycle_buf : BufInv exCycle := by
  have i0 := gcinv_newNode (gcinv_newNode gcinv_init)
  have b0 := bufinv_newNode (gcinv_newNode gcinv_init) (bufinv_newNode gcinv_init bufinv_init)
  have i1 := gcinv_addEdge (a := 0) (b := 1) i0 (by decide) (by decide) (by decide) (by decide)
  have b1 := bufinv_addEdge (a := 0) (b := 1) i0 b0 (by decide) (by decide) (by decide) (by decide)
  have i2 := gcinv_addEdge (a := 1) (b := 0) i1 (by decide) (by decide) (by decide) (by decide)
  have b2 := bufinv_addEdge (a := 1) (b := 0) i1 b1 (by decide) (by decide) (by decide) (by decide)
  have i3 := gcinv_decRef_handle (n := 0) i2 (by decide) (by decide)
  have b3 := bufinv_decRef_handle (n := 0) i2 b2 (by decide) (by decide)
  exact bufinv_decRef_handle (n := 1) i3 b3 (by decide) (by decide)

/-- the 2-cycle with both handles dropped satisfies every hypothesis of `drop_all_frees_all`
    (both objects are garbage, both purple and buffered), and is entirely freed -/
example : GcInv exCycle ∧ BufInv exCycle ∧ exCycle.oof = false ∧
    (∀ i, (exCycle.nodes.get i).freed = false → ext exCycle i = 0) ∧
    exCycle.roots = [0, 1] ∧ (exCycle.nodes.get 0).color = .purple ∧
    ∀ i, i < exCycle.nextId → ((collectCycles exCycle).nodes.get i).freed = true := by
  have h0 : ext exCycle 0 = 0 := by decide
  have h1 : ext exCycle 1 = 0 := by decide
  have hn : exCycle.nextId = 2 := by decide
  have hd : ∀ i, (exCycle.nodes.get i).freed = false → ext exCycle i = 0 := by
    intro i _
    by_cases e0 : i = 0
    · rw [e0]; exact h0
    · by_cases e1 : i = 1
      · rw [e1]; exact h1
      · exact ext_fresh exCycle_inv (by rw [hn]; omega)
  exact ⟨exCycle_inv, exCycle_buf, by decide, hd, by decide, by decide,
    drop_all_frees_all exCycle exCycle_inv exCycle_buf (by decide) hd⟩

theorem exMixed_buf : BufInv exMixed := by
  have i0 := gcinv_newNode (gcinv_newNode (gcinv_newNode (gcinv_newNode gcinv_init)))
  have b0 := bufinv_newNode (gcinv_newNode (gcinv_newNode (gcinv_newNode gcinv_init)))
    (bufinv_newNode (gcinv_newNode (gcinv_newNode gcinv_init))
      (bufinv_newNode (gcinv_newNode gcinv_init) (bufinv_newNode gcinv_init bufinv_init)))
  have i1 := gcinv_addEdge (a := 0) (b := 1) i0 (by decide) (by decide) (by decide) (by decide)
  have b1 := bufinv_addEdge (a := 0) (b := 1) i0 b0 (by decide) (by decide) (by decide) (by decide)
  have i2 := gcinv_addEdge (a := 1) (b := 0) i1 (by decide) (by decide) (by decide) (by decide)
  have b2 := bufinv_addEdge (a := 1) (b := 0) i1 b1 (by decide) (by decide) (by decide) (by decide)
  have i3 := gcinv_addEdge (a := 2) (b := 3) i2 (by decide) (by decide) (by decide) (by decide)
  have b3 := bufinv_addEdge (a := 2) (b := 3) i2 b2 (by decide) (by decide) (by decide) (by decide)
  have i4 := gcinv_addEdge (a := 3) (b := 2) i3 (by decide) (by decide) (by decide) (by decide)
  have b4 := bufinv_addEdge (a := 3) (b := 2) i3 b3 (by decide) (by decide) (by decide) (by decide)
  have i5 := gcinv_addEdge (a := 0) (b := 3) i4 (by decide) (by decide) (by decide) (by decide)
  have b5 := bufinv_addEdge (a := 0) (b := 3) i4 b4 (by decide) (by decide) (by decide) (by decide)
  have i6 := gcinv_decRef_handle (n := 0) i5 (by decide) (by decide)
  have b6 := bufinv_decRef_handle (n := 0) i5 b5 (by decide) (by decide)
  have i7 := gcinv_decRef_handle (n := 1) i6 (by decide) (by decide)
  have b7 := bufinv_decRef_handle (n := 1) i6 b6 (by decide) (by decide)
  exact bufinv_decRef_handle (n := 3) i7 b7 (by decide) (by decide)

/-- the mixed example: the garbage cycle `0 ⇄ 1` is freed, and the survivors `2`, `3` are live
    (reachable from `2`, which is still held) -/
example : GcInv exMixed ∧ BufInv exMixed ∧
    ((collectCycles exMixed).nodes.get 0).freed = true ∧
    ((collectCycles exMixed).nodes.get 1).freed = true ∧
    Live (collectCycles exMixed) 2 ∧ Live (collectCycles exMixed) 3 := by
  obtain ⟨_, h1, _, _⟩ := collect_complete_total exMixed exMixed_inv exMixed_buf (by decide)
  exact ⟨exMixed_inv, exMixed_buf, by decide, by decide,
    (h1 2 (by decide) (by decide)).1, (h1 3 (by decide) (by decide)).1⟩

end Gc

/-! ### the whole protocol -/

namespace GcScript
open Gc

/-- every state a contract-respecting client can reach satisfies the strengthened script
    invariant: `GcInv`, `BufInv`, held objects are unfreed, and the external count of every unfreed
    object is exactly the number of handles the client holds on it -/
theorem script_complete {s : St} (h : Reachable s) : ScriptInvC s := by
  induction h with
  | init => exact scriptInvC_init
  | step _ hop hf ha ih => exact script_step' ih hop hf ha

/-- `ext` is exactly the client's handle count -/
theorem handles_exact {s : St} (h : Reachable s) (a : Nat) (hf : (s.g.nodes.get a).freed = false) :
    ext s.g a = s.handles.get a :=
  (script_complete h).exact a hf

/-! the model's fuel flag is never set in a reachable state (collections terminate) -/

theorem incRef_oof (g : State) (n : Nat) : (incRef g n).oof = g.oof := by
  unfold incRef
  split
  · exact State.setPanic_oof _ _
  · rfl

theorem reachable_oof {s : St} (h : Reachable s) : s.g.oof = false := by
  induction h with
  | init => rfl
  | @step s s' op hr hop hf ha ih =>
    cases op with
    | tedge a b => exact absurd hop id
    | oedge a b => exact absurd hop id
    | bad => simp [apply] at ha
    | reset => simp only [apply, Option.some.injEq] at ha; subst ha; rfl
    | brief => simp only [apply, Option.some.injEq] at ha; subst ha; exact ih
    | full => simp only [apply, Option.some.injEq] at ha; subst ha; exact ih
    | dump => simp only [apply, Option.some.injEq] at ha; subst ha; exact ih
    | new => rw [apply_new_g ha]; exact ih
    | inc a => rw [apply_inc_g ha, incRef_oof]; exact ih
    | dec a => rw [apply_dec_g ha, decRef_oof]; exact ih
    | deref a b =>
      simp only [apply] at ha
      split at ha
      · simp only [Option.some.injEq] at ha; subst ha
        show (incRef s.g b).oof = false
        rw [incRef_oof]; exact ih
      · cases ha
    | edge a b =>
      rw [apply_edge_g ha]
      show (incRef s.g b).oof = false
      rw [incRef_oof]; exact ih
    | unedge a b =>
      rw [(apply_unedge_g ha).1, delEdge_eq, decRef_oof]; exact ih
    | updrop a =>
      rw [apply_updrop_g ha, upgradeDrop_eq]
      split
      · rw [decRef_oof, incRef_oof]; exact ih
      · exact ih
    | collect =>
      simp only [apply, Option.some.injEq] at ha
      subst ha
      exact hf rfl

/-- **C07 at the protocol level: nothing unreachable survives a collection.**  In any state a
    contract-respecting client can reach, a collection terminates, and afterwards every allocated
    object that is not freed is reachable (along counted references) from an object the client
    holds a handle on. -/
theorem no_garbage_after_collect {s s' : St} (h : Reachable s) (hc : apply s .collect = some s') :
    Reachable s' ∧ s'.g.oof = false ∧
    ∀ i, i < s'.g.nextId → (s'.g.nodes.get i).freed = false →
      ∃ r, 0 < s'.handles.get r ∧ Reach s'.g r i := by
  have J := script_complete h
  have ho : (collectCycles s.g).oof = false := by
    rw [collectCycles_terminates s.g J.inv.bounded]; exact reachable_oof h
  have h' : Reachable s' := .step h (by exact trivial) (fun _ => ho) hc
  have J' := script_complete h'
  simp only [apply, Option.some.injEq] at hc
  subst hc
  refine ⟨h', ho, fun i hi hf => ?_⟩
  obtain ⟨r, hr, he, p⟩ := collect_complete s.g J.inv J.buf ho i hi hf
  refine ⟨r, ?_, p⟩
  have := J'.exact r hr
  simp only at this
  rw [← this]; exact he

/-- **C07 at the protocol level: once every handle is dropped, a collection reclaims every
    object.**  If the client of a reachable state holds no handle any more, `collect` frees every
    allocated object (cycles included). -/
theorem drop_all_collect_frees_all {s : St} (h : Reachable s)
    (hd : ∀ a, a < s.g.nextId → s.handles.get a = 0) :
    (collectCycles s.g).oof = false ∧
    ∀ i, i < s.g.nextId → ((collectCycles s.g).nodes.get i).freed = true := by
  have J := script_complete h
  have h0 := reachable_oof h
  have hd' : ∀ i, (s.g.nodes.get i).freed = false → ext s.g i = 0 := by
    intro i hf
    by_cases hi : i < s.g.nextId
    · rw [J.exact i hf]; exact hd i hi
    · exact ext_fresh J.inv (by omega)
  exact ⟨by rw [collectCycles_terminates s.g J.inv.bounded]; exact h0,
    drop_all_frees_all s.g J.inv J.buf h0 hd'⟩

/-- non-vacuity: build the cycle `0 ⇄ 1`, drop both handles: the state is reachable, no handle is
    left, and `collect` frees both objects -/
example :
    let s := runOps {} [.new, .new, .edge 0 1, .edge 1 0, .dec 0, .dec 1]
    Reachable s ∧ (∀ a, a < s.g.nextId → s.handles.get a = 0) ∧ s.g.nextId = 2 ∧
    (∀ i, i < s.g.nextId → ((collectCycles s.g).nodes.get i).freed = true) := by
  intro s
  have hr : Reachable s := reachable_runOps _ _ .init (by decide) (by decide)
  have hd : ∀ a, a < s.g.nextId → s.handles.get a = 0 := by decide
  exact ⟨hr, hd, by decide, (drop_all_collect_frees_all hr hd).2⟩

/-- non-vacuity: a garbage cycle pointing into a held cycle, with interleaved collections and an
    upgrade-then-drop; after the last `collect` the survivors are reachable from the held object -/
example :
    let s := runOps {} [.new, .new, .new, .new, .edge 0 1, .edge 1 0, .edge 2 3, .edge 3 2,
      .collect, .edge 0 3, .dec 0, .updrop 1, .dec 1, .dec 3]
    Reachable s ∧ ∃ s', apply s .collect = some s' ∧
      (s'.g.nodes.get 0).freed = true ∧ (s'.g.nodes.get 1).freed = true ∧
      (s'.g.nodes.get 2).freed = false ∧ (s'.g.nodes.get 3).freed = false ∧
      ∃ r, 0 < s'.handles.get r ∧ Reach s'.g r 3 := by
  intro s
  have hr : Reachable s := reachable_runOps _ _ .init (by decide) (by decide)
  refine ⟨hr, _, rfl, by decide, by decide, by decide, by decide, ?_⟩
  exact (no_garbage_after_collect hr rfl).2.2 3 (by decide) (by decide)

end GcScript
end SodiumVerif
