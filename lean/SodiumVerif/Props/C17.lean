/-
  C17 — lazy values are computed at most once and denote the value when they were taken.
-/
import SodiumVerif.Model.Lazy
import SodiumVerif.Spec.Script

namespace SodiumVerif
namespace LazyM

/-- after any number of forces of a fresh lazy (through any clones) the thunk has run at most once,
    exactly once if it was forced at all, and every force returned the same value -/
theorem thunk_at_most_once (thunk : Unit → Int) (n : Nat) :
    (runMany thunk n {}).1.runs ≤ 1 ∧ (n ≥ 1 → (runMany thunk n {}).1.runs = 1) ∧
    ∀ v ∈ (runMany thunk n {}).2, v = thunk () := by
  have key : ∀ (n : Nat) (c : Cell), c.value = some (thunk ()) →
      (runMany thunk n c).1 = c ∧ ∀ v ∈ (runMany thunk n c).2, v = thunk () := by
    intro n
    induction n with
    | zero => intro c _; simp [runMany]
    | succ n ih =>
      intro c hc
      have hr : run thunk c = (c, thunk ()) := by simp [run, hc]
      simp only [runMany, hr]
      obtain ⟨h1, h2⟩ := ih c hc
      refine ⟨h1, fun v hv => ?_⟩
      rcases List.mem_cons.mp hv with rfl | hv
      · rfl
      · exact h2 v hv
  cases n with
  | zero => simp [runMany]
  | succ n =>
    have hr : run thunk {} = ({ value := some (thunk ()), runs := 1 }, thunk ()) := by simp [run]
    simp only [runMany, hr]
    obtain ⟨h1, h2⟩ := key n { value := some (thunk ()), runs := 1 } rfl
    rw [h1]
    refine ⟨Nat.le_refl 1, fun _ => rfl, fun v hv => ?_⟩
    rcases List.mem_cons.mp hv with rfl | hv
    · rfl
    · exact h2 v hv

/-- a forced lazy stays forced: one more `run` changes nothing and returns the stored value -/
theorem run_stable (thunk : Unit → Int) (c : Cell) (v : Int) (h : c.value = some v) :
    run thunk c = (c, v) := by simp [run, h]

example : (runMany (fun _ => 7) 3 {}).1.runs = 1 ∧ (runMany (fun _ => 7) 3 {}).2 = [7, 7, 7] := by decide

end LazyM

namespace Spec

/-- in S a lazy taken from cell `c` *is* the value `c` has at the start of the transaction in which it
    is taken (`lazy z c` binds the snapshot), and forcing it later returns that snapshot whatever
    has happened to the cell since: the result of `force` depends on the handle only -/
theorem taken_value (st st' : St) (z : String) (v : Int) (cell : Option Nat)
    (h : st.find z = some (.lazy (some v) cell)) (h' : st'.find z = some (.lazy (some v) cell)) :
    (forceStmt st z).2 = s!"v={v} runs=ok" ∧ (forceStmt st' z).2 = (forceStmt st z).2 := by
  simp [forceStmt, h, h']

theorem stmt_force (st : St) (z : String) : stmt st ["force", z] = forceStmt st z := by
  unfold stmt; rfl

end Spec
end SodiumVerif
