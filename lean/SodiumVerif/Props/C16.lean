/-
  C16 — cycle collection terminates and costs time linear in the graph, for every shape.
  Cost is counted in `trace()` invocations (`traceCalls`) and tracer callbacks (`edgeCalls`).

  Throughout, `S` is any duplicate-free list of object ids that is closed under the edges reported
  by `trace` (`Closed g S`) — e.g. everything reachable from the candidate buffer.  The bounds
  depend on `S.length` (objects) and `edgesOf g S` (edges) only, not on the number of paths.
-/
import SodiumVerif.Lemmas.GcCost
import SodiumVerif.Lemmas.GcPhase
import SodiumVerif.Lemmas.GcFuel

namespace SodiumVerif
namespace Gc

/-- One reset walk makes at most one `trace()` call per object of any edge-closed set `S`
    containing its start — however many paths lead to each object (the 2.1.2 fix). -/
theorem reset1_trace_calls_le {S : List Nat} (hS : S.Nodup) (fuel s : Nat) (g : State)
    (hs : s ∈ S) (hc : Closed g S) :
    (reset1 fuel s g).traceCalls ≤ g.traceCalls + S.length := by
  have h := (reset1_cost hS fuel s g hs hc).cost
  have : unvisited g S ≤ S.length := List.countP_le_length
  omega

/-- non-vacuity: a diamond 0 → {1,2} → 3 is closed and costs exactly 4 calls although 3 is
    reached along two paths -/
example :
    let g : State := { nextId := 4, nodes := ((((Store.empty.set 0 { rc := 1, traced := [1, 2] }).set 1
      { rc := 1, traced := [3] }).set 2 { rc := 1, traced := [3] }).set 3 { rc := 2 }) }
    (reset1 6 0 g).traceCalls = 4 := by decide

/-! ### every walk: one `trace()` call per object, one callback per edge -/

/-- number of reported edges leaving objects of `S` -/
def edgesOf (g : State) (S : List Nat) : Nat := (S.map fun i => (g.nodes.get i).traced.length).sum

/-- the bound shared by all walks: at most `c` calls per object and `c` callbacks per edge of `S`,
    and the reported edges are left as they were (so `S` stays closed) -/
structure WalkCost (S : List Nat) (c : Nat) (g g' : State) : Prop where
  trace_calls_le : g'.traceCalls ≤ g.traceCalls + c * S.length
  edge_calls_le : g'.edgeCalls ≤ g.edgeCalls + c * edgesOf g S
  same_edges : SameEdges g g'

theorem WalkCost.of_post {fμ fε : GNode → Nat} {S : List Nat} {c n : Nat} {g g' : State}
    (hμ : ∀ x, fμ x ≤ c) (hε : ∀ x, fε x ≤ c * elen x) (h : Post fμ fε S n 0 g g') :
    WalkCost S c g g' where
  trace_calls_le := by have := h.cost; have := msum_le hμ S g; omega
  edge_calls_le := by
    have := h.ecost; have := msum_le_mul hε S g
    have e : edgesOf g S = msum elen S g := rfl
    rw [e]; omega
  same_edges := h.frame.same

theorem reset1_cost_le {S : List Nat} (hS : S.Nodup) (fuel s : Nat) (g : State) (hs : s ∈ S)
    (hc : Closed g S) : WalkCost S 1 g (reset1 fuel s g) :=
  .of_post wUnvis_le eUnvis_le (reset1_post hS fuel s g hs hc)

theorem reset2_cost_le {S : List Nat} (hS : S.Nodup) (fuel s : Nat) (g : State) (hs : s ∈ S)
    (hc : Closed g S) : WalkCost S 1 g (reset2 fuel s g) :=
  .of_post wVis_le eVis_le (reset2_post hS fuel s g hs hc)

theorem markGray_cost_le {S : List Nat} (hS : S.Nodup) (fuel s : Nat) (g : State) (hs : s ∈ S)
    (hc : Closed g S) : WalkCost S 1 g (markGray fuel s g) :=
  .of_post wNonGray_le eNonGray_le (markGray_post hS fuel s g hs hc)

/-- `scan` may walk an object twice (once whitening it, once re-blackening it), never more -/
theorem scan_cost_le {S : List Nat} (hS : S.Nodup) (fuel s : Nat) (g : State) (hs : s ∈ S)
    (hc : Closed g S) : WalkCost S 2 g (scan fuel s g) :=
  .of_post wScan_le eScan_le (scan_post hS fuel s g hs hc)

theorem scanBlack_cost_le {S : List Nat} (hS : S.Nodup) (fuel s : Nat) (g : State) (hs : s ∈ S)
    (hc : Closed g S) (hb : (g.nodes.get s).color ≠ .black) :
    WalkCost S 2 g (scanBlack fuel s g) :=
  .of_post wScan_le eScan_le (scanBlack_post hS fuel s g hs hc hb)

theorem collectWhite_cost_le {S : List Nat} (hS : S.Nodup) (fuel s : Nat) (g : State)
    (w : List Nat) (hs : s ∈ S) (hc : Closed g S) :
    WalkCost S 1 g (collectWhite fuel s (g, w)).1 :=
  .of_post wWhite_le eWhite_le (collectWhite_post hS fuel s (g, w) hs hc).1

/-- `display_graph` (run on every pass) changes nothing but the counters -/
theorem displayGraph_cost_le {S : List Nat} (hS : S.Nodup) (fuel : Nat) (stack : List Nat)
    (g : State) (hst : ∀ t ∈ stack, t ∈ S) (hc : Closed g S) :
    WalkCost S 1 g (displayGraph fuel stack Store.empty g) := by
  have h := displayGraph_post hS fuel stack Store.empty g hst hc
  have e1 : (S.map (dgW Store.empty)).sum ≤ 1 * S.length := sum_map_le_mul fun i => by simp [dgW]
  have e2 : (S.map (dgE g.nodes Store.empty)).sum = edgesOf g S := by unfold edgesOf; congr 1
  refine ⟨?_, ?_, fun i => by rw [h.nodes]⟩
  · have := h.cost; omega
  · have := h.ecost; omega

/-- the diamond with a back edge 3 → 0, everything gray with matching adjustments -/
def exDiamond : State :=
  { nextId := 4, nodes := ((((Store.empty.set 0 { rc := 1, adj := 1, color := .gray, traced := [1, 2] }).set 1
      { rc := 1, adj := 1, color := .gray, traced := [3] }).set 2
      { rc := 1, adj := 1, color := .gray, traced := [3] }).set 3
      { rc := 2, adj := 2, color := .gray, traced := [0] }) }

/-- non-vacuity of the walk theorems: hypotheses hold on `exDiamond`, and `scan` makes 4 calls and
    5 callbacks on it although `3` is reached along two paths and `0` is reached again from `3` -/
example : [0, 1, 2, 3].Nodup ∧ Closed exDiamond [0, 1, 2, 3] ∧ 0 ∈ [0, 1, 2, 3]
    ∧ (exDiamond.nodes.get 0).color ≠ .black
    ∧ (scan 11 0 exDiamond).traceCalls = 4 ∧ (scan 11 0 exDiamond).edgeCalls = 5
    ∧ edgesOf exDiamond [0, 1, 2, 3] = 5 := by
  unfold Closed; decide

/-! ### phases and one pass -/

/-- `mark_roots` (display_graph, two reset walks and `mark_gray` from every candidate):
    at most 4 `trace()` calls per object and 4 callbacks per edge, however many candidates -/
theorem markRoots_trace_calls_le {S : List Nat} (hS : S.Nodup) (g : State)
    (hr : ∀ r ∈ g.roots, r ∈ S) (hc : Closed g S) :
    (markRoots g).traceCalls ≤ g.traceCalls + 4 * S.length ∧
    (markRoots g).edgeCalls ≤ g.edgeCalls + 4 * edgesOf g S ∧
    SameEdges g (markRoots g) ∧ (∀ r ∈ (markRoots g).roots, r ∈ g.roots) :=
  have h := markRoots_phase hS g hr hc
  ⟨h.1.cost, h.1.ecost, h.1.frame.same, h.2⟩

/-- `scan_roots` (`scan` and two reset walks from every candidate) -/
theorem scanRoots_trace_calls_le {S : List Nat} (hS : S.Nodup) (g : State)
    (hr : ∀ r ∈ g.roots, r ∈ S) (hc : Closed g S) :
    (scanRoots g).traceCalls ≤ g.traceCalls + 4 * S.length ∧
    (scanRoots g).edgeCalls ≤ g.edgeCalls + 4 * edgesOf g S ∧
    SameEdges g (scanRoots g) ∧ (scanRoots g).roots = g.roots :=
  have h := scanRoots_phase hS g hr hc
  ⟨h.1.cost, h.1.ecost, h.1.frame.same, h.2⟩

/-- `collect_roots`: `collect_white` from every candidate; freeing makes no `trace()` call -/
theorem collectRoots_trace_calls_le' {S : List Nat} (hS : S.Nodup) (g : State)
    (hr : ∀ r ∈ g.roots, r ∈ S) (hc : Closed g S) :
    (collectRoots g).traceCalls ≤ g.traceCalls + S.length ∧
    (collectRoots g).edgeCalls ≤ g.edgeCalls + edgesOf g S :=
  have h := collectRoots_trace_calls_le hS g hr hc
  ⟨h.1, h.2.1⟩

/-- freeing an object makes no `trace()` call and no callback -/
theorem free_no_trace (g : State) (n : Nat) :
    (free g n).traceCalls = g.traceCalls ∧ (free g n).edgeCalls = g.edgeCalls :=
  ⟨(free_quiet g n).traceCalls, (free_quiet g n).edgeCalls⟩

/-- One collection pass makes at most 9 `trace()` calls per object and 9 callbacks per edge of any
    edge-closed set containing the candidate buffer. -/
theorem onePass_trace_calls_le {S : List Nat} (hS : S.Nodup) (g : State)
    (hr : ∀ r ∈ g.roots, r ∈ S) (hc : Closed g S) :
    (onePass g).traceCalls ≤ g.traceCalls + 9 * S.length :=
  (onePass_cost hS g hr hc).1

theorem onePass_edge_calls_le {S : List Nat} (hS : S.Nodup) (g : State)
    (hr : ∀ r ∈ g.roots, r ∈ S) (hc : Closed g S) :
    (onePass g).edgeCalls ≤ g.edgeCalls + 9 * edgesOf g S :=
  (onePass_cost hS g hr hc).2

/-- a garbage diamond with a back edge, candidate `0` buffered purple -/
def exGarbage : State :=
  { nextId := 4, roots := [0],
    nodes := ((((Store.empty.set 0
      { rc := 1, color := .purple, buffered := true, traced := [1, 2], owned := [1, 2] }).set 1
      { rc := 1, traced := [3], owned := [3] }).set 2
      { rc := 1, traced := [3], owned := [3] }).set 3
      { rc := 2, traced := [0], owned := [0] }) }

/-- non-vacuity of the phase theorems: the hypotheses hold on `exGarbage`; one pass frees all four
    objects with 32 `trace()` calls (≤ 9·4) and 40 callbacks (≤ 9·5) -/
example : [0, 1, 2, 3].Nodup ∧ Closed exGarbage [0, 1, 2, 3]
    ∧ (∀ r ∈ exGarbage.roots, r ∈ [0, 1, 2, 3])
    ∧ (onePass exGarbage).traceCalls = 32 ∧ (onePass exGarbage).edgeCalls = 40
    ∧ edgesOf exGarbage [0, 1, 2, 3] = 5
    ∧ (onePass exGarbage).dtorLog = [3, 1, 2, 0] := by
  unfold Closed; decide

/-! ### termination: the fuel of the model is never exhausted

  `WF g`: every reported edge points below `nextId`; `RootsOk g`: so does every candidate.
  `Bounded g.nextId g` adds the same for owned references and the pending (`toBeFreed`) list, which
  is what keeps `RootsOk` true from one pass to the next (candidates are re-filled by `dec_ref` on
  owned references). -/

/-- Walk level: a walk given more fuel than `c · |S|` (c = 1, for `scan` 2) never runs out: every
    nested frame lowers the potential of `S`. -/
theorem walk_fuel {fμ fε : GNode → Nat} {S : List Nat} {c n : Nat} {g g' : State}
    (hμ : ∀ x, fμ x ≤ c) (h : Post fμ fε S n 0 g g') (hn : c * S.length < n) : g'.oof = g.oof :=
  h.oof (by have := msum_le hμ S g; omega)

theorem reset1_fuel {S : List Nat} (hS : S.Nodup) (fuel s : Nat) (g : State) (hs : s ∈ S)
    (hc : Closed g S) (hf : S.length < fuel) : (reset1 fuel s g).oof = g.oof :=
  walk_fuel wUnvis_le (reset1_post hS fuel s g hs hc) (by omega)

theorem reset2_fuel {S : List Nat} (hS : S.Nodup) (fuel s : Nat) (g : State) (hs : s ∈ S)
    (hc : Closed g S) (hf : S.length < fuel) : (reset2 fuel s g).oof = g.oof :=
  walk_fuel wVis_le (reset2_post hS fuel s g hs hc) (by omega)

theorem markGray_fuel {S : List Nat} (hS : S.Nodup) (fuel s : Nat) (g : State) (hs : s ∈ S)
    (hc : Closed g S) (hf : S.length < fuel) : (markGray fuel s g).oof = g.oof :=
  walk_fuel wNonGray_le (markGray_post hS fuel s g hs hc) (by omega)

theorem scan_fuel {S : List Nat} (hS : S.Nodup) (fuel s : Nat) (g : State) (hs : s ∈ S)
    (hc : Closed g S) (hf : 2 * S.length < fuel) : (scan fuel s g).oof = g.oof :=
  walk_fuel wScan_le (scan_post hS fuel s g hs hc) hf

theorem collectWhite_fuel {S : List Nat} (hS : S.Nodup) (fuel s : Nat) (g : State) (w : List Nat)
    (hs : s ∈ S) (hc : Closed g S) (hf : S.length < fuel) :
    (collectWhite fuel s (g, w)).1.oof = g.oof :=
  walk_fuel wWhite_le (collectWhite_post hS fuel s (g, w) hs hc).1 (by omega)

/-- non-vacuity: on `exDiamond`, `2·4 < 11`, and indeed `scan 11` does not run out -/
example : 2 * [0, 1, 2, 3].length < 11 ∧ (scan 11 0 exDiamond).oof = false := by decide

/-- No walk started by `mark_roots` (including its `display_graph`) runs out of the recursion
    depth `walkFuel g = 2 * nextId + 3`. -/
theorem markRoots_fuel (g : State) (hw : WF g) (hr : RootsOk g) : (markRoots g).oof = g.oof :=
  markRoots_oof g hw hr

theorem scanRoots_fuel (g : State) (hw : WF g) (hr : RootsOk g) : (scanRoots g).oof = g.oof :=
  scanRoots_oof g hw hr

theorem collectRoots_fuel (g : State) (hw : WF g) (hr : RootsOk g) :
    (collectRoots g).oof = g.oof :=
  collectRoots_oof_c g hw hr

theorem onePass_fuel (g : State) (hw : WF g) (hr : RootsOk g) : (onePass g).oof = g.oof :=
  onePass_oof g hw hr

/-- A pass keeps the state well-formed, never un-frees, always empties the pending list, and
    leaves the candidate buffer empty unless it freed at least one more object. -/
theorem onePass_progress (g : State) (hb : Bounded g.nextId g) :
    Bounded (onePass g).nextId (onePass g) ∧ (onePass g).toBeFreed = [] ∧
    unfreed g.nextId (onePass g) ≤ unfreed g.nextId g ∧
    ((onePass g).roots ≠ [] → unfreed g.nextId (onePass g) < unfreed g.nextId g) := by
  have h := onePass_pass g g.nextId rfl hb
  refine ⟨by rw [h.nextId]; exact h.bounded, h.tbf, h.unfreed_le, fun hne => ?_⟩
  exact Nat.lt_of_le_of_ne h.unfreed_le (fun he => hne (h.prog he))

/-- `collect_cycles` terminates: the loop bound `nextId + 2` and all walk bounds suffice. -/
theorem collectCycles_terminates (g : State) (hb : Bounded g.nextId g) :
    (collectCycles g).oof = g.oof :=
  (collectCycles_post g hb).1

/-- Total cost of `collect_cycles`: at most (unfreed objects + 1) passes, each at most 9 `trace()`
    calls per allocated object and 9 callbacks per reported edge. -/
theorem collectCycles_trace_calls_le (g : State) (hb : Bounded g.nextId g) :
    (collectCycles g).traceCalls ≤ g.traceCalls + (unfreed g.nextId g + 1) * (9 * g.nextId) :=
  (collectCycles_post g hb).2.1

theorem collectCycles_edge_calls_le (g : State) (hb : Bounded g.nextId g) :
    (collectCycles g).edgeCalls ≤ g.edgeCalls + (unfreed g.nextId g + 1) * (9 * totalEdges g) :=
  (collectCycles_post g hb).2.2

/-- non-vacuity: `exGarbage` is well-formed; collecting it takes two passes (the second finds the
    candidates re-buffered by the destructors already freed) and 56 `trace()` calls in total,
    within the bound (4 + 1) · 9 · 4 = 180 -/
example : Bounded exGarbage.nextId exGarbage := Bounded.of_finite _ _ (by decide) (by decide) (by decide)
example : WF exGarbage ∧ RootsOk exGarbage :=
  Bounded.wf (Bounded.of_finite _ _ (by decide) (by decide) (by decide))
example : (collectCycles exGarbage).oof = false ∧ (collectCycles exGarbage).traceCalls = 56
    ∧ unfreed exGarbage.nextId exGarbage = 4 ∧ (collectCycles exGarbage).roots = [] := by decide

end Gc
end SodiumVerif
