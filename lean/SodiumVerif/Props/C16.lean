/-
  C16 — cycle collection terminates and costs time linear in the graph, for every shape.
  Cost is counted in `trace()` invocations (`traceCalls`) and tracer callbacks (`edgeCalls`).
-/
import SodiumVerif.Lemmas.GcCost

namespace SodiumVerif
namespace Gc

/-- One reset walk makes at most one `trace()` call per object of any edge-closed set `S`
    containing its start — however many paths lead to each object (the 2.1.2 fix). -/
theorem reset1_trace_calls_le {S : List Nat} (hS : S.Nodup) (fuel s : Nat) (g : State)
    (hs : s ∈ S) (hc : Closed g S) :
    (reset1 fuel s g).traceCalls ≤ g.traceCalls + S.length := by
  have h := (reset1_cost hS fuel s g hs hc).cost
  have : unvisited g S ≤ S.length := List.countP_le_length
  omega

/-- non-vacuity: a diamond 0 → {1,2} → 3 is closed and costs exactly 4 calls although 3 is
    reached along two paths -/
example :
    let g : State := { nextId := 4, nodes := ((((Store.empty.set 0 { rc := 1, traced := [1, 2] }).set 1
      { rc := 1, traced := [3] }).set 2 { rc := 1, traced := [3] }).set 3 { rc := 2 }) }
    (reset1 6 0 g).traceCalls = 4 := by decide

end Gc
end SodiumVerif
