/-
  C20 — one context shared by several threads: transactions serialise, nothing is lost.

  Decided only partially, and negatively: the property is FALSE of M_conc (and, replayed with forced
  schedules through the library's schedule points, of the code — known finding D7).  The witnesses
  below are complete executions of M_conc; the harness reproduces each of them on real threads.
  What a theorem cannot exhibit here: interleavings finer than the schedule points, torn or
  reordered accesses of the `Relaxed`/unsynchronised fields (`GcNodeData.color` is a plain `Cell`
  under `unsafe impl Sync`), lock fairness.
-/
import SodiumVerif.Model.Conc
import SodiumVerif.Gen.Facts

namespace SodiumVerif
namespace Conc

/-- two threads, one send each on its own sink -/
def twoSends : List (List (Nat × Int)) := [[(0, 1)], [(1, 2)]]

/-- with the threads run one after the other both sends are delivered, once, and the context is idle -/
theorem serial_both_delivered :
    (run 2 twoSends []).delivered = [(0, 1), (1, 2)] ∧ (run 2 twoSends []).changedNodes = [] ∧
    (run 2 twoSends []).depth = 0 := by decide +kernel

/-- **lost send (D7)**: thread 0 is inside `end_of_transaction` and has just taken an empty batch of
    `changed_nodes`; thread 1 performs a whole `send` (its `leave` sees depth 2 → 1, so it does not
    propagate); thread 0 then leaves the loop and runs `pre_post`, which clears thread 1's firing.
    Thread 1's `send` has returned normally, its event is never delivered, and its node is left on
    `changed_nodes` with an empty firing slot. -/
def lostSchedule : List Nat := List.replicate 14 0 ++ List.replicate 12 1 ++ [0]

theorem lost_send_witness :
    (run 2 twoSends lostSchedule).delivered = [(0, 1)] ∧
    (run 2 twoSends lostSchedule).changedNodes = [1] ∧
    (run 2 twoSends lostSchedule).firing.get 1 = none ∧
    (run 2 twoSends lostSchedule).depth = 0 := by decide +kernel

/-- **merged transactions**: thread 1's send lands while thread 0's transaction is still open; thread
    0's propagation delivers both events in ONE transaction — not equal to any serial order of two
    transactions (a `merge` of the two sinks would see them as simultaneous). Here: both are delivered
    by thread 0 although thread 1 "owns" the second send, and thread 1 never runs `end_of_transaction`. -/
def mergedSchedule : List Nat := List.replicate 2 0 ++ List.replicate 12 1

theorem merged_txn_witness :
    (run 2 twoSends mergedSchedule).delivered = [(0, 1), (1, 2)] ∧
    (run 2 twoSends mergedSchedule).collects = 1 := by decide +kernel

/-- two threads sending on the SAME sink (no coalescer): when the sends overlap only one value is
    delivered — one send is overwritten -/
theorem same_sink_overwrite_witness :
    (run 1 [[(0, 1)], [(0, 2)]] (List.replicate 4 0 ++ List.replicate 12 1)).delivered = [(0, 2)] := by decide +kernel

/-- the inventory of `unsafe impl`s the thread-safety claim rests on (regenerated from the source):
    a new entry changes this theorem -/
theorem unsafe_inventory : Facts.unsafeImpls =
    ["src/impl_/gc_node.rs: unsafe impl Send for GcNodeData", "src/impl_/gc_node.rs: unsafe impl Sync for GcNodeData"] := rfl

end Conc
end SodiumVerif
