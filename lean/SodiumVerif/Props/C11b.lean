/-
  C11 (second part) — a program written with a StreamLoop behaves exactly like the same program in which
  every use of the loop's stream is replaced by the stream it is looped to (and likewise for a CellLoop).

  `Def.subst l t d` replaces every *stream* operand `l` of `d` by `t`; `Spec.substLoop l t sp` does so in
  every definition except `l` itself.  For a closed StreamLoop `l ↦ t` of a well-ranked program, the firing
  table of `sp` is a total solution of the equations of `sp.substLoop l t` (in that table `l` and `t` have
  the same entry, by the equation of `sloop`), the substituted program is ranked by the same ranking
  (`rank t < rank l`), so by uniqueness (`fireTable_unique`) both programs have the same firing table:
  `fire_substLoop`.  The states after the transaction correspond as well (`stepTxn_substLoop`), hence so
  do whole runs (`run_substLoop`, `fireTrace_substLoop`).

  `Spec.substCLoop l t sp` replaces *all* operands `l` (stream and cell positions) by `t`; for a closed
  CellLoop `l ↦ t` whose cell has its target's value (`sp.val l = sp.val t`, which holds in every reachable
  state: `cloop_value` in `Props/C11.lean`) the same holds: `val_substCLoop`, `fire_substCLoop`.

  Both are instances of one development for `Def.substWith fs fc` (apply `fs` to stream operands and
  `fc` to cell operands), all 31 constructors.
-/
import SodiumVerif.Lemmas.SpecUnique
import SodiumVerif.Lemmas.SpecCell
import SodiumVerif.Props.C13

namespace SodiumVerif
namespace Spec

open Bridge

/-! ### substitution -/

/-- `x` with `l` replaced by `t` -/
def sub (l t x : Nat) : Nat := if x = l then t else x

/-- apply `fs` to every operand in stream position and `fc` to every operand in cell position -/
def Def.substWith (fs fc : Nat → Nat) : Def → Def
  | .sink c => .sink c
  | .csink k => .csink k
  | .const k => .const k
  | .never => .never
  | .map s k => .map (fs s) k
  | .mapto s k => .mapto (fs s) k
  | .filter s k => .filter (fs s) k
  | .merge a b op => .merge (fs a) (fs b) op
  | .orelse a b => .orelse (fs a) (fs b)
  | .snapshot s c op => .snapshot (fs s) (fc c) op
  | .snapshot1 s c => .snapshot1 (fs s) (fc c)
  | .snapshotn s cs => .snapshotn (fs s) (cs.map fc)
  | .gate s c => .gate (fs s) (fc c)
  | .hold s k => .hold (fs s) k
  | .holdz s c => .holdz (fs s) (fc c)
  | .once s => .once (fs s)
  | .updates c => .updates (fc c)
  | .value c => .value (fc c)
  | .mapc c k => .mapc (fc c) k
  | .lift2 a b op => .lift2 (fc a) (fc b) op
  | .liftn cs => .liftn (cs.map fc)
  | .accum s k op => .accum (fs s) k op
  | .collect s k op => .collect (fs s) k op
  | .defer s => .defer (fs s)
  | .split s n => .split (fs s) n
  | .switchs sel cands => .switchs (fc sel) (cands.map fs)
  | .switchc sel cands => .switchc (fc sel) (cands.map fc)
  | .sloop => .sloop
  | .cloop => .cloop
  | .route src sel k => .route (fs src) sel k
  | .when s t => .when (fs s) (fs t)

/-- replace every stream operand `l` by `t` (uses of a StreamLoop's stream) -/
def Def.subst (l t : Nat) : Def → Def := Def.substWith (sub l t) id

/-- replace every operand `l` by `t`, in stream and in cell positions (uses of a CellLoop's cell) -/
def Def.substAll (l t : Nat) : Def → Def := Def.substWith (sub l t) (sub l t)

/-- every definition except `l` itself has its operands mapped -/
def Spec.substLoopWith (fs fc : Nat → Nat) (l : Nat) (sp : Spec) : Spec :=
  { sp with defs := Array.ofFn (n := sp.defs.size) fun j =>
      if j.1 = l then sp.getDef j else (sp.getDef j).substWith fs fc }

/-- the program in which every use of the stream of the StreamLoop `l` is replaced by `t` -/
def Spec.substLoop (l t : Nat) (sp : Spec) : Spec := sp.substLoopWith (sub l t) id l

/-- the program in which every use of the CellLoop `l` is replaced by `t` -/
def Spec.substCLoop (l t : Nat) (sp : Spec) : Spec := sp.substLoopWith (sub l t) (sub l t) l

section generic
variable (fs fc : Nat → Nat) (l : Nat) (sp : Spec)

@[simp] theorem substLoopWith_size : (sp.substLoopWith fs fc l).defs.size = sp.defs.size := by
  simp [Spec.substLoopWith]
@[simp] theorem substLoopWith_stored : (sp.substLoopWith fs fc l).stored = sp.stored := rfl
@[simp] theorem substLoopWith_onceDone : (sp.substLoopWith fs fc l).onceDone = sp.onceDone := rfl
@[simp] theorem substLoopWith_loopTo : (sp.substLoopWith fs fc l).loopTo = sp.loopTo := rfl
@[simp] theorem substLoopWith_created : (sp.substLoopWith fs fc l).created = sp.created := rfl
@[simp] theorem substLoopWith_txn : (sp.substLoopWith fs fc l).txn = sp.txn := rfl

theorem getDef_substLoopWith (i : Nat) :
    (sp.substLoopWith fs fc l).getDef i =
      if i = l then sp.getDef i else (sp.getDef i).substWith fs fc := by
  by_cases hi : i < sp.defs.size
  · simp [Spec.getDef, Spec.substLoopWith, Array.getD_eq_getD_getElem?, hi]
  · have h1 : sp.getDef i = .never := getDef_ge sp i (Nat.le_of_not_lt hi)
    have h2 : (sp.substLoopWith fs fc l).getDef i = .never :=
      getDef_ge _ i (by rw [substLoopWith_size]; exact Nat.le_of_not_lt hi)
    rw [h1, h2]; split <;> rfl

theorem getDef_substLoopWith_self : (sp.substLoopWith fs fc l).getDef l = sp.getDef l := by
  rw [getDef_substLoopWith, if_pos rfl]

theorem getDef_substLoopWith_ne {i : Nat} (h : i ≠ l) :
    (sp.substLoopWith fs fc l).getDef i = (sp.getDef i).substWith fs fc := by
  rw [getDef_substLoopWith, if_neg h]

end generic

/-! ### the firing equation of the substituted program -/

/-- reading a candidate of a mapped candidate list, through anything that does not see the mapping -/
theorem getD_subst {α : Type} (g : Nat → α) (f : Nat → Nat) (hg : ∀ x, g (f x) = g x)
    (cands : List Nat) (k : Int) :
    g ((cands.map f).getD (k % ((cands.map f).length : Int)).toNat 0)
      = g (cands.getD (k % (cands.length : Int)).toNat 0) := by
  rw [List.length_map]
  by_cases hne : cands = []
  · subst hne; rfl
  · rw [getD_map_of_lt f cands _ 0 (emod_toNat_lt cands k hne), hg]

theorem mapM_subst {α : Type} (g : Nat → Option α) (f : Nat → Nat) (hg : ∀ x, g (f x) = g x)
    (cs : List Nat) : (cs.map f).mapM g = cs.mapM g := by
  rw [mapM_map_option]
  exact mapM_option_congr _ _ cs (fun c _ => hg c)

theorem zip_mapM_subst (v v' : Nat → Option Int) (f : Nat → Nat) (hv : ∀ x, v' (f x) = v x) :
    ∀ (cs : List Nat) (xs : List (Option Int)),
      ((cs.map f).zip xs).mapM (fun (p : Nat × Option Int) => p.2.orElse fun _ => v' p.1)
        = (cs.zip xs).mapM (fun (p : Nat × Option Int) => p.2.orElse fun _ => v p.1) := by
  intro cs
  induction cs with
  | nil => intro xs; rfl
  | cons c cs ih =>
    intro xs
    cases xs with
    | nil => rfl
    | cons x xs =>
      rw [List.map_cons, List.zip_cons_cons, List.zip_cons_cons, List.mapM_cons, List.mapM_cons, ih xs]
      simp only [hv c]

section eqn
variable {fs fc : Nat → Nat} {l : Nat} {sp : Spec}

/-- if `look` does not see the substitution, and cell values do not see it either, every definition
    of the substituted program has the equation it has in the original program -/
theorem fireOf_substLoopWith (ev : Events) (look : Nat → Option (Option Int))
    (hs : ∀ x, look (fs x) = look x) (hc : ∀ x, look (fc x) = look x)
    (hv : ∀ x, (sp.substLoopWith fs fc l).val x = sp.val x)
    (hvc : ∀ x, sp.val (fc x) = sp.val x) (i : Nat) :
    fireOf (sp.substLoopWith fs fc l) ev look i = fireOf sp ev look i := by
  have hvv : ∀ x, (sp.substLoopWith fs fc l).val (fc x) = sp.val x := fun x => by rw [hv, hvc]
  by_cases hil : i = l
  · -- the loop itself: untouched
    subst hil
    have hd' := getDef_substLoopWith_self fs fc i sp
    cases hd : sp.getDef i with
    | sloop =>
      rw [hd] at hd'
      rw [fireOf_sloop _ _ _ _ hd, fireOf_sloop _ _ _ _ hd', substLoopWith_loopTo]
    | cloop =>
      rw [hd] at hd'
      rw [fireOf_cloop _ _ _ _ hd, fireOf_cloop _ _ _ _ hd', substLoopWith_loopTo]
    | _ =>
      -- not a loop: the statement still holds, the definition is simply unchanged
      rw [hd] at hd'
      simp only [fireOf, hd, hd', hv, substLoopWith_onceDone, substLoopWith_created,
        substLoopWith_txn] <;> try rfl
  · have hd' := getDef_substLoopWith_ne fs fc l sp hil
    cases hd : sp.getDef i with
    | sink c =>
      rw [hd, Def.substWith] at hd'
      rw [fireOf_sink _ _ _ _ hd, fireOf_sink _ _ _ _ hd']
    | csink k =>
      rw [hd, Def.substWith] at hd'
      rw [fireOf_csink _ _ _ _ hd, fireOf_csink _ _ _ _ hd']
    | defer s =>
      rw [hd, Def.substWith] at hd'
      rw [fireOf_defer _ _ _ _ hd, fireOf_defer _ _ _ _ hd']
    | split s n =>
      rw [hd, Def.substWith] at hd'
      rw [fireOf_split _ _ _ _ hd, fireOf_split _ _ _ _ hd']
    | const k =>
      rw [hd, Def.substWith] at hd'
      rw [fireOf_const _ _ _ _ hd, fireOf_const _ _ _ _ hd']
    | never =>
      rw [hd, Def.substWith] at hd'
      rw [fireOf_never _ _ _ _ hd, fireOf_never _ _ _ _ hd']
    | map s k =>
      rw [hd, Def.substWith] at hd'
      rw [fireOf_map _ _ _ _ hd, fireOf_map _ _ _ _ hd', hs]
    | mapto s k =>
      rw [hd, Def.substWith] at hd'
      rw [fireOf_mapto _ _ _ _ hd, fireOf_mapto _ _ _ _ hd', hs]
    | filter s k =>
      rw [hd, Def.substWith] at hd'
      rw [fireOf_filter _ _ _ _ hd, fireOf_filter _ _ _ _ hd', hs]
    | merge a b op =>
      rw [hd, Def.substWith] at hd'
      rw [fireOf_merge _ _ _ _ hd, fireOf_merge _ _ _ _ hd', hs, hs]
    | orelse a b =>
      rw [hd, Def.substWith] at hd'
      rw [fireOf_orelse _ _ _ _ hd, fireOf_orelse _ _ _ _ hd', hs, hs]
    | snapshot s c op =>
      rw [hd, Def.substWith] at hd'
      rw [fireOf_snapshot _ _ _ _ hd, fireOf_snapshot _ _ _ _ hd', hs, hvv]
    | snapshot1 s c =>
      rw [hd, Def.substWith] at hd'
      rw [fireOf_snapshot1 _ _ _ _ hd, fireOf_snapshot1 _ _ _ _ hd', hs, hvv]
    | snapshotn s cs =>
      rw [hd, Def.substWith] at hd'
      rw [fireOf_snapshotn _ _ _ _ hd, fireOf_snapshotn _ _ _ _ hd', hs, mapM_map_option,
        mapM_option_congr _ (fun c => sp.val c) cs (fun c _ => hvv c)]
    | gate s c =>
      rw [hd, Def.substWith] at hd'
      rw [fireOf_gate _ _ _ _ hd, fireOf_gate _ _ _ _ hd', hs, hvv]
    | hold s k =>
      rw [hd, Def.substWith] at hd'
      rw [fireOf_hold _ _ _ _ hd, fireOf_hold _ _ _ _ hd', hs]
    | holdz s c =>
      rw [hd, Def.substWith] at hd'
      rw [fireOf_holdz _ _ _ _ hd, fireOf_holdz _ _ _ _ hd', hs]
    | once s =>
      rw [hd, Def.substWith] at hd'
      rw [fireOf_once _ _ _ _ hd, fireOf_once _ _ _ _ hd', hs, substLoopWith_onceDone]
    | updates c =>
      rw [hd, Def.substWith] at hd'
      rw [fireOf_updates _ _ _ _ hd, fireOf_updates _ _ _ _ hd', hc]
    | value c =>
      rw [hd, Def.substWith] at hd'
      rw [fireOf_value _ _ _ _ hd, fireOf_value _ _ _ _ hd', hc, hvv, substLoopWith_created,
        substLoopWith_txn]
    | mapc c k =>
      rw [hd, Def.substWith] at hd'
      rw [fireOf_mapc _ _ _ _ hd, fireOf_mapc _ _ _ _ hd', hc]
    | lift2 a b op =>
      rw [hd, Def.substWith] at hd'
      rw [fireOf_lift2 _ _ _ _ hd, fireOf_lift2 _ _ _ _ hd', hc, hc, hvv, hvv]
    | liftn cs =>
      rw [hd, Def.substWith] at hd'
      rw [fireOf_liftn _ _ _ _ hd, fireOf_liftn _ _ _ _ hd', mapM_subst look fc hc cs]
      cases cs.mapM look with
      | none => rfl
      | some xs =>
        simp only [Option.bind_eq_bind, Option.bind_some]
        rw [zip_mapM_subst (fun c => sp.val c) (fun c => (sp.substLoopWith fs fc l).val c) fc hvv cs xs]
    | accum s k op =>
      rw [hd, Def.substWith] at hd'
      rw [fireOf_accum _ _ _ _ hd, fireOf_accum _ _ _ _ hd', hs, hv]
    | collect s k op =>
      rw [hd, Def.substWith] at hd'
      rw [fireOf_collect _ _ _ _ hd, fireOf_collect _ _ _ _ hd', hs, hv]
    | switchs sel cands =>
      rw [hd, Def.substWith] at hd'
      rw [fireOf_switchs _ _ _ _ hd, fireOf_switchs _ _ _ _ hd', hvv]
      cases sp.val sel with
      | none => rfl
      | some k => exact getD_subst look fs hs cands k
    | switchc sel cands =>
      rw [hd, Def.substWith] at hd'
      rw [fireOf_switchc _ _ _ _ hd, fireOf_switchc _ _ _ _ hd', hc, hvv]
      have hvg : ∀ x, (sp.substLoopWith fs fc l).val (fc x) = (sp.substLoopWith fs fc l).val x :=
        fun x => by rw [hvv, hv]
      cases look sel with
      | none => rfl
      | some sf =>
        cases sf with
        | some k =>
          simp only [Option.bind_eq_bind, Option.bind_some]
          rw [getD_subst look fc hc cands k,
            getD_subst (fun c => (sp.substLoopWith fs fc l).val c) fc hvg cands k, hv]
        | none =>
          simp only [Option.bind_eq_bind, Option.bind_some]
          cases sp.val sel with
          | none => rfl
          | some k => exact getD_subst look fc hc cands k
    | sloop =>
      rw [hd, Def.substWith] at hd'
      rw [fireOf_sloop _ _ _ _ hd, fireOf_sloop _ _ _ _ hd', substLoopWith_loopTo]
    | cloop =>
      rw [hd, Def.substWith] at hd'
      rw [fireOf_cloop _ _ _ _ hd, fireOf_cloop _ _ _ _ hd', substLoopWith_loopTo]
    | route src sel k =>
      rw [hd, Def.substWith] at hd'
      rw [fireOf_route _ _ _ _ hd, fireOf_route _ _ _ _ hd', hs]
    | «when» a b =>
      rw [hd, Def.substWith] at hd'
      rw [fireOf_when _ _ _ _ hd, fireOf_when _ _ _ _ hd', hs, hs]

end eqn

/-! ### operands and ranking of the substituted program -/

/-- `f` maps definitions to definitions and does not increase the rank -/
def RankGood (sp : Spec) (rank : Nat → Nat) (f : Nat → Nat) : Prop :=
  ∀ x, x < sp.defs.size → f x < sp.defs.size ∧ rank (f x) ≤ rank x

theorem rankGood_id (sp : Spec) (rank : Nat → Nat) : RankGood sp rank id :=
  fun _ hx => ⟨hx, Nat.le_refl _⟩

theorem rankGood_sub {sp : Spec} {rank : Nat → Nat} {l t : Nat} (ht : t < sp.defs.size)
    (hr : rank t ≤ rank l) : RankGood sp rank (sub l t) := by
  intro x hx
  unfold sub
  split
  · rename_i h; subst h; exact ⟨ht, hr⟩
  · exact ⟨hx, Nat.le_refl _⟩

theorem substWith_id (d : Def) : d.substWith id id = d := by
  cases d <;> simp [Def.substWith]

theorem isCell_substWith (fs fc : Nat → Nat) (d : Def) : (d.substWith fs fc).isCell = d.isCell := by
  cases d <;> rfl

section ranked
variable {fs fc : Nat → Nat} {l : Nat} {sp : Spec}

/-- every operand of the substituted definition is an operand of the original one, possibly mapped -/
theorem operands_substWith {sp'' : Spec} {fs' fc' : Nat → Nat} {i : Nat}
    (hd' : sp''.getDef i = (sp.getDef i).substWith fs' fc') (hlt : sp''.loopTo = sp.loopTo)
    (hvv : ∀ x, sp''.val (fc' x) = sp.val x) (j' : Nat) (h : j' ∈ operands sp'' i) :
    ∃ x, x ∈ operands sp i ∧ (j' = x ∨ j' = fs' x ∨ j' = fc' x) := by
  cases hd : sp.getDef i with
  | sink c => rw [hd, Def.substWith] at hd'; simp [operands, hd'] at h
  | csink k => rw [hd, Def.substWith] at hd'; simp [operands, hd'] at h
  | const k => rw [hd, Def.substWith] at hd'; simp [operands, hd'] at h
  | never => rw [hd, Def.substWith] at hd'; simp [operands, hd'] at h
  | defer s => rw [hd, Def.substWith] at hd'; simp [operands, hd'] at h
  | split s n => rw [hd, Def.substWith] at hd'; simp [operands, hd'] at h
  | map s k =>
    rw [hd, Def.substWith] at hd'; simp only [operands, hd', List.mem_singleton] at h
    exact ⟨s, by simp [operands, hd], Or.inr (Or.inl h)⟩
  | mapto s k =>
    rw [hd, Def.substWith] at hd'; simp only [operands, hd', List.mem_singleton] at h
    exact ⟨s, by simp [operands, hd], Or.inr (Or.inl h)⟩
  | filter s k =>
    rw [hd, Def.substWith] at hd'; simp only [operands, hd', List.mem_singleton] at h
    exact ⟨s, by simp [operands, hd], Or.inr (Or.inl h)⟩
  | snapshot s c op =>
    rw [hd, Def.substWith] at hd'; simp only [operands, hd', List.mem_singleton] at h
    exact ⟨s, by simp [operands, hd], Or.inr (Or.inl h)⟩
  | snapshot1 s c =>
    rw [hd, Def.substWith] at hd'; simp only [operands, hd', List.mem_singleton] at h
    exact ⟨s, by simp [operands, hd], Or.inr (Or.inl h)⟩
  | snapshotn s cs =>
    rw [hd, Def.substWith] at hd'; simp only [operands, hd', List.mem_singleton] at h
    exact ⟨s, by simp [operands, hd], Or.inr (Or.inl h)⟩
  | gate s c =>
    rw [hd, Def.substWith] at hd'; simp only [operands, hd', List.mem_singleton] at h
    exact ⟨s, by simp [operands, hd], Or.inr (Or.inl h)⟩
  | hold s k =>
    rw [hd, Def.substWith] at hd'; simp only [operands, hd', List.mem_singleton] at h
    exact ⟨s, by simp [operands, hd], Or.inr (Or.inl h)⟩
  | once s =>
    rw [hd, Def.substWith] at hd'; simp only [operands, hd', List.mem_singleton] at h
    exact ⟨s, by simp [operands, hd], Or.inr (Or.inl h)⟩
  | accum s k op =>
    rw [hd, Def.substWith] at hd'; simp only [operands, hd', List.mem_singleton] at h
    exact ⟨s, by simp [operands, hd], Or.inr (Or.inl h)⟩
  | collect s k op =>
    rw [hd, Def.substWith] at hd'; simp only [operands, hd', List.mem_singleton] at h
    exact ⟨s, by simp [operands, hd], Or.inr (Or.inl h)⟩
  | route s sel k =>
    rw [hd, Def.substWith] at hd'; simp only [operands, hd', List.mem_singleton] at h
    exact ⟨s, by simp [operands, hd], Or.inr (Or.inl h)⟩
  | updates c =>
    rw [hd, Def.substWith] at hd'; simp only [operands, hd', List.mem_singleton] at h
    exact ⟨c, by simp [operands, hd], Or.inr (Or.inr h)⟩
  | value c =>
    rw [hd, Def.substWith] at hd'; simp only [operands, hd', List.mem_singleton] at h
    exact ⟨c, by simp [operands, hd], Or.inr (Or.inr h)⟩
  | mapc c k =>
    rw [hd, Def.substWith] at hd'; simp only [operands, hd', List.mem_singleton] at h
    exact ⟨c, by simp [operands, hd], Or.inr (Or.inr h)⟩
  | holdz s c =>
    rw [hd, Def.substWith] at hd'; simp only [operands, hd', List.mem_singleton] at h
    exact ⟨s, by simp [operands, hd], Or.inr (Or.inl h)⟩
  | merge a b op =>
    rw [hd, Def.substWith] at hd'
    simp only [operands, hd', List.mem_cons, List.not_mem_nil, or_false] at h
    rcases h with h | h
    · exact ⟨a, by simp [operands, hd], Or.inr (Or.inl h)⟩
    · exact ⟨b, by simp [operands, hd], Or.inr (Or.inl h)⟩
  | orelse a b =>
    rw [hd, Def.substWith] at hd'
    simp only [operands, hd', List.mem_cons, List.not_mem_nil, or_false] at h
    rcases h with h | h
    · exact ⟨a, by simp [operands, hd], Or.inr (Or.inl h)⟩
    · exact ⟨b, by simp [operands, hd], Or.inr (Or.inl h)⟩
  | «when» a b =>
    rw [hd, Def.substWith] at hd'
    simp only [operands, hd', List.mem_cons, List.not_mem_nil, or_false] at h
    rcases h with h | h
    · exact ⟨a, by simp [operands, hd], Or.inr (Or.inl h)⟩
    · exact ⟨b, by simp [operands, hd], Or.inr (Or.inl h)⟩
  | lift2 a b op =>
    rw [hd, Def.substWith] at hd'
    simp only [operands, hd', List.mem_cons, List.not_mem_nil, or_false] at h
    rcases h with h | h
    · exact ⟨a, by simp [operands, hd], Or.inr (Or.inr h)⟩
    · exact ⟨b, by simp [operands, hd], Or.inr (Or.inr h)⟩
  | liftn cs =>
    rw [hd, Def.substWith] at hd'
    simp only [operands, hd'] at h
    obtain ⟨x, hx, rfl⟩ := List.mem_map.mp h
    exact ⟨x, by simpa [operands, hd] using hx, Or.inr (Or.inr rfl)⟩
  | switchs sel cands =>
    rw [hd, Def.substWith] at hd'
    simp only [operands, hd', hvv] at h
    simp only [operands, hd]
    cases hk : sp.val sel with
    | none => rw [hk] at h; cases h
    | some k =>
      rw [hk] at h
      simp only [List.mem_singleton, List.length_map] at h ⊢
      refine ⟨_, rfl, ?_⟩
      by_cases hne : cands = []
      · subst hne; exact Or.inl h
      · rw [getD_map_of_lt fs' cands _ 0 (emod_toNat_lt cands k hne)] at h
        exact Or.inr (Or.inl h)
  | switchc sel cands =>
    rw [hd, Def.substWith] at hd'
    simp only [operands, hd'] at h
    simp only [operands, hd]
    by_cases hne : cands = []
    · subst hne
      simp only [List.map_nil, if_true, List.mem_cons, List.not_mem_nil, or_false] at h ⊢
      rcases h with h | h
      · exact ⟨sel, Or.inl rfl, Or.inr (Or.inr h)⟩
      · exact ⟨0, Or.inr rfl, Or.inl h⟩
    · have hne' : cands.map fc' ≠ [] := by simpa using hne
      rw [if_neg hne'] at h
      rw [if_neg hne]
      rcases List.mem_cons.mp h with h | h
      · exact ⟨sel, List.mem_cons_self, Or.inr (Or.inr h)⟩
      · obtain ⟨x, hx, rfl⟩ := List.mem_map.mp h
        exact ⟨x, List.mem_cons_of_mem _ hx, Or.inr (Or.inr rfl)⟩
  | sloop =>
    rw [hd, Def.substWith] at hd'
    simp only [operands, hd', hlt] at h
    exact ⟨j', by simpa [operands, hd] using h, Or.inl rfl⟩
  | cloop =>
    rw [hd, Def.substWith] at hd'
    simp only [operands, hd', hlt] at h
    exact ⟨j', by simpa [operands, hd] using h, Or.inl rfl⟩

/-- the definition at `i` of the substituted program, uniformly: the original one with its operands
    mapped by rank-good functions that cell values do not see -/
theorem getDef_substLoopWith_cases {rank : Nat → Nat} (hfs : RankGood sp rank fs) (hfc : RankGood sp rank fc)
    (hvc : ∀ x, sp.val (fc x) = sp.val x) (i : Nat) :
    ∃ fs' fc', RankGood sp rank fs' ∧ RankGood sp rank fc' ∧ (∀ x, sp.val (fc' x) = sp.val x) ∧
      (fs' = fs ∨ fs' = id) ∧ (fc' = fc ∨ fc' = id) ∧
      (sp.substLoopWith fs fc l).getDef i = (sp.getDef i).substWith fs' fc' := by
  by_cases hil : i = l
  · refine ⟨id, id, rankGood_id _ _, rankGood_id _ _, fun _ => rfl, Or.inr rfl, Or.inr rfl, ?_⟩
    rw [substWith_id, hil, getDef_substLoopWith_self]
  · exact ⟨fs, fc, hfs, hfc, hvc, Or.inl rfl, Or.inl rfl, getDef_substLoopWith_ne fs fc l sp hil⟩

/-- cell values of the substituted program, with any sufficient fuel -/
theorem cellVal_substLoopWith {rank : Nat → Nat} (wr : WellRanked sp rank)
    (hfs : RankGood sp rank fs) (hfc : RankGood sp rank fc) (hvc : ∀ x, sp.val (fc x) = sp.val x) :
    ∀ (f i : Nat), i < sp.defs.size → rank i < f →
      cellVal (sp.substLoopWith fs fc l) f i = sp.val i := by
  intro f
  induction f with
  | zero => intro i _ h; omega
  | succ f ih =>
    intro i hi hr
    obtain ⟨fs', fc', _, hgc, hvc', _, _, hd'⟩ := getDef_substLoopWith_cases (l := l) hfs hfc hvc i
    have hop : ∀ c, c ∈ operands sp i → cellVal (sp.substLoopWith fs fc l) f (fc' c) = sp.val c := by
      intro c hc
      have h1 := wr.dec i hi c hc
      have h2 := hgc c h1.1
      rw [ih (fc' c) h2.1 (by omega), hvc' c]
    have hop0 : ∀ c, c ∈ operands sp i → cellVal (sp.substLoopWith fs fc l) f c = sp.val c := by
      intro c hc
      have h1 := wr.dec i hi c hc
      exact ih c h1.1 (by omega)
    have hvop : ∀ c, c ∈ valDeps sp i → cellVal (sp.substLoopWith fs fc l) f (fc' c) = sp.val c := by
      intro c hc
      have h1 := wr.vdec i hi c hc
      have h2 := hgc c h1.1
      rw [ih (fc' c) h2.1 (by omega), hvc' c]
    rw [cellVal_succ, val_eq wr i, substLoopWith_stored, substLoopWith_loopTo, hd']
    cases hs : sp.stored.get i with
    | some v => rfl
    | none =>
      simp only []
      cases hd : sp.getDef i with
      | holdz s c =>
        simp only [Def.substWith]; rw [hvop c (by simp [valDeps, hd])]
      | mapc c k =>
        simp only [Def.substWith]; rw [hop c (by simp [operands, hd])]
      | lift2 a b op =>
        simp only [Def.substWith]
        rw [hop a (by simp [operands, hd]), hop b (by simp [operands, hd])]
      | liftn cs =>
        simp only [Def.substWith]
        rw [mapM_map_option, mapM_option_congr _ (fun c => sp.val c) cs
          (fun c hc => hop c (by simpa [operands, hd] using hc))]
      | switchc sel cands =>
        simp only [Def.substWith]
        have hsel : sel ∈ operands sp i := by simp only [operands, hd]; split <;> simp
        rw [hop sel hsel]
        cases hk : sp.val sel with
        | none => rfl
        | some k =>
          simp only [Option.bind_eq_bind, Option.bind_some, List.length_map]
          by_cases hne : cands = []
          · subst hne
            exact hop0 0 (by simp [operands, hd])
          · rw [getD_map_of_lt fc' cands _ 0 (emod_toNat_lt cands k hne)]
            apply hop
            simp only [operands, hd, if_neg hne]
            exact List.mem_cons_of_mem _ (getD_emod_mem cands k hne)
      | cloop =>
        simp only [Def.substWith]
        cases hl : sp.loopTo.get i with
        | none => rfl
        | some t => exact hop0 t (by simp [operands, hd, hl])
      | _ => simp only [Def.substWith]

/-- cell values do not see the substitution -/
theorem val_substLoopWith {rank : Nat → Nat} (wr : WellRanked sp rank)
    (hfs : RankGood sp rank fs) (hfc : RankGood sp rank fc) (hvc : ∀ x, sp.val (fc x) = sp.val x)
    (x : Nat) : (sp.substLoopWith fs fc l).val x = sp.val x := by
  by_cases hx : x < sp.defs.size
  · unfold Spec.val
    rw [substLoopWith_size]
    have := wr.bound x hx
    exact cellVal_substLoopWith wr hfs hfc hvc _ x hx (by omega)
  · have h1 : sp.getDef x = .never := getDef_ge sp x (Nat.le_of_not_lt hx)
    have h2 : (sp.substLoopWith fs fc l).getDef x = .never :=
      getDef_ge _ x (by rw [substLoopWith_size]; exact Nat.le_of_not_lt hx)
    unfold Spec.val
    rw [cellVal_succ, cellVal_succ, h1, h2, substLoopWith_stored]

/-- the substituted program is ranked by the same ranking -/
theorem WellRanked.substLoopWith {rank : Nat → Nat} (wr : WellRanked sp rank)
    (hfs : RankGood sp rank fs) (hfc : RankGood sp rank fc) (hvc : ∀ x, sp.val (fc x) = sp.val x) :
    WellRanked (sp.substLoopWith fs fc l) rank := by
  have hv := val_substLoopWith (l := l) wr hfs hfc hvc
  constructor
  · intro i hi
    rw [substLoopWith_size] at hi ⊢
    exact wr.bound i hi
  · intro i hi j' hj'
    rw [substLoopWith_size] at hi ⊢
    obtain ⟨fs', fc', hgs, hgc, hvc', _, _, hd'⟩ := getDef_substLoopWith_cases (l := l) hfs hfc hvc i
    obtain ⟨x, hx, hj⟩ := operands_substWith (fs' := fs') hd' rfl (fun x => by rw [hv, hvc']) j' hj'
    have h1 := wr.dec i hi x hx
    rcases hj with rfl | rfl | rfl
    · exact h1
    · have := hgs x h1.1; exact ⟨this.1, by omega⟩
    · have := hgc x h1.1; exact ⟨this.1, by omega⟩
  · intro i hi j' hj'
    rw [substLoopWith_size] at hi ⊢
    obtain ⟨fs', fc', _, hgc, _, _, _, hd'⟩ := getDef_substLoopWith_cases (l := l) hfs hfc hvc i
    unfold valDeps at hj'
    rw [hd'] at hj'
    cases hd : sp.getDef i with
    | holdz s c =>
      rw [hd] at hj'
      simp only [Def.substWith, List.mem_singleton] at hj'
      subst hj'
      have h1 := wr.vdec i hi c (by simp [valDeps, hd])
      have := hgc c h1.1
      exact ⟨this.1, by omega⟩
    | _ => rw [hd] at hj'; simp [Def.substWith] at hj'

/-- **substitution, general form**: if in the firing table of `sp` the entries of `fs x` / `fc x` are
    those of `x`, and cell values do not see `fc`, then the substituted program has the same table -/
theorem fireTable_substLoopWith {rank : Nat → Nat} (wr : WellRanked sp rank)
    (hfs : RankGood sp rank fs) (hfc : RankGood sp rank fc) (hvc : ∀ x, sp.val (fc x) = sp.val x)
    (ev : Events)
    (hs : ∀ x, (fireTable sp ev).get (fs x) = (fireTable sp ev).get x)
    (hc : ∀ x, (fireTable sp ev).get (fc x) = (fireTable sp ev).get x)
    (i : Nat) (hi : i < sp.defs.size) :
    (fireTable (sp.substLoopWith fs fc l) ev).get i = (fireTable sp ev).get i := by
  have hv := val_substLoopWith (l := l) wr hfs hfc hvc
  have wr' := wr.substLoopWith (l := l) hfs hfc hvc
  have hu := fireTable_unique _ ev rank wr' (fun j => (fireTable sp ev).get j)
    (by intro j hj
        rw [substLoopWith_size] at hj
        exact fireTable_total sp ev rank wr j hj)
    (by intro j hj
        rw [substLoopWith_size] at hj
        rw [fireOf_substLoopWith ev _ hs hc hv hvc j]
        exact fireTable_fix sp ev rank wr j hj)
  exact (hu i (by rw [substLoopWith_size]; exact hi)).symm

end ranked

/-! ### after the transaction -/

theorem Spec.ext' {a b : Spec} (h1 : a.defs = b.defs) (h2 : a.created = b.created)
    (h3 : a.stored = b.stored) (h4 : a.onceDone = b.onceDone) (h5 : a.loopTo = b.loopTo)
    (h6 : a.txn = b.txn) : a = b := by
  cases a; cases b; simp_all

theorem foldl_congr_mem {α β : Type} (f g : β → α → β) (l : List α) (b : β)
    (h : ∀ b a, a ∈ l → f b a = g b a) : l.foldl f b = l.foldl g b := by
  induction l generalizing b with
  | nil => rfl
  | cons a l ih =>
    rw [List.foldl_cons, List.foldl_cons, h b a List.mem_cons_self,
      ih _ (fun b' a' ha' => h b' a' (List.mem_cons_of_mem _ ha'))]

theorem foldl_optSet_congr {α : Type} [Inhabited α] (g g' : Nat → Option α) (l : List Nat) (st : Store α)
    (h : ∀ i, i ∈ l → g i = g' i) : l.foldl (optSet g) st = l.foldl (optSet g') st :=
  foldl_congr_mem _ _ l st (fun b a ha => by unfold optSet; rw [h a ha])

section step
variable {fs fc : Nat → Nat} {l : Nat} {sp : Spec} {rank : Nat → Nat}

/-- the firings agree at every index (outside the program nothing fires) -/
theorem fire_substLoopWith (wr : WellRanked sp rank)
    (hfs : RankGood sp rank fs) (hfc : RankGood sp rank fc) (hvc : ∀ x, sp.val (fc x) = sp.val x)
    (ev : Events)
    (hs : ∀ x, (fireTable sp ev).get (fs x) = (fireTable sp ev).get x)
    (hc : ∀ x, (fireTable sp ev).get (fc x) = (fireTable sp ev).get x) (i : Nat) :
    fire (fireTable (sp.substLoopWith fs fc l) ev) i = fire (fireTable sp ev) i := by
  by_cases hi : i < sp.defs.size
  · unfold fire; rw [fireTable_substLoopWith wr hfs hfc hvc ev hs hc i hi]
  · rw [fire_fireTable_ge sp ev i (Nat.le_of_not_lt hi),
      fire_fireTable_ge _ ev i (by rw [substLoopWith_size]; exact Nat.le_of_not_lt hi)]

theorem storedUpd_substLoopWith (wr : WellRanked sp rank)
    (hfs : RankGood sp rank fs) (hfc : RankGood sp rank fc) (hvc : ∀ x, sp.val (fc x) = sp.val x)
    (ev : Events)
    (hs : ∀ x, (fireTable sp ev).get (fs x) = (fireTable sp ev).get x)
    (hc : ∀ x, (fireTable sp ev).get (fc x) = (fireTable sp ev).get x) (i : Nat) :
    storedUpd (sp.substLoopWith fs fc l) (fireTable (sp.substLoopWith fs fc l) ev) i
      = storedUpd sp (fireTable sp ev) i := by
  have hf := fire_substLoopWith (l := l) wr hfs hfc hvc ev hs hc
  have hv := val_substLoopWith (l := l) wr hfs hfc hvc
  obtain ⟨fs', fc', _, _, hvc', hfs', _, hd'⟩ := getDef_substLoopWith_cases (l := l) hfs hfc hvc i
  have hs' : ∀ x, fire (fireTable sp ev) (fs' x) = fire (fireTable sp ev) x := by
    intro x; unfold fire
    rcases hfs' with rfl | rfl
    · rw [hs]
    · rfl
  unfold storedUpd
  rw [hd']
  cases hd : sp.getDef i with
  | collect s k op => simp only [Def.substWith]; rw [hf, hs', hv]
  | holdz s c => simp only [Def.substWith]; rw [hf i, substLoopWith_stored, hv (fc' c), hvc' c]
  | _ => simp only [Def.substWith, Def.isCell, hf i] <;> try rfl

theorem onceUpd_substLoopWith (wr : WellRanked sp rank)
    (hfs : RankGood sp rank fs) (hfc : RankGood sp rank fc) (hvc : ∀ x, sp.val (fc x) = sp.val x)
    (ev : Events)
    (hs : ∀ x, (fireTable sp ev).get (fs x) = (fireTable sp ev).get x)
    (hc : ∀ x, (fireTable sp ev).get (fc x) = (fireTable sp ev).get x) (i : Nat) :
    onceUpd (sp.substLoopWith fs fc l) (fireTable (sp.substLoopWith fs fc l) ev) i
      = onceUpd sp (fireTable sp ev) i := by
  have hf := fire_substLoopWith (l := l) wr hfs hfc hvc ev hs hc
  obtain ⟨fs', fc', _, _, _, _, _, hd'⟩ := getDef_substLoopWith_cases (l := l) hfs hfc hvc i
  unfold onceUpd
  rw [hd']
  cases hd : sp.getDef i <;> simp only [Def.substWith, hf i]

/-- the events deferred by the transaction are the same -/
theorem deferred_substLoopWith (wr : WellRanked sp rank)
    (hfs : RankGood sp rank fs) (hfc : RankGood sp rank fc) (hvc : ∀ x, sp.val (fc x) = sp.val x)
    (ev : Events)
    (hs : ∀ x, (fireTable sp ev).get (fs x) = (fireTable sp ev).get x)
    (hc : ∀ x, (fireTable sp ev).get (fc x) = (fireTable sp ev).get x) :
    deferred (sp.substLoopWith fs fc l) (fireTable (sp.substLoopWith fs fc l) ev)
      = deferred sp (fireTable sp ev) := by
  have hf := fire_substLoopWith (l := l) wr hfs hfc hvc ev hs hc
  unfold deferred
  rw [substLoopWith_size]
  apply foldl_congr_mem
  intro acc i _
  obtain ⟨fs', fc', _, _, _, hfs', _, hd'⟩ := getDef_substLoopWith_cases (l := l) hfs hfc hvc i
  have hs' : ∀ x, fire (fireTable sp ev) (fs' x) = fire (fireTable sp ev) x := by
    intro x; unfold fire
    rcases hfs' with rfl | rfl
    · rw [hs]
    · rfl
  rw [hd']
  cases hd : sp.getDef i with
  | defer s => simp only [Def.substWith]; rw [hf, hs']
  | split s n => simp only [Def.substWith]; rw [hf, hs']
  | _ => simp only [Def.substWith]

/-- the state after the transaction of the substituted program is the substituted state after the
    transaction of the original program -/
theorem stepTxn_substLoopWith (wr : WellRanked sp rank)
    (hfs : RankGood sp rank fs) (hfc : RankGood sp rank fc) (hvc : ∀ x, sp.val (fc x) = sp.val x)
    (ev : Events)
    (hs : ∀ x, (fireTable sp ev).get (fs x) = (fireTable sp ev).get x)
    (hc : ∀ x, (fireTable sp ev).get (fc x) = (fireTable sp ev).get x) :
    stepTxn (sp.substLoopWith fs fc l) ev = (stepTxn sp ev).substLoopWith fs fc l := by
  apply Spec.ext'
  · rfl
  · rfl
  · show (stepTxn (sp.substLoopWith fs fc l) ev).stored = (stepTxn sp ev).stored
    rw [stepTxn_stored, stepTxn_stored, applyUpdates_stored, applyUpdates_stored, substLoopWith_size,
      substLoopWith_stored]
    exact foldl_optSet_congr _ _ _ _ (fun i _ => storedUpd_substLoopWith wr hfs hfc hvc ev hs hc i)
  · show (stepTxn (sp.substLoopWith fs fc l) ev).onceDone = (stepTxn sp ev).onceDone
    rw [stepTxn_onceDone, stepTxn_onceDone, applyUpdates_onceDone, applyUpdates_onceDone,
      substLoopWith_size, substLoopWith_onceDone]
    exact foldl_optSet_congr _ _ _ _ (fun i _ => onceUpd_substLoopWith wr hfs hfc hvc ev hs hc i)
  · rfl
  · rfl

end step

/-! ### StreamLoop -/

section sloop
variable {sp : Spec} {rank : Nat → Nat} {l t : Nat}

/-- in the table, a closed loop has the entry of its target -/
theorem loop_entry (wr : WellRanked sp rank) (hd : sp.getDef l = .sloop ∨ sp.getDef l = .cloop)
    (hl : sp.loopTo.get l = some t) (ev : Events) :
    (fireTable sp ev).get l = (fireTable sp ev).get t := by
  have hlt : l < sp.defs.size := getDef_lt sp l (by rcases hd with h | h <;> rw [h] <;> simp)
  have h := fireTable_fix sp ev rank wr l hlt
  rcases hd with hd | hd
  · rw [fireOf_sloop _ _ _ _ hd, hl] at h; exact h.symm
  · rw [fireOf_cloop _ _ _ _ hd, hl] at h; exact h.symm

theorem loop_target (wr : WellRanked sp rank) (hd : sp.getDef l = .sloop ∨ sp.getDef l = .cloop)
    (hl : sp.loopTo.get l = some t) : t < sp.defs.size ∧ rank t < rank l := by
  have hlt : l < sp.defs.size := getDef_lt sp l (by rcases hd with h | h <;> rw [h] <;> simp)
  apply wr.dec l hlt t
  rcases hd with hd | hd <;> simp [operands, hd, hl]

theorem sub_entry (wr : WellRanked sp rank) (hd : sp.getDef l = .sloop ∨ sp.getDef l = .cloop)
    (hl : sp.loopTo.get l = some t) (ev : Events) (x : Nat) :
    (fireTable sp ev).get (sub l t x) = (fireTable sp ev).get x := by
  unfold sub
  split
  · rename_i h; subst h; exact (loop_entry wr hd hl ev).symm
  · rfl

theorem rankGood_loop (wr : WellRanked sp rank) (hd : sp.getDef l = .sloop ∨ sp.getDef l = .cloop)
    (hl : sp.loopTo.get l = some t) : RankGood sp rank (sub l t) :=
  rankGood_sub (loop_target wr hd hl).1 (Nat.le_of_lt (loop_target wr hd hl).2)

/-- the substituted program is still well-ranked, by the same ranking -/
theorem WellRanked.substLoop (wr : WellRanked sp rank) (hd : sp.getDef l = .sloop)
    (hl : sp.loopTo.get l = some t) : WellRanked (sp.substLoop l t) rank :=
  wr.substLoopWith (rankGood_loop wr (Or.inl hd) hl) (rankGood_id _ _) (fun _ => rfl)

/-- cell values are untouched by the substitution of a StreamLoop -/
theorem val_substLoop (wr : WellRanked sp rank) (hd : sp.getDef l = .sloop)
    (hl : sp.loopTo.get l = some t) (x : Nat) : (sp.substLoop l t).val x = sp.val x :=
  val_substLoopWith wr (rankGood_loop wr (Or.inl hd) hl) (rankGood_id _ _) (fun _ => rfl) x

/-- the firing table of `sp` solves the equations of the substituted program -/
theorem fireTable_solves_substLoop (wr : WellRanked sp rank) (hd : sp.getDef l = .sloop)
    (hl : sp.loopTo.get l = some t) (ev : Events) :
    TotalSolution (sp.substLoop l t) ev (fun j => (fireTable sp ev).get j) := by
  constructor
  · intro i hi
    exact fireTable_total sp ev rank wr i (by simpa [Spec.substLoop] using hi)
  · intro i hi
    have hi' : i < sp.defs.size := by simpa [Spec.substLoop] using hi
    exact (fireOf_substLoopWith (fs := sub l t) (fc := id) (l := l) ev
      (fun j => (fireTable sp ev).get j) (sub_entry wr (Or.inl hd) hl ev) (fun _ => rfl)
      (val_substLoop wr hd hl) (fun _ => rfl) i).trans (fireTable_fix sp ev rank wr i hi')

theorem fireTable_substLoop (wr : WellRanked sp rank) (hd : sp.getDef l = .sloop)
    (hl : sp.loopTo.get l = some t) (ev : Events) (i : Nat) (hi : i < sp.defs.size) :
    (fireTable (sp.substLoop l t) ev).get i = (fireTable sp ev).get i :=
  fireTable_substLoopWith wr (rankGood_loop wr (Or.inl hd) hl) (rankGood_id _ _) (fun _ => rfl) ev
    (sub_entry wr (Or.inl hd) hl ev) (fun _ => rfl) i hi

/-- **C11, StreamLoop substitution**: the program in which every use of the loop's stream is replaced by
    the stream the loop was closed with fires, at every definition, exactly what the program with the loop
    fires -/
theorem fire_substLoop (wr : WellRanked sp rank) (hd : sp.getDef l = .sloop)
    (hl : sp.loopTo.get l = some t) (ev : Events) (i : Nat) (hi : i < sp.defs.size) :
    fire (fireTable (sp.substLoop l t) ev) i = fire (fireTable sp ev) i := by
  unfold fire; rw [fireTable_substLoop wr hd hl ev i hi]

/-- … and leaves the same state behind (the substituted form of the state the loop program leaves) -/
theorem stepTxn_substLoop (wr : WellRanked sp rank) (hd : sp.getDef l = .sloop)
    (hl : sp.loopTo.get l = some t) (ev : Events) :
    stepTxn (sp.substLoop l t) ev = (stepTxn sp ev).substLoop l t :=
  stepTxn_substLoopWith wr (rankGood_loop wr (Or.inl hd) hl) (rankGood_id _ _) (fun _ => rfl) ev
    (sub_entry wr (Or.inl hd) hl ev) (fun _ => rfl)

/-- … and defers the same events -/
theorem deferred_substLoop (wr : WellRanked sp rank) (hd : sp.getDef l = .sloop)
    (hl : sp.loopTo.get l = some t) (ev : Events) :
    deferred (sp.substLoop l t) (fireTable (sp.substLoop l t) ev) = deferred sp (fireTable sp ev) :=
  deferred_substLoopWith wr (rankGood_loop wr (Or.inl hd) hl) (rankGood_id _ _) (fun _ => rfl) ev
    (sub_entry wr (Or.inl hd) hl ev) (fun _ => rfl)

/-- any number of transactions -/
theorem run_substLoop (sr : StaticRanked sp rank) (hd : sp.getDef l = .sloop)
    (hl : sp.loopTo.get l = some t) (evs : List Events) :
    run (sp.substLoop l t) evs = (run sp evs).substLoop l t := by
  induction evs generalizing sp with
  | nil => rfl
  | cons ev evs ih =>
    rw [run_cons, run_cons, stepTxn_substLoop sr.wellRanked hd hl ev]
    exact ih (sr.same (sameProg_stepTxn sp ev)) (by simpa using hd) (by simpa using hl)

theorem fireTrace_substLoop (sr : StaticRanked sp rank) (hd : sp.getDef l = .sloop)
    (hl : sp.loopTo.get l = some t) (evs : List Events) (i : Nat) (hi : i < sp.defs.size) :
    fireTrace (sp.substLoop l t) evs i = fireTrace sp evs i := by
  induction evs generalizing sp with
  | nil => rfl
  | cons ev evs ih =>
    unfold fireTrace
    rw [fire_substLoop sr.wellRanked hd hl ev i hi, stepTxn_substLoop sr.wellRanked hd hl ev]
    rw [ih (sr.same (sameProg_stepTxn sp ev)) (by simpa using hd) (by simpa using hl) hi]

theorem val_run_substLoop (sr : StaticRanked sp rank) (hd : sp.getDef l = .sloop)
    (hl : sp.loopTo.get l = some t) (evs : List Events) (x : Nat) :
    (run (sp.substLoop l t) evs).val x = (run sp evs).val x := by
  rw [run_substLoop sr hd hl evs]
  exact val_substLoop (sr.same (sameProg_run sp evs)).wellRanked (by simpa using hd) (by simpa using hl) x

end sloop

/-! ### CellLoop -/

section cloop
variable {sp : Spec} {rank : Nat → Nat} {l t : Nat}

theorem val_sub (hv : sp.val l = sp.val t) (x : Nat) : sp.val (sub l t x) = sp.val x := by
  unfold sub
  split
  · rename_i h; subst h; exact hv.symm
  · rfl

theorem WellRanked.substCLoop (wr : WellRanked sp rank) (hd : sp.getDef l = .cloop)
    (hl : sp.loopTo.get l = some t) (hv : sp.val l = sp.val t) : WellRanked (sp.substCLoop l t) rank :=
  wr.substLoopWith (rankGood_loop wr (Or.inr hd) hl) (rankGood_loop wr (Or.inr hd) hl) (val_sub hv)

/-- cell values of the program in which the CellLoop is replaced by its target -/
theorem val_substCLoop (wr : WellRanked sp rank) (hd : sp.getDef l = .cloop)
    (hl : sp.loopTo.get l = some t) (hv : sp.val l = sp.val t) (x : Nat) :
    (sp.substCLoop l t).val x = sp.val x :=
  val_substLoopWith wr (rankGood_loop wr (Or.inr hd) hl) (rankGood_loop wr (Or.inr hd) hl) (val_sub hv) x

theorem fireTable_substCLoop (wr : WellRanked sp rank) (hd : sp.getDef l = .cloop)
    (hl : sp.loopTo.get l = some t) (hv : sp.val l = sp.val t) (ev : Events)
    (i : Nat) (hi : i < sp.defs.size) :
    (fireTable (sp.substCLoop l t) ev).get i = (fireTable sp ev).get i :=
  fireTable_substLoopWith wr (rankGood_loop wr (Or.inr hd) hl) (rankGood_loop wr (Or.inr hd) hl)
    (val_sub hv) ev (sub_entry wr (Or.inr hd) hl ev) (sub_entry wr (Or.inr hd) hl ev) i hi

/-- **C11, CellLoop substitution**: if the loop's cell has its target's value (true in every reachable
    state), the program in which every use of the CellLoop is replaced by the cell it was closed with
    fires, at every definition, exactly what the program with the loop fires -/
theorem fire_substCLoop (wr : WellRanked sp rank) (hd : sp.getDef l = .cloop)
    (hl : sp.loopTo.get l = some t) (hv : sp.val l = sp.val t) (ev : Events)
    (i : Nat) (hi : i < sp.defs.size) :
    fire (fireTable (sp.substCLoop l t) ev) i = fire (fireTable sp ev) i := by
  unfold fire; rw [fireTable_substCLoop wr hd hl hv ev i hi]

theorem stepTxn_substCLoop (wr : WellRanked sp rank) (hd : sp.getDef l = .cloop)
    (hl : sp.loopTo.get l = some t) (hv : sp.val l = sp.val t) (ev : Events) :
    stepTxn (sp.substCLoop l t) ev = (stepTxn sp ev).substCLoop l t :=
  stepTxn_substLoopWith wr (rankGood_loop wr (Or.inr hd) hl) (rankGood_loop wr (Or.inr hd) hl)
    (val_sub hv) ev (sub_entry wr (Or.inr hd) hl ev) (sub_entry wr (Or.inr hd) hl ev)

/-- any number of transactions, as long as the loop's cell keeps its target's value -/
theorem run_substCLoop (sr : StaticRanked sp rank) (hd : sp.getDef l = .cloop)
    (hl : sp.loopTo.get l = some t) (evs : List Events)
    (hv : ∀ evs', (run sp evs').val l = (run sp evs').val t) :
    run (sp.substCLoop l t) evs = (run sp evs).substCLoop l t := by
  induction evs generalizing sp with
  | nil => rfl
  | cons ev evs ih =>
    rw [run_cons, run_cons, stepTxn_substCLoop sr.wellRanked hd hl (hv []) ev]
    exact ih (sr.same (sameProg_stepTxn sp ev)) (by simpa using hd) (by simpa using hl)
      (fun evs' => hv (ev :: evs'))

theorem fireTrace_substCLoop (sr : StaticRanked sp rank) (hd : sp.getDef l = .cloop)
    (hl : sp.loopTo.get l = some t) (evs : List Events)
    (hv : ∀ evs', (run sp evs').val l = (run sp evs').val t) (i : Nat) (hi : i < sp.defs.size) :
    fireTrace (sp.substCLoop l t) evs i = fireTrace sp evs i := by
  induction evs generalizing sp with
  | nil => rfl
  | cons ev evs ih =>
    unfold fireTrace
    rw [fire_substCLoop sr.wellRanked hd hl (hv []) ev i hi,
      stepTxn_substCLoop sr.wellRanked hd hl (hv []) ev]
    rw [ih (sr.same (sameProg_stepTxn sp ev)) (by simpa using hd) (by simpa using hl)
      (fun evs' => hv (ev :: evs')) hi]

/-- for a well-formed program started from its initial state the side condition holds by itself
    (`lift_inv_cloop`, `Props/C13.lean`) -/
theorem fireTrace_substCLoop_wf (wf : WellFormed sp rank) (h0 : ∀ j, sp.stored.get j = none)
    (hd : sp.getDef l = .cloop) (hl : sp.loopTo.get l = some t) (evs : List Events)
    (i : Nat) (hi : i < sp.defs.size) :
    fireTrace (sp.substCLoop l t) evs i = fireTrace sp evs i :=
  fireTrace_substCLoop wf.ranked hd hl evs (fun evs' => lift_inv_cloop wf h0 hd hl evs') i hi

theorem val_run_substCLoop_wf (wf : WellFormed sp rank) (h0 : ∀ j, sp.stored.get j = none)
    (hd : sp.getDef l = .cloop) (hl : sp.loopTo.get l = some t) (evs : List Events) (x : Nat) :
    (run (sp.substCLoop l t) evs).val x = (run sp evs).val x := by
  have hv := fun evs' => lift_inv_cloop wf h0 hd hl evs'
  rw [run_substCLoop wf.ranked hd hl evs hv]
  exact val_substCLoop (wf.ranked.same (sameProg_run sp evs)).wellRanked (by simpa using hd)
    (by simpa using hl) (hv evs) x

end cloop

/-! ### concrete programs: a loop program and its substituted form -/

/-- `0 = sink`, `1 = sloop` closed to `4`, `2 = map 1`, `3 = hold 2` (an accumulator through the loop),
    `4 = snapshot 0 3`, `5 = merge 1 0`, `6 = switchs 3 [1, 0]`, `7 = once 1`, `8 = defer 1` -/
def demo11 : Spec :=
  { defs := #[.sink none, .sloop, .map 1 5, .hold 2 0, .snapshot 0 3 1, .merge 1 0 2, .switchs 3 [1, 0],
              .once 1, .defer 1],
    created := #[0, 0, 0, 0, 0, 0, 0, 0, 0],
    loopTo := Store.empty.set 1 (some 4) }

def demo11Rank : Nat → Nat
  | 0 => 0
  | 4 => 1
  | 1 => 2
  | 2 | 5 | 6 | 7 | 8 => 3
  | _ => 4

set_option maxRecDepth 8192 in
theorem demo11_ranked : StaticRanked demo11 demo11Rank := ⟨by decide, by decide, by decide⟩

/-- the substituted program, written out: every use of `1` reads `4`; the loop itself stays -/
example : (demo11.substLoop 1 4).defs =
    #[.sink none, .sloop, .map 4 5, .hold 2 0, .snapshot 0 3 1, .merge 4 0 2, .switchs 3 [4, 0],
      .once 4, .defer 4] := by decide

set_option maxRecDepth 8192 in
/-- computed directly, three transactions: same firings everywhere, and something does fire -/
example : (∀ i, i < 9 →
      fireTrace (demo11.substLoop 1 4) [[(0, 7)], [], [(0, 2)]] i = fireTrace demo11 [[(0, 7)], [], [(0, 2)]] i) ∧
    fireTrace demo11 [[(0, 7)], [], [(0, 2)]] 2 =
      [some (f1 5 (f2 1 7 0)), none, some (f1 5 (f2 1 2 (f1 5 (f2 1 7 0))))] ∧
    deferred (demo11.substLoop 1 4) (fireTable (demo11.substLoop 1 4) [(0, 7)]) = [(8, f2 1 7 0)] := by
  decide

/-- the same, for every sequence of transactions, as instances of the theorems -/
example (evs : List Events) (i : Nat) (hi : i < 9) :
    fireTrace (demo11.substLoop 1 4) evs i = fireTrace demo11 evs i ∧
    (run (demo11.substLoop 1 4) evs).val i = (run demo11 evs).val i :=
  ⟨fireTrace_substLoop demo11_ranked (by decide) (by decide) evs i hi,
   val_run_substLoop demo11_ranked (by decide) (by decide) evs i⟩

example (ev : Events) (i : Nat) (hi : i < 9) :
    fire (fireTable (demo11.substLoop 1 4) ev) i = fire (fireTable demo11 ev) i :=
  fire_substLoop demo11_ranked.wellRanked (by decide) (by decide) ev i hi

/-- `0 = sink`, `1 = cloop` closed to `3`, `2 = snapshot 0 1` (reads the loop's cell), `3 = hold 2 7`,
    `4 = mapc 1`, `5 = lift2 1 3`, `6 = updates 1`, `7 = value 1`, `8 = liftn [1, 4]`, `9 = gate 0 1` -/
def demo11c : Spec :=
  { defs := #[.sink none, .cloop, .snapshot 0 1 1, .hold 2 7, .mapc 1 2, .lift2 1 3 0, .updates 1, .value 1,
              .liftn [1, 4], .gate 0 1],
    created := #[0, 0, 0, 0, 0, 0, 0, 0, 0, 0],
    loopTo := Store.empty.set 1 (some 3) }

def demo11cRank : Nat → Nat
  | 0 => 0
  | 2 | 9 => 1
  | 3 => 2
  | 1 => 3
  | 4 | 5 | 6 | 7 => 4
  | _ => 5

set_option maxRecDepth 8192 in
theorem demo11c_wf : WellFormed demo11c demo11cRank := ⟨⟨by decide, by decide, by decide⟩, by decide, by decide⟩

theorem demo11c_init (j : Nat) : demo11c.stored.get j = none := Store.get_empty j

example : (demo11c.substCLoop 1 3).defs =
    #[.sink none, .cloop, .snapshot 0 3 1, .hold 2 7, .mapc 3 2, .lift2 3 3 0, .updates 3, .value 3,
      .liftn [3, 4], .gate 0 3] := by decide

set_option maxRecDepth 8192 in
example : (∀ i, i < 10 →
      fireTrace (demo11c.substCLoop 1 3) [[(0, 4)], [], [(0, 2)]] i = fireTrace demo11c [[(0, 4)], [], [(0, 2)]] i) ∧
    fireTrace demo11c [[(0, 4)], [], [(0, 2)]] 4 =
      [some (f1 2 (f2 1 4 7)), none, some (f1 2 (f2 1 2 (f2 1 4 7)))] ∧
    (∀ i, i < 10 → (run (demo11c.substCLoop 1 3) [[(0, 4)], [], [(0, 2)]]).val i
      = (run demo11c [[(0, 4)], [], [(0, 2)]]).val i) := by
  decide

example (evs : List Events) (i : Nat) (hi : i < 10) :
    fireTrace (demo11c.substCLoop 1 3) evs i = fireTrace demo11c evs i ∧
    (run (demo11c.substCLoop 1 3) evs).val i = (run demo11c evs).val i :=
  ⟨fireTrace_substCLoop_wf demo11c_wf demo11c_init (by decide) (by decide) evs i hi,
   val_run_substCLoop_wf demo11c_wf demo11c_init (by decide) (by decide) evs i⟩

end Spec
end SodiumVerif
