/-
  C09 (second part) — the outputs of a program do not depend on the order in which its definitions
  were created.

  A *renaming* is a permutation `π` (with inverse `π'`) of the definition indices `[0, n)`.
  `Spec.rename π π' sp` is the program in which the definition that `sp` has at index `i` sits at index
  `π i` (every operand index, loop target, stored value, `once` flag and creation stamp moved along);
  `Events.rename π ev` moves the injected events.  Theorems, all for every one of the 31 constructors:

  * `val_rename`        : start-of-transaction cell values commute with the renaming;
  * `fireOf_rename`     : the firing equation commutes with the renaming;
  * `operands_rename`, `WellRanked.rename` : the ranking `rank ∘ π'` ranks the renamed program;
  * `fire_rename`       : `fire (fireTable sp' ev') (π i) = fire (fireTable sp ev) i` — by uniqueness
                          of total solutions (`fireTable_unique`);
  * `Renames.stepTxn`, `Renames.run`, `val_run_rename`, `fireTrace_rename` : the same after any number
                          of transactions, for cell values and firings.

  The theorems are stated for a relation `Renames π sp sp'` ("`sp'` is `sp` renamed by `π`");
  `renames_rename` shows that `Spec.rename π π' sp` satisfies it, and the `_rename'` corollaries are the
  statements about `Spec.rename` itself.

  Side conditions.  `Scoped sp`: every index mentioned by a definition, and every loop target, is
  `< sp.defs.size`, and no `switchs`/`switchc` has an empty candidate list (an empty list makes the
  equation read definition `0`, which is not an operand *index* and so does not move with `π`).
  `EvScoped`: the keys of the injected events are definitions.
-/
import SodiumVerif.Lemmas.SpecUnique
import SodiumVerif.Lemmas.SpecCell

namespace SodiumVerif
namespace Spec

open Bridge

/-! ### renaming of definitions, events, programs -/

/-- apply `π` to every operand index -/
def Def.rename (π : Nat → Nat) : Def → Def
  | .sink c => .sink c
  | .csink k => .csink k
  | .const k => .const k
  | .never => .never
  | .map s k => .map (π s) k
  | .mapto s k => .mapto (π s) k
  | .filter s k => .filter (π s) k
  | .merge a b op => .merge (π a) (π b) op
  | .orelse a b => .orelse (π a) (π b)
  | .snapshot s c op => .snapshot (π s) (π c) op
  | .snapshot1 s c => .snapshot1 (π s) (π c)
  | .snapshotn s cs => .snapshotn (π s) (cs.map π)
  | .gate s c => .gate (π s) (π c)
  | .hold s k => .hold (π s) k
  | .holdz s c => .holdz (π s) (π c)
  | .once s => .once (π s)
  | .updates c => .updates (π c)
  | .value c => .value (π c)
  | .mapc c k => .mapc (π c) k
  | .lift2 a b op => .lift2 (π a) (π b) op
  | .liftn cs => .liftn (cs.map π)
  | .accum s k op => .accum (π s) k op
  | .collect s k op => .collect (π s) k op
  | .defer s => .defer (π s)
  | .split s n => .split (π s) n
  | .switchs sel cands => .switchs (π sel) (cands.map π)
  | .switchc sel cands => .switchc (π sel) (cands.map π)
  | .sloop => .sloop
  | .cloop => .cloop
  | .route src sel k => .route (π src) sel k
  | .when s t => .when (π s) (π t)

/-- every definition index a definition mentions -/
def Def.indices : Def → List Nat
  | .sink _ | .csink _ | .const _ | .never | .sloop | .cloop => []
  | .map s _ | .mapto s _ | .filter s _ | .hold s _ | .once s | .accum s _ _ | .collect s _ _
  | .defer s | .split s _ | .route s _ _ => [s]
  | .updates c | .value c | .mapc c _ => [c]
  | .merge a b _ | .orelse a b | .lift2 a b _ | .when a b => [a, b]
  | .snapshot s c _ | .snapshot1 s c | .gate s c | .holdz s c => [s, c]
  | .snapshotn s cs => s :: cs
  | .liftn cs => cs
  | .switchs sel cands | .switchc sel cands => sel :: cands

/-- a switch has at least one candidate -/
def Def.candsOk : Def → Bool
  | .switchs _ cands | .switchc _ cands => !cands.isEmpty
  | _ => true

/-- every index mentioned in the program is a definition of the program -/
structure Scoped (sp : Spec) : Prop where
  idx : ∀ i, i < sp.defs.size → ∀ j, j ∈ (sp.getDef i).indices → j < sp.defs.size
  cands : ∀ i, i < sp.defs.size → (sp.getDef i).candsOk = true
  loop : ∀ i, i < sp.defs.size → ∀ t, sp.loopTo.get i = some t → t < sp.defs.size

/-- `π`, `π'` are mutually inverse permutations of `[0, n)` -/
structure IsPerm (n : Nat) (π π' : Nat → Nat) : Prop where
  lt : ∀ i, i < n → π i < n
  lt' : ∀ j, j < n → π' j < n
  left : ∀ i, i < n → π' (π i) = i
  right : ∀ j, j < n → π (π' j) = j

theorem IsPerm.symm {n : Nat} {π π' : Nat → Nat} (h : IsPerm n π π') : IsPerm n π' π :=
  ⟨h.lt', h.lt, h.right, h.left⟩

theorem IsPerm.inj {n : Nat} {π π' : Nat → Nat} (h : IsPerm n π π') {a b : Nat} (ha : a < n) (hb : b < n)
    (e : π a = π b) : a = b := by
  rw [← h.left a ha, ← h.left b hb, e]

/-- injected events, keys renamed -/
def Events.rename (π : Nat → Nat) (ev : Events) : Events := ev.map fun p => (π p.1, p.2)

/-- the keys of the injected events are definitions of the program -/
def EvScoped (sp : Spec) (ev : Events) : Prop := ∀ p, p ∈ ev → p.1 < sp.defs.size

instance (sp : Spec) (ev : Events) : Decidable (EvScoped sp ev) := by unfold EvScoped; infer_instance

/-- the program with the definition of index `i` moved to index `π i` -/
def Spec.rename (π π' : Nat → Nat) (sp : Spec) : Spec :=
  { defs := Array.ofFn (n := sp.defs.size) fun j => (sp.getDef (π' j)).rename π,
    created := Array.ofFn (n := sp.defs.size) fun j => sp.created.getD (π' j) 0,
    stored := ⟨Array.ofFn (n := sp.defs.size) fun j => sp.stored.get (π' j)⟩,
    onceDone := ⟨Array.ofFn (n := sp.defs.size) fun j => sp.onceDone.get (π' j)⟩,
    loopTo := ⟨Array.ofFn (n := sp.defs.size) fun j => (sp.loopTo.get (π' j)).map π⟩,
    txn := sp.txn }

/-- `sp'` is `sp` with definition `i` at index `π i` -/
structure Renames (π : Nat → Nat) (sp sp' : Spec) : Prop where
  size : sp'.defs.size = sp.defs.size
  getDef : ∀ i, i < sp.defs.size → sp'.getDef (π i) = (sp.getDef i).rename π
  created : ∀ i, i < sp.defs.size → sp'.created.getD (π i) 0 = sp.created.getD i 0
  stored : ∀ i, i < sp.defs.size → sp'.stored.get (π i) = sp.stored.get i
  onceDone : ∀ i, i < sp.defs.size → sp'.onceDone.get (π i) = sp.onceDone.get i
  loopTo : ∀ i, i < sp.defs.size → sp'.loopTo.get (π i) = (sp.loopTo.get i).map π
  txn : sp'.txn = sp.txn

theorem store_ofFn_get {α : Type} [Inhabited α] (n : Nat) (f : Fin n → α) (j : Nat) (h : j < n) :
    (Store.mk (Array.ofFn f)).get j = f ⟨j, h⟩ := by
  simp [Store.get, h]

/-- `Spec.rename` is a renaming -/
theorem renames_rename {π π' : Nat → Nat} {sp : Spec} (P : IsPerm sp.defs.size π π') :
    Renames π sp (sp.rename π π') := by
  have hsz : (sp.rename π π').defs.size = sp.defs.size := by simp [Spec.rename]
  refine ⟨hsz, ?_, ?_, ?_, ?_, ?_, rfl⟩
  · intro i hi
    have h := P.lt i hi
    simp [Spec.getDef, Spec.rename, Array.getD_eq_getD_getElem?, h, P.left i hi, hi]
  · intro i hi
    have h := P.lt i hi
    simp [Spec.rename, Array.getD_eq_getD_getElem?, h, P.left i hi]
  · intro i hi
    show (Store.mk (Array.ofFn _)).get (π i) = _
    rw [store_ofFn_get _ _ _ (P.lt i hi)]; simp only [P.left i hi]
  · intro i hi
    show (Store.mk (Array.ofFn _)).get (π i) = _
    rw [store_ofFn_get _ _ _ (P.lt i hi)]; simp only [P.left i hi]
  · intro i hi
    show (Store.mk (Array.ofFn _)).get (π i) = _
    rw [store_ofFn_get _ _ _ (P.lt i hi)]; simp only [P.left i hi]

/-! ### cell values commute with renaming -/

section commute
variable {π π' : Nat → Nat} {sp sp' : Spec}

theorem mapM_rename {α : Type} (g g' : Nat → Option α) (π : Nat → Nat) (cs : List Nat)
    (h : ∀ c, c ∈ cs → g' (π c) = g c) : (cs.map π).mapM g' = cs.mapM g := by
  rw [mapM_map_option]
  exact mapM_option_congr _ _ cs h

theorem getD_rename (π : Nat → Nat) (cands : List Nat) (k : Int) (h : cands ≠ []) :
    (cands.map π).getD (k % ((cands.map π).length : Int)).toNat 0
      = π (cands.getD (k % (cands.length : Int)).toNat 0) := by
  rw [List.length_map]
  exact getD_map_of_lt π cands _ 0 (emod_toNat_lt cands k h)

theorem getD_scoped {n : Nat} (cands : List Nat) (k : Int) (h : cands ≠ []) (hs : ∀ c, c ∈ cands → c < n) :
    cands.getD (k % (cands.length : Int)).toNat 0 < n :=
  hs _ (getD_emod_mem cands k h)

theorem cellVal_rename (R : Renames π sp sp') (S : Scoped sp) :
    ∀ (fuel i : Nat), i < sp.defs.size → cellVal sp' fuel (π i) = cellVal sp fuel i := by
  intro fuel
  induction fuel with
  | zero => intro i _; rfl
  | succ fuel ih =>
    intro i hi
    have hidx := S.idx i hi
    have hco := S.cands i hi
    rw [cellVal_succ, cellVal_succ, R.stored i hi, R.getDef i hi]
    cases hs : sp.stored.get i with
    | some v => rfl
    | none =>
      simp only []
      cases hd : sp.getDef i with
      | holdz s c =>
        rw [hd] at hidx
        simp only [Def.rename]; rw [ih c (hidx c (by simp [Def.indices]))]
      | mapc c k =>
        rw [hd] at hidx
        simp only [Def.rename]; rw [ih c (hidx c (by simp [Def.indices]))]
      | lift2 a b op =>
        rw [hd] at hidx
        simp only [Def.rename]
        rw [ih a (hidx a (by simp [Def.indices])), ih b (hidx b (by simp [Def.indices]))]
      | liftn cs =>
        rw [hd] at hidx
        simp only [Def.rename]
        rw [mapM_rename (cellVal sp fuel) (cellVal sp' fuel) π cs
          (fun c hc => ih c (hidx c (by simpa [Def.indices] using hc)))]
      | switchc sel cands =>
        rw [hd] at hidx hco
        have hne : cands ≠ [] := by simpa [Def.candsOk] using hco
        simp only [Def.rename]
        rw [ih sel (hidx sel (by simp [Def.indices]))]
        cases hk : cellVal sp fuel sel with
        | none => rfl
        | some k =>
          simp only [Option.bind_eq_bind, Option.bind_some]
          rw [getD_rename π cands k hne]
          exact ih _ (getD_scoped cands k hne (fun c hc => hidx c (by simp [Def.indices, hc])))
      | cloop =>
        simp only [Def.rename]
        rw [R.loopTo i hi]
        cases hl : sp.loopTo.get i with
        | none => rfl
        | some t => exact ih t (S.loop i hi t hl)
      | _ => rfl

/-- the value of a cell does not depend on the index it was created at -/
theorem val_rename (R : Renames π sp sp') (S : Scoped sp) (i : Nat) (hi : i < sp.defs.size) :
    sp'.val (π i) = sp.val i := by
  unfold Spec.val; rw [R.size]; exact cellVal_rename R S _ i hi

/-! ### events -/

theorem evGet_rename {n : Nat} (P : IsPerm n π π') (ev : Events) (hev : ∀ p, p ∈ ev → p.1 < n)
    (i : Nat) (hi : i < n) : (Events.rename π ev).get (π i) = ev.get i := by
  induction ev with
  | nil => rfl
  | cons p t ih =>
    have hp : p.1 < n := hev p List.mem_cons_self
    have iht := ih (fun q hq => hev q (List.mem_cons_of_mem _ hq))
    show Events.get ((π p.1, p.2) :: Events.rename π t) (π i) = _
    rw [evGet_cons, evGet_cons]
    by_cases e : p.1 = i
    · simp [e]
    · have : ¬ π p.1 = π i := fun e' => e (P.inj hp hi e')
      simp only [this, e, if_false]; exact iht

/-! ### the firing equation commutes with renaming -/

theorem fireOf_rename (R : Renames π sp sp') (S : Scoped sp) (P : IsPerm sp.defs.size π π')
    (ev : Events) (hev : EvScoped sp ev) (look : Nat → Option (Option Int))
    (i : Nat) (hi : i < sp.defs.size) :
    fireOf sp' (Events.rename π ev) (fun j => look (π' j)) (π i) = fireOf sp ev look i := by
  have hidx := S.idx i hi
  have hco := S.cands i hi
  have hd' := R.getDef i hi
  have hv := val_rename R S
  have hE := evGet_rename P ev hev i hi
  have hL : ∀ j, j < sp.defs.size → π' (π j) = j := P.left
  cases hd : sp.getDef i with
  | sink c =>
    rw [hd, Def.rename] at hd'
    rw [fireOf_sink _ _ _ _ hd, fireOf_sink _ _ _ _ hd', hE]
  | csink k =>
    rw [hd, Def.rename] at hd'
    rw [fireOf_csink _ _ _ _ hd, fireOf_csink _ _ _ _ hd', hE]
  | defer s =>
    rw [hd, Def.rename] at hd'
    rw [fireOf_defer _ _ _ _ hd, fireOf_defer _ _ _ _ hd', hE]
  | split s n =>
    rw [hd, Def.rename] at hd'
    rw [fireOf_split _ _ _ _ hd, fireOf_split _ _ _ _ hd', hE]
  | const k =>
    rw [hd, Def.rename] at hd'
    rw [fireOf_const _ _ _ _ hd, fireOf_const _ _ _ _ hd']
  | never =>
    rw [hd, Def.rename] at hd'
    rw [fireOf_never _ _ _ _ hd, fireOf_never _ _ _ _ hd']
  | map s k =>
    rw [hd] at hidx; rw [hd, Def.rename] at hd'
    rw [fireOf_map _ _ _ _ hd, fireOf_map _ _ _ _ hd', hL s (hidx s (by simp [Def.indices]))]
  | mapto s k =>
    rw [hd] at hidx; rw [hd, Def.rename] at hd'
    rw [fireOf_mapto _ _ _ _ hd, fireOf_mapto _ _ _ _ hd', hL s (hidx s (by simp [Def.indices]))]
  | filter s k =>
    rw [hd] at hidx; rw [hd, Def.rename] at hd'
    rw [fireOf_filter _ _ _ _ hd, fireOf_filter _ _ _ _ hd', hL s (hidx s (by simp [Def.indices]))]
  | merge a b op =>
    rw [hd] at hidx; rw [hd, Def.rename] at hd'
    rw [fireOf_merge _ _ _ _ hd, fireOf_merge _ _ _ _ hd', hL a (hidx a (by simp [Def.indices])),
      hL b (hidx b (by simp [Def.indices]))]
  | orelse a b =>
    rw [hd] at hidx; rw [hd, Def.rename] at hd'
    rw [fireOf_orelse _ _ _ _ hd, fireOf_orelse _ _ _ _ hd', hL a (hidx a (by simp [Def.indices])),
      hL b (hidx b (by simp [Def.indices]))]
  | snapshot s c op =>
    rw [hd] at hidx; rw [hd, Def.rename] at hd'
    rw [fireOf_snapshot _ _ _ _ hd, fireOf_snapshot _ _ _ _ hd', hL s (hidx s (by simp [Def.indices])),
      hv c (hidx c (by simp [Def.indices]))]
  | snapshot1 s c =>
    rw [hd] at hidx; rw [hd, Def.rename] at hd'
    rw [fireOf_snapshot1 _ _ _ _ hd, fireOf_snapshot1 _ _ _ _ hd', hL s (hidx s (by simp [Def.indices])),
      hv c (hidx c (by simp [Def.indices]))]
  | snapshotn s cs =>
    rw [hd] at hidx; rw [hd, Def.rename] at hd'
    rw [fireOf_snapshotn _ _ _ _ hd, fireOf_snapshotn _ _ _ _ hd', hL s (hidx s (by simp [Def.indices])),
      mapM_rename (fun c => sp.val c) (fun c => sp'.val c) π cs
        (fun c hc => hv c (hidx c (by simp [Def.indices, hc])))]
  | gate s c =>
    rw [hd] at hidx; rw [hd, Def.rename] at hd'
    rw [fireOf_gate _ _ _ _ hd, fireOf_gate _ _ _ _ hd', hL s (hidx s (by simp [Def.indices])),
      hv c (hidx c (by simp [Def.indices]))]
  | hold s k =>
    rw [hd] at hidx; rw [hd, Def.rename] at hd'
    rw [fireOf_hold _ _ _ _ hd, fireOf_hold _ _ _ _ hd', hL s (hidx s (by simp [Def.indices]))]
  | holdz s c =>
    rw [hd] at hidx; rw [hd, Def.rename] at hd'
    rw [fireOf_holdz _ _ _ _ hd, fireOf_holdz _ _ _ _ hd', hL s (hidx s (by simp [Def.indices]))]
  | once s =>
    rw [hd] at hidx; rw [hd, Def.rename] at hd'
    rw [fireOf_once _ _ _ _ hd, fireOf_once _ _ _ _ hd', hL s (hidx s (by simp [Def.indices])),
      R.onceDone i hi]
  | updates c =>
    rw [hd] at hidx; rw [hd, Def.rename] at hd'
    rw [fireOf_updates _ _ _ _ hd, fireOf_updates _ _ _ _ hd', hL c (hidx c (by simp [Def.indices]))]
  | value c =>
    rw [hd] at hidx; rw [hd, Def.rename] at hd'
    rw [fireOf_value _ _ _ _ hd, fireOf_value _ _ _ _ hd', hL c (hidx c (by simp [Def.indices])),
      hv c (hidx c (by simp [Def.indices])), R.created i hi, R.txn]
  | mapc c k =>
    rw [hd] at hidx; rw [hd, Def.rename] at hd'
    rw [fireOf_mapc _ _ _ _ hd, fireOf_mapc _ _ _ _ hd', hL c (hidx c (by simp [Def.indices]))]
  | lift2 a b op =>
    rw [hd] at hidx; rw [hd, Def.rename] at hd'
    rw [fireOf_lift2 _ _ _ _ hd, fireOf_lift2 _ _ _ _ hd', hL a (hidx a (by simp [Def.indices])),
      hL b (hidx b (by simp [Def.indices])), hv a (hidx a (by simp [Def.indices])),
      hv b (hidx b (by simp [Def.indices]))]
  | liftn cs =>
    rw [hd] at hidx; rw [hd, Def.rename] at hd'
    have hcs : ∀ c, c ∈ cs → c < sp.defs.size := fun c hc => hidx c (by simpa [Def.indices] using hc)
    rw [fireOf_liftn _ _ _ _ hd, fireOf_liftn _ _ _ _ hd',
      mapM_rename look (fun j => look (π' j)) π cs (fun c hc => congrArg look (hL c (hcs c hc)))]
    cases cs.mapM look with
    | none => rfl
    | some xs =>
      simp only [Option.bind_eq_bind, Option.bind_some]
      congr 2
      -- the zipped list: `(cs.map π).zip xs` against `cs.zip xs`
      have hz : ∀ (cs : List Nat) (xs : List (Option Int)), (∀ c, c ∈ cs → c < sp.defs.size) →
          ((cs.map π).zip xs).mapM (fun (p : Nat × Option Int) => p.2.orElse fun _ => sp'.val p.1)
            = (cs.zip xs).mapM (fun (p : Nat × Option Int) => p.2.orElse fun _ => sp.val p.1) := by
        intro cs
        induction cs with
        | nil => intro xs _; rfl
        | cons c cs ihc =>
          intro xs hcs
          cases xs with
          | nil => rfl
          | cons x xs =>
            rw [List.map_cons, List.zip_cons_cons, List.zip_cons_cons, List.mapM_cons, List.mapM_cons,
              ihc xs (fun c' hc' => hcs c' (List.mem_cons_of_mem _ hc'))]
            simp only [hv c (hcs c List.mem_cons_self)]
      rw [hz cs xs hcs]
  | accum s k op =>
    rw [hd] at hidx; rw [hd, Def.rename] at hd'
    rw [fireOf_accum _ _ _ _ hd, fireOf_accum _ _ _ _ hd', hL s (hidx s (by simp [Def.indices])), hv i hi]
  | collect s k op =>
    rw [hd] at hidx; rw [hd, Def.rename] at hd'
    rw [fireOf_collect _ _ _ _ hd, fireOf_collect _ _ _ _ hd', hL s (hidx s (by simp [Def.indices])),
      hv i hi]
  | switchs sel cands =>
    rw [hd] at hidx hco; rw [hd, Def.rename] at hd'
    have hne : cands ≠ [] := by simpa [Def.candsOk] using hco
    rw [fireOf_switchs _ _ _ _ hd, fireOf_switchs _ _ _ _ hd', hv sel (hidx sel (by simp [Def.indices]))]
    cases sp.val sel with
    | none => rfl
    | some k =>
      simp only []
      rw [getD_rename π cands k hne]
      rw [hL _ (getD_scoped cands k hne (fun c hc => hidx c (by simp [Def.indices, hc])))]
  | switchc sel cands =>
    rw [hd] at hidx hco; rw [hd, Def.rename] at hd'
    have hne : cands ≠ [] := by simpa [Def.candsOk] using hco
    have hcl : ∀ k : Int, cands.getD (k % (cands.length : Int)).toNat 0 < sp.defs.size := fun k =>
      getD_scoped cands k hne (fun c hc => hidx c (by simp [Def.indices, hc]))
    rw [fireOf_switchc _ _ _ _ hd, fireOf_switchc _ _ _ _ hd', hL sel (hidx sel (by simp [Def.indices])),
      hv sel (hidx sel (by simp [Def.indices]))]
    cases look sel with
    | none => rfl
    | some sf =>
      cases sf with
      | some k =>
        simp only [Option.bind_eq_bind, Option.bind_some]
        rw [getD_rename π cands k hne, hL _ (hcl k), hv _ (hcl k)]
      | none =>
        simp only [Option.bind_eq_bind, Option.bind_some]
        cases sp.val sel with
        | none => rfl
        | some k =>
          simp only []
          rw [getD_rename π cands k hne]
          rw [hL _ (hcl k)]
  | sloop =>
    rw [hd, Def.rename] at hd'
    rw [fireOf_sloop _ _ _ _ hd, fireOf_sloop _ _ _ _ hd', R.loopTo i hi]
    cases hl : sp.loopTo.get i with
    | none => rfl
    | some t => exact congrArg look (hL t (S.loop i hi t hl))
  | cloop =>
    rw [hd, Def.rename] at hd'
    rw [fireOf_cloop _ _ _ _ hd, fireOf_cloop _ _ _ _ hd', R.loopTo i hi]
    cases hl : sp.loopTo.get i with
    | none => rfl
    | some t => exact congrArg look (hL t (S.loop i hi t hl))
  | route src sel k =>
    rw [hd] at hidx; rw [hd, Def.rename] at hd'
    rw [fireOf_route _ _ _ _ hd, fireOf_route _ _ _ _ hd', hL src (hidx src (by simp [Def.indices]))]
  | «when» a b =>
    rw [hd] at hidx; rw [hd, Def.rename] at hd'
    rw [fireOf_when _ _ _ _ hd, fireOf_when _ _ _ _ hd', hL a (hidx a (by simp [Def.indices])),
      hL b (hidx b (by simp [Def.indices]))]

end commute

/-! ### the ranking transfers -/

section rank
variable {π π' : Nat → Nat} {sp sp' : Spec}

theorem operands_rename (R : Renames π sp sp') (S : Scoped sp) (i : Nat) (hi : i < sp.defs.size) :
    operands sp' (π i) = (operands sp i).map π := by
  have hidx := S.idx i hi
  have hco := S.cands i hi
  have hd' := R.getDef i hi
  unfold operands
  rw [hd']
  cases hd : sp.getDef i with
  | switchs sel cands =>
    rw [hd] at hidx hco
    have hne : cands ≠ [] := by simpa [Def.candsOk] using hco
    simp only [Def.rename]
    rw [val_rename R S sel (hidx sel (by simp [Def.indices]))]
    cases sp.val sel with
    | none => rfl
    | some k => simp only [List.map_cons, List.map_nil]; rw [getD_rename π cands k hne]
  | switchc sel cands =>
    rw [hd] at hco
    have hne : cands ≠ [] := by simpa [Def.candsOk] using hco
    have hne' : cands.map π ≠ [] := by simpa using hne
    simp only [Def.rename, hne, hne', if_false, List.map_cons]
  | sloop =>
    simp only [Def.rename]
    rw [R.loopTo i hi]
    cases sp.loopTo.get i <;> rfl
  | cloop =>
    simp only [Def.rename]
    rw [R.loopTo i hi]
    cases sp.loopTo.get i <;> rfl
  | _ => simp [Def.rename]

theorem valDeps_rename (R : Renames π sp sp') (i : Nat) (hi : i < sp.defs.size) :
    valDeps sp' (π i) = (valDeps sp i).map π := by
  unfold valDeps
  rw [R.getDef i hi]
  cases hd : sp.getDef i <;> simp [Def.rename]

/-- if `rank` ranks `sp`, then `rank ∘ π'` ranks the renamed program -/
theorem WellRanked.rename {rank : Nat → Nat} (wr : WellRanked sp rank) (R : Renames π sp sp')
    (S : Scoped sp) (P : IsPerm sp.defs.size π π') : WellRanked sp' (fun j => rank (π' j)) := by
  constructor
  · intro j hj
    rw [R.size] at hj ⊢
    exact wr.bound _ (P.lt' j hj)
  · intro j hj o ho
    rw [R.size] at hj ⊢
    have hj' := P.lt' j hj
    rw [← P.right j hj, operands_rename R S _ hj'] at ho
    obtain ⟨o', ho', rfl⟩ := List.mem_map.mp ho
    have := wr.dec _ hj' o' ho'
    refine ⟨P.lt _ this.1, ?_⟩
    show rank (π' (π o')) < rank (π' j)
    rw [P.left _ this.1]; exact this.2
  · intro j hj o ho
    rw [R.size] at hj ⊢
    have hj' := P.lt' j hj
    rw [← P.right j hj, valDeps_rename R _ hj'] at ho
    obtain ⟨o', ho', rfl⟩ := List.mem_map.mp ho
    have := wr.vdec _ hj' o' ho'
    refine ⟨P.lt _ this.1, ?_⟩
    show rank (π' (π o')) < rank (π' j)
    rw [P.left _ this.1]; exact this.2

/-! ### order independence: the firing of a definition does not depend on its index -/

/-- the table of the renamed program is the renamed table -/
theorem fireTable_rename {rank : Nat → Nat} (wr : WellRanked sp rank) (R : Renames π sp sp')
    (S : Scoped sp) (P : IsPerm sp.defs.size π π') (ev : Events) (hev : EvScoped sp ev)
    (i : Nat) (hi : i < sp.defs.size) :
    (fireTable sp' (Events.rename π ev)).get (π i) = (fireTable sp ev).get i := by
  have wr' := wr.rename R S P
  have hu := fireTable_unique sp' (Events.rename π ev) _ wr'
    (fun j => (fireTable sp ev).get (π' j))
    (by intro j hj
        rw [R.size] at hj
        exact fireTable_total sp ev rank wr _ (P.lt' j hj))
    (by intro j hj
        rw [R.size] at hj
        have hj' := P.lt' j hj
        have h := fireOf_rename R S P ev hev (fun j => (fireTable sp ev).get j) _ hj'
        rw [P.right j hj] at h
        rw [h]
        exact fireTable_fix sp ev rank wr _ hj')
  have := hu (π i) (by rw [R.size]; exact P.lt i hi)
  simp only [P.left i hi] at this
  exact this.symm

/-- **order independence** (C09): for a well-ranked program, the firing of every definition in a
    transaction is the same whatever index the definition (and the definitions it reads) were
    created at -/
theorem fire_rename {rank : Nat → Nat} (wr : WellRanked sp rank) (R : Renames π sp sp')
    (S : Scoped sp) (P : IsPerm sp.defs.size π π') (ev : Events) (hev : EvScoped sp ev)
    (i : Nat) (hi : i < sp.defs.size) :
    fire (fireTable sp' (Events.rename π ev)) (π i) = fire (fireTable sp ev) i := by
  unfold fire; rw [fireTable_rename wr R S P ev hev i hi]

end rank

/-! ### after the transaction -/

section step
variable {π π' : Nat → Nat} {sp sp' : Spec}

theorem isCell_rename (π : Nat → Nat) (d : Def) : (d.rename π).isCell = d.isCell := by
  cases d <;> rfl

theorem storedUpd_rename {rank : Nat → Nat} (wr : WellRanked sp rank) (R : Renames π sp sp')
    (S : Scoped sp) (P : IsPerm sp.defs.size π π') (ev : Events) (hev : EvScoped sp ev)
    (i : Nat) (hi : i < sp.defs.size) :
    storedUpd sp' (fireTable sp' (Events.rename π ev)) (π i) = storedUpd sp (fireTable sp ev) i := by
  have hf := fire_rename wr R S P ev hev
  have hidx := S.idx i hi
  unfold storedUpd
  rw [R.getDef i hi]
  cases hd : sp.getDef i with
  | collect s k op =>
    rw [hd] at hidx
    simp only [Def.rename]
    rw [hf s (hidx s (by simp [Def.indices])), val_rename R S i hi]
  | holdz s c =>
    rw [hd] at hidx
    simp only [Def.rename]
    rw [hf i hi, R.stored i hi, val_rename R S c (hidx c (by simp [Def.indices]))]
  | _ => simp only [Def.rename, Def.isCell, hf i hi] <;> try rfl

theorem onceUpd_rename {rank : Nat → Nat} (wr : WellRanked sp rank) (R : Renames π sp sp')
    (S : Scoped sp) (P : IsPerm sp.defs.size π π') (ev : Events) (hev : EvScoped sp ev)
    (i : Nat) (hi : i < sp.defs.size) :
    onceUpd sp' (fireTable sp' (Events.rename π ev)) (π i) = onceUpd sp (fireTable sp ev) i := by
  have hf := fire_rename wr R S P ev hev
  unfold onceUpd
  rw [R.getDef i hi]
  cases hd : sp.getDef i <;> simp only [Def.rename, hf i hi]

theorem Scoped.stepTxn (S : Scoped sp) (ev : Events) : Scoped (stepTxn sp ev) :=
  ⟨S.idx, S.cands, S.loop⟩

/-- a transaction preserves the renaming: the states after it are again renamings of each other -/
theorem Renames.stepTxn {rank : Nat → Nat} (R : Renames π sp sp') (wr : WellRanked sp rank)
    (S : Scoped sp) (P : IsPerm sp.defs.size π π') (ev : Events) (hev : EvScoped sp ev) :
    Renames π (stepTxn sp ev) (stepTxn sp' (Events.rename π ev)) := by
  refine ⟨R.size, R.getDef, R.created, ?_, ?_, R.loopTo, ?_⟩
  · intro i hi
    have hi' : i < sp.defs.size := hi
    have hπ : π i < sp'.defs.size := by rw [R.size]; exact P.lt i hi'
    rw [stepTxn_stored, stepTxn_stored, applyUpdates_stored_get, applyUpdates_stored_get,
      if_pos hπ, if_pos hi', storedUpd_rename wr R S P ev hev i hi', R.stored i hi']
  · intro i hi
    have hi' : i < sp.defs.size := hi
    have hπ : π i < sp'.defs.size := by rw [R.size]; exact P.lt i hi'
    rw [stepTxn_onceDone, stepTxn_onceDone, applyUpdates_onceDone_get, applyUpdates_onceDone_get,
      if_pos hπ, if_pos hi', onceUpd_rename wr R S P ev hev i hi', R.onceDone i hi']
  · show sp'.txn + 1 = sp.txn + 1
    rw [R.txn]

/-- cell values after the transaction do not depend on creation order -/
theorem val_stepTxn_rename {rank : Nat → Nat} (R : Renames π sp sp') (wr : WellRanked sp rank)
    (S : Scoped sp) (P : IsPerm sp.defs.size π π') (ev : Events) (hev : EvScoped sp ev)
    (i : Nat) (hi : i < sp.defs.size) :
    (stepTxn sp' (Events.rename π ev)).val (π i) = (stepTxn sp ev).val i :=
  val_rename (R.stepTxn wr S P ev hev) (S.stepTxn ev) i hi

theorem Scoped.run (S : Scoped sp) (evs : List Events) : Scoped (run sp evs) := by
  induction evs generalizing sp with
  | nil => exact S
  | cons ev evs ih => exact ih (S.stepTxn ev)

/-- any number of transactions preserves the renaming (the ranking is required to be static, i.e.
    w.r.t. all candidates of a `switchs`, so that it is a ranking in every later state) -/
theorem Renames.run {rank : Nat → Nat} (R : Renames π sp sp') (sr : StaticRanked sp rank)
    (S : Scoped sp) (P : IsPerm sp.defs.size π π') (evs : List Events)
    (hev : ∀ ev, ev ∈ evs → EvScoped sp ev) :
    Renames π (run sp evs) (run sp' (evs.map (Events.rename π))) := by
  induction evs generalizing sp sp' with
  | nil => exact R
  | cons ev evs ih =>
    rw [List.map_cons, run_cons, run_cons]
    exact ih (R.stepTxn sr.wellRanked S P ev (hev ev List.mem_cons_self))
      (sr.same (sameProg_stepTxn sp ev)) (S.stepTxn ev) P
      (fun ev' h' => hev ev' (List.mem_cons_of_mem _ h'))

/-- cell values after any number of transactions do not depend on creation order -/
theorem val_run_rename {rank : Nat → Nat} (R : Renames π sp sp') (sr : StaticRanked sp rank)
    (S : Scoped sp) (P : IsPerm sp.defs.size π π') (evs : List Events)
    (hev : ∀ ev, ev ∈ evs → EvScoped sp ev) (i : Nat) (hi : i < sp.defs.size) :
    (run sp' (evs.map (Events.rename π))).val (π i) = (run sp evs).val i :=
  val_rename (R.run sr S P evs hev) (S.run evs) i (by rw [run_defs]; exact hi)

/-- the whole sequence of firings of a definition does not depend on creation order -/
theorem fireTrace_rename {rank : Nat → Nat} (R : Renames π sp sp') (sr : StaticRanked sp rank)
    (S : Scoped sp) (P : IsPerm sp.defs.size π π') (evs : List Events)
    (hev : ∀ ev, ev ∈ evs → EvScoped sp ev) (i : Nat) (hi : i < sp.defs.size) :
    fireTrace sp' (evs.map (Events.rename π)) (π i) = fireTrace sp evs i := by
  induction evs generalizing sp sp' with
  | nil => rfl
  | cons ev evs ih =>
    have he := hev ev List.mem_cons_self
    rw [List.map_cons]
    unfold fireTrace
    rw [fire_rename sr.wellRanked R S P ev he i hi,
      ih (R.stepTxn sr.wellRanked S P ev he) (sr.same (sameProg_stepTxn sp ev)) (S.stepTxn ev) P
        (fun ev' h' => hev ev' (List.mem_cons_of_mem _ h')) hi]

end step

/-! ### the statements for `Spec.rename` -/

section concrete
variable {π π' : Nat → Nat} {sp : Spec}

theorem val_rename' (P : IsPerm sp.defs.size π π') (S : Scoped sp) (i : Nat) (hi : i < sp.defs.size) :
    (sp.rename π π').val (π i) = sp.val i :=
  val_rename (renames_rename P) S i hi

theorem fireOf_rename' (P : IsPerm sp.defs.size π π') (S : Scoped sp) (ev : Events) (hev : EvScoped sp ev)
    (look : Nat → Option (Option Int)) (i : Nat) (hi : i < sp.defs.size) :
    fireOf (sp.rename π π') (Events.rename π ev) (fun j => look (π' j)) (π i) = fireOf sp ev look i :=
  fireOf_rename (renames_rename P) S P ev hev look i hi

theorem WellRanked.rename' {rank : Nat → Nat} (wr : WellRanked sp rank) (P : IsPerm sp.defs.size π π')
    (S : Scoped sp) : WellRanked (sp.rename π π') (fun j => rank (π' j)) :=
  wr.rename (renames_rename P) S P

/-- **C09, order independence**: in the program whose definitions were created in the order given by
    the permutation `π`, every definition fires exactly what it fires in the original program -/
theorem fire_rename' {rank : Nat → Nat} (wr : WellRanked sp rank) (P : IsPerm sp.defs.size π π')
    (S : Scoped sp) (ev : Events) (hev : EvScoped sp ev) (i : Nat) (hi : i < sp.defs.size) :
    fire (fireTable (sp.rename π π') (Events.rename π ev)) (π i) = fire (fireTable sp ev) i :=
  fire_rename wr (renames_rename P) S P ev hev i hi

theorem val_stepTxn_rename' {rank : Nat → Nat} (wr : WellRanked sp rank) (P : IsPerm sp.defs.size π π')
    (S : Scoped sp) (ev : Events) (hev : EvScoped sp ev) (i : Nat) (hi : i < sp.defs.size) :
    (stepTxn (sp.rename π π') (Events.rename π ev)).val (π i) = (stepTxn sp ev).val i :=
  val_stepTxn_rename (renames_rename P) wr S P ev hev i hi

theorem val_run_rename' {rank : Nat → Nat} (sr : StaticRanked sp rank) (P : IsPerm sp.defs.size π π')
    (S : Scoped sp) (evs : List Events) (hev : ∀ ev, ev ∈ evs → EvScoped sp ev)
    (i : Nat) (hi : i < sp.defs.size) :
    (run (sp.rename π π') (evs.map (Events.rename π))).val (π i) = (run sp evs).val i :=
  val_run_rename (renames_rename P) sr S P evs hev i hi

theorem fireTrace_rename' {rank : Nat → Nat} (sr : StaticRanked sp rank) (P : IsPerm sp.defs.size π π')
    (S : Scoped sp) (evs : List Events) (hev : ∀ ev, ev ∈ evs → EvScoped sp ev)
    (i : Nat) (hi : i < sp.defs.size) :
    fireTrace (sp.rename π π') (evs.map (Events.rename π)) (π i) = fireTrace sp evs i :=
  fireTrace_rename (renames_rename P) sr S P evs hev i hi

end concrete

/-! ### a concrete program and the same program with independent definitions exchanged -/

/-- `0 = sink`, `1 = csink 4`, `2 = map 0`, `3 = snapshot 0 1`, `4 = merge 2 3`, `5 = hold 4`,
    `6 = sloop` closed to `4`, `7 = once 6`, `8 = switchs 1 [2, 3]` -/
def demo9 : Spec :=
  { defs := #[.sink none, .csink 4, .map 0 5, .snapshot 0 1 1, .merge 2 3 0, .hold 4 0, .sloop, .once 6,
              .switchs 1 [2, 3]],
    created := #[0, 0, 0, 0, 0, 0, 0, 0, 0],
    loopTo := Store.empty.set 6 (some 4) }

def demo9Rank : Nat → Nat
  | 0 | 1 => 0
  | 2 | 3 => 1
  | 4 => 2
  | 5 | 6 | 8 => 3
  | _ => 4

/-- exchange the two independent definitions `2` and `3`, and `5` with `8` -/
def swap9 (i : Nat) : Nat :=
  if i = 2 then 3 else if i = 3 then 2 else if i = 5 then 8 else if i = 8 then 5 else i

def demo9Ev : Events := [(0, 7), (1, 9)]

set_option maxRecDepth 8192 in
theorem demo9_ranked : StaticRanked demo9 demo9Rank := ⟨by decide, by decide, by decide⟩
set_option maxRecDepth 8192 in
theorem swap9_perm : IsPerm demo9.defs.size swap9 swap9 := ⟨by decide, by decide, by decide, by decide⟩
set_option maxRecDepth 8192 in
theorem demo9_scoped : Scoped demo9 := ⟨by decide, by decide, by decide⟩
theorem demo9Ev_scoped : EvScoped demo9 demo9Ev := by decide

set_option maxRecDepth 8192 in
/-- the renamed program, written out -/
example : (demo9.rename swap9 swap9).defs =
    #[.sink none, .csink 4, .snapshot 0 1 1, .map 0 5, .merge 3 2 0, .switchs 1 [3, 2], .sloop, .once 6,
      .hold 4 0] ∧ (demo9.rename swap9 swap9).loopTo.get 6 = some 4 := by decide

set_option maxRecDepth 8192 in
/-- computed directly: every definition fires the same at its new index (and something does fire) -/
example : (∀ i, i < 9 →
    fire (fireTable (demo9.rename swap9 swap9) (Events.rename swap9 demo9Ev)) (swap9 i)
      = fire (fireTable demo9 demo9Ev) i) ∧
    fire (fireTable demo9 demo9Ev) 4 = some (f2 0 (f1 5 7) (f2 1 7 4)) ∧
    fire (fireTable demo9 demo9Ev) 7 = fire (fireTable demo9 demo9Ev) 4 := by decide

set_option maxRecDepth 8192 in
/-- … and so do the cell values after the transaction -/
example : ∀ i, i < 9 →
    (stepTxn (demo9.rename swap9 swap9) (Events.rename swap9 demo9Ev)).val (swap9 i)
      = (stepTxn demo9 demo9Ev).val i := by decide

/-- the same facts as instances of the theorems, for every sequence of transactions -/
example (evs : List Events) (hev : ∀ ev, ev ∈ evs → EvScoped demo9 ev) (i : Nat) (hi : i < 9) :
    fireTrace (demo9.rename swap9 swap9) (evs.map (Events.rename swap9)) (swap9 i) = fireTrace demo9 evs i
    ∧ (run (demo9.rename swap9 swap9) (evs.map (Events.rename swap9))).val (swap9 i) = (run demo9 evs).val i :=
  ⟨fireTrace_rename' demo9_ranked swap9_perm demo9_scoped evs hev i hi,
   val_run_rename' demo9_ranked swap9_perm demo9_scoped evs hev i hi⟩

example (i : Nat) (hi : i < 9) :
    fire (fireTable (demo9.rename swap9 swap9) (Events.rename swap9 demo9Ev)) (swap9 i)
      = fire (fireTable demo9 demo9Ev) i :=
  fire_rename' demo9_ranked.wellRanked swap9_perm demo9_scoped demo9Ev demo9Ev_scoped i hi

end Spec
end SodiumVerif
