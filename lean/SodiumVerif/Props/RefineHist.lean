/-
  The refinement theorem along a whole history: in EVERY transaction of a history, the scheduler
  (M_sched, queue variant) run on the node graph of the program computes exactly the firing table that S
  assigns to that transaction, with S's cell values as they stand after the previous transactions.
  Corollary of `sched_refines_spec` (Props/Refine.lean): the state of S after `k` transactions has the same
  definitions and loops (so it is still ranked), and once every definition is older than the current
  transaction no `value` stream is in its creation transaction any more (so it is `Quiet`).
-/
import SodiumVerif.Props.Refine
import SodiumVerif.Lemmas.SpecCell

namespace SodiumVerif
namespace Bridge
open Spec Sched

/-- every definition was made in an earlier transaction -/
def Settled (sp : Spec) : Prop := ∀ i, i < sp.defs.size → sp.created.getD i 0 < sp.txn

theorem run_created (sp : Spec) (evs : List Events) : (run sp evs).created = sp.created := by
  induction evs generalizing sp with
  | nil => rfl
  | cons ev evs ih => rw [run_cons, ih, stepTxn_created]

theorem run_txn (sp : Spec) (evs : List Events) : (run sp evs).txn = sp.txn + evs.length := by
  induction evs generalizing sp with
  | nil => rfl
  | cons ev evs ih => rw [run_cons, ih, stepTxn_txn, List.length_cons]; omega

theorem Settled.quiet_run {sp : Spec} (h : Settled sp) (evs : List Events) : Quiet (run sp evs) := by
  intro i hi
  rw [run_defs] at hi
  unfold quietAt
  rw [run_getDef]
  split
  · rw [run_created, run_txn]
    have := h i hi
    simp only [bne_iff_ne, ne_eq]
    omega
  · rfl

theorem EvOK.run {sp : Spec} {ev : Events} (h : EvOK sp ev) (evs : List Events) : EvOK (run sp evs) ev :=
  ⟨h.nodup, fun p hp => by rw [run_getDef]; exact h.input p hp⟩

/-- **refinement along a history**: for a statically ranked program whose definitions all predate the
    history, whatever transactions `pre` came before, the scheduler run on the current state computes S's
    firing table of the next transaction `ev`, runs each update at most once, and runs exactly the updates
    of the definitions one of whose operands fires -/
theorem sched_refines_spec_history {sp : Spec} {rank : Nat → Nat} (sr : StaticRanked sp rank) (hs : Settled sp)
    (pre : List Events) (ev : Events) (hev : EvOK sp ev) :
    let spk := run sp pre
    (transaction false (specF spk ev) ev (specState spk)).oof = false ∧
    (transaction false (specF spk ev) ev (specState spk)).log.Nodup ∧
    (∀ i, ((transaction false (specF spk ev) ev (specState spk)).nodes.get i).val = fire (fireTable spk ev) i) ∧
    (∀ j, j ∈ (transaction false (specF spk ev) ev (specState spk)).log ↔
      (operands spk j).any (fun d => (fire (fireTable spk ev) d).isSome) = true) := by
  intro spk
  have wr : WellRanked spk rank := (sr.same (sameProg_run sp pre)).wellRanked
  obtain ⟨h1, _, h3, h4, h5⟩ := sched_refines_spec wr (hs.quiet_run pre) (hev.run pre)
  exact ⟨h1, h3, h4, h5⟩

end Bridge
end SodiumVerif
